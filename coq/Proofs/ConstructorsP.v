(* Soundness of the constructor models (C02): every arm returns an expression with the same
   classical meaning as the literal operator application, for every argument tree, in every
   differential field.

   [gsem S lg d sd e] is the classical meaning written directly with the derivations [D S lg i] of an
   abstract differential field: a value is a function of two indices (entry (i,j) of a matrix,
   (i,_) of a vector; a scalar is a constant function), so that sums and products are pointwise.
   [gden] (Model/ConstructorsM.v: tensors of terminal expressions, Core/Classical.v + tD) is linked
   to it by [gden_gsem]. *)
From Coq Require Import String ZArith List Bool Arith Lia Setoid Ring_theory Field_theory InitialRing Field.
From V Require Import Core.FieldEq Core.Terminal Core.TerminalP Core.DField Core.SExpr Core.Classical.
From V Require Import Model.DOpM Proofs.DOpP Model.ConstructorsM.
Import ListNotations.


(* ---------------------------------------------------------------- structural equality is sound *)
Lemma op1_eqb_eq a b : op1_eqb a b = true -> a = b.
Proof. destruct a, b; simpl; congruence. Qed.
Lemma op2_eqb_eq a b : op2_eqb a b = true -> a = b.
Proof. destruct a, b; simpl; congruence. Qed.

Lemma geqb_eq a : forall b, geqb a b = true -> a = b.
Proof.
  induction a as [p q|n|c|n|n|n c| |l IHl|l IHl|b x IHb IHx|f a IHa|o a IHa|o a b IHa IHb] using gexpr_ind';
    intros e H; destruct e; simpl in H; try discriminate;
    repeat match goal with
           | H : _ && _ = true |- _ => apply andb_true_iff in H; destruct H
           end;
    repeat match goal with
           | H : Z.eqb _ _ = true |- _ => apply Z.eqb_eq in H
           | H : Pos.eqb _ _ = true |- _ => apply Pos.eqb_eq in H
           | H : Nat.eqb _ _ = true |- _ => apply Nat.eqb_eq in H
           | H : String.eqb _ _ = true |- _ => apply String.eqb_eq in H
           | H : fname_eqb _ _ = true |- _ => apply fname_eqb_eq in H
           | H : op1_eqb _ _ = true |- _ => apply op1_eqb_eq in H
           | H : op2_eqb _ _ = true |- _ => apply op2_eqb_eq in H
           end; subst; try reflexivity.
  - f_equal. revert l0 H. induction IHl as [|x r Hx Hr IH]; intros [|y s] H; try discriminate; auto.
    apply andb_true_iff in H. destruct H as [H1 H2]. f_equal; auto.
  - f_equal. revert l0 H. induction IHl as [|x r Hx Hr IH]; intros [|y s] H; try discriminate; auto.
    apply andb_true_iff in H. destruct H as [H1 H2]. f_equal; auto.
  - f_equal; auto.
  - f_equal; auto.
  - f_equal; auto.
  - f_equal; auto.
Qed.

Section Sem.
  Variable S : dfield.
  Variable lg : bool.
  Variable d : nat.
  Variable sgt : gexpr -> gexpr -> bool.     (* str(a) > str(b): any function *)
  Add Field SF2 : (Fth S).
  Declare Scope fs_scope.
  Delimit Scope fs_scope with fs.
  Notation "0" := (f0 S) : fs_scope. Notation "1" := (f1 S) : fs_scope.
  Infix "+" := (fadd S) : fs_scope. Infix "*" := (fmul S) : fs_scope.
  Infix "-" := (fsub S) : fs_scope. Infix "/" := (fdiv S) : fs_scope.
  Notation "- x" := (fopp S x) : fs_scope.
  Local Open Scope fs_scope.
  Notation nm := (num S).
  Notation Dk := (D S lg).
  Notation fsum := (fsum S).
  Notation fprod := (fprod S).

  Definition val := nat -> nat -> F S.

  (* the final arm of a DiffOperator.eval model: either the space check raises or nothing is rewritten *)
  Ltac atom_arm H :=
    match type of H with
    | (if ?c then Raise else Ok _) = Ok _ => destruct c; [discriminate|]
    | _ => idtac
    end.

  (* sum_{k<n} f k *)
  Fixpoint sumn (n : nat) (f : nat -> F S) : F S :=
    match n with O => 0 | Datatypes.S k => sumn k f + f k end.

  Definition qnum (p : Z) (q : positive) : F S := if Pos.eqb q 1 then nm p else nm p / nm (Zpos q).

  Definition zpw (x : F S) (z : Z) : F S :=
    match z with
    | Z0 => pw S x 0
    | Zpos n => pw S x (Npos n)
    | Zneg n => finv S (pw S x (Npos n))
    end.

  Definition pow_sem (vb : F S) (part : option (F S)) (n : Z) : F S :=
    match part with
    | None => zpw vb n
    | Some e => if Z.eqb n 0 then P S vb e else P S vb e * zpw vb n
    end.

  (* b ** x : the exponent is split into a symbolic / fractional part and an integer shift, b^part * b^n
     (the reading of Model/ConstructorsM.gden and of tools/impl/ser.py); [vx] is the value of x *)
  Definition isnil {A} (l : list A) : bool := match l with [] => true | _ => false end.
  Definition pow_split (x : gexpr) (vx : F S) : option (F S) * Z :=
    match x with
    | GNum p q =>
        let n := zfloor p q in
        let fr := (p - n * Zpos q)%Z in
        ((if Z.eqb fr 0 then None else Some (qnum fr q)), n)
    | GAdd (GNum p q :: r) =>
        let n := zfloor p q in
        let fr := (p - n * Zpos q)%Z in
        if Z.eqb fr 0 && isnil r then (None, n) else (Some (vx - nm n), n)
    | _ => (Some vx, 0%Z)
    end.

  Definition sem1 (o : op1) (sd : side) (a am ap : val) : val :=
    match o with
    | OGrad => fun i j => Dk i (a j O)
    | OCurl =>
        match d with
        | 2 => fun _ _ => Dk 0 (a 1 0)%nat - Dk 1 (a 0 0)%nat
        | 3 => fun i _ =>
                 match i with
                 | 0%nat => Dk 1 (a 2 0)%nat - Dk 2 (a 1 0)%nat
                 | 1%nat => Dk 2 (a 0 0)%nat - Dk 0 (a 2 0)%nat
                 | 2%nat => Dk 0 (a 1 0)%nat - Dk 1 (a 0 0)%nat
                 | _ => 0
                 end
        | _ => fun _ _ => 0
        end
    | ORot => fun i _ =>
                match i with
                | 0%nat => Dk 1 (a 0 0)%nat
                | 1%nat => - Dk 0 (a 0 0)%nat
                | _ => 0
                end
    | ODiv => fun j _ => sumn d (fun i => Dk i (a i j))
    | OLaplace => fun i j => sumn d (fun k => Dk k (Dk k (a i j)))
    | OHessian => fun i j => Dk i (Dk j (a 0 0)%nat)
    | ODn => fun _ _ => sumn d (fun k => Dk k (a 0 0)%nat * nrm S sd k)
    | OMinus => am
    | OPlus => ap
    | OJump => fun i j => am i j - ap i j
    | OAvg => fun i j => (am i j + ap i j) / nm 2
    end.

  Definition dotv (a b : val) : F S := sumn d (fun k => a k O * b k O).

  (* Dot by the kinds of its arguments ([ma] / [mb]: the first / second argument is matrix-valued):
       vector . vector   sum_k a_k b_k                      (a scalar: the same value at every index)
       matrix . vector   (A b)_i = sum_k A_ik b_k           (contraction over the COLUMN index of the matrix)
       vector . matrix   (a B)_i = sum_k a_k B_ki           (contraction over the ROW index of the matrix)
     (core/algebra.py Dot_2d / Dot_3d; grad of a vector has entry (i,j) = d_i F_j).  matrix . matrix has no meaning in
     the library (both matrices are read as flat vectors); the value given to it here is immaterial. *)
  Definition dotm (ma mb : bool) (a b : val) : val :=
    fun i _ => sumn d (fun k => a (if ma then i else k) (if ma then k else O) * b k (if mb then i else O)).

  (* [mat] = (first argument is matrix-valued, second argument is matrix-valued); Inner only reads the first flag *)
  Definition sem2 (o : op2) (mat : bool * bool) (a b : val) : val :=
    match o with
    | ODot => dotm (fst mat) (snd mat) a b
    | OInner => if fst mat then fun _ _ => sumn d (fun i => sumn d (fun j => a i j * b i j)) else fun _ _ => dotv a b
    | OCross =>
        match d with
        | 2 => fun _ _ => a O O * b 1%nat O - a 1%nat O * b O O
        | 3 => fun i _ =>
                 match i with
                 | O => a 1%nat O * b 2 O - a 2 O * b 1%nat O
                 | Datatypes.S O => a 2 O * b O O - a O O * b 2 O
                 | Datatypes.S (Datatypes.S O) => a O O * b 1%nat O - a 1%nat O * b O O
                 | _ => 0
                 end
        | _ => fun _ _ => 0
        end
    | OOuter => fun i j => a i O * b j O
    | OConvect => fun i _ => sumn d (fun k => a k O * Dk k (b i O))
    | OBracket => fun _ _ => Dk 0 (a 0 0)%nat * Dk 1 (b 0 0)%nat - Dk 1 (a 0 0)%nat * Dk 0 (b 0 0)%nat
    end.

  Definition is_mat_shape (e : gexpr) : bool := is_mat d e.

  Fixpoint gsem (sd : side) (e : gexpr) {struct e} : val :=
    match e with
    | GNum p q => fun _ _ => qnum p q
    | GConst n => fun _ _ => cst S n
    | GCoord i => fun _ _ => crd S lg i
    | GSF n => fun _ _ => fld S n 0 sd
    | GVF n => fun i _ => fld S n (Datatypes.S i) sd
    | GComp n i => fun _ _ => fld S n (Datatypes.S i) sd
    | GNormal => fun i _ => nrm S sd i
    | GAdd l => fun i j => fsum (map (fun x => gsem sd x i j) l)
    | GMul l => fun i j => fprod (map (fun x => gsem sd x i j) l)
    | GPow b x => fun i j =>
        let ps := pow_split x (gsem sd x i j) in pow_sem (gsem sd b i j) (fst ps) (snd ps)
    | GFn f a => fun i j => E S f (gsem sd a i j)
    | G1 o a => sem1 o sd (gsem sd a) (gsem SMinus a) (gsem SPlus a)
    | G2 o a b => sem2 o (is_mat_shape a, is_mat_shape b) (gsem sd a) (gsem sd b)
    end.

  (* two expressions denote the same field *)
  Definition geq (a b : gexpr) : Prop := forall sd i j, gsem sd a i j = gsem sd b i j.

  Lemma geq_refl a : geq a a. Proof. intros sd i j. reflexivity. Qed.
  Lemma geq_sym a b : geq a b -> geq b a. Proof. intros H sd i j. symmetry. apply H. Qed.
  Lemma geq_trans a b c : geq a b -> geq b c -> geq a c.
  Proof. intros H1 H2 sd i j. rewrite H1. apply H2. Qed.

  (* ---------------------------------------------------------------- finite sums *)
  Lemma sumn_ext n f g : (forall k, (k < n)%nat -> f k = g k) -> sumn n f = sumn n g.
  Proof.
    induction n as [|n IH]; simpl; intros H; [reflexivity|].
    rewrite IH by (intros; apply H; lia). rewrite H by lia. reflexivity.
  Qed.
  Lemma sumn_add n f g : sumn n (fun k => f k + g k) = sumn n f + sumn n g.
  Proof. induction n as [|n IH]; simpl; [ring|]. rewrite IH. ring. Qed.
  Lemma sumn_sub n f g : sumn n (fun k => f k - g k) = sumn n f - sumn n g.
  Proof. induction n as [|n IH]; simpl; [ring|]. rewrite IH. ring. Qed.
  Lemma sumn_scal n c f : sumn n (fun k => c * f k) = c * sumn n f.
  Proof. induction n as [|n IH]; simpl; [ring|]. rewrite IH. ring. Qed.
  Lemma sumn_scal_r n c f : sumn n (fun k => f k * c) = sumn n f * c.
  Proof. induction n as [|n IH]; simpl; [ring|]. rewrite IH. ring. Qed.
  Lemma sumn_zero n : sumn n (fun _ => 0) = 0.
  Proof. induction n as [|n IH]; simpl; [reflexivity|]. rewrite IH. ring. Qed.
  Lemma sumn_opp n f : sumn n (fun k => - f k) = - sumn n f.
  Proof. induction n as [|n IH]; simpl; [ring|]. rewrite IH. ring. Qed.
  Lemma sumn_fsum n (l : list (nat -> F S)) :
    sumn n (fun k => fsum (map (fun f => f k) l)) = fsum (map (fun f => sumn n f) l).
  Proof.
    induction l as [|f r IH]; simpl; [apply sumn_zero|]. rewrite sumn_add, IH. reflexivity.
  Qed.
  Lemma D_sumn i n f : Dk i (sumn n f) = sumn n (fun k => Dk i (f k)).
  Proof. induction n as [|n IH]; simpl; [apply Dz|]. rewrite (D_add S), IH. reflexivity. Qed.

  (* ---------------------------------------------------------------- lists: sums, products, filters *)
  Lemma fsum_app l m : fsum (l ++ m) = fsum l + fsum m.
  Proof. induction l as [|x r IH]; simpl; [ring|]. rewrite IH. ring. Qed.
  Lemma fprod_app l m : fprod (l ++ m) = fprod l * fprod m.
  Proof. induction l as [|x r IH]; simpl; [ring|]. rewrite IH. ring. Qed.

  Lemma fprod_filter {A} (p : A -> bool) (f : A -> F S) l :
    fprod (map f l) = fprod (map f (filter p l)) * fprod (map f (filter (fun x => negb (p x)) l)).
  Proof.
    induction l as [|x r IH]; simpl; [ring|]. destruct (p x); simpl; rewrite IH; ring.
  Qed.
  Lemma fsum_filter {A} (p : A -> bool) (f : A -> F S) l :
    fsum (map f l) = fsum (map f (filter p l)) + fsum (map f (filter (fun x => negb (p x)) l)).
  Proof.
    induction l as [|x r IH]; simpl; [ring|]. destruct (p x); simpl; rewrite IH; ring.
  Qed.

  Lemma D_fsum' i l : Dk i (fsum l) = fsum (map (Dk i) l).
  Proof. apply D_fsum. Qed.

  (* ---------------------------------------------------------------- the substrate: gadd gmul gneg *)
  Lemma qnum_zero q : qnum 0 q = 0.
  Proof.
    unfold qnum. destruct (Pos.eqb q 1); [reflexivity|].
    change (nm 0) with 0. rewrite (Fdiv_def (Fth S)). ring.
  Qed.

  Lemma is_zero_sem e : is_zero e = true -> forall sd i j, gsem sd e i j = 0.
  Proof.
    destruct e as [p q| | | | | | | | | | | |]; try discriminate. destruct p; try discriminate.
    intros _ sd i j. simpl. apply qnum_zero.
  Qed.
  Lemma is_one_sem e : is_one e = true -> forall sd i j, gsem sd e i j = 1.
  Proof.
    destruct e as [p q| | | | | | | | | | | |]; try discriminate. destruct p as [|p|p]; try discriminate.
    destruct p; try discriminate. destruct q; try discriminate. intros _ sd i j. reflexivity.
  Qed.

  Lemma gzero_sem sd i j : gsem sd gzero i j = 0. Proof. reflexivity. Qed.
  Lemma gone_sem sd i j : gsem sd gone i j = 1. Proof. reflexivity. Qed.
  Lemma gint_sem z sd i j : gsem sd (gint z) i j = nm z. Proof. reflexivity. Qed.

  Lemma sem_flat_mul l sd i j :
    fprod (map (fun x => gsem sd x i j) (flat_mul l)) = fprod (map (fun x => gsem sd x i j) l).
  Proof.
    unfold flat_mul. induction l as [|x r IH]; simpl; [reflexivity|].
    rewrite map_app, fprod_app, IH. f_equal.
    destruct x; simpl; try ring; reflexivity.
  Qed.
  Lemma sem_flat_add l sd i j :
    fsum (map (fun x => gsem sd x i j) (flat_add l)) = fsum (map (fun x => gsem sd x i j) l).
  Proof.
    unfold flat_add. induction l as [|x r IH]; simpl; [reflexivity|].
    rewrite map_app, fsum_app, IH. f_equal.
    destruct x; simpl; try ring; reflexivity.
  Qed.

  Lemma fprod_has_zero l : In 0 l -> fprod l = 0.
  Proof. apply fprod_zero. Qed.

  Lemma gmul_sem l sd i j : gsem sd (gmul l) i j = fprod (map (fun x => gsem sd x i j) l).
  Proof.
    unfold gmul. rewrite <- (sem_flat_mul l). generalize (flat_mul l) as m. intros m.
    destruct (existsb is_zero m) eqn:Ez.
    - apply existsb_exists in Ez. destruct Ez as [x [Hx Zx]]. rewrite gzero_sem. symmetry.
      apply fprod_has_zero. apply in_map_iff. exists x. split; auto. now apply is_zero_sem.
    - clear Ez.
      assert (G : fprod (map (fun x => gsem sd x i j) (filter (fun x => negb (is_one x)) m))
                  = fprod (map (fun x => gsem sd x i j) m)).
      { induction m as [|x r IH]; simpl; auto. destruct (is_one x) eqn:E1; simpl.
        - rewrite IH, (is_one_sem x E1). ring.
        - now rewrite IH. }
      rewrite <- G. destruct (filter (fun x => negb (is_one x)) m) as [|x [|y r]].
      + reflexivity.
      + simpl. ring.
      + reflexivity.
  Qed.

  Lemma gadd_sem l sd i j : gsem sd (gadd l) i j = fsum (map (fun x => gsem sd x i j) l).
  Proof.
    unfold gadd. rewrite <- (sem_flat_add l). generalize (flat_add l) as m. intros m.
    assert (G : fsum (map (fun x => gsem sd x i j) (filter (fun x => negb (is_zero x)) m))
                = fsum (map (fun x => gsem sd x i j) m)).
    { induction m as [|x r IH]; simpl; auto. destruct (is_zero x) eqn:E1; simpl.
      - rewrite IH, (is_zero_sem x E1). ring.
      - now rewrite IH. }
    rewrite <- G. destruct (filter (fun x => negb (is_zero x)) m) as [|x [|y r]].
    + reflexivity.
    + simpl. ring.
    + reflexivity.
  Qed.

  Lemma gmul_raw_sem l sd i j : gsem sd (gmul_raw l) i j = fprod (map (fun x => gsem sd x i j) l).
  Proof. destruct l as [|x [|y r]]; simpl; try ring. reflexivity. Qed.
  Lemma gadd_raw_sem l sd i j : gsem sd (gadd_raw l) i j = fsum (map (fun x => gsem sd x i j) l).
  Proof. destruct l as [|x [|y r]]; simpl; try ring. reflexivity. Qed.

  Lemma gneg_sem e sd i j : gsem sd (gneg e) i j = - gsem sd e i j.
  Proof. unfold gneg. rewrite gmul_sem. simpl. unfold qnum. simpl. unfold num. simpl. ring. Qed.

  (* ---------------------------------------------------------------- definedness *)
  Fixpoint gdf (e : gexpr) : Prop :=
    match e with
    | GNum _ q => nm (Zpos q) <> 0
    | GAdd l | GMul l =>
        (fix all (l : list gexpr) : Prop := match l with [] => True | x :: r => gdf x /\ all r end) l
    | GPow b x =>
        gdf b /\ gdf x /\
        forall sd i j, gsem sd b i j <> 0 /\
                       match fst (pow_split x (gsem sd x i j)) with
                       | Some e => Pdom S (gsem sd b i j) e
                       | None => True
                       end
    | GFn f a =>
        gdf a /\ known_fn f = true /\
        forall sd i j, Edom S f (gsem sd a i j) /\
                       match f with
                       | Flog => gsem sd a i j <> 0
                       | Fsqrt => nm 2 * E S Fsqrt (gsem sd a i j) <> 0
                       | _ => True
                       end
    | G1 _ a => gdf a
    | G2 _ a b => gdf a /\ gdf b
    | _ => True
    end.

  Lemma gdf_list l :
    (fix all (l : list gexpr) : Prop := match l with [] => True | x :: r => gdf x /\ all r end) l <-> Forall gdf l.
  Proof.
    induction l as [|x r IH]; split; intros H; auto.
    - destruct H. constructor; auto. now apply IH.
    - inversion H; subst. split; auto. now apply IH.
  Qed.
  Lemma gdf_add l : gdf (GAdd l) <-> Forall gdf l. Proof. apply gdf_list. Qed.
  Lemma gdf_mul l : gdf (GMul l) <-> Forall gdf l. Proof. apply gdf_list. Qed.

  Lemma Forall_filter {A} (Q : A -> Prop) p (l : list A) : Forall Q l -> Forall Q (filter p l).
  Proof. induction 1; simpl; auto. destruct (p x); auto. Qed.

  Lemma gdf_gmul_raw l : Forall gdf l -> gdf (gmul_raw l).
  Proof.
    destruct l as [|x [|y r]]; intros H.
    - simpl. unfold num. simpl. apply (F_1_neq_0 (Fth S)).
    - now inversion H.
    - apply gdf_mul. exact H.
  Qed.
  Lemma gdf_gadd_raw l : Forall gdf l -> gdf (gadd_raw l).
  Proof.
    destruct l as [|x [|y r]]; intros H.
    - simpl. unfold num. simpl. apply (F_1_neq_0 (Fth S)).
    - now inversion H.
    - apply gdf_add. exact H.
  Qed.

  (* ---------------------------------------------------------------- integer and general powers *)
  Lemma pw0 x : pw S x 0 = 1. Proof. reflexivity. Qed.
  Lemma pw1 x : pw S x 1 = x. Proof. reflexivity. Qed.
  Lemma pw_succ x p : pw S x (Npos (Pos.succ p)) = x * pw S x (Npos p).
  Proof. apply (pow_pos_succ' (F S) _ _ _ _ _ _ _ _ (Fth S)). Qed.

  Lemma zpw_nz x z : x <> 0 -> zpw x z <> 0.
  Proof.
    intros Hx. destruct z as [|p|p]; unfold zpw.
    - rewrite pw0. apply (F_1_neq_0 (Fth S)).
    - now apply pw_nz.
    - assert (Hp : pw S x (Npos p) <> 0) by now apply pw_nz.
      intros H. apply (F_1_neq_0 (Fth S)).
      replace 1 with (finv S (pw S x (N.pos p)) * pw S x (N.pos p)) by (field; exact Hp).
      rewrite H. ring.
  Qed.

  Lemma zpw_pos_pred x p : zpw x (Zpos p - 1) = pw S x (Pos.pred_N p).
  Proof. destruct p; reflexivity. Qed.

  (* x^(z-1) * x = x^z *)
  Lemma zpw_pred x z : x <> 0 -> zpw x (z - 1) * x = zpw x z.
  Proof.
    intros Hx. destruct z as [|p|p].
    - change (zpw x (0 - 1)) with (finv S (pw S x 1)). unfold zpw. rewrite pw0, pw1. field. exact Hx.
    - rewrite zpw_pos_pred. unfold zpw. rewrite <- (pw_pred S x p). ring.
    - change (Zneg p - 1)%Z with (Zneg (p + 1)). unfold zpw. rewrite Pos.add_1_r, pw_succ.
      assert (Hp : pw S x (Npos p) <> 0) by now apply pw_nz.
      field. split; assumption.
  Qed.

  Lemma D_zpw k x z : x <> 0 -> Dk k (zpw x z) = nm z * zpw x z / x * Dk k x.
  Proof.
    intros Hx. destruct z as [|p|p]; unfold zpw.
    - rewrite pw0. change 1 with (nm 1) at 1. rewrite D_nm. change (nm 0) with 0. field. exact Hx.
    - rewrite Dpow_pos. rewrite <- (pw_pred S x p). field. exact Hx.
    - assert (Hp : pw S x (Npos p) <> 0) by now apply pw_nz.
      assert (Hq : pw S x (Pos.pred_N p) <> 0) by now apply pw_nz.
      rewrite Dinv by exact Hp. rewrite Dpow_pos. rewrite nm_neg.
      rewrite <- (pw_pred S x p). field. split; assumption.
  Qed.

  Definition part_val (part : option (F S)) : F S := match part with Some e => e | None => 0 end.

  Lemma pow_sem_eq vb part n :
    pow_sem vb part n = match part with Some e => P S vb e * zpw vb n | None => zpw vb n end.
  Proof.
    destruct part as [e|]; simpl; [|reflexivity].
    destruct (Z.eqb n 0) eqn:En; [|reflexivity]. apply Z.eqb_eq in En. subst n. unfold zpw. rewrite pw0. ring.
  Qed.

  Lemma D_pow_sem k vb part n :
    vb <> 0 ->
    match part with Some e => Pdom S vb e /\ Dk k e = 0 | None => True end ->
    Dk k (pow_sem vb part n) = (part_val part + nm n) * pow_sem vb part n / vb * Dk k vb.
  Proof.
    intros Hv Hp. rewrite !pow_sem_eq. destruct part as [e|]; simpl.
    - destruct Hp as [Hd He]. rewrite (D_mul S), D_zpw by exact Hv. rewrite (D_pow S) by assumption.
      rewrite He. field. exact Hv.
    - rewrite D_zpw by exact Hv. field. exact Hv.
  Qed.

  Lemma D_pow_sem_gen k vb part n :
    vb <> 0 ->
    match part with Some e => Pdom S vb e | None => True end ->
    Dk k (pow_sem vb part n) =
    pow_sem vb part n * (Dk k (part_val part) * E S Flog vb) + (part_val part + nm n) * pow_sem vb part n / vb * Dk k vb.
  Proof.
    intros Hv Hp. rewrite !pow_sem_eq. destruct part as [e|]; simpl.
    - rewrite (D_mul S), D_zpw by exact Hv. rewrite (D_pow S) by assumption. field. exact Hv.
    - rewrite D_zpw by exact Hv. rewrite Dz. field. exact Hv.
  Qed.

  (* ---------------------------------------------------------------- numbers are constants *)
  Lemma number_const e : is_number e = true ->
    forall sd sd' i j i' j', gsem sd e i j = gsem sd' e i' j'.
  Proof.
    induction e as [p q|n|k|n|n|n k| |l IHl|l IHl|b x IHb IHx|f a IHa|o a IHa|o a b IHa IHb] using gexpr_ind';
      intros Hn sd sd' i j i' j'; try discriminate; try reflexivity.
    - simpl. f_equal. apply map_ext_in. intros y Hy. simpl in Hn. rewrite forallb_forall in Hn.
      rewrite Forall_forall in IHl. now apply IHl; auto.
    - simpl. f_equal. apply map_ext_in. intros y Hy. simpl in Hn. rewrite forallb_forall in Hn.
      rewrite Forall_forall in IHl. now apply IHl; auto.
    - simpl in Hn. apply andb_true_iff in Hn. destruct Hn as [N1 N2]. simpl.
      rewrite (IHb N1 sd sd' i j i' j'), (IHx N2 sd sd' i j i' j'). reflexivity.
    - simpl. simpl in Hn. now rewrite (IHa Hn sd sd' i j i' j').
  Qed.

  Lemma D_qnum k p q : nm (Zpos q) <> 0 -> Dk k (qnum p q) = 0.
  Proof.
    intros Hq. unfold qnum. destruct (Pos.eqb q 1); [apply D_nm|].
    rewrite Ddiv by exact Hq. rewrite !D_nm. field. exact Hq.
  Qed.

  (* the symbolic part of an exponent with constant value is constant *)
  Lemma pow_split_D x vx k : Dk k vx = 0 -> gdf x ->
    match fst (pow_split x vx) with Some e => Dk k e = 0 | None => True end.
  Proof.
    intros Hv Hx. unfold pow_split. destruct x as [p q| | | | | | |l| | | | |]; simpl; auto.
    - destruct (Z.eqb (p - zfloor p q * Z.pos q) 0); simpl; auto. apply D_qnum. exact Hx.
    - destruct l as [|[p q| | | | | | | | | | | |] r]; simpl; auto.
      destruct (Z.eqb (p - zfloor p q * Z.pos q) 0 && isnil r); simpl; auto.
      rewrite Dsub, D_nm, Hv. ring.
  Qed.

  Lemma number_D e : is_number e = true -> gdf e -> forall sd i j k, Dk k (gsem sd e i j) = 0.
  Proof.
    induction e as [p q|n|c|n|n|n c| |l IHl|l IHl|b x IHb IHx|f a IHa|o a IHa|o a b IHa IHb] using gexpr_ind';
      intros Hn Hd sd i j k; try discriminate.
    - simpl. now apply D_qnum.
    - simpl. apply (D_cst S).
    - simpl. apply D_fsum_zero. simpl in Hn. apply gdf_add in Hd.
      rewrite forallb_forall in Hn. rewrite Forall_forall in *. intros y Hy.
      apply in_map_iff in Hy. destruct Hy as [z [<- Hz]]. auto.
    - simpl. apply D_fprod_zero. simpl in Hn. apply gdf_mul in Hd.
      rewrite forallb_forall in Hn. rewrite Forall_forall in *. intros y Hy.
      apply in_map_iff in Hy. destruct Hy as [z [<- Hz]]. auto.
    - simpl in Hn. apply andb_true_iff in Hn. destruct Hn as [N1 N2].
      destruct Hd as (Hb & Hx & Hq). specialize (Hq sd i j). destruct Hq as [Hnz Hpd].
      simpl. rewrite D_pow_sem.
      + rewrite (IHb N1 Hb). ring.
      + exact Hnz.
      + pose proof (pow_split_D x (gsem sd x i j) k (IHx N2 Hx sd i j k) Hx) as Hps.
        destruct (fst (pow_split x (gsem sd x i j))) as [e|]; [|exact I]. split; assumption.
    - simpl in Hn. destruct Hd as (Ha & Hk & Hdm). specialize (Hdm sd i j). destruct Hdm as [Hdom Hm].
      specialize (IHa Hn Ha sd i j k). simpl.
      destruct f; try discriminate.
      + rewrite (D_sin S) by auto. rewrite IHa. ring.
      + rewrite (D_cos S) by auto. rewrite IHa. ring.
      + rewrite (D_tan S) by auto. rewrite IHa. ring.
      + rewrite (D_exp S) by auto. rewrite IHa. ring.
      + rewrite (D_log S) by auto. rewrite IHa. field. exact Hm.
      + rewrite (D_sqrt S) by auto. rewrite IHa. field.
        split; intros Hz; apply Hm; unfold num; rewrite Hz; ring.
  Qed.

  (* ---------------------------------------------------------------- shapes: scalars are constant functions of the indices *)
  Definition scalar_like (e : gexpr) : Prop := forall sd i j, gsem sd e i j = gsem sd e O O.
  Definition vector_like (e : gexpr) : Prop := forall sd i j, gsem sd e i j = gsem sd e i O.

  Lemma scalar_vector e : scalar_like e -> vector_like e.
  Proof. intros H sd i j. rewrite (H sd i j), (H sd i O). reflexivity. Qed.

  Lemma fold_add_all (l : list gexpr) : forall acc s,
    fold_left (fun a y => shape_add a (gshape d y)) l acc = Some s ->
    acc = Some s /\ Forall (fun y => gshape d y = Some s) l.
  Proof.
    induction l as [|x r IH]; intros acc s H; simpl in H.
    - split; auto.
    - apply IH in H. destruct H as [H1 H2].
      destruct acc as [a|]; [|discriminate]. destruct (gshape d x) as [b|] eqn:Eb; [|discriminate].
      simpl in H1. destruct (shape_eqb a b) eqn:Eab; [|discriminate]. inversion H1; subst.
      destruct s, b; try discriminate; split; auto.
  Qed.

  Lemma fold_mul_none (l : list gexpr) : fold_left (fun a y => shape_mul a (gshape d y)) l None = None.
  Proof. induction l as [|x r IH]; simpl; auto. destruct (gshape d x) as [[| |]|]; exact IH. Qed.

  Lemma fold_mul_S (l : list gexpr) : forall acc,
    fold_left (fun a y => shape_mul a (gshape d y)) l acc = Some ShS ->
    acc = Some ShS /\ Forall (fun y => gshape d y = Some ShS) l.
  Proof.
    induction l as [|x r IH]; intros acc H; simpl in H.
    - split; auto.
    - apply IH in H. destruct H as [H1 H2].
      destruct acc as [[| |]|]; destruct (gshape d x) as [[| |]|] eqn:Ex; try discriminate; split; auto.
  Qed.

  Lemma fold_mul_V (l : list gexpr) : forall acc,
    fold_left (fun a y => shape_mul a (gshape d y)) l acc = Some ShV ->
    (acc = Some ShS \/ acc = Some ShV) /\
    Forall (fun y => gshape d y = Some ShS \/ gshape d y = Some ShV) l.
  Proof.
    induction l as [|x r IH]; intros acc H; simpl in H.
    - split; auto.
    - apply IH in H. destruct H as [H1 H2].
      destruct acc as [[| |]|]; destruct (gshape d x) as [[| |]|] eqn:Ex; simpl in H1;
        destruct H1 as [H1|H1]; try discriminate; split; auto.
  Qed.

  Lemma shape_sem e :
    (gshape d e = Some ShS -> scalar_like e) /\ (gshape d e = Some ShV -> vector_like e).
  Proof.
    induction e as [p q|n|c|n|n|n c| |l IHl|l IHl|b x IHb IHx|f a IHa|o a IHa|o a b IHa IHb] using gexpr_ind';
      try (split; intros H sd i j; try discriminate; reflexivity).
    - (* Add *)
      split; intros H sd i j; simpl in H; destruct l as [|x r]; try discriminate;
        apply fold_add_all in H; destruct H as [Hx Hr]; simpl; f_equal;
        inversion IHl as [|? ? Ix Ir]; subst.
      + apply Ix. exact Hx.
      + f_equal. apply map_ext_in. intros y Hy. rewrite Forall_forall in Ir, Hr. apply Ir; auto.
      + apply Ix. exact Hx.
      + f_equal. apply map_ext_in. intros y Hy. rewrite Forall_forall in Ir, Hr. apply Ir; auto.
    - (* Mul *)
      split; intros H sd i j; simpl in H.
      + apply fold_mul_S in H. destruct H as [_ H]. simpl. f_equal. apply map_ext_in. intros y Hy.
        rewrite Forall_forall in IHl, H. apply IHl; auto.
      + apply fold_mul_V in H. destruct H as [_ H]. simpl. f_equal. apply map_ext_in. intros y Hy.
        rewrite Forall_forall in IHl, H. destruct (H y Hy) as [Hs|Hv].
        * apply scalar_vector. apply IHl; auto.
        * apply IHl; auto.
    - (* Pow *)
      split; intros H sd i j; simpl in H;
        destruct (gshape d b) as [[| |]|]; try discriminate; destruct (gshape d x) as [[| |]|]; try discriminate.
      simpl. destruct IHb as [Sb _], IHx as [Sx _].
      rewrite (Sb eq_refl sd i j), (Sx eq_refl sd i j). reflexivity.
    - (* Fn *)
      split; intros H sd i j; simpl in H; destruct (gshape d a) as [[| |]|]; try discriminate.
      simpl. destruct IHa as [Sa _]. rewrite (Sa eq_refl sd i j). reflexivity.
    - (* G1 *)
      destruct IHa as [Sa Va].
      split; intros H sd i j; simpl in H; destruct (gshape d a) as [[| |]|] eqn:Ea; destruct o; simpl in H;
        try discriminate; simpl; try reflexivity;
        try (destruct d as [|[|[|[|?]]]]; try discriminate; reflexivity);
        try (rewrite (Sa eq_refl _ j O); reflexivity);
        try (apply sumn_ext; intros k Hk; rewrite (Va eq_refl _ k j); reflexivity);
        try (apply sumn_ext; intros k Hk; rewrite (Va eq_refl _ k i); reflexivity);
        try (apply sumn_ext; intros k Hk; rewrite (Sa eq_refl _ i j); reflexivity);
        try (apply sumn_ext; intros k Hk; rewrite (Va eq_refl _ i j); reflexivity);
        try (rewrite (Sa eq_refl _ i j); reflexivity);
        try (rewrite (Va eq_refl _ i j); reflexivity);
        try (rewrite (Sa eq_refl SMinus i j), (Sa eq_refl SPlus i j); reflexivity);
        try (rewrite (Va eq_refl SMinus i j), (Va eq_refl SPlus i j); reflexivity).
    - (* G2 *)
      split; intros H sd i j; simpl in H;
        destruct (gshape d a) as [[| |]|] eqn:Ea; destruct (gshape d b) as [[| |]|] eqn:Eb; destruct o; simpl in H;
        try discriminate; simpl; try reflexivity;
        try (unfold is_mat_shape, is_mat; rewrite ?Ea, ?Eb; reflexivity);
        try (destruct d as [|[|[|[|?]]]]; try discriminate; reflexivity).
  Qed.

  Lemma scalar_sem e : gshape d e = Some ShS -> scalar_like e.
  Proof. apply shape_sem. Qed.
  Lemma vector_sem e : gshape d e = Some ShV -> vector_like e.
  Proof. apply shape_sem. Qed.
  Lemma is_scalar_sem e : is_scalar d e = true -> scalar_like e.
  Proof. unfold is_scalar. destruct (gshape d e) as [[| |]|] eqn:E; try discriminate. intros _. now apply scalar_sem. Qed.

  Lemma number_scalar e : is_number e = true -> scalar_like e.
  Proof. intros H sd i j. now apply number_const. Qed.

  (* ---------------------------------------------------------------- every unary operator is linear over constants *)
  Ltac by_cases_d i tac :=
    destruct d as [|[|[|[|?]]]]; [tac|tac|tac|destruct i as [|[|[|?]]]; tac|tac].

  Lemma sem1_ext o sd (a am ap a' am' ap' : val) :
    (forall i j, a i j = a' i j) -> (forall i j, am i j = am' i j) -> (forall i j, ap i j = ap' i j) ->
    forall i j, sem1 o sd a am ap i j = sem1 o sd a' am' ap' i j.
  Proof.
    intros H Hm Hp i j. destruct o; cbn [sem1].
    - now rewrite H.
    - by_cases_d i ltac:(rewrite ?H; reflexivity).
    - destruct i as [|[|?]]; rewrite ?H; reflexivity.
    - apply sumn_ext. intros k _. now rewrite H.
    - apply sumn_ext. intros k _. now rewrite H.
    - now rewrite H.
    - apply sumn_ext. intros k _. now rewrite H.
    - now rewrite Hm, Hp.
    - now rewrite Hm, Hp.
    - apply Hm.
    - apply Hp.
  Qed.

  Lemma sem1_zero o sd i j : sem1 o sd (fun _ _ => 0) (fun _ _ => 0) (fun _ _ => 0) i j = 0.
  Proof.
    destruct o; cbn [sem1].
    - apply Dz.
    - by_cases_d i ltac:(rewrite ?Dz; ring).
    - destruct i as [|[|?]]; rewrite ?Dz; ring.
    - transitivity (sumn d (fun _ => 0)); [|apply sumn_zero]. apply sumn_ext. intros k _. apply Dz.
    - transitivity (sumn d (fun _ => 0)); [|apply sumn_zero]. apply sumn_ext. intros k _. rewrite Dz. apply Dz.
    - rewrite Dz. apply Dz.
    - transitivity (sumn d (fun _ => 0)); [|apply sumn_zero]. apply sumn_ext. intros k _. rewrite Dz. ring.
    - ring.
    - rewrite (Fdiv_def (Fth S)). ring.
    - reflexivity.
    - reflexivity.
  Qed.

  Lemma sem1_add o sd (a am ap b bm bp : val) i j :
    sem1 o sd (fun i j => a i j + b i j) (fun i j => am i j + bm i j) (fun i j => ap i j + bp i j) i j =
    sem1 o sd a am ap i j + sem1 o sd b bm bp i j.
  Proof.
    destruct o; cbn [sem1].
    - apply (D_add S).
    - by_cases_d i ltac:(rewrite ?(D_add S); ring).
    - destruct i as [|[|?]]; rewrite ?(D_add S); ring.
    - rewrite <- sumn_add. apply sumn_ext. intros k _. apply (D_add S).
    - rewrite <- sumn_add. apply sumn_ext. intros k _. now rewrite !(D_add S).
    - now rewrite !(D_add S).
    - rewrite <- sumn_add. apply sumn_ext. intros k _. rewrite (D_add S). ring.
    - ring.
    - rewrite !(Fdiv_def (Fth S)). ring.
    - reflexivity.
    - reflexivity.
  Qed.

  (* c constant (as a function of the indices, of the side and of the point) *)
  Lemma sem1_scal o sd c (a am ap : val) i j :
    (forall k, Dk k c = 0) ->
    sem1 o sd (fun i j => c * a i j) (fun i j => c * am i j) (fun i j => c * ap i j) i j =
    c * sem1 o sd a am ap i j.
  Proof.
    intros Hc.
    assert (L : forall k x, Dk k (c * x) = c * Dk k x).
    { intros k x. rewrite (D_mul S), Hc. ring. }
    destruct o; cbn [sem1].
    - apply L.
    - by_cases_d i ltac:(rewrite ?L; ring).
    - destruct i as [|[|?]]; rewrite ?L; ring.
    - rewrite <- sumn_scal. apply sumn_ext. intros k _. apply L.
    - rewrite <- sumn_scal. apply sumn_ext. intros k _. now rewrite !L.
    - now rewrite !L.
    - rewrite <- sumn_scal. apply sumn_ext. intros k _. rewrite L. ring.
    - ring.
    - rewrite !(Fdiv_def (Fth S)). ring.
    - reflexivity.
    - reflexivity.
  Qed.

  Lemma G1_add o l sd i j :
    gsem sd (G1 o (GAdd l)) i j = fsum (map (fun x => gsem sd (G1 o x) i j) l).
  Proof.
    cbn [gsem]. induction l as [|x r IH].
    - simpl map. cbn [DOpP.fsum]. apply sem1_zero.
    - cbn [map DOpP.fsum]. rewrite <- IH. rewrite <- sem1_add. apply sem1_ext; intros; reflexivity.
  Qed.

  Lemma G1_ext o a b : geq a b -> geq (G1 o a) (G1 o b).
  Proof. intros H sd i j. cbn [gsem]. apply sem1_ext; intros; apply H. Qed.

  (* c * V with c a product of numbers *)
  Lemma G1_scal o (cs vs : list gexpr) sd i j :
    Forall (fun x => is_number x = true) cs -> Forall gdf cs ->
    gsem sd (G1 o (GMul (cs ++ vs))) i j =
    fprod (map (fun x => gsem sd x i j) cs) * gsem sd (G1 o (gmul_raw vs)) i j.
  Proof.
    intros Hn Hd.
    set (c := fprod (map (fun x => gsem sd x O O) cs)).
    assert (Hc : forall sd' i' j', fprod (map (fun x => gsem sd' x i' j') cs) = c).
    { intros sd' i' j'. unfold c. f_equal. apply map_ext_in. intros y Hy.
      rewrite Forall_forall in Hn. now apply number_const; auto. }
    assert (HD : forall k, Dk k c = 0).
    { intros k. unfold c. apply D_fprod_zero. rewrite Forall_forall in *. intros y Hy.
      apply in_map_iff in Hy. destruct Hy as [z [<- Hz]]. apply number_D; auto. }
    rewrite Hc. cbn [gsem]. rewrite <- (sem1_scal o sd c) by exact HD.
    apply sem1_ext; intros i' j'; rewrite map_app, fprod_app, Hc, gmul_raw_sem; reflexivity.
  Qed.

  (* ---------------------------------------------------------------- the result monad *)
  Lemma mapM_ok f l : forall s rs, mapM f l = (s, rs) -> (exists z, s = Ok z) ->
    Forall2 (fun x y => f x = Ok y) l rs.
  Proof.
    induction l as [|a l IH]; simpl; intros s rs H [z Hz].
    - inversion H. constructor.
    - destruct (f a) eqn:E; try (inversion H; subst; discriminate).
      destruct (mapM f l) as [s' ys] eqn:Em. inversion H; subst. constructor; auto.
      eapply IH; eauto.
  Qed.

  Lemma bindL_ok p k r : bindL p k = Ok r -> (exists z, fst p = Ok z) /\ k (snd p) = Ok r.
  Proof. unfold bindL. destruct (fst p) eqn:E; try discriminate. intros H. split; eauto. Qed.

  Lemma bind_ok x k r : bind x k = Ok r -> exists y, x = Ok y /\ k y = Ok r.
  Proof. destruct x; simpl; try discriminate. eauto. Qed.

  Lemma Forall2_fsum (Q : gexpr -> gexpr -> Prop) (F1 F2 : gexpr -> F S) l rs :
    Forall2 Q l rs -> (forall x y, In x l -> Q x y -> F2 y = F1 x) ->
    fsum (map F2 rs) = fsum (map F1 l).
  Proof.
    induction 1 as [|x y l rs Hxy Hr IH]; intros HQ; simpl; [reflexivity|].
    rewrite (HQ x y) by (simpl; auto). rewrite IH; auto. intros; apply HQ; simpl; auto.
  Qed.

  (* ---------------------------------------------------------------- differential operators vanish on numbers *)
  Definition diffop (o : op1) : bool :=
    match o with OGrad | OCurl | ORot | ODiv | OLaplace | OHessian => true | _ => false end.

  Lemma G1_number o e : diffop o = true -> is_number e = true -> gdf e ->
    forall sd i j, gsem sd (G1 o e) i j = 0.
  Proof.
    intros Ho Hn Hd sd i j.
    assert (Z : forall i' j' k, Dk k (gsem sd e i' j') = 0) by (intros; now apply number_D).
    cbn [gsem]. destruct o; try discriminate; cbn [sem1].
    - apply Z.
    - by_cases_d i ltac:(rewrite ?Z; ring).
    - destruct i as [|[|?]]; rewrite ?Z; ring.
    - transitivity (sumn d (fun _ => 0)); [|apply sumn_zero]. apply sumn_ext. intros k _. apply Z.
    - transitivity (sumn d (fun _ => 0)); [|apply sumn_zero]. apply sumn_ext. intros k _. rewrite Z. apply Dz.
    - rewrite Z. apply Dz.
  Qed.

  Lemma no_types_sound o e : diffop o = true -> gdf e -> geq (no_types o e) (G1 o e).
  Proof.
    intros Ho Hd sd i j. unfold no_types. destruct (is_number e) eqn:En; [|reflexivity].
    rewrite G1_number by auto. reflexivity.
  Qed.

  (* the sum arm shared by all DiffOperator.eval: split by has(types) *)
  Lemma add_arm_sound o (rec : gexpr -> res) l ra rb :
    Forall2 (fun x y => rec x = Ok y) (filter has_types l) ra ->
    (forall x y, In x l -> rec x = Ok y -> geq y (G1 o x)) ->
    geq rb (G1 o (gadd_raw (filter (fun i => negb (has_types i)) l))) ->
    geq (gadd (ra ++ [rb])) (G1 o (GAdd l)).
  Proof.
    intros Ha Hrec Hb sd i j.
    rewrite gadd_sem, map_app, fsum_app. cbn [map DOpP.fsum].
    rewrite G1_add. rewrite (fsum_filter has_types (fun x => gsem sd (G1 o x) i j) l).
    f_equal.
    - apply (Forall2_fsum (fun x y => rec x = Ok y)); auto.
      intros x y Hx Hxy. apply Hrec; auto. apply filter_In in Hx. tauto.
    - rewrite Hb. rewrite <- G1_add.
      assert (E : geq (gadd_raw (filter (fun i0 => negb (has_types i0)) l)) (GAdd (filter (fun i0 => negb (has_types i0)) l))).
      { intros sd' i' j'. rewrite gadd_raw_sem. reflexivity. }
      rewrite (G1_ext o _ _ E). ring.
  Qed.

  Lemma gdf_filter_add p l : gdf (GAdd l) -> gdf (gadd_raw (filter p l)).
  Proof. intros H. apply gdf_gadd_raw. apply Forall_filter. now apply gdf_add. Qed.
  Lemma gdf_filter_mul p l : gdf (GMul l) -> gdf (gmul_raw (filter p l)).
  Proof. intros H. apply gdf_gmul_raw. apply Forall_filter. now apply gdf_mul. Qed.
  Lemma gdf_in_add l x : gdf (GAdd l) -> In x l -> gdf x.
  Proof. intros H Hx. apply gdf_add in H. rewrite Forall_forall in H. auto. Qed.
  Lemma gdf_in_mul l x : gdf (GMul l) -> In x l -> gdf x.
  Proof. intros H Hx. apply gdf_mul in H. rewrite Forall_forall in H. auto. Qed.

  (* product split by a predicate, as values *)
  Lemma mul_split p l sd i j :
    gsem sd (GMul l) i j =
    fprod (map (fun x => gsem sd x i j) (filter p l)) * fprod (map (fun x => gsem sd x i j) (filter (fun x => negb (p x)) l)).
  Proof. cbn [gsem]. apply fprod_filter. Qed.

  Lemma G1_mul_numbers o l sd i j :
    gdf (GMul l) ->
    gsem sd (G1 o (GMul l)) i j =
    fprod (map (fun x => gsem sd x i j) (filter is_number l)) *
    gsem sd (G1 o (gmul_raw (filter (fun a => negb (is_number a)) l))) i j.
  Proof.
    intros Hd.
    rewrite <- (G1_scal o (filter is_number l) (filter (fun a => negb (is_number a)) l)).
    - apply G1_ext. intros sd' i' j'. rewrite (mul_split is_number). cbn [gsem]. now rewrite map_app, fprod_app.
    - apply Forall_forall. intros x Hx. apply filter_In in Hx. tauto.
    - apply Forall_filter. now apply gdf_mul.
  Qed.

  (* ================================================================ Curl, Rot, Hessian *)
  Lemma curl_grad x : geq gzero (G1 OCurl (G1 OGrad x)).
  Proof.
    intros sd i j. cbn [gsem sem1]. rewrite gzero_sem.
    by_cases_d i ltac:(try reflexivity; try (rewrite (D_comm S lg 0 1); ring);
                       try (rewrite (D_comm S lg 1 2); ring); try (rewrite (D_comm S lg 2 0); ring)).
  Qed.

  Theorem mk_lin_sound fuel : forall o e r,
    diffop o = true -> mk_lin fuel o e = Ok r -> gdf e -> geq r (G1 o e).
  Proof.
    induction fuel as [|k IH]; intros o e r Ho H Hd; [discriminate|].
    cbn [mk_lin] in H. destruct (negb (has_types e)) eqn:Et.
    { inversion H; subst. now apply no_types_sound. }
    destruct e as [p q|n|c|n|n|n c| |l|l|b x|f a|o' a|o' a b];
      try (atom_arm H; inversion H; subst; apply geq_refl).
    - (* Add *)
      apply bindL_ok in H. destruct H as [Hs H]. apply bind_ok in H. destruct H as [rb [Hb H]].
      inversion H; subst. clear H.
      destruct (mapM (mk_lin k o) (filter has_types l)) as [s ra] eqn:Em. simpl in Hs. simpl.
      apply (add_arm_sound o (mk_lin k o)).
      + eapply mapM_ok; eauto.
      + intros x y Hx Hxy. apply (IH o x y Ho Hxy). eapply gdf_in_add; eauto.
      + apply (IH o _ _ Ho Hb). now apply gdf_filter_add.
    - (* Mul *)
      inversion H; subst. clear H. intros sd i j.
      rewrite gmul_sem. cbn [map DOpP.fprod]. rewrite gmul_sem.
      rewrite (G1_mul_numbers o l) by exact Hd. ring.
    - (* Curl(Grad) *)
      destruct o'; try (atom_arm H; inversion H; subst; apply geq_refl).
      destruct o; inversion H; subst; try apply geq_refl. apply curl_grad.
  Qed.

  (* ---------------------------------------------------------------- typing: where a matrix can come from *)
  Lemma shape_mul_nonS a b s : s <> ShS -> shape_mul a b = Some s -> (a = Some s /\ b = Some ShS) \/ (a = Some ShS /\ b = Some s).
  Proof.
    intros Hs H. destruct a as [[| |]|], b as [[| |]|]; simpl in H; try discriminate; inversion H; subst; auto; now elim Hs.
  Qed.

  Lemma fold_mul_nonS (l : list gexpr) s : s <> ShS -> forall acc,
    fold_left (fun a y => shape_mul a (gshape d y)) l acc = Some s ->
    acc = Some s \/ Exists (fun y => gshape d y = Some s) l.
  Proof.
    intros Hs. induction l as [|x r IH]; intros acc H; simpl in H; [now left|].
    apply IH in H. destruct H as [H|H]; [|right; now constructor 2].
    apply (shape_mul_nonS _ _ s Hs) in H. destruct H as [[H1 H2]|[H1 H2]]; [now left|right; now constructor 1].
  Qed.

  Lemma gshape_mul_nonS l s : s <> ShS -> gshape d (GMul l) = Some s -> Exists (fun y => gshape d y = Some s) l.
  Proof.
    intros Hs H. cbn [gshape] in H. apply (fold_mul_nonS l s Hs) in H. destruct H as [H|H]; auto.
    inversion H; subst. now elim Hs.
  Qed.

  Lemma gshape_add_head l s : gshape d (GAdd l) = Some s -> exists x r, l = x :: r /\ gshape d x = Some s.
  Proof.
    destruct l as [|x r]; [discriminate|]. cbn [gshape]. intros H. apply fold_add_all in H. exists x, r. tauto.
  Qed.

  Lemma existsb_in {A} (p : A -> bool) l x : In x l -> p x = true -> existsb p l = true.
  Proof. intros Hx Hp. apply existsb_exists. eauto. Qed.

  (* a vector- or matrix-valued expression contains something vector-valued *)
  Lemma has_vec_complete e : gshape d e = Some ShV \/ gshape d e = Some ShM -> has_vec e = true.
  Proof.
    induction e as [p q|n|c|n|n|n c| |l IHl|l IHl|b x IHb IHx|f a IHa|o a IHa|o a b IHa IHb] using gexpr_ind';
      intros H; try reflexivity; try (destruct H as [H|H]; discriminate).
    - (* Add *)
      assert (E : exists s, s <> ShS /\ gshape d (GAdd l) = Some s)
        by (destruct H as [H|H]; eexists; (split; [|exact H]); discriminate).
      destruct E as (s & Hs & E). destruct (gshape_add_head l s E) as (x & r & -> & Ex).
      inversion IHl as [|? ? Ix _]; subst. cbn [has_vec existsb]. rewrite Ix; [reflexivity|].
      destruct s; [now elim Hs|now left|now right].
    - (* Mul *)
      assert (E : exists s, s <> ShS /\ gshape d (GMul l) = Some s)
        by (destruct H as [H|H]; eexists; (split; [|exact H]); discriminate).
      destruct E as (s & Hs & E). apply (gshape_mul_nonS l s Hs) in E. apply Exists_exists in E.
      destruct E as (x & Hx & Ex). cbn [has_vec]. apply (existsb_in _ l x Hx).
      rewrite Forall_forall in IHl. apply IHl; auto. destruct s; [now elim Hs|now left|now right].
    - (* Pow *)
      cbn [gshape] in H. destruct (gshape d b) as [[| |]|]; destruct (gshape d x) as [[| |]|]; destruct H as [H|H]; discriminate.
    - (* Fn *)
      cbn [gshape] in H. destruct (gshape d a) as [[| |]|]; destruct H as [H|H]; discriminate.
    - (* G1 *)
      cbn [gshape] in H. cbn [has_vec].
      destruct o; try reflexivity; apply IHa;
        destruct (gshape d a) as [[| |]|]; simpl in H; try (destruct H as [H|H]; discriminate); auto;
        try (destruct d as [|[|[|[|?]]]]; simpl in H; destruct H as [H|H]; discriminate).
    - (* G2 *)
      cbn [gshape] in H. cbn [has_vec]. apply orb_true_iff.
      destruct (gshape d a) as [[| |]|] eqn:Ea; destruct (gshape d b) as [[| |]|] eqn:Eb;
        try (left; apply IHa; auto; fail); try (right; apply IHb; auto; fail);
        destruct o; simpl in H; try (destruct H as [H|H]; discriminate);
        destruct (Nat.eqb d 2); destruct H as [H|H]; discriminate.
  Qed.

  (* [may_mat] (the library's _may_be_matrix) never misses a matrix *)
  Lemma may_mat_complete e : is_mat d e = true -> may_mat e = true.
  Proof.
    unfold is_mat.
    induction e as [p q|n|c|n|n|n c| |l IHl|l IHl|b x IHb IHx|f a IHa|o a IHa|o a b IHa IHb] using gexpr_ind';
      intros H; try discriminate.
    - destruct (gshape d (GAdd l)) as [[| |]|] eqn:E; try discriminate.
      destruct (gshape_add_head l ShM E) as (x & r & -> & Ex).
      inversion IHl as [|? ? Ix _]; subst. cbn [may_mat existsb]. rewrite Ix; [reflexivity|now rewrite Ex].
    - destruct (gshape d (GMul l)) as [[| |]|] eqn:E; try discriminate.
      apply (gshape_mul_nonS l ShM) in E; [|discriminate]. apply Exists_exists in E. destruct E as (x & Hx & Ex).
      cbn [may_mat]. apply (existsb_in _ l x Hx). rewrite Forall_forall in IHl. apply IHl; auto. now rewrite Ex.
    - cbn [gshape] in H. destruct (gshape d b) as [[| |]|]; destruct (gshape d x) as [[| |]|]; discriminate.
    - cbn [gshape] in H. destruct (gshape d a) as [[| |]|]; discriminate.
    - cbn [gshape] in H. destruct (gshape d a) as [[| |]|] eqn:Ea; destruct o; simpl in H; try discriminate;
        cbn [may_mat]; try reflexivity;
        try (apply IHa; reflexivity);
        try (apply has_vec_complete; rewrite Ea; auto);
        try (destruct d as [|[|[|[|?]]]]; discriminate).
    - cbn [gshape] in H. destruct (gshape d a) as [[| |]|]; destruct (gshape d b) as [[| |]|]; destruct o; simpl in H;
        try discriminate; try reflexivity; destruct (Nat.eqb d 2); try discriminate;
        destruct d as [|[|[|[|?]]]]; discriminate.
  Qed.

  (* ---------------------------------------------------------------- structurally non-matrix expressions *)
  Lemma nomat_not_mat e : nomat d e = true -> is_mat d e = false.
  Proof.
    intros H. destruct (is_mat d e) eqn:E; [|reflexivity]. exfalso. revert H E. unfold is_mat.
    induction e as [p q|n|c|n|n|n c| |l IHl|l IHl|b x IHb IHx|f a IHa|o a IHa|o a b IHa IHb] using gexpr_ind';
      intros H E; try discriminate.
    - destruct (gshape d (GAdd l)) as [[| |]|] eqn:E'; try discriminate.
      destruct (gshape_add_head l ShM E') as (x & r & -> & Ex).
      inversion IHl as [|? ? Ix _]; subst. cbn [nomat forallb] in H. apply andb_true_iff in H. destruct H as [H _].
      apply (Ix H). now rewrite Ex.
    - destruct (gshape d (GMul l)) as [[| |]|] eqn:E'; try discriminate.
      apply (gshape_mul_nonS l ShM) in E'; [|discriminate]. apply Exists_exists in E'. destruct E' as (x & Hx & Ex).
      cbn [nomat] in H. rewrite forallb_forall in H. rewrite Forall_forall in IHl. apply (IHl x Hx (H x Hx)). now rewrite Ex.
    - cbn [gshape] in E. destruct (gshape d b) as [[| |]|]; destruct (gshape d x) as [[| |]|]; discriminate.
    - cbn [gshape] in E. destruct (gshape d a) as [[| |]|]; discriminate.
    - cbn [gshape] in E. destruct o; cbn [nomat] in H; try discriminate;
        try (unfold is_scalar in H; destruct (gshape d a) as [[| |]|]; simpl in E; discriminate);
        try (destruct (gshape d a) as [[| |]|] eqn:Ea; simpl in E; try discriminate; apply (IHa H); reflexivity);
        destruct (gshape d a) as [[| |]|]; simpl in E; try discriminate; destruct d as [|[|[|[|?]]]]; discriminate.
    - cbn [gshape] in E. destruct o; cbn [nomat] in H; try discriminate;
        destruct (gshape d a) as [[| |]|]; destruct (gshape d b) as [[| |]|]; simpl in E; try discriminate;
        try (destruct (Nat.eqb d 2); discriminate); destruct d as [|[|[|[|?]]]]; discriminate.
  Qed.

  (* a scalar- or vector-valued expression is structurally non-matrix *)
  Lemma shape_nomat e : gshape d e = Some ShS \/ gshape d e = Some ShV -> nomat d e = true.
  Proof.
    induction e as [p q|n|c|n|n|n c| |l IHl|l IHl|b x IHb IHx|f a IHa|o a IHa|o a b IHa IHb] using gexpr_ind';
      intros H; try reflexivity.
    - cbn [nomat]. apply forallb_forall. intros y Hy. rewrite Forall_forall in IHl. apply IHl; auto.
      destruct l as [|x r]; [destruct Hy|]. cbn [gshape] in H.
      destruct H as [H|H]; apply fold_add_all in H; destruct H as [Hx Hr]; rewrite Forall_forall in Hr;
        (destruct Hy as [<-|Hy]; [auto|]); [left|right]; auto.
    - cbn [nomat]. apply forallb_forall. intros y Hy. rewrite Forall_forall in IHl. apply IHl; auto.
      cbn [gshape] in H. destruct H as [H|H].
      + apply fold_mul_S in H. destruct H as [_ H]. rewrite Forall_forall in H. left. auto.
      + apply fold_mul_V in H. destruct H as [_ H]. rewrite Forall_forall in H. destruct (H y Hy); auto.
    - cbn [gshape] in H. cbn [nomat].
      destruct o; try reflexivity;
        try (unfold is_scalar; destruct (gshape d a) as [[| |]|]; simpl in H; try reflexivity; destruct H as [H|H]; discriminate);
        try (apply IHa; destruct (gshape d a) as [[| |]|]; simpl in H; auto; destruct H as [H|H]; discriminate).
    - cbn [gshape] in H. cbn [nomat]. destruct o; try reflexivity.
      destruct (gshape d a) as [[| |]|]; destruct (gshape d b) as [[| |]|]; simpl in H; destruct H as [H|H]; discriminate.
  Qed.

  Lemma nomat_flat_mul l : forallb (nomat d) l = true -> forallb (nomat d) (flat_mul l) = true.
  Proof.
    unfold flat_mul. induction l as [|x r IH]; simpl; auto. intros H. apply andb_true_iff in H. destruct H as [Hx Hr].
    rewrite forallb_app, (IH Hr), andb_true_r. destruct x; cbn [forallb]; try (rewrite Hx; reflexivity); exact Hx.
  Qed.
  Lemma nomat_flat_add l : forallb (nomat d) l = true -> forallb (nomat d) (flat_add l) = true.
  Proof.
    unfold flat_add. induction l as [|x r IH]; simpl; auto. intros H. apply andb_true_iff in H. destruct H as [Hx Hr].
    rewrite forallb_app, (IH Hr), andb_true_r. destruct x; cbn [forallb]; try (rewrite Hx; reflexivity); exact Hx.
  Qed.
  Lemma forallb_filter' {A} (q p : A -> bool) l : forallb q l = true -> forallb q (filter p l) = true.
  Proof. rewrite !forallb_forall. intros H x Hx. apply filter_In in Hx. apply H. tauto. Qed.

  Lemma nomat_gmul l : forallb (nomat d) l = true -> nomat d (gmul l) = true.
  Proof.
    intros H. unfold gmul. apply nomat_flat_mul in H. destruct (existsb is_zero (flat_mul l)); [reflexivity|].
    pose proof (forallb_filter' (nomat d) (fun x => negb (is_one x)) _ H) as Hf.
    destruct (filter (fun x => negb (is_one x)) (flat_mul l)) as [|x [|y r]]; [reflexivity| |exact Hf].
    simpl in Hf. now rewrite andb_true_r in Hf.
  Qed.
  Lemma nomat_gadd l : forallb (nomat d) l = true -> nomat d (gadd l) = true.
  Proof.
    intros H. unfold gadd. apply nomat_flat_add in H.
    pose proof (forallb_filter' (nomat d) (fun x => negb (is_zero x)) _ H) as Hf.
    destruct (filter (fun x => negb (is_zero x)) (flat_add l)) as [|x [|y r]]; [reflexivity| |exact Hf].
    simpl in Hf. now rewrite andb_true_r in Hf.
  Qed.
  Lemma nomat_gmul_raw l : forallb (nomat d) l = true -> nomat d (gmul_raw l) = true.
  Proof. destruct l as [|x [|y r]]; simpl; auto. now rewrite andb_true_r. Qed.
  Lemma nomat_gadd_raw l : forallb (nomat d) l = true -> nomat d (gadd_raw l) = true.
  Proof. destruct l as [|x [|y r]]; simpl; auto. now rewrite andb_true_r. Qed.

  (* hence the non-commutative part of every summand is not a matrix *)
  Lemma nomat_inner_flag e : nomat d e = true -> inner_flag d false e = true.
  Proof.
    induction e as [p q|n|c|n|n|n c| |l IHl|l IHl|b x IHb IHx|f a IHa|o a IHa|o a b IHa IHb] using gexpr_ind';
      intros H;
      try (cbn [inner_flag]; apply eqb_true_iff; apply nomat_not_mat; apply nomat_gmul; apply forallb_filter';
           cbn [forallb]; rewrite H; reflexivity).
    - cbn [inner_flag]. cbn [nomat] in H. rewrite forallb_forall in *. rewrite Forall_forall in IHl. auto.
    - cbn [inner_flag]. apply eqb_true_iff. apply nomat_not_mat. apply nomat_gmul. apply forallb_filter'. exact H.
  Qed.

  (* ---------------------------------------------------------------- what Grad.eval returns on a scalar is not matrix-valued *)
  Lemma fold_mul_allS l : Forall (fun y => gshape d y = Some ShS) l ->
    fold_left (fun a y => shape_mul a (gshape d y)) l (Some ShS) = Some ShS.
  Proof. induction 1 as [|x r Hx Hr IH]; simpl; auto. rewrite Hx. exact IH. Qed.
  Lemma fold_add_allS l : Forall (fun y => gshape d y = Some ShS) l ->
    fold_left (fun a y => shape_add a (gshape d y)) l (Some ShS) = Some ShS.
  Proof. induction 1 as [|x r Hx Hr IH]; simpl; auto. rewrite Hx. exact IH. Qed.

  Lemma gshape_mul_S l : gshape d (GMul l) = Some ShS <-> Forall (fun y => gshape d y = Some ShS) l.
  Proof.
    split; intros H.
    - cbn [gshape] in H. apply fold_mul_S in H. tauto.
    - cbn [gshape]. now apply fold_mul_allS.
  Qed.
  Lemma gshape_gmul_raw_S l : Forall (fun y => gshape d y = Some ShS) l -> gshape d (gmul_raw l) = Some ShS.
  Proof.
    intros H. destruct l as [|x [|y r]]; [reflexivity|now inversion H|]. cbn [gmul_raw]. now apply gshape_mul_S.
  Qed.
  Lemma gshape_gadd_raw_S l : Forall (fun y => gshape d y = Some ShS) l -> gshape d (gadd_raw l) = Some ShS.
  Proof.
    intros H. destruct l as [|x [|y r]]; [reflexivity|now inversion H|]. cbn [gadd_raw gshape].
    inversion H as [|? ? Hx Hr]; subst. rewrite Hx. now apply fold_add_allS.
  Qed.
  Lemma gshape_gmul_S l : Forall (fun y => gshape d y = Some ShS) l -> gshape d (gmul l) = Some ShS.
  Proof.
    intros H. unfold gmul.
    assert (Hf : Forall (fun y => gshape d y = Some ShS) (flat_mul l)).
    { unfold flat_mul. induction H as [|x r Hx Hr IH]; simpl; [constructor|]. apply Forall_app. split; auto.
      destruct x; try (constructor; [exact Hx|constructor]). now apply gshape_mul_S. }
    destruct (existsb is_zero (flat_mul l)); [reflexivity|].
    pose proof (Forall_filter _ (fun x => negb (is_one x)) _ Hf) as Hg.
    destruct (filter (fun x => negb (is_one x)) (flat_mul l)) as [|x [|y r]]; [reflexivity|now inversion Hg|].
    now apply gshape_mul_S.
  Qed.

  Lemma nomat_gpow b e : nomat d b = true -> nomat d (gpow b e) = true.
  Proof. intros H. unfold gpow. destruct (is_zero e); [reflexivity|]. destruct (is_one e); [exact H|reflexivity]. Qed.

  Lemma nomat_S e : gshape d e = Some ShS -> nomat d e = true.
  Proof. intros H. apply shape_nomat. now left. Qed.
  Lemma nomat_all_S l : Forall (fun y => gshape d y = Some ShS) l -> forallb (nomat d) l = true.
  Proof. intros H. apply forallb_forall. rewrite Forall_forall in H. intros x Hx. apply nomat_S. auto. Qed.

  Theorem mk_grad_nomat fuel : forall e r, mk_grad d fuel e = Ok r -> gshape d e = Some ShS -> nomat d r = true.
  Proof.
    induction fuel as [|k IH]; intros e r H Hs; [discriminate|].
    assert (GO : nomat d (G1 OGrad e) = true) by (cbn [nomat]; unfold is_scalar; now rewrite Hs).
    cbn [mk_grad] in H. destruct (negb (has_types e)).
    { inversion H; subst. unfold no_types. destruct (is_number e); [reflexivity|exact GO]. }
    destruct e as [p q|n|c|n|n|n c| |l|l|b x|f a|o' a|o' a b]; try (atom_arm H; inversion H; subst; exact GO).
    - (* Add *)
      assert (Sl : Forall (fun y => gshape d y = Some ShS) l).
      { destruct l as [|x0 r0]; [constructor|]. cbn [gshape] in Hs. apply fold_add_all in Hs. destruct Hs. constructor; auto. }
      apply bindL_ok in H. destruct H as [Hs' H]. apply bind_ok in H. destruct H as [rb [Hb H]].
      inversion H; subst. clear H.
      destruct (mapM (mk_grad d k) (filter has_types l)) as [s ra] eqn:Em. simpl in Hs'. simpl snd.
      apply nomat_gadd. rewrite forallb_app. apply andb_true_iff. split.
      + pose proof (mapM_ok _ _ _ _ Em Hs') as HF. clear Em.
        assert (Hin : forall x, In x (filter has_types l) -> gshape d x = Some ShS).
        { intros x Hx. apply filter_In in Hx. rewrite Forall_forall in Sl. apply Sl. tauto. }
        induction HF as [|x y l1 l2 Hxy HF IHF]; [reflexivity|]. cbn [forallb]. apply andb_true_iff. split.
        * eapply IH; eauto. apply Hin. now left.
        * apply IHF. intros z Hz. apply Hin. now right.
      + cbn [forallb]. rewrite andb_true_r. eapply IH; eauto. apply gshape_gadd_raw_S. now apply Forall_filter.
    - (* Mul *)
      apply gshape_mul_S in Hs.
      set (cm := filter (is_comm d) l) in *.
      set (ncm := filter (fun a => negb (is_comm d a)) l) in *.
      set (coeffs := filter is_number cm) in *.
      set (free := filter (fun a => negb (is_number a) && negb (has_types a)) cm) in *.
      set (cm' := filter (fun a => negb (is_number a) && has_types a) cm) in *.
      assert (Scm : Forall (fun y => gshape d y = Some ShS) cm) by (apply Forall_filter; exact Hs).
      assert (Sn : Forall (fun y => gshape d y = Some ShS) ncm) by (apply Forall_filter; exact Hs).
      assert (Sco : Forall (fun y => gshape d y = Some ShS) coeffs) by (apply Forall_filter; exact Scm).
      assert (Sfr : Forall (fun y => gshape d y = Some ShS) free) by (apply Forall_filter; exact Scm).
      assert (Scp : Forall (fun y => gshape d y = Some ShS) cm') by (apply Forall_filter; exact Scm).
      remember (gmul_raw free) as b1 eqn:Eb1.
      remember (gmul_raw cm') as b2 eqn:Eb2.
      remember (gmul_raw ncm) as b3 eqn:Eb3.
      remember (gmul coeffs) as a0 eqn:Ea0.
      assert (S1 : gshape d b1 = Some ShS) by (subst b1; now apply gshape_gmul_raw_S).
      assert (S2 : gshape d b2 = Some ShS) by (subst b2; now apply gshape_gmul_raw_S).
      assert (S3 : gshape d b3 = Some ShS) by (subst b3; now apply gshape_gmul_raw_S).
      assert (Na : nomat d a0 = true) by (subst a0; apply nomat_S; now apply gshape_gmul_S).
      destruct ncm as [|n0 nr] eqn:En.
      2:{ assert (Hr : r = gmul [a0; G1 OGrad (gmul [b1; b2; b3])]).
          { destruct free, cm'; inversion H; reflexivity. }
          subst r. apply nomat_gmul. cbn [forallb nomat]. rewrite Na. unfold is_scalar.
          rewrite gshape_gmul_S; [reflexivity|]. repeat (constructor; auto). }
      destruct free as [|f0 fr] eqn:Ef.
      2:{ apply bind_ok in H. destruct H as [db2 [Hdb2 H]]. inversion H; subst r. clear H.
          assert (Nd : nomat d db2 = true) by (eapply IH; eauto).
          apply nomat_gadd. cbn [forallb]. rewrite !nomat_gmul; [reflexivity| |].
          - cbn [forallb nomat]. unfold is_scalar. rewrite ?S1, ?Na, ?(nomat_S b2 S2), ?(nomat_S b1 S1), ?Nd. reflexivity.
          - cbn [forallb nomat]. unfold is_scalar. rewrite ?S1, ?Na, ?(nomat_S b2 S2), ?(nomat_S b1 S1), ?Nd. reflexivity. }
      destruct cm' as [|x [|y rest]] eqn:Ec.
      + inversion H; subst r. reflexivity.
      + apply bind_ok in H. destruct H as [rx [Hx H]]. inversion H; subst r. clear H.
        apply nomat_gmul. cbn [forallb]. rewrite Na, andb_true_r. simpl.
        eapply IH; eauto. now inversion Scp.
      + apply bind_ok in H. destruct H as [d1 [H1 H]]. apply bind_ok in H. destruct H as [d2 [H2 H]].
        inversion H; subst r. clear H.
        inversion Scp as [|? ? Sx Srest]; subst.
        assert (Sr : gshape d (gmul_raw (y :: rest)) = Some ShS) by now apply gshape_gmul_raw_S.
        assert (N1 : nomat d d1 = true) by (eapply IH; eauto).
        assert (N2 : nomat d d2 = true) by (eapply IH; eauto).
        pose proof (nomat_S _ Sr) as Nr. cbn [gmul_raw] in Nr.
        apply nomat_gadd. cbn [forallb]. rewrite !nomat_gmul; [reflexivity| |].
        * cbn [forallb]. rewrite ?Na, ?N1, ?N2, ?Nr, ?(nomat_S x Sx). reflexivity.
        * cbn [forallb]. rewrite ?Na, ?N1, ?N2, ?Nr, ?(nomat_S x Sx). reflexivity.
    - (* Pow *)
      assert (Sb : gshape d b = Some ShS /\ gshape d x = Some ShS).
      { cbn [gshape] in Hs. destruct (gshape d b) as [[| |]|]; try discriminate. destruct (gshape d x) as [[| |]|]; try discriminate. auto. }
      destruct Sb as [Sb Sx].
      assert (Ne : nomat d (gpow b (gsub1 x)) = true) by (apply nomat_gpow; now apply nomat_S).
      destruct (negb (is_number x)).
      { apply bind_ok in H. destruct H as [db [Hdb H]]. apply bind_ok in H. destruct H as [dx [Hdx H]].
        inversion H; subst r. clear H.
        assert (Ndb : nomat d db = true) by (eapply IH; eauto).
        assert (Ndx : nomat d dx = true) by (eapply IH; eauto).
        apply nomat_gadd. cbn [forallb]. rewrite !nomat_gmul; [reflexivity| |].
        - cbn [forallb nomat]. rewrite ?Ndx, ?(nomat_S x Sx), ?Ne, ?Ndb. reflexivity.
        - cbn [forallb nomat]. rewrite ?Ndx, ?(nomat_S x Sx), ?Ne, ?Ndb. reflexivity. }
      apply bind_ok in H. destruct H as [a [Ha H]].
      assert (Na : nomat d a = true) by (eapply IH; eauto).
      destruct a; inversion H; subst;
        try (apply nomat_gmul; cbn [forallb]; rewrite (nomat_S x Sx), Na, Ne; reflexivity).
      apply nomat_gadd. apply forallb_forall. intros t Ht. apply in_map_iff in Ht. destruct Ht as [u [<- Hu]].
      cbn [nomat] in Na. rewrite forallb_forall in Na. apply nomat_gmul. cbn [forallb].
      now rewrite (nomat_S x Sx), Ne, (Na u Hu).
  Qed.

  Lemma number_nomat e : is_number e = true -> nomat d e = true.
  Proof.
    induction e as [p q|n|c|n|n|n c| |l IHl|l IHl|b x IHb IHx|f a IHa|o a IHa|o a b IHa IHb] using gexpr_ind';
      intros H; try reflexivity; try discriminate;
      cbn [is_number] in H; cbn [nomat]; rewrite forallb_forall in *; rewrite Forall_forall in IHl; auto.
  Qed.

  (* Curl / Rot never return a matrix: their results are sums of c * Curl(...) *)
  Lemma mk_lin_nomat (fuel : nat) (o : op1) : (o = OCurl \/ o = ORot) -> forall e r, mk_lin fuel o e = Ok r -> nomat d r = true.
  Proof.
    intros Ho. induction fuel as [|k IH]; intros e r H; [discriminate|].
    assert (GO : forall z, nomat d (G1 o z) = true) by (intros z; destruct Ho as [->| ->]; reflexivity).
    cbn [mk_lin] in H. destruct (negb (has_types e)).
    { inversion H; subst. unfold no_types. destruct (is_number e); [reflexivity|apply GO]. }
    destruct e as [p q|n|c|n|n|n c| |l|l|b x|f a|o' a|o' a b]; try (atom_arm H; inversion H; subst; apply GO).
    - apply bindL_ok in H. destruct H as [Hs' H]. apply bind_ok in H. destruct H as [rb [Hb H]].
      inversion H; subst. clear H.
      destruct (mapM (mk_lin k o) (filter has_types l)) as [s ra] eqn:Em. simpl in Hs'. simpl snd.
      apply nomat_gadd. rewrite forallb_app. apply andb_true_iff. split.
      + pose proof (mapM_ok _ _ _ _ Em Hs') as HF. clear Em.
        induction HF as [|x y l1 l2 Hxy HF IHF]; [reflexivity|]. cbn [forallb]. apply andb_true_iff. split; eauto.
      + cbn [forallb]. rewrite andb_true_r. eauto.
    - inversion H; subst. apply nomat_gmul. cbn [forallb]. rewrite GO, !andb_true_r.
      apply nomat_gmul. apply forallb_forall. intros z Hz. apply filter_In in Hz. destruct Hz as [_ Hz].
      now apply number_nomat.
    - destruct o'; try (atom_arm H; inversion H; subst; apply GO).
      destruct o; inversion H; subst; try reflexivity; apply GO.
  Qed.

  (* ================================================================ Dot Cross Inner Outer Convect *)
  Ltac by_cases_d2 i tac :=
    destruct d as [|[|[|[|?]]]]; [tac|tac|tac|destruct i as [|[|[|?]]]; tac|tac].

  Lemma sem2_ext o m (a b a' b' : val) :
    (forall i j, a i j = a' i j) -> (forall i j, b i j = b' i j) ->
    forall i j, sem2 o m a b i j = sem2 o m a' b' i j.
  Proof.
    intros Ha Hb i j. destruct o; cbn [sem2]; unfold dotv, dotm.
    - apply sumn_ext. intros k _. now rewrite Ha, Hb.
    - by_cases_d2 i ltac:(rewrite ?Ha, ?Hb; reflexivity).
    - destruct (fst m).
      + apply sumn_ext. intros k _. apply sumn_ext. intros k' _. now rewrite Ha, Hb.
      + apply sumn_ext. intros k _. now rewrite Ha, Hb.
    - now rewrite Ha, Hb.
    - apply sumn_ext. intros k _. now rewrite Ha, Hb.
    - now rewrite !Ha, !Hb.
  Qed.

  Definition bilinear_op (o : op2) : bool := match o with OBracket => false | _ => true end.

  Lemma sem2_zero_l o m (b : val) i j : sem2 o m (fun _ _ => 0) b i j = 0.
  Proof.
    destruct o; cbn [sem2]; unfold dotv, dotm.
    - transitivity (sumn d (fun _ => 0)); [|apply sumn_zero]. apply sumn_ext. intros; ring.
    - by_cases_d2 i ltac:(ring).
    - destruct (fst m).
      + transitivity (sumn d (fun _ => 0)); [|apply sumn_zero]. apply sumn_ext. intros k _.
        transitivity (sumn d (fun _ => 0)); [|apply sumn_zero]. apply sumn_ext. intros; ring.
      + transitivity (sumn d (fun _ => 0)); [|apply sumn_zero]. apply sumn_ext. intros; ring.
    - ring.
    - transitivity (sumn d (fun _ => 0)); [|apply sumn_zero]. apply sumn_ext. intros; ring.
    - rewrite !Dz. ring.
  Qed.

  Lemma sem2_zero_r o m (a : val) i j : sem2 o m a (fun _ _ => 0) i j = 0.
  Proof.
    destruct o; cbn [sem2]; unfold dotv, dotm.
    - transitivity (sumn d (fun _ => 0)); [|apply sumn_zero]. apply sumn_ext. intros; ring.
    - by_cases_d2 i ltac:(ring).
    - destruct (fst m).
      + transitivity (sumn d (fun _ => 0)); [|apply sumn_zero]. apply sumn_ext. intros k _.
        transitivity (sumn d (fun _ => 0)); [|apply sumn_zero]. apply sumn_ext. intros; ring.
      + transitivity (sumn d (fun _ => 0)); [|apply sumn_zero]. apply sumn_ext. intros; ring.
    - ring.
    - transitivity (sumn d (fun _ => 0)); [|apply sumn_zero]. apply sumn_ext. intros k _. rewrite Dz. ring.
    - rewrite !Dz. ring.
  Qed.

  Lemma sem2_add_l o m (a a' b : val) i j :
    sem2 o m (fun i j => a i j + a' i j) b i j = sem2 o m a b i j + sem2 o m a' b i j.
  Proof.
    destruct o; cbn [sem2]; unfold dotv, dotm.
    - rewrite <- sumn_add. apply sumn_ext. intros; ring.
    - by_cases_d2 i ltac:(ring).
    - destruct (fst m).
      + rewrite <- sumn_add. apply sumn_ext. intros k _. rewrite <- sumn_add. apply sumn_ext. intros; ring.
      + rewrite <- sumn_add. apply sumn_ext. intros; ring.
    - ring.
    - rewrite <- sumn_add. apply sumn_ext. intros; ring.
    - rewrite !(D_add S). ring.
  Qed.

  Lemma sem2_add_r o m (a b b' : val) i j :
    sem2 o m a (fun i j => b i j + b' i j) i j = sem2 o m a b i j + sem2 o m a b' i j.
  Proof.
    destruct o; cbn [sem2]; unfold dotv, dotm.
    - rewrite <- sumn_add. apply sumn_ext. intros; ring.
    - by_cases_d2 i ltac:(ring).
    - destruct (fst m).
      + rewrite <- sumn_add. apply sumn_ext. intros k _. rewrite <- sumn_add. apply sumn_ext. intros; ring.
      + rewrite <- sumn_add. apply sumn_ext. intros; ring.
    - ring.
    - rewrite <- sumn_add. apply sumn_ext. intros k _. rewrite (D_add S). ring.
    - rewrite !(D_add S). ring.
  Qed.

  (* a scalar factor (the same value c at every index) *)
  Lemma sem2_scal_l o m c (a b : val) i j : bilinear_op o = true ->
    sem2 o m (fun i j => c * a i j) b i j = c * sem2 o m a b i j.
  Proof.
    intros Ho. destruct o; try discriminate; cbn [sem2]; unfold dotv, dotm.
    - rewrite <- sumn_scal. apply sumn_ext. intros; ring.
    - by_cases_d2 i ltac:(ring).
    - destruct (fst m).
      + rewrite <- sumn_scal. apply sumn_ext. intros k _. rewrite <- sumn_scal. apply sumn_ext. intros; ring.
      + rewrite <- sumn_scal. apply sumn_ext. intros; ring.
    - ring.
    - rewrite <- sumn_scal. apply sumn_ext. intros; ring.
  Qed.

  Lemma sem2_scal_r o m c (a b : val) i j : bilinear_op o = true ->
    (o = OConvect -> forall k, Dk k c = 0) ->
    sem2 o m a (fun i j => c * b i j) i j = c * sem2 o m a b i j.
  Proof.
    intros Ho Hc. destruct o; try discriminate; cbn [sem2]; unfold dotv, dotm.
    - rewrite <- sumn_scal. apply sumn_ext. intros; ring.
    - by_cases_d2 i ltac:(ring).
    - destruct (fst m).
      + rewrite <- sumn_scal. apply sumn_ext. intros k _. rewrite <- sumn_scal. apply sumn_ext. intros; ring.
      + rewrite <- sumn_scal. apply sumn_ext. intros; ring.
    - ring.
    - rewrite <- sumn_scal. apply sumn_ext. intros k _. rewrite (D_mul S), (Hc eq_refl). ring.
  Qed.

  (* Dot is symmetric on two vectors ONLY; Inner always *)
  Lemma sem2_sym o m (a b : val) i j : ((o = ODot /\ m = (false, false)) \/ o = OInner) ->
    sem2 o m a b i j = sem2 o m b a i j.
  Proof.
    intros [[-> ->]| ->]; cbn [sem2 fst snd]; unfold dotv, dotm.
    - apply sumn_ext. intros; ring.
    - destruct (fst m).
      + apply sumn_ext. intros k _. apply sumn_ext. intros; ring.
      + apply sumn_ext. intros; ring.
  Qed.

  Lemma sem2_dot_vv (a b : val) i j : sem2 ODot (false, false) a b i j = dotv a b.
  Proof. reflexivity. Qed.

  Lemma sem2_cross_anti m (a b : val) i j : sem2 OCross m a b i j = - sem2 OCross m b a i j.
  Proof. cbn [sem2]. by_cases_d2 i ltac:(ring). Qed.

  Lemma sem2_cross_self m (a : val) i j : sem2 OCross m a a i j = 0.
  Proof. cbn [sem2]. by_cases_d2 i ltac:(ring). Qed.

  Lemma sem2_flag o m m' (a b : val) i j : o <> OInner -> o <> ODot -> sem2 o m a b i j = sem2 o m' a b i j.
  Proof. intros Ho Ho'. destruct o; try reflexivity; [now elim Ho'|now elim Ho]. Qed.
  Lemma sem2_flag_inner m m' (a b : val) i j : fst m = fst m' -> sem2 OInner m a b i j = sem2 OInner m' a b i j.
  Proof. intros E. cbn [sem2]. now rewrite E. Qed.

  Lemma sem2_fsum_l o m (fs : list val) (b : val) i j :
    sem2 o m (fun i j => fsum (map (fun f : val => f i j) fs)) b i j = fsum (map (fun f : val => sem2 o m f b i j) fs).
  Proof.
    induction fs as [|f r IH].
    - cbn [map DOpP.fsum]. apply sem2_zero_l.
    - cbn [map DOpP.fsum]. rewrite <- IH. rewrite <- sem2_add_l. apply sem2_ext; intros; reflexivity.
  Qed.
  Lemma sem2_fsum_r o m (a : val) (fs : list val) i j :
    sem2 o m a (fun i j => fsum (map (fun f : val => f i j) fs)) i j = fsum (map (fun f : val => sem2 o m a f i j) fs).
  Proof.
    induction fs as [|f r IH].
    - cbn [map DOpP.fsum]. apply sem2_zero_r.
    - cbn [map DOpP.fsum]. rewrite <- IH. rewrite <- sem2_add_r. apply sem2_ext; intros; reflexivity.
  Qed.

  (* factors of an argument: commutative ones (pulled out) and the others *)
  Definition factors (a : gexpr) : list gexpr := match a with GMul l => l | _ => [a] end.

  Lemma factors_sem a sd i j : gsem sd a i j = fprod (map (fun x => gsem sd x i j) (factors a)).
  Proof. destruct a; simpl; try ring; reflexivity. Qed.

  (* value of the pulled-out commutative factors: the same at every index *)
  Lemma scalars_const (cs : list gexpr) sd i j :
    Forall scalar_like cs ->
    fprod (map (fun x => gsem sd x i j) cs) = fprod (map (fun x => gsem sd x O O) cs).
  Proof.
    intros H. f_equal. apply map_ext_in. intros x Hx. rewrite Forall_forall in H. apply (H x Hx).
  Qed.

  (* the semantic content of the guard [pull_ok]: after distributing sums, the commutative factors of
     every product are scalars *)
  Fixpoint pull_sem (a : gexpr) : Prop :=
    match a with
    | GAdd l => (fix all (l : list gexpr) : Prop := match l with [] => True | x :: r => pull_sem x /\ all r end) l
    | GMul l => Forall (fun x => is_comm d x = true -> scalar_like x) l
    | _ => True
    end.

  Lemma pull_sem_add l : pull_sem (GAdd l) <-> Forall pull_sem l.
  Proof.
    cbn [pull_sem]. induction l as [|x r IH]; split; intros H; auto.
    - destruct H. constructor; auto. now apply IH.
    - inversion H; subst. split; auto. now apply IH.
  Qed.

  Lemma pull_ok_sem a : pull_ok d a = true -> pull_sem a.
  Proof.
    induction a as [p q|n|c|n|n|n c| |l IHl|l IHl|b x IHb IHx|f a IHa|o a IHa|o a b IHa IHb] using gexpr_ind';
      intros H; try exact I.
    - apply pull_sem_add. simpl in H. rewrite forallb_forall in H. rewrite Forall_forall in *. auto.
    - cbn [pull_sem]. simpl in H. rewrite forallb_forall in H. apply Forall_forall. intros x Hx Hc.
      specialize (H x Hx). rewrite Hc in H. simpl in H. now apply is_scalar_sem.
  Qed.

  Lemma pull_sem_in l x : pull_sem (GAdd l) -> In x l -> pull_sem x.
  Proof. intros H Hx. apply pull_sem_add in H. rewrite Forall_forall in H. auto. Qed.

  Lemma pull_sem_gadd_raw p l : pull_sem (GAdd l) -> pull_sem (gadd_raw (filter p l)).
  Proof.
    intros H. apply pull_sem_add in H. pose proof (Forall_filter _ p l H) as Hf.
    destruct (filter p l) as [|x [|y r]].
    - exact I.
    - now inversion Hf.
    - cbn [gadd_raw]. now apply pull_sem_add.
  Qed.

  Lemma pull_scalars a : pull_sem a -> (forall l, a <> GAdd l) ->
    filter (fun i => negb (is_comm d i)) (factors a) <> [] ->
    Forall scalar_like (filter (is_comm d) (factors a)).
  Proof.
    intros H Hna Hne.
    destruct a as [p q|n|c|n|n|n c| |l|l|b x|f a|o a|o a b];
      try (exfalso; eapply Hna; reflexivity);
      try (cbn [factors filter] in *; match goal with |- context [is_comm d ?t] => destruct (is_comm d t) eqn:Ec end;
           [simpl in Hne; now elim Hne|constructor]).
    apply Forall_forall. intros x Hx. apply filter_In in Hx. destruct Hx as [Hin Hc].
    cbn [pull_sem] in H. rewrite Forall_forall in H. now apply H.
  Qed.

  (* the factors pulled out of the second argument (for Convect: commutative numbers only) are scalars *)
  Lemma pulled2_scalars o a : (o <> OConvect -> pull_sem a) -> (forall l, a <> GAdd l) ->
    filter (fun i => negb (pulled2 d o i)) (factors a) <> [] ->
    Forall scalar_like (filter (pulled2 d o) (factors a)).
  Proof.
    intros P Hna Hne.
    destruct o; try (apply pull_scalars; auto; apply P; discriminate).
    apply Forall_forall. intros x Hx. apply filter_In in Hx. destruct Hx as [_ Hp]. cbn [pulled2] in Hp.
    apply andb_true_iff in Hp. apply number_scalar. tauto.
  Qed.

  Lemma pulled2_numbers a x : In x (filter (pulled2 d OConvect) (factors a)) -> is_number x = true /\ In x (factors a).
  Proof.
    intros Hx. apply filter_In in Hx. destruct Hx as [Hin Hp]. cbn [pulled2] in Hp. apply andb_true_iff in Hp. tauto.
  Qed.

  Lemma mk_bil_zero_l fuel o a2 r : mk_bil d sgt fuel o gzero a2 = Ok r -> r = gzero.
  Proof.
    destruct fuel as [|k]; [discriminate|]. cbn [mk_bil].
    destruct (match o with OCross => geqb gzero a2 | _ => false end); [congruence|].
    assert (Z : bil_zero o gzero a2 = true) by (destruct o; reflexivity).
    rewrite Z. congruence.
  Qed.
  Lemma mk_bil_zero_r fuel o a1 r : (forall l, a1 <> GAdd l) -> mk_bil d sgt fuel o a1 gzero = Ok r -> r = gzero.
  Proof.
    intros Hna. destruct fuel as [|k]; [discriminate|]. cbn [mk_bil].
    destruct (match o with OCross => geqb a1 gzero | _ => false end); [congruence|].
    assert (Z : bil_zero o a1 gzero = true) by (destruct o; simpl; now rewrite orb_true_r).
    rewrite Z. congruence.
  Qed.

  Lemma sem_add_as_fsum l sd i j :
    gsem sd (GAdd l) i j = fsum (map (fun f : val => f i j) (map (gsem sd) l)).
  Proof. cbn [gsem]. now rewrite map_map. Qed.

  Lemma gadd_raw_as_fsum l sd i j :
    gsem sd (gadd_raw l) i j = fsum (map (fun f : val => f i j) (map (gsem sd) l)).
  Proof. rewrite gadd_raw_sem. now rewrite map_map. Qed.

  Lemma inner_flag_in m l x : inner_flag d m (GAdd l) = true -> In x l -> inner_flag d m x = true.
  Proof. simpl. rewrite forallb_forall. auto. Qed.
  Lemma pull_ok_in l x : pull_ok d (GAdd l) = true -> In x l -> pull_ok d x = true.
  Proof. simpl. rewrite forallb_forall. auto. Qed.

  Lemma forallb_filter {A} (q p : A -> bool) l : forallb q l = true -> forallb q (filter p l) = true.
  Proof.
    rewrite !forallb_forall. intros H x Hx. apply filter_In in Hx. apply H. tauto.
  Qed.

  (* a guard that distributes over sums holds of the raw sum of a non-empty sub-list *)
  Lemma guard_gadd_raw (G : gexpr -> bool) p l :
    (forall l', G (GAdd l') = forallb G l') -> G (GAdd l) = true ->
    filter p l <> [] -> G (gadd_raw (filter p l)) = true.
  Proof.
    intros HG H Hne. rewrite HG in H.
    pose proof (forallb_filter G p l H) as Hf.
    destruct (filter p l) as [|x [|y r]] eqn:E; [now elim Hne| |].
    - simpl in Hf. now rewrite andb_true_r in Hf.
    - cbn [gadd_raw]. rewrite HG. exact Hf.
  Qed.

  Theorem mk_bil_core fuel : forall o a1 a2 r m,
    bilinear_op o = true -> mk_bil d sgt fuel o a1 a2 = Ok r ->
    (o = OConvect -> gdf a2) -> pull_sem a1 -> (o <> OConvect -> pull_sem a2) ->
    (o = OInner -> inner_flag d (fst m) a1 = true /\ inner_flag d (fst m) a2 = true) ->
    (o = ODot -> inner_flag d (fst m) a1 = true /\ inner_flag d (snd m) a2 = true) ->
    forall sd i j, gsem sd r i j = sem2 o m (gsem sd a1) (gsem sd a2) i j.
  Proof.
    induction fuel as [|k IH]; intros o a1 a2 r m Ho H HD P1 P2 HI HDt sd i j; [discriminate|].
    cbn [mk_bil] in H.
    (* Cross(u, u) = 0 *)
    destruct (match o with OCross => geqb a1 a2 | _ => false end) eqn:Eq.
    { destruct o; try discriminate. apply geqb_eq in Eq. subst a2. inversion H; subst.
      rewrite gzero_sem. symmetry. apply sem2_cross_self. }
    clear Eq.
    (* zero short-cuts *)
    destruct (bil_zero o a1 a2) eqn:Ez.
    { inversion H; subst. rewrite gzero_sem. symmetry.
      assert (Zl : is_zero a1 = true -> sem2 o m (gsem sd a1) (gsem sd a2) i j = 0).
      { intros Hz. rewrite <- (sem2_zero_l o m (gsem sd a2) i j). apply sem2_ext; intros; [now apply is_zero_sem|reflexivity]. }
      assert (Zr : is_zero a2 = true -> sem2 o m (gsem sd a1) (gsem sd a2) i j = 0).
      { intros Hz. rewrite <- (sem2_zero_r o m (gsem sd a1) i j). apply sem2_ext; intros; [reflexivity|now apply is_zero_sem]. }
      destruct o; simpl in Ez; apply orb_true_iff in Ez; destruct Ez as [Ez|Ez]; auto; try discriminate.
      (* Convect(F, number) *)
      cbn [sem2]. transitivity (sumn d (fun _ => 0)); [|apply sumn_zero]. apply sumn_ext. intros k' _.
      rewrite (number_D a2 Ez (HD eq_refl)). ring. }
    clear Ez.
    destruct (match a1 with GAdd _ => true | _ => false end) eqn:E1.
    { (* distribute over the first argument *)
      destruct a1 as [| | | | | | |l| | | | |]; try discriminate. clear E1.
      apply bindL_ok in H. destruct H as [Hs H]. apply bind_ok in H. destruct H as [rb [Hb H]].
      inversion H; subst. clear H.
      destruct (mapM (fun i0 => mk_bil d sgt k o i0 a2) (filter has_types l)) as [s ra] eqn:Em. simpl in Hs. simpl snd.
      rewrite gadd_sem, map_app, fsum_app. cbn [map DOpP.fsum].
      transitivity (fsum (map (fun x => sem2 o m (gsem sd x) (gsem sd a2) i j) l)).
      2:{ symmetry. erewrite sem2_ext; [|intros; apply sem_add_as_fsum|intros; reflexivity].
          rewrite sem2_fsum_l, map_map. reflexivity. }
      rewrite (fsum_filter has_types (fun x => sem2 o m (gsem sd x) (gsem sd a2) i j) l).
      f_equal.
      - apply (Forall2_fsum (fun x y => mk_bil d sgt k o x a2 = Ok y)).
        + eapply mapM_ok; eauto.
        + intros x y Hx Hxy. apply filter_In in Hx. destruct Hx as [Hx _].
          apply (IH o x a2 y m Ho Hxy); auto.
          * eapply pull_sem_in; eauto.
          * intros Hi. destruct (HI Hi) as [I1 I2]. split; auto. eapply inner_flag_in; eauto.
          * intros Hi. destruct (HDt Hi) as (I1 & I2). split; auto. eapply inner_flag_in; eauto.
      - destruct (filter (fun i0 => negb (has_types i0)) l) as [|b0 br] eqn:Eb.
        + cbn [gadd_raw] in Hb. apply mk_bil_zero_l in Hb. subst rb. rewrite gzero_sem. simpl. ring.
        + assert (Hne : filter (fun i0 => negb (has_types i0)) l <> []) by (rewrite Eb; discriminate).
          rewrite <- Eb in *.
          rewrite (IH o _ a2 rb m Ho Hb); auto.
          * erewrite sem2_ext; [|intros; apply gadd_raw_as_fsum|intros; reflexivity].
            rewrite sem2_fsum_l, map_map. ring.
          * now apply pull_sem_gadd_raw.
          * intros Hi. destruct (HI Hi) as [I1 I2]. split; auto. apply guard_gadd_raw; auto.
          * intros Hi. destruct (HDt Hi) as (I1 & I2). split; auto. apply guard_gadd_raw; auto.
    }
    assert (N1 : forall l, a1 <> GAdd l) by (intros l ->; discriminate).
    assert (H' : (match a2 with
                  | GAdd l =>
                      let a := filter has_types l in
                      let b := filter (fun i0 => negb (has_types i0)) l in
                      bindL (mapM (fun i0 => mk_bil d sgt k o a1 i0) a) (fun ra =>
                      bind (mk_bil d sgt k o a1 (gadd_raw b)) (fun rb => Ok (gadd (ra ++ [rb]))))
                  | _ =>
                      let fa := factors a1 in
                      let fb := factors a2 in
                      let args1 := filter (fun i0 => negb (is_comm d i0)) fa in
                      let c1 := filter (is_comm d) fa in
                      let args2 := filter (fun i0 => negb (pulled2 d o i0)) fb in
                      let c2 := filter (pulled2 d o) fb in
                      match args1, args2 with
                      | [], _ | _, [] => Raise
                      | _, _ =>
                          let a := gmul args1 in
                          let b := gmul args2 in
                          let c := gmul [gmul c1; gmul c2] in
                          match o with
                          | ODot =>
                              if negb (may_mat a || may_mat b) && sgt a b then Ok (gmul [c; G2 o b a]) else Ok (gmul [c; G2 o a b])
                          | OInner => if sgt a b then Ok (gmul [c; G2 o b a]) else Ok (gmul [c; G2 o a b])
                          | OCross => if sgt a b then Ok (gmul [gneg c; G2 o b a]) else Ok (gmul [c; G2 o a b])
                          | _ => Ok (gmul [c; G2 o a b])
                          end
                      end
                  end) = Ok r).
    { destruct a1; try discriminate; exact H. }
    clear H E1. rename H' into H.
    destruct (match a2 with GAdd _ => true | _ => false end) eqn:E2.
    { (* distribute over the second argument *)
      destruct a2 as [| | | | | | |l| | | | |]; try discriminate. clear E2.
      apply bindL_ok in H. destruct H as [Hs H]. apply bind_ok in H. destruct H as [rb [Hb H]].
      inversion H; subst. clear H.
      destruct (mapM (fun i0 => mk_bil d sgt k o a1 i0) (filter has_types l)) as [s ra] eqn:Em. simpl in Hs. simpl snd.
      rewrite gadd_sem, map_app, fsum_app. cbn [map DOpP.fsum].
      transitivity (fsum (map (fun x => sem2 o m (gsem sd a1) (gsem sd x) i j) l)).
      2:{ symmetry. erewrite sem2_ext; [|intros; reflexivity|intros; apply sem_add_as_fsum].
          rewrite sem2_fsum_r, map_map. reflexivity. }
      rewrite (fsum_filter has_types (fun x => sem2 o m (gsem sd a1) (gsem sd x) i j) l).
      f_equal.
      - apply (Forall2_fsum (fun x y => mk_bil d sgt k o a1 x = Ok y)).
        + eapply mapM_ok; eauto.
        + intros x y Hx Hxy. apply filter_In in Hx. destruct Hx as [Hx _].
          apply (IH o a1 x y m Ho Hxy); auto.
          * intros Hc. eapply gdf_in_add; eauto.
          * intros Hc. apply (pull_sem_in l x (P2 Hc) Hx).
          * intros Hi. destruct (HI Hi) as [I1 I2]. split; auto. eapply inner_flag_in; eauto.
          * intros Hi. destruct (HDt Hi) as (I1 & I2). split; auto. eapply inner_flag_in; eauto.
      - destruct (filter (fun i0 => negb (has_types i0)) l) as [|b0 br] eqn:Eb.
        + cbn [gadd_raw] in Hb. apply mk_bil_zero_r in Hb; auto. subst rb. rewrite gzero_sem. simpl. ring.
        + assert (Hne : filter (fun i0 => negb (has_types i0)) l <> []) by (rewrite Eb; discriminate).
          rewrite <- Eb in *.
          rewrite (IH o a1 _ rb m Ho Hb); auto.
          * erewrite sem2_ext; [|intros; reflexivity|intros; apply gadd_raw_as_fsum].
            rewrite sem2_fsum_r, map_map. ring.
          * intros Hc. apply gdf_filter_add. auto.
          * intros Hc. apply pull_sem_gadd_raw. auto.
          * intros Hi. destruct (HI Hi) as [I1 I2]. split; auto. apply guard_gadd_raw; auto.
          * intros Hi. destruct (HDt Hi) as (I1 & I2). split; auto. apply guard_gadd_raw; auto.
    }
    assert (N2 : forall l, a2 <> GAdd l) by (intros l ->; discriminate).
    (* products: pull the commutative factors out *)
    set (fa := factors a1) in *. set (fb := factors a2) in *.
    set (args1 := filter (fun i0 => negb (is_comm d i0)) fa) in *.
    set (c1 := filter (is_comm d) fa) in *.
    set (args2 := filter (fun i0 => negb (pulled2 d o i0)) fb) in *.
    set (c2 := filter (pulled2 d o) fb) in *.
    assert (H' : match args1, args2 with
                 | [], _ | _, [] => Raise
                 | _, _ =>
                     let a := gmul args1 in
                     let b := gmul args2 in
                     let c := gmul [gmul c1; gmul c2] in
                     match o with
                     | ODot =>
                         if negb (may_mat a || may_mat b) && sgt a b then Ok (gmul [c; G2 o b a]) else Ok (gmul [c; G2 o a b])
                     | OInner => if sgt a b then Ok (gmul [c; G2 o b a]) else Ok (gmul [c; G2 o a b])
                     | OCross => if sgt a b then Ok (gmul [gneg c; G2 o b a]) else Ok (gmul [c; G2 o a b])
                     | _ => Ok (gmul [c; G2 o a b])
                     end
                 end = Ok r).
    { destruct a2; try discriminate; exact H. }
    clear H E2. rename H' into H.
    assert (A1 : args1 <> []) by (intros E; rewrite E in H; discriminate).
    assert (A2 : args2 <> []) by (intros E; rewrite E in H; destruct args1; discriminate).
    assert (H' : (let a := gmul args1 in
                  let b := gmul args2 in
                  let c := gmul [gmul c1; gmul c2] in
                  match o with
                  | ODot =>
                      if negb (may_mat a || may_mat b) && sgt a b then Ok (gmul [c; G2 o b a]) else Ok (gmul [c; G2 o a b])
                  | OInner => if sgt a b then Ok (gmul [c; G2 o b a]) else Ok (gmul [c; G2 o a b])
                  | OCross => if sgt a b then Ok (gmul [gneg c; G2 o b a]) else Ok (gmul [c; G2 o a b])
                  | _ => Ok (gmul [c; G2 o a b])
                  end) = Ok r).
    { destruct args1; [now elim A1|]. destruct args2; [now elim A2|]. exact H. }
    clear H. rename H' into H. cbv zeta in H.
    pose proof (pull_scalars a1 P1 N1 A1) as S1. fold fa c1 in S1.
    pose proof (pulled2_scalars o a2 P2 N2 A2) as S2. fold fb c2 in S2.
    set (g1 := fprod (map (fun x => gsem sd x O O) c1)).
    set (g2 := fprod (map (fun x => gsem sd x O O) c2)).
    assert (V1 : forall i' j', gsem sd a1 i' j' = g1 * gsem sd (gmul args1) i' j').
    { intros i' j'. rewrite (factors_sem a1). fold fa. rewrite (fprod_filter (is_comm d)). fold c1 args1.
      rewrite (scalars_const c1) by exact S1. rewrite gmul_sem. reflexivity. }
    assert (V2 : forall i' j', gsem sd a2 i' j' = g2 * gsem sd (gmul args2) i' j').
    { intros i' j'. rewrite (factors_sem a2). fold fb. rewrite (fprod_filter (pulled2 d o)). fold c2 args2.
      rewrite (scalars_const c2) by exact S2. rewrite gmul_sem. reflexivity. }
    assert (Dg2 : o = OConvect -> forall k', Dk k' g2 = 0).
    { intros Hc k'. unfold g2. apply D_fprod_zero. apply Forall_forall. intros y Hy.
      apply in_map_iff in Hy. destruct Hy as [z [<- Hz]].
      unfold c2, fb in Hz. rewrite Hc in Hz. apply pulled2_numbers in Hz. destruct Hz as [Nz Hin].
      apply number_D; auto.
      unfold factors in Hin. destruct a2; try (destruct Hin as [<-|[]]; exact (HD Hc)).
      eapply gdf_in_mul; [exact (HD Hc)|exact Hin]. }
    assert (Cv : forall i' j', gsem sd (gmul [gmul c1; gmul c2]) i' j' = g1 * g2).
    { intros i' j'. rewrite gmul_sem. cbn [map DOpP.fprod]. rewrite !gmul_sem.
      rewrite (scalars_const c1), (scalars_const c2) by assumption. fold g1 g2. ring. }
    assert (Main : sem2 o m (gsem sd a1) (gsem sd a2) i j =
                   g1 * g2 * sem2 o m (gsem sd (gmul args1)) (gsem sd (gmul args2)) i j).
    { erewrite sem2_ext; [|intros; apply V1|intros; apply V2].
      rewrite sem2_scal_l by exact Ho. rewrite sem2_scal_r by auto. ring. }
    (* the kind (matrix or not) of the product of the non-commutative factors of a non-sum argument *)
    assert (K1 : forall m', inner_flag d m' a1 = true -> is_mat_shape (gmul args1) = m').
    { intros m' I1. unfold is_mat_shape. unfold args1, fa, factors.
      destruct a1; try (exfalso; eapply N1; reflexivity); cbn [inner_flag] in I1; apply Bool.eqb_prop in I1; exact I1. }
    assert (K2 : forall m', (o = OInner \/ o = ODot) -> inner_flag d m' a2 = true -> is_mat_shape (gmul args2) = m').
    { intros m' Hi I2. unfold is_mat_shape. unfold args2, fb, factors.
      assert (Ep : pulled2 d o = is_comm d) by (destruct Hi as [->| ->]; reflexivity). rewrite Ep.
      destruct a2; try (exfalso; eapply N2; reflexivity); cbn [inner_flag] in I2; apply Bool.eqb_prop in I2; exact I2. }
    rewrite Main.
    destruct o; try discriminate.
    - (* Dot: the canonical order is imposed only when neither factor may be matrix-valued, and then both are
         vectors ([may_mat_complete]); the product of two vectors is symmetric *)
      destruct (HDt eq_refl) as (I1 & I2). destruct m as [m1 m2]. cbn [fst snd] in I1, I2.
      pose proof (K1 _ I1) as E1'. pose proof (K2 _ (or_intror eq_refl) I2) as E2'.
      destruct (negb (may_mat (gmul args1) || may_mat (gmul args2)) && sgt (gmul args1) (gmul args2)) eqn:Esg;
        injection H as <-; rewrite gmul_sem; cbn [map DOpP.fprod]; rewrite Cv; cbn [gsem]; rewrite E1', E2'.
      + apply andb_true_iff in Esg. destruct Esg as [Em _]. apply negb_true_iff in Em. apply orb_false_iff in Em.
        destruct Em as [M1 M2].
        assert (Z1 : m1 = false).
        { rewrite <- E1'. unfold is_mat_shape. destruct (is_mat d (gmul args1)) eqn:E; auto.
          apply may_mat_complete in E. congruence. }
        assert (Z2 : m2 = false).
        { rewrite <- E2'. unfold is_mat_shape. destruct (is_mat d (gmul args2)) eqn:E; auto.
          apply may_mat_complete in E. congruence. }
        rewrite Z1, Z2. rewrite (sem2_sym ODot) by (left; auto). ring.
      + ring.
    - (* Cross *)
      destruct (sgt (gmul args1) (gmul args2)); inversion H; subst; rewrite gmul_sem; cbn [map DOpP.fprod];
        rewrite ?gneg_sem, Cv; cbn [gsem]; rewrite (sem2_flag OCross _ m) by discriminate.
      + rewrite (sem2_cross_anti m (gsem sd (gmul args1))). ring.
      + ring.
    - (* Inner *)
      destruct (HI eq_refl) as [I1 I2].
      pose proof (K1 _ I1) as E1'. pose proof (K2 _ (or_introl eq_refl) I2) as E2'.
      destruct (sgt (gmul args1) (gmul args2)); inversion H; subst; rewrite gmul_sem; cbn [map DOpP.fprod]; rewrite Cv;
        cbn [gsem]; rewrite ?E1', ?E2';
        rewrite (sem2_flag_inner _ m) by reflexivity; [rewrite (sem2_sym OInner) by auto|]; ring.
    - (* Outer *)
      inversion H; subst. rewrite gmul_sem. cbn [map DOpP.fprod]. rewrite Cv. cbn [gsem].
      rewrite (sem2_flag OOuter _ m) by discriminate. ring.
    - (* Convect *)
      inversion H; subst. rewrite gmul_sem. cbn [map DOpP.fprod]. rewrite Cv. cbn [gsem].
      rewrite (sem2_flag OConvect _ m) by discriminate. ring.
  Qed.

  (* Dot, Cross, Outer, Convect.  For Dot: [shape_stable] = the non-commutative part of every summand of an argument
     has the kind (matrix or not) of the whole argument *)
  Theorem mk_bil_sound fuel o a1 a2 r :
    (o = ODot \/ o = OCross \/ o = OOuter \/ o = OConvect) ->
    mk_bil d sgt fuel o a1 a2 = Ok r -> (o = OConvect -> gdf a2) ->
    pull_ok d a1 = true -> (o <> OConvect -> pull_ok d a2 = true) ->
    (o = ODot -> shape_stable d a1 = true /\ shape_stable d a2 = true) ->
    geq r (G2 o a1 a2).
  Proof.
    intros Ho H D2 P1 P2 G sd i j. cbn [gsem]. apply pull_ok_sem in P1.
    assert (P2' : o <> OConvect -> pull_sem a2) by (intros Hc; apply pull_ok_sem; auto).
    apply (mk_bil_core fuel o a1 a2 r (is_mat_shape a1, is_mat_shape a2)); auto.
    - destruct Ho as [->|[->|[->| ->]]]; reflexivity.
    - intros ->. destruct Ho as [Ho|[Ho|[Ho|Ho]]]; discriminate.
  Qed.

  (* the guard holds of vector-valued (and of scalar-valued) arguments *)
  Lemma shape_stable_typed a : gshape d a = Some ShS \/ gshape d a = Some ShV -> shape_stable d a = true.
  Proof.
    intros H. unfold shape_stable. pose proof (shape_nomat a H) as N.
    rewrite (nomat_not_mat a N). now apply nomat_inner_flag.
  Qed.

  (* Dot of two non-matrix arguments: the vector . vector product (the internal uses: Div, Laplace, minus(Dn)) *)
  Lemma mk_dot_vv fuel a1 a2 r :
    mk_bil d sgt fuel ODot a1 a2 = Ok r -> pull_sem a1 -> pull_sem a2 ->
    inner_flag d false a1 = true -> inner_flag d false a2 = true ->
    forall sd i j, gsem sd r i j = dotv (gsem sd a1) (gsem sd a2).
  Proof.
    intros H P1 P2 I1 I2 sd i j.
    rewrite (mk_bil_core fuel ODot a1 a2 r (false, false) eq_refl H); auto; discriminate.
  Qed.
  Lemma is_scalar_shape e : is_scalar d e = true -> gshape d e = Some ShS.
  Proof. unfold is_scalar. destruct (gshape d e) as [[| |]|]; try discriminate. reflexivity. Qed.

  Theorem mk_inner_sound fuel a1 a2 r :
    mk_bil d sgt fuel OInner a1 a2 = Ok r ->
    pull_ok d a1 = true -> pull_ok d a2 = true ->
    inner_flag d (is_mat d a1) a1 = true -> inner_flag d (is_mat d a1) a2 = true ->
    geq r (G2 OInner a1 a2).
  Proof.
    intros H P1 P2 I1 I2 sd i j. cbn [gsem]. apply pull_ok_sem in P1, P2.
    apply (mk_bil_core fuel OInner a1 a2 r (is_mat_shape a1, is_mat_shape a2)); auto; discriminate.
  Qed.


  (* ================================================================ Grad *)
  (* the integer literals form a ring morphism *)
  Lemma nm_add a b : nm (a + b) = nm a + nm b.
  Proof.
    pose proof (InitialRing.gen_phiZ_morph (@Eqsth (F S)) (@Ring_theory.Eq_ext (F S) (fadd S) (fmul S) (fopp S)) (F_R (Fth S))) as M.
    apply (Ring_theory.morph_add M).
  Qed.
  Lemma nm_mul a b : nm (a * b) = nm a * nm b.
  Proof.
    pose proof (InitialRing.gen_phiZ_morph (@Eqsth (F S)) (@Ring_theory.Eq_ext (F S) (fadd S) (fmul S) (fopp S)) (F_R (Fth S))) as M.
    apply (Ring_theory.morph_mul M).
  Qed.
  Lemma nm_sub a b : nm (a - b) = nm a - nm b.
  Proof.
    pose proof (InitialRing.gen_phiZ_morph (@Eqsth (F S)) (@Ring_theory.Eq_ext (F S) (fadd S) (fmul S) (fopp S)) (F_R (Fth S))) as M.
    apply (Ring_theory.morph_sub M).
  Qed.

  Lemma qnum_div p q : nm (Zpos q) <> 0 -> qnum p q = nm p / nm (Zpos q).
  Proof.
    intros Hq. unfold qnum. destruct (Pos.eqb q 1) eqn:E; [|reflexivity].
    apply Pos.eqb_eq in E. subst q. change (nm 1) with 1. field. apply (F_1_neq_0 (Fth S)).
  Qed.

  Lemma zfloor_spec p q : p = (zfloor p q * Zpos q + (p - zfloor p q * Zpos q))%Z.
  Proof. ring. Qed.

  (* the value of an exponent = symbolic part + integer shift *)
  Lemma pow_split_val x vx : gdf x ->
    (match x with GNum p q => vx = qnum p q | GAdd (GNum p q :: r) => exists t, vx = qnum p q + t /\ (isnil r = true -> t = 0) | _ => True end) ->
    vx = part_val (fst (pow_split x vx)) + nm (snd (pow_split x vx)).
  Proof.
    intros Hd Hv. unfold pow_split.
    assert (Q : forall p q, nm (Zpos q) <> 0 ->
                (p - zfloor p q * Z.pos q)%Z = 0%Z -> qnum p q = nm (zfloor p q)).
    { intros p q Hq E. rewrite qnum_div by exact Hq.
      assert (Ep : p = (zfloor p q * Zpos q)%Z) by lia. rewrite Ep at 1. rewrite nm_mul. field. exact Hq. }
    assert (Q' : forall p q, nm (Zpos q) <> 0 ->
                 qnum p q = qnum (p - zfloor p q * Z.pos q) q + nm (zfloor p q)).
    { intros p q Hq. rewrite !qnum_div by exact Hq. rewrite nm_sub, nm_mul. field. exact Hq. }
    destruct x as [p q| | | | | | |l| | | | |]; cbn [fst snd part_val]; try (change (nm 0) with 0; ring).
    - subst vx. simpl in Hd. destruct (Z.eqb (p - zfloor p q * Z.pos q) 0) eqn:E; cbn [fst snd part_val].
      + apply Z.eqb_eq in E. rewrite (Q p q Hd E). ring.
      + apply Q'. exact Hd.
    - destruct l as [|[p q| | | | | | | | | | | |] r]; cbn [fst snd part_val]; try (change (nm 0) with 0; ring).
      destruct (Z.eqb (p - zfloor p q * Z.pos q) 0 && isnil r) eqn:E; cbn [fst snd part_val]; [|ring].
      apply andb_true_iff in E. destruct E as [E1 E2]. apply Z.eqb_eq in E1.
      destruct Hv as [t [-> Ht]]. rewrite (Ht E2).
      apply gdf_add in Hd. inversion Hd as [|? ? Hq _]; subst. simpl in Hq.
      rewrite (Q p q Hq E1). ring.
  Qed.

  Lemma gsem_exponent_shape x sd i j :
    match x with
    | GNum p q => gsem sd x i j = qnum p q
    | GAdd (GNum p q :: r) => exists t, gsem sd x i j = qnum p q + t /\ (isnil r = true -> t = 0)
    | _ => True
    end.
  Proof.
    destruct x as [p q| | | | | | |l| | | | |]; auto.
    destruct l as [|[p q| | | | | | | | | | | |] r]; auto.
    exists (fsum (map (fun y => gsem sd y i j) r)). split; [reflexivity|].
    destruct r; [reflexivity|discriminate].
  Qed.

  Lemma zfloor_sub1 p q : zfloor (p - Zpos q) q = (zfloor p q - 1)%Z.
  Proof.
    unfold zfloor. replace (p - Zpos q)%Z with (p + (-1) * Zpos q)%Z by ring.
    rewrite Z.div_add by discriminate. ring.
  Qed.

  Lemma pow_sem_step vb part n : vb <> 0 -> pow_sem vb part (n - 1) * vb = pow_sem vb part n.
  Proof. intros Hb. rewrite !pow_sem_eq. destruct part; rewrite <- (zpw_pred vb n Hb); ring. Qed.

  Lemma nm_m1 : nm (-1) = - (1). Proof. reflexivity. Qed.

  (* x - 1 written as (-1) + x for an exponent that is not split *)
  Lemma pow_step_generic b x sd i j :
    (forall vx, pow_split x vx = (Some vx, 0%Z)) -> gsem sd b i j <> 0 ->
    gsem sd (GPow b (GAdd [gint (-1); x])) i j * gsem sd b i j = gsem sd (GPow b x) i j.
  Proof.
    intros Hx Hb. cbn [gsem]. rewrite Hx. cbn [fst snd].
    change (pow_split (GAdd [gint (-1); x]) (fsum (map (fun x0 => gsem sd x0 i j) [gint (-1); x])))
      with (Some (fsum (map (fun x0 => gsem sd x0 i j) [gint (-1); x]) - nm (-1)), (-1)%Z).
    cbn [fst snd]. rewrite <- (pow_sem_step _ _ 0%Z Hb). change (0 - 1)%Z with (-1)%Z.
    f_equal. f_equal. f_equal. cbn [map DOpP.fsum]. rewrite gint_sem, nm_m1. ring.
  Qed.

  (* b ** (x - 1) * b = b ** x *)
  Lemma pow_step b x sd i j :
    exp_canon x = true -> gdf x -> gsem sd b i j <> 0 ->
    gsem sd (gpow b (gsub1 x)) i j * gsem sd b i j = gsem sd (GPow b x) i j.
  Proof.
    intros Hc Hd Hb.
    assert (G : forall y, gsem sd (gpow b y) i j = gsem sd (GPow b y) i j).
    { intros y. unfold gpow. destruct (is_zero y) eqn:Ez.
      - destruct y as [p q| | | | | | | | | | | |]; try discriminate. destruct p; try discriminate.
        cbn [gsem pow_split]. unfold zfloor. rewrite Z.div_0_l by discriminate. simpl. reflexivity.
      - destruct (is_one y) eqn:E1; [|reflexivity].
        destruct y as [p q| | | | | | | | | | | |]; try discriminate. destruct p as [|p|p]; try discriminate.
        destruct p; try discriminate. destruct q; try discriminate. reflexivity. }
    rewrite G. clear G.
    set (vb := gsem sd b i j) in *.
    assert (PA : forall e e' n, e = e' -> pow_sem vb (Some e) n = pow_sem vb (Some e') n) by (intros; subst; reflexivity).
    destruct x as [p q|n|c|n|n|n c| |l|l|b' x'|f a|o a|o a b'];
      try (apply pow_step_generic; [intros; reflexivity|exact Hb]).
    - (* a numeric literal *)
      cbn [gsub1 gsem pow_split fst snd]. fold vb. rewrite zfloor_sub1.
      replace (p - Z.pos q - (zfloor p q - 1) * Z.pos q)%Z with (p - zfloor p q * Z.pos q)%Z by ring.
      now apply pow_sem_step.
    - (* a sum *)
      destruct l as [|y r].
      { (* empty sum *)
        cbn [gsub1 gsem]. fold vb.
        change (pow_split (GAdd [gint (-1)]) (fsum (map (fun x0 => gsem sd x0 i j) [gint (-1)]))) with (@None (F S), (-1)%Z).
        change (pow_split (GAdd []) (fsum (map (fun x0 => gsem sd x0 i j) []))) with (Some (fsum (map (fun x0 => gsem sd x0 i j) [])), 0%Z).
        cbn [fst snd map DOpP.fsum]. rewrite !pow_sem_eq. rewrite (P_zero S). unfold zpw. rewrite pw0, pw1. field. exact Hb. }
      destruct y as [p q|n|c|n|n|n c| |l'|l'|b' x'|f a|o a|o a b'].
      2-13: (cbn [gsub1 gsem]; fold vb;
             match goal with
             | |- context [pow_split (GAdd (gint (-1) :: ?y :: ?r)) ?v] =>
                 change (pow_split (GAdd (gint (-1) :: y :: r)) v) with (Some (v - nm (-1)), (-1)%Z)
             end;
             match goal with
             | |- context [pow_split (GAdd (?y :: ?r)) ?v] =>
                 change (pow_split (GAdd (y :: r)) v) with (Some v, 0%Z)
             end;
             cbn [fst snd]; rewrite <- (pow_sem_step _ _ 0%Z Hb); change (0 - 1)%Z with (-1)%Z;
             f_equal; apply PA; cbn [map DOpP.fsum]; rewrite gint_sem, nm_m1; ring).
      (* the sum starts with a number *)
      apply gdf_add in Hd. inversion Hd as [|? ? Hq Hr]; subst. simpl in Hq.
      cbn [gsub1]. destruct (is_zero (GNum (p - Z.pos q) q)) eqn:Ez.
      + (* p = q : the number disappears *)
        assert (Epq : p = Zpos q) by (simpl in Ez; destruct (p - Z.pos q)%Z eqn:E; try discriminate; lia).
        subst p.
        assert (Fl : zfloor (Zpos q) q = 1%Z) by (unfold zfloor; apply Z.div_same; discriminate).
        assert (Q1 : qnum (Zpos q) q = 1) by (rewrite qnum_div by exact Hq; field; exact Hq).
        cbn [gsem pow_split fst snd]. fold vb. rewrite Fl.
        replace (Z.pos q - 1 * Z.pos q)%Z with 0%Z by ring. cbn [Z.eqb andb].
        destruct r as [|y [|z r']]; cbn [isnil gadd_raw fst snd].
        * (* q/q alone *)
          change (gsem sd gzero i j) with 0.
          change (pow_split gzero 0) with (@None (F S), 0%Z). cbn [fst snd].
          rewrite !pow_sem_eq. unfold zpw. rewrite pw0, pw1. ring.
        * (* q/q + y *)
          simpl in Hc.
          assert (Ey : pow_split y (gsem sd y i j) = (Some (gsem sd y i j), 0%Z)).
          { destruct y as [| | | | | | |l'| | | | |]; try discriminate; auto.
            destruct l' as [|[| | | | | | | | | | | |] ?]; try discriminate; auto. }
          rewrite Ey. cbn [fst snd].
          rewrite <- (pow_sem_step _ _ 1%Z Hb). change (1 - 1)%Z with 0%Z. f_equal. apply PA.
          cbn [map DOpP.fsum]. change (gsem sd (GNum (Z.pos q) q) i j) with (qnum (Z.pos q) q).
          rewrite Q1. change (nm 1) with 1. ring.
        * (* q/q + y + z + ... *)
          simpl in Hc.
          assert (Ey : pow_split (GAdd (y :: z :: r')) (gsem sd (GAdd (y :: z :: r')) i j) =
                       (Some (gsem sd (GAdd (y :: z :: r')) i j), 0%Z)).
          { destruct y; try discriminate; reflexivity. }
          rewrite Ey. cbn [fst snd].
          rewrite <- (pow_sem_step _ _ 1%Z Hb). change (1 - 1)%Z with 0%Z. f_equal. apply PA.
          cbn [gsem map DOpP.fsum]. rewrite Q1. change (nm 1) with 1. ring.
      + (* the number stays *)
        cbn [gsem pow_split fst snd]. fold vb. rewrite zfloor_sub1.
        replace (p - Z.pos q - (zfloor p q - 1) * Z.pos q)%Z with (p - zfloor p q * Z.pos q)%Z by ring.
        destruct (Z.eqb (p - zfloor p q * Z.pos q) 0 && isnil r); cbn [fst snd].
        * now apply pow_sem_step.
        * rewrite <- (pow_sem_step _ _ (zfloor p q) Hb). f_equal. apply PA.
          cbn [map DOpP.fsum].
          change (gsem sd (GNum (p - Z.pos q) q) i j) with (qnum (p - Z.pos q) q).
          change (gsem sd (GNum p q) i j) with (qnum p q).
          rewrite !qnum_div by exact Hq. rewrite !nm_sub. change (nm 1) with 1.
          field. exact Hq.
  Qed.

  Lemma number_no_types e : is_number e = true -> has_types e = false.
  Proof.
    induction e as [p q|n|c|n|n|n c| |l IHl|l IHl|b x IHb IHx|f a IHa|o a IHa|o a b IHa IHb] using gexpr_ind';
      intros H; try discriminate; try reflexivity; simpl in *.
    - rewrite forallb_forall in H. rewrite Forall_forall in IHl.
      destruct (existsb has_types l) eqn:E; auto. apply existsb_exists in E. destruct E as [x [Hx Tx]].
      rewrite (IHl x Hx (H x Hx)) in Tx. discriminate.
    - rewrite forallb_forall in H. rewrite Forall_forall in IHl.
      destruct (existsb has_types l) eqn:E; auto. apply existsb_exists in E. destruct E as [x [Hx Tx]].
      rewrite (IHl x Hx (H x Hx)) in Tx. discriminate.
    - apply andb_true_iff in H. destruct H as [H1 H2]. now rewrite IHb, IHx.
    - auto.
  Qed.

  Lemma mk_grad_notypes fuel e r : has_types e = false -> mk_grad d fuel e = Ok r -> gdf e -> geq r (G1 OGrad e).
  Proof.
    intros Ht H Hd. destruct fuel as [|k]; [discriminate|]. cbn [mk_grad] in H. rewrite Ht in H. simpl in H.
    inversion H; subst. now apply no_types_sound.
  Qed.

  Lemma fprod_3split {A} (f : A -> F S) (p q : A -> bool) l :
    fprod (map f l) =
    fprod (map f (filter p l)) *
    fprod (map f (filter (fun a => negb (p a) && negb (q a)) l)) *
    fprod (map f (filter (fun a => negb (p a) && q a) l)).
  Proof.
    induction l as [|x r IH]; simpl; [ring|]. destruct (p x), (q x); simpl; rewrite IH; ring.
  Qed.

  Lemma fsum_scal {A} c (f : A -> F S) l : fsum (map (fun t => c * f t) l) = c * fsum (map f l).
  Proof. induction l as [|x r IH]; simpl; [ring|]. rewrite IH. ring. Qed.

  Lemma D3 k A B C : Dk k A = 0 -> Dk k (A * B * C) = A * B * Dk k C + A * Dk k B * C.
  Proof. intros HA. rewrite !(D_mul S), HA. ring. Qed.

  (* what cs_ok says about the factors of a product *)
  Lemma cs_ok_mul l x : cs_ok d (GMul l) = true -> In x l ->
    cs_ok d x = true /\ (is_comm d x = true -> scalar_like x).
  Proof.
    simpl. rewrite forallb_forall. intros H Hx. specialize (H x Hx). apply andb_true_iff in H.
    destruct H as [H1 H2]. split; auto. intros Hc. rewrite Hc in H2. simpl in H2. now apply is_scalar_sem.
  Qed.

  Lemma cs_ok_sub_mul l l' : cs_ok d (GMul l) = true -> (forall x, In x l' -> In x l) -> cs_ok d (gmul_raw l') = true.
  Proof.
    intros H Hi. simpl in H. rewrite forallb_forall in H.
    destruct l' as [|x [|y r]].
    - reflexivity.
    - simpl. specialize (H x (Hi x (or_introl eq_refl))). apply andb_true_iff in H. tauto.
    - cbn [gmul_raw cs_ok]. apply forallb_forall. intros z Hz. apply H. now apply Hi.
  Qed.

  Lemma cs_ok_sub_add l p : cs_ok d (GAdd l) = true -> cs_ok d (gadd_raw (filter p l)) = true.
  Proof.
    intros H. simpl in H.
    pose proof (forallb_filter (cs_ok d) p l H) as Hf.
    destruct (filter p l) as [|x [|y r]]; auto.
    simpl in Hf. now rewrite andb_true_r in Hf.
  Qed.

  Lemma grad_guard_mul_raw l' : (forall x, In x l' -> grad_guard d x = true) -> grad_guard d (gmul_raw l') = true.
  Proof.
    intros H. destruct l' as [|x [|y r]].
    - reflexivity.
    - apply H. now left.
    - cbn [gmul_raw]. unfold grad_guard; fold (grad_guard d).
      destruct (negb (has_types (GMul (x :: y :: r)))); auto.
      destruct (existsb (fun a => negb (is_comm d a)) (x :: y :: r)); auto.
      apply forallb_forall. intros z Hz. rewrite (H z Hz). apply orb_true_r.
  Qed.

  Lemma filter_incl {A} (p : A -> bool) l x : In x (filter p l) -> In x l.
  Proof. intros H. apply filter_In in H. tauto. Qed.

  Theorem mk_grad_sound fuel : forall e r,
    mk_grad d fuel e = Ok r -> gdf e -> cs_ok d e = true -> grad_guard d e = true -> geq r (G1 OGrad e).
  Proof.
    induction fuel as [|k IH]; intros e r H Hd Hcs Hg; [discriminate|].
    destruct (has_types e) eqn:Et.
    2:{ eapply mk_grad_notypes; eauto. }
    cbn [mk_grad] in H. rewrite Et in H. cbn [negb] in H.
    destruct e as [p q|n|c|n|n|n c| |l|l|b x|f a|o' a|o' a b];
      try (atom_arm H; inversion H; subst; apply geq_refl);
      cbn [grad_guard] in Hg; rewrite Et in Hg; cbn [negb] in Hg.
    - (* Add *)
      apply bindL_ok in H. destruct H as [Hs H]. apply bind_ok in H. destruct H as [rb [Hb H]].
      inversion H; subst. clear H.
      destruct (mapM (mk_grad d k) (filter has_types l)) as [s ra] eqn:Em. simpl in Hs. simpl.
      apply (add_arm_sound OGrad (mk_grad d k)).
      + eapply mapM_ok; eauto.
      + intros x y Hx Hxy.
        destruct (has_types x) eqn:Tx.
        * apply (IH x y Hxy).
          -- eapply gdf_in_add; eauto.
          -- simpl in Hcs. rewrite forallb_forall in Hcs. auto.
          -- rewrite forallb_forall in Hg. specialize (Hg x Hx). rewrite Tx in Hg. exact Hg.
        * eapply mk_grad_notypes; eauto. eapply gdf_in_add; eauto.
      + eapply mk_grad_notypes; eauto.
        * destruct (filter (fun i0 => negb (has_types i0)) l) as [|u [|v w]] eqn:E; auto.
          -- assert (Hu : In u (filter (fun i0 => negb (has_types i0)) l)) by (rewrite E; now left).
             apply filter_In in Hu. destruct Hu as [_ Hu]. simpl. now destruct (has_types u).
          -- cbn [gadd_raw has_types]. rewrite <- E.
             destruct (existsb has_types (filter (fun i0 => negb (has_types i0)) l)) eqn:Ex; auto.
             apply existsb_exists in Ex. destruct Ex as [z [Hz Tz]]. apply filter_In in Hz.
             destruct Hz as [_ Hz]. rewrite Tz in Hz. discriminate.
        * now apply gdf_filter_add.
    - (* Mul *)
      set (cm := filter (is_comm d) l) in *.
      set (ncm := filter (fun a => negb (is_comm d a)) l) in *.
      set (coeffs := filter is_number cm) in *.
      set (free := filter (fun a => negb (is_number a) && negb (has_types a)) cm) in *.
      set (cm' := filter (fun a => negb (is_number a) && has_types a) cm) in *.
      assert (Icm : forall x, In x cm -> In x l) by (intros x; apply filter_incl).
      assert (Scm : Forall scalar_like cm).
      { apply Forall_forall. intros x Hx. apply filter_In in Hx. destruct Hx as [Hx Hc].
        now apply (cs_ok_mul l x Hcs Hx). }
      assert (Sco : Forall scalar_like coeffs) by (apply Forall_filter; exact Scm).
      assert (Sfr : Forall scalar_like free) by (apply Forall_filter; exact Scm).
      assert (Scp : Forall scalar_like cm') by (apply Forall_filter; exact Scm).
      assert (Nco : Forall (fun x => is_number x = true) coeffs).
      { apply Forall_forall. intros x Hx. apply filter_In in Hx. tauto. }
      assert (Dco : Forall gdf coeffs).
      { apply Forall_filter. apply Forall_filter. now apply gdf_mul. }
      (* the value of the product, split in four *)
      assert (V : forall sd i j, gsem sd (GMul l) i j =
                  fprod (map (fun x => gsem sd x i j) coeffs) * fprod (map (fun x => gsem sd x i j) free) *
                  fprod (map (fun x => gsem sd x i j) cm') * fprod (map (fun x => gsem sd x i j) ncm)).
      { intros sd i j. rewrite (mul_split (is_comm d)). fold cm ncm.
        rewrite (fprod_3split (fun x => gsem sd x i j) is_number has_types cm). reflexivity. }
      remember (gmul_raw free) as b1 eqn:Eb1.
      remember (gmul_raw cm') as b2 eqn:Eb2.
      remember (gmul_raw ncm) as b3 eqn:Eb3.
      remember (gmul coeffs) as a0 eqn:Ea0.
      assert (G' : ncm = [] -> forall x, In x cm' -> grad_guard d x = true).
      { intros En x Hx. apply filter_In in Hx. destruct Hx as [Hx Hp]. apply Icm in Hx.
        assert (Ex : existsb (fun a => negb (is_comm d a)) l = false).
        { destruct (existsb (fun a => negb (is_comm d a)) l) eqn:E; auto. apply existsb_exists in E.
          destruct E as [z [Hz Cz]]. assert (Hin : In z ncm) by (apply filter_In; split; assumption).
          rewrite En in Hin. destruct Hin. }
        rewrite Ex in Hg. rewrite forallb_forall in Hg. specialize (Hg x Hx). rewrite Hp in Hg. exact Hg. }
      assert (Icp : forall x, In x cm' -> In x l) by (intros x Hx; apply Icm; eapply filter_incl; eauto).
      intros sd i j.
      set (A := fprod (map (fun x => gsem sd x O O) coeffs)).
      assert (HA : forall i' j', fprod (map (fun x => gsem sd x i' j') coeffs) = A)
        by (intros; now apply scalars_const).
      assert (DA : forall k', Dk k' A = 0).
      { intros k'. unfold A. apply D_fprod_zero. apply Forall_forall. intros y Hy.
        apply in_map_iff in Hy. destruct Hy as [z [<- Hz]]. rewrite Forall_forall in Nco, Dco.
        apply number_D; auto. }
      assert (Ha0 : forall i' j', gsem sd a0 i' j' = A) by (intros; subst a0; rewrite gmul_sem; apply HA).
      assert (Hb1 : forall i' j', gsem sd b1 i' j' = fprod (map (fun x => gsem sd x O O) free)).
      { intros. subst b1. rewrite gmul_raw_sem. now apply scalars_const. }
      assert (Hb2 : forall i' j', gsem sd b2 i' j' = fprod (map (fun x => gsem sd x O O) cm')).
      { intros. subst b2. rewrite gmul_raw_sem. now apply scalars_const. }
      assert (Hb3 : forall i' j', gsem sd b3 i' j' = fprod (map (fun x => gsem sd x i' j') ncm)).
      { intros. subst b3. now rewrite gmul_raw_sem. }
      set (B1 := fprod (map (fun x => gsem sd x O O) free)) in *.
      set (B2 := fprod (map (fun x => gsem sd x O O) cm')) in *.
      change (gsem sd (G1 OGrad (GMul l)) i j) with (Dk i (gsem sd (GMul l) j O)). rewrite V, HA.
      rewrite (scalars_const free sd j O Sfr), (scalars_const cm' sd j O Scp). fold B1 B2.
      destruct ncm as [|n0 nr] eqn:En.
      2:{ (* a non-commutative factor: only the numeric coefficient is pulled out *)
          assert (Hr : r = gmul [a0; G1 OGrad (gmul [b1; b2; b3])]).
          { destruct free, cm'; inversion H; reflexivity. }
          subst r. clear H.
          rewrite gmul_sem. cbn [map DOpP.fprod]. rewrite Ha0.
          change (gsem sd (G1 OGrad (gmul [b1; b2; b3])) i j) with (Dk i (gsem sd (gmul [b1; b2; b3]) j O)).
          rewrite gmul_sem. cbn [map DOpP.fprod]. rewrite Hb1, Hb2, Hb3. fold B1 B2.
          cbn [map DOpP.fprod].
          set (Z := gsem sd n0 j O * fprod (map (fun x => gsem sd x j O) nr)).
          replace (A * B1 * B2 * Z) with (A * (B1 * (B2 * (Z * 1)))) by ring.
          rewrite (D_mul S lg i A), DA. ring. }
      cbn [map DOpP.fprod].
      specialize (G' eq_refl).
      destruct free as [|f0 fr] eqn:Ef.
      2:{ (* a function-free factor: Leibniz between it and the rest *)
          apply bind_ok in H. destruct H as [db2 [Hdb2 H]]. inversion H; subst r. clear H.
          assert (IH2 : geq db2 (G1 OGrad b2)).
          { apply (IH _ _ Hdb2); subst b2.
            - apply gdf_gmul_raw. apply Forall_filter. apply Forall_filter. now apply gdf_mul.
            - eapply cs_ok_sub_mul; eauto.
            - now apply grad_guard_mul_raw. }
          rewrite gadd_sem. cbn [map DOpP.fsum]. rewrite !gmul_sem. cbn [map DOpP.fprod].
          rewrite !Ha0, !Hb1, !Hb2, (IH2 sd i j).
          change (gsem sd (G1 OGrad b2) i j) with (Dk i (gsem sd b2 j O)).
          change (gsem sd (G1 OGrad b1) i j) with (Dk i (gsem sd b1 j O)).
          rewrite Hb1, Hb2. fold B1 B2.
          replace (A * B1 * B2 * 1) with (A * B1 * B2) by ring. rewrite D3 by apply DA. ring. }
      assert (EB1 : B1 = 1) by reflexivity. rewrite EB1. clear EB1.
      destruct cm' as [|x [|y rest]] eqn:Ec.
      + (* nothing left *)
        inversion H; subst r. rewrite gzero_sem.
        assert (EB2 : B2 = 1) by reflexivity. rewrite EB2.
        replace (A * 1 * 1 * 1) with A by ring. symmetry. apply DA.
      + (* one factor *)
        apply bind_ok in H. destruct H as [rx [Hx H]]. inversion H; subst r. clear H.
        assert (IHx : geq rx (G1 OGrad x)).
        { apply (IH _ _ Hx).
          - eapply gdf_in_mul; eauto. apply Icp. now left.
          - apply (cs_ok_mul l x Hcs). apply Icp. now left.
          - apply G'. now left. }
        rewrite gmul_sem. cbn [map DOpP.fprod]. rewrite Ha0, (IHx sd i j).
        change (gsem sd (G1 OGrad x) i j) with (Dk i (gsem sd x j O)).
        inversion Scp as [|? ? Sx _]; subst.
        assert (EB2 : B2 = gsem sd x O O * 1) by reflexivity. rewrite EB2.
        rewrite (Sx sd j O).
        replace (A * 1 * (gsem sd x O O * 1) * 1) with (A * gsem sd x O O) by ring.
        rewrite (D_mul S lg i A), DA. ring.
      + (* the product rule: first factor against the rest *)
        apply bind_ok in H. destruct H as [d1 [H1 H]]. apply bind_ok in H. destruct H as [d2 [H2 H]].
        inversion H; subst r. clear H.
        assert (IH1 : geq d1 (G1 OGrad x)).
        { apply (IH _ _ H1).
          - eapply gdf_in_mul; eauto. apply Icp. now left.
          - apply (cs_ok_mul l x Hcs). apply Icp. now left.
          - apply G'. now left. }
        assert (IH2 : geq d2 (G1 OGrad (gmul_raw (y :: rest)))).
        { apply (IH _ _ H2).
          - apply gdf_gmul_raw. apply Forall_forall. intros z Hz. eapply gdf_in_mul; eauto. apply Icp. now right.
          - eapply cs_ok_sub_mul; eauto. intros z Hz. apply Icp. now right.
          - apply grad_guard_mul_raw. intros z Hz. apply G'. now right. }
        inversion Scp as [|? ? Sx Srest]; subst.
        rewrite gadd_sem. cbn [map DOpP.fsum]. rewrite !gmul_sem. cbn [map DOpP.fprod].
        rewrite !Ha0, (IH1 sd i j), (IH2 sd i j).
        change (gsem sd (G1 OGrad x) i j) with (Dk i (gsem sd x j O)).
        change (gsem sd (G1 OGrad (gmul_raw (y :: rest))) i j) with (Dk i (gsem sd (gmul_raw (y :: rest)) j O)).
        rewrite !(gmul_raw_sem (y :: rest)).
        rewrite (Sx sd i j), (Sx sd j O).
        rewrite (scalars_const (y :: rest) sd i j Srest), (scalars_const (y :: rest) sd j O Srest).
        assert (EB2 : B2 = gsem sd x O O * fprod (map (fun x0 => gsem sd x0 O O) (y :: rest))) by reflexivity.
        rewrite EB2.
        set (X := gsem sd x O O). set (R := fprod (map (fun x0 => gsem sd x0 O O) (y :: rest))).
        replace (A * 1 * (X * R) * 1) with (A * X * R) by ring. rewrite D3 by apply DA. ring.
    - (* Pow *)
      apply andb_true_iff in Hg. destruct Hg as [Hg Hgx]. apply andb_true_iff in Hg. destruct Hg as [Cx Hgb].
      simpl in Hcs. apply andb_true_iff in Hcs. destruct Hcs as [Cb Sp]. apply andb_true_iff in Cb. destruct Cb as [Cb Cxx].
      assert (Ssc : scalar_like (GPow b x)) by now apply is_scalar_sem.
      assert (Sb : scalar_like b /\ scalar_like x).
      { unfold is_scalar in Sp. simpl in Sp.
        destruct (gshape d b) as [[| |]|] eqn:Eb; try discriminate.
        destruct (gshape d x) as [[| |]|] eqn:Ex; try discriminate.
        split; now apply scalar_sem. }
      destruct Sb as [Sb Sx].
      destruct Hd as (Db & Dx & Hq).
      assert (COMMON : forall sd i j,
                let vb := gsem sd b j O in let vx := gsem sd x j O in
                vb <> 0 /\ gsem sd x i j = vx /\ gsem sd b i j = vb /\
                gsem sd (gpow b (gsub1 x)) i j * vb = pow_sem vb (fst (pow_split x vx)) (snd (pow_split x vx)) /\
                gsem sd (GPow b x) i j = pow_sem vb (fst (pow_split x vx)) (snd (pow_split x vx)) /\
                vx = part_val (fst (pow_split x vx)) + nm (snd (pow_split x vx)) /\
                match fst (pow_split x vx) with Some e => Pdom S vb e | None => True end).
      { intros sd i j vb vx. destruct (Hq sd j O) as [Hnz Hpd].
        assert (E1 : gsem sd x i j = vx) by (unfold vx; rewrite (Sx sd i j), (Sx sd j O); reflexivity).
        assert (Eb : gsem sd b i j = vb) by (unfold vb; rewrite (Sb sd i j), (Sb sd j O); reflexivity).
        assert (Ep : gsem sd (GPow b x) i j = pow_sem vb (fst (pow_split x vx)) (snd (pow_split x vx))).
        { rewrite (Ssc sd i j), <- (Ssc sd j O). reflexivity. }
        repeat split; auto.
        - rewrite <- Ep, <- Eb. apply pow_step; auto. rewrite Eb. exact Hnz.
        - apply (pow_split_val x vx Dx). apply gsem_exponent_shape. }
      destruct (is_number x) eqn:Nx; cbn [negb] in H.
      + (* constant exponent *)
        apply bind_ok in H. destruct H as [a [Ha H]].
        assert (IHa : geq a (G1 OGrad b)) by (apply (IH _ _ Ha); auto).
        intros sd i j.
        assert (R : gsem sd r i j = gsem sd x i j * gsem sd (gpow b (gsub1 x)) i j * gsem sd a i j).
        { destruct a; inversion H; subst; try (rewrite gmul_sem; cbn [map DOpP.fprod]; ring).
          rewrite gadd_sem, map_map.
          erewrite map_ext; [|intros t; rewrite gmul_sem; cbn [map DOpP.fprod]; reflexivity].
          cbn [gsem].
          rewrite <- (fsum_scal (gsem sd x i j * gsem sd (gpow b (gsub1 x)) i j) (fun t => gsem sd t i j)).
          f_equal. apply map_ext. intros t. ring. }
        rewrite R. clear R H.
        destruct (COMMON sd i j) as (Hnz & E1 & Eb & E2 & Ep & Ev & Hpd).
        rewrite (IHa sd i j). cbn [gsem sem1].
        set (vb := gsem sd b j O) in *. set (vx := gsem sd x j O) in *.
        rewrite D_pow_sem.
        2:{ exact Hnz. }
        2:{ pose proof (pow_split_D x vx i (number_D x Nx Dx sd j O i) Dx) as HD.
            destruct (fst (pow_split x vx)); auto. }
        rewrite <- Ev. rewrite E1, <- E2. field. exact Hnz.
      + (* the general power rule *)
        cbn [orb] in Hgx.
        apply bind_ok in H. destruct H as [db [Hdb H]]. apply bind_ok in H. destruct H as [dx [Hdx H]].
        inversion H; subst r. clear H.
        assert (IHb : geq db (G1 OGrad b)) by (apply (IH _ _ Hdb); auto).
        assert (IHx : geq dx (G1 OGrad x)) by (apply (IH _ _ Hdx); auto).
        intros sd i j.
        destruct (COMMON sd i j) as (Hnz & E1 & Eb & E2 & Ep & Ev & Hpd).
        rewrite gadd_sem. cbn [map DOpP.fsum]. rewrite !gmul_sem. cbn [map DOpP.fprod].
        rewrite (IHb sd i j), (IHx sd i j), Ep.
        change (gsem sd (GFn Flog b) i j) with (E S Flog (gsem sd b i j)). rewrite Eb.
        change (gsem sd (G1 OGrad b) i j) with (Dk i (gsem sd b j O)).
        change (gsem sd (G1 OGrad x) i j) with (Dk i (gsem sd x j O)).
        change (gsem sd (G1 OGrad (GPow b x)) i j) with
          (Dk i (pow_sem (gsem sd b j O) (fst (pow_split x (gsem sd x j O))) (snd (pow_split x (gsem sd x j O))))).
        set (vb := gsem sd b j O) in *. set (vx := gsem sd x j O) in *.
        rewrite D_pow_sem_gen by assumption.
        assert (Dv : Dk i vx = Dk i (part_val (fst (pow_split x vx)))).
        { rewrite Ev at 1. rewrite (D_add S), D_nm. ring. }
        rewrite <- Dv, <- Ev, E1, <- E2. field. exact Hnz.
  Qed.

  (* ================================================================ well-formedness of the results *)
  (* every member of a sum / product that is commutative is a scalar: the invariant of the expressions the
     constructors return, needed when a result is passed to another constructor (Div, Laplace) *)
  Fixpoint CS2 (e : gexpr) : Prop :=
    match e with
    | GAdd l | GMul l =>
        (fix all (l : list gexpr) : Prop :=
           match l with
           | [] => True
           | x :: r => (CS2 x /\ (is_comm d x = true -> scalar_like x)) /\ all r
           end) l
    | _ => True
    end.
  Definition Good (e : gexpr) : Prop := CS2 e /\ (is_comm d e = true -> scalar_like e).

  Lemma CS2_list l :
    (fix all (l : list gexpr) : Prop :=
       match l with [] => True | x :: r => (CS2 x /\ (is_comm d x = true -> scalar_like x)) /\ all r end) l
    <-> Forall Good l.
  Proof.
    induction l as [|x r IH]; split; intros H; auto.
    - destruct H. constructor; auto. now apply IH.
    - inversion H; subst. split; auto. now apply IH.
  Qed.
  Lemma CS2_add l : CS2 (GAdd l) <-> Forall Good l. Proof. apply CS2_list. Qed.
  Lemma CS2_mul l : CS2 (GMul l) <-> Forall Good l. Proof. apply CS2_list. Qed.

  Lemma CS2_pull e : CS2 e -> pull_sem e.
  Proof.
    induction e as [p q|n|c|n|n|n c| |l IHl|l IHl|b x IHb IHx|f a IHa|o a IHa|o a b IHa IHb] using gexpr_ind';
      intros H; try exact I.
    - apply pull_sem_add. apply CS2_add in H. rewrite Forall_forall in *. intros x Hx. apply IHl; auto. apply H; auto.
    - cbn [pull_sem]. apply CS2_mul in H. rewrite Forall_forall in *. intros x Hx. apply H; auto.
  Qed.

  Lemma scalar_like_mul l : Forall scalar_like l -> scalar_like (GMul l).
  Proof. intros H sd i j. cbn [gsem]. rewrite (scalars_const l sd i j H). reflexivity. Qed.
  Lemma scalar_like_add l : Forall scalar_like l -> scalar_like (GAdd l).
  Proof.
    intros H sd i j. cbn [gsem]. f_equal. apply map_ext_in. intros x Hx. rewrite Forall_forall in H. apply (H x Hx).
  Qed.

  Lemma Good_zero : Good gzero. Proof. split; [exact I|]. intros _ sd i j. reflexivity. Qed.
  Lemma Good_one : Good gone. Proof. split; [exact I|]. intros _ sd i j. reflexivity. Qed.

  Lemma Good_GMul l : Forall Good l -> Good (GMul l).
  Proof.
    intros H. split; [now apply CS2_mul|]. intros Hc. apply scalar_like_mul.
    simpl in Hc. rewrite forallb_forall in Hc. rewrite Forall_forall in *. intros x Hx. apply H; auto.
  Qed.
  Lemma Good_GAdd l : Forall Good l -> Good (GAdd l).
  Proof.
    intros H. split; [now apply CS2_add|]. intros Hc. apply scalar_like_add.
    simpl in Hc. rewrite forallb_forall in Hc. rewrite Forall_forall in *. intros x Hx. apply H; auto.
  Qed.

  Lemma Forall_flat_map {A} (Q : A -> Prop) (f : A -> list A) l :
    (forall x, In x l -> Forall Q (f x)) -> Forall Q (flat_map f l).
  Proof.
    intros H. apply Forall_forall. intros y Hy. apply in_flat_map in Hy. destruct Hy as [x [Hx Hy]].
    specialize (H x Hx). rewrite Forall_forall in H. auto.
  Qed.

  Lemma Good_gmul l : Forall Good l -> Good (gmul l).
  Proof.
    intros H. unfold gmul.
    assert (Hf : Forall Good (flat_mul l)).
    { apply Forall_flat_map. intros x Hx. rewrite Forall_forall in H. specialize (H x Hx).
      destruct x; try (constructor; [exact H|constructor]). destruct H as [H _]. now apply CS2_mul. }
    destruct (existsb is_zero (flat_mul l)); [apply Good_zero|].
    pose proof (Forall_filter Good (fun x => negb (is_one x)) _ Hf) as Hg.
    destruct (filter (fun x => negb (is_one x)) (flat_mul l)) as [|x [|y r]].
    - apply Good_one.
    - now inversion Hg.
    - now apply Good_GMul.
  Qed.
  Lemma Good_gadd l : Forall Good l -> Good (gadd l).
  Proof.
    intros H. unfold gadd.
    assert (Hf : Forall Good (flat_add l)).
    { apply Forall_flat_map. intros x Hx. rewrite Forall_forall in H. specialize (H x Hx).
      destruct x; try (constructor; [exact H|constructor]). destruct H as [H _]. now apply CS2_add. }
    pose proof (Forall_filter Good (fun x => negb (is_zero x)) _ Hf) as Hg.
    destruct (filter (fun x => negb (is_zero x)) (flat_add l)) as [|x [|y r]].
    - apply Good_zero.
    - now inversion Hg.
    - now apply Good_GAdd.
  Qed.
  Lemma Good_gmul_raw l : Forall Good l -> Good (gmul_raw l).
  Proof.
    intros H. destruct l as [|x [|y r]]; [apply Good_one|now inversion H|now apply Good_GMul].
  Qed.
  Lemma Good_gadd_raw l : Forall Good l -> Good (gadd_raw l).
  Proof.
    intros H. destruct l as [|x [|y r]]; [apply Good_zero|now inversion H|now apply Good_GAdd].
  Qed.
  Lemma Good_gneg e : Good e -> Good (gneg e).
  Proof.
    intros H. unfold gneg. apply Good_gmul. constructor; [|constructor; [exact H|constructor]].
    split; [exact I|]. intros _ sd i j. reflexivity.
  Qed.

  Lemma Good_number e : is_number e = true -> Good e.
  Proof.
    intros Hn. split; [|intros _; now apply number_scalar].
    induction e as [p q|n|c|n|n|n c| |l IHl|l IHl|b x IHb IHx|f a IHa|o a IHa|o a b IHa IHb] using gexpr_ind';
      try exact I.
    - apply CS2_add. simpl in Hn. rewrite forallb_forall in Hn. rewrite Forall_forall in *. intros x Hx.
      split; [apply IHl; auto|intros _; apply number_scalar; auto].
    - apply CS2_mul. simpl in Hn. rewrite forallb_forall in Hn. rewrite Forall_forall in *. intros x Hx.
      split; [apply IHl; auto|intros _; apply number_scalar; auto].
  Qed.

  (* a well-typed scalar that respects "commutative => scalar" is well-formed *)
  Lemma cs_scalar_CS2 e : cs_ok d e = true -> is_scalar d e = true -> CS2 e.
  Proof.
    induction e as [p q|n|c|n|n|n c| |l IHl|l IHl|b x IHb IHx|f a IHa|o a IHa|o a b IHa IHb] using gexpr_ind';
      intros Hc Hs; try exact I.
    - apply CS2_add. unfold is_scalar in Hs. simpl in Hs. destruct l as [|x r]; [discriminate|].
      destruct (fold_left (fun acc y => shape_add acc (gshape d y)) r (gshape d x)) as [[| |]|] eqn:E; try discriminate.
      apply fold_add_all in E. destruct E as [Ex Er].
      simpl in Hc. apply andb_true_iff in Hc. destruct Hc as [Cx Cr]. rewrite forallb_forall in Cr.
      inversion IHl as [|? ? Ix Ir]; subst.
      assert (Sx : is_scalar d x = true) by (unfold is_scalar; now rewrite Ex).
      constructor.
      + split; [now apply Ix|intros _; now apply is_scalar_sem].
      + rewrite Forall_forall in *. intros y Hy.
        assert (Sy : is_scalar d y = true) by (unfold is_scalar; now rewrite (Er y Hy)).
        split; [apply Ir; auto|intros _; now apply is_scalar_sem].
    - apply CS2_mul. unfold is_scalar in Hs. simpl in Hs.
      destruct (fold_left (fun acc y => shape_mul acc (gshape d y)) l (Some ShS)) as [[| |]|] eqn:E; try discriminate.
      apply fold_mul_S in E. destruct E as [_ Er].
      simpl in Hc. rewrite forallb_forall in Hc.
      rewrite Forall_forall in *. intros y Hy.
      assert (Sy : is_scalar d y = true) by (unfold is_scalar; now rewrite (Er y Hy)).
      specialize (Hc y Hy). apply andb_true_iff in Hc. destruct Hc as [Cy _].
      split; [apply IHl; auto|intros _; now apply is_scalar_sem].
  Qed.

  Lemma Good_of_cs e : cs_ok d e = true -> is_scalar d e = true -> Good e.
  Proof. intros Hc Hs. split; [now apply cs_scalar_CS2|intros _; now apply is_scalar_sem]. Qed.

  (* an operator application that is commutative only when it is a scalar *)
  Lemma Good_G1 o a : (o = OCurl \/ is_comm d (G1 o a) = false) -> Good (G1 o a).
  Proof.
    intros H. split; [exact I|]. intros Hc. destruct H as [->|H]; [|congruence].
    simpl in Hc. apply andb_true_iff in Hc. destruct Hc as [Hd _]. apply Nat.eqb_eq in Hd.
    intros sd i j. cbn [gsem sem1]. rewrite Hd. reflexivity.
  Qed.
  Lemma Good_G2 o a b : is_comm d (G2 o a b) = true ->
    ((o = ODot /\ is_mat_shape a = false /\ is_mat_shape b = false) \/ o = OInner \/ o = OBracket) -> Good (G2 o a b).
  Proof.
    intros _ Ho. split; [exact I|]. intros _ sd i j.
    destruct Ho as [(-> & Ea & Eb)|[->| ->]]; cbn [gsem sem2 fst snd]; rewrite ?Ea, ?Eb; try reflexivity.
    destruct (is_mat_shape a); reflexivity.
  Qed.

  Lemma pow_scalar b e : scalar_like b -> scalar_like e -> scalar_like (GPow b e).
  Proof. intros Sb Se sd i j. cbn [gsem]. rewrite (Sb sd i j), (Se sd i j). reflexivity. Qed.

  Lemma gsub1_val x : exists K, forall sd i j, gsem sd (gsub1 x) i j = gsem sd x i j + K.
  Proof.
    destruct x as [p q|n|c|n|n|n c| |l|l|b' x'|f a|o a|o a b'];
      try (exists (nm (-1)); intros sd i j; cbn [gsub1 gsem map DOpP.fsum]; rewrite gint_sem; ring).
    - exists (qnum (p - Z.pos q) q - qnum p q). intros sd i j. cbn [gsub1 gsem]. ring.
    - destruct l as [|y r].
      { exists (nm (-1)). intros sd i j. cbn [gsub1 gsem map DOpP.fsum]. rewrite gint_sem. ring. }
      destruct y as [p q|n|c|n|n|n c| |l'|l'|b' x'|f a|o a|o a b'];
        try (exists (nm (-1)); intros sd i j; cbn [gsub1 gsem map DOpP.fsum]; rewrite gint_sem; ring).
      cbn [gsub1]. destruct (is_zero (GNum (p - Z.pos q) q)).
      + exists (- qnum p q). intros sd i j. rewrite gadd_raw_sem. cbn [gsem map DOpP.fsum]. ring.
      + exists (qnum (p - Z.pos q) q - qnum p q). intros sd i j. cbn [gsem map DOpP.fsum]. ring.
  Qed.

  Lemma gsub1_scalar x : scalar_like x -> scalar_like (gsub1 x).
  Proof.
    intros Sx. destruct (gsub1_val x) as [K HK]. intros sd i j. rewrite !HK, (Sx sd i j). reflexivity.
  Qed.

  Lemma gpow_good b e : Good b -> scalar_like b -> scalar_like e -> Good (gpow b e).
  Proof.
    intros Gb Sb Se. unfold gpow. destruct (is_zero e); [apply Good_one|]. destruct (is_one e); [exact Gb|].
    split; [exact I|]. intros _. now apply pow_scalar.
  Qed.

  Theorem mk_lin_good fuel : forall o e r,
    (o = OCurl \/ o = ORot \/ o = OHessian) -> mk_lin fuel o e = Ok r -> Good r.
  Proof.
    induction fuel as [|k IH]; intros o e r Ho H; [discriminate|].
    assert (GO : forall a, Good (G1 o a)).
    { intros a. apply Good_G1. destruct Ho as [->|[->| ->]]; auto. }
    cbn [mk_lin] in H. destruct (negb (has_types e)).
    { inversion H; subst. unfold no_types. destruct (is_number e); [apply Good_zero|apply GO]. }
    destruct e as [p q|n|c|n|n|n c| |l|l|b x|f a|o' a|o' a b]; try (atom_arm H; inversion H; subst; apply GO).
    - apply bindL_ok in H. destruct H as [Hs H]. apply bind_ok in H. destruct H as [rb [Hb H]].
      inversion H; subst. clear H.
      destruct (mapM (mk_lin k o) (filter has_types l)) as [s ra] eqn:Em. simpl in Hs. simpl.
      apply Good_gadd. apply Forall_app. split.
      + pose proof (mapM_ok _ _ _ _ Em Hs) as HF. clear Em. induction HF; constructor; eauto.
      + constructor; [|constructor]. eapply IH; eauto.
    - inversion H; subst. apply Good_gmul. constructor; [|constructor; [apply GO|constructor]].
      apply Good_gmul. apply Forall_forall. intros x Hx. apply filter_In in Hx. apply Good_number. tauto.
    - destruct o'; try (atom_arm H; inversion H; subst; apply GO).
      destruct o; inversion H; subst; try apply GO. apply Good_zero.
  Qed.

  Theorem mk_grad_good fuel : forall e r, mk_grad d fuel e = Ok r -> cs_ok d e = true -> Good r.
  Proof.
    induction fuel as [|k IH]; intros e r H Hcs; [discriminate|].
    assert (GO : forall a, Good (G1 OGrad a)) by (intros a; apply Good_G1; right; reflexivity).
    cbn [mk_grad] in H. destruct (negb (has_types e)).
    { inversion H; subst. unfold no_types. destruct (is_number e); [apply Good_zero|apply GO]. }
    destruct e as [p q|n|c|n|n|n c| |l|l|b x|f a|o' a|o' a b]; try (atom_arm H; inversion H; subst; apply GO).
    - (* Add *)
      apply bindL_ok in H. destruct H as [Hs H]. apply bind_ok in H. destruct H as [rb [Hb H]].
      inversion H; subst. clear H.
      destruct (mapM (mk_grad d k) (filter has_types l)) as [s ra] eqn:Em. simpl in Hs. simpl.
      apply Good_gadd. apply Forall_app. split.
      + pose proof (mapM_ok _ _ _ _ Em Hs) as HF. clear Em.
        assert (Hin : forall x, In x (filter has_types l) -> cs_ok d x = true).
        { intros x Hx. apply filter_In in Hx. simpl in Hcs. rewrite forallb_forall in Hcs. apply Hcs. tauto. }
        induction HF as [|x y l1 l2 Hxy HF IHF]; constructor.
        * eapply IH; eauto. apply Hin. now left.
        * apply IHF. intros z Hz. apply Hin. now right.
      + constructor; [|constructor]. eapply IH; eauto. now apply cs_ok_sub_add.
    - (* Mul *)
      set (cm := filter (is_comm d) l) in *.
      set (ncm := filter (fun a => negb (is_comm d a)) l) in *.
      set (coeffs := filter is_number cm) in *.
      set (free := filter (fun a => negb (is_number a) && negb (has_types a)) cm) in *.
      set (cm' := filter (fun a => negb (is_number a) && has_types a) cm) in *.
      assert (Gcm : Forall Good cm).
      { apply Forall_forall. intros x Hx. apply filter_In in Hx. destruct Hx as [Hx Hc].
        simpl in Hcs. rewrite forallb_forall in Hcs. specialize (Hcs x Hx). rewrite Hc in Hcs.
        apply andb_true_iff in Hcs. destruct Hcs as [C1 C2]. simpl in C2. now apply Good_of_cs. }
      assert (Gco : Good (gmul coeffs)) by (apply Good_gmul; apply Forall_filter; exact Gcm).
      assert (Gfr : Forall Good free) by (apply Forall_filter; exact Gcm).
      assert (Gcp : Forall Good cm') by (apply Forall_filter; exact Gcm).
      assert (Icp : forall x, In x cm' -> In x l).
      { intros x Hx. apply filter_In in Hx. destruct Hx as [Hx _]. apply filter_In in Hx. tauto. }
      remember (gmul_raw free) as b1 eqn:Eb1.
      remember (gmul_raw cm') as b2 eqn:Eb2.
      remember (gmul_raw ncm) as b3 eqn:Eb3.
      remember (gmul coeffs) as a0 eqn:Ea0.
      assert (Gb1 : Good b1) by (subst b1; now apply Good_gmul_raw).
      assert (Gb2 : Good b2) by (subst b2; now apply Good_gmul_raw).
      destruct ncm as [|n0 nr] eqn:En.
      2:{ assert (Hr : r = gmul [a0; G1 OGrad (gmul [b1; b2; b3])]).
          { destruct free, cm'; inversion H; reflexivity. }
          subst r. apply Good_gmul. constructor; [exact Gco|constructor; [apply GO|constructor]]. }
      destruct free as [|f0 fr] eqn:Ef.
      2:{ apply bind_ok in H. destruct H as [db2 [Hdb2 H]]. inversion H; subst r. clear H.
          assert (Gd : Good db2).
          { eapply IH; eauto. subst b2. eapply cs_ok_sub_mul; eauto. }
          apply Good_gadd. constructor; [|constructor; [|constructor]]; apply Good_gmul;
            repeat (constructor; auto). }
      destruct cm' as [|x [|y rest]] eqn:Ec.
      + inversion H; subst r. apply Good_zero.
      + apply bind_ok in H. destruct H as [rx [Hx H]]. inversion H; subst r. clear H.
        apply Good_gmul. constructor; [exact Gco|constructor; [|constructor]].
        eapply IH; eauto. apply (cs_ok_mul l x Hcs). apply Icp. now left.
      + apply bind_ok in H. destruct H as [d1 [H1 H]]. apply bind_ok in H. destruct H as [d2 [H2 H]].
        inversion H; subst r. clear H.
        inversion Gcp as [|? ? Gx Grest]; subst.
        assert (G1' : Good d1).
        { eapply IH; eauto. apply (cs_ok_mul l x Hcs). apply Icp. now left. }
        assert (G2' : Good d2).
        { eapply IH; eauto. eapply cs_ok_sub_mul; eauto. intros z Hz. apply Icp. now right. }
        assert (Gr : Good (gmul_raw (y :: rest))) by now apply Good_gmul_raw.
        apply Good_gadd. constructor; [|constructor; [|constructor]]; apply Good_gmul;
          repeat (constructor; auto).
    - (* Pow *)
      simpl in Hcs. apply andb_true_iff in Hcs. destruct Hcs as [Cb Sp]. apply andb_true_iff in Cb. destruct Cb as [Cb Cx].
      assert (Sb : is_scalar d b = true /\ is_scalar d x = true).
      { unfold is_scalar in *. simpl in Sp.
        destruct (gshape d b) as [[| |]|]; try discriminate. destruct (gshape d x) as [[| |]|]; try discriminate. auto. }
      destruct Sb as [Sb Sx].
      assert (Gx : Good x) by now apply Good_of_cs.
      assert (Ge : Good (gpow b (gsub1 x))).
      { apply gpow_good; [now apply Good_of_cs|now apply is_scalar_sem|apply gsub1_scalar; now apply is_scalar_sem]. }
      destruct (negb (is_number x)).
      { (* general power rule *)
        apply bind_ok in H. destruct H as [db [Hdb H]]. apply bind_ok in H. destruct H as [dx [Hdx H]].
        inversion H; subst r. clear H.
        assert (Gdb : Good db) by (eapply IH; eauto).
        assert (Gdx : Good dx) by (eapply IH; eauto).
        assert (Gp : Good (GPow b x)).
        { split; [exact I|]. intros _. apply pow_scalar; now apply is_scalar_sem. }
        assert (Gl : Good (GFn Flog b)).
        { split; [exact I|]. intros _ sd i j. cbn [gsem]. now rewrite (is_scalar_sem b Sb sd i j). }
        apply Good_gadd. constructor; [|constructor; [|constructor]]; apply Good_gmul; repeat (constructor; auto). }
      apply bind_ok in H. destruct H as [a [Ha H]].
      assert (Ga : Good a) by (eapply IH; eauto).
      destruct a; inversion H; subst; try (apply Good_gmul; repeat (constructor; auto)).
      apply Good_gadd. destruct Ga as [Ga _]. apply CS2_add in Ga.
      apply Forall_forall. intros t Ht. apply in_map_iff in Ht. destruct Ht as [u [<- Hu]].
      rewrite Forall_forall in Ga. apply Good_gmul. repeat (constructor; auto).
  Qed.

  (* ================================================================ Div *)
  Lemma cs_ok_pull a : cs_ok d a = true -> pull_sem a.
  Proof.
    induction a as [p q|n|c|n|n|n c| |l IHl|l IHl|b x IHb IHx|f a IHa|o a IHa|o a b IHa IHb] using gexpr_ind';
      intros H; try exact I.
    - apply pull_sem_add. simpl in H. rewrite forallb_forall in H. rewrite Forall_forall in *. auto.
    - cbn [pull_sem]. apply Forall_forall. intros x Hx. now apply (cs_ok_mul l x H Hx).
  Qed.

  Lemma filter_nil_all {A} (p : A -> bool) l : filter p l = [] -> filter (fun x => negb (p x)) l = l.
  Proof.
    induction l as [|x r IH]; simpl; auto. destruct (p x); simpl; [discriminate|]. intros H. now rewrite IH.
  Qed.

  Lemma all_numbers_no_types l : filter (fun a => negb (is_number a)) l = [] -> has_types (GMul l) = false.
  Proof.
    intros H. apply number_no_types. simpl. apply forallb_forall. intros x Hx.
    destruct (is_number x) eqn:E; auto.
    assert (Hin : In x (filter (fun a => negb (is_number a)) l)) by (apply filter_In; rewrite E; auto).
    rewrite H in Hin. destruct Hin.
  Qed.

  Lemma mk_div_vecfun fuel n r : mk_div d sgt fuel (GVF n) = Ok r -> r = G1 ODiv (GVF n).
  Proof. destruct fuel; [discriminate|]. cbn. congruence. Qed.

  (* div (f F) = f div F + F . grad f *)
  Lemma div_fF (F f : val) jj :
    (forall i j, f i j = f O O) ->
    sumn d (fun i => Dk i (F i jj * f i jj)) =
    f O O * sumn d (fun i => Dk i (F i jj)) + sumn d (fun k => F k jj * Dk k (f O O)).
  Proof.
    intros Hf. rewrite <- sumn_scal, <- sumn_add. apply sumn_ext. intros k _.
    rewrite (Hf k jj), (D_mul S). ring.
  Qed.

  (* div (a x b) = b . curl a - a . curl b   (d = 3) *)
  Lemma div_cross (a b : val) : d = 3%nat ->
    forall m1 sd s1 s2 (x1 x2 x3 x4 x5 x6 : val) jj kk,
    sem1 ODiv sd (sem2 OCross m1 a b) x1 x2 jj kk =
    dotv b (sem1 OCurl s1 a x3 x4) - dotv a (sem1 OCurl s2 b x5 x6).
  Proof.
    intros Hd m1 sd s1 s2 x1 x2 x3 x4 x5 x6 jj kk. cbn [sem1 sem2]. unfold dotv. rewrite Hd. cbn [sumn].
    rewrite !(Dsub S), !(D_mul S). ring.
  Qed.

  Lemma div_curl (a : val) : d <> 2%nat -> forall sd s1 (x1 x2 x3 x4 : val) jj kk,
    sem1 ODiv sd (sem1 OCurl s1 a x1 x2) x3 x4 jj kk = 0.
  Proof.
    intros Hd sd s1 x1 x2 x3 x4 jj kk. cbn [sem1].
    destruct d as [|[|[|[|n]]]].
    - reflexivity.
    - cbn [sumn]. rewrite Dz. ring.
    - now elim Hd.
    - cbn [sumn]. rewrite !(Dsub S). rewrite (D_comm S lg 0 1), (D_comm S lg 0 2), (D_comm S lg 1 2). ring.
    - transitivity (sumn (Datatypes.S (Datatypes.S (Datatypes.S (Datatypes.S n)))) (fun _ => 0)); [|apply sumn_zero].
      apply sumn_ext. intros; apply Dz.
  Qed.

  Theorem mk_div_sound fuel : forall e r,
    mk_div d sgt fuel e = Ok r -> gdf e -> div_guard d e = true -> geq r (G1 ODiv e).
  Proof.
    induction fuel as [|k IH]; intros e r H Hd Hg; [discriminate|].
    destruct (has_types e) eqn:Et.
    2:{ cbn [mk_div] in H. rewrite Et in H. simpl in H. inversion H; subst. now apply no_types_sound. }
    cbn [mk_div] in H. rewrite Et in H. cbn [negb] in H.
    destruct e as [p q|n|c|n|n|n c| |l|l|b x|f a|o' a|o' a b];
      try (atom_arm H; inversion H; subst; apply geq_refl);
      cbn [div_guard] in Hg; rewrite Et in Hg; cbn [negb] in Hg.
    - (* Add *)
      apply bindL_ok in H. destruct H as [Hs H]. apply bind_ok in H. destruct H as [rb [Hb H]].
      inversion H; subst. clear H.
      destruct (mapM (mk_div d sgt k) (filter has_types l)) as [s ra] eqn:Em. simpl in Hs. simpl.
      apply (add_arm_sound ODiv (mk_div d sgt k)).
      + eapply mapM_ok; eauto.
      + intros x y Hx Hxy. apply (IH x y Hxy).
        * eapply gdf_in_add; eauto.
        * rewrite forallb_forall in Hg. specialize (Hg x Hx).
          destruct (has_types x) eqn:Tx; [exact Hg|].
          destruct x; simpl in Tx |- *; try rewrite Tx; reflexivity.
      + apply (IH _ _ Hb); [now apply gdf_filter_add|].
        assert (Nt : has_types (gadd_raw (filter (fun i0 => negb (has_types i0)) l)) = false).
        { destruct (filter (fun i0 => negb (has_types i0)) l) as [|u [|v w]] eqn:E; auto.
          - assert (Hu : In u (filter (fun i0 => negb (has_types i0)) l)) by (rewrite E; now left).
            apply filter_In in Hu. destruct Hu as [_ Hu]. simpl. now destruct (has_types u).
          - cbn [gadd_raw has_types]. rewrite <- E.
            destruct (existsb has_types (filter (fun i0 => negb (has_types i0)) l)) eqn:Ex; auto.
            apply existsb_exists in Ex. destruct Ex as [z [Hz Tz]]. apply filter_In in Hz.
            destruct Hz as [_ Hz]. rewrite Tz in Hz. discriminate. }
        destruct (gadd_raw (filter (fun i0 => negb (has_types i0)) l)); simpl in Nt |- *; try rewrite Nt; reflexivity.
    - (* Mul *)
      set (coeffs := filter is_number l) in *.
      set (vectors := filter (fun a => negb (is_number a)) l) in *.
      intros sd i j. rewrite (G1_mul_numbers ODiv l) by exact Hd. fold coeffs vectors.
      destruct vectors as [|x [|y [|z rest]]] eqn:Ev.
      + exfalso. rewrite (all_numbers_no_types l Ev) in Et. discriminate.
      + inversion H; subst. rewrite gmul_sem. cbn [map DOpP.fprod gmul_raw]. rewrite gmul_sem. ring.
      + (* two factors: a*(f div F + F . grad f) when one of them is a VectorFunction *)
        set (A := fprod (map (fun x0 => gsem sd x0 i j) coeffs)).
        assert (HA0 : gsem sd (gmul coeffs) i j = A) by apply gmul_sem.
        assert (Dv : Forall gdf [x; y]).
        { rewrite <- Ev. apply Forall_filter. now apply gdf_mul. }
        inversion Dv as [|? ? Dx Dy']; subst. inversion Dy' as [|? ? Dy _]; subst.
        assert (FB : forall r', Ok (gmul [gmul coeffs; G1 ODiv (gmul_raw [x; y])]) = Ok r' ->
                     gsem sd r' i j = A * gsem sd (G1 ODiv (gmul_raw [x; y])) i j).
        { intros r' E. inversion E; subst r'. rewrite gmul_sem. cbn [map DOpP.fprod gmul_raw]. rewrite HA0. ring. }
        assert (R : forall f F, is_vecfun F = true -> f_ok d f = true -> gdf f ->
                    (forall jj kk, gsem sd (G1 ODiv (gmul_raw [x; y])) jj kk =
                                   sumn d (fun i0 => Dk i0 (gsem sd F i0 jj * gsem sd f i0 jj))) ->
                    match mk_div d sgt k F with
                    | Ok dF =>
                        match mk_grad d k f with
                        | Ok gf =>
                            match mk_bil d sgt k ODot F gf with
                            | Ok dt => Ok (gmul [gmul coeffs; gadd [gmul [f; dF]; dt]])
                            | Raise => Ok (gmul [gmul coeffs; G1 ODiv (gmul_raw [x; y])])
                            | NoFuel => NoFuel
                            end
                        | Raise => Ok (gmul [gmul coeffs; G1 ODiv (gmul_raw [x; y])])
                        | NoFuel => NoFuel
                        end
                    | Raise => Ok (gmul [gmul coeffs; G1 ODiv (gmul_raw [x; y])])
                    | NoFuel => NoFuel
                    end = Ok r ->
                    gsem sd r i j = A * gsem sd (G1 ODiv (gmul_raw [x; y])) i j).
        { intros f F HF Hf Df HL HR.
          apply andb_true_iff in Hf. destruct Hf as [Hf Gf]. apply andb_true_iff in Hf. destruct Hf as [Sf Cf].
          destruct (mk_div d sgt k F) as [dF| |] eqn:EF; try discriminate; [|now apply FB].
          destruct F; try discriminate. apply mk_div_vecfun in EF. subst dF.
          destruct (mk_grad d k f) as [gf| |] eqn:Egf; try discriminate; [|now apply FB].
          destruct (mk_bil d sgt k ODot (GVF n) gf) as [dt| |] eqn:Edt; try discriminate; [|now apply FB].
          inversion HR; subst r. clear HR.
          pose proof (mk_grad_sound k f gf Egf Df Cf Gf) as Sg.
          pose proof (mk_grad_good k f gf Egf Cf) as [Cg _].
          rewrite gmul_sem. cbn [map DOpP.fprod]. rewrite HA0.
          rewrite gadd_sem. cbn [map DOpP.fsum]. rewrite gmul_sem. cbn [map DOpP.fprod].
          rewrite (mk_dot_vv k (GVF n) gf dt Edt);
            [|exact I|now apply CS2_pull|reflexivity
             |apply nomat_inner_flag; apply (mk_grad_nomat k f gf Egf); now apply is_scalar_shape].
          rewrite HL. rewrite (div_fF (gsem sd (GVF n)) (gsem sd f) i (is_scalar_sem f Sf sd)).
          cbn [gsem sem1 sem2]. unfold dotv.
          rewrite (is_scalar_sem f Sf sd i j).
          assert (E : sumn d (fun k0 => fld S n (Datatypes.S k0) sd * gsem sd gf k0 O) =
                      sumn d (fun k0 => fld S n (Datatypes.S k0) sd * Dk k0 (gsem sd f O O))).
          { apply sumn_ext. intros k0 _. rewrite (Sg sd k0 O). reflexivity. }
          rewrite E. ring. }
        destruct (is_vecfun x) eqn:Vx.
        * apply (R y x Vx Hg Dy); [|exact H].
          intros jj kk. cbn [gmul_raw gsem sem1 map DOpP.fprod]. apply sumn_ext. intros i0 _. f_equal. ring.
        * destruct (is_vecfun y) eqn:Vy.
          -- apply (R x y Vy Hg Dx); [|exact H].
             intros jj kk. cbn [gmul_raw gsem sem1 map DOpP.fprod]. apply sumn_ext. intros i0 _. f_equal. ring.
          -- now apply FB.
      + (* more than two non-numeric factors *)
        inversion H; subst. rewrite gmul_sem. cbn [map DOpP.fprod gmul_raw]. rewrite gmul_sem. ring.
    - (* Div(Curl) = 0 *)
      destruct o'; try (atom_arm H; inversion H; subst; apply geq_refl).
      inversion H; subst. intros sd i j. rewrite gzero_sem. symmetry. cbn [gsem].
      apply div_curl. intros E. rewrite E in Hg. discriminate.
    - (* Div(Cross) *)
      destruct o'; try (atom_arm H; inversion H; subst; apply geq_refl).
      apply andb_true_iff in Hg. destruct Hg as [Hg Ib]. apply andb_true_iff in Hg. destruct Hg as [Hg Ia].
      apply andb_true_iff in Hg. destruct Hg as [Hg Cb]. apply andb_true_iff in Hg. destruct Hg as [D3' Ca].
      apply Nat.eqb_eq in D3'. destruct Hd as [Da Db].
      apply bind_ok in H. destruct H as [ca [Hca H]]. apply bind_ok in H. destruct H as [cb [Hcb H]].
      apply bind_ok in H. destruct H as [t1 [Ht1 H]]. apply bind_ok in H. destruct H as [t2 [Ht2 H]].
      inversion H; subst r. clear H.
      pose proof (mk_lin_sound k OCurl a ca eq_refl Hca Da) as Sa.
      pose proof (mk_lin_sound k OCurl b cb eq_refl Hcb Db) as Sb.
      pose proof (mk_lin_good k OCurl a ca (or_introl eq_refl) Hca) as [Ga _].
      pose proof (mk_lin_good k OCurl b cb (or_introl eq_refl) Hcb) as [Gb _].
      intros sd i j. rewrite gadd_sem. cbn [map DOpP.fsum]. rewrite gneg_sem.
      rewrite (mk_dot_vv k b ca t1 Ht1);
        [|now apply cs_ok_pull|now apply CS2_pull|exact Ib
         |apply nomat_inner_flag; apply (mk_lin_nomat k OCurl (or_introl eq_refl) a ca Hca)].
      rewrite (mk_dot_vv k a cb t2 Ht2);
        [|now apply cs_ok_pull|now apply CS2_pull|exact Ia
         |apply nomat_inner_flag; apply (mk_lin_nomat k OCurl (or_introl eq_refl) b cb Hcb)].
      cbn [gsem]. rewrite (div_cross (gsem sd a) (gsem sd b) D3' (is_mat_shape a, is_mat_shape b) sd sd sd
                             _ _ (gsem SMinus a) (gsem SPlus a) (gsem SMinus b) (gsem SPlus b)).
      unfold dotv.
      assert (E1 : sumn d (fun k0 => gsem sd b k0 O * gsem sd ca k0 O) =
                   sumn d (fun k0 => gsem sd b k0 O * sem1 OCurl sd (gsem sd a) (gsem SMinus a) (gsem SPlus a) k0 O)).
      { apply sumn_ext. intros k0 _. rewrite (Sa sd k0 O). reflexivity. }
      assert (E2 : sumn d (fun k0 => gsem sd a k0 O * gsem sd cb k0 O) =
                   sumn d (fun k0 => gsem sd a k0 O * sem1 OCurl sd (gsem sd b) (gsem SMinus b) (gsem SPlus b) k0 O)).
      { apply sumn_ext. intros k0 _. rewrite (Sb sd k0 O). reflexivity. }
      rewrite E1, E2. ring.
  Qed.

  (* ================================================================ Laplace *)
  Lemma no_types_guard_trivial (G : nat -> gexpr -> bool) e :
    has_types e = false -> (forall e', G d e' = if negb (has_types e') then true else G d e') -> G d e = true.
  Proof. intros Ht HG. rewrite HG, Ht. reflexivity. Qed.

  Lemma laplace_fg (f g : F S) :
    sumn d (fun k => Dk k (Dk k (f * (g * 1)))) =
    f * sumn d (fun k => Dk k (Dk k g)) + g * sumn d (fun k => Dk k (Dk k f)) +
    nm 2 * sumn d (fun k => Dk k f * Dk k g).
  Proof.
    rewrite <- !sumn_scal, <- !sumn_add. apply sumn_ext. intros k _.
    replace (f * (g * 1)) with (f * g) by ring.
    rewrite (D_mul S), (D_add S), !(D_mul S). unfold num. simpl. ring.
  Qed.

  Lemma has_types_gadd_raw_notypes l :
    has_types (gadd_raw (filter (fun i0 => negb (has_types i0)) l)) = false.
  Proof.
    destruct (filter (fun i0 => negb (has_types i0)) l) as [|u [|v w]] eqn:E; auto.
    - assert (Hu : In u (filter (fun i0 => negb (has_types i0)) l)) by (rewrite E; now left).
      apply filter_In in Hu. destruct Hu as [_ Hu]. simpl. now destruct (has_types u).
    - cbn [gadd_raw has_types]. rewrite <- E.
      destruct (existsb has_types (filter (fun i0 => negb (has_types i0)) l)) eqn:Ex; auto.
      apply existsb_exists in Ex. destruct Ex as [z [Hz Tz]]. apply filter_In in Hz.
      destruct Hz as [_ Hz]. rewrite Tz in Hz. discriminate.
  Qed.

  Theorem mk_laplace_sound fuel : forall e r,
    mk_laplace d sgt fuel e = Ok r -> gdf e -> laplace_guard d e = true -> geq r (G1 OLaplace e).
  Proof.
    induction fuel as [|k IH]; intros e r H Hd Hg; [discriminate|].
    destruct (has_types e) eqn:Et.
    2:{ cbn [mk_laplace] in H. rewrite Et in H. simpl in H. inversion H; subst. now apply no_types_sound. }
    cbn [mk_laplace] in H. rewrite Et in H. cbn [negb] in H.
    destruct e as [p q|n|c|n|n|n c| |l|l|b x|f a|o' a|o' a b];
      try (atom_arm H; inversion H; subst; apply geq_refl);
      cbn [laplace_guard] in Hg; rewrite Et in Hg; cbn [negb] in Hg.
    - (* Add *)
      apply bindL_ok in H. destruct H as [Hs H]. apply bind_ok in H. destruct H as [rb [Hb H]].
      inversion H; subst. clear H.
      destruct (mapM (mk_laplace d sgt k) (filter has_types l)) as [s ra] eqn:Em. simpl in Hs. simpl.
      apply (add_arm_sound OLaplace (mk_laplace d sgt k)).
      + eapply mapM_ok; eauto.
      + intros x y Hx Hxy. apply (IH x y Hxy).
        * eapply gdf_in_add; eauto.
        * rewrite forallb_forall in Hg. specialize (Hg x Hx).
          destruct (has_types x) eqn:Tx; [exact Hg|].
          destruct x; simpl in Tx |- *; try rewrite Tx; reflexivity.
      + apply (IH _ _ Hb); [now apply gdf_filter_add|].
        pose proof (has_types_gadd_raw_notypes l) as Nt.
        destruct (gadd_raw (filter (fun i0 => negb (has_types i0)) l)); simpl in Nt |- *; try rewrite Nt; reflexivity.
    - (* Mul *)
      set (coeffs := filter is_number l) in *.
      set (vectors := filter (fun a => negb (is_number a)) l) in *.
      intros sd i j. rewrite (G1_mul_numbers OLaplace l) by exact Hd. fold coeffs vectors.
      destruct vectors as [|f [|g [|z rest]]] eqn:Ev;
        try (inversion H; subst; rewrite gmul_sem; cbn [map DOpP.fprod gmul_raw]; rewrite gmul_sem; ring).
      (* f * g *)
      destruct (is_comm d f && is_comm d g) eqn:Ecm; cbn [negb] in H.
      2:{ (* a non-commutative (vector) factor: no product rule *)
          inversion H; subst. rewrite gmul_sem. cbn [map DOpP.fprod gmul_raw]. rewrite gmul_sem. ring. }
      cbn [negb orb] in Hg.
      apply andb_true_iff in Hg. destruct Hg as [Hg Hrec]. apply andb_true_iff in Hg. destruct Hg as [Ff Fg].
      assert (Dv : Forall gdf [f; g]).
      { rewrite <- Ev. apply Forall_filter. now apply gdf_mul. }
      inversion Dv as [|? ? Df Dg']; subst. inversion Dg' as [|? ? Dg _]; subst.
      assert (Iv : forall x, In x [f; g] -> In x l /\ is_number x = false).
      { intros x Hx. rewrite <- Ev in Hx. apply filter_In in Hx. destruct Hx as [Hx Hn]. split; auto.
        now destruct (is_number x). }
      assert (Lf : laplace_guard d f = true).
      { destruct (Iv f (or_introl eq_refl)) as [I1 I2]. rewrite forallb_forall in Hrec.
        specialize (Hrec f I1). rewrite I2 in Hrec. exact Hrec. }
      assert (Lg : laplace_guard d g = true).
      { destruct (Iv g (or_intror (or_introl eq_refl))) as [I1 I2]. rewrite forallb_forall in Hrec.
        specialize (Hrec g I1). rewrite I2 in Hrec. exact Hrec. }
      apply bind_ok in H. destruct H as [lg' [Hlg H]]. apply bind_ok in H. destruct H as [lf' [Hlf H]].
      apply bind_ok in H. destruct H as [gf [Hgf H]]. apply bind_ok in H. destruct H as [gg [Hgg H]].
      apply bind_ok in H. destruct H as [dt [Hdt H]]. inversion H; subst r. clear H.
      apply andb_true_iff in Ff. destruct Ff as [Ff Gf]. apply andb_true_iff in Ff. destruct Ff as [Sf Cf].
      apply andb_true_iff in Fg. destruct Fg as [Fg Gg]. apply andb_true_iff in Fg. destruct Fg as [Sg Cg].
      pose proof (IH g lg' Hlg Dg Lg) as ILg.
      pose proof (IH f lf' Hlf Df Lf) as ILf.
      pose proof (mk_grad_sound k f gf Hgf Df Cf Gf) as IGf.
      pose proof (mk_grad_sound k g gg Hgg Dg Cg Gg) as IGg.
      pose proof (mk_grad_good k f gf Hgf Cf) as [Cgf _].
      pose proof (mk_grad_good k g gg Hgg Cg) as [Cgg _].
      rewrite gmul_sem. cbn [map DOpP.fprod]. rewrite gmul_sem.
      rewrite gadd_sem. cbn [map DOpP.fsum]. rewrite !gmul_sem. cbn [map DOpP.fprod].
      rewrite (ILg sd i j), (ILf sd i j), gint_sem.
      rewrite (mk_dot_vv k gf gg dt Hdt);
        [|now apply CS2_pull|now apply CS2_pull
         |apply nomat_inner_flag; apply (mk_grad_nomat k f gf Hgf); now apply is_scalar_shape
         |apply nomat_inner_flag; apply (mk_grad_nomat k g gg Hgg); now apply is_scalar_shape].
      cbn [gmul_raw gsem sem1 sem2 map DOpP.fprod]. unfold dotv.
      rewrite (is_scalar_sem f Sf sd i j), (is_scalar_sem g Sg sd i j).
      rewrite laplace_fg.
      assert (E : sumn d (fun k0 => gsem sd gf k0 O * gsem sd gg k0 O) =
                  sumn d (fun k0 => Dk k0 (gsem sd f O O) * Dk k0 (gsem sd g O O))).
      { apply sumn_ext. intros k0 _. rewrite (IGf sd k0 O), (IGg sd k0 O). reflexivity. }
      rewrite E. ring.
  Qed.

  (* ================================================================ Bracket *)
  Lemma D_one k : Dk k 1 = 0.
  Proof. change 1 with (nm 1). apply D_nm. Qed.

  (* the Leibniz expansion of a derivation Delta over a product of scalars *)
  Lemma leibniz_sem (br : gexpr -> res) (Delta : side -> F S -> F S) :
    (forall sd x y, Delta sd (x * y) = Delta sd x * y + x * Delta sd y) ->
    (forall sd, Delta sd 1 = 0) ->
    forall post pre s ts,
    leibniz_terms br pre post = (s, ts) -> (exists z, s = Ok z) ->
    (forall f bf, In f post -> br f = Ok bf -> forall sd i j, gsem sd bf i j = Delta sd (gsem sd f O O)) ->
    Forall scalar_like pre -> Forall scalar_like post ->
    forall sd i j,
    fsum (map (fun t => gsem sd t i j) ts) =
    fprod (map (fun x => gsem sd x O O) pre) * Delta sd (fprod (map (fun x => gsem sd x O O) post)).
  Proof.
    intros HL H1. induction post as [|f r IH]; intros pre s ts H Hs Hbr Spre Spost sd i j.
    - simpl in H. inversion H; subst. simpl. rewrite H1. ring.
    - cbn [leibniz_terms] in H. destruct (br f) as [bf| |] eqn:Ebf;
        try (inversion H; subst; destruct Hs as [z Hz]; discriminate).
      destruct (leibniz_terms br (pre ++ [f])%list r) as [s' ts'] eqn:Er. inversion H; subst s ts. clear H.
      inversion Spost as [|? ? Sf Sr]; subst.
      cbn [map DOpP.fsum].
      rewrite (IH (pre ++ [f])%list s' ts' Er Hs); auto.
      + rewrite gmul_sem, map_app, fprod_app. cbn [map DOpP.fprod].
        rewrite (scalars_const pre sd i j Spre), (scalars_const r sd i j Sr).
        rewrite (Hbr f bf (or_introl eq_refl) Ebf sd i j).
        rewrite map_app, fprod_app. cbn [map DOpP.fprod]. rewrite HL. ring.
      + intros f' bf' Hin. apply Hbr. now right.
      + apply Forall_app. split; auto.
  Qed.

  Lemma bracket_guard_mul l x : bracket_guard d (GMul l) = true -> In x l -> scalar_like x /\ bracket_guard d x = true.
  Proof.
    simpl. rewrite forallb_forall. intros H Hx. specialize (H x Hx). apply andb_true_iff in H.
    destruct H as [H1 H2]. split; auto. now apply is_scalar_sem.
  Qed.

  Lemma is_coeff_number' x : is_coeff x = true -> is_number x = true.
  Proof. destruct x; try discriminate; reflexivity. Qed.

  Theorem mk_bracket_core fuel : forall a1 a2 r,
    mk_bracket sgt fuel a1 a2 = Ok r -> gdf a1 -> gdf a2 ->
    bracket_guard d a1 = true -> bracket_guard d a2 = true ->
    forall m sd i j, gsem sd r i j = sem2 OBracket m (gsem sd a1) (gsem sd a2) i j.
  Proof.
    induction fuel as [|k IH]; intros a1 a2 r H D1 D2 G1' G2' m sd i j; [discriminate|].
    cbn [mk_bracket] in H.
    destruct (is_number a1 || is_number a2) eqn:En.
    { inversion H; subst. rewrite gzero_sem. cbn [sem2]. apply orb_true_iff in En. destruct En as [En|En].
      - rewrite !(number_D a1 En D1). ring.
      - rewrite !(number_D a2 En D2). ring. }
    destruct (geqb a1 a2) eqn:Eq.
    { apply geqb_eq in Eq. subst a2. inversion H; subst. rewrite gzero_sem. cbn [sem2]. ring. }
    (* a derivation in the first / second slot *)
    set (w := gsem sd a2 O O).
    set (u := gsem sd a1 O O).
    assert (ADD1 : forall l, a1 = GAdd l ->
              bindL (mapM (fun a => mk_bracket sgt k a a2) l) (fun rs => Ok (gadd rs)) = Ok r ->
              gsem sd r i j = sem2 OBracket m (gsem sd a1) (gsem sd a2) i j).
    { intros l -> HH. apply bindL_ok in HH. destruct HH as [Hs HH]. inversion HH; subst r. clear HH.
      destruct (mapM (fun a => mk_bracket sgt k a a2) l) as [s rs] eqn:Em. simpl in Hs. simpl snd.
      rewrite gadd_sem.
      erewrite sem2_ext; [|intros; apply sem_add_as_fsum|intros; reflexivity].
      rewrite sem2_fsum_l, map_map.
      apply (Forall2_fsum (fun x y => mk_bracket sgt k x a2 = Ok y)).
      - eapply mapM_ok; eauto.
      - intros x y Hx Hxy. apply (IH x a2 y Hxy); auto.
        + eapply gdf_in_add; eauto.
        + simpl in G1'. rewrite forallb_forall in G1'. auto. }
    assert (ADD2 : forall l, a2 = GAdd l ->
              bindL (mapM (fun a => mk_bracket sgt k a1 a) l) (fun rs => Ok (gadd rs)) = Ok r ->
              gsem sd r i j = sem2 OBracket m (gsem sd a1) (gsem sd a2) i j).
    { intros l -> HH. apply bindL_ok in HH. destruct HH as [Hs HH]. inversion HH; subst r. clear HH.
      destruct (mapM (fun a => mk_bracket sgt k a1 a) l) as [s rs] eqn:Em. simpl in Hs. simpl snd.
      rewrite gadd_sem.
      erewrite sem2_ext; [|intros; reflexivity|intros; apply sem_add_as_fsum].
      rewrite sem2_fsum_r, map_map.
      apply (Forall2_fsum (fun x y => mk_bracket sgt k a1 x = Ok y)).
      - eapply mapM_ok; eauto.
      - intros x y Hx Hxy. apply (IH a1 x y Hxy); auto.
        + eapply gdf_in_add; eauto.
        + simpl in G2'. rewrite forallb_forall in G2'. auto. }
    assert (MUL1 : forall l, a1 = GMul l ->
              bindL (leibniz_terms (fun f => mk_bracket sgt k f a2) [] (filter (fun a => negb (is_coeff a)) l))
                    (fun ts => Ok (gmul [gmul (filter is_coeff l); gadd ts])) = Ok r ->
              gsem sd r i j = sem2 OBracket m (gsem sd a1) (gsem sd a2) i j).
    { intros l -> HH. apply bindL_ok in HH. destruct HH as [Hs HH]. inversion HH; subst r. clear HH.
      set (fields := filter (fun a => negb (is_coeff a)) l) in *.
      set (coeffs := filter is_coeff l) in *.
      destruct (leibniz_terms (fun f => mk_bracket sgt k f a2) [] fields) as [s ts] eqn:El. simpl in Hs. simpl snd.
      assert (Sl : Forall scalar_like l).
      { apply Forall_forall. intros x Hx. now apply (bracket_guard_mul l x G1' Hx). }
      set (Delta := fun (sd' : side) (x : F S) =>
                      Dk 0 x * Dk 1 (gsem sd' a2 O O) - Dk 1 x * Dk 0 (gsem sd' a2 O O)).
      rewrite gmul_sem. cbn [map DOpP.fprod]. rewrite gmul_sem, gadd_sem.
      rewrite (leibniz_sem (fun f => mk_bracket sgt k f a2) Delta) with (post := fields) (pre := []) (s := s); auto.
      - cbn [map DOpP.fprod sem2]. unfold Delta.
        rewrite (mul_split is_coeff l sd O O). fold coeffs fields.
        assert (Sc : Forall scalar_like coeffs) by (apply Forall_filter; exact Sl).
        rewrite (scalars_const coeffs sd i j Sc).
        set (A := fprod (map (fun x => gsem sd x O O) coeffs)).
        set (B := fprod (map (fun x => gsem sd x O O) fields)).
        assert (DA : forall k', Dk k' A = 0).
        { intros k'. unfold A. apply D_fprod_zero. apply Forall_forall. intros y Hy.
          apply in_map_iff in Hy. destruct Hy as [z [<- Hz]]. apply filter_In in Hz. destruct Hz as [Hz Cz].
          apply number_D; [now apply is_coeff_number'|]. eapply gdf_in_mul; eauto. }
        rewrite !(D_mul S), !DA. ring.
      - intros sd' x y. unfold Delta. rewrite !(D_mul S). ring.
      - intros sd'. unfold Delta. rewrite !D_one. ring.
      - intros f bf Hf Hbf sd' i' j'. unfold Delta.
        assert (Hin : In f l) by (apply filter_In in Hf; tauto).
        rewrite (IH f a2 bf Hbf) with (m := m); auto.
        + eapply gdf_in_mul; eauto.
        + now apply (bracket_guard_mul l f G1' Hin).
      - apply Forall_filter. exact Sl. }
    assert (MUL2 : forall l, a2 = GMul l ->
              bindL (leibniz_terms (fun f => mk_bracket sgt k a1 f) [] (filter (fun a => negb (is_coeff a)) l))
                    (fun ts => Ok (gmul [gmul (filter is_coeff l); gadd ts])) = Ok r ->
              gsem sd r i j = sem2 OBracket m (gsem sd a1) (gsem sd a2) i j).
    { intros l -> HH. apply bindL_ok in HH. destruct HH as [Hs HH]. inversion HH; subst r. clear HH.
      set (fields := filter (fun a => negb (is_coeff a)) l) in *.
      set (coeffs := filter is_coeff l) in *.
      destruct (leibniz_terms (fun f => mk_bracket sgt k a1 f) [] fields) as [s ts] eqn:El. simpl in Hs. simpl snd.
      assert (Sl : Forall scalar_like l).
      { apply Forall_forall. intros x Hx. now apply (bracket_guard_mul l x G2' Hx). }
      set (Delta := fun (sd' : side) (x : F S) =>
                      Dk 0 (gsem sd' a1 O O) * Dk 1 x - Dk 1 (gsem sd' a1 O O) * Dk 0 x).
      rewrite gmul_sem. cbn [map DOpP.fprod]. rewrite gmul_sem, gadd_sem.
      rewrite (leibniz_sem (fun f => mk_bracket sgt k a1 f) Delta) with (post := fields) (pre := []) (s := s); auto.
      - cbn [map DOpP.fprod sem2]. unfold Delta.
        rewrite (mul_split is_coeff l sd O O). fold coeffs fields.
        assert (Sc : Forall scalar_like coeffs) by (apply Forall_filter; exact Sl).
        rewrite (scalars_const coeffs sd i j Sc).
        set (A := fprod (map (fun x => gsem sd x O O) coeffs)).
        set (B := fprod (map (fun x => gsem sd x O O) fields)).
        assert (DA : forall k', Dk k' A = 0).
        { intros k'. unfold A. apply D_fprod_zero. apply Forall_forall. intros y Hy.
          apply in_map_iff in Hy. destruct Hy as [z [<- Hz]]. apply filter_In in Hz. destruct Hz as [Hz Cz].
          apply number_D; [now apply is_coeff_number'|]. eapply gdf_in_mul; eauto. }
        rewrite !(D_mul S), !DA. ring.
      - intros sd' x y. unfold Delta. rewrite !(D_mul S). ring.
      - intros sd'. unfold Delta. rewrite !D_one. ring.
      - intros f bf Hf Hbf sd' i' j'. unfold Delta.
        assert (Hin : In f l) by (apply filter_In in Hf; tauto).
        rewrite (IH a1 f bf Hbf) with (m := m); auto.
        + eapply gdf_in_mul; eauto.
        + now apply (bracket_guard_mul l f G2' Hin).
      - apply Forall_filter. exact Sl. }
    destruct a1 as [p q|n|c|n|n|n c| |l|l|b x|f a|o a|o a b];
      try (now apply (ADD1 l eq_refl)); try (now apply (MUL1 l eq_refl));
      (destruct a2 as [p2 q2|n2|c2|n2|n2|n2 c2| |l2|l2|b2 x2|f2 a2'|o2 a2'|o2 a2' b2'];
       try (now apply (ADD2 l2 eq_refl)); try (now apply (MUL2 l2 eq_refl));
       match type of H with
       | (if ?c then _ else _) = _ =>
           destruct c; inversion H; subst r; rewrite ?gneg_sem; cbn [gsem sem2]; ring
       end).
  Qed.

  Theorem mk_bracket_sound fuel a1 a2 r :
    mk_bracket sgt fuel a1 a2 = Ok r -> gdf a1 -> gdf a2 ->
    bracket_guard d a1 = true -> bracket_guard d a2 = true -> geq r (G2 OBracket a1 a2).
  Proof. intros H D1 D2 G1' G2' sd i j. cbn [gsem]. now apply (mk_bracket_core fuel a1 a2 r). Qed.

  (* ================================================================ NormalDerivative Jump Average Minus Plus *)
  Definition iface_op (o : op1) : bool :=
    match o with ODn | OJump | OAvg | OMinus | OPlus => true | _ => false end.

  Lemma G1_mul_coeffs o l sd i j :
    gdf (GMul l) ->
    gsem sd (G1 o (GMul l)) i j =
    fprod (map (fun x => gsem sd x i j) (filter is_coeff l)) *
    gsem sd (G1 o (gmul_raw (filter (fun a => negb (is_coeff a)) l))) i j.
  Proof.
    intros Hd.
    rewrite <- (G1_scal o (filter is_coeff l) (filter (fun a => negb (is_coeff a)) l)).
    - apply G1_ext. intros sd' i' j'. rewrite (mul_split is_coeff). cbn [gsem]. now rewrite map_app, fprod_app.
    - apply Forall_forall. intros x Hx. apply filter_In in Hx. apply is_coeff_number'. tauto.
    - apply Forall_filter. now apply gdf_mul.
  Qed.

  (* Dn is a derivation on scalars *)
  Lemma dn_leibniz sd (f g : F S) :
    sumn d (fun k => Dk k (f * g) * nrm S sd k) =
    f * sumn d (fun k => Dk k g * nrm S sd k) + g * sumn d (fun k => Dk k f * nrm S sd k).
  Proof.
    rewrite <- !sumn_scal, <- sumn_add. apply sumn_ext. intros k _. rewrite (D_mul S). ring.
  Qed.

  Lemma Forall2_fprod (Q : gexpr -> gexpr -> Prop) (F1 F2 : gexpr -> F S) l rs :
    Forall2 Q l rs -> (forall x y, In x l -> Q x y -> F2 y = F1 x) ->
    fprod (map F2 rs) = fprod (map F1 l).
  Proof.
    induction 1 as [|x y l rs Hxy Hr IH]; intros HQ; simpl; [reflexivity|].
    rewrite (HQ x y) by (simpl; auto). rewrite IH; auto. intros; apply HQ; simpl; auto.
  Qed.

  (* Jump and Average need no guard at all *)
  Lemma iface_guard_jump_avg o e : o = OJump \/ o = OAvg -> iface_guard d o e = true.
  Proof.
    intros Ho.
    induction e as [p q|n|c|n|n|n c| |l IHl|l IHl|b x IHb IHx|f a IHa|o' a IHa|o' a b IHa IHb] using gexpr_ind';
      try reflexivity.
    - cbn [iface_guard]. apply forallb_forall. rewrite Forall_forall in IHl. auto.
    - cbn [iface_guard]. rewrite Forall_forall in IHl.
      destruct Ho as [->| ->]; apply forallb_forall; intros x Hx; rewrite (IHl x Hx); apply orb_true_r.
    - destruct o'; try reflexivity. destruct Ho as [->| ->]; reflexivity.
  Qed.

  (* Minus and Plus: the guard only concerns NormalDerivative applications inside the argument *)
  Lemma iface_guard_side_dn_free o e : o = OMinus \/ o = OPlus -> dn_free e = true -> iface_guard d o e = true.
  Proof.
    intros Ho.
    induction e as [p q|n|c|n|n|n c| |l IHl|l IHl|b x IHb IHx|f a IHa|o' a IHa|o' a b IHa IHb] using gexpr_ind';
      intros Hf; try reflexivity.
    - cbn [iface_guard]. cbn [dn_free] in Hf. rewrite forallb_forall in Hf. apply forallb_forall.
      rewrite Forall_forall in IHl. auto.
    - cbn [iface_guard]. cbn [dn_free] in Hf. rewrite forallb_forall in Hf. rewrite Forall_forall in IHl.
      destruct Ho as [->| ->]; apply forallb_forall; intros x Hx; rewrite (IHl x Hx (Hf x Hx)); apply orb_true_r.
    - destruct o'; try reflexivity. discriminate.
  Qed.

  (* the normal derivative of 1 *)
  Lemma dn_one sd : sumn d (fun k => Dk k 1 * nrm S sd k) = 0.
  Proof.
    rewrite <- (sumn_zero d). apply sumn_ext. intros k _. rewrite D_one. ring.
  Qed.

  Theorem mk_iface_sound fuel : forall o e r,
    iface_op o = true -> mk_iface d sgt fuel o e = Ok r -> gdf e -> iface_guard d o e = true ->
    nm 2 <> 0 -> geq r (G1 o e).
  Proof.
    induction fuel as [|k IH]; intros o e r Ho H Hd Hg H2; [discriminate|].
    cbn [mk_iface] in H.
    destruct e as [p q|n|c|n|n|n c| |l|l|b x|f a|o' a|o' a b];
      try (destruct (is_side_op o && is_zero _) eqn:Ez;
           [try (apply andb_true_iff in Ez; destruct Ez as [_ Ez]; discriminate)|inversion H; subst; apply geq_refl]);
      try (atom_arm H; inversion H; subst; apply geq_refl).
    - (* the literal 0 under minus / plus *)
      inversion H; subst. apply andb_true_iff in Ez. destruct Ez as [Es Ez].
      intros sd i j. rewrite gzero_sem. destruct p; try discriminate.
      destruct o; try discriminate; cbn [gsem sem1 sem2 map DOpP.fprod DOpP.fsum gmul_raw]; symmetry; apply qnum_zero.
    - (* Add *)
      apply bindL_ok in H. destruct H as [Hs H]. inversion H; subst r. clear H.
      destruct (mapM (mk_iface d sgt k o) l) as [s rs] eqn:Em. simpl in Hs. simpl snd.
      intros sd i j. rewrite gadd_sem, G1_add.
      apply Forall2_fsum with (Q := fun x y => mk_iface d sgt k o x = Ok y).
      + eapply mapM_ok; eauto.
      + intros x y Hx Hxy. apply (IH o x y Ho Hxy); auto.
        * eapply gdf_in_add; eauto.
        * simpl in Hg. rewrite forallb_forall in Hg. auto.
    - (* Mul *)
      set (coeffs := filter is_coeff l) in *.
      set (vectors := filter (fun a => negb (is_coeff a)) l) in *.
      intros sd i j. rewrite G1_mul_coeffs by exact Hd. fold coeffs vectors.
      assert (FB : forall r', Ok (gmul [gmul coeffs; G1 o (gmul_raw vectors)]) = Ok r' ->
                   gsem sd r' i j = fprod (map (fun x => gsem sd x i j) coeffs) * gsem sd (G1 o (gmul_raw vectors)) i j).
      { intros r' E. inversion E; subst. rewrite gmul_sem. cbn [map DOpP.fprod]. rewrite gmul_sem. ring. }
      assert (Iv : forall x, In x vectors -> In x l /\ is_coeff x = false).
      { intros x Hx. apply filter_In in Hx. destruct Hx as [Hx Hn]. split; auto. now destruct (is_coeff x). }
      assert (Dv : Forall gdf vectors) by (apply Forall_filter; now apply gdf_mul).
      cbn [iface_guard] in Hg.
      destruct o; try discriminate; cbv iota in H.
      + (* NormalDerivative: a derivation *)
        rewrite forallb_forall in Hg.
        assert (Gv : forall x, In x vectors -> scalar_like x /\ iface_guard d ODn x = true).
        { intros x Hx. destruct (Iv x Hx) as [I1 I2]. specialize (Hg x I1). rewrite I2 in Hg. simpl in Hg.
          apply andb_true_iff in Hg. destruct Hg as [G1' G2']. split; auto. now apply is_scalar_sem. }
        destruct vectors as [|f [|g rest]] eqn:Ev.
        * (* coefficients only: 0 *)
          inversion H; subst r. rewrite gmul_sem. cbn [map DOpP.fprod gmul_raw]. rewrite gzero_sem.
          cbn [gsem sem1 sem2 map DOpP.fprod DOpP.fsum gmul_raw]. change (gsem sd gone O O) with 1. rewrite dn_one. ring.
        * (* one non-coefficient factor *)
          destruct (Gv f (or_introl eq_refl)) as [_ Gf].
          inversion Dv as [|? ? Df _]; subst.
          destruct (mk_iface d sgt k ODn f) as [b'| |] eqn:Eb; try discriminate; [|now apply FB].
          inversion H; subst r. rewrite gmul_sem. cbn [map DOpP.fprod gmul_raw]. rewrite gmul_sem.
          rewrite (IH ODn f b' eq_refl Eb Df Gf H2 sd i j). ring.
        * (* several factors: Leibniz *)
          inversion Dv as [|? ? Df Dr]; subst. inversion Dr as [|? ? Dg Drest]; subst.
          destruct (Gv f (or_introl eq_refl)) as [Sf Gf].
          destruct (Gv g (or_intror (or_introl eq_refl))) as [Sg Gg].
          destruct rest as [|h rest'].
          -- (* two factors *)
            destruct (mk_iface d sgt k ODn g) as [cg| |] eqn:Eg; destruct (mk_iface d sgt k ODn f) as [cf| |] eqn:Ef;
              try discriminate; try (now apply FB).
            inversion H; subst r. rewrite gmul_sem. cbn [map DOpP.fprod]. rewrite gmul_sem, gadd_sem.
            cbn [map DOpP.fsum]. rewrite !gmul_sem. cbn [map DOpP.fprod].
            rewrite (IH ODn g cg eq_refl Eg Dg Gg H2 sd i j), (IH ODn f cf eq_refl Ef Df Gf H2 sd i j).
            cbn [gsem sem1 sem2 map DOpP.fprod DOpP.fsum gmul_raw].
            rewrite (Sf sd i j), (Sg sd i j).
            replace (gsem sd f O O * (gsem sd g O O * 1)) with (gsem sd f O O * gsem sd g O O) by ring.
            rewrite dn_leibniz. ring.
          -- (* first factor against the rest *)
            set (rgt := gmul_raw (g :: h :: rest')) in *.
            assert (Sr : Forall scalar_like (g :: h :: rest')).
            { apply Forall_forall. intros x Hx. apply Gv. now right. }
            assert (Gr : iface_guard d ODn rgt = true).
            { unfold rgt. cbn [gmul_raw iface_guard].
              apply forallb_forall. intros x Hx.
              destruct (Gv x (or_intror Hx)) as [_ Gx]. destruct (Iv x (or_intror Hx)) as [I1 I2].
              rewrite I2. simpl. specialize (Hg x I1). rewrite I2 in Hg. exact Hg. }
            assert (Dr' : gdf rgt) by (unfold rgt; apply gdf_gmul_raw; exact Dr).
            destruct (mk_iface d sgt k ODn f) as [fl| |] eqn:Ef; destruct (mk_iface d sgt k ODn rgt) as [fr| |] eqn:Er;
              try discriminate; try (now apply FB).
            inversion H; subst r. rewrite gmul_sem. cbn [map DOpP.fprod]. rewrite gmul_sem, gadd_sem.
            cbn [map DOpP.fsum]. rewrite !gmul_sem. cbn [map DOpP.fprod].
            rewrite (IH ODn rgt fr eq_refl Er Dr' Gr H2 sd i j), (IH ODn f fl eq_refl Ef Df Gf H2 sd i j).
            unfold rgt. cbn [gsem sem1 gmul_raw].
            rewrite (Sf sd i j). rewrite (scalars_const (g :: h :: rest') sd i j Sr).
            set (R := fprod (map (fun x => gsem sd x O O) (g :: h :: rest'))).
            change (fprod (map (fun x => gsem sd x O O) (f :: g :: h :: rest'))) with (gsem sd f O O * R).
            rewrite dn_leibniz. ring.
      + (* Jump: 0 on constants, no rewriting of a product of several factors *)
        destruct vectors as [|f [|g rest]] eqn:Ev; [| |now apply FB].
        * inversion H; subst r. rewrite gmul_sem. cbn [map DOpP.fprod gmul_raw]. rewrite gzero_sem.
          cbn [gsem sem1 sem2 map DOpP.fprod DOpP.fsum gmul_raw]. change (gsem SMinus gone i j) with 1. change (gsem SPlus gone i j) with 1. ring.
        * inversion Dv as [|? ? Df _]; subst.
          destruct (mk_iface d sgt k OJump f) as [b'| |] eqn:Eb; try discriminate; [|now apply FB].
          inversion H; subst r. rewrite gmul_sem. cbn [map DOpP.fprod gmul_raw]. rewrite gmul_sem.
          rewrite (IH OJump f b' eq_refl Eb Df (iface_guard_jump_avg OJump f (or_introl eq_refl)) H2 sd i j). ring.
      + (* Average: the constant on constants, no rewriting of a product of several factors *)
        destruct vectors as [|f [|g rest]] eqn:Ev; [| |now apply FB].
        * inversion H; subst r. rewrite gmul_sem. cbn [map DOpP.fprod gmul_raw]. rewrite gone_sem.
          cbn [gsem sem1 sem2 map DOpP.fprod DOpP.fsum gmul_raw]. change (gsem SMinus gone i j) with 1. change (gsem SPlus gone i j) with 1.
          assert (H2x : 1 + 1 <> 0) by exact H2. change (nm 2) with (1 + 1). rewrite gmul_sem. replace ((1 + 1) / (1 + 1)) with 1 by (field; exact H2x). ring.
        * inversion Dv as [|? ? Df _]; subst.
          destruct (mk_iface d sgt k OAvg f) as [b'| |] eqn:Eb; try discriminate; [|now apply FB].
          inversion H; subst r. rewrite gmul_sem. cbn [map DOpP.fprod gmul_raw]. rewrite gmul_sem.
          rewrite (IH OAvg f b' eq_refl Eb Df (iface_guard_jump_avg OAvg f (or_intror eq_refl)) H2 sd i j). ring.
      + (* Minus: multiplicative *)
        rewrite forallb_forall in Hg.
        destruct (mapM (mk_iface d sgt k OMinus) vectors) as [s rs] eqn:Em.
        destruct s as [z| |]; try discriminate; [|now apply FB].
        inversion H; subst r. rewrite gmul_sem. cbn [map DOpP.fprod]. rewrite !gmul_sem.
        cbn [gsem sem1 sem2 map DOpP.fprod DOpP.fsum gmul_raw]. rewrite gmul_raw_sem.
        rewrite (Forall2_fprod (fun x y => mk_iface d sgt k OMinus x = Ok y)
                   (fun x => gsem SMinus x i j) (fun y => gsem sd y i j) vectors rs).
        * ring.
        * eapply mapM_ok; eauto.
        * intros x y Hx Hxy. destruct (Iv x Hx) as [I1 I2]. specialize (Hg x I1). rewrite I2 in Hg. simpl in Hg.
          rewrite Forall_forall in Dv.
          apply (IH OMinus x y eq_refl Hxy (Dv x Hx) Hg H2 sd i j).
      + (* Plus: multiplicative *)
        rewrite forallb_forall in Hg.
        destruct (mapM (mk_iface d sgt k OPlus) vectors) as [s rs] eqn:Em.
        destruct s as [z| |]; try discriminate; [|now apply FB].
        inversion H; subst r. rewrite gmul_sem. cbn [map DOpP.fprod]. rewrite !gmul_sem.
        cbn [gsem sem1 sem2 map DOpP.fprod DOpP.fsum gmul_raw]. rewrite gmul_raw_sem.
        rewrite (Forall2_fprod (fun x y => mk_iface d sgt k OPlus x = Ok y)
                   (fun x => gsem SPlus x i j) (fun y => gsem sd y i j) vectors rs).
        * ring.
        * eapply mapM_ok; eauto.
        * intros x y Hx Hxy. destruct (Iv x Hx) as [I1 I2]. specialize (Hg x I1). rewrite I2 in Hg. simpl in Hg.
          rewrite Forall_forall in Dv.
          apply (IH OPlus x y eq_refl Hxy (Dv x Hx) Hg H2 sd i j).
    - (* minus / plus of a normal derivative *)
      destruct o'; try (simpl in H; rewrite ?andb_false_r in H; inversion H; subst; apply geq_refl).
      destruct (is_side_op o) eqn:Es; [|inversion H; subst; apply geq_refl].
      cbn [iface_guard] in Hg. rewrite Es in Hg. destruct a as [| | |n| | | | | | | | |]; try discriminate.
      apply bind_ok in H. destruct H as [cu [Hcu H]]. apply bind_ok in H. destruct H as [gu [Hgu H]].
      destruct k as [|k']; [discriminate|].
      assert (Ecu : cu = G1 o (GSF n)).
      { cbn [mk_iface] in Hcu. rewrite Es in Hcu. simpl in Hcu. congruence. }
      subst cu.
      assert (Egu : gu = G1 OGrad (G1 o (GSF n))).
      { destruct o; try discriminate; cbn in Hgu; congruence. }
      subst gu.
      intros sd i j.
      assert (If : inner_flag d false (G1 OGrad (G1 o (GSF n))) = true /\ inner_flag d false (G1 o GNormal) = true)
        by (destruct o; try discriminate; split; reflexivity).
      destruct If as [If1 If2].
      rewrite (mk_dot_vv _ _ _ r H); [|exact I|exact I|exact If1|exact If2].
      destruct o; try discriminate; cbn [gsem sem1 sem2 map DOpP.fprod DOpP.fsum gmul_raw]; unfold dotv; apply sumn_ext; intros; reflexivity.
  Qed.
  (* Jump and Average: no guard *)
  Corollary mk_jump_avg_sound fuel o e r :
    o = OJump \/ o = OAvg -> mk_iface d sgt fuel o e = Ok r -> gdf e -> nm 2 <> 0 -> geq r (G1 o e).
  Proof.
    intros Ho H Hd H2. apply (mk_iface_sound fuel o e r); auto.
    - destruct Ho as [->| ->]; reflexivity.
    - now apply iface_guard_jump_avg.
  Qed.
  (* ================================================================ components of a restriction *)
  (* minus(E)[i] / plus(E)[i] is component i of the restriction of E to THAT side *)
  Theorem mk_getitem_sound o e i r : is_side_op o = true -> mk_getitem o e i = Ok r ->
    forall sd i' j', gsem sd r i' j' = gsem sd (G1 o e) i O.
  Proof.
    intros Ho H sd i' j'. destruct e; try discriminate. inversion H; subst r.
    destruct o; try discriminate; reflexivity.
  Qed.
End Sem.

(* statements about constructors that never compare strings, freed from the (unused) order parameter *)
Definition mk_lin_sound_all S lg d := mk_lin_sound S lg d (fun _ _ => false).
Definition mk_grad_sound_all S lg d := mk_grad_sound S lg d (fun _ _ => false).
Definition mk_grad_good_all S lg d := mk_grad_good S lg d (fun _ _ => false).
Definition mk_lin_good_all S lg d := mk_lin_good S lg d (fun _ _ => false).
Definition shape_stable_typed_all d := shape_stable_typed d (fun _ _ => false).
Definition may_mat_complete_all d := may_mat_complete d (fun _ _ => false).

(* ================================================================== refutations *)
(* A free-jet evaluation: every atom (a function, each of its derivatives, a constant, a coordinate, a
   normal component) and every opaque term (general power, elementary function) is read as an INDEPENDENT
   rational number.  Two terminal expressions that evaluate differently are different rational functions
   of the jet variables (DESIGN 4.2); each witness below is also replayed on the real code by the check
   (corpus/C02.json), where the numeric oracle confirms the disagreement with explicit polynomials. *)
From Coq Require Import QArith Ascii.

Fixpoint str_code (s : string) : Z :=
  match s with
  | EmptyString => 1%Z
  | String c r => (Z.of_N (N_of_ascii c) + 31 * str_code r)%Z
  end.
Fixpoint list_code (k : Z) (l : list nat) : Z :=
  match l with [] => 0%Z | a :: r => (Z.of_nat a * k + list_code (k + 2) r)%Z end.
Definition side_code (s : side) : Z := match s with SNone => 0 | SMinus => 1 | SPlus => 2 end%Z.
Definition atom_code (a : atom) : Z :=
  match a with
  | ACoord l i => (17 + Z.of_nat i * 5 + (if l then 2 else 0))%Z
  | AConst n => (3 + str_code n)%Z
  | AFld _ f c s al => (str_code f * 7 + Z.of_nat c * 131 + side_code s * 613 + list_code 11 al * 37 + 5)%Z
  | AMap m i al => (str_code m * 3 + Z.of_nat i * 19 + list_code 7 al * 41)%Z
  | ANormal s i => (29 + side_code s * 53 + Z.of_nat i * 59)%Z
  end.
Fixpoint thash (t : texpr) : Z :=
  match t with
  | TZ z => z
  | TQ p q => (p * 3 + Zpos q)%Z
  | TAt a => atom_code a
  | TAdd a b => (thash a * 3 + thash b * 5 + 1)%Z
  | TSub a b => (thash a * 3 + thash b * 7 + 2)%Z
  | TMul a b => (thash a * 11 + thash b * 13 + 3)%Z
  | TDiv a b => (thash a * 17 + thash b * 19 + 4)%Z
  | TOpp a => (thash a * 23 + 5)%Z
  | TInv a => (thash a * 29 + 6)%Z
  | TPowN a n => (thash a * 31 + Z.of_N n * 37 + 7)%Z
  | TFn _ a => (thash a * 41 + 8)%Z
  | TPowG b e => (thash b * 43 + thash e * 47 + 9)%Z
  end.
Definition qgen (z : Z) : Q := (Z.modulo z 10007 + 2) # 7.

Fixpoint qeval (t : texpr) : option Q :=
  match t with
  | TZ z => Some (inject_Z z)
  | TQ p q => Some (p # q)
  | TAt a => Some (qgen (atom_code a))
  | TAdd a b => match qeval a, qeval b with Some x, Some y => Some (x + y) | _, _ => None end
  | TSub a b => match qeval a, qeval b with Some x, Some y => Some (x - y) | _, _ => None end
  | TMul a b => match qeval a, qeval b with Some x, Some y => Some (x * y) | _, _ => None end
  | TDiv a b => match qeval a, qeval b with
                | Some x, Some y => if Qeq_bool y 0 then None else Some (x / y)
                | _, _ => None
                end
  | TOpp a => option_map Qopp (qeval a)
  | TInv a => match qeval a with Some x => if Qeq_bool x 0 then None else Some (/ x) | None => None end
  | TPowN a n => option_map (fun x => Qpower x (Z.of_N n)) (qeval a)
  | TFn _ _ | TPowG _ _ => Some (qgen (thash t))
  end%Q.

Definition differs (a b : texpr) : bool :=
  match qeval a, qeval b with Some x, Some y => negb (Qeq_bool x y) | _, _ => false end.
Fixpoint exists2b {A} (f : A -> A -> bool) (a b : list A) : bool :=
  match a, b with x :: r, y :: s => f x y || exists2b f r s | _, _ => false end.
(* some entry of the two meanings evaluates differently in the free jet; a literal 0 stands for a zero tensor *)
Definition tens_differ (a b : option tensor) : bool :=
  match a, b with
  | Some x, Some y =>
      match x, y with
      | Sc u, Sc v => differs u v
      | Sc u, _ => existsb (fun v => differs u v) (entries y)
      | _, Sc v => existsb (fun u => differs u v) (entries x)
      | _, _ => exists2b differs (entries x) (entries y)
      end
  | _, _ => false
  end.

Section Witnesses.
  Open Scope string_scope.
  Let f := GSF "f". Let g := GSF "g". Let FF := GVF "F". Let GG := GVF "G". Let al := GConst "alpha".
  Let den (dm : nat) (r : res) := match r with Ok e => gden true dm SNone e | _ => None end.
  Let lit (dm : nat) (e : gexpr) := gden true dm SNone e.

  (* ---- repaired in /repo (e4bcf21, bbebe2f, 72e9968, f9bc83f): the former counter-examples are now inside the
     guards and the kernel proves, per witness, that the model result has the meaning of the literal ---- *)
  Lemma mk_div_repaired :
    (let e := GMul [gint 2; f; FF] in
     div_guard 2 e = true /\ exists r, mk_div 2 str_gt 50 e = Ok r /\ cmp (den 2 (Ok r)) (lit 2 (G1 ODiv e)) = 0%nat) /\
    (let e := GMul [f; G1 OGrad g] in
     div_guard 2 e = true /\ exists r, mk_div 2 str_gt 50 e = Ok r /\ cmp (den 2 (Ok r)) (lit 2 (G1 ODiv e)) = 0%nat).
  Proof. split; (split; [reflexivity|]); eexists; (split; [vm_compute; reflexivity|vm_compute; reflexivity]). Qed.

  Lemma mk_grad_repaired_power_rule :
    (let e := GPow f g in
     grad_guard 2 e = true /\ cs_ok 2 e = true /\
     exists r, mk_grad 2 50 e = Ok r /\ cmp (den 2 (Ok r)) (lit 2 (G1 OGrad e)) = 0%nat) /\
    (let e := GPow (gint 2) f in
     grad_guard 2 e = true /\ cs_ok 2 e = true /\
     exists r, mk_grad 2 50 e = Ok r /\ cmp (den 2 (Ok r)) (lit 2 (G1 OGrad e)) = 0%nat).
  Proof. split; (split; [reflexivity|]); (split; [reflexivity|]); eexists; (split; [vm_compute; reflexivity|vm_compute; reflexivity]). Qed.

  Lemma mk_convect_repaired :
    let a2 := GMul [f; GG] in
    mk_bil 2 str_gt 50 OConvect FF a2 = Ok (G2 OConvect FF a2).
  Proof. vm_compute. reflexivity. Qed.

  Lemma mk_laplace_repaired_vector :
    let e := GMul [f; FF] in
    laplace_guard 2 e = true /\ mk_laplace 2 str_gt 50 e = Ok (G1 OLaplace e).
  Proof. split; vm_compute; reflexivity. Qed.

  (* ---- still open ---- *)
  (* the code equates "commutative" with "scalar": a commutative vector (Laplace(H), Div(Grad(H))) is taken for a
     scalar coefficient / scalar factor.  laplace(Laplace(H)*f) still gets the scalar product rule, whose cross term
     2*Dot(Grad(Laplace(H)), Grad(f)) is the matrix . vector product sum_j d_i V_j d_j f instead of (grad f . nabla) V *)
  Lemma mk_laplace_refuted_commutative_vector :
    let e := GMul [G1 OLaplace (GVF "H"); f] in
    laplace_guard 2 e = false /\ exists r, mk_laplace 2 str_gt 50 e = Ok r /\
    tens_differ (den 2 (Ok r)) (lit 2 (G1 OLaplace e)) = true.
  Proof.
    split; [reflexivity|]. eexists. split; [vm_compute; reflexivity|]. vm_compute. reflexivity.
  Qed.
  Lemma mk_bil_refuted_commutative_vector :
    let a1 := GMul [G2 OCross GG (GVF "H"); G1 ODiv (G2 OOuter FF FF)] in     (* scalar (2-D cross) times vector *)
    pull_ok 2 a1 = false /\ exists r, mk_bil 2 str_gt 50 ODot a1 GG = Ok r /\
    den 2 (Ok r) = None /\ (exists t, lit 2 (G2 ODot a1 GG) = Some t).
  Proof.
    split; [reflexivity|]. eexists. split; [vm_compute; reflexivity|]. split; [vm_compute; reflexivity|].
    eexists. vm_compute. reflexivity.
  Qed.

  (* ---- repaired: Dot imposes its canonical order (by str) only when neither factor may be matrix-valued.
     matrix . vector and vector . matrix are different products (different fields in the free jet); both orders of
     dot(grad(F), G) are now kept as written, vector . vector is still put in canonical order ---- *)
  Lemma mk_dot_matrix_vector_repaired :
    let A := G1 OGrad FF in
    mk_bil 2 str_gt 50 ODot A GG = Ok (G2 ODot A GG) /\
    mk_bil 2 str_gt 50 ODot GG A = Ok (G2 ODot GG A) /\
    mk_bil 2 str_gt 50 ODot GG FF = Ok (G2 ODot FF GG) /\
    shape_stable 2 A = true /\ shape_stable 2 GG = true /\
    (exists t, lit 2 (G2 ODot A GG) = Some (Vec t)) /\
    tens_differ (lit 2 (G2 ODot A GG)) (lit 2 (G2 ODot GG A)) = true.
  Proof. repeat split; try (vm_compute; reflexivity). eexists. vm_compute. reflexivity. Qed.

  (* historical (before the repair): the order by str was imposed unconditionally, and str(Grad(F)) > str(G):
     dot(grad(F), G), the matrix . vector product sum_j d_i F_j G_j, was returned as Dot(G, Grad(F)) = (G . nabla) F *)
  Lemma dot_matrix_vector_reordered_before_fix :
    let A := G1 OGrad FF in
    str_gt A GG = true /\ may_mat A = true /\
    tens_differ (lit 2 (G2 ODot GG A)) (lit 2 (G2 ODot A GG)) = true.
  Proof. repeat split; vm_compute; reflexivity. Qed.

  (* the side is part of the atom: plus(F)[0] and minus(F)[0] are different fields *)
  Lemma mk_getitem_keeps_side :
    mk_getitem OPlus FF 0 = Ok (G1 OPlus (GComp "F" 0)) /\ mk_getitem OMinus FF 0 = Ok (G1 OMinus (GComp "F" 0)) /\
    mk_getitem OMinus (GAdd [FF; GG]) 0 = Raise /\
    tens_differ (lit 2 (G1 OPlus (GComp "F" 0))) (lit 2 (G1 OMinus (GComp "F" 0))) = true.
  Proof. repeat split; vm_compute; reflexivity. Qed.

  (* ---- repaired in the interface operators: a restriction is multiplicative, Jump / Average keep a product of
     several factors, Jump and NormalDerivative of a product of coefficients are 0.  The former counter-examples
     (and a three-factor product with a coefficient) are inside the guard and the kernel proves, per witness, that
     the model result has the meaning of the literal ---- *)
  Lemma mk_iface_repaired_product o :
    o = OJump \/ o = OAvg \/ o = OMinus \/ o = OPlus ->
    (let e := GMul [f; g] in
     iface_guard 2 o e = true /\ exists r, mk_iface 2 str_gt 50 o e = Ok r /\
     cmp (den 2 (Ok r)) (lit 2 (G1 o e)) = 0%nat) /\
    (let e := GMul [gint 2; f; g; FF] in
     iface_guard 2 o e = true /\ exists r, mk_iface 2 str_gt 50 o e = Ok r /\
     cmp (den 2 (Ok r)) (lit 2 (G1 o e)) = 0%nat).
  Proof.
    intros [->|[->|[->| ->]]]; split; (split; [reflexivity|]); eexists; (split; [vm_compute; reflexivity|vm_compute; reflexivity]).
  Qed.

  Lemma mk_iface_repaired_constant o :
    o = OJump \/ o = ODn ->
    let e := GMul [gint 2; al] in
    iface_guard 2 o e = true /\ mk_iface 2 str_gt 50 o e = Ok gzero /\
    cmp (lit 2 gzero) (lit 2 (G1 o e)) = 0%nat.
  Proof. intros [->| ->]; (split; [reflexivity|]); split; vm_compute; reflexivity. Qed.

  (* historical (the arms before the repair): Jump / Average / Minus / Plus shared the product arm of
     NormalDerivative, the Leibniz rule of a derivation, and Jump / NormalDerivative returned a product of
     coefficients unchanged; both differ from the literal in the free jet *)
  Definition leibniz_arm_before_fix (o : op1) (x y : gexpr) : gexpr := gadd [gmul [x; G1 o y]; gmul [y; G1 o x]].
  Lemma iface_product_before_fix o :
    o = OJump \/ o = OAvg \/ o = OMinus \/ o = OPlus ->
    tens_differ (lit 2 (leibniz_arm_before_fix o f g)) (lit 2 (G1 o (GMul [f; g]))) = true.
  Proof. intros [->|[->|[->| ->]]]; vm_compute; reflexivity. Qed.
  Lemma iface_constant_before_fix o :
    o = OJump \/ o = ODn ->
    let e := GMul [gint 2; al] in
    tens_differ (lit 2 e) (lit 2 (G1 o e)) = true.
  Proof. intros [->| ->]; vm_compute; reflexivity. Qed.

  (* Dot / Cross / Inner / Outer / Convect raise when an argument has no non-commutative factor
     (Laplace(F) and Div(Grad(F)) are commutative vectors): a refusal on a well-typed application *)
  Lemma mk_bil_raises_on_commutative_vector :
    mk_bil 3 str_gt 50 ODot (G1 OLaplace FF) GG = Raise /\ gshape 3 (G2 ODot (G1 OLaplace FF) GG) = Some ShS.
  Proof. split; vm_compute; reflexivity. Qed.
End Witnesses.
