(* Proofs about the model of sympde/calculus/matrices.py (Model/MatricesM.v).

   Meaning of a symbolic matrix expression: a d x d matrix over an ARBITRARY field F of characteristic 0
   (Section variables; nothing is an Axiom), matrices = functions nat -> nat -> F compared entry-wise below d
   ([meq d]).  A scalar-valued expression (number, Constant, scalar function, trace, determinant, element)
   denotes the scalar multiple of the identity [mI x] -- the usual embedding of F into M_d(F) -- so that one
   denotation covers coefficients and matrices, 0 is the zero matrix and 1 the identity, and every law below
   holds for ALL trees without a typing side condition.  Matrix atoms (Jacobian(M), its inverse symbol,
   Grad(F)) are arbitrary matrices [envM]; scalar atoms arbitrary field elements [envS].  The inverse is an
   arbitrary function [minv] (where a property of it is needed -- Inverse(Inverse(x)) = x -- the hypothesis is
   that it returns a two-sided inverse wherever one exists).

   Main results (all by structural induction, for every tree, every d, every key function):
     mk_matadd_sound  mk_matmul_sound  sympy_mul_sound  mk_transpose_sound  mk_trace_sound  mk_inverse_sound
   and the role of the ORDER REVERSAL law (A B)^T = B^T A^T:
     transpose_reversed_sound   pushing the transpose into the factors AND reversing them is sound,
     transpose_pushed_refuted   pushing it into the factors without reversing them is not (seeded change C03-n2),
   while the real arm keeps the non-commutative product whole under one Transpose node (sound). *)
From Coq Require Import String ZArith QArith List Bool Arith Lia Setoid Morphisms Permutation.
From Coq Require Import Ring_theory Field_theory Field InitialRing.
From V Require Import Core.Terminal Core.Classical Model.MatricesM.
Import ListNotations.
Close Scope Q_scope.

Section Alg.
  Variable F : Type.
  Variables (f0 f1 : F) (fadd fmul fsub : F -> F -> F) (fopp : F -> F) (fdiv : F -> F -> F) (finv : F -> F).
  Hypothesis Fth : field_theory f0 f1 fadd fmul fsub fopp fdiv finv (@eq F).
  Add Field FF : Fth.

  Notation "0" := f0. Notation "1" := f1.
  Infix "+" := fadd. Infix "*" := fmul. Infix "-" := fsub. Infix "/" := fdiv.
  Notation "- x" := (fopp x).

  Definition phi : Z -> F := gen_phiZ f0 f1 fadd fmul fopp.
  Let Rsth : Setoid_Theory F (@eq F) := @Eqsth F.
  Let Reqe : ring_eq_ext fadd fmul fopp (@eq F) := @Eq_ext F fadd fmul fopp.
  Let Rth := F_R Fth.
  Let CRm := gen_phiZ_morph Rsth Reqe Rth.

  Lemma phi_mul a b : phi (a * b)%Z = phi a * phi b.
  Proof. apply (morph_mul CRm). Qed.
  Lemma phi_add a b : phi (a + b)%Z = phi a + phi b.
  Proof. apply (morph_add CRm). Qed.
  Lemma phi_0 : phi 0%Z = 0.
  Proof. apply (morph0 CRm). Qed.
  Lemma phi_1 : phi 1%Z = 1.
  Proof. apply (morph1 CRm). Qed.
  Lemma one_neq_zero : 1 <> 0.
  Proof. apply (F_1_neq_0 Fth). Qed.

  (* ---------------------------------------------------------------- finite sums *)
  Fixpoint bsum (n : nat) (f : nat -> F) : F :=
    match n with O => 0 | S k => bsum k f + f k end.

  Lemma bsum_ext n f g : (forall k, (k < n)%nat -> f k = g k) -> bsum n f = bsum n g.
  Proof.
    induction n as [|n IH]; intros H; simpl; [reflexivity|].
    rewrite IH by (intros; apply H; lia). rewrite H by lia. reflexivity.
  Qed.
  Lemma bsum_add n f g : bsum n (fun k => f k + g k) = bsum n f + bsum n g.
  Proof. induction n as [|n IH]; simpl; [ring|]. rewrite IH. ring. Qed.
  Lemma bsum_mul_l n c f : bsum n (fun k => c * f k) = c * bsum n f.
  Proof. induction n as [|n IH]; simpl; [ring|]. rewrite IH. ring. Qed.
  Lemma bsum_mul_r n c f : bsum n (fun k => f k * c) = bsum n f * c.
  Proof. induction n as [|n IH]; simpl; [ring|]. rewrite IH. ring. Qed.
  Lemma bsum_zero n : bsum n (fun _ => 0) = 0.
  Proof. induction n as [|n IH]; simpl; [reflexivity|]. rewrite IH. ring. Qed.
  Lemma bsum_swap n m (f : nat -> nat -> F) :
    bsum n (fun k => bsum m (fun l => f k l)) = bsum m (fun l => bsum n (fun k => f k l)).
  Proof.
    induction n as [|n IH]; simpl.
    - symmetry. apply bsum_zero.
    - rewrite IH. rewrite <- bsum_add. reflexivity.
  Qed.
  (* the sum of a function that vanishes except at one index below the bound *)
  Lemma bsum_delta n i (f : nat -> F) :
    (i < n)%nat -> bsum n (fun k => (if Nat.eqb i k then f k else 0)) = f i.
  Proof.
    induction n as [|n IH]; intros Hi; [lia|]. simpl.
    destruct (Nat.eqb_spec i n) as [->|Hne].
    - rewrite (bsum_ext n _ (fun _ => 0)).
      + rewrite bsum_zero. ring.
      + intros k Hk. destruct (Nat.eqb_spec n k); [lia|reflexivity].
    - rewrite IH by lia. ring.
  Qed.

  (* ---------------------------------------------------------------- matrices *)
  Definition mat := nat -> nat -> F.
  Variable d : nat.

  Definition meq (A B : mat) : Prop := forall i j, (i < d)%nat -> (j < d)%nat -> A i j = B i j.
  Definition mI (x : F) : mat := fun i j => if Nat.eqb i j then x else 0.
  Definition madd (A B : mat) : mat := fun i j => A i j + B i j.
  Definition mmul (A B : mat) : mat := fun i j => bsum d (fun k => A i k * B k j).
  Definition mT (A : mat) : mat := fun i j => A j i.
  Definition mtr (A : mat) : F := bsum d (fun i => A i i).

  Infix "==" := meq (at level 70).

  Global Instance meq_equiv : Equivalence meq.
  Proof.
    split.
    - intros A i j _ _. reflexivity.
    - intros A B H i j Hi Hj. symmetry. apply H; assumption.
    - intros A B C H1 H2 i j Hi Hj. rewrite H1, H2 by assumption. reflexivity.
  Qed.
  Global Instance madd_proper : Proper (meq ==> meq ==> meq) madd.
  Proof. intros A A' HA B B' HB i j Hi Hj. unfold madd. rewrite HA, HB by assumption. reflexivity. Qed.
  Global Instance mmul_proper : Proper (meq ==> meq ==> meq) mmul.
  Proof.
    intros A A' HA B B' HB i j Hi Hj. unfold mmul. apply bsum_ext. intros k Hk.
    rewrite HA, HB by assumption. reflexivity.
  Qed.
  Global Instance mT_proper : Proper (meq ==> meq) mT.
  Proof. intros A A' HA i j Hi Hj. unfold mT. apply HA; assumption. Qed.
  Lemma mtr_proper A B : A == B -> mtr A = mtr B.
  Proof. intros H. unfold mtr. apply bsum_ext. intros k Hk. apply H; assumption. Qed.
  Global Instance mtr_proper' : Proper (meq ==> eq) mtr.
  Proof. intros A B H. apply mtr_proper. exact H. Qed.
  Global Instance mI_proper : Proper (eq ==> meq) mI.
  Proof. intros a b ->. reflexivity. Qed.

  (* additive structure *)
  Lemma madd_comm A B : madd A B == madd B A.
  Proof. intros i j _ _. unfold madd. ring. Qed.
  Lemma madd_assoc A B C : madd (madd A B) C == madd A (madd B C).
  Proof. intros i j _ _. unfold madd. ring. Qed.
  Lemma madd_0_l A : madd (mI 0) A == A.
  Proof. intros i j _ _. unfold madd, mI. destruct (Nat.eqb i j); ring. Qed.
  Lemma madd_0_r A : madd A (mI 0) == A.
  Proof. rewrite madd_comm. apply madd_0_l. Qed.
  Lemma mI_add a b : madd (mI a) (mI b) == mI (a + b).
  Proof. intros i j _ _. unfold madd, mI. destruct (Nat.eqb i j); ring. Qed.

  (* multiplicative structure *)
  Lemma mmul_assoc A B C : mmul (mmul A B) C == mmul A (mmul B C).
  Proof.
    intros i j _ _. unfold mmul.
    rewrite (bsum_ext d _ (fun l => bsum d (fun k => A i k * B k l * C l j)))
      by (intros; symmetry; apply bsum_mul_r).
    rewrite bsum_swap. apply bsum_ext. intros k _.
    rewrite <- bsum_mul_l. apply bsum_ext. intros l _. ring.
  Qed.
  Lemma mmul_madd_l A B C : mmul (madd A B) C == madd (mmul A C) (mmul B C).
  Proof.
    intros i j _ _. unfold mmul, madd. rewrite <- bsum_add. apply bsum_ext. intros. ring.
  Qed.
  Lemma mmul_madd_r A B C : mmul A (madd B C) == madd (mmul A B) (mmul A C).
  Proof.
    intros i j _ _. unfold mmul, madd. rewrite <- bsum_add. apply bsum_ext. intros. ring.
  Qed.
  Lemma mmul_mI_l a B : mmul (mI a) B == (fun i j => a * B i j).
  Proof.
    intros i j Hi _. unfold mmul, mI.
    rewrite (bsum_ext d _ (fun k => if Nat.eqb i k then a * B k j else 0)).
    - apply (bsum_delta d i (fun k => a * B k j)). assumption.
    - intros k _. destruct (Nat.eqb i k); ring.
  Qed.
  Lemma mmul_mI_r a B : mmul B (mI a) == (fun i j => a * B i j).
  Proof.
    intros i j _ Hj. unfold mmul, mI.
    rewrite (bsum_ext d _ (fun k => if Nat.eqb j k then a * B i k else 0)).
    - apply (bsum_delta d j (fun k => a * B i k)). assumption.
    - intros k _. rewrite (Nat.eqb_sym k j). destruct (Nat.eqb j k); ring.
  Qed.
  Lemma mmul_1_l A : mmul (mI 1) A == A.
  Proof. rewrite mmul_mI_l. intros i j _ _. ring. Qed.
  Lemma mmul_1_r A : mmul A (mI 1) == A.
  Proof. rewrite mmul_mI_r. intros i j _ _. ring. Qed.
  Lemma mmul_0_l A : mmul (mI 0) A == mI 0.
  Proof. rewrite mmul_mI_l. intros i j _ _. unfold mI. destruct (Nat.eqb i j); ring. Qed.
  Lemma mI_mul a b : mmul (mI a) (mI b) == mI (a * b).
  Proof. rewrite mmul_mI_l. intros i j _ _. unfold mI. destruct (Nat.eqb i j); ring. Qed.
  Lemma mI_comm a B : mmul (mI a) B == mmul B (mI a).
  Proof. rewrite mmul_mI_l, mmul_mI_r. reflexivity. Qed.
  Lemma mI_ext a b : a = b -> mI a == mI b.
  Proof. intros ->. reflexivity. Qed.

  (* transposition *)
  Lemma mT_mT A : mT (mT A) == A.
  Proof. intros i j _ _. reflexivity. Qed.
  Lemma mT_madd A B : mT (madd A B) == madd (mT A) (mT B).
  Proof. intros i j _ _. reflexivity. Qed.
  Lemma mT_mI a : mT (mI a) == mI a.
  Proof. intros i j _ _. unfold mT, mI. rewrite Nat.eqb_sym. reflexivity. Qed.
  (* THE ORDER REVERSAL LAW *)
  Lemma mT_mmul A B : mT (mmul A B) == mmul (mT B) (mT A).
  Proof. intros i j _ _. unfold mT, mmul. apply bsum_ext. intros. ring. Qed.

  (* trace *)
  Lemma mtr_madd A B : mtr (madd A B) = mtr A + mtr B.
  Proof. unfold mtr, madd. apply bsum_add. Qed.
  Lemma mtr_mI_mul a B : mtr (mmul (mI a) B) = a * mtr B.
  Proof.
    rewrite (mtr_proper _ _ (mmul_mI_l a B)). unfold mtr. apply bsum_mul_l.
  Qed.
  Lemma mtr_0 : mtr (mI 0) = 0.
  Proof. unfold mtr, mI. rewrite (bsum_ext d _ (fun _ => 0)); [apply bsum_zero|]. intros k _. rewrite Nat.eqb_refl. reflexivity. Qed.

  (* central elements: scalar multiples of the identity *)
  Definition central (A : mat) : Prop := exists a, A == mI a.
  Lemma central_mI a : central (mI a).
  Proof. exists a. reflexivity. Qed.
  Lemma central_comm A B : central A -> mmul A B == mmul B A.
  Proof. intros [a Ha]. rewrite Ha. apply mI_comm. Qed.
  Lemma central_madd A B : central A -> central B -> central (madd A B).
  Proof. intros [a Ha] [b Hb]. exists (a + b). rewrite Ha, Hb. apply mI_add. Qed.
  Lemma central_mmul A B : central A -> central B -> central (mmul A B).
  Proof. intros [a Ha] [b Hb]. exists (a * b). rewrite Ha, Hb. apply mI_mul. Qed.
  Lemma central_mT A : central A -> mT A == A.
  Proof. intros [a Ha]. rewrite Ha. apply mT_mI. Qed.
  Global Instance central_proper : Proper (meq ==> iff) central.
  Proof. intros A B H. unfold central. split; intros [a Ha]; exists a; [rewrite <- H|rewrite H]; exact Ha. Qed.

  (* ---------------------------------------------------------------- sums and products of lists *)
  Definition msum (l : list mat) : mat := fold_right madd (mI 0) l.
  Definition mprod (l : list mat) : mat := fold_right mmul (mI 1) l.

  Lemma mprod_cons x l : mprod (x :: l) = mmul x (mprod l).
  Proof. reflexivity. Qed.
  Lemma msum_cons x l : msum (x :: l) = madd x (msum l).
  Proof. reflexivity. Qed.
  Lemma msum_app l m : msum (l ++ m) == madd (msum l) (msum m).
  Proof.
    induction l as [|x l IH]; simpl.
    - symmetry. apply madd_0_l.
    - rewrite IH. symmetry. apply madd_assoc.
  Qed.
  Lemma mprod_app l m : mprod (l ++ m) == mmul (mprod l) (mprod m).
  Proof.
    induction l as [|x l IH]; simpl.
    - symmetry. apply mmul_1_l.
    - rewrite IH. symmetry. apply mmul_assoc.
  Qed.
  Lemma msum_perm l m : Permutation l m -> msum l == msum m.
  Proof.
    induction 1; simpl.
    - reflexivity.
    - rewrite IHPermutation. reflexivity.
    - rewrite <- !madd_assoc. rewrite (madd_comm y x). reflexivity.
    - etransitivity; eassumption.
  Qed.
  Lemma msum_Forall2 l m : Forall2 meq l m -> msum l == msum m.
  Proof. induction 1; simpl; [reflexivity|]. rewrite H, IHForall2. reflexivity. Qed.
  Lemma mprod_Forall2 l m : Forall2 meq l m -> mprod l == mprod m.
  Proof. induction 1; simpl; [reflexivity|]. rewrite H, IHForall2. reflexivity. Qed.
  Lemma central_msum l : Forall central l -> central (msum l).
  Proof. induction 1; simpl; [apply central_mI|]. apply central_madd; assumption. Qed.
  Lemma central_mprod l : Forall central l -> central (mprod l).
  Proof. induction 1; simpl; [apply central_mI|]. apply central_mmul; assumption. Qed.
  Lemma mprod_perm_central l m : Permutation l m -> Forall central l -> mprod l == mprod m.
  Proof.
    induction 1; intros Hc; simpl.
    - reflexivity.
    - inversion Hc; subst. rewrite IHPermutation by assumption. reflexivity.
    - inversion Hc as [|? ? Hy Hc']; subst. inversion Hc' as [|? ? Hx Hc'']; subst.
      rewrite <- !mmul_assoc. rewrite (central_comm y x Hy). reflexivity.
    - rewrite IHPermutation1 by assumption. apply IHPermutation2.
      eapply Permutation_Forall; eassumption.
  Qed.
  Lemma mmul_msum_l l C : mmul (msum l) C == msum (map (fun A => mmul A C) l).
  Proof.
    induction l as [|x l IH]; simpl.
    - apply mmul_0_l.
    - rewrite mmul_madd_l, IH. reflexivity.
  Qed.
  Lemma mmul_0_r A : mmul A (mI 0) == mI 0.
  Proof. rewrite <- mI_comm. apply mmul_0_l. Qed.
  Lemma mmul_msum_r l C : mmul C (msum l) == msum (map (fun A => mmul C A) l).
  Proof.
    induction l as [|x l IH]; simpl.
    - apply mmul_0_r.
    - rewrite mmul_madd_r, IH. reflexivity.
  Qed.
  Lemma mT_msum l : mT (msum l) == msum (map mT l).
  Proof.
    induction l as [|x l IH]; simpl.
    - apply mT_mI.
    - rewrite mT_madd, IH. reflexivity.
  Qed.
  Lemma mT_mprod l : mT (mprod l) == mprod (map mT (rev l)).
  Proof.
    induction l as [|x l IH]; simpl.
    - apply mT_mI.
    - rewrite mT_mmul, IH, map_app, mprod_app. simpl. rewrite mmul_1_r. reflexivity.
  Qed.
  Lemma mtr_msum l : mtr (msum l) = fold_right fadd 0 (map mtr l).
  Proof.
    induction l as [|x l IH]; simpl.
    - apply mtr_0.
    - rewrite mtr_madd, IH. reflexivity.
  Qed.
  Lemma msum_mI (l : list F) : msum (map mI l) == mI (fold_right fadd 0 l).
  Proof.
    induction l as [|x l IH]; simpl; [reflexivity|]. rewrite IH. apply mI_add.
  Qed.

  (* ---------------------------------------------------------------- the meaning of a tree *)
  Variable envS : skind -> string -> F.
  Variable envM : mkind -> string -> mat.
  Variable minv : mat -> mat.
  Variable mdet : mat -> F.      (* no constructor rewrites a determinant: any function *)

  Definition q2f (q : Q) : F := phi (Qnum q) / phi (Zpos (Qden q)).
  Definition zpowF (x : F) (e : Z) : F :=
    match e with
    | Z0 => 1
    | Zpos n => pow_N f1 fmul x (Npos n)
    | Zneg n => finv (pow_N f1 fmul x (Npos n))
    end.
  Fixpoint mpow (A : mat) (n : nat) : mat :=
    match n with O => mI 1 | S k => mmul (mpow A k) A end.
  Definition mzpow (A : mat) (e : Z) : mat :=
    match e with
    | Zneg n => minv (mpow A (Pos.to_nat n))
    | _ => mpow A (Z.to_nat e)
    end.

  Fixpoint den (e : mx) : mat :=
    match e with
    | XNum p q => mI (q2f (p # q))
    | XSc k n => mI (envS k n)
    | XMat k n => envM k n
    | XAdd l => msum (map den l)
    | XMul l => mprod (map den l)
    | XPow b z => if is_comm b then mI (zpowF (den b O O) z) else mzpow (den b) z
    | XT a => mT (den a)
    | XInv a => minv (den a)
    | XTr a => mI (mtr (den a))
    | XDet a => mI (mdet (den a))
    | XElem a i j => mI (den a i j)
    end.

  Lemma q2f_zero q : q2f (0 # q) = 0.
  Proof. unfold q2f. cbn [Qnum Qden]. rewrite phi_0, (Fdiv_def Fth). ring. Qed.
  Lemma den_zero e : is_zero e = true -> den e == mI 0.
  Proof.
    destruct e as [p q| | | | | | | | | |]; try discriminate. destruct p; try discriminate. intros _.
    cbn [den]. apply mI_ext. apply q2f_zero.
  Qed.
  Lemma q2f_one : q2f (1 # 1) = 1.
  Proof. unfold q2f. cbn [Qnum Qden]. rewrite phi_1. field. apply one_neq_zero. Qed.
  Lemma den_one e : is_one e = true -> den e == mI 1.
  Proof.
    destruct e as [p q| | | | | | | | | |]; try discriminate.
    destruct p as [|p|p]; try discriminate. destruct p; try discriminate. destruct q; try discriminate.
    intros _. simpl. apply mI_ext. apply q2f_one.
  Qed.

  (* commutative (in the sense of the code's test) expressions denote scalar matrices *)
  Lemma comm_central e : is_comm e = true -> central (den e).
  Proof.
    induction e using mx_ind'; simpl; intros Hc; try discriminate; try apply central_mI.
    - apply central_msum. rewrite Forall_forall in H. rewrite forallb_forall in Hc.
      apply Forall_forall. intros A HA. apply in_map_iff in HA. destruct HA as [x [<- Hx]]. apply H; auto.
    - apply central_mprod. rewrite Forall_forall in H. rewrite forallb_forall in Hc.
      apply Forall_forall. intros A HA. apply in_map_iff in HA. destruct HA as [x [<- Hx]]. apply H; auto.
    - rewrite Hc. apply central_mI.
  Qed.

  (* ---------------------------------------------------------------- sorting *)
  Section WithKey.
  Variable key : mx -> string.

  Lemma insert_perm x l : Permutation (insert key x l) (x :: l).
  Proof.
    induction l as [|y l IH]; simpl; [reflexivity|].
    destruct (kle key x y); [reflexivity|].
    rewrite IH. apply perm_swap.
  Qed.
  Lemma sort_perm l : Permutation (sort key l) l.
  Proof.
    induction l as [|x l IH]; simpl; [reflexivity|].
    unfold sort in *. simpl. rewrite insert_perm. constructor. exact IH.
  Qed.
  Lemma msum_sort l : msum (map den (sort key l)) == msum (map den l).
  Proof. apply msum_perm. apply Permutation_map. apply sort_perm. Qed.
  Lemma forallb_perm {A} (f : A -> bool) l m : Permutation l m -> forallb f l = forallb f m.
  Proof.
    induction 1; simpl; try congruence.
    rewrite !andb_assoc. rewrite (andb_comm (f y)). reflexivity.
  Qed.

  (* ---------------------------------------------------------------- flattening *)
  Lemma msum_flat_add l : msum (map den (flat_add l)) == msum (map den l).
  Proof.
    induction l as [|x l IH]; simpl; [reflexivity|].
    rewrite map_app, msum_app, IH.
    destruct x; simpl; try (rewrite madd_0_r; reflexivity). reflexivity.
  Qed.
  Lemma mprod_flat_mul l : mprod (map den (flat_mul l)) == mprod (map den l).
  Proof.
    induction l as [|x l IH]; simpl; [reflexivity|].
    rewrite map_app, mprod_app, IH.
    destruct x; simpl; try (rewrite mmul_1_r; reflexivity). reflexivity.
  Qed.
  Lemma flat_mul_comm l : forallb is_comm l = true -> forallb is_comm (flat_mul l) = true.
  Proof.
    induction l as [|x l IH]; simpl; [reflexivity|]. intros H. apply andb_prop in H. destruct H as [Hx Hl].
    rewrite forallb_app, IH by assumption. rewrite andb_true_r.
    destruct x; simpl in *; rewrite ?andb_true_r; try reflexivity; try exact Hx; try discriminate.
  Qed.

  Lemma den_mul_raw l : den (mul_raw l) == mprod (map den l).
  Proof.
    destruct l as [|x [|y r]]; simpl.
    - apply mI_ext. apply q2f_one.
    - symmetry. apply mmul_1_r.
    - reflexivity.
  Qed.
  Lemma mul_raw_comm l : forallb is_comm l = true -> is_comm (mul_raw l) = true.
  Proof.
    destruct l as [|x [|y r]]; simpl; intros H; auto.
    rewrite andb_true_r in H. exact H.
  Qed.

  (* ---------------------------------------------------------------- MatSymbolicAdd *)
  Lemma msum_filter_nzero l : msum (map den (filter nzero l)) == msum (map den l).
  Proof.
    induction l as [|x l IH]; simpl; [reflexivity|].
    unfold nzero at 1. destruct (is_zero x) eqn:Hz; simpl.
    - rewrite IH, (den_zero x Hz), madd_0_l. reflexivity.
    - rewrite IH. reflexivity.
  Qed.

  Theorem mk_matadd_sound args : den (mk_matadd key args) == msum (map den args).
  Proof.
    unfold mk_matadd.
    rewrite <- (msum_filter_nzero args), <- (msum_flat_add (filter nzero args)).
    destruct (flat_add (filter nzero args)) as [|x [|y r]] eqn:E.
    - cbn [den xzero]. apply mI_ext. apply q2f_zero.
    - simpl. symmetry. apply madd_0_r.
    - change (den (XAdd (sort key (x :: y :: r)))) with (msum (map den (sort key (x :: y :: r)))).
      apply msum_sort.
  Qed.

  Lemma mk_matadd_comm args : forallb is_comm args = true -> is_comm (mk_matadd key args) = true.
  Proof.
    intros H. unfold mk_matadd.
    assert (Hf : forallb is_comm (flat_add (filter nzero args)) = true).
    { clear -H. induction args as [|x l IH]; simpl in *; [reflexivity|].
      apply andb_prop in H. destruct H as [Hx Hl].
      destruct (nzero x); simpl; [|apply IH; assumption].
      rewrite forallb_app, IH by assumption. rewrite andb_true_r.
      destruct x; simpl in *; rewrite ?andb_true_r; try reflexivity; try exact Hx; try discriminate. }
    destruct (flat_add (filter nzero args)) as [|x [|y r]] eqn:E; simpl; auto.
    - simpl in Hf. rewrite andb_true_r in Hf. exact Hf.
    - rewrite <- (forallb_perm is_comm _ _ (sort_perm (x :: y :: r))) in Hf. exact Hf.
  Qed.

  (* ---------------------------------------------------------------- sympy's Mul on commutative factors *)
  Hypothesis char0 : forall p : positive, phi (Zpos p) <> 0.

  Lemma q2f_Qeq a b : Qeq a b -> q2f a = q2f b.
  Proof.
    unfold Qeq, q2f. intros H.
    assert (H' : phi (Qnum a) * phi (Zpos (Qden b)) = phi (Qnum b) * phi (Zpos (Qden a))).
    { rewrite <- !phi_mul. f_equal. exact H. }
    pose proof (char0 (Qden a)). pose proof (char0 (Qden b)).
    apply (f_equal (fun x => x / (phi (Zpos (Qden a)) * phi (Zpos (Qden b))))) in H'.
    transitivity (phi (Qnum a) * phi (Zpos (Qden b)) / (phi (Zpos (Qden a)) * phi (Zpos (Qden b)))).
    - field. split; assumption.
    - rewrite H'. field. split; assumption.
  Qed.
  Lemma q2f_mul a b : q2f (Qmult a b) = q2f a * q2f b.
  Proof.
    unfold q2f, Qmult. cbn [Qnum Qden]. rewrite Pos2Z.inj_mul, !phi_mul. pose proof (char0 (Qden a)). pose proof (char0 (Qden b)). field. split; assumption.
  Qed.

  Lemma num_prod_sound l : Forall central (map den l) ->
    mprod (map den l) == mmul (mI (q2f (num_prod l))) (mprod (map den (filter nnum l))).
  Proof.
    induction l as [|x l IH]; intros Hc.
    - simpl. rewrite mmul_1_r. apply mI_ext. symmetry. apply q2f_one.
    - simpl in Hc. inversion Hc as [|? ? Hx Hl]; subst. specialize (IH Hl).
      simpl map at 1. simpl mprod at 1. rewrite IH.
      destruct x; simpl;
        try (rewrite <- !mmul_assoc; rewrite (central_comm _ (mI (q2f (num_prod l))) Hx); reflexivity).
      rewrite q2f_mul, <- mI_mul, mmul_assoc. reflexivity.
  Qed.

  Lemma filter_central (f : mx -> bool) l : Forall central (map den l) -> Forall central (map den (filter f l)).
  Proof.
    induction l as [|x l IH]; simpl; intros H; [constructor|].
    inversion H; subst. destruct (f x); simpl; auto.
  Qed.
  Lemma comm_all_central l : forallb is_comm l = true -> Forall central (map den l).
  Proof.
    induction l as [|x l IH]; simpl; intros H; [constructor|].
    apply andb_prop in H. destruct H. constructor; [apply comm_central|]; auto.
  Qed.

  Theorem cmul_sound l : forallb is_comm l = true -> den (cmul key l) == mprod (map den l).
  Proof.
    intros Hc. unfold cmul.
    pose proof (flat_mul_comm l Hc) as Hf.
    pose proof (comm_all_central _ Hf) as Hcen.
    rewrite <- (mprod_flat_mul l).
    rewrite (num_prod_sound _ Hcen).
    set (c := Qred (num_prod (flat_mul l))).
    assert (Hq : q2f (num_prod (flat_mul l)) = q2f c) by (apply q2f_Qeq; symmetry; apply Qred_correct).
    rewrite Hq.
    assert (Hs : mprod (map den (sort key (filter nnum (flat_mul l)))) == mprod (map den (filter nnum (flat_mul l)))).
    { apply mprod_perm_central.
      - apply Permutation_map. apply sort_perm.
      - eapply Permutation_Forall; [apply Permutation_map; symmetry; apply sort_perm|].
        apply filter_central. exact Hcen. }
    destruct (Z.eqb_spec (Qnum c) 0) as [Hz|Hnz].
    - cbn [den xzero]. assert (q2f c = 0) as ->.
      { unfold q2f. rewrite Hz, phi_0, (Fdiv_def Fth). ring. }
      rewrite mmul_0_l. apply mI_ext. apply q2f_zero.
    - destruct (Z.eqb_spec (Qnum c) 1) as [H1|Hn1]; [destruct (Pos.eqb_spec (Qden c) 1) as [H2|Hn2]|]; cbn [andb].
      + rewrite den_mul_raw, Hs. assert (q2f c = 1) as ->.
        { unfold q2f. rewrite H1, H2. apply q2f_one. }
        rewrite mmul_1_l. reflexivity.
      + rewrite den_mul_raw, map_cons, mprod_cons, Hs. destruct c; reflexivity.
      + rewrite den_mul_raw, map_cons, mprod_cons, Hs. destruct c; reflexivity.
  Qed.

  Lemma cmul_comm l : forallb is_comm l = true -> is_comm (cmul key l) = true.
  Proof.
    intros Hc. unfold cmul.
    assert (Hr : forallb is_comm (sort key (filter nnum (flat_mul l))) = true).
    { rewrite (forallb_perm is_comm _ _ (sort_perm _)).
      pose proof (flat_mul_comm l Hc) as Hf. clear -Hf.
      induction (flat_mul l) as [|x r IH]; simpl in *; [reflexivity|].
      apply andb_prop in Hf. destruct Hf. destruct (nnum x); simpl; auto. rewrite H. auto. }
    destruct (Z.eqb (Qnum _) 0); [reflexivity|].
    destruct (Z.eqb (Qnum _) 1 && Pos.eqb (Qden _) 1).
    - apply mul_raw_comm. exact Hr.
    - apply mul_raw_comm. simpl. exact Hr.
  Qed.

  (* ---------------------------------------------------------------- MatSymbolicMul *)
  (* the commutative factors of a product can be collected in front, the others keep their order *)
  Lemma split_comm (f : mx -> bool) l : (forall x, f x = true -> central (den x)) ->
    mprod (map den l) == mmul (mprod (map den (filter f l))) (mprod (map den (filter (fun x => negb (f x)) l))).
  Proof.
    intros Hf. induction l as [|x l IH]; simpl.
    - rewrite mmul_1_l. reflexivity.
    - rewrite IH. destruct (f x) eqn:E; simpl.
      + symmetry. apply mmul_assoc.
      + rewrite <- !mmul_assoc.
        assert (Hc : central (mprod (map den (filter f l)))).
        { apply central_mprod. apply Forall_forall. intros A HA. apply in_map_iff in HA.
          destruct HA as [y [<- Hy]]. apply filter_In in Hy. apply Hf. tauto. }
        rewrite (central_comm _ (den x) Hc). reflexivity.
  Qed.
  Lemma filter_is_comm l : forallb is_comm (filter is_comm l) = true.
  Proof. apply forallb_forall. intros x Hx. apply filter_In in Hx. tauto. Qed.

  Theorem mul_finish_sound args : den (mul_finish key args) == mprod (map den args).
  Proof.
    unfold mul_finish.
    rewrite <- (mprod_flat_mul args).
    rewrite (split_comm is_comm (flat_mul args) comm_central).
    change (fun x => negb (is_comm x)) with ncomm.
    set (ncs := filter ncomm (flat_mul args)). set (coeffs := filter is_comm (flat_mul args)).
    pose proof (cmul_sound coeffs (filter_is_comm _)) as Hc.
    destruct coeffs as [|c0 cr] eqn:E.
    - simpl. rewrite mmul_1_l. apply den_mul_raw.
    - rewrite <- Hc. clear Hc.
      destruct ncs as [|n0 nr] eqn:En.
      + simpl. rewrite mmul_1_r. reflexivity.
      + destruct (cmul key (c0 :: cr)) as [p q|k n|k n|l|cl|b z|a|a|a|a|a i j] eqn:Ec;
          try (match goal with
               | |- context [is_one ?c] =>
                   destruct (is_one c) eqn:E1;
                   [rewrite (den_one _ E1), mmul_1_l; apply den_mul_raw
                   |rewrite den_mul_raw; reflexivity]
               end).
        rewrite den_mul_raw, map_app, mprod_app. reflexivity.
  Qed.

  Lemma den_dist rest : forall pre,
    den (dist key pre rest) == mmul (mprod (map den pre)) (mprod (map den rest)).
  Proof.
    induction rest as [|a r IH]; intros pre.
    - simpl. rewrite mmul_1_r. apply mul_finish_sound.
    - assert (Hgen : den (dist key (pre ++ [a]) r) == mmul (mprod (map den pre)) (mprod (map den (a :: r)))).
      { rewrite IH, map_app, mprod_app. simpl. rewrite mmul_1_r. apply mmul_assoc. }
      destruct a; try exact Hgen. clear Hgen.
      simpl dist. rewrite mk_matadd_sound, map_map.
      transitivity (msum (map (fun e => mmul (mprod (map den pre)) (mmul (den e) (mprod (map den r)))) l)).
      + apply msum_Forall2. induction l as [|e l IHl]; simpl; constructor; auto.
        rewrite IH, map_app, mprod_app. simpl. rewrite mmul_1_r. apply mmul_assoc.
      + simpl. rewrite <- (map_map (fun e => mmul (den e) (mprod (map den r))) (mmul (mprod (map den pre)))).
        rewrite <- mmul_msum_r. rewrite <- (map_map den (fun A => mmul A (mprod (map den r)))).
        rewrite <- mmul_msum_l. reflexivity.
  Qed.

  Lemma mprod_filter_none l : mprod (map den (filter none l)) == mprod (map den l).
  Proof.
    induction l as [|x l IH]; simpl; [reflexivity|].
    unfold none at 1. destruct (is_one x) eqn:E; simpl.
    - rewrite IH, (den_one x E), mmul_1_l. reflexivity.
    - rewrite IH. reflexivity.
  Qed.

  Theorem mk_matmul_sound args : den (mk_matmul key args) == mprod (map den args).
  Proof.
    unfold mk_matmul. rewrite den_dist. simpl. rewrite mmul_1_l. apply mprod_filter_none.
  Qed.

  Theorem plain_mul_sound args : den (plain_mul key args) == mprod (map den args).
  Proof.
    unfold plain_mul.
    rewrite <- (mprod_flat_mul args).
    rewrite (split_comm is_comm (flat_mul args) comm_central).
    change (fun x => negb (is_comm x)) with ncomm.
    set (ncs := filter ncomm (flat_mul args)). set (coeffs := filter is_comm (flat_mul args)).
    rewrite <- (cmul_sound coeffs (filter_is_comm _)).
    destruct ncs as [|n0 nr] eqn:En.
    - simpl. rewrite mmul_1_r. reflexivity.
    - destruct (cmul key coeffs) as [p q|k n|k n|l|cl|b z|a|a|a|a|a i j] eqn:Ec;
        try (match goal with
             | |- context [is_zero ?c] =>
                 destruct (is_zero c) eqn:E0;
                 [rewrite (den_zero _ E0), mmul_0_l; apply (den_zero xzero); reflexivity
                 |destruct (is_one c) eqn:E1;
                  [rewrite (den_one _ E1), mmul_1_l; apply den_mul_raw
                  |rewrite den_mul_raw; reflexivity]]
             end).
      rewrite den_mul_raw, map_app, mprod_app. reflexivity.
  Qed.

  (* a product with a factor 0 is 0 *)
  Lemma mprod_zero l : existsb is_zero l = true -> mprod (map den l) == mI 0.
  Proof.
    induction l as [|x l IH]; simpl; [discriminate|].
    destruct (is_zero x) eqn:E; simpl; intros H.
    - rewrite (den_zero x E). apply mmul_0_l.
    - rewrite (IH H). apply mmul_0_r.
  Qed.

  Theorem sympy_mul_sound args : den (sympy_mul key args) == mprod (map den args).
  Proof.
    unfold sympy_mul. destruct (existsb is_zero args) eqn:E.
    - rewrite (mprod_zero _ E). apply (den_zero xzero). reflexivity.
    - destruct (existsb is_msx args); [apply mk_matmul_sound|apply plain_mul_sound].
  Qed.

  (* ---------------------------------------------------------------- Transpose *)
  Theorem mk_transpose_sound x : den (mk_transpose key x) == mT (den x).
  Proof.
    induction x using mx_ind'; try reflexivity.
    - (* Add: term by term *)
      simpl mk_transpose. rewrite mk_matadd_sound, map_map. simpl den. rewrite mT_msum, map_map.
      apply msum_Forall2. induction H; simpl; constructor; auto.
    - (* Mul: the commutative factors in front, the non-commutative product WHOLE under one Transpose *)
      simpl mk_transpose. rewrite mk_matmul_sound. simpl.
      rewrite mmul_1_r, den_mul_raw, (cmul_sound _ (filter_is_comm _)).
      rewrite (split_comm is_comm l comm_central).
      change (fun x => negb (is_comm x)) with ncomm.
      rewrite mT_mmul.
      assert (Hc : central (mprod (map den (filter is_comm l)))).
      { apply central_mprod. apply comm_all_central. apply filter_is_comm. }
      rewrite (central_mT _ Hc). apply central_comm. exact Hc.
      (* Transpose(Transpose(a)) = a : closed by reflexivity above, mT (mT A) is A *)
  Qed.

  (* pushing the transpose into the factors: sound WITH the reversal of the order ... *)
  Definition mk_transpose_reversed (x : mx) : mx :=
    match x with
    | XMul l => mk_matmul key [cmul key (filter is_comm l); mul_raw (map XT (rev (filter ncomm l)))]
    | _ => mk_transpose key x
    end.
  Theorem transpose_reversed_sound x : den (mk_transpose_reversed x) == mT (den x).
  Proof.
    destruct x; try apply mk_transpose_sound.
    unfold mk_transpose_reversed. rewrite mk_matmul_sound. simpl.
    rewrite mmul_1_r, den_mul_raw, (cmul_sound _ (filter_is_comm _)).
    rewrite (split_comm is_comm l comm_central).
    change (fun x => negb (is_comm x)) with ncomm.
    rewrite mT_mmul, mT_mprod.
    assert (Hc : central (mprod (map den (filter is_comm l)))).
    { apply central_mprod. apply comm_all_central. apply filter_is_comm. }
    rewrite (central_mT _ Hc), <- (central_comm _ _ Hc).
    rewrite map_map, <- map_rev, map_map. reflexivity.
  Qed.

  (* ---------------------------------------------------------------- SymbolicTrace *)
  Lemma sequence_Forall2 {A B} (f : A -> option B) l : forall rs,
    sequence (map f l) = Some rs -> Forall2 (fun x r => f x = Some r) l rs.
  Proof.
    induction l as [|x l IH]; simpl; intros rs H.
    - injection H as <-. constructor.
    - destruct (f x) eqn:E; [|discriminate].
      destruct (sequence (map f l)) eqn:E2; [|discriminate]. simpl in H. injection H as <-.
      constructor; auto.
  Qed.

  Lemma coeff_comm x : is_coeff x = true -> is_comm x = true.
  Proof. destruct x; try discriminate; reflexivity. Qed.

  Lemma mk_trace_comm n : forall x r, mk_trace key n x = Some r -> is_comm r = true.
  Proof.
    induction n as [|n IH]; intros x r H; [discriminate|].
    simpl in H. destruct x; try (injection H as <-; reflexivity).
    - destruct (sequence (map (mk_trace key n) l)) as [rs|] eqn:E; [|discriminate].
      simpl in H. injection H as <-. apply mk_matadd_comm.
      apply sequence_Forall2 in E. apply forallb_forall. intros y Hy.
      clear -E Hy IH. induction E; [contradiction|]. destruct Hy as [<-|Hy]; eauto.
    - destruct (filter is_coeff l) as [|c0 cr] eqn:Ec; [injection H as <-; reflexivity|].
      destruct (mk_trace key n _) as [t|] eqn:Et; [|discriminate]. injection H as <-.
      apply cmul_comm. simpl. rewrite (IH _ _ Et), andb_true_r.
      apply cmul_comm. rewrite <- Ec. apply forallb_forall. intros y Hy. apply filter_In in Hy.
      destruct Hy as [_ Hy]. apply coeff_comm. exact Hy.
  Qed.

  Lemma coeff_central x : is_coeff x = true -> central (den x).
  Proof. destruct x; try discriminate; intros; apply central_mI. Qed.

  Theorem mk_trace_sound n : forall x r, mk_trace key n x = Some r -> den r == mI (mtr (den x)).
  Proof.
    induction n as [|n IH]; intros x r H; [discriminate|].
    simpl in H. destruct x; try (injection H as <-; reflexivity).
    - (* Add: linearity *)
      destruct (sequence (map (mk_trace key n) l)) as [rs|] eqn:E; [|discriminate].
      simpl in H. injection H as <-. rewrite mk_matadd_sound.
      apply sequence_Forall2 in E. simpl den. rewrite mtr_msum, map_map, <- msum_mI, map_map.
      apply msum_Forall2. clear -E IH. induction E; simpl; constructor; eauto.
    - (* Mul: the coefficients in front of the trace of the remaining product *)
      destruct (filter is_coeff l) as [|c0 cr] eqn:Ec; [injection H as <-; reflexivity|].
      destruct (mk_trace key n _) as [t|] eqn:Et; [|discriminate]. injection H as <-.
      pose proof (IH _ _ Et) as Ht. pose proof (mk_trace_comm _ _ _ Et) as Htc.
      assert (Hcc : forallb is_comm (c0 :: cr) = true).
      { rewrite <- Ec. apply forallb_forall. intros y Hy. apply filter_In in Hy.
        destruct Hy as [_ Hy]. apply coeff_comm. exact Hy. }
      rewrite cmul_sound by (simpl; rewrite Htc, (cmul_comm _ Hcc); reflexivity).
      simpl. rewrite mmul_1_r, (cmul_sound _ Hcc), Ht.
      assert (Hx : den (if is_msx (XMul l) then mk_matmul key (filter ncoeff l) else plain_mul key (filter ncoeff l))
                   == mprod (map den (filter ncoeff l))).
      { destruct (is_msx (XMul l)); [apply mk_matmul_sound|apply plain_mul_sound]. }
      rewrite (mtr_proper _ _ Hx).
      rewrite (mtr_proper _ _ (split_comm is_coeff l coeff_central)).
      change (fun x => negb (is_coeff x)) with ncoeff. rewrite Ec.
      destruct (central_mprod (map den (c0 :: cr)) (comm_all_central _ Hcc)) as [c Hc].
      rewrite Hc. rewrite mtr_mI_mul. apply mI_mul.
  Qed.

  End WithKey.

  (* the order reversal law on trees *)
  Lemma reversal_trees a b : den (XT (XMul [a; b])) == den (XMul [XT b; XT a]).
  Proof. simpl. rewrite !mmul_1_r, mT_mmul. reflexivity. Qed.

  (* ---------------------------------------------------------------- Inverse *)
  Definition is_inv (A B : mat) : Prop := mmul A B == mI 1 /\ mmul B A == mI 1.
  Definition invertible (A : mat) : Prop := exists B, is_inv A B.

  Lemma inv_unique A B C : is_inv A B -> is_inv A C -> B == C.
  Proof.
    intros [_ HBA] [HAC _].
    rewrite <- (mmul_1_r B), <- HAC, <- mmul_assoc, HBA. apply mmul_1_l.
  Qed.

  Theorem mk_inverse_sound :
    (forall A, invertible A -> is_inv A (minv A)) ->
    forall x, (forall a, x = XInv a -> invertible (den a)) -> den (mk_inverse x) == den (XInv x).
  Proof.
    intros Hspec x Hx. destruct x; try reflexivity.
    simpl. specialize (Hx x eq_refl).
    pose proof (Hspec _ Hx) as H1.
    assert (H2 : is_inv (minv (den x)) (den x)) by (destruct H1; split; assumption).
    pose proof (Hspec _ (ex_intro _ _ H2)) as H3.
    apply (inv_unique _ _ _ H2 H3).
  Qed.
End Alg.

(* ================================================================== the order-reversal law decides *)
(* Transpose pushed into the non-commutative factors WITHOUT reversing their order
   (the seeded change C03-n2:  Mul( *coeffs) * Mul( *[Transpose(a) for a in args]) ) *)
Definition mk_transpose_pushed (key : mx -> string) (x : mx) : mx :=
  match x with
  | XMul l => mk_matmul key [cmul key (filter is_comm l); mul_raw (map XT (filter ncomm l))]
  | _ => mk_transpose key x
  end.

Section Refute.
  Variable F : Type.
  Variables (f0 f1 : F) (fadd fmul fsub : F -> F -> F) (fopp : F -> F) (fdiv : F -> F -> F) (finv : F -> F).
  Hypothesis Fth : field_theory f0 f1 fadd fmul fsub fopp fdiv finv (@eq F).
  Add Field FF2 : Fth.

  Definition E01 : mat F := fun i j => match i, j with O, S O => f1 | _, _ => f0 end.
  Definition E00 : mat F := fun i j => match i, j with O, O => f1 | _, _ => f0 end.
  Definition envAB (k : mkind) (n : string) : mat F := if String.eqb n "A" then E01 else E00.
  Definition xAB : mx := XMul [XMat KJac "A"; XMat KJac "B"].

  (* (A B)^T = 0 but A^T B^T has the entry 1 at (1,0) *)
  Theorem transpose_pushed_refuted :
    forall (envS : skind -> string -> F) (minv : mat F -> mat F) (mdet : mat F -> F) (key : mx -> string),
    ~ meq F 2 (den F f0 f1 fadd fmul fopp fdiv finv 2 envS envAB minv mdet (mk_transpose_pushed key xAB))
              (mT F (den F f0 f1 fadd fmul fopp fdiv finv 2 envS envAB minv mdet xAB)).
  Proof.
    intros envS minv mdet key H.
    specialize (H 1%nat 0%nat ltac:(lia) ltac:(lia)).
    cbv in H.
    apply (F_1_neq_0 Fth).
    etransitivity; [|etransitivity; [exact H|]]; ring.
  Qed.

  (* the same input through the real arm (product kept whole under one Transpose) and through the
     reversed variant: both agree with the literal transpose *)
  Example transpose_real_arm_on_witness key : mk_transpose key xAB = XT xAB.
  Proof. reflexivity. Qed.

  (* ---------------------------------------------------------------- an inverse function exists (d = 2) *)
  Definition det2f (A : mat F) : F := fsub (fmul (A 0 0) (A 1 1)) (fmul (A 0 1) (A 1 0))%nat.
  Definition minv2 (A : mat F) : mat F := fun i j =>
    match i, j with
    | O, O => fdiv (A 1 1)%nat (det2f A)
    | O, S O => fdiv (fopp (A 0 1)%nat) (det2f A)
    | S O, O => fdiv (fopp (A 1 0)%nat) (det2f A)
    | S O, S O => fdiv (A 0 0)%nat (det2f A)
    | _, _ => f0
    end.

  Theorem minv2_spec A : invertible F f0 f1 fadd fmul 2 A -> is_inv F f0 f1 fadd fmul 2 A (minv2 A).
  Proof.
    intros [B [HAB _]].
    pose proof (HAB 0 0 ltac:(lia) ltac:(lia))%nat as e00.
    pose proof (HAB 0 1 ltac:(lia) ltac:(lia))%nat as e01.
    pose proof (HAB 1 0 ltac:(lia) ltac:(lia))%nat as e10.
    pose proof (HAB 1 1 ltac:(lia) ltac:(lia))%nat as e11.
    cbv [mmul bsum mI Nat.eqb] in e00, e01, e10, e11.
    assert (Hd : fmul (det2f A) (det2f B) = f1).
    { unfold det2f.
      transitivity (fsub (fmul (fadd (fadd f0 (fmul (A 0 0) (B 0 0))) (fmul (A 0 1) (B 1 0)))
                               (fadd (fadd f0 (fmul (A 1 0) (B 0 1))) (fmul (A 1 1) (B 1 1))))
                         (fmul (fadd (fadd f0 (fmul (A 0 0) (B 0 1))) (fmul (A 0 1) (B 1 1)))
                               (fadd (fadd f0 (fmul (A 1 0) (B 0 0))) (fmul (A 1 1) (B 1 0)))))%nat.
      - ring.
      - rewrite e00, e01, e10, e11. ring. }
    assert (Hnz : det2f A <> f0).
    { intros Hz. rewrite Hz in Hd. apply (F_1_neq_0 Fth). rewrite <- Hd. ring. }
    unfold det2f in Hnz.
    split; intros i j Hi Hj;
      destruct i as [|[|i]]; try lia; destruct j as [|[|j]]; try lia;
      cbv [mmul bsum mI Nat.eqb minv2 det2f]; field; exact Hnz.
  Qed.
End Refute.

(* ================================================================== packaged statements (used by Props/C02m.v) *)
(* a field of characteristic 0 *)
Record cfield := {
  K : Type;
  k0 : K; k1 : K;
  kadd : K -> K -> K; kmul : K -> K -> K; ksub : K -> K -> K;
  kopp : K -> K; kdiv : K -> K -> K; kinv : K -> K;
  Kth : field_theory k0 k1 kadd kmul ksub kopp kdiv kinv (@eq K);
  Kchar0 : forall p : positive, phi K k0 k1 kadd kmul kopp (Zpos p) <> k0
}.
(* an interpretation: dimension, values of the scalar and matrix atoms, an inverse and a determinant function *)
Record interp (R : cfield) := {
  dim : nat;
  eS : skind -> string -> K R;
  eM : mkind -> string -> mat (K R);
  einv : mat (K R) -> mat (K R);
  edet : mat (K R) -> K R
}.
Arguments dim {R}. Arguments eS {R}. Arguments eM {R}. Arguments einv {R}. Arguments edet {R}.

Section Packaged.
  Variable R : cfield.
  Variable I : interp R.
  Definition Den (e : mx) : mat (K R) :=
    den (K R) (k0 R) (k1 R) (kadd R) (kmul R) (kopp R) (kdiv R) (kinv R) (dim I) (eS I) (eM I) (einv I) (edet I) e.
  Definition Meq (A B : mat (K R)) : Prop := meq (K R) (dim I) A B.
  Definition MT (A : mat (K R)) : mat (K R) := mT (K R) A.
  Definition MSum (l : list (mat (K R))) : mat (K R) := msum (K R) (k0 R) (kadd R) l.
  Definition MProd (l : list (mat (K R))) : mat (K R) := mprod (K R) (k0 R) (k1 R) (kadd R) (kmul R) (dim I) l.
  Definition MScal (x : K R) : mat (K R) := mI (K R) (k0 R) x.
  Definition MTr (A : mat (K R)) : K R := mtr (K R) (k0 R) (kadd R) (dim I) A.
  Definition Invertible (A : mat (K R)) : Prop := invertible (K R) (k0 R) (k1 R) (kadd R) (kmul R) (dim I) A.
  Definition InverseOk : Prop :=
    forall A, Invertible A -> is_inv (K R) (k0 R) (k1 R) (kadd R) (kmul R) (dim I) A (einv I A).

  Theorem P_matadd key args : Meq (Den (mk_matadd key args)) (MSum (map Den args)).
  Proof. apply (mk_matadd_sound _ _ _ _ _ _ _ _ _ (Kth R)). Qed.
  Theorem P_matmul key args : Meq (Den (mk_matmul key args)) (MProd (map Den args)).
  Proof. apply (mk_matmul_sound _ _ _ _ _ _ _ _ _ (Kth R)). apply Kchar0. Qed.
  Theorem P_sympy_mul key args : Meq (Den (sympy_mul key args)) (MProd (map Den args)).
  Proof. apply (sympy_mul_sound _ _ _ _ _ _ _ _ _ (Kth R)). apply Kchar0. Qed.
  Theorem P_transpose key x : Meq (Den (mk_transpose key x)) (MT (Den x)).
  Proof. apply (mk_transpose_sound _ _ _ _ _ _ _ _ _ (Kth R)). apply Kchar0. Qed.
  Theorem P_transpose_reversed key x : Meq (Den (mk_transpose_reversed key x)) (MT (Den x)).
  Proof. apply (transpose_reversed_sound _ _ _ _ _ _ _ _ _ (Kth R)). apply Kchar0. Qed.
  Theorem P_trace key n x r : mk_trace key n x = Some r -> Meq (Den r) (MScal (MTr (Den x))).
  Proof. apply (mk_trace_sound _ _ _ _ _ _ _ _ _ (Kth R)). apply Kchar0. Qed.
  Theorem P_inverse x :
    InverseOk -> (forall a, x = XInv a -> Invertible (Den a)) -> Meq (Den (mk_inverse x)) (Den (XInv x)).
  Proof. intros H1 H2. apply (mk_inverse_sound _ _ _ _ _ _ _ _ _ (Kth R)); assumption. Qed.
  Theorem P_neg key x : Meq (Den (mk_neg key x)) (MProd [Den (XNum (-1) 1); Den x]).
  Proof. unfold mk_neg. apply P_matmul. Qed.
  Theorem P_sub key a b : Meq (Den (mk_sub key a b)) (MSum [Den a; MProd [Den (XNum (-1) 1); Den b]]).
  Proof.
    unfold mk_sub. unfold Meq. etransitivity; [apply P_matadd|].
    simpl. apply (madd_proper _ _ _); [reflexivity|].
    apply (madd_proper _ _ _); [|reflexivity]. apply P_neg.
  Qed.
  (* the order reversal law on trees: (A B)^T = B^T A^T *)
  Theorem P_reversal a b : Meq (Den (XT (XMul [a; b]))) (Den (XMul [XT b; XT a])).
  Proof. apply (reversal_trees _ _ _ _ _ _ _ _ _ (Kth R)). Qed.
End Packaged.

Theorem P_transpose_pushed_refuted (R : cfield) :
  exists (I : interp R) (x : mx), forall key, ~ Meq R I (Den R I (mk_transpose_pushed key x)) (MT R (Den R I x)).
Proof.
  exists {| dim := 2; eS := fun _ _ => k0 R; eM := envAB (K R) (k0 R) (k1 R);
            einv := fun A => A; edet := fun _ => k0 R |}, xAB.
  intros key. apply (transpose_pushed_refuted _ _ _ _ _ _ _ _ _ (Kth R)).
Qed.

(* the hypothesis of P_inverse is satisfiable: for d = 2 the adjugate formula is an inverse function *)
Theorem P_inverse_hypothesis_inhabited (R : cfield) (eS0 : skind -> string -> K R) (eM0 : mkind -> string -> mat (K R)) :
  InverseOk R {| dim := 2; eS := eS0; eM := eM0;
                 einv := minv2 (K R) (k0 R) (kmul R) (ksub R) (kopp R) (kdiv R); edet := det2f (K R) (kmul R) (ksub R) |}.
Proof. intros A HA. apply (minv2_spec _ _ _ _ _ _ _ _ _ (Kth R)). exact HA. Qed.

(* ================================================================== the structures are inhabited: the rationals *)
From Coq Require Import Qcanon.
Lemma Qc_phi_pos p : (0 < phi Qc 0 1 Qcplus Qcmult Qcopp (Zpos p))%Qc.
Proof.
  induction p as [p IH|p IH|].
  - replace (Zpos p~1) with (2 * Zpos p + 1)%Z by reflexivity.
    rewrite (phi_add _ _ _ _ _ _ _ _ _ Qcft), (phi_mul _ _ _ _ _ _ _ _ _ Qcft), (phi_1 _ _ _ _ _ _ _ _ _ Qcft).
    change (phi Qc 0 1 Qcplus Qcmult Qcopp 2) with (1 + 1)%Qc.
    apply Qclt_le_trans with ((1 + 1) * phi Qc 0 1 Qcplus Qcmult Qcopp (Zpos p) + 0)%Qc.
    + rewrite Qcplus_0_r. replace 0%Qc with (0 * phi Qc 0 1 Qcplus Qcmult Qcopp (Zpos p))%Qc by ring.
      apply Qcmult_lt_compat_r; [exact IH|reflexivity].
    + apply Qcplus_le_compat; [apply Qcle_refl|discriminate].
  - replace (Zpos p~0) with (2 * Zpos p)%Z by reflexivity.
    rewrite (phi_mul _ _ _ _ _ _ _ _ _ Qcft).
    change (phi Qc 0 1 Qcplus Qcmult Qcopp 2) with (1 + 1)%Qc.
    replace 0%Qc with (0 * phi Qc 0 1 Qcplus Qcmult Qcopp (Zpos p))%Qc by ring.
    apply Qcmult_lt_compat_r; [exact IH|reflexivity].
  - rewrite (phi_1 _ _ _ _ _ _ _ _ _ Qcft). reflexivity.
Qed.

Definition Qc_cfield : cfield.
Proof.
  refine {| K := Qc; k0 := 0%Qc; k1 := 1%Qc; kadd := Qcplus; kmul := Qcmult; ksub := Qcminus; kopp := Qcopp;
            kdiv := Qcdiv; kinv := Qcinv; Kth := Qcft |}.
  intros p H. pose proof (Qc_phi_pos p) as Hp. rewrite H in Hp. discriminate Hp.
Defined.
