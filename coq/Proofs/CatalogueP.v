(* C16, symbolic part: soundness of the coherence check of Model/CatalogueM.v in every differential field,
   and the finite sweep over the generated catalogue (Gen/Catalogue.v).

   [check_entry e = true] (a closed boolean computation) implies, for EVERY [S : dfield] in which
   sin^2 + cos^2 = 1, sqrt(a)^2 = a and sqrt(k^2 a) = k sqrt(a) hold (Section hypotheses below, not axioms),
   every parameter value and every point where the listed denominators do not vanish ([side_conditions]):
     (i)   the stored Jacobian is the matrix of logical derivatives of the coordinate expressions,
     (ii)  J * Jinv = I and Jinv * J = I,
     (iii) the stored metric is J^T J,
     (iv)  the stored determinant is det (J^T J). *)
From Coq Require Import String ZArith List Bool Arith Lia Field_theory Field.
From V Require Import Core.FieldEq Core.Terminal Core.TerminalP Core.DField Core.SExpr Model.CatalogueM.
From V Require Gen.Catalogue Model.CatalogueRefM.
Import ListNotations.

(* ------------------------------------------------------------------ matrix operations commute with morphisms *)
Section MatHom.
  Variables T1 T2 : Type.
  Variables (z1 o1 : T1) (a1 m1 : T1 -> T1 -> T1) (n1 : T1 -> T1).
  Variables (z2 o2 : T2) (a2 m2 : T2 -> T2 -> T2) (n2 : T2 -> T2).
  Variable h : T1 -> T2.
  Hypothesis hz : h z1 = z2.
  Hypothesis ho : h o1 = o2.
  Hypothesis ha : forall x y, h (a1 x y) = a2 (h x) (h y).
  Hypothesis hm : forall x y, h (m1 x y) = m2 (h x) (h y).
  Hypothesis hn : forall x, h (n1 x) = n2 (h x).

  Lemma hom_msum l : h (msum T1 z1 a1 l) = msum T2 z2 a2 (map h l).
  Proof. induction l as [|x r IH]; simpl; auto. now rewrite ha, IH. Qed.

  Lemma hom_zipmul a : forall b, map h (zipmul T1 m1 a b) = zipmul T2 m2 (map h a) (map h b).
  Proof. induction a as [|x r IH]; intros [|y s]; simpl; auto. now rewrite hm, IH. Qed.

  Lemma hom_dot a b : h (dot T1 z1 a1 m1 a b) = dot T2 z2 a2 m2 (map h a) (map h b).
  Proof. unfold dot. now rewrite hom_msum, hom_zipmul. Qed.

  Lemma hom_col j M : map h (col T1 z1 j M) = col T2 z2 j (map (map h) M).
  Proof.
    unfold col. rewrite !map_map. apply map_ext. intros r.
    rewrite <- hz. symmetry. apply map_nth.
  Qed.

  Lemma hom_transpose n M : map (map h) (transpose T1 z1 n M) = transpose T2 z2 n (map (map h) M).
  Proof. unfold transpose. rewrite map_map. apply map_ext. intros j. apply hom_col. Qed.

  Lemma hom_mmul n A B :
    map (map h) (mmul T1 z1 a1 m1 n A B) = mmul T2 z2 a2 m2 n (map (map h) A) (map (map h) B).
  Proof.
    unfold mmul. rewrite !map_map. apply map_ext. intros r.
    rewrite <- hom_transpose. rewrite !map_map. apply map_ext. intros c. apply hom_dot.
  Qed.

  Lemma hom_identity n : map (map h) (identity T1 z1 o1 n) = identity T2 z2 o2 n.
  Proof.
    unfold identity. rewrite map_map. apply map_ext. intros i. rewrite map_map. apply map_ext. intros j.
    destruct (Nat.eqb i j); auto.
  Qed.

  Lemma hom_drop j : forall l, map h (drop_nth T1 j l) = drop_nth T2 j (map h l).
  Proof. induction j as [|j IH]; intros [|x r]; simpl; auto. now rewrite IH. Qed.

  Lemma hom_det n : forall M, h (det T1 z1 o1 a1 m1 n1 n M) = det T2 z2 o2 a2 m2 n2 n (map (map h) M).
  Proof.
    induction n as [|n IH]; intros M; simpl; auto.
    destruct M as [|r0 rest]; simpl; auto.
    generalize 0 as j. generalize true as pos.
    induction r0 as [|x r IHr]; intros pos j; simpl; auto.
    rewrite ha, hm, IH, IHr. f_equal. f_equal.
    - destruct pos; auto.
    - f_equal. rewrite !map_map. apply map_ext. intros row. apply hom_drop.
  Qed.

  Lemma hom_gram n J : map (map h) (gram T1 z1 a1 m1 n J) = gram T2 z2 a2 m2 n (map (map h) J).
  Proof. unfold gram. now rewrite hom_mmul, hom_transpose. Qed.
End MatHom.

(* ------------------------------------------------------------------ generic list lemmas *)
Fixpoint all2P {A B} (R : A -> B -> Prop) (l : list A) (m : list B) : Prop :=
  match l, m with
  | x :: r, y :: s => R x y /\ all2P R r s
  | _, _ => True
  end.

Lemma all2_map_eq {A B C} (f : A -> B -> bool) (R : A -> B -> Prop) (g : A -> C) (g' : B -> C) :
  (forall x y, f x y = true -> R x y -> g x = g' y) ->
  forall l m, all2 f l m = true -> all2P R l m -> map g l = map g' m.
Proof.
  intros H. induction l as [|x r IH]; intros [|y s]; simpl; try discriminate; auto.
  intros Hb [Hr Hs]. apply andb_true_iff in Hb. destruct Hb as [H1 H2].
  f_equal; auto.
Qed.

Lemma sequence_some {A} (l : list (option A)) r : sequence l = Some r -> l = map Some r.
Proof.
  revert r. induction l as [|[x|] l IH]; simpl; intros r H; try discriminate.
  - inversion H. reflexivity.
  - destruct (sequence l) as [r'|]; try discriminate. inversion H. simpl. f_equal. now apply IH.
Qed.

Section Cat.
  Variable S : dfield.
  Add Field SF : (Fth S).
  Notation "0" := (f0 S). Notation "1" := (f1 S).
  Infix "+" := (fadd S). Infix "*" := (fmul S). Infix "-" := (fsub S). Infix "/" := (fdiv S).
  Notation "- x" := (fopp S x).
  Notation ev := (ev S).
  Notation nm := (num S).

  (* relations between elementary functions used by sympy's simplifications: Section hypotheses.
     They are required only where the composition exists ([Edom]). *)
  Hypothesis H_trig : forall a, Edom S Fsin a -> E S Fsin a * E S Fsin a + E S Fcos a * E S Fcos a = 1.
  Hypothesis H_sqrt : forall a, Edom S Fsqrt a -> E S Fsqrt a * E S Fsqrt a = a.
  Hypothesis H_sqrt_scale : forall (k : positive) a,
      Edom S Fsqrt a -> Edom S Fsqrt (nm (Zpos (k * k)) * a) ->
      E S Fsqrt (nm (Zpos (k * k)) * a) = nm (Zpos k) * E S Fsqrt a.

  (* matrices over the field *)
  Definition f_mmul := mmul (F S) 0 (fadd S) (fmul S).
  Definition f_identity := identity (F S) 0 1.
  Definition f_det := det (F S) 0 1 (fadd S) (fmul S) (fopp S).
  Definition f_gram := gram (F S) 0 (fadd S) (fmul S).
  Definition evm (M : list (list texpr)) : list (list (F S)) := map (map ev) M.

  Lemma ev_mmul n A B : evm (t_mmul n A B) = f_mmul n (evm A) (evm B).
  Proof. apply hom_mmul; reflexivity. Qed.
  Lemma ev_identity n : evm (t_identity n) = f_identity n.
  Proof. apply hom_identity; reflexivity. Qed.
  Lemma ev_det n M : ev (t_det n M) = f_det n (evm M).
  Proof. apply hom_det; reflexivity. Qed.
  Lemma ev_gram n J : evm (t_gram n J) = f_gram n (evm J).
  Proof. apply hom_gram; reflexivity. Qed.

  (* ---------------------------------------------------------------- tequiv with hypotheses, wrapped *)
  Definition hyps_ok (hs : list (texpr * texpr)) : Prop := Forall (fun h => ev (fst h) = ev (snd h)) hs.

  Definition dokh (hs : list (texpr * texpr)) (a b : texpr) : Prop :=
    denoms_ok_hyps (F S) (f0 S) (f1 S) (fadd S) (fmul S) (fsub S) (fopp S) (fdiv S) (finv S)
                   (cst S) (crd S) (fld S) (mp S) (nrm S) (D S) (E S) (P S) hs a b.

  Theorem ev_tequiv_hyps hs a b : hyps_ok hs -> tequiv_hyps hs a b = true -> dokh hs a b -> ev a = ev b.
  Proof. intros H. apply tequiv_hyps_sound; [apply Fth|exact H]. Qed.

  (* ---------------------------------------------------------------- rewriting *)
  Definition rule_true (r : rule) : Prop := ev (rule_lhs r) = ev (rule_rhs r).

  Lemma lookup_sound rs t r : Forall rule_true rs -> lookup t rs = Some r -> ev r = ev t.
  Proof.
    induction rs as [|x rest IH]; simpl; intros Hf H; [discriminate|].
    inversion Hf; subst.
    destruct (texpr_eqb t (rule_lhs x)) eqn:Eq.
    - inversion H; subst. apply texpr_eqb_eq in Eq. subst t. symmetry. assumption.
    - auto.
  Qed.

  Lemma rewrite_sound rs : Forall rule_true rs -> forall t, ev (rewrite rs t) = ev t.
  Proof.
    intros Hf. induction t; try reflexivity;
      try (unfold DField.ev in *; simpl; congruence).
    (* TFn *)
    change (rewrite rs (TFn f t)) with
      (match lookup (TFn f t) rs with Some r => r | None => TFn f (rewrite rs t) end).
    destruct (lookup (TFn f t) rs) as [r|] eqn:El.
    - eapply lookup_sound; eauto.
    - unfold DField.ev in *. simpl. congruence.
  Qed.

  (* where a rule is applicable *)
  Definition rule_cond (r : rule) : Prop :=
    match r with
    | RCong _ b a => dok S b a
    | RScaleUp k b a => dok S b (TMul (ksq k) a) /\ Edom S Fsqrt (ev a) /\ Edom S Fsqrt (ev b)
    | RScaleDown k b a => dok S (TMul (ksq k) b) a /\ Edom S Fsqrt (ev a) /\ Edom S Fsqrt (ev b) /\ nm (Zpos k) <> 0
    end.

  Lemma ev_ksq_mul k a : ev (TMul (ksq k) a) = nm (Zpos (k * k)) * ev a.
  Proof. reflexivity. Qed.

  Lemma rule_sound r : rule_valid r = true -> rule_cond r -> rule_true r.
  Proof.
    destruct r as [f b a|k b a|k b a]; unfold rule_true; simpl; intros Hv Hc.
    - change (E S f (ev b) = E S f (ev a)). f_equal. now apply ev_tequiv.
    - destruct Hc as (Hd & Ha & Hb).
      assert (Eb : ev b = nm (Zpos (k * k)) * ev a) by (rewrite <- ev_ksq_mul; now apply ev_tequiv).
      change (E S Fsqrt (ev b) = nm (Zpos k) * E S Fsqrt (ev a)).
      rewrite Eb in *. now apply H_sqrt_scale.
    - destruct Hc as (Hd & Ha & Hb & Hk).
      assert (Ea : nm (Zpos (k * k)) * ev b = ev a) by (rewrite <- ev_ksq_mul; now apply ev_tequiv).
      change (E S Fsqrt (ev b) = E S Fsqrt (ev a) / nm (Zpos k)).
      rewrite <- Ea in *. rewrite H_sqrt_scale by assumption. field. exact Hk.
  Qed.

  (* ---------------------------------------------------------------- polynomial relations *)
  Definition hyp_cond (h : hyp) : Prop :=
    match h with
    | HTrig a => Edom S Fsin (ev a)
    | HSqrt a => Edom S Fsqrt (ev a)
    end.

  Lemma hyp_sound h : hyp_cond h -> ev (fst (hyp_pair h)) = ev (snd (hyp_pair h)).
  Proof.
    destruct h as [a|a]; simpl; intros Hc.
    - change (E S Fsin (ev a) * E S Fsin (ev a) = 1 - E S Fcos (ev a) * E S Fcos (ev a)).
      rewrite <- (H_trig (ev a) Hc). ring.
    - change (E S Fsqrt (ev a) * E S Fsqrt (ev a) = ev a). now apply H_sqrt.
  Qed.

  (* ---------------------------------------------------------------- equality modulo a plan *)
  Definition plan_cond (P : plan) : Prop := Forall rule_cond (p_rules P) /\ Forall hyp_cond (p_hyps P).

  Definition teq_ok (P : plan) (a b : texpr) : Prop :=
    dokh (map hyp_pair (p_hyps P)) (rewrite (p_rules P) a) (rewrite (p_rules P) b).

  Lemma plan_rules_true P : plan_valid P = true -> plan_cond P -> Forall rule_true (p_rules P).
  Proof.
    unfold plan_valid, plan_cond. intros Hv [Hr _]. rewrite forallb_forall in Hv.
    rewrite Forall_forall in *. intros r Hin. apply rule_sound; auto.
  Qed.

  Lemma plan_hyps_ok P : plan_cond P -> hyps_ok (map hyp_pair (p_hyps P)).
  Proof.
    intros [_ Hh]. unfold hyps_ok. rewrite Forall_forall in *. intros h Hin.
    apply in_map_iff in Hin. destruct Hin as [x [<- Hx]]. apply hyp_sound. auto.
  Qed.

  Theorem teq_sound P a b :
    plan_valid P = true -> plan_cond P -> teq P a b = true -> teq_ok P a b -> ev a = ev b.
  Proof.
    intros Hv Hc Ht Hd.
    pose proof (plan_rules_true P Hv Hc) as Hr.
    rewrite <- (rewrite_sound _ Hr a), <- (rewrite_sound _ Hr b).
    eapply ev_tequiv_hyps; eauto. now apply plan_hyps_ok.
  Qed.

  Lemma mat_teq_sound P A B :
    plan_valid P = true -> plan_cond P ->
    all2 (all2 (teq P)) A B = true -> all2P (all2P (teq_ok P)) A B -> evm A = evm B.
  Proof.
    intros Hv Hc. unfold evm. apply all2_map_eq. intros r s. apply all2_map_eq.
    intros x y. now apply teq_sound.
  Qed.

  (* ---------------------------------------------------------------- the reference Jacobian *)
  Definition D_matrix (ldim : nat) (xs : list texpr) : list (list (F S)) :=
    map (fun x => map (fun j => D S true j (ev x)) (seq 0 ldim)) xs.

  Lemma jac_row_sound x : dfd S x -> forall js r,
    sequence (map (fun j => tD true j x) js) = Some r -> map ev r = map (fun j => D S true j (ev x)) js.
  Proof.
    intros Hd. induction js as [|j js IH]; simpl; intros r H.
    - inversion H. reflexivity.
    - destruct (tD true j x) as [d|] eqn:Ed; try discriminate.
      destruct (sequence (map (fun j0 => tD true j0 x) js)) as [r'|]; try discriminate.
      inversion H; subst. simpl. f_equal; auto. now apply ev_tD.
  Qed.

  Lemma jac_ref_sound ldim : forall xs R,
    jac_ref ldim xs = Some R -> Forall (dfd S) xs -> evm R = D_matrix ldim xs.
  Proof.
    unfold jac_ref, D_matrix, evm. induction xs as [|x xs IH]; simpl; intros R H Hd.
    - inversion H. reflexivity.
    - destruct (sequence (map (fun j => tD true j x) (seq 0 ldim))) as [r|] eqn:Er; try discriminate.
      destruct (sequence (map (fun x0 => sequence (map (fun j => tD true j x0) (seq 0 ldim))) xs)) as [R'|]; try discriminate.
      inversion H; subst. inversion Hd; subst. simpl. f_equal; auto.
      now apply jac_row_sound.
  Qed.

  (* ---------------------------------------------------------------- the statement *)
  (* the stored quantities of an entry are coherent in S *)
  Definition coherent (e : entry) : Prop :=
    let J := evm (e_jac e) in
    J = D_matrix (e_ldim e) (e_expr e)
    /\ match e_jinv e with
       | Some Ji => f_mmul (e_pdim e) J (evm Ji) = f_identity (e_pdim e)
                    /\ f_mmul (e_ldim e) (evm Ji) J = f_identity (e_ldim e)
       | None => e_ldim e < e_pdim e
       end
    /\ evm (e_metric e) = f_gram (e_ldim e) J
    /\ ev (e_mdet e) = f_det (e_ldim e) (f_gram (e_ldim e) J).

  (* where: the coordinate expressions are defined, the compositions sin(a), sqrt(a) used by the
     relations exist, and the denominators met by the field normaliser do not vanish *)
  Definition side_conditions (e : entry) : Prop :=
    let P := mkplan e in
    Forall (dfd S) (e_expr e)
    /\ plan_cond P
    /\ match jac_ref (e_ldim e) (e_expr e) with
       | Some R => all2P (all2P (teq_ok P)) (e_jac e) R
       | None => True
       end
    /\ match e_jinv e with
       | Some Ji => all2P (all2P (teq_ok P)) (t_mmul (e_pdim e) (e_jac e) Ji) (t_identity (e_pdim e))
                    /\ all2P (all2P (teq_ok P)) (t_mmul (e_ldim e) Ji (e_jac e)) (t_identity (e_ldim e))
       | None => True
       end
    /\ all2P (all2P (teq_ok P)) (e_metric e) (t_gram (e_ldim e) (e_jac e))
    /\ teq_ok P (e_mdet e) (t_det (e_ldim e) (t_gram (e_ldim e) (e_jac e))).

  Theorem check_entry_sound e : check_entry e = true -> side_conditions e -> coherent e.
  Proof.
    unfold check_entry, check_parts, side_conditions, coherent. simpl forallb.
    set (P := mkplan e). intros Hc (Hdf & Hpc & C1 & C2 & C3 & C4).
    repeat (apply andb_true_iff in Hc; destruct Hc as [?H Hc]).
    apply andb_true_iff in H. destruct H as [Hshape Hv].
    assert (HJ : evm (e_jac e) = D_matrix (e_ldim e) (e_expr e)).
    { unfold chk_jac in H0. destruct (jac_ref (e_ldim e) (e_expr e)) as [R|] eqn:ER; [|discriminate].
      rewrite <- (jac_ref_sound _ _ _ ER Hdf). eapply mat_teq_sound; eauto. }
    split; [exact HJ|]. split; [|split].
    - unfold chk_inv in H1. unfold chk_shape in Hshape.
      destruct (e_jinv e) as [Ji|].
      + apply andb_true_iff in H1. destruct H1 as [Ha Hb]. destruct C2 as [C2a C2b]. split.
        * rewrite <- ev_mmul, <- ev_identity. eapply mat_teq_sound; eauto.
        * rewrite <- ev_mmul, <- ev_identity. eapply mat_teq_sound; eauto.
      + apply andb_true_iff in Hshape. destruct Hshape as [_ Hlt]. now apply Nat.ltb_lt in Hlt.
    - rewrite <- ev_gram. eapply mat_teq_sound; eauto.
    - rewrite <- ev_gram, <- ev_det. eapply teq_sound; eauto.
  Qed.

  (* ---------------------------------------------------------------- classes that supply their own matrices *)
  Definition inverse_ok (e : entry) : Prop :=
    match e_jinv e with
    | Some Ji => f_mmul (e_pdim e) (evm (e_jac e)) (evm Ji) = f_identity (e_pdim e)
                 /\ f_mmul (e_ldim e) (evm Ji) (evm (e_jac e)) = f_identity (e_ldim e)
    | None => e_ldim e < e_pdim e
    end.

  Definition inv_is (e : entry) (Gi : list (list texpr)) : Prop :=
    exists m, e_jinv e = Some m /\ evm m = evm Gi.

  (* the stored matrix of the arm is, as a matrix of field elements, the supplied one *)
  Definition stored_as_supplied (s : supplied) (e : entry) : Prop :=
    match s with
    | SupNone => evm (e_jac e) = D_matrix (e_ldim e) (e_expr e)
    | SupJac G => evm (e_jac e) = evm G
    | SupInv Gi => inv_is e Gi
    | SupBoth G Gi => evm (e_jac e) = evm G /\ inv_is e Gi
    end.

  (* what the object exposes: the supplied matrix, unchanged; the other matrix of the pair is its inverse whenever
     the arm computes it; metric and determinant are those of the stored Jacobian *)
  Definition exposes (s : supplied) (e : entry) : Prop :=
    stored_as_supplied s e
    /\ (derives_inverse s = true -> inverse_ok e)
    /\ evm (e_metric e) = f_gram (e_ldim e) (evm (e_jac e))
    /\ ev (e_mdet e) = f_det (e_ldim e) (f_gram (e_ldim e) (evm (e_jac e))).

  Definition same_mat_ok (P : plan) (A B : list (list texpr)) : Prop := all2P (all2P (teq_ok P)) A B.

  Definition same_inv_ok (P : plan) (e : entry) (Gi : list (list texpr)) : Prop :=
    match e_jinv e with Some m => same_mat_ok P m Gi | None => True end.

  Definition sup_conditions (s : supplied) (e : entry) : Prop :=
    let P := mkplan_sup e s in
    Forall (dfd S) (e_expr e)
    /\ plan_cond P
    /\ match s with
       | SupNone => match jac_ref (e_ldim e) (e_expr e) with
                    | Some R => same_mat_ok P (e_jac e) R
                    | None => True
                    end
       | SupJac G => same_mat_ok P (e_jac e) G
       | SupInv Gi => same_inv_ok P e Gi
       | SupBoth G Gi => same_mat_ok P (e_jac e) G /\ same_inv_ok P e Gi
       end
    /\ match e_jinv e with
       | Some Ji => same_mat_ok P (t_mmul (e_pdim e) (e_jac e) Ji) (t_identity (e_pdim e))
                    /\ same_mat_ok P (t_mmul (e_ldim e) Ji (e_jac e)) (t_identity (e_ldim e))
       | None => True
       end
    /\ same_mat_ok P (e_metric e) (t_gram (e_ldim e) (e_jac e))
    /\ teq_ok P (e_mdet e) (t_det (e_ldim e) (t_gram (e_ldim e) (e_jac e))).

  Lemma same_inv_sound P e Gi :
    plan_valid P = true -> plan_cond P -> same_inv P e Gi = true -> same_inv_ok P e Gi -> inv_is e Gi.
  Proof.
    unfold same_inv, same_inv_ok, inv_is. intros Hv Hc. destruct (e_jinv e) as [m|]; [|discriminate].
    intros H Hd. exists m. split; [reflexivity|]. eapply mat_teq_sound; eauto.
  Qed.

  Theorem check_supplied_sound s e : check_supplied s e = true -> sup_conditions s e -> exposes s e.
  Proof.
    unfold check_supplied, sup_conditions, exposes.
    set (P := mkplan_sup e s). intros Hc (Hdf & Hpc & C1 & C2 & C3 & C4).
    apply andb_true_iff in Hc. destruct Hc as [Hc H].
    apply andb_true_iff in Hc. destruct Hc as [Hc H0].
    apply andb_true_iff in Hc. destruct Hc as [Hc H1].
    apply andb_true_iff in Hc. destruct Hc as [Hc H2].
    apply andb_true_iff in Hc. destruct Hc as [Hshape Hv].
    split; [|split; [|split]].
    - destruct s as [|G|Gi|G Gi]; simpl in *.
      + unfold chk_jac in H2. destruct (jac_ref (e_ldim e) (e_expr e)) as [R|] eqn:ER; [|discriminate].
        rewrite <- (jac_ref_sound _ _ _ ER Hdf). eapply mat_teq_sound; eauto.
      + eapply mat_teq_sound; eauto.
      + eapply same_inv_sound; eauto.
      + apply andb_true_iff in H2. destruct H2 as [Ha Hb]. destruct C1 as [C1a C1b]. split.
        * eapply mat_teq_sound; eauto.
        * eapply same_inv_sound; eauto.
    - intros Hd. rewrite Hd in H1. simpl in H1. unfold chk_inv in H1. unfold chk_shape in Hshape. unfold inverse_ok.
      destruct (e_jinv e) as [Ji|].
      + apply andb_true_iff in H1. destruct H1 as [Ha Hb]. destruct C2 as [C2a C2b]. split.
        * rewrite <- ev_mmul, <- ev_identity. eapply mat_teq_sound; eauto.
        * rewrite <- ev_mmul, <- ev_identity. eapply mat_teq_sound; eauto.
      + apply andb_true_iff in Hshape. destruct Hshape as [_ Hlt]. now apply Nat.ltb_lt in Hlt.
    - rewrite <- ev_gram. eapply mat_teq_sound; eauto.
    - rewrite <- ev_gram, <- ev_det. eapply teq_sound; eauto.
  Qed.

  (* a class that supplies the TRUE Jacobian of its expressions gets a coherent object ... *)
  Theorem supplied_consistent_coherent G e :
    exposes (SupJac G) e -> evm G = D_matrix (e_ldim e) (e_expr e) -> coherent e.
  Proof.
    unfold exposes, coherent, inverse_ok. simpl. intros (Hs & Hi & Hm & Hd) HG.
    split; [congruence|]. split; [exact (Hi eq_refl)|]. split; assumption.
  Qed.

  (* ... and a class that supplies another matrix is not repaired: the object exposes exactly that matrix (so its
     Jacobian is NOT the derivative of the expressions), together with its true inverse, its Gram matrix and the
     determinant of that - one inconsistency (the user's), no second one *)
  Theorem supplied_inconsistent_kept G e :
    exposes (SupJac G) e -> evm G <> D_matrix (e_ldim e) (e_expr e) ->
    evm (e_jac e) = evm G /\ evm (e_jac e) <> D_matrix (e_ldim e) (e_expr e) /\ inverse_ok e
    /\ evm (e_metric e) = f_gram (e_ldim e) (evm (e_jac e))
    /\ ev (e_mdet e) = f_det (e_ldim e) (f_gram (e_ldim e) (evm (e_jac e))).
  Proof.
    unfold exposes. simpl. intros (Hs & Hi & Hm & Hd) HG.
    split; [assumption|]. split; [congruence|]. split; [exact (Hi eq_refl)|]. split; assumption.
  Qed.

  (* ---------------------------------------------------------------- the pinned reference definitions *)
  Definition ref_conditions (tbl : list (string * list texpr)) (e : entry) : Prop :=
    match lookup_ref (e_name e) tbl with
    | None => True
    | Some r => let P := mkplan_terms (e_expr e ++ r) in plan_cond P /\ all2P (teq_ok P) (e_expr e) r
    end.

  (* the coordinate functions of the entry ARE the reference ones *)
  Definition matches_ref (tbl : list (string * list texpr)) (e : entry) : Prop :=
    match lookup_ref (e_name e) tbl with
    | None => True
    | Some r => map ev (e_expr e) = map ev r
    end.

  Theorem chk_ref_sound tbl e : chk_ref tbl e = true -> ref_conditions tbl e -> matches_ref tbl e.
  Proof.
    unfold chk_ref, ref_conditions, matches_ref. destruct (lookup_ref (e_name e) tbl) as [r|]; auto.
    intros H [Hc Hd]. apply andb_true_iff in H. destruct H as [Hv Ha].
    revert Ha Hd. apply all2_map_eq. intros x y. now apply teq_sound.
  Qed.
End Cat.

(* ------------------------------------------------------------------ non-vacuity: two hand-written samples *)
(* The side conditions are a computed proposition; on concrete entries they reduce to the expected
   "denominators do not vanish" (what the real objects store for  x = a11*x1 + c1  and for the unit polar map,
   pasted from the serialiser's output). *)
Local Open Scope string_scope.
Definition sample_affine : entry := Eval vm_compute in
  mk_entry "sample_affine" 1 1
    [SAdd [SMul [SAt (AConst "a11"); SAt (ACoord true 0)]; SAt (AConst "c1")]]
    [[SAt (AConst "a11")]] (Some [[SPow (SAt (AConst "a11")) (sZ (-1))]])
    [[SPow (SAt (AConst "a11")) (sZ 2)]] (SPow (SAt (AConst "a11")) (sZ 2)).

Definition sample_polar : entry := Eval vm_compute in
  mk_entry "sample_polar" 2 2
    [(SMul [(SAt (ACoord true 0)); (SFn Fcos (SAt (ACoord true 1)))]); (SMul [(SAt (ACoord true 0)); (SFn Fsin (SAt (ACoord true 1)))])]
    [[(SFn Fcos (SAt (ACoord true 1))); (SMul [(SNum (-1)%Z 1%positive); (SAt (ACoord true 0)); (SFn Fsin (SAt (ACoord true 1)))])]; [(SFn Fsin (SAt (ACoord true 1))); (SMul [(SAt (ACoord true 0)); (SFn Fcos (SAt (ACoord true 1)))])]]
    (Some [[(SMul [(SPow (SAdd [(SPow (SFn Fcos (SAt (ACoord true 1))) (SNum (2)%Z 1%positive)); (SPow (SFn Fsin (SAt (ACoord true 1))) (SNum (2)%Z 1%positive))]) (SNum (-1)%Z 1%positive)); (SFn Fcos (SAt (ACoord true 1)))]); (SMul [(SPow (SAdd [(SPow (SFn Fcos (SAt (ACoord true 1))) (SNum (2)%Z 1%positive)); (SPow (SFn Fsin (SAt (ACoord true 1))) (SNum (2)%Z 1%positive))]) (SNum (-1)%Z 1%positive)); (SFn Fsin (SAt (ACoord true 1)))])]; [(SMul [(SNum (-1)%Z 1%positive); (SPow (SAdd [(SMul [(SAt (ACoord true 0)); (SPow (SFn Fcos (SAt (ACoord true 1))) (SNum (2)%Z 1%positive))]); (SMul [(SAt (ACoord true 0)); (SPow (SFn Fsin (SAt (ACoord true 1))) (SNum (2)%Z 1%positive))])]) (SNum (-1)%Z 1%positive)); (SFn Fsin (SAt (ACoord true 1)))]); (SMul [(SPow (SAdd [(SMul [(SAt (ACoord true 0)); (SPow (SFn Fcos (SAt (ACoord true 1))) (SNum (2)%Z 1%positive))]); (SMul [(SAt (ACoord true 0)); (SPow (SFn Fsin (SAt (ACoord true 1))) (SNum (2)%Z 1%positive))])]) (SNum (-1)%Z 1%positive)); (SFn Fcos (SAt (ACoord true 1)))])]])
    [[(SAdd [(SPow (SFn Fcos (SAt (ACoord true 1))) (SNum (2)%Z 1%positive)); (SPow (SFn Fsin (SAt (ACoord true 1))) (SNum (2)%Z 1%positive))]); (SNum (0)%Z 1%positive)]; [(SNum (0)%Z 1%positive); (SAdd [(SMul [(SPow (SAt (ACoord true 0)) (SNum (2)%Z 1%positive)); (SPow (SFn Fcos (SAt (ACoord true 1))) (SNum (2)%Z 1%positive))]); (SMul [(SPow (SAt (ACoord true 0)) (SNum (2)%Z 1%positive)); (SPow (SFn Fsin (SAt (ACoord true 1))) (SNum (2)%Z 1%positive))])])]]
    (SAdd [(SMul [(SPow (SAt (ACoord true 0)) (SNum (2)%Z 1%positive)); (SPow (SFn Fcos (SAt (ACoord true 1))) (SNum (4)%Z 1%positive))]); (SMul [(SPow (SAt (ACoord true 0)) (SNum (2)%Z 1%positive)); (SPow (SFn Fsin (SAt (ACoord true 1))) (SNum (4)%Z 1%positive))]); (SMul [(SNum (2)%Z 1%positive); (SPow (SAt (ACoord true 0)) (SNum (2)%Z 1%positive)); (SPow (SFn Fcos (SAt (ACoord true 1))) (SNum (2)%Z 1%positive)); (SPow (SFn Fsin (SAt (ACoord true 1))) (SNum (2)%Z 1%positive))])]).


Ltac dok_tac :=
  unfold teq_ok, dokh;
  repeat match goal with |- context [rewrite ?r ?a] => let x := fresh "x" in set (x := rewrite r a); vm_compute in x; subst x end;
  match goal with |- context [map hyp_pair ?a] => let x := fresh "x" in set (x := map hyp_pair a); vm_compute in x; subst x end;
  unfold denoms_ok_hyps;
  match goal with |- context [map _ (@app texpr ?a ?b)] => let tb := fresh "tb" in set (tb := @app texpr a b); vm_compute in tb; subst tb end;
  match goal with |- context [tconds_hyps ?h ?a ?b] => let cs := fresh "cs" in set (cs := tconds_hyps h a b); vm_compute in cs; subst cs end;
  cbv [pcond Field_theory.PCond map]; simpl.

Ltac side_tac e n :=
  unfold side_conditions;
  let P := fresh "P" in set (P := mkplan e); vm_compute in P; subst P;
  let R := fresh "R" in set (R := jac_ref _ _); vm_compute in R; subst R;
  cbv [e e_expr e_jac e_jinv e_metric e_mdet e_ldim e_pdim];
  let A := fresh "A" in
  set (A := t_mmul n _ _); vm_compute in A; subst A;
  set (A := t_mmul n _ _); vm_compute in A; subst A;
  set (A := t_identity _); vm_compute in A; subst A;
  set (A := t_gram _ _); vm_compute in A; subst A;
  set (A := t_det _ _); vm_compute in A; subst A;
  cbv [all2P]; unfold plan_cond; cbv [p_rules p_hyps];
  repeat match goal with |- _ /\ _ => split | |- True => exact I end.

Lemma sample_affine_checks : check_entry sample_affine = true.
Proof. vm_compute. reflexivity. Qed.

Lemma sample_affine_conditions (S : dfield) : cst S "a11" <> f0 S -> side_conditions S sample_affine.
Proof.
  intros Ha. side_tac sample_affine 1; try (repeat constructor; fail); dok_tac; auto.
Qed.

Lemma sample_polar_checks : check_entry sample_polar = true.
Proof. vm_compute. reflexivity. Qed.

Lemma sample_polar_conditions (S : dfield) :
  (forall a, Edom S Fsin a -> fadd S (fmul S (E S Fsin a) (E S Fsin a)) (fmul S (E S Fcos a) (E S Fcos a)) = f1 S) ->
  Edom S Fsin (crd S true 1) -> crd S true 0 <> f0 S -> side_conditions S sample_polar.
Proof.
  intros Htrig Hd Hx.
  assert (Hc : Edom S Fcos (crd S true 1)) by now apply Edom_sin_cos.
  assert (H1 : fadd S (fmul S (E S Fcos (crd S true 1)) (E S Fcos (crd S true 1)))
                      (fmul S (E S Fsin (crd S true 1)) (E S Fsin (crd S true 1))) <> f0 S).
  { pose proof (Htrig _ Hd) as Ht. pose proof (Field_theory.F_1_neq_0 (Fth S)) as H10.
    intros Hz. apply H10. rewrite <- Ht. rewrite <- Hz.
    apply (Ring_theory.Radd_comm (Field_theory.F_R (Fth S))). }
  assert (H2 : fadd S (fmul S (crd S true 0) (fmul S (E S Fcos (crd S true 1)) (E S Fcos (crd S true 1))))
                      (fmul S (crd S true 0) (fmul S (E S Fsin (crd S true 1)) (E S Fsin (crd S true 1)))) <> f0 S).
  { rewrite <- (Ring_theory.Rdistr_l (Field_theory.F_R (Fth S))) || idtac.
    intros Hz. apply (mul_nz S _ _ Hx H1).
    rewrite <- Hz.
    pose proof (Field_theory.F_R (Fth S)) as R.
    rewrite (Ring_theory.Rmul_comm R (crd S true 0)).
    rewrite (Ring_theory.Rdistr_l R).
    rewrite !(Ring_theory.Rmul_comm R _ (crd S true 0)). reflexivity. }
  side_tac sample_polar 2; try (repeat constructor; simpl; auto; fail); try dok_tac; auto.
Qed.

(* ------------------------------------------------------------------ the finite sweep over the generated catalogue *)
Import Gen.Catalogue Model.CatalogueRefM.

(* the translator recognised every statement of analytical_mapping.py and every class built *)
Lemma translation_complete : translation_ok = true.
Proof. vm_compute. reflexivity. Qed.

(* every entry (class x admissible dimension, symbolic parameters) passes the four checks *)
Lemma all_entries_check : forallb check_entry all_entries = true.
Proof. vm_compute. reflexivity. Qed.

(* every entry that has a pinned reference definition has (provably) those coordinate functions *)
Lemma all_entries_match_reference : forallb (chk_ref reference) all_entries = true.
Proof. vm_compute. reflexivity. Qed.

Theorem catalogue_matches_reference (S : dfield)
  (H_trig : forall a, Edom S Fsin a -> fadd S (fmul S (E S Fsin a) (E S Fsin a)) (fmul S (E S Fcos a) (E S Fcos a)) = f1 S)
  (H_sqrt : forall a, Edom S Fsqrt a -> fmul S (E S Fsqrt a) (E S Fsqrt a) = a)
  (H_sqrt_scale : forall (k : positive) a, Edom S Fsqrt a -> Edom S Fsqrt (fmul S (num S (Zpos (k * k))) a) ->
      E S Fsqrt (fmul S (num S (Zpos (k * k))) a) = fmul S (num S (Zpos k)) (E S Fsqrt a)) :
  forall e, In e all_entries -> ref_conditions S reference e -> matches_ref S reference e.
Proof.
  intros e Hin. apply chk_ref_sound; auto.
  pose proof all_entries_match_reference as H. rewrite forallb_forall in H. auto.
Qed.

Theorem catalogue_coherent (S : dfield)
  (H_trig : forall a, Edom S Fsin a -> fadd S (fmul S (E S Fsin a) (E S Fsin a)) (fmul S (E S Fcos a) (E S Fcos a)) = f1 S)
  (H_sqrt : forall a, Edom S Fsqrt a -> fmul S (E S Fsqrt a) (E S Fsqrt a) = a)
  (H_sqrt_scale : forall (k : positive) a, Edom S Fsqrt a -> Edom S Fsqrt (fmul S (num S (Zpos (k * k))) a) ->
      E S Fsqrt (fmul S (num S (Zpos (k * k))) a) = fmul S (num S (Zpos k)) (E S Fsqrt a)) :
  forall e, In e all_entries -> side_conditions S e -> coherent S e.
Proof.
  intros e Hin. apply check_entry_sound; auto.
  pose proof all_entries_check as H. rewrite forallb_forall in H. auto.
Qed.
