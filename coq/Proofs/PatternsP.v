(* Lemmas about the name-pattern models (C20). *)
From Coq Require Import String Ascii List Bool Arith PeanoNat ZArith Lia.
From V Require Import Model.PatternsM.
Import ListNotations.
Open Scope list_scope.

(* ------------------------------------------------------------------ generalities *)
(* the property quantifies over seq not given / True / False *)
Definition seq_in_scope (s : seqarg) : Prop :=
  match s with SeqAbsent | SeqBool _ => True | _ => False end.

Section pat_induction.
  Variable P : pat -> Prop.
  Hypothesis Hs : forall s, P (PStr s).
  Hypothesis Hb : P PBad.
  Hypothesis Hl : forall k l, Forall P l -> P (PSeq k l).
  Fixpoint pat_ind' (p : pat) : P p :=
    match p with
    | PStr s => Hs s
    | PBad => Hb
    | PSeq k l => Hl k l ((fix go (l : list pat) : Forall P l :=
                             match l with
                             | [] => Forall_nil P
                             | x :: r => Forall_cons x (pat_ind' x) (go r)
                             end) l)
    end.
End pat_induction.

Fixpoint map_res {A B} (f : A -> result B) (l : list A) : result (list B) :=
  match l with
  | [] => Ok []
  | x :: r => match f x with
              | Err e => Err e
              | Ok o => match map_res f r with Err e => Err e | Ok os => Ok (o :: os) end
              end
  end.

Lemma map_res_ext {A B} (f g : A -> result B) l :
  Forall (fun x => f x = g x) l -> map_res f l = map_res g l.
Proof. induction 1; simpl; [reflexivity|]. rewrite H, IHForall. reflexivity. Qed.

Definition wrap (k : ckind) (r : result (list out)) : result out :=
  match r with Err e => Err e | Ok os => Ok (OSeq k os) end.

Lemma expand_A_seq k l seq :
  expand_A (PSeq k l) seq = wrap k (map_res (fun q => expand_A q SeqAbsent) l).
Proof.
  simpl. unfold wrap.
  match goal with |- match ?a with _ => _ end = match ?b with _ => _ end => assert (E : a = b) end.
  { induction l as [|q r IH]; simpl; [reflexivity|]. rewrite IH. reflexivity. }
  rewrite E. reflexivity.
Qed.
Lemma symbols_B_seq k l seq :
  symbols_B (PSeq k l) seq = wrap k (map_res (fun q => symbols_B q seq) l).
Proof.
  simpl. unfold wrap.
  match goal with |- match ?a with _ => _ end = match ?b with _ => _ end => assert (E : a = b) end.
  { induction l as [|q r IH]; simpl; [reflexivity|]. rewrite IH. reflexivity. }
  rewrite E. reflexivity.
Qed.

(* ------------------------------------------------------------------ strings *)
(* the two functions differ on a string only in how `seq` is read *)
Definition resolve_A (seq : seqarg) (as_seq : bool) : result bool :=
  match seq with SeqAbsent | SeqNone => Ok as_seq | SeqBool b => Ok b | SeqOther _ => Err TypeErr end.
Definition resolve_B (seq : seqarg) (as_seq : bool) : bool :=
  match seq with SeqAbsent => as_seq | SeqNone => false | SeqBool b => b | SeqOther t => t end.

Lemma resolve_equal seq as_seq : seq_in_scope seq -> resolve_A seq as_seq = Ok (resolve_B seq as_seq).
Proof. destruct seq; simpl; intros H; try contradiction; reflexivity. Qed.

Theorem str_equal : forall s seq, seq_in_scope seq -> expand_str_A s seq = symbols_str_B s seq.
Proof.
  intros s seq H. unfold expand_str_A, symbols_str_B.
  destruct seq; simpl in H; try contradiction; reflexivity.
Qed.

Theorem string_equal : forall s seq, seq_in_scope seq -> expand_A (PStr s) seq = symbols_B (PStr s) seq.
Proof. intros. simpl. now apply str_equal. Qed.

(* outside the property's quantifier the two functions are known to differ *)
Open Scope string_scope.
Lemma seq_none_differs : expand_A (PStr "x,") SeqNone <> symbols_B (PStr "x,") SeqNone.
Proof. vm_compute. discriminate. Qed.
Lemma seq_nonbool_differs : expand_A (PStr "x") (SeqOther true) <> symbols_B (PStr "x") (SeqOther true).
Proof. vm_compute. discriminate. Qed.
Close Scope string_scope.

(* ------------------------------------------------------------------ nested inputs *)
Theorem nested_equal_absent : forall p, expand_A p SeqAbsent = symbols_B p SeqAbsent.
Proof.
  induction p using pat_ind'.
  - now apply string_equal.
  - reflexivity.
  - rewrite expand_A_seq, symbols_B_seq. f_equal. now apply map_res_ext.
Qed.

(* the strings that sit inside at least one container *)
Fixpoint all_strings (p : pat) : list string :=
  match p with
  | PStr s => [s]
  | PBad => []
  | PSeq _ l => flat_map all_strings l
  end.
Definition inner_strings (p : pat) : list string :=
  match p with PSeq _ l => flat_map all_strings l | _ => [] end.

Lemma symbols_B_insensitive p b :
  (forall s, In s (all_strings p) -> symbols_B (PStr s) (SeqBool b) = symbols_B (PStr s) SeqAbsent) ->
  symbols_B p (SeqBool b) = symbols_B p SeqAbsent.
Proof.
  induction p using pat_ind'; intros Hs.
  - apply Hs. simpl. auto.
  - reflexivity.
  - rewrite !symbols_B_seq. f_equal. apply map_res_ext.
    rewrite Forall_forall in *. intros q Hq. apply H; auto.
    intros s Hin. apply Hs. simpl. apply in_flat_map. eauto.
Qed.

(* full statement (false, see nested_seq_refuted):  forall p b, expand_A p (SeqBool b) = symbols_B p (SeqBool b) *)
Theorem nested_equal_partial : forall p b,
  (forall s, In s (inner_strings p) -> symbols_B (PStr s) (SeqBool b) = symbols_B (PStr s) SeqAbsent) ->
  expand_A p (SeqBool b) = symbols_B p (SeqBool b).
Proof.
  intros p b Hs. destruct p as [s| k l |].
  - now apply string_equal.
  - rewrite expand_A_seq, symbols_B_seq. f_equal. apply map_res_ext.
    apply Forall_forall. intros q Hq. rewrite nested_equal_absent. symmetry.
    apply symbols_B_insensitive. intros s Hin. apply Hs. simpl. apply in_flat_map. eauto.
  - reflexivity.
Qed.

(* the guard is also necessary whenever a value is returned: it is the minimal one *)
Lemma map_res_ok_inv {A B} (f g : A -> result B) l os :
  map_res f l = Ok os -> map_res g l = Ok os -> Forall (fun x => exists o, f x = Ok o /\ g x = Ok o) l.
Proof.
  revert os. induction l as [|x r IH]; intros os Hf Hg; simpl in *; [constructor|].
  destruct (f x) as [o|] eqn:Ef; [|discriminate]. destruct (map_res f r) as [os1|] eqn:E1; [|discriminate].
  destruct (g x) as [o'|] eqn:Eg; [|discriminate]. destruct (map_res g r) as [os2|] eqn:E2; [|discriminate].
  inversion Hf; subst. inversion Hg; subst. constructor; [eauto|]. eapply IH; eauto.
Qed.

Lemma symbols_B_sensitive p b o :
  symbols_B p SeqAbsent = Ok o -> symbols_B p (SeqBool b) = Ok o ->
  forall s, In s (all_strings p) -> symbols_B (PStr s) (SeqBool b) = symbols_B (PStr s) SeqAbsent.
Proof.
  revert o. induction p using pat_ind'; intros o H1 H2 s0 Hin.
  - simpl in Hin. destruct Hin as [<-|[]]. congruence.
  - contradiction.
  - rewrite symbols_B_seq in H1, H2. unfold wrap in *.
    destruct (map_res (fun q => symbols_B q SeqAbsent) l) as [os1|] eqn:E1; [|discriminate].
    destruct (map_res (fun q => symbols_B q (SeqBool b)) l) as [os2|] eqn:E2; [|discriminate].
    inversion H1; subst. inversion H2; subst.
    pose proof (map_res_ok_inv _ _ _ _ E1 E2) as F.
    simpl in Hin. apply in_flat_map in Hin. destruct Hin as [q [Hq Hs]].
    rewrite Forall_forall in H, F. destruct (F q Hq) as [oq [A B]]. eapply H; eauto.
Qed.

Theorem nested_guard_necessary : forall p b o,
  expand_A p (SeqBool b) = Ok o -> symbols_B p (SeqBool b) = Ok o ->
  forall s, In s (inner_strings p) -> symbols_B (PStr s) (SeqBool b) = symbols_B (PStr s) SeqAbsent.
Proof.
  intros p b o HA HB s Hin. destruct p as [s0|k l|]; simpl in Hin; try contradiction.
  rewrite expand_A_seq in HA. rewrite symbols_B_seq in HB. unfold wrap in *.
  destruct (map_res (fun q => expand_A q SeqAbsent) l) as [os1|] eqn:E1; [|discriminate].
  destruct (map_res (fun q => symbols_B q (SeqBool b)) l) as [os2|] eqn:E2; [|discriminate].
  inversion HA; subst. inversion HB; subst.
  pose proof (map_res_ok_inv _ _ _ _ E1 E2) as F. rewrite Forall_forall in F.
  apply in_flat_map in Hin. destruct Hin as [q [Hq Hs]]. destruct (F q Hq) as [oq [A B]].
  rewrite nested_equal_absent in A. eapply symbols_B_sensitive; eauto.
Qed.

Open Scope string_scope.
Theorem nested_seq_refuted :
  (exists p, expand_A p (SeqBool true) <> symbols_B p (SeqBool true)) /\
  (exists p, expand_A p (SeqBool false) <> symbols_B p (SeqBool false)).
Proof.
  split.
  - exists (PSeq CList [PStr "x"; PStr "y"]). vm_compute. discriminate.
  - exists (PSeq CList [PStr "x,"]). vm_compute. discriminate.
Qed.
Close Scope string_scope.

(* ------------------------------------------------------------------ elements *)
Section out_induction.
  Variable P : out -> Prop.
  Hypothesis Hn : forall s, P (OName s).
  Hypothesis Hl : forall k l, Forall P l -> P (OSeq k l).
  Fixpoint out_ind' (o : out) : P o :=
    match o with
    | OName s => Hn s
    | OSeq k l => Hl k l ((fix go (l : list out) : Forall P l :=
                             match l with
                             | [] => Forall_nil P
                             | x :: r => Forall_cons x (out_ind' x) (go r)
                             end) l)
    end.
End out_induction.

(* the names carried by the created functions, with their nesting *)
Fixpoint names_tree (e : elt) : out :=
  match e with
  | EFun _ n _ => OName n
  | ESeq c es => OSeq c (map names_tree es)
  end.
(* all names / all (name, space) pairs, left to right *)
Fixpoint flat_out (o : out) : list string :=
  match o with OName n => [n] | OSeq _ l => flat_map flat_out l end.
Fixpoint leaves (e : elt) : list (string * space) :=
  match e with EFun _ n s => [(n, s)] | ESeq _ es => flat_map leaves es end.

(* every function belongs to the corresponding space: the space itself for a scalar / vector
   space (of the matching kind); under a product the i-th entry lies in the i-th component
   space, with exactly one entry per component space *)
Inductive placed : space -> elt -> Prop :=
| P_fun : forall k nm n, placed (SBasic k nm) (EFun k n (SBasic k nm))
| P_prod : forall c spaces es, placed_zip spaces es -> placed (SProduct spaces) (ESeq c es)
| P_many : forall c k nm es, placed_all (SBasic k nm) es -> placed (SBasic k nm) (ESeq c es)
with placed_zip : list space -> list elt -> Prop :=
| PZ_nil : placed_zip [] []
| PZ_cons : forall s ss e es, placed s e -> placed_zip ss es -> placed_zip (s :: ss) (e :: es)
with placed_all : space -> list elt -> Prop :=
| PA_nil : forall s, placed_all s []
| PA_cons : forall s e es, placed s e -> placed_all s es -> placed_all s (e :: es).

Fixpoint zip_res (f : space -> out -> result elt) (ss : list space) (l : list out) : result (list elt) :=
  match ss, l with
  | s :: ss', n :: l' =>
      match f s n with
      | Err e => Err e
      | Ok x => match zip_res f ss' l' with Err e => Err e | Ok xs => Ok (x :: xs) end
      end
  | _, _ => Ok []
  end.
Definition wrapE (k : ckind) (r : result (list elt)) : result elt :=
  match r with Err e => Err e | Ok xs => Ok (ESeq k xs) end.

Lemma rec_element_of_seq k l sp :
  rec_element_of sp (OSeq k l) =
  match sp with
  | SProduct spaces => if negb (length l =? length spaces) then Err ValueErr
                       else wrapE k (zip_res rec_element_of spaces l)
  | SBasic _ _ => Err ValueErr
  end.
Proof.
  destruct sp as [kk nm|spaces]; [reflexivity|]. simpl. unfold wrapE.
  destruct (negb (length l =? length spaces)); [reflexivity|].
  match goal with |- match ?a with _ => _ end = match ?b with _ => _ end => assert (E : a = b) end.
  { generalize spaces as ss. induction l as [|n r IH]; intros [|s ss]; simpl; try reflexivity.
    rewrite IH. reflexivity. }
  rewrite E. reflexivity.
Qed.

Lemma rec_elements_of_seq k l sp :
  rec_elements_of sp (OSeq k l) =
  match sp with
  | SProduct spaces => if negb (length l =? length spaces) then Err ValueErr
                       else wrapE k (zip_res rec_elements_of spaces l)
  | SBasic _ _ => wrapE k (map_res (rec_elements_of sp) l)
  end.
Proof.
  destruct sp as [kk nm|spaces]; simpl; unfold wrapE.
  - match goal with |- match ?a with _ => _ end = match ?b with _ => _ end => assert (E : a = b) end.
    { induction l as [|n r IH]; simpl; [reflexivity|]. rewrite IH. reflexivity. }
    rewrite E. reflexivity.
  - destruct (negb (length l =? length spaces)); [reflexivity|].
    match goal with |- match ?a with _ => _ end = match ?b with _ => _ end => assert (E : a = b) end.
    { generalize spaces as ss. induction l as [|n r IH]; intros [|s ss]; simpl; try reflexivity.
      rewrite IH. reflexivity. }
    rewrite E. reflexivity.
Qed.

Lemma element_inv sp n e : element sp n = Ok e -> exists k nm, sp = SBasic k nm /\ e = EFun k n sp.
Proof. destruct sp; simpl; intros H; inversion H; eauto. Qed.

(* zip over a product with one entry per component: names and placement are preserved *)
Lemma zip_structure (f : space -> out -> result elt) l :
  Forall (fun n => forall sp e, f sp n = Ok e -> names_tree e = n /\ placed sp e) l ->
  forall ss xs, zip_res f ss l = Ok xs -> length l = length ss ->
  map names_tree xs = l /\ placed_zip ss xs.
Proof.
  induction 1 as [|n r Hn Hr IH]; intros ss xs Hz Hlen.
  - destruct ss; simpl in *; [|discriminate]. inversion Hz. split; constructor.
  - destruct ss as [|s ss]; simpl in Hlen; [discriminate|]. simpl in Hz.
    destruct (f s n) as [x|] eqn:E1; [|discriminate].
    destruct (zip_res f ss r) as [xs'|] eqn:E2; [|discriminate]. inversion Hz; subst.
    destruct (Hn _ _ E1) as [A B]. destruct (IH _ _ E2 ltac:(lia)) as [C D].
    simpl. split; [congruence|constructor; assumption].
Qed.

Lemma all_structure (f : space -> out -> result elt) sp l :
  Forall (fun n => forall sp e, f sp n = Ok e -> names_tree e = n /\ placed sp e) l ->
  forall xs, map_res (f sp) l = Ok xs ->
  map names_tree xs = l /\ placed_all sp xs.
Proof.
  induction 1 as [|n r Hn Hr IH]; intros xs Hz; simpl in *.
  - inversion Hz. split; constructor.
  - destruct (f sp n) as [x|] eqn:E1; [|discriminate].
    destruct (map_res (f sp) r) as [xs'|] eqn:E2; [|discriminate]. inversion Hz; subst.
    destruct (Hn _ _ E1) as [A B]. destruct (IH _ eq_refl) as [C D].
    simpl. split; [congruence|constructor; assumption].
Qed.

Theorem rec_element_of_structure : forall names sp e,
  rec_element_of sp names = Ok e -> names_tree e = names /\ placed sp e.
Proof.
  induction names using out_ind'; intros sp e He.
  - simpl in He. apply element_inv in He. destruct He as (k & nm & -> & ->). split; constructor.
  - rewrite rec_element_of_seq in He. destruct sp as [kk nm|spaces]; [discriminate|].
    destruct (length l =? length spaces) eqn:Hlen; simpl in He; [|discriminate]. apply Nat.eqb_eq in Hlen.
    unfold wrapE in He. destruct (zip_res rec_element_of spaces l) as [xs|] eqn:E; [|discriminate].
    inversion He; subst.
    destruct (zip_structure rec_element_of l H _ _ E Hlen) as [A B].
    simpl. split; [congruence|constructor; assumption].
Qed.

Theorem rec_elements_of_structure : forall names sp e,
  rec_elements_of sp names = Ok e -> names_tree e = names /\ placed sp e.
Proof.
  induction names using out_ind'; intros sp e He.
  - simpl in He. apply element_inv in He. destruct He as (k & nm & -> & ->). split; constructor.
  - rewrite rec_elements_of_seq in He. destruct sp as [kk nm|spaces]; unfold wrapE in He.
    + destruct (map_res (rec_elements_of (SBasic kk nm)) l) as [xs|] eqn:E; [|discriminate].
      inversion He; subst.
      destruct (all_structure rec_elements_of _ l H _ E) as [A B].
      simpl. split; [congruence|constructor; assumption].
    + destruct (length l =? length spaces) eqn:Hlen; simpl in He; [|discriminate]. apply Nat.eqb_eq in Hlen.
      destruct (zip_res rec_elements_of spaces l) as [xs|] eqn:E; [|discriminate].
      inversion He; subst.
      destruct (zip_structure rec_elements_of l H _ _ E Hlen) as [A B].
      simpl. split; [congruence|constructor; assumption].
Qed.

(* the two API functions: whenever elements are created they carry exactly the expanded names,
   in the same nesting, each in its corresponding space *)
Theorem element_of_structure : forall sp p names e,
  expand_A p SeqAbsent = Ok names -> element_of sp p = Ok e ->
  names_tree e = names /\ placed sp e.
Proof.
  intros sp p names e Hn He. unfold element_of in He. rewrite Hn in He.
  now apply rec_element_of_structure.
Qed.
Theorem elements_of_structure : forall sp p names e,
  expand_A p (SeqBool true) = Ok names -> elements_of sp p = Ok e ->
  names_tree e = names /\ placed sp e.
Proof.
  intros sp p names e Hn He. unfold elements_of in He. rewrite Hn in He.
  now apply rec_elements_of_structure.
Qed.

(* a number of names different from the number of component spaces is refused, never cut *)
Theorem length_mismatch_refused : forall c spaces l,
  length l <> length spaces ->
  rec_element_of (SProduct spaces) (OSeq c l) = Err ValueErr /\
  rec_elements_of (SProduct spaces) (OSeq c l) = Err ValueErr.
Proof.
  intros c spaces l H. rewrite rec_element_of_seq, rec_elements_of_seq.
  apply Nat.eqb_neq in H. rewrite H. split; reflexivity.
Qed.

Section elt_induction.
  Variable P : elt -> Prop.
  Hypothesis Hf : forall k n s, P (EFun k n s).
  Hypothesis Hs : forall c es, Forall P es -> P (ESeq c es).
  Fixpoint elt_ind' (e : elt) : P e :=
    match e with
    | EFun k n s => Hf k n s
    | ESeq c es => Hs c es ((fix go (l : list elt) : Forall P l :=
                               match l with
                               | [] => Forall_nil P
                               | x :: r => Forall_cons x (elt_ind' x) (go r)
                               end) es)
    end.
End elt_induction.

Lemma names_tree_flat e : flat_out (names_tree e) = map fst (leaves e).
Proof.
  induction e as [k n s|c es IH] using elt_ind'; simpl; [reflexivity|].
  induction IH as [|x r Hx Hr IHr]; simpl; [reflexivity|].
  rewrite map_app, Hx, IHr. reflexivity.
Qed.

(* no name is lost, none is invented, the order is kept *)
Corollary element_of_names : forall sp p names e,
  expand_A p SeqAbsent = Ok names -> element_of sp p = Ok e ->
  map fst (leaves e) = flat_out names.
Proof.
  intros. rewrite <- names_tree_flat.
  destruct (element_of_structure _ _ _ _ H H0) as [-> _]. reflexivity.
Qed.
Corollary elements_of_names : forall sp p names e,
  expand_A p (SeqBool true) = Ok names -> elements_of sp p = Ok e ->
  map fst (leaves e) = flat_out names.
Proof.
  intros. rewrite <- names_tree_flat.
  destruct (elements_of_structure _ _ _ _ H H0) as [-> _]. reflexivity.
Qed.

Open Scope string_scope.
(* for the record: before the repair f3da127, element_of(V*W, 'a,b,c') silently dropped c *)
Theorem element_structure_refuted_before_fix :
  exists sp p names e, expand_A p SeqAbsent = Ok names /\ element_of_before_fix sp p = Ok e /\
                       names_tree e <> names /\ map fst (leaves e) <> flat_out names.
Proof.
  exists (product_new [SBasic KScalar "V"; SBasic KVector "W"]), (PStr "a,b,c").
  eexists. eexists. split; [vm_compute; reflexivity|]. split; [vm_compute; reflexivity|].
  split; vm_compute; discriminate.
Qed.
Close Scope string_scope.

(* ---- products are flat, and under a flat product the result is literally the zip *)
Definition is_basic (s : space) : bool := match s with SBasic _ _ => true | _ => false end.
Definition flat_space (s : space) : bool :=
  match s with SBasic _ _ => true | SProduct l => forallb is_basic l end.
Definition comps (s : space) : list space := match s with SProduct l => l | _ => [s] end.

Lemma product_new_flat l : forallb flat_space l = true -> flat_space (product_new l) = true.
Proof.
  unfold product_new. simpl. induction l as [|v r IH]; simpl; [reflexivity|].
  intros H. apply andb_true_iff in H. destruct H as [Hv Hr]. rewrite forallb_app, (IH Hr), andb_true_r.
  destruct v; simpl in *; [reflexivity|assumption].
Qed.
Lemma product_new_comps l : comps (product_new l) = flat_map comps l.
Proof. reflexivity. Qed.
Theorem product_new_spec : forall l,
  forallb flat_space l = true ->
  flat_space (product_new l) = true /\ comps (product_new l) = flat_map comps l.
Proof. intros l H. exact (conj (product_new_flat l H) (product_new_comps l)). Qed.

Definition mkfun (sn : space * string) : elt :=
  match fst sn with
  | SBasic k _ => EFun k (snd sn) (fst sn)
  | SProduct _ => EFun KScalar (snd sn) (fst sn)   (* not used: components are basic *)
  end.

Lemma zip_res_names f spaces ns :
  (forall s n, is_basic s = true -> f s (OName n) = Ok (mkfun (s, n))) ->
  forallb is_basic spaces = true ->
  zip_res f spaces (map OName ns) = Ok (map mkfun (combine spaces ns)).
Proof.
  intros Hf. revert ns. induction spaces as [|s ss IH]; intros [|n ns] Hb; simpl in *; try reflexivity.
  apply andb_true_iff in Hb. destruct Hb as [Hs Hss].
  rewrite (Hf s n Hs), (IH ns Hss). reflexivity.
Qed.

(* one plain name per component space: the result is zip(spaces, names), it is never refused *)
Theorem element_of_is_zip : forall c spaces ns,
  forallb is_basic spaces = true -> length ns = length spaces ->
  rec_element_of (SProduct spaces) (OSeq c (map OName ns)) = Ok (ESeq c (map mkfun (combine spaces ns))) /\
  rec_elements_of (SProduct spaces) (OSeq c (map OName ns)) = Ok (ESeq c (map mkfun (combine spaces ns))).
Proof.
  intros c spaces ns Hb Hlen. rewrite rec_element_of_seq, rec_elements_of_seq. unfold wrapE.
  rewrite map_length, Hlen, Nat.eqb_refl. simpl.
  rewrite !zip_res_names; auto; intros s n Hs; destruct s; simpl in *; try discriminate; reflexivity.
Qed.

Lemma leaves_mkfun spaces ns :
  forallb is_basic spaces = true ->
  flat_map leaves (map mkfun (combine spaces ns)) = map (fun sn => (snd sn, fst sn)) (combine spaces ns).
Proof.
  revert ns. induction spaces as [|s ss IH]; intros [|n ns] Hb; simpl in *; try reflexivity.
  apply andb_true_iff in Hb. destruct Hb as [Hs Hss]. rewrite (IH ns Hss).
  destruct s; simpl in *; [reflexivity|discriminate].
Qed.

(* the (name, space) pairs are zip(names, component spaces): every name and every component
   space occurs, in order *)
Theorem element_of_leaves : forall c spaces ns e,
  forallb is_basic spaces = true ->
  rec_element_of (SProduct spaces) (OSeq c (map OName ns)) = Ok e ->
  leaves e = combine ns spaces /\ map fst (leaves e) = ns /\ map snd (leaves e) = spaces.
Proof.
  intros c spaces ns e Hb He.
  assert (Hlen : length ns = length spaces).
  { destruct (Nat.eq_dec (length ns) (length spaces)) as [E|N]; [assumption|].
    destruct (length_mismatch_refused c spaces (map OName ns)) as [R _]; [now rewrite map_length|].
    rewrite R in He. discriminate. }
  destruct (element_of_is_zip c spaces ns Hb Hlen) as [E _].
  rewrite E in He. inversion He; subst. simpl. rewrite leaves_mkfun by assumption.
  assert (Z : map (fun sn : space * string => (snd sn, fst sn)) (combine spaces ns) = combine ns spaces).
  { clear. revert ns. induction spaces as [|s ss IH]; intros [|n ns]; simpl; try reflexivity. now rewrite IH. }
  rewrite Z. split; [reflexivity|]. clear - Hlen. revert spaces Hlen.
  induction ns as [|n ns IH]; intros [|s ss] Hlen; simpl in *; try discriminate; [split; reflexivity|].
  destruct (IH ss ltac:(lia)) as [A B]. rewrite A, B. split; reflexivity.
Qed.

(* ------------------------------------------------------------------ the scanner is the regular expression *)
Lemma re_m_star a s k : re_m (RStar a) s k = star_with (re_m a) k (length s) s.
Proof. reflexivity. Qed.

(* greedy repetition of a character class: longest run first, then give back one at a time *)
Fixpoint try_back (k : str -> option str) (d r : str) : option str :=
  match d with
  | [] => k r
  | c :: d' => match try_back k d' r with Some x => Some x | None => k (c :: d' ++ r) end
  end.

Lemma span_app p s : fst (span p s) ++ snd (span p s) = s.
Proof. induction s as [|c r IH]; simpl; [reflexivity|]. destruct (p c); [|reflexivity].
  destruct (span p r). simpl in *. now rewrite IH. Qed.
Lemma span_all p s : forallb p (fst (span p s)) = true.
Proof. induction s as [|c r IH]; simpl; [reflexivity|]. destruct (p c) eqn:E; [|reflexivity].
  destruct (span p r). simpl in *. now rewrite E, IH. Qed.

Lemma star_with_S ma k f s :
  star_with ma k (S f) s =
  match ma s (fun s' => if length s' <? length s then star_with ma k f s' else None) with
  | Some x => Some x
  | None => k s
  end.
Proof. reflexivity. Qed.
Lemma re_m_char p s k :
  re_m (RChar p) s k = match s with c :: t => if p c then k t else None | [] => None end.
Proof. reflexivity. Qed.

Lemma re_m_cat a b s k : re_m (RCat a b) s k = re_m a s (fun s' => re_m b s' k).
Proof. reflexivity. Qed.

Lemma star_char p k : forall fuel s, length s <= fuel ->
  star_with (re_m (RChar p)) k fuel s = try_back k (fst (span p s)) (snd (span p s)).
Proof.
  induction fuel as [|f IH]; intros s Hlen.
  - destruct s; simpl in *; [reflexivity|lia].
  - rewrite star_with_S, re_m_char. destruct s as [|c t]; [reflexivity|]. simpl span.
    destruct (p c) eqn:Ep; [|reflexivity].
    assert (L : (length t <? length (c :: t)) = true) by (apply Nat.ltb_lt; simpl; lia).
    rewrite L, IH by (simpl in Hlen; lia).
    pose proof (span_app p t) as A. destruct (span p t) as [d r]. simpl in *. now rewrite A.
Qed.

Lemma try_back_some d r : try_back (fun x => Some x) d r = Some r.
Proof. induction d; simpl; [reflexivity|]. now rewrite IHd. Qed.

Lemma try_back_refused k d r :
  (forall c t, In c d -> k (c :: t) = None) -> try_back k d r = k r.
Proof.
  induction d as [|c d IH]; intros H; simpl; [reflexivity|].
  rewrite IH by (intros; apply H; simpl; auto). rewrite H by (simpl; auto). now destruct (k r).
Qed.

Lemma digit_not_colon c : is_digit c = true -> is_colon c = false.
Proof.
  unfold is_colon, ceq. destruct (Ascii.eqb c ":") eqn:E; [|reflexivity].
  apply Ascii.eqb_eq in E. subst. vm_compute. discriminate.
Qed.
Lemma letter_not_colon c : is_letter c = true -> is_colon c = false.
Proof.
  unfold is_colon, ceq. destruct (Ascii.eqb c ":") eqn:E; [|reflexivity].
  apply Ascii.eqb_eq in E. subst. vm_compute. discriminate.
Qed.

Lemma firstn_exact {A} (a b : list A) : firstn (length (a ++ b) - length b) (a ++ b) = a.
Proof.
  rewrite app_length. replace (length a + length b - length b) with (length a) by lia.
  rewrite firstn_app, Nat.sub_diag, firstn_all. simpl. apply app_nil_r.
Qed.

(* the two alternatives, as the matcher computes them *)
Definition alt1_re := RCat (RStar r_digit) (RCat r_colon (RCat r_digit (RStar r_digit))).
Definition alt2_re := RCat (RAlt r_letter REps) (RCat r_colon r_letter).

Lemma alt1_value s :
  re_m alt1_re s (fun x => Some x) =
  match snd (span is_digit s) with
  | c :: r2 => if is_colon c
               then match r2 with
                    | c2 :: u => if is_digit c2 then Some (snd (span is_digit u)) else None
                    | [] => None
                    end
               else None
  | [] => None
  end.
Proof.
  unfold alt1_re. rewrite re_m_cat, re_m_star. unfold r_digit at 1. rewrite star_char by lia.
  rewrite try_back_refused.
  - destruct (snd (span is_digit s)) as [|c r2]; rewrite re_m_cat; unfold r_colon; rewrite re_m_char; [reflexivity|].
    destruct (is_colon c); [|reflexivity]. rewrite re_m_cat. unfold r_digit at 1. rewrite re_m_char.
    destruct r2 as [|c2 u]; [reflexivity|].
    destruct (is_digit c2); [|reflexivity].
    rewrite re_m_star. unfold r_digit. rewrite star_char by lia. apply try_back_some.
  - intros c t Hc. rewrite re_m_cat. unfold r_colon. rewrite re_m_char. rewrite digit_not_colon; [reflexivity|].
    pose proof (span_all is_digit s) as A. rewrite forallb_forall in A. now apply A.
Qed.

Lemma alt2_value s :
  re_m alt2_re s (fun x => Some x) =
  match s with
  | l :: c :: e :: r =>
      if is_letter l && is_colon c && is_letter e then Some r
      else if is_colon l && is_letter c then Some (e :: r) else None
  | [c; e] => if is_colon c && is_letter e then Some [] else None
  | _ => None
  end.
Proof.
  destruct s as [|l [|c [|e r]]]; simpl.
  - reflexivity.
  - destruct (is_letter l), (is_colon l); reflexivity.
  - destruct (is_letter l) eqn:El; simpl.
    + rewrite (letter_not_colon l El). simpl. destruct (is_colon c); reflexivity.
    + destruct (is_colon l); [|reflexivity]. simpl. destruct (is_letter c); reflexivity.
  - destruct (is_letter l) eqn:El; simpl.
    + rewrite (letter_not_colon l El). simpl. destruct (is_colon c); simpl; [|reflexivity].
      destruct (is_letter e); reflexivity.
    + destruct (is_colon l); [|reflexivity]. simpl. destruct (is_letter c); reflexivity.
Qed.

Theorem match_range_correct : forall s, match_range s = re_match range_re s.
Proof.
  intros s. unfold re_match, range_re.
  change (re_m (RAlt ?a ?b) s ?k) with (match re_m a s k with Some x => Some x | None => re_m b s k end).
  fold alt1_re alt2_re. rewrite alt1_value, alt2_value. unfold match_range.
  pose proof (span_app is_digit s) as A. destruct (span is_digit s) as [d1 r1]. simpl in A. simpl snd.
  assert (ALT2 : forall (X : option (str * str)), X = None ->
    match X with
    | Some x => Some x
    | None =>
        match
          match s with
          | l :: c :: e :: r => if is_letter l && is_colon c && is_letter e then Some ([l; c; e], r) else None
          | _ => None
          end
        with
        | Some x => Some x
        | None => match s with
                  | c :: e :: r => if is_colon c && is_letter e then Some ([c; e], r) else None
                  | _ => None
                  end
        end
    end =
    match
      match s with
      | l :: c :: e :: r =>
          if is_letter l && is_colon c && is_letter e then Some r
          else if is_colon l && is_letter c then Some (e :: r) else None
      | [c; e] => if is_colon c && is_letter e then Some [] else None
      | _ => None
      end
    with
    | Some rest => Some (firstn (length s - length rest) s, rest)
    | None => None
    end).
  { intros X ->. clear. destruct s as [|l [|c [|e r]]]; try reflexivity.
    - destruct (is_colon l && is_letter c); [|reflexivity].
      change [l; c] with ([l; c] ++ []) at 2 3. now rewrite firstn_exact.
    - destruct (is_letter l && is_colon c && is_letter e).
      + change (l :: c :: e :: r) with ([l; c; e] ++ r). now rewrite firstn_exact.
      + destruct (is_colon l && is_letter c); [|reflexivity].
        change (l :: c :: e :: r) with ([l; c] ++ e :: r). now rewrite firstn_exact. }
  destruct r1 as [|c r2]; [exact (ALT2 None eq_refl)|].
  destruct (is_colon c); [|exact (ALT2 None eq_refl)].
  pose proof (span_app is_digit r2) as B.
  destruct r2 as [|c2 u]; [exact (ALT2 None eq_refl)|].
  simpl span in *. destruct (is_digit c2); [|exact (ALT2 None eq_refl)].
  destruct (span is_digit u) as [d2 r3]. simpl in B |- *.
  subst s. rewrite <- B.
  replace (d1 ++ c :: c2 :: d2 ++ r3) with ((d1 ++ c :: c2 :: d2) ++ r3)
    by (rewrite <- app_assoc; reflexivity).
  now rewrite firstn_exact.
Qed.

Corollary range_split_is_re_split : forall s, range_split s = re_split (re_match range_re) s.
Proof.
  intros s. unfold range_split, re_split. generalize (S (length s)) as fuel. generalize (@nil ascii) as acc.
  intros acc fuel. revert s acc.
  induction fuel as [|f IH]; intros s acc; simpl; [reflexivity|].
  destruct s as [|c r]; [reflexivity|]. rewrite <- match_range_correct.
  destruct (match_range (c :: r)) as [[m rest]|]; [now rewrite IH|apply IH].
Qed.

(* ------------------------------------------------------------------ the splitters *)
(* the in-place loop `names[i:i+1] = names[i].split()` from the last index down is a flat map *)
Lemma skipn_nth_cons {A} (l : list A) k d : k < length l -> skipn k l = nth k l d :: skipn (S k) l.
Proof.
  revert k. induction l as [|x r IH]; intros k Hk; simpl in *; [lia|].
  destruct k; [reflexivity|]. apply IH. lia.
Qed.

Lemma firstn_S_split {A} (l : list A) k d : k < length l -> firstn (S k) l = firstn k l ++ [nth k l d].
Proof.
  revert k. induction l as [|x r IH]; intros k Hk; simpl in *; [lia|].
  destruct k; [reflexivity|]. simpl. f_equal. apply IH. lia.
Qed.

Lemma ws_step_at (P X : list str) (x : str) k :
  length P = k -> ws_step (P ++ [x] ++ X) k = P ++ split_ws x ++ X.
Proof.
  intros <-. unfold ws_step. f_equal; [|f_equal].
  - rewrite firstn_app, Nat.sub_diag, firstn_all. simpl. apply app_nil_r.
  - rewrite app_nth2, Nat.sub_diag by lia. reflexivity.
  - replace (S (length P)) with (length (P ++ [x])) by (rewrite app_length; simpl; lia).
    rewrite app_assoc, skipn_app, Nat.sub_diag, skipn_all. reflexivity.
Qed.

Lemma ws_loop_inv names : forall m k, k + m = length names ->
  fold_right (fun i acc => ws_step acc i) names (seq k m) =
  firstn k names ++ flat_map split_ws (skipn k names).
Proof.
  induction m as [|m IH]; intros k Hk; simpl.
  - replace k with (length names) by lia. rewrite firstn_all, skipn_all. simpl. now rewrite app_nil_r.
  - rewrite IH by lia.
    assert (Hlt : k < length names) by lia.
    rewrite (firstn_S_split names k []) by lia. rewrite <- app_assoc.
    rewrite ws_step_at by (rewrite firstn_length; lia).
    rewrite (skipn_nth_cons names k []) by lia. reflexivity.
Qed.

Theorem ws_loop_flat_map : forall names, ws_loop names = flat_map split_ws names.
Proof.
  intros names. unfold ws_loop.
  pose proof (fold_left_rev_right (fun i acc => ws_step acc i) (rev (seq 0 (length names))) names) as E.
  rewrite rev_involutive in E. cbv beta in E.
  change (fold_left ws_step (rev (seq 0 (length names))) names = flat_map split_ws names) with
    (fold_left (fun x y => ws_step x y) (rev (seq 0 (length names))) names = flat_map split_ws names).
  rewrite <- E.
  rewrite (ws_loop_inv names (length names) 0) by lia. reflexivity.
Qed.

(* s.split(c): the pieces joined by c give s back, no piece contains c *)
Fixpoint join (sep : ascii) (l : list str) : str :=
  match l with
  | [] => []
  | [x] => x
  | x :: r => x ++ sep :: join sep r
  end.
Lemma split_char_nonempty sep s : split_char sep s <> [].
Proof. induction s as [|c r IH]; simpl; [discriminate|]. destruct (ceq c sep); [discriminate|].
  destruct (split_char sep r); [contradiction|discriminate]. Qed.
Theorem split_char_join : forall sep s, join sep (split_char sep s) = s.
Proof.
  intros sep s. induction s as [|c r IH]; simpl; [reflexivity|].
  pose proof (split_char_nonempty sep r) as NE.
  destruct (ceq c sep) eqn:E.
  - apply Ascii.eqb_eq in E. subst. destruct (split_char sep r) eqn:S; [contradiction|].
    simpl in *. now rewrite IH.
  - destruct (split_char sep r) as [|h t]; [contradiction|].
    simpl in *. destruct t; simpl in *; now rewrite <- IH.
Qed.
Theorem split_char_no_sep : forall sep s, Forall (fun p => mem sep p = false) (split_char sep s).
Proof.
  intros sep s. induction s as [|c r IH]; simpl; [repeat constructor|].
  destruct (ceq c sep) eqn:E; [constructor; [reflexivity|assumption]|].
  destruct (split_char sep r) as [|h t]; [repeat constructor; simpl|].
  - unfold ceq in *. rewrite Ascii.eqb_sym, E. reflexivity.
  - inversion IH; subst. constructor; [|assumption]. simpl. unfold ceq in *. now rewrite Ascii.eqb_sym, E.
Qed.

Theorem split_char_spec : forall sep s,
  join sep (split_char sep s) = s /\ Forall (fun p => mem sep p = false) (split_char sep s).
Proof. intros sep s. exact (conj (split_char_join sep s) (split_char_no_sep sep s)). Qed.

(* s.split(): non-empty pieces without whitespace *)
Lemma split_ws_aux_pieces : forall s cur,
  forallb (fun c => negb (is_space c)) cur = true ->
  Forall (fun p => p <> [] /\ forallb (fun c => negb (is_space c)) p = true) (split_ws_aux s cur).
Proof.
  induction s as [|c r IH]; intros cur Hcur; simpl.
  - destruct cur as [|x cur]; simpl; [constructor|]. constructor; [|constructor]. split.
    + intros E. apply (f_equal (@length _)) in E. rewrite app_length in E. simpl in E. lia.
    + change (rev cur ++ [x]) with (rev (x :: cur)). rewrite forallb_forall in *. intros y Hy. apply Hcur. now apply in_rev.
  - destruct (is_space c) eqn:E.
    + destruct cur as [|x cur]; simpl; [apply IH; reflexivity|]. constructor; [|apply IH; reflexivity]. split.
      * intros E'. apply (f_equal (@length _)) in E'. rewrite app_length in E'. simpl in E'. lia.
      * change (rev cur ++ [x]) with (rev (x :: cur)). rewrite forallb_forall in *. intros y Hy. apply Hcur. now apply in_rev.
    + apply IH. simpl. now rewrite E.
Qed.
Theorem split_ws_pieces : forall s,
  Forall (fun p => p <> [] /\ forallb (fun c => negb (is_space c)) p = true) (split_ws s).
Proof. intros. apply split_ws_aux_pieces. reflexivity. Qed.

(* range(a, b): exclusive upper bound *)
Theorem zrange_spec : forall a b x, In x (zrange a b) <-> (a <= x < b)%Z.
Proof.
  intros a b x. unfold zrange. rewrite in_map_iff. split.
  - intros [k [<- Hk]]. apply in_seq in Hk. lia.
  - intros H. exists (Z.to_nat (x - a)). split; [lia|]. apply in_seq. lia.
Qed.
Theorem zrange_length : forall a b, length (zrange a b) = Z.to_nat (b - a).
Proof. intros. unfold zrange. now rewrite map_length, seq_length. Qed.

(* cartes: one name per choice, the last range varies fastest *)
Theorem cartes_join_length : forall ls, length (cartes_join ls) = fold_right (fun l n => length l * n) 1 ls.
Proof.
  induction ls as [|l r IH]; simpl; [reflexivity|]. rewrite <- IH. clear IH.
  generalize (cartes_join r) as R. intros R.
  induction l as [|x l IH]; simpl; [reflexivity|]. rewrite app_length, map_length. f_equal. exact IH.
Qed.
Theorem cartes_join_single : forall l, cartes_join [l] = l.
Proof. induction l as [|x l IH]; simpl in *; [reflexivity|]. now rewrite app_nil_r, IH. Qed.
Theorem cartes_join_two : forall l1 l2,
  cartes_join [l1; l2] = flat_map (fun x => map (fun y => x ++ y) l2) l1.
Proof.
  intros. simpl. apply flat_map_ext. intros x. f_equal. apply cartes_join_single.
Qed.

(* result packing: a bare name exactly when seq is false and there is one name *)
Theorem pack_spec : forall res seq,
  pack res seq = match res, seq with
                 | [x], false => name_of x
                 | _, _ => OSeq CTuple (map name_of res)
                 end.
Proof. intros [|x [|y r]] [|]; reflexivity. Qed.
