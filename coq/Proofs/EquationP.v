(* Lemmas about the Equation / EssentialBC model (C18). *)
From Coq Require Import String Ascii List Bool Arith PeanoNat ZArith Lia Sorted Permutation.
From V Require Import Core.StrOrd Core.Canon Model.EquationM.
Import ListNotations.
Open Scope string_scope.
Open Scope list_scope.

(* ================================================================ expressions *)
Section LexprInd.
  Variable P : lexpr -> Prop.
  Hypothesis HFun : forall f, P (EFun f).
  Hypothesis HIdx : forall f i, P (EIdx f i).
  Hypothesis HNormal : forall n, P (ENormal n).
  Hypothesis HInt : forall z, P (EInt z).
  Hypothesis HSym : forall s, P (ESym s).
  Hypothesis HNode : forall h args, Forall P args -> P (ENode h args).
  Fixpoint lexpr_ind' (e : lexpr) : P e :=
    match e with
    | EFun f => HFun f
    | EIdx f i => HIdx f i
    | ENormal n => HNormal n
    | EInt z => HInt z
    | ESym s => HSym s
    | ENode h args =>
        HNode h args
          ((fix go (l : list lexpr) : Forall P l :=
              match l with
              | [] => Forall_nil P
              | x :: r => Forall_cons x (lexpr_ind' x) (go r)
              end) args)
    end.
End LexprInd.

Lemma fn_beq_eq a b : fn_beq a b = true <-> a = b.
Proof.
  unfold fn_beq. rewrite !andb_true_iff, !Nat.eqb_eq, String.eqb_eq, Bool.eqb_true_iff. split.
  - intros [[[[H1 H0] H2] H3] H4]. destruct a, b; simpl in *; congruence.
  - intros ->. auto.
Qed.

Lemma fn_beq_refl a : fn_beq a a = true.
Proof. now apply fn_beq_eq. Qed.

Lemma fn_eqb_refl a : fn_eqb a a = true.
Proof. unfold fn_eqb. apply Nat.eqb_refl. Qed.

(* the only three facts about == on functions that the proofs below use *)
Lemma fn_eqb_sym a b : fn_eqb a b = fn_eqb b a.
Proof. unfold fn_eqb. apply Nat.eqb_sym. Qed.

Lemma fn_eqb_id a b : fn_eqb a b = true -> f_id a = f_id b.
Proof. unfold fn_eqb. apply Nat.eqb_eq. Qed.

(* sympy's structural == on the modelled trees is Leibniz equality *)
Lemma lexpr_eqb_eq : forall a b, lexpr_eqb a b = true <-> a = b.
Proof.
  induction a as [f|f i|n|z|s|h args IH] using lexpr_ind'; intros b; destruct b as [g|g j|m|y|t|k brgs];
    simpl; try (split; [discriminate|intros H; discriminate H]).
  - rewrite fn_beq_eq. split; congruence.
  - rewrite andb_true_iff, fn_beq_eq, Nat.eqb_eq. split; [intros [-> ->]; reflexivity|intros H; inversion H; auto].
  - rewrite String.eqb_eq. split; congruence.
  - rewrite Z.eqb_eq. split; congruence.
  - rewrite String.eqb_eq. split; congruence.
  - rewrite andb_true_iff, String.eqb_eq.
    assert (K : forall m,
      (fix go (l m : list lexpr) : bool :=
         match l, m with
         | [], [] => true
         | x :: r, y :: s => lexpr_eqb x y && go r s
         | _, _ => false
         end) args m = true <-> args = m).
    { induction IH as [|x r Hx _ IHr]; intros [|y s0]; try (split; [discriminate|intros H; discriminate H]).
      - split; auto.
      - rewrite andb_true_iff, Hx, IHr. split; [intros [-> ->]; reflexivity|intros H; inversion H; auto]. }
    rewrite K. split; [intros [-> ->]; reflexivity|intros H; inversion H; auto].
Qed.

Lemma lexpr_eqb_refl a : lexpr_eqb a a = true.
Proof. now apply lexpr_eqb_eq. Qed.

(* the user may write the two operands of dot in either order *)
Lemma mk_dot_comm a b : may_mat a = false -> may_mat b = false -> show a <> show b -> mk_dot a b = mk_dot b a.
Proof.
  intros Ma Mb Hne. unfold mk_dot. rewrite Ma, Mb. cbn [orb negb andb].
  destruct (String.ltb (show b) (show a)) eqn:E1; destruct (String.ltb (show a) (show b)) eqn:E2; auto.
  - apply str_ltb_leb in E1, E2. destruct E1 as [L1 _], E2 as [L2 _].
    exfalso. apply Hne. now apply String.leb_antisym.
  - exfalso.
    assert (L1 : String.leb (show a) (show b) = true).
    { destruct (String.leb (show a) (show b)) eqn:L; auto. apply str_leb_false_lt in L.
      assert (String.ltb (show b) (show a) = true) by (apply str_ltb_leb; split; auto). congruence. }
    assert (String.ltb (show a) (show b) = true) by (apply str_ltb_leb; split; auto). congruence.
Qed.

(* ... except when an operand may be matrix-valued (the gradient of a vector function): matrix.vector and
   vector.matrix are different products and the order written by the user is kept (/repo d07302d) *)
Lemma mk_dot_keeps_matrix_order a b : may_mat a || may_mat b = true -> mk_dot a b = ENode "Dot" [a; b].
Proof. intros H. unfold mk_dot. now rewrite H. Qed.

Lemma mk_dot_cases a b : mk_dot a b = ENode "Dot" [a; b] \/ mk_dot a b = ENode "Dot" [b; a].
Proof. unfold mk_dot. destruct (negb (may_mat a || may_mat b) && String.ltb (show b) (show a)); auto. Qed.

(* ============================================ classification: admitted shapes *)
(* totality on the admitted fragment: each admitted left-hand side is accepted, with
   the attributes the property names *)

Lemma classify_scalar f ic : f_vec f = false ->
  classify (EFun f) ic = Ok (mkAttrs 0 f false ic).
Proof.
  intros Hv. unfold classify, classify_tag, atoms_idx, atoms_sfun, atoms_vfun, atoms_trace, atoms_normal.
  simpl. repeat (progress (rewrite ?Hv, ?fn_beq_refl; simpl)). reflexivity.
Qed.

Lemma classify_vector f ic : f_vec f = true ->
  classify (EFun f) ic = Ok (mkAttrs 0 f false (Some (seq 0 (f_ldim f)))).
Proof.
  intros Hv. unfold classify, classify_tag, atoms_idx, atoms_sfun, atoms_vfun, atoms_trace, atoms_normal.
  simpl. repeat (progress (rewrite ?Hv, ?fn_beq_refl; simpl)). reflexivity.
Qed.

Lemma classify_component f i ic : f_vec f = true ->
  classify (EIdx f i) ic = Ok (mkAttrs 0 f false (Some [i])).
Proof.
  intros Hv. unfold classify, classify_tag, atoms_idx, atoms_sfun, atoms_vfun, atoms_trace, atoms_normal.
  simpl. rewrite Hv. simpl. rewrite fn_beq_refl, Nat.eqb_refl. reflexivity.
Qed.

(* a component of a scalar function is ill-formed: two function atoms are found *)
Lemma classify_component_scalar f i ic : f_vec f = false -> classify (EIdx f i) ic = Err ValueErr.
Proof.
  intros Hv. unfold classify, classify_tag, atoms_idx, atoms_sfun, atoms_vfun, atoms_trace, atoms_normal.
  simpl. rewrite Hv. reflexivity.
Qed.

Lemma classify_normal f n ic : f_vec f = true ->
  classify (mk_dot (EFun f) (ENormal n)) ic = Ok (mkAttrs 0 f true ic).
Proof.
  intros Hv. unfold classify, classify_tag.
  assert (A : atoms_idx (mk_dot (EFun f) (ENormal n)) = [] /\
              atoms_sfun (mk_dot (EFun f) (ENormal n)) = [] /\
              atoms_vfun (mk_dot (EFun f) (ENormal n)) = [UFun f] /\
              atoms_trace (mk_dot (EFun f) (ENormal n)) = [] /\
              atoms_normal (mk_dot (EFun f) (ENormal n)) = [n]).
  { unfold atoms_idx, atoms_sfun, atoms_vfun, atoms_trace, atoms_normal.
    destruct (mk_dot_cases (EFun f) (ENormal n)) as [-> | ->]; simpl; rewrite Hv; simpl; auto. }
  destruct A as (-> & -> & -> & -> & ->). simpl. rewrite Hv. simpl.
  rewrite lexpr_eqb_refl, orb_true_r. simpl. reflexivity.
Qed.

Lemma grad_not_fun f a b : lexpr_eqb (mk_dot a b) (EFun f) = false.
Proof. destruct (mk_dot_cases a b) as [-> | ->]; reflexivity. Qed.

Lemma mk_dot_fun_neq_grad f n :
  lexpr_eqb (mk_dot (EGrad (EFun f)) (ENormal n)) (mk_dot (EFun f) (ENormal n)) = false.
Proof.
  destruct (lexpr_eqb _ _) eqn:E; auto. apply lexpr_eqb_eq in E.
  destruct (mk_dot_cases (EGrad (EFun f)) (ENormal n)) as [H1|H1],
           (mk_dot_cases (EFun f) (ENormal n)) as [H2|H2]; rewrite H1, H2 in E; discriminate E.
Qed.

Lemma classify_normal_derivative f n ic :
  classify (mk_dot (EGrad (EFun f)) (ENormal n)) ic = Ok (mkAttrs 1 f (f_vec f) ic).
Proof.
  unfold classify, classify_tag.
  set (e := mk_dot (EGrad (EFun f)) (ENormal n)).
  assert (A : atoms_idx e = [] /\
              atoms_sfun e ++ atoms_vfun e = [UFun f] /\
              atoms_trace e = [] /\ atoms_normal e = [n]).
  { unfold atoms_idx, atoms_sfun, atoms_vfun, atoms_trace, atoms_normal, e.
    destruct (mk_dot_cases (EGrad (EFun f)) (ENormal n)) as [-> | ->]; simpl;
      destruct (f_vec f); simpl; auto. }
  destruct A as (-> & -> & -> & ->). simpl.
  fold e. rewrite andb_true_r.
  assert (E1 : lexpr_eqb e (EFun f) = false) by apply grad_not_fun.
  destruct (f_vec f) eqn:Hv; simpl.
  - rewrite E1. unfold e at 1. rewrite mk_dot_fun_neq_grad. simpl.
    fold e. rewrite lexpr_eqb_refl. reflexivity.
  - rewrite E1. simpl. rewrite lexpr_eqb_refl. reflexivity.
Qed.

(* ========================================= classification: nothing else passes *)
Inductive admitted : lexpr -> option (list nat) -> attrs -> Prop :=
| AdmValue f ic : f_vec f = false -> admitted (EFun f) ic (mkAttrs 0 f false ic)
| AdmVector f ic : f_vec f = true -> admitted (EFun f) ic (mkAttrs 0 f false (Some (seq 0 (f_ldim f))))
| AdmComp f i ic : f_vec f = true -> admitted (EIdx f i) ic (mkAttrs 0 f false (Some [i]))
| AdmNormal f n ic : f_vec f = true -> admitted (mk_dot (EFun f) (ENormal n)) ic (mkAttrs 0 f true ic)
| AdmDn f n ic : admitted (mk_dot (EGrad (EFun f)) (ENormal n)) ic (mkAttrs 1 f (f_vec f) ic).

Theorem classify_admitted e ic a : admitted e ic a -> classify e ic = Ok a.
Proof.
  intros H. destruct H.
  - now apply classify_scalar.
  - now apply classify_vector.
  - now apply classify_component.
  - now apply classify_normal.
  - apply classify_normal_derivative.
Qed.

Lemma existsb_one e x : existsb (lexpr_eqb e) [x] = true -> e = x.
Proof. simpl. rewrite orb_false_r. apply lexpr_eqb_eq. Qed.

(* the candidates the constructor compares lhs with *)
Lemma classify_candidates e ic a : classify e ic = Ok a ->
  exists f, e = EFun f \/ (exists i, e = EIdx f i) \/
            (exists n, f_vec f = true /\ e = mk_dot (EFun f) (ENormal n)) \/
            (exists n, e = mk_dot (EGrad (EFun f)) (ENormal n)).
Proof.
  unfold classify, classify_tag.
  destruct (atoms_sfun e ++ match atoms_idx e with [] => atoms_vfun e | _ :: _ => atoms_idx e end)
    as [|u [|u' r]]; simpl; try discriminate.
  destruct (atoms_trace e); simpl; try discriminate.
  destruct (atoms_normal e) as [|n [|n' nr]]; simpl.
  - (* no normal vector *)
    destruct (lexpr_eqb e (u_expr u)) eqn:E0; simpl.
    + apply lexpr_eqb_eq in E0. intros _. destruct u as [f|f i]; simpl in E0; exists f; eauto.
    + discriminate.
  - destruct u as [f|f i]; simpl; try discriminate.
    destruct (f_vec f) eqn:Hv; simpl.
    + destruct (lexpr_eqb e (EFun f)) eqn:E0; simpl.
      * apply lexpr_eqb_eq in E0. intros _. exists f; auto.
      * destruct (lexpr_eqb e (mk_dot (EFun f) (ENormal n))) eqn:E1; simpl.
        -- apply lexpr_eqb_eq in E1. intros _. exists f. right. right. left. eauto.
        -- destruct (lexpr_eqb e (mk_dot (EGrad (EFun f)) (ENormal n))) eqn:E2; simpl; try discriminate.
           apply lexpr_eqb_eq in E2. intros _. exists f. right. right. right. eauto.
    + destruct (lexpr_eqb e (EFun f)) eqn:E0; simpl.
      * apply lexpr_eqb_eq in E0. intros _. exists f; auto.
      * destruct (lexpr_eqb e (mk_dot (EGrad (EFun f)) (ENormal n))) eqn:E2; simpl; try discriminate.
        apply lexpr_eqb_eq in E2. intros _. exists f. right. right. right. eauto.
  - discriminate.
Qed.

(* only the admitted shapes are accepted, and with exactly these attributes *)
Theorem classify_complete e ic a : classify e ic = Ok a -> admitted e ic a.
Proof.
  intros H. destruct (classify_candidates e ic a H) as [f [->|[[i ->]|[[n [Hv ->]]|[n ->]]]]].
  - destruct (f_vec f) eqn:Hv.
    + rewrite classify_vector in H by auto. inversion H. now constructor.
    + rewrite classify_scalar in H by auto. inversion H. now constructor.
  - destruct (f_vec f) eqn:Hv.
    + rewrite classify_component in H by auto. inversion H. now constructor.
    + rewrite classify_component_scalar in H by auto. discriminate.
  - rewrite classify_normal in H by auto. inversion H. now constructor.
  - rewrite classify_normal_derivative in H. inversion H. constructor.
Qed.

Corollary classify_iff e ic a : classify e ic = Ok a <-> admitted e ic a.
Proof. split; [apply classify_complete|apply classify_admitted]. Qed.

(* every other left-hand side is refused *)
Corollary classify_refuses e ic : (forall a, ~ admitted e ic a) -> exists err, classify e ic = Err err.
Proof.
  intros H. destruct (classify e ic) as [a|err] eqn:E; [|eauto].
  exfalso. apply (H a). now apply classify_complete.
Qed.

(* the arm `raise NotImplementedError('Indexed case')` is dead code *)
Lemma indexed_order1_unreachable e ic : snd (classify_tag e ic) <> "order1/indexed".
Proof.
  unfold classify_tag.
  destruct (atoms_sfun e ++ match atoms_idx e with [] => atoms_vfun e | _ :: _ => atoms_idx e end)
    as [|u [|u' r]]; simpl; try discriminate.
  destruct (atoms_trace e); simpl; try discriminate.
  destruct (atoms_normal e) as [|n [|n' nr]]; simpl; try discriminate.
  - destruct (lexpr_eqb e (u_expr u)); simpl.
    + destruct u as [f|f i]; simpl; try discriminate.
      destruct (f_vec f); simpl; discriminate.
    + discriminate.
  - destruct u as [f|f i]; simpl; try discriminate.
    destruct (f_vec f); simpl.
    + destruct (lexpr_eqb e (EFun f) || (lexpr_eqb e (mk_dot (EFun f) (ENormal n)) || false)); simpl; try discriminate.
      destruct (lexpr_eqb e (mk_dot (EGrad (EFun f)) (ENormal n)) || false); discriminate.
    + destruct (lexpr_eqb e (EFun f) || false); simpl; try discriminate.
      destruct (lexpr_eqb e (mk_dot (EGrad (EFun f)) (ENormal n)) || false); discriminate.
Qed.

(* order, variable and normal flag do not depend on the index_component argument; the
   components found by a first call are found again when they are passed back
   (this is what the per-face re-construction does) *)
Theorem classify_idem e ic a : classify e ic = Ok a -> classify e (a_ic a) = Ok a.
Proof.
  intros H. apply classify_complete in H. apply classify_admitted.
  destruct H; simpl; now constructor.
Qed.

(* ================================================================= boundaries *)
Definition face_wf (l : list face) : Prop := wf face_eqb fc_str l.

Definition pack_faces (l : list face) : bnd :=
  match l with [] => BNone | [f] => BFace f | _ => BUnion l end.

Lemma mk_bnd_pack raw : mk_bnd raw = pack_faces (canon face_eqb fc_str raw).
Proof. unfold mk_bnd, pack_faces. destruct (canon face_eqb fc_str raw) as [|x [|y r]]; reflexivity. Qed.

(* Union of faces: the distinct faces, sorted by printed name (C14) *)
Theorem mk_bnd_spec raw : face_wf raw ->
  let l := canon face_eqb fc_str raw in
  mk_bnd raw = pack_faces l /\ (forall f, In f l <-> In f raw) /\ NoDup l /\
  StronglySorted (kle fc_str) l.
Proof.
  intros Hwf l. split; [apply mk_bnd_pack|]. split; [|split].
  - intros f. apply canon_In; auto.
  - apply canon_NoDup; auto.
  - apply canon_sorted.
Qed.

Theorem mk_bnd_set_ext raw1 raw2 :
  face_wf (raw1 ++ raw2) -> (forall f, In f raw1 <-> In f raw2) -> mk_bnd raw1 = mk_bnd raw2.
Proof. intros Hwf H. rewrite !mk_bnd_pack. f_equal. now apply canon_set_ext. Qed.

(* ================================================================== expansion *)
Definition var (b : ebc) : fn := a_var (b_attrs b).

(* an EssentialBC object made by the constructor: its attributes are those of its lhs *)
Definition bc_wf (b : ebc) : Prop := classify (b_lhs b) (a_ic (b_attrs b)) = Ok (b_attrs b).

Lemma essential_new_wf lhs rhs bd pos ic b : essential_new lhs rhs bd pos ic = Ok b -> bc_wf b.
Proof.
  unfold essential_new, bc_wf. destruct (classify lhs ic) as [a|e] eqn:E; [|discriminate].
  intros H. inversion H; subst; simpl. now apply classify_idem in E.
Qed.

Lemma essential_new_fields lhs rhs bd pos ic b : essential_new lhs rhs bd pos ic = Ok b ->
  b_lhs b = lhs /\ b_rhs b = rhs /\ b_bnd b = bd /\ b_pos b = pos /\ classify lhs ic = Ok (b_attrs b).
Proof.
  unfold essential_new. destruct (classify lhs ic) as [a|e] eqn:E; [|discriminate].
  intros H. inversion H; subst; simpl. auto.
Qed.

(* the condition on boundary bd, with position p, made from condition i: same sides, same
   order / variable / normal flag / components *)
Definition rebuilt (i : ebc) (p : nat) (bd : bnd) : ebc :=
  mkBC (b_lhs i) (b_rhs i) bd (b_attrs i) (Some p).

(* re-building a condition from its own lhs and components preserves every attribute:
   for every admitted shape (bc_wf holds of every object the constructor makes) *)
Lemma rebuild_spec i bd p : bc_wf i -> rebuild i bd p = Ok (rebuilt i p bd).
Proof. intros Hwf. unfold rebuild, essential_new. unfold bc_wf in Hwf. now rewrite Hwf. Qed.

Lemma rebuilt_wf i p bd : bc_wf i -> bc_wf (rebuilt i p bd).
Proof. auto. Qed.

Lemma expand_spec i p faces : bc_wf i ->
  expand i p faces = Ok (map (fun j => rebuilt i p (BFace j)) faces).
Proof.
  intros Hwf. induction faces as [|j r IH]; simpl; [reflexivity|].
  rewrite rebuild_spec by auto. rewrite IH. reflexivity.
Qed.

(* the boundaries of the conditions that one given condition becomes *)
Definition pieces (b : bnd) : list bnd :=
  match b with BUnion l => map BFace l | bd => [bd] end.

Lemma contribution_spec i p : bc_wf i ->
  contribution i p = Ok (map (rebuilt i p) (pieces (b_bnd i))).
Proof.
  intros Hwf. unfold contribution, pieces. destruct (b_bnd i) as [|f|l].
  - now rewrite rebuild_spec.
  - now rewrite rebuild_spec.
  - rewrite expand_spec by auto. now rewrite map_map.
Qed.

(* ============================================================== normalisation *)
(* what one given condition contributes to eq.bc *)
Definition block (trials : list fn) (i : ebc) : list ebc :=
  map (rebuilt i (index_fn (var i) trials)) (pieces (b_bnd i)).

Definition on_trial (trials : list fn) (i : ebc) : Prop := mem_fn (var i) trials = true.

Theorem normalise_spec trials bcs :
  Forall bc_wf bcs -> Forall (on_trial trials) bcs ->
  normalise trials bcs = Ok (flat_map (block trials) bcs).
Proof.
  induction bcs as [|i r IH]; intros Hwf Hon; simpl; [reflexivity|].
  inversion Hwf as [|? ? Hi Hr]; inversion Hon as [|? ? Oi Or]; subst.
  unfold on_trial, var in Oi. rewrite Oi. simpl.
  rewrite contribution_spec by auto. rewrite (IH Hr Or). reflexivity.
Qed.

(* a condition on a function that is not a trial function makes the constructor refuse *)
Theorem normalise_refuses trials bcs :
  Forall bc_wf bcs -> Exists (fun i => mem_fn (var i) trials = false) bcs ->
  normalise trials bcs = Err ArgsErr.
Proof.
  induction bcs as [|i r IH]; intros Hwf Hex; [inversion Hex|].
  inversion Hwf as [|? ? Hi Hr]; subst. simpl.
  destruct (mem_fn (a_var (b_attrs i)) trials) eqn:M; simpl; [|reflexivity].
  assert (Hex' : Exists (fun i => mem_fn (var i) trials = false) r).
  { inversion Hex; subst; auto. unfold var in *. congruence. }
  rewrite (IH Hr Hex'). rewrite contribution_spec by auto. reflexivity.
Qed.

Lemma Forall_or_Exists {A} (P : A -> bool) l :
  Forall (fun x => P x = true) l \/ Exists (fun x => P x = false) l.
Proof.
  induction l as [|x r IH]; [left; constructor|].
  destruct (P x) eqn:E; [|right; now constructor].
  destruct IH; [left; now constructor|right; now constructor].
Qed.

(* nothing else is refused: accepted iff every condition is on a trial function *)
Theorem normalise_accepts_iff trials bcs :
  Forall bc_wf bcs ->
  ((exists out, normalise trials bcs = Ok out) <-> Forall (on_trial trials) bcs).
Proof.
  intros Hwf. split.
  - intros [out H]. destruct (Forall_or_Exists (fun i => mem_fn (var i) trials) bcs) as [F|E]; auto.
    rewrite (normalise_refuses trials bcs Hwf E) in H. discriminate.
  - intros F. eexists. now apply normalise_spec.
Qed.

(* output order = input order, each condition replaced by its block *)
Theorem normalise_order trials b1 c b2 out :
  Forall bc_wf (b1 ++ c :: b2) -> normalise trials (b1 ++ c :: b2) = Ok out ->
  exists o1 o2, normalise trials b1 = Ok o1 /\ normalise trials b2 = Ok o2 /\
                out = o1 ++ block trials c ++ o2.
Proof.
  intros Hwf H.
  assert (Hon : Forall (on_trial trials) (b1 ++ c :: b2)).
  { apply normalise_accepts_iff; eauto. }
  rewrite normalise_spec in H by auto. inversion H; subst.
  apply Forall_app in Hwf. destruct Hwf as [W1 W2]. inversion W2; subst.
  apply Forall_app in Hon. destruct Hon as [O1 O2]. inversion O2; subst.
  exists (flat_map (block trials) b1), (flat_map (block trials) b2).
  rewrite !normalise_spec by auto. repeat split.
  rewrite flat_map_app. reflexivity.
Qed.

(* a condition on a union of n faces becomes exactly n conditions, one per face in the
   order of the union, each with the same lhs, rhs, order, variable, normal flag and
   components, and position = index of the variable among the trials *)
Theorem block_union trials i l : b_bnd i = BUnion l ->
  length (block trials i) = length l /\
  forall k j, nth_error l k = Some j ->
    nth_error (block trials i) k =
      Some (mkBC (b_lhs i) (b_rhs i) (BFace j) (b_attrs i) (Some (index_fn (var i) trials))).
Proof.
  intros Hb. unfold block. rewrite Hb. simpl. split; [now rewrite !map_length|].
  intros k j Hk. rewrite map_map, nth_error_map, Hk. reflexivity.
Qed.

(* a condition on a single face becomes one condition on that face: the same sides, order,
   variable, normal flag and components, and the position *)
Theorem block_face trials i f : b_bnd i = BFace f ->
  block trials i = [mkBC (b_lhs i) (b_rhs i) (BFace f) (b_attrs i) (Some (index_fn (var i) trials))].
Proof. intros Hb. unfold block. rewrite Hb. reflexivity. Qed.

Theorem normalise_single_face trials i f :
  bc_wf i -> on_trial trials i -> b_bnd i = BFace f ->
  normalise trials [i] =
    Ok [mkBC (b_lhs i) (b_rhs i) (BFace f) (b_attrs i) (Some (index_fn (var i) trials))].
Proof.
  intros Hwf Hon Hb. rewrite normalise_spec by (constructor; auto).
  simpl. rewrite app_nil_r. now rewrite (block_face trials i f Hb).
Qed.

Definition nfaces (b : ebc) : nat := match b_bnd b with BUnion l => length l | _ => 1 end.

Lemma block_length trials i : length (block trials i) = nfaces i.
Proof. unfold block, nfaces, pieces. destruct (b_bnd i); simpl; auto. now rewrite !map_length. Qed.

Theorem normalise_length trials bcs out :
  Forall bc_wf bcs -> normalise trials bcs = Ok out ->
  length out = list_sum (map nfaces bcs).
Proof.
  intros Hwf H.
  assert (Hon : Forall (on_trial trials) bcs) by (apply normalise_accepts_iff; eauto).
  rewrite normalise_spec in H by auto. inversion H; subst. clear.
  induction bcs as [|i r IH]; simpl; auto. now rewrite app_length, block_length, IH.
Qed.

(* every condition of the output carries the attributes and sides of a given one, sits on
   a single face of it, and has the position of its variable *)
Theorem normalise_sound trials bcs out o :
  Forall bc_wf bcs -> normalise trials bcs = Ok out -> In o out ->
  exists i, In i bcs /\ b_lhs o = b_lhs i /\ b_rhs o = b_rhs i /\ b_attrs o = b_attrs i /\
            b_pos o = Some (index_fn (var i) trials) /\
            match b_bnd i with
            | BUnion l => exists j, In j l /\ b_bnd o = BFace j
            | bd => b_bnd o = bd
            end.
Proof.
  intros Hwf H Hin.
  assert (Hon : Forall (on_trial trials) bcs) by (apply normalise_accepts_iff; eauto).
  rewrite normalise_spec in H by auto. inversion H; subst.
  apply in_flat_map in Hin. destruct Hin as [i [Hi Ho]]. exists i. split; auto.
  unfold block, pieces in Ho. destruct (b_bnd i) as [|f|l] eqn:Hb.
  - destruct Ho as [<-|[]]. simpl. auto.
  - destruct Ho as [<-|[]]. simpl. auto.
  - rewrite map_map in Ho. apply in_map_iff in Ho. destruct Ho as [j [<- Hj]]. simpl. eauto 10.
Qed.

(* no face is forgotten *)
Theorem normalise_complete trials bcs out i :
  Forall bc_wf bcs -> normalise trials bcs = Ok out -> In i bcs ->
  match b_bnd i with
  | BUnion l => forall j, In j l ->
      In (mkBC (b_lhs i) (b_rhs i) (BFace j) (b_attrs i) (Some (index_fn (var i) trials))) out
  | bd => In (mkBC (b_lhs i) (b_rhs i) bd (b_attrs i) (Some (index_fn (var i) trials))) out
  end.
Proof.
  intros Hwf H Hi.
  assert (Hon : Forall (on_trial trials) bcs) by (apply normalise_accepts_iff; eauto).
  rewrite normalise_spec in H by auto. inversion H; subst.
  destruct (b_bnd i) as [|f|l] eqn:Hb.
  - apply in_flat_map. exists i. split; auto. unfold block. rewrite Hb. now left.
  - apply in_flat_map. exists i. split; auto. unfold block. rewrite Hb. now left.
  - intros j Hj. apply in_flat_map. exists i. split; auto. unfold block. rewrite Hb. simpl.
    rewrite map_map. apply in_map_iff. exists j. split; auto.
Qed.

(* position = index of the first trial function that is == the variable *)
Theorem index_fn_spec v trials : mem_fn v trials = true ->
  let p := index_fn v trials in
  p < length trials /\
  (exists t, nth_error trials p = Some t /\ fn_eqb t v = true) /\
  (forall k t, k < p -> nth_error trials k = Some t -> fn_eqb t v = false).
Proof.
  induction trials as [|t r IH]; simpl; [discriminate|].
  intros Hm. destruct (fn_eqb t v) eqn:E.
  - repeat split; [lia|exists t; auto|intros k t' Hk; lia].
  - assert (Hm' : mem_fn v r = true).
    { rewrite fn_eqb_sym in E. rewrite E in Hm. exact Hm. }
    destruct (IH Hm') as (L & [t' [N T]] & F). repeat split; [lia|exists t'; auto|].
    intros [|k] t'' Hk Hn; simpl in Hn; [inversion Hn; subst; auto|]. apply (F k); auto. lia.
Qed.

(* with == being identity on the trial functions: the position of trial number k is k *)
Theorem index_fn_nth trials k v :
  NoDup (map f_id trials) -> nth_error trials k = Some v -> index_fn v trials = k.
Proof.
  revert k. induction trials as [|t r IH]; intros [|k] Hnd Hk; simpl in *; try discriminate.
  - inversion Hk; subst. now rewrite fn_eqb_refl.
  - inversion Hnd as [|? ? Hnot Hnd']; subst.
    destruct (fn_eqb t v) eqn:E.
    + exfalso. apply Hnot. apply fn_eqb_id in E. rewrite E.
      apply in_map. eapply nth_error_In; eauto.
    + f_equal. now apply IH.
Qed.

Lemma mem_fn_In v trials : In v trials -> mem_fn v trials = true.
Proof. intros H. apply existsb_exists. exists v. split; auto. apply fn_eqb_refl. Qed.

(* ----------------------------------------------- end to end, from what is written *)
(* EssentialBC(lhs, rhs, Union(raw faces)) handed to an equation whose trial functions
   contain the variable: one condition per distinct face, sorted by printed name *)
Theorem essential_on_union trials lhs rhs raw pos ic a :
  admitted lhs ic a -> mem_fn (a_var a) trials = true -> face_wf raw ->
  let l := canon face_eqb fc_str raw in
  2 <= length l ->
  exists b, essential_new lhs rhs (mk_bnd raw) pos ic = Ok b /\
    normalise trials [b] =
      Ok (map (fun j => mkBC lhs rhs (BFace j) a (Some (index_fn (a_var a) trials))) l) /\
    (forall f, In f l <-> In f raw) /\ NoDup l /\ StronglySorted (kle fc_str) l.
Proof.
  intros Ha Hm Hwf l Hl. apply classify_admitted in Ha.
  exists (mkBC lhs rhs (mk_bnd raw) a pos). split; [unfold essential_new; now rewrite Ha|].
  destruct (mk_bnd_spec raw Hwf) as (Hp & Hin & Hnd & Hs). fold l in Hp, Hin, Hnd, Hs.
  split; [|auto].
  assert (Hb : mk_bnd raw = BUnion l).
  { rewrite Hp. destruct l as [|x [|y r]]; simpl in *; auto; lia. }
  rewrite normalise_spec.
  - simpl. rewrite app_nil_r. unfold block, var. simpl. rewrite Hb. simpl. now rewrite map_map.
  - constructor; [|constructor]. unfold bc_wf. simpl. now apply classify_idem in Ha.
  - constructor; [|constructor]. exact Hm.
Qed.

Theorem essential_on_face trials lhs rhs f pos ic a :
  admitted lhs ic a -> mem_fn (a_var a) trials = true ->
  exists b, essential_new lhs rhs (mk_bnd [f]) pos ic = Ok b /\
    normalise trials [b] = Ok [mkBC lhs rhs (BFace f) a (Some (index_fn (a_var a) trials))].
Proof.
  intros Ha Hm. apply classify_admitted in Ha.
  exists (mkBC lhs rhs (mk_bnd [f]) a pos). split; [unfold essential_new; now rewrite Ha|].
  rewrite normalise_spec.
  - reflexivity.
  - constructor; [|constructor]. unfold bc_wf. simpl. now apply classify_idem in Ha.
  - constructor; [|constructor]. exact Hm.
Qed.

(* a left-hand side that is not admitted cannot even become a condition *)
Theorem essential_refuses lhs rhs bd pos ic :
  (forall a, ~ admitted lhs ic a) -> exists e, essential_new lhs rhs bd pos ic = Err e.
Proof.
  intros H. destruct (classify_refuses lhs ic H) as [e E]. exists e. unfold essential_new. now rewrite E.
Qed.

(* ======================================================= object (store) semantics *)
Definition get (h : store) (r : nat) : ebc := nth r h dummy_bc.

Lemma fst_map_ok g x : fst (map_ok g x) = fst x.
Proof. destruct x as [h [o|e]]; reflexivity. Qed.

Lemma nth_error_get h r : r < length h -> nth_error h r = Some (get h r).
Proof. intros H. unfold get. now apply nth_error_nth'. Qed.

(* the constructor only appends to the store: it never writes into an existing object *)
Lemma eq_loop_extends trials refs : forall h, exists ext, fst (eq_loop trials h refs) = h ++ ext.
Proof.
  induction refs as [|r rest IH]; intros h; simpl; [exists []; now rewrite app_nil_r|].
  destruct (nth_error h r) as [i|]; simpl; [|exists []; now rewrite app_nil_r].
  destruct (negb (mem_fn (a_var (b_attrs i)) trials)); simpl; [exists []; now rewrite app_nil_r|].
  destruct (contribution i _) as [blk|e]; simpl; [|exists []; now rewrite app_nil_r].
  rewrite fst_map_ok. destruct (IH (h ++ blk)) as [ext E]. exists (blk ++ ext). now rewrite E, app_assoc.
Qed.

Lemma eq_loop_preserve trials refs h k b :
  nth_error h k = Some b -> nth_error (fst (eq_loop trials h refs)) k = Some b.
Proof.
  intros Hk. destruct (eq_loop_extends trials refs h) as [ext ->].
  rewrite nth_error_app1; auto. apply nth_error_Some. congruence.
Qed.

Lemma eq_loop_length trials refs h : length h <= length (fst (eq_loop trials h refs)).
Proof. destruct (eq_loop_extends trials refs h) as [ext ->]. rewrite app_length. lia. Qed.

Lemma read_seq h2 : forall blk a,
  (forall j b, nth_error blk j = Some b -> nth_error h2 (a + j) = Some b) ->
  read h2 (seq a (length blk)) = map Some blk.
Proof.
  induction blk as [|x r IH]; intros a H; simpl; [reflexivity|].
  unfold read in *. simpl. f_equal.
  - specialize (H 0 x eq_refl). now rewrite Nat.add_0_r in H.
  - apply IH. intros j b Hj. specialize (H (S j) b Hj). now rewrite Nat.add_succ_r in H.
Qed.

Lemma read_app h l1 l2 : read h (l1 ++ l2) = read h l1 ++ read h l2.
Proof. apply map_app. Qed.

Lemma map_get_app h blk refs :
  Forall (fun r => r < length h) refs -> map (get (h ++ blk)) refs = map (get h) refs.
Proof.
  intros H. apply map_ext_in. intros r Hr. rewrite Forall_forall in H. unfold get.
  now rewrite app_nth1 by (now apply H).
Qed.

(* The loop on objects computes [normalise] of the values of the given objects: same
   verdict (same error); eq.bc read in the store the constructor leaves behind is the
   normalised list; and every condition of eq.bc is a new object (its index is beyond the
   store the constructor was called with).  Lists of any length, repetitions allowed. *)
Theorem eq_loop_normalise trials refs : forall h,
  Forall (fun r => r < length h) refs ->
  match normalise trials (map (get h) refs) with
  | Ok vals => exists h2 out, eq_loop trials h refs = (h2, Ok out) /\ read h2 out = map Some vals /\
                              Forall (fun r => length h <= r < length h2) out
  | Err e => snd (eq_loop trials h refs) = Err e
  end.
Proof.
  induction refs as [|r rest IH]; intros h Hv.
  - simpl. exists h, []. repeat split. constructor.
  - inversion Hv as [|? ? Hr Hrest]; subst.
    cbn [map normalise eq_loop]. rewrite (nth_error_get h r Hr).
    set (i := get h r).
    destruct (negb (mem_fn (a_var (b_attrs i)) trials)) eqn:M; [reflexivity|].
    cbv zeta. set (p := index_fn (a_var (b_attrs i)) trials).
    destruct (contribution i p) as [blk|e]; [|reflexivity].
    specialize (IH (h ++ blk)).
    assert (Hrest' : Forall (fun r => r < length (h ++ blk)) rest).
    { eapply Forall_impl; [|exact Hrest]. intros a Ha. rewrite app_length. simpl in Ha. lia. }
    specialize (IH Hrest'). rewrite (map_get_app h blk rest Hrest) in IH.
    destruct (normalise trials (map (get h) rest)) as [vals|e].
    + destruct IH as (h2 & out & E & R & V). rewrite E. simpl.
      assert (E2 : h2 = fst (eq_loop trials (h ++ blk) rest)) by now rewrite E.
      exists h2, (seq (length h) (length blk) ++ out). split; [reflexivity|]. split.
      * rewrite read_app, map_app. f_equal; [|exact R].
        apply read_seq. intros j b Hj. rewrite E2. apply eq_loop_preserve.
        rewrite nth_error_app2 by lia. now replace (length h + j - length h) with j by lia.
      * apply Forall_app. split.
        -- apply Forall_forall. intros x Hx. apply in_seq in Hx. split; [lia|].
           rewrite E2. eapply Nat.lt_le_trans; [|apply eq_loop_length]. rewrite app_length. lia.
        -- eapply Forall_impl; [|exact V]. intros x [Hx1 Hx2]. rewrite app_length in Hx1. simpl. lia.
    + destruct (eq_loop trials (h ++ blk) rest) as [h2 [o|e']]; simpl in *; congruence.
Qed.

(* ---------------------------------------------------------------- Equation.__new__ *)
Lemma refs_of_map_IRef refs : refs_of (map IRef refs) = refs.
Proof. induction refs as [|r l IH]; simpl; congruence. Qed.

Lemma forallb_is_ref_map refs : forallb is_ref (map IRef refs) = true.
Proof. induction refs as [|r l IH]; simpl; auto. Qed.

(* lhs and rhs forms, trial and test functions are kept *)
Theorem equation_new_keeps h lhs rhs trials tests bc h' e :
  equation_new h lhs rhs trials tests bc = (h', Ok e) ->
  eq_lhs e = lhs /\ eq_rhs e = rhs /\ eq_trials e = trials /\ eq_tests e = tests /\
  (exists a, lhs = FBilinear a) /\ (exists l, rhs = FLinear l).
Proof.
  unfold equation_new.
  destruct lhs as [a|a|a]; try (intros H; inversion H; fail).
  destruct rhs as [l|l|l]; try (intros H; inversion H; fail).
  destruct bc as [|[r|]|items].
  - intros H; inversion H; subst; simpl; eauto 10.
  - destruct (eq_loop trials h [r]) as [h2 [out|er]]; intros H; inversion H; subst; simpl; eauto 10.
  - intros H; inversion H.
  - destruct (negb (forallb is_ref items)); [intros H; inversion H|].
    destruct (eq_loop trials h (refs_of items)) as [h2 [out|er]]; intros H; inversion H; subst; simpl; eauto 10.
Qed.

Theorem equation_new_lhs_refused h lhs rhs trials tests bc :
  (forall a, lhs <> FBilinear a) -> equation_new h lhs rhs trials tests bc = (h, Err LhsErr).
Proof. intros H. destruct lhs as [a|a|a]; try reflexivity. exfalso. now apply (H a). Qed.

Theorem equation_new_rhs_refused h a rhs trials tests bc :
  (forall l, rhs <> FLinear l) -> equation_new h (FBilinear a) rhs trials tests bc = (h, Err RhsErr).
Proof. intros H. destruct rhs as [l|l|l]; try reflexivity. exfalso. now apply (H l). Qed.

Theorem equation_new_non_condition_refused h a l trials tests items :
  existsb (fun i => negb (is_ref i)) items = true ->
  equation_new h (FBilinear a) (FLinear l) trials tests (AList items) = (h, Err TypeErr).
Proof.
  intros H. unfold equation_new.
  assert (E : forallb is_ref items = false).
  { apply existsb_exists in H. destruct H as [x [Hx Nx]].
    destruct (forallb is_ref items) eqn:F; auto. rewrite forallb_forall in F.
    rewrite (F x Hx) in Nx. discriminate. }
  now rewrite E.
Qed.

(* the constructor on a list of condition objects = normalise on their values, and every
   condition it keeps is a new object *)
Theorem equation_new_normalises h a l trials tests refs :
  Forall (fun r => r < length h) refs ->
  let r := equation_new h (FBilinear a) (FLinear l) trials tests (AList (map IRef refs)) in
  match normalise trials (map (get h) refs) with
  | Ok vals => exists e out, snd r = Ok e /\ eq_bc e = Some out /\ read (fst r) out = map Some vals /\
                             Forall (fun k => length h <= k < length (fst r)) out /\
                             eq_lhs e = FBilinear a /\ eq_rhs e = FLinear l /\
                             eq_trials e = trials /\ eq_tests e = tests
  | Err er => snd r = Err er
  end.
Proof.
  intros Hv. cbv zeta. unfold equation_new. rewrite forallb_is_ref_map, refs_of_map_IRef. simpl.
  pose proof (eq_loop_normalise trials refs h Hv) as K.
  destruct (normalise trials (map (get h) refs)) as [vals|er].
  - destruct K as (h2 & out & E & R & V). rewrite E. simpl.
    eexists. exists out. repeat split; auto.
  - destruct (eq_loop trials h refs) as [h2 [o|e']]; simpl in *; congruence.
Qed.

(* ------------------------------------------- a constructor call changes no existing object *)
(* whatever the arguments and whatever the verdict: every object that exists when the
   constructor is called - the given conditions, the conditions held by earlier equations -
   has the same value afterwards *)
Theorem equation_new_extends h lhs rhs trials tests bc :
  exists ext, fst (equation_new h lhs rhs trials tests bc) = h ++ ext.
Proof.
  unfold equation_new.
  destruct lhs as [a|a|a]; try (exists []; now rewrite app_nil_r).
  destruct rhs as [l|l|l]; try (exists []; now rewrite app_nil_r).
  destruct bc as [|[r|]|items]; try (exists []; now rewrite app_nil_r).
  - destruct (eq_loop_extends trials [r] h) as [ext E]. exists ext.
    destruct (eq_loop trials h [r]) as [h2 [out|er]]; simpl in *; exact E.
  - destruct (negb (forallb is_ref items)); [exists []; now rewrite app_nil_r|].
    destruct (eq_loop_extends trials (refs_of items) h) as [ext E]. exists ext.
    destruct (eq_loop trials h (refs_of items)) as [h2 [out|er]]; simpl in *; exact E.
Qed.

Theorem constructor_call_keeps h lhs rhs trials tests bc refs :
  Forall (fun r => r < length h) refs ->
  read (fst (equation_new h lhs rhs trials tests bc)) refs = read h refs.
Proof.
  intros Hv. destruct (equation_new_extends h lhs rhs trials tests bc) as [ext ->].
  unfold read. apply map_ext_in. intros r Hr. rewrite Forall_forall in Hv.
  now rewrite nth_error_app1 by (now apply Hv).
Qed.

(* two equations from the same condition objects: the first one's bc, re-read after the
   second call, is what it was - and so are the given conditions *)
Theorem shared_condition_safe h a1 l1 a2 l2 trials1 tests1 trials2 tests2 refs1 bc2 :
  Forall (fun r => r < length h) refs1 ->
  let r1 := equation_new h (FBilinear a1) (FLinear l1) trials1 tests1 (AList (map IRef refs1)) in
  let r2 := equation_new (fst r1) (FBilinear a2) (FLinear l2) trials2 tests2 bc2 in
  read (fst r2) refs1 = read h refs1 /\
  forall e1 out1, snd r1 = Ok e1 -> eq_bc e1 = Some out1 ->
    read (fst r2) out1 = read (fst r1) out1.
Proof.
  intros Hv. cbv zeta. split.
  - rewrite constructor_call_keeps.
    + now apply constructor_call_keeps.
    + destruct (equation_new_extends h (FBilinear a1) (FLinear l1) trials1 tests1 (AList (map IRef refs1))) as [ext ->].
      eapply Forall_impl; [|exact Hv]. intros r Hr. rewrite app_length. simpl in Hr. lia.
  - intros e1 out1 H1 Hbc.
    pose proof (equation_new_normalises h a1 l1 trials1 tests1 refs1 Hv) as K. cbv zeta in K.
    destruct (normalise trials1 (map (get h) refs1)) as [vals|er].
    + destruct K as (e & out & S1 & B & _ & V & _). rewrite H1 in S1. inversion S1; subst e.
      rewrite Hbc in B. inversion B; subst out.
      apply constructor_call_keeps. eapply Forall_impl; [|exact V]. intros k [_ Hk]. exact Hk.
    + rewrite H1 in K. discriminate.
Qed.

(* ------------------------------------------------------------ before commit c2083c1 *)
(* The loop that wrote the position into the given object did not have this property: the
   single-face condition below is shared by two calls whose trial functions are listed in
   different orders; after the second call the first result reads position 1 where it had 0 *)
Definition hz_u := mkFn 0 0 "u" false 2.
Definition hz_p := mkFn 1 1 "p" true 2.
Definition hz_face := mkFace 0 "A_\Gamma_1" "A" 0%Z (-1)%Z.
Definition hz_store : store := [obj (essential_new (EFun hz_u) "0" (BFace hz_face) None None)].

Theorem shared_condition_before_fix_refuted :
  exists h trials1 trials2 refs,
    let r1 := eq_loop_before_fix trials1 h refs in
    let r2 := eq_loop_before_fix trials2 (fst r1) refs in
    exists out1, snd r1 = Ok out1 /\ read (fst r2) out1 <> read (fst r1) out1.
Proof.
  exists hz_store, [hz_u; hz_p], [hz_p; hz_u], [0].
  cbv zeta. eexists. split; [reflexivity|]. vm_compute. discriminate.
Qed.

(* ------------------------------------------------ boolean well-formedness of a face table *)
(* used by the non-vacuity examples and asserted by the case files for every generated case *)
Lemma face_beq_eq a b : face_beq a b = true <-> a = b.
Proof.
  unfold face_beq. rewrite !andb_true_iff, Nat.eqb_eq, !String.eqb_eq, !Z.eqb_eq. split.
  - intros [[[[H1 H2] H3] H4] H5]. destruct a, b; simpl in *; congruence.
  - intros ->. auto.
Qed.

Definition face_wf_b (l : list face) : bool :=
  forallb (fun a => forallb (fun b =>
     Bool.eqb (face_eqb a b) (face_beq a b) &&
     Bool.eqb (String.eqb (fc_str a) (fc_str b)) (face_beq a b)) l) l.

Lemma face_wf_b_sound l : face_wf_b l = true -> face_wf l.
Proof.
  unfold face_wf_b. rewrite forallb_forall. intros H.
  assert (K : forall a b, In a l -> In b l ->
     face_eqb a b = face_beq a b /\ String.eqb (fc_str a) (fc_str b) = face_beq a b).
  { intros a b Ha Hb. specialize (H a Ha). rewrite forallb_forall in H. specialize (H b Hb).
    apply andb_true_iff in H. destruct H as [H1 H2]. apply Bool.eqb_prop in H1, H2. auto. }
  split; intros a b Ha Hb; destruct (K a b Ha Hb) as [K1 K2].
  - rewrite K1. apply face_beq_eq.
  - intros E. apply face_beq_eq. rewrite <- K2. now apply String.eqb_eq.
Qed.
