(* C08 - proofs about the linearity model (Model/LinearityM.v):
     1. the polynomial expansion is sound in every commutative ring that is a Q-algebra
        (used over fields here, over the dual numbers in C09);
     2. the degree criterion is sound: crit = true -> additive and homogeneous, for every
        field of characteristic 0, every interpretation of the function symbols and every
        valuation; corollary in every differential field (fields replaced by sums / multiples);
     3. the verdict of the is_linear_expression model IS the degree criterion;
     4. refutation witnesses over the rationals are genuine counter-examples. *)
From Coq Require Import String ZArith QArith Qcanon List Bool Arith PeanoNat Lia Setoid.
From Coq Require Import Ring_theory Field_theory Ring Field InitialRing.
From V Require Import Core.FieldEq Core.Terminal Core.TerminalP Core.DField Core.SExpr.
From V Require Import Model.LinearityM.
Import ListNotations.
Local Open Scope nat_scope.
Local Arguments Qred : simpl never.
Local Arguments Qplus : simpl never.
Local Arguments Qmult : simpl never.
Local Arguments Qopp : simpl never.
Local Arguments Qeq_bool : simpl never.
Local Arguments inject_Z : simpl never.

(* ================================================================= syntax *)
Lemma mono_eqb_eq a : forall b, mono_eqb a b = true <-> a = b.
Proof.
  induction a as [|x a IH]; intros [|y b]; simpl; split; intros H; try congruence; try discriminate.
  - apply andb_true_iff in H. destruct H as [H1 H2]. apply Nat.eqb_eq in H1. apply IH in H2. now subst.
  - inversion H; subst. rewrite Nat.eqb_refl. simpl. now apply IH.
Qed.

Lemma mono_eqb_refl a : mono_eqb a a = true.
Proof. now apply mono_eqb_eq. Qed.

Lemma mono_eqb_neq a b : a <> b -> mono_eqb a b = false.
Proof. intros H. destruct (mono_eqb a b) eqn:E; auto. apply mono_eqb_eq in E. contradiction. Qed.

Lemma texpr_eqb_refl u : texpr_eqb u u = true.
Proof.
  induction u; simpl; rewrite ?IHu, ?IHu1, ?IHu2, ?Z.eqb_refl, ?Pos.eqb_refl, ?N.eqb_refl; auto.
  - destruct a; simpl; rewrite ?Nat.eqb_refl, ?String.eqb_refl, ?natlist_eqb_refl, ?Bool.eqb_reflx; auto;
      destruct s; auto.
  - destruct f; simpl; rewrite ?String.eqb_refl; auto.
Qed.

Lemma existsb_texpr_eqb x l : existsb (texpr_eqb x) l = true <-> In x l.
Proof.
  rewrite existsb_exists. split.
  - intros [y [Hy E]]. apply texpr_eqb_eq in E. now subst.
  - intros H. exists x. split; auto. apply texpr_eqb_refl.
Qed.

Lemma dedup_in x l : In x (dedup l) <-> In x l.
Proof.
  induction l as [|y r IH]; simpl; [tauto|].
  destruct (existsb (texpr_eqb y) (dedup r)) eqn:E.
  - apply existsb_texpr_eqb in E. rewrite IH. split; [tauto|]. intros [->|H]; auto. now apply IH.
  - simpl. rewrite IH. tauto.
Qed.

Lemma index_of_lt t tb : In t tb -> index_of t tb < length tb.
Proof.
  induction tb as [|x r IH]; simpl; [tauto|]. intros H.
  destruct (texpr_eqb t x) eqn:E; [lia|].
  destruct H as [->|H]; [rewrite texpr_eqb_refl in E; discriminate|]. apply IH in H. lia.
Qed.

Lemma index_of_nth_gen {A} (g : texpr -> A) t tb d : In t tb -> nth (index_of t tb) (map g tb) d = g t.
Proof.
  induction tb as [|x r IH]; simpl; [tauto|]. intros H.
  destruct (texpr_eqb t x) eqn:E.
  - apply texpr_eqb_eq in E. now subst.
  - destruct H as [->|H]; [rewrite texpr_eqb_refl in E; discriminate|]. now apply IH.
Qed.

(* ---------------------------------------------------------------- lengths *)
Lemma mzero_length n : length (mzero n) = n.
Proof. apply repeat_length. Qed.

Lemma munit_length n : forall i, length (munit n i) = n.
Proof. induction n; intros [|i]; simpl; auto. now rewrite mzero_length. Qed.

Lemma mmul_length a : forall b, length a = length b -> length (mmul a b) = length a.
Proof. induction a as [|x a IH]; intros [|y b]; simpl; intros H; try discriminate; auto. Qed.

Definition wf (n : nat) (p : poly) : Prop := Forall (fun cm => length (snd cm) = n) p.

Lemma pins_wf n c m p : length m = n -> wf n p -> wf n (pins c m p).
Proof.
  intros Hm. induction p as [|[c' m'] r IH]; simpl; intros Hp.
  - destruct (Qeq_bool c 0); constructor; auto.
  - inversion Hp as [|? ? H1 H2]; subst. simpl in H1. destruct (mono_eqb m m').
    + destruct (Qeq_bool (Qred (c + c')) 0); auto. constructor; auto.
    + constructor; auto. apply IH; auto.
Qed.

Lemma pnorm_wf n p : wf n p -> wf n (pnorm p).
Proof.
  induction p as [|[c m] r IH]; simpl; intros H; [constructor|].
  inversion H; subst. apply pins_wf; auto.
Qed.

Lemma wf_app n a b : wf n a -> wf n b -> wf n (a ++ b).
Proof. intros. apply Forall_app. split; auto. Qed.

Lemma pneg_wf n p : wf n p -> wf n (pneg p).
Proof. unfold wf, pneg. rewrite Forall_map. simpl. auto. Qed.

Lemma pscale_wf n c m p : length m = n -> wf n p -> wf n (pscale c m p).
Proof.
  intros Hm Hp. unfold wf, pscale. rewrite Forall_map. simpl.
  eapply Forall_impl; [|exact Hp]. intros [c' m'] Ha. simpl in *. rewrite mmul_length; lia.
Qed.

Lemma pmul_wf n a b : wf n a -> wf n b -> wf n (pmul a b).
Proof.
  intros Ha Hb. apply pnorm_wf. induction Ha as [|[c m] r Hm _ IH]; simpl; [constructor|].
  apply wf_app; auto. apply pscale_wf; auto.
Qed.

Lemma pconst_wf n c : wf n (pconst n c).
Proof. apply pnorm_wf. constructor; [apply mzero_length|constructor]. Qed.

Lemma pvar_wf n i : wf n (pvar n i).
Proof. constructor; [apply munit_length|constructor]. Qed.

Lemma ppow_wf n p k : wf n p -> wf n (ppow_nat n p k).
Proof. intros H. induction k; simpl; [apply pconst_wf|now apply pmul_wf]. Qed.

Lemma expand_wf tb t : wf (length tb) (expand tb t).
Proof.
  induction t; simpl;
    first [apply pconst_wf | apply pvar_wf | apply pnorm_wf; apply wf_app; auto; now apply pneg_wf
          | apply pmul_wf; auto; apply pvar_wf | apply pnorm_wf; now apply pneg_wf | now apply ppow_wf].
Qed.

(* ---------------------------------------------------------------- merged lists *)
(* normal form: pairwise distinct monomials, no zero coefficient *)
Definition nf (p : poly) : Prop := NoDup (map snd p) /\ Forall (fun cm => ~ (fst cm == 0)%Q) p.

Lemma pins_monos c m p x : In x (map snd (pins c m p)) -> x = m \/ In x (map snd p).
Proof.
  induction p as [|[c' m'] r IH]; simpl.
  - destruct (Qeq_bool c 0); simpl; intuition.
  - destruct (mono_eqb m m') eqn:E.
    + destruct (Qeq_bool (Qred (c + c')) 0); simpl; intuition.
    + simpl. intros [H|H]; auto. apply IH in H. tauto.
Qed.

Lemma pins_nf c m p : nf p -> nf (pins c m p).
Proof.
  intros [Hd Hz]. induction p as [|[c' m'] r IH]; simpl.
  - destruct (Qeq_bool c 0) eqn:E; split; simpl; try constructor; auto; try constructor.
    simpl. intros H. apply Qeq_bool_iff in H. congruence.
  - inversion Hd as [|? ? Hn Hd']; subst. inversion Hz as [|? ? Hc Hz']; subst.
    destruct (mono_eqb m m') eqn:E.
    + destruct (Qeq_bool (Qred (c + c')) 0) eqn:E0.
      * split; auto.
      * split; simpl; [constructor; auto|]. constructor; auto. simpl.
        intros H. apply Qeq_bool_iff in H. congruence.
    + destruct (IH Hd' Hz') as [I1 I2]. split; simpl.
      * constructor; auto. intros H. apply pins_monos in H. destruct H as [->|H]; auto.
        rewrite mono_eqb_refl in E. discriminate.
      * constructor; auto.
Qed.

Lemma pnorm_nf p : nf (pnorm p).
Proof.
  induction p as [|[c m] r IH]; simpl.
  - split; constructor.
  - now apply pins_nf.
Qed.

Lemma ppow_nf n p k : nf (ppow_nat n p k).
Proof. destruct k; simpl; apply pnorm_nf. Qed.

Lemma pvar_nf n i : nf (pvar n i).
Proof. split; simpl; repeat constructor; auto. simpl. intros H. discriminate. Qed.

Lemma expand_nf tb t : nf (expand tb t).
Proof. destruct t; simpl; first [apply pnorm_nf | apply pvar_nf | apply ppow_nf]. Qed.

(* ================================================================= 1. soundness of the expansion *)
Section PolyEval.
  Variable R : Type.
  Variables (r0 r1 : R) (radd rmul rsub : R -> R -> R) (ropp : R -> R).
  Hypothesis Rth : ring_theory r0 r1 radd rmul rsub ropp (@eq R).
  Variable qc : Q -> R.                      (* the ring is a Q-algebra *)
  Hypothesis qc_eq : forall a b, (a == b)%Q -> qc a = qc b.
  Hypothesis qc_add : forall a b, qc (a + b)%Q = radd (qc a) (qc b).
  Hypothesis qc_mul : forall a b, qc (a * b)%Q = rmul (qc a) (qc b).
  Hypothesis qc_0 : qc 0%Q = r0.
  Hypothesis qc_1 : qc 1%Q = r1.

  Add Ring RR : Rth.
  Infix "+" := radd. Infix "*" := rmul. Infix "-" := rsub.
  Notation "- x" := (ropp x).
  Notation "0" := r0. Notation "1" := r1.
  Notation rpow := (vpow R r1 rmul).

  Lemma qc_opp a : qc (- a)%Q = - qc a.
  Proof.
    assert (H : qc (- a)%Q + qc a = 0).
    { rewrite <- qc_add. rewrite <- qc_0. apply qc_eq. ring. }
    replace (qc (- a)%Q) with (qc (- a)%Q + qc a - qc a) by ring. rewrite H. ring.
  Qed.

  Lemma rpow_add x a b : rpow x (a + b)%nat = rpow x a * rpow x b.
  Proof. induction a; simpl; [ring|]. rewrite IHa. ring. Qed.

  Fixpoint meval (vals : list R) (m : mono) : R :=
    match vals, m with
    | x :: vs, e :: r => rpow x e * meval vs r
    | _, _ => 1
    end.

  Fixpoint peval (vals : list R) (p : poly) : R :=
    match p with [] => 0 | (c, m) :: r => qc c * meval vals m + peval vals r end.

  Lemma meval_mmul vals : forall a b, meval vals (mmul a b) = meval vals a * meval vals b.
  Proof.
    induction vals as [|x vs IH]; intros a b.
    - destruct a, b; simpl; ring.
    - destruct a as [|e a], b as [|e' b]; simpl; try ring.
      rewrite rpow_add, IH. ring.
  Qed.

  Lemma meval_mzero vals n : meval vals (mzero n) = 1.
  Proof. revert n. induction vals as [|x vs IH]; intros [|n]; simpl; auto. rewrite IH. ring. Qed.

  Lemma meval_munit vals : forall n i, (i < n)%nat -> (n <= length vals)%nat -> meval vals (munit n i) = nth i vals 1.
  Proof.
    induction vals as [|x vs IH]; intros n i Hi Hn; simpl in *.
    - lia.
    - destruct n; [lia|]. destruct i; simpl.
      + rewrite meval_mzero. ring.
      + rewrite IH by lia. ring.
  Qed.

  Lemma peval_app vals a b : peval vals (a ++ b) = peval vals a + peval vals b.
  Proof. induction a as [|[c m] r IH]; simpl; [ring|]. rewrite IH. ring. Qed.

  Lemma peval_pneg vals p : peval vals (pneg p) = - peval vals p.
  Proof. induction p as [|[c m] r IH]; simpl; [ring|]. rewrite IH, qc_opp. ring. Qed.

  Lemma peval_pins vals c m p : peval vals (pins c m p) = qc c * meval vals m + peval vals p.
  Proof.
    induction p as [|[c' m'] r IH]; simpl.
    - destruct (Qeq_bool c 0) eqn:E; simpl; [|ring].
      apply Qeq_bool_iff in E. rewrite (qc_eq _ _ E), qc_0. ring.
    - destruct (mono_eqb m m') eqn:Em.
      + apply mono_eqb_eq in Em. subst m'.
        assert (Hs : qc (Qred (c + c')) = qc c + qc c').
        { rewrite <- qc_add. apply qc_eq. apply Qred_correct. }
        destruct (Qeq_bool (Qred (c + c')) 0) eqn:E; simpl.
        * apply Qeq_bool_iff in E. rewrite (qc_eq _ _ E), qc_0 in Hs.
          replace (qc c * meval vals m + (qc c' * meval vals m + peval vals r))
            with ((qc c + qc c') * meval vals m + peval vals r) by ring.
          rewrite <- Hs. ring.
        * rewrite Hs. ring.
      + simpl. rewrite IH. ring.
  Qed.

  Lemma peval_pnorm vals p : peval vals (pnorm p) = peval vals p.
  Proof. induction p as [|[c m] r IH]; simpl; auto. rewrite peval_pins, IH. reflexivity. Qed.

  Lemma peval_pscale vals c m p : peval vals (pscale c m p) = qc c * meval vals m * peval vals p.
  Proof.
    induction p as [|[c' m'] r IH]; simpl; [ring|].
    rewrite IH, meval_mmul. rewrite (qc_eq _ _ (Qred_correct (c * c'))), qc_mul. ring.
  Qed.

  Lemma peval_pmul vals a b : peval vals (pmul a b) = peval vals a * peval vals b.
  Proof.
    unfold pmul. rewrite peval_pnorm.
    induction a as [|[c m] r IH]; simpl; [ring|].
    rewrite peval_app, peval_pscale, IH. ring.
  Qed.

  Lemma peval_pconst vals n c : peval vals (pconst n c) = qc c.
  Proof. unfold pconst. rewrite peval_pnorm. simpl. rewrite meval_mzero. ring. Qed.

  Lemma peval_ppow vals n p k : peval vals (ppow_nat n p k) = rpow (peval vals p) k.
  Proof.
    induction k; cbn [ppow_nat vpow].
    - rewrite peval_pconst. apply qc_1.
    - rewrite peval_pmul, IHk. reflexivity.
  Qed.

  (* evaluation of a terminal expression from the values of its keys *)
  Variable kval : texpr -> R.

  Fixpoint gev (t : texpr) : R :=
    match t with
    | TZ z => qc (inject_Z z)
    | TQ p q => qc (p # q)
    | TAt _ | TFn _ _ | TPowG _ _ | TInv _ => kval t
    | TAdd a b => gev a + gev b
    | TSub a b => gev a - gev b
    | TMul a b => gev a * gev b
    | TDiv a b => gev a * kval (TInv b)
    | TOpp a => - gev a
    | TPowN a k => rpow (gev a) (N.to_nat k)
    end.

  Lemma peval_pvar tb t : In t tb -> peval (map kval tb) (pvar (length tb) (index_of t tb)) = kval t.
  Proof.
    intros H. unfold pvar. simpl.
    rewrite meval_munit; [|now apply index_of_lt|rewrite map_length; lia].
    rewrite index_of_nth_gen by exact H. rewrite qc_1. ring.
  Qed.

  Theorem expand_sound tb t :
    (forall k, In k (keys t) -> In k tb) -> peval (map kval tb) (expand tb t) = gev t.
  Proof.
    induction t; cbn [expand gev keys]; intros Hk.
    - apply peval_pconst.
    - rewrite peval_pconst. apply qc_eq. apply Qred_correct.
    - apply peval_pvar. apply Hk. now left.
    - unfold padd. rewrite peval_pnorm, peval_app, IHt1, IHt2; auto; intros; apply Hk; apply in_or_app; auto.
    - unfold psub. rewrite peval_pnorm, peval_app, peval_pneg, IHt1, IHt2; [ring| |]; intros; apply Hk; apply in_or_app; auto.
    - rewrite peval_pmul, IHt1, IHt2; auto; intros; apply Hk; apply in_or_app; auto.
    - rewrite peval_pmul, IHt1, peval_pvar; auto.
      + apply Hk. apply in_or_app. right. now left.
      + intros; apply Hk; apply in_or_app; auto.
    - rewrite peval_pnorm, peval_pneg, IHt; auto.
    - apply peval_pvar. apply Hk. now left.
    - rewrite peval_ppow, IHt; auto.
    - apply peval_pvar. apply Hk. now left.
    - apply peval_pvar. apply Hk. now left.
  Qed.

  Corollary xexpand_sound t : peval (map kval (xtb (xexpand t))) (xp (xexpand t)) = gev t.
  Proof. apply expand_sound. intros k Hk. unfold xexpand, table. simpl. now apply dedup_in. Qed.
End PolyEval.

(* ================================================================= 2. the criterion is sound *)
Lemma msum_cons x r : msum (x :: r) = x + msum r.
Proof. reflexivity. Qed.

Section CritSound.
  Variable F : Type.
  Variables (f0 f1 : F) (fadd fmul fsub : F -> F -> F) (fopp : F -> F) (fdiv : F -> F -> F) (finv : F -> F).
  Hypothesis Fth : field_theory f0 f1 fadd fmul fsub fopp fdiv finv (@eq F).
  Notation phi := (phi F f0 f1 fadd fmul fopp).
  Hypothesis char0 : forall p : positive, phi (Zpos p) <> f0.
  Variable E : fname -> F -> F.
  Variable P : F -> F -> F.

  Add Field FF : Fth.
  Infix "+" := fadd. Infix "*" := fmul. Infix "-" := fsub. Infix "/" := fdiv.
  Notation "- x" := (fopp x).
  Notation "0" := f0. Notation "1" := f1.
  Let Rth := F_R Fth.
  Let M := gen_phiZ_morph (Eqsth F) (Eq_ext fadd fmul fopp) Rth.

  (* rational numbers in a field of characteristic 0 *)
  Definition qcF (q : Q) : F := phi (Qnum q) / phi (Zpos (Qden q)).

  Lemma phi_add a b : phi (a + b)%Z = phi a + phi b.
  Proof. apply (morph_add M). Qed.
  Lemma phi_mul a b : phi (a * b)%Z = phi a * phi b.
  Proof. apply (morph_mul M). Qed.

  Lemma qcF_eq a b : (a == b)%Q -> qcF a = qcF b.
  Proof.
    unfold Qeq, qcF. intros H.
    assert (H' : phi (Qnum a) * phi (Zpos (Qden b)) = phi (Qnum b) * phi (Zpos (Qden a))).
    { rewrite <- !phi_mul. now rewrite H. }
    pose proof (char0 (Qden a)) as Ha. pose proof (char0 (Qden b)) as Hb.
    replace (phi (Qnum a) / phi (Zpos (Qden a)))
      with ((phi (Qnum a) * phi (Zpos (Qden b))) / (phi (Zpos (Qden a)) * phi (Zpos (Qden b)))) by (field; auto).
    rewrite H'. field. auto.
  Qed.

  Lemma qcF_add a b : qcF (a + b)%Q = qcF a + qcF b.
  Proof.
    unfold qcF, Qplus. cbn [Qnum Qden]. rewrite Pos2Z.inj_mul, phi_add, !phi_mul.
    pose proof (char0 (Qden a)). pose proof (char0 (Qden b)). field. auto.
  Qed.

  Lemma qcF_mul a b : qcF (a * b)%Q = qcF a * qcF b.
  Proof.
    unfold qcF, Qmult. cbn [Qnum Qden]. rewrite Pos2Z.inj_mul, !phi_mul.
    pose proof (char0 (Qden a)). pose proof (char0 (Qden b)). field. auto.
  Qed.

  Lemma one_nz : 1 <> 0.
  Proof. apply (F_1_neq_0 Fth). Qed.

  Lemma qcF_0 : qcF 0%Q = 0.
  Proof. unfold qcF. simpl. field. apply one_nz. Qed.
  Lemma qcF_1 : qcF 1%Q = 1.
  Proof. unfold qcF. simpl. field. apply one_nz. Qed.
  Lemma qcF_Z z : qcF (inject_Z z) = phi z.
  Proof. unfold qcF, inject_Z. simpl. field. apply one_nz. Qed.

  Notation mev := (meval F f1 fmul).
  Notation pev := (peval F f0 f1 fadd fmul qcF).
  Notation gv := (gev F f1 fadd fmul fsub fopp qcF).
  Notation vv := (vev F f1 fadd fmul fsub fopp fdiv finv phi E P).
  Notation pw := (vpow F f1 fmul).

  Lemma gev_vev rho t : gv (vv rho) t = vv rho t.
  Proof.
    induction t; cbn [gev vev]; rewrite ?IHt, ?IHt1, ?IHt2; auto.
    - apply qcF_Z.
    - rewrite (Fdiv_def Fth). reflexivity.
  Qed.

  Theorem vev_expand rho t : pev (map (vv rho) (table t)) (expand (table t) t) = vv rho t.
  Proof.
    rewrite <- gev_vev.
    apply (xexpand_sound F f0 f1 fadd fmul fsub fopp Rth qcF qcF_eq qcF_add qcF_mul qcF_0 qcF_1).
  Qed.

  (* ---------------------------------------------------------------- additivity *)
  Variable args : list string.

  Section Add.
    Variables r1 r2 r12 : atom -> F.
    Hypothesis Harg : forall a, atom_is_arg args a = true -> r12 a = r1 a + r2 a.
    Hypothesis Hoff : forall a, atom_is_arg args a = false -> r12 a = r1 a /\ r2 a = r1 a.

    Lemma is_arg_atom_spec a : is_arg_atom args (TAt a) = atom_is_arg args a.
    Proof. destruct a; reflexivity. Qed.

    Lemma clean_add t : mentions args t = false -> vv r12 t = vv r1 t /\ vv r2 t = vv r1 t.
    Proof.
      induction t; cbn [mentions vev]; intros H;
        repeat match goal with
               | H : _ || _ = false |- _ => apply orb_false_iff in H; destruct H
               end;
        repeat match goal with
               | IH : mentions args ?t = false -> _, H : mentions args ?t = false |- _ => specialize (IH H); destruct IH
               end; try (split; congruence).
      rewrite is_arg_atom_spec in H. now apply Hoff.
    Qed.

    Fixpoint rel_add (cl : list kind) (v1 v2 v12 : list F) : Prop :=
      match cl, v1, v2, v12 with
      | k :: cl', x1 :: s1, x2 :: s2, x12 :: s12 =>
          match k with KArg => x12 = x1 + x2 | KClean => x12 = x1 /\ x2 = x1 | KDirty => True end
          /\ rel_add cl' s1 s2 s12
      | [], [], [], [] => True
      | _, _, _, _ => False
      end.

    Lemma rel_add_table tb : rel_add (cls args tb) (map (vv r1) tb) (map (vv r2) tb) (map (vv r12) tb).
    Proof.
      induction tb as [|t tb IH]; simpl; auto. split; auto.
      unfold kind_of. destruct (is_arg_atom args t) eqn:Ea.
      - destruct t; try discriminate. simpl. apply Harg. now rewrite <- is_arg_atom_spec.
      - destruct (mentions args t) eqn:Em; auto. now apply clean_add.
    Qed.

    Lemma mono_add cl : forall v1 v2 v12 m, rel_add cl v1 v2 v12 -> dirtydeg cl m = 0%nat ->
      (argdeg cl m = 0%nat -> mev v12 m = mev v1 m /\ mev v2 m = mev v1 m) /\
      (argdeg cl m = 1%nat -> mev v12 m = mev v1 m + mev v2 m).
    Proof.
      unfold argdeg, dirtydeg.
      induction cl as [|k cl IH]; intros [|x1 s1] [|x2 s2] [|x12 s12] m Hr Hd; simpl in Hr; try contradiction.
      - destruct m; simpl; split; intros H; try discriminate; auto.
      - destruct Hr as [Hk Hr]. destruct m as [|e m].
        + simpl. split; intros H; try discriminate; auto.
        + cbn [mask] in *. rewrite msum_cons in *. cbn [meval].
          destruct (IH _ _ _ m Hr) as [I0 I1]; [destruct k; simpl in Hd; lia|].
          destruct k; simpl in *.
          * (* argument atom *)
            split; intros H.
            -- assert (e = 0%nat) by lia. subst e. destruct I0 as [A B]; [lia|]. simpl. rewrite A, B. auto.
            -- destruct e as [|[|e]]; [| |lia].
               ++ simpl. rewrite I1 by lia. ring.
               ++ destruct I0 as [A B]; [lia|]. simpl. rewrite A, B, Hk. ring.
          * (* dirty key: exponent 0 *)
            assert (e = 0%nat) by lia. subst e. simpl.
            split; intros H.
            -- destruct I0 as [A B]; [lia|]. rewrite A, B. auto.
            -- rewrite I1 by lia. ring.
          * (* clean key: same value *)
            destruct Hk as [K1 K2]. subst x12 x2.
            split; intros H.
            -- destruct I0 as [A B]; [lia|]. rewrite A, B. auto.
            -- rewrite I1 by lia. ring.
    Qed.

    Lemma poly_add cl v1 v2 v12 p : rel_add cl v1 v2 v12 -> crit_poly cl p = true ->
      pev v12 p = pev v1 p + pev v2 p.
    Proof.
      intros Hr. induction p as [|[c m] r IH]; simpl; intros H.
      - ring.
      - apply andb_true_iff in H. destruct H as [Hm Hp]. rewrite (IH Hp).
        unfold crit_mono in Hm. apply andb_true_iff in Hm. destruct Hm as [Ha Hd].
        apply Nat.eqb_eq in Ha. apply Nat.eqb_eq in Hd.
        destruct (mono_add cl v1 v2 v12 m Hr Hd) as [_ I1]. rewrite (I1 Ha). ring.
    Qed.

    Theorem crit_additive t : crit args (xexpand t) = true -> vv r12 t = vv r1 t + vv r2 t.
    Proof.
      unfold crit, xexpand. simpl. intros H.
      rewrite <- (vev_expand r12), <- (vev_expand r1), <- (vev_expand r2).
      eapply poly_add; eauto. apply rel_add_table.
    Qed.
  End Add.

  (* ---------------------------------------------------------------- homogeneity *)
  Section Hom.
    Variables (r rc : atom -> F) (c : F).
    Hypothesis Harg : forall a, atom_is_arg args a = true -> rc a = c * r a.
    Hypothesis Hoff : forall a, atom_is_arg args a = false -> rc a = r a.

    Lemma clean_hom t : mentions args t = false -> vv rc t = vv r t.
    Proof.
      induction t; cbn [mentions vev]; intros H;
        repeat match goal with
               | H : _ || _ = false |- _ => apply orb_false_iff in H; destruct H
               end;
        repeat match goal with
               | IH : mentions args ?t = false -> _, H : mentions args ?t = false |- _ => specialize (IH H)
               end; try congruence.
      rewrite is_arg_atom_spec in H. now apply Hoff.
    Qed.

    Fixpoint rel_hom (cl : list kind) (v vc : list F) : Prop :=
      match cl, v, vc with
      | k :: cl', x :: s, xc :: sc =>
          match k with KArg => xc = c * x | KClean => xc = x | KDirty => True end /\ rel_hom cl' s sc
      | [], [], [] => True
      | _, _, _ => False
      end.

    Lemma rel_hom_table tb : rel_hom (cls args tb) (map (vv r) tb) (map (vv rc) tb).
    Proof.
      induction tb as [|t tb IH]; simpl; auto. split; auto.
      unfold kind_of. destruct (is_arg_atom args t) eqn:Ea.
      - destruct t; try discriminate. simpl. apply Harg. now rewrite <- is_arg_atom_spec.
      - destruct (mentions args t) eqn:Em; auto. now apply clean_hom.
    Qed.

    Lemma mono_hom cl : forall v vc m, rel_hom cl v vc -> dirtydeg cl m = 0%nat ->
      (argdeg cl m = 0%nat -> mev vc m = mev v m) /\ (argdeg cl m = 1%nat -> mev vc m = c * mev v m).
    Proof.
      unfold argdeg, dirtydeg.
      induction cl as [|k cl IH]; intros [|x s] [|xc sc] m Hr Hd; simpl in Hr; try contradiction.
      - destruct m; simpl; split; intros H; try discriminate; auto.
      - destruct Hr as [Hk Hr]. destruct m as [|e m].
        + simpl. split; intros H; try discriminate; auto.
        + cbn [mask] in *. rewrite msum_cons in *. cbn [meval].
          destruct (IH _ _ m Hr) as [I0 I1]; [destruct k; simpl in Hd; lia|].
          destruct k; simpl in *.
          * split; intros H.
            -- assert (e = 0%nat) by lia. subst e. simpl. rewrite I0 by lia. auto.
            -- destruct e as [|[|e]]; [| |lia].
               ++ simpl. rewrite I1 by lia. ring.
               ++ simpl. rewrite I0 by lia. rewrite Hk. ring.
          * assert (e = 0%nat) by lia. subst e. simpl.
            split; intros H; [rewrite I0 by lia; auto|rewrite I1 by lia; ring].
          * subst xc. split; intros H; [rewrite I0 by lia; auto|rewrite I1 by lia; ring].
    Qed.

    Lemma poly_hom cl v vc p : rel_hom cl v vc -> crit_poly cl p = true -> pev vc p = c * pev v p.
    Proof.
      intros Hr. induction p as [|[q m] s IH]; simpl; intros H.
      - ring.
      - apply andb_true_iff in H. destruct H as [Hm Hp]. rewrite (IH Hp).
        unfold crit_mono in Hm. apply andb_true_iff in Hm. destruct Hm as [Ha Hd].
        apply Nat.eqb_eq in Ha. apply Nat.eqb_eq in Hd.
        destruct (mono_hom cl v vc m Hr Hd) as [_ I1]. rewrite (I1 Ha). ring.
    Qed.

    Theorem crit_homogeneous t : crit args (xexpand t) = true -> vv rc t = c * vv r t.
    Proof.
      unfold crit, xexpand. simpl. intros H.
      rewrite <- (vev_expand rc), <- (vev_expand r).
      eapply poly_hom; eauto. apply rel_hom_table.
    Qed.
  End Hom.
End CritSound.

(* ================================================================= 2'. the same in every differential field *)
(* replace the functions denoted by the field symbols; everything else is unchanged *)
Definition with_fld (S : dfield) (g : string -> nat -> side -> F S) : dfield :=
  {| F := F S; f0 := f0 S; f1 := f1 S; fadd := fadd S; fmul := fmul S; fsub := fsub S; fopp := fopp S;
     fdiv := fdiv S; finv := finv S; Fth := Fth S; cst := cst S; crd := crd S; fld := g; mp := mp S; nrm := nrm S;
     D := D S; E := E S; P := P S; D_add := D_add S; D_mul := D_mul S; D_phi := D_phi S; D_cst := D_cst S;
     D_crd := D_crd S; D_comm := D_comm S; Edom := Edom S; Pdom := Pdom S; D_sin := D_sin S; D_cos := D_cos S;
     D_tan := D_tan S; D_exp := D_exp S; D_log := D_log S; D_sqrt := D_sqrt S; D_pow := D_pow S;
     Edom_sin_cos := Edom_sin_cos S; Pdom_log := Pdom_log S; P_pos := P_pos S; P_zero := P_zero S; P_neg := P_neg S |}.

Section DFieldLinear.
  Variable S : dfield.
  Add Field SF : (Fth S).
  Notation "0" := (f0 S). Notation "1" := (f1 S).
  Infix "+" := (fadd S). Infix "*" := (fmul S).

  Definition char0 : Prop := forall p : positive, num S (Zpos p) <> 0.

  (* the value of an atom when the field symbols denote g *)
  Definition aev (g : string -> nat -> side -> F S) (a : atom) : F S :=
    aeval (F S) (cst S) (crd S) g (mp S) (nrm S) (D S) a.

  Notation vvS := (vev (F S) (f1 S) (fadd S) (fmul S) (fsub S) (fopp S) (fdiv S) (finv S)
                       (phi (F S) (f0 S) (f1 S) (fadd S) (fmul S) (fopp S)) (E S) (P S)).

  Lemma fpow_vpow (x : F S) n : fpow (F S) (f1 S) (fmul S) x n = vpow (F S) (f1 S) (fmul S) x (N.to_nat n).
  Proof.
    destruct n as [|p]; [reflexivity|]. unfold fpow. simpl.
    induction p using Pos.peano_ind.
    - simpl. ring.
    - rewrite (pow_pos_succ' (F S) _ _ _ _ _ _ _ _ (Fth S)), Pos2Nat.inj_succ. simpl. now rewrite IHp.
  Qed.

  Lemma ev_vev g t : ev (with_fld S g) t = vvS (aev g) t.
  Proof.
    unfold ev. simpl.
    induction t; cbn [teval vev]; rewrite ?IHt, ?IHt1, ?IHt2; auto.
    apply fpow_vpow.
  Qed.

  Lemma ev_vev0 t : ev S t = vvS (aev (fld S)) t.
  Proof.
    unfold ev.
    induction t; cbn [teval vev]; rewrite ?IHt, ?IHt1, ?IHt2; auto.
    apply fpow_vpow.
  Qed.

  Lemma iterN_add n (g : F S -> F S) : (forall a b, g (a + b) = g a + g b) ->
    forall a b, iterN (F S) n g (a + b) = iterN (F S) n g a + iterN (F S) n g b.
  Proof. intros Hg a b. induction n; simpl; auto. now rewrite IHn, Hg. Qed.

  Lemma iterD_add lg al : forall k a b,
    iterD (F S) (D S) lg k al (a + b) = iterD (F S) (D S) lg k al a + iterD (F S) (D S) lg k al b.
  Proof.
    induction al as [|n al IH]; intros k a b; simpl; auto.
    rewrite IH. apply iterN_add. intros. apply (D_add S).
  Qed.

  Lemma iterD_scale c lg al : (forall lg i, D S lg i c = 0) -> forall k a,
    iterD (F S) (D S) lg k al (c * a) = c * iterD (F S) (D S) lg k al a.
  Proof.
    intros Hc. induction al as [|n al IH]; intros k a; simpl; auto.
    rewrite IH. generalize (iterD (F S) (D S) lg (Datatypes.S k) al a). intros x.
    induction n; simpl; auto. rewrite IHn, (D_mul S), Hc. ring.
  Qed.

  Variable args : list string.
  Definition repl (g : string -> nat -> side -> F S) : string -> nat -> side -> F S :=
    fun f c s => if argb args f then g f c s else fld S f c s.

  Theorem crit_additive_dfield e : char0 -> crit args (xexpand e) = true ->
    forall g1 g2,
      ev (with_fld S (repl (fun f c s => g1 f c s + g2 f c s))) e
      = ev (with_fld S (repl g1)) e + ev (with_fld S (repl g2)) e.
  Proof.
    intros H0 Hc g1 g2. rewrite !ev_vev.
    apply (crit_additive (F S) _ _ _ _ _ _ _ _ (Fth S) H0 (E S) (P S) args); auto.
    - intros [| |lg f c s al| |]; simpl; try discriminate. intros Ha. unfold repl. rewrite Ha. apply iterD_add.
    - intros [| |lg f c s al| |]; simpl; auto. intros Ha. unfold repl. rewrite Ha. auto.
  Qed.

  Theorem crit_homogeneous_dfield e : char0 -> crit args (xexpand e) = true ->
    forall c, (forall lg i, D S lg i c = 0) ->
      ev (with_fld S (repl (fun f k s => c * fld S f k s))) e = c * ev S e.
  Proof.
    intros H0 Hc c Dc. rewrite ev_vev, ev_vev0.
    apply (crit_homogeneous (F S) _ _ _ _ _ _ _ _ (Fth S) H0 (E S) (P S) args); auto.
    - intros [| |lg f k s al| |]; simpl; try discriminate. intros Ha. unfold repl. rewrite Ha. now apply iterD_scale.
    - intros [| |lg f k s al| |]; simpl; auto. intros Ha. unfold repl. rewrite Ha. auto.
  Qed.
End DFieldLinear.

(* ================================================================= 3. the verdict is the criterion *)
Local Open Scope Q_scope.

Lemma coefsum_app m a b : coefsum m (a ++ b) == coefsum m a + coefsum m b.
Proof.
  induction a as [|[c m'] r IH]; simpl; [ring|].
  destruct (mono_eqb m m'); rewrite IH; ring.
Qed.

Lemma coefsum_pneg m p : coefsum m (pneg p) == - coefsum m p.
Proof.
  induction p as [|[c m'] r IH]; simpl; [ring|].
  destruct (mono_eqb m m'); rewrite IH; ring.
Qed.

Lemma coefsum_notin m p : ~ In m (map snd p) -> coefsum m p = 0.
Proof.
  induction p as [|[c m'] r IH]; simpl; auto. intros H.
  rewrite mono_eqb_neq by (intros ->; apply H; now left). apply IH. tauto.
Qed.

Lemma coefsum_pins m0 c m p : coefsum m0 (pins c m p) == (if mono_eqb m0 m then c else 0) + coefsum m0 p.
Proof.
  induction p as [|[c' m'] r IH]; simpl.
  - destruct (Qeq_bool c 0) eqn:E; simpl.
    + apply Qeq_bool_iff in E. destruct (mono_eqb m0 m); [rewrite E|]; ring.
    + destruct (mono_eqb m0 m); ring.
  - destruct (mono_eqb m m') eqn:Em.
    + apply mono_eqb_eq in Em. subst m'.
      pose proof (Qred_correct (c + c')) as Hs.
      destruct (Qeq_bool (Qred (c + c')) 0) eqn:E; simpl.
      * apply Qeq_bool_iff in E. rewrite E in Hs.
        destruct (mono_eqb m0 m); [|ring].
        setoid_replace (c + (c' + coefsum m0 r)) with ((c + c') + coefsum m0 r) by ring.
        rewrite <- Hs. ring.
      * destruct (mono_eqb m0 m); [rewrite Hs|]; ring.
    + simpl. destruct (mono_eqb m0 m'); rewrite IH; ring.
Qed.

Lemma coefsum_pnorm m p : coefsum m (pnorm p) == coefsum m p.
Proof.
  induction p as [|[c m'] r IH]; simpl; [reflexivity|].
  rewrite coefsum_pins, IH. destruct (mono_eqb m m'); ring.
Qed.

Definition ceq (a b : poly) : Prop := forall m, coefsum m a == coefsum m b.

Lemma pzero_spec q : pzero q = true <-> forall m, coefsum m q == 0.
Proof.
  unfold pzero. rewrite forallb_forall. split.
  - intros H m. destruct (in_dec (list_eq_dec Nat.eq_dec) m (map snd q)) as [Hi|Hn].
    + apply in_map_iff in Hi. destruct Hi as [cm [<- Hc]]. apply Qeq_bool_iff. now apply H.
    + rewrite coefsum_notin by exact Hn. reflexivity.
  - intros H cm _. apply Qeq_bool_iff. apply H.
Qed.

Lemma pzero_diff a b : pzero (a ++ pneg b) = true <-> ceq a b.
Proof.
  rewrite pzero_spec. unfold ceq. split; intros H m; specialize (H m).
  - rewrite coefsum_app, coefsum_pneg in H.
    setoid_replace (coefsum m a) with (coefsum m a + - coefsum m b + coefsum m b) by ring. rewrite H. ring.
  - rewrite coefsum_app, coefsum_pneg, H. ring.
Qed.

Lemma same_expanded_spec a b : same_expanded a b = true <-> ceq a b.
Proof.
  unfold same_expanded. rewrite orb_true_iff, !pzero_diff. split.
  - intros [H|H]; auto. intros m. specialize (H m). now rewrite !coefsum_pnorm in H.
  - auto.
Qed.

(* ---------------------------------------------------------------- exponent vectors *)
Lemma mask_length k cl : forall m, length m = length cl -> length (mask k cl m) = length cl.
Proof. induction cl as [|x cl IH]; intros [|e m]; simpl; intros H; try discriminate; auto. Qed.

Lemma msum_zero v : msum v = 0%nat -> v = mzero (length v).
Proof.
  induction v as [|x v IH]; [reflexivity|]. rewrite msum_cons. intros H.
  assert (x = 0%nat) by lia. subst x. unfold mzero in *. cbn [length repeat]. f_equal. apply IH. lia.
Qed.

Lemma mmul_mzero a : mmul a (mzero (length a)) = a.
Proof. induction a as [|x a IH]; [reflexivity|]. unfold mzero in *. cbn [length repeat mmul]. now rewrite Nat.add_0_r, IH. Qed.

Lemma app_inj_len {A} (a b x y : list A) : length a = length b -> a ++ x = b ++ y -> a = b /\ x = y.
Proof.
  revert b. induction a as [|h a IH]; intros [|h' b] Hl H; simpl in *; try discriminate; auto.
  inversion H; subst. destruct (IH b) as [-> ->]; auto.
Qed.

Lemma blocks_inj n a0 a1 a2 a3 a4 x b0 b1 b2 b3 b4 y :
  length a0 = n -> length a1 = n -> length a2 = n -> length a3 = n -> length a4 = n ->
  length b0 = n -> length b1 = n -> length b2 = n -> length b3 = n -> length b4 = n ->
  blocks a0 a1 a2 a3 a4 x = blocks b0 b1 b2 b3 b4 y ->
  a0 = b0 /\ a1 = b1 /\ a2 = b2 /\ a3 = b3 /\ a4 = b4 /\ x = y.
Proof.
  unfold blocks. intros. 
  repeat match goal with
         | H : ?a ++ _ = ?b ++ _ |- _ => apply app_inj_len in H; [destruct H as [? H]|congruence]
         end.
  inversion H9. repeat split; auto.
Qed.

Lemma mask_decomp cl : forall m, length m = length cl ->
  m = mmul (mask KClean cl m) (mmul (mask KArg cl m) (mask KDirty cl m)).
Proof.
  induction cl as [|k cl IH]; intros [|e m]; simpl; intros H; try discriminate; auto.
  rewrite <- IH by lia. destruct k; simpl; f_equal; lia.
Qed.

Lemma coefsum_map_inj (g : mono -> mono) p c m :
  (forall c1 m1 c2 m2, In (c1, m1) p -> In (c2, m2) p -> g m1 = g m2 -> m1 = m2) ->
  NoDup (map snd p) -> In (c, m) p ->
  coefsum (g m) (map (fun cm => (fst cm, g (snd cm))) p) == c.
Proof.
  induction p as [|[c' m'] r IH]; intros Hinj Hd Hi; [contradiction|].
  inversion Hd as [|? ? Hn Hd']; subst. cbn [map coefsum fst snd]. destruct Hi as [E|Hi].
  - inversion E; subst c' m'. rewrite mono_eqb_refl.
    rewrite coefsum_notin; [ring|]. rewrite map_map. cbn [snd]. intros H. apply in_map_iff in H.
    destruct H as [[c2 m2] [E2 H2]]. simpl in E2.
    assert (m2 = m) by (apply (Hinj c2 m2 c m); simpl; auto). subst m2.
    apply Hn. apply in_map_iff. exists (c2, m). auto.
  - rewrite mono_eqb_neq.
    + apply IH; auto. intros c1 m1 c2 m2 H1 H2. apply (Hinj c1 m1 c2 m2); simpl; auto.
    + intros E. assert (m = m') by (apply (Hinj c m c' m'); simpl; auto). subst m'.
      apply Hn. apply in_map_iff. exists (c, m). auto.
Qed.

Section Exact.
  Variable cl : list kind.
  Notation n := (length cl).

  Definition salm (m : mono) : mono :=
    blocks (mask KClean cl m) (mask KArg cl m) (mzero n) (mzero n) (mask KDirty cl m) (argdeg cl m).
  Definition atlm (m : mono) : mono :=
    blocks (mask KClean cl m) (mmul (mask KArg cl m) (mask KDirty cl m)) (mzero n) (mzero n) (mzero n) 1.

  Lemma map_subst_al p : map (subst_al cl) p = map (fun cm => (fst cm, salm (snd cm))) p.
  Proof. apply map_ext. intros [c m]. reflexivity. Qed.
  Lemma map_al_times_l p : map (al_times_l cl) p = map (fun cm => (fst cm, atlm (snd cm))) p.
  Proof. apply map_ext. intros [c m]. reflexivity. Qed.

  Lemma salm_inj m1 m2 : length m1 = n -> length m2 = n -> salm m1 = salm m2 -> m1 = m2.
  Proof.
    intros L1 L2. unfold salm. intros H.
    apply (blocks_inj n) in H; rewrite ?mask_length, ?mzero_length; auto.
    destruct H as (H0 & H1 & _ & _ & H4 & _).
    rewrite (mask_decomp cl m1 L1), (mask_decomp cl m2 L2). congruence.
  Qed.

  Lemma crit_mono_masks m : length m = n -> crit_mono cl m = true ->
    mask KDirty cl m = mzero n /\ argdeg cl m = 1%nat.
  Proof.
    intros L H. unfold crit_mono in H. apply andb_true_iff in H. destruct H as [Ha Hd].
    apply Nat.eqb_eq in Ha. apply Nat.eqb_eq in Hd. split; auto.
    unfold dirtydeg in Hd. apply msum_zero in Hd. now rewrite mask_length in Hd.
  Qed.

  Lemma msum_mzero k : msum (mzero k) = 0%nat.
  Proof. induction k; simpl; auto. Qed.

  (* (ii) the multiplication test passes on every monomial that meets the criterion *)
  Lemma hom_mono_eq cm : length (snd cm) = n -> crit_mono cl (snd cm) = true -> subst_al cl cm = al_times_l cl cm.
  Proof.
    destruct cm as [c m]. simpl. intros L H. destruct (crit_mono_masks m L H) as [Hd Ha].
    unfold subst_al, al_times_l. simpl. rewrite Hd, Ha.
    replace (mmul (mask KArg cl m) (mzero n)) with (mask KArg cl m); auto.
    rewrite <- (mask_length KArg cl m L). now rewrite mmul_mzero.
  Qed.

  (* (iii) ... and fails as soon as one monomial does not *)
  Lemma coefsum_map_notin M (f : Q * mono -> Q * mono) p :
    (forall cm, In cm p -> snd (f cm) <> M) -> coefsum M (map f p) = 0.
  Proof.
    intros H. apply coefsum_notin. rewrite map_map. intros Hi. apply in_map_iff in Hi.
    destruct Hi as [cm [E Hc]]. now apply (H cm).
  Qed.

  Lemma coefsum_salm p c m : wf n p -> NoDup (map snd p) -> In (c, m) p ->
    coefsum (salm m) (map (subst_al cl) p) == c.
  Proof.
    intros Hw Hd Hi. rewrite map_subst_al. apply coefsum_map_inj; auto.
    intros c1 m1 c2 m2 H1 H2. unfold wf in Hw. rewrite Forall_forall in Hw.
    apply salm_inj; [apply (Hw _ H1)|apply (Hw _ H2)].
  Qed.

  Lemma atlm_ne m m' : length m = n -> length m' = n -> crit_mono cl m = false -> atlm m' <> salm m.
  Proof.
    intros L L' Hc E. unfold atlm, salm in E.
    assert (Lm : length (mmul (mask KArg cl m') (mask KDirty cl m')) = n).
    { rewrite mmul_length; rewrite !mask_length; auto. }
    apply (blocks_inj n) in E; rewrite ?mask_length, ?mzero_length; auto.
    destruct E as (_ & _ & _ & _ & H4 & H5).
    unfold crit_mono in Hc. rewrite <- H5 in Hc. unfold dirtydeg in Hc. rewrite <- H4 in Hc.
    rewrite msum_mzero in Hc. discriminate.
  Qed.

  Theorem hom_test_exact p : nf p -> wf n p -> homogeneous_test cl p = crit_poly cl p.
  Proof.
    intros [Hd Hz] Hw. destruct (crit_poly cl p) eqn:Ec.
    - apply same_expanded_spec.
      replace (map (al_times_l cl) p) with (map (subst_al cl) p); [intros m; reflexivity|].
      apply map_ext_in. intros cm Hi. apply hom_mono_eq.
      + unfold wf in Hw; rewrite Forall_forall in Hw. now apply Hw.
      + unfold crit_poly in Ec. rewrite forallb_forall in Ec. now apply Ec.
    - destruct (homogeneous_test cl p) eqn:Eh; auto. exfalso.
      apply same_expanded_spec in Eh.
      assert (Hex : exists cm, In cm p /\ crit_mono cl (snd cm) = false).
      { clear -Ec. unfold crit_poly in Ec. induction p as [|cm r IH]; simpl in Ec; [discriminate|].
        apply andb_false_iff in Ec. destruct Ec as [E|E].
        - exists cm. split; auto. now left.
        - destruct (IH E) as [x [Hx Hc]]. exists x. split; auto. now right. }
      destruct Hex as [[c m] [Hi Hc]]. simpl in Hc.
      assert (L : length m = n) by (unfold wf in Hw; rewrite Forall_forall in Hw; apply (Hw _ Hi)).
      specialize (Eh (salm m)).
      rewrite (coefsum_salm p c m Hw Hd Hi) in Eh.
      rewrite map_al_times_l, coefsum_map_notin in Eh.
      + rewrite Forall_forall in Hz. apply (Hz _ Hi). exact Eh.
      + intros [c' m'] Hi'. apply atlm_ne; auto. unfold wf in Hw; rewrite Forall_forall in Hw. apply (Hw _ Hi').
  Qed.

  (* (i) the addition test passes on every monomial that meets the criterion *)
  Definition zlike (m : mono) : mono := map (fun _ => 0%nat) m.

  Lemma zlike_mzero m : zlike m = mzero (length m).
  Proof. induction m; simpl; auto. unfold mzero in *. simpl. now rewrite IHm. Qed.

  Lemma binsplit_deg : forall (l : list kind) m,
    (msum (mask KArg l m) = 0%nat -> binsplit l m = [(1, (mask KArg l m, mask KArg l m))]) /\
    (msum (mask KArg l m) = 1%nat ->
       binsplit l m = [(1, (zlike (mask KArg l m), mask KArg l m)); (1, (mask KArg l m, zlike (mask KArg l m)))]).
  Proof.
    induction l as [|k l IH]; intros m.
    - destruct m; cbn [mask binsplit]; split; intros H; try reflexivity; discriminate H.
    - destruct m as [|e m]; cbn [mask binsplit].
      + split; intros H; [reflexivity|discriminate H].
      + destruct (IH m) as [I0 I1]. rewrite !msum_cons.
        destruct k; cbn [kind_eqb].
        * split; intros H.
          -- assert (e = 0%nat) by lia. subst e. rewrite I0 by lia. reflexivity.
          -- destruct e as [|[|e]]; [| |lia].
             ++ rewrite I1 by lia. reflexivity.
             ++ rewrite I0 by lia.
                assert (Z : mask KArg l m = zlike (mask KArg l m)).
                { assert (H0 : msum (mask KArg l m) = 0%nat) by lia. apply msum_zero in H0.
                  rewrite zlike_mzero. exact H0. }
                cbn [zlike map]. fold (zlike (mask KArg l m)). rewrite <- Z. reflexivity.
        * split; intros H; [rewrite I0 by lia|rewrite I1 by lia]; reflexivity.
        * split; intros H; [rewrite I0 by lia|rewrite I1 by lia]; reflexivity.
  Qed.

  Lemma add_mono_eq cm : length (snd cm) = n -> crit_mono cl (snd cm) = true ->
    subst_lr cl cm = [(fst cm * 1, snd (ren_r cl cm)); (fst cm * 1, snd (ren_l cl cm))].
  Proof.
    destruct cm as [c m]. cbn [fst snd].
    intros L H. destruct (crit_mono_masks m L H) as [Hd Ha].
    unfold subst_lr, ren_l, ren_r. cbn [fst snd].
    destruct (binsplit_deg cl m) as [_ I1]. rewrite (I1 Ha). cbn [map fst snd].
    rewrite Hd. rewrite zlike_mzero, (mask_length KArg cl m L).
    replace (mmul (mask KArg cl m) (mzero n)) with (mask KArg cl m); auto.
    rewrite <- (mask_length KArg cl m L). now rewrite mmul_mzero.
  Qed.

  Lemma add_mono_coef cm m0 : length (snd cm) = n -> crit_mono cl (snd cm) = true ->
    coefsum m0 (subst_lr cl cm) == coefsum m0 [ren_l cl cm] + coefsum m0 [ren_r cl cm].
  Proof.
    intros L H. rewrite (add_mono_eq cm L H). destruct cm as [c m].
    unfold ren_l, ren_r. cbn [coefsum fst snd].
    repeat match goal with |- context [mono_eqb m0 ?a] => destruct (mono_eqb m0 a) end.
    all: ring.
  Qed.

  Lemma coefsum_cons m0 x l : coefsum m0 (x :: l) == coefsum m0 [x] + coefsum m0 l.
  Proof. destruct x as [c m]. simpl. destruct (mono_eqb m0 m); ring. Qed.

  Theorem add_test_crit p : wf n p -> crit_poly cl p = true -> additive_test cl p = true.
  Proof.
    intros Hw Hc. apply same_expanded_spec. intros m0.
    rewrite coefsum_app.
    induction p as [|cm r IH]; [simpl; ring|].
    inversion Hw as [|? ? L Hw']; subst.
    simpl in Hc. apply andb_true_iff in Hc. destruct Hc as [Hm Hc].
    cbn [flat_map map]. rewrite coefsum_app, (IH Hw' Hc), (add_mono_coef cm m0 L Hm).
    rewrite (coefsum_cons m0 (ren_l cl cm) (map (ren_l cl) r)), (coefsum_cons m0 (ren_r cl cm) (map (ren_r cl) r)). ring.
  Qed.

  Theorem verdict_exact_poly p : nf p -> wf n p -> model_is_linear_poly cl p = crit_poly cl p.
  Proof.
    intros Hn Hw. unfold model_is_linear_poly. rewrite (hom_test_exact p Hn Hw).
    destruct (crit_poly cl p) eqn:Ec.
    - now rewrite (add_test_crit p Hw Ec).
    - destruct (additive_test cl p); reflexivity.
  Qed.
End Exact.

Theorem verdict_exact args e : model_is_linear args (xexpand e) = crit args (xexpand e).
Proof.
  unfold model_is_linear, crit, xexpand. simpl. apply verdict_exact_poly.
  - apply expand_nf.
  - unfold cls. rewrite map_length. apply expand_wf.
Qed.

(* ================================================================= forms *)
Lemma all_linear_exact args form : all_linear args form = all_crit args form.
Proof. unfold all_linear, all_crit. induction form as [|e r IH]; simpl; auto. now rewrite verdict_exact, IH. Qed.

Theorem linear_form_exact tests form : linear_form tests form = spec_linear_form tests form.
Proof.
  unfold linear_form, spec_linear_form. rewrite all_linear_exact. destruct (all_crit tests form); reflexivity.
Qed.

Theorem bilinear_form_exact trials tests form :
  bilinear_form trials tests form = spec_bilinear_form trials tests form.
Proof.
  unfold bilinear_form, spec_bilinear_form. rewrite !all_linear_exact.
  destruct (all_crit trials form), (all_crit tests form); reflexivity.
Qed.

Lemma all_crit_in args form e : all_crit args form = true -> In e form -> crit args (xexpand e) = true.
Proof. unfold all_crit. rewrite forallb_forall. auto. Qed.

Lemma linear_form_accepted tests form : linear_form tests form = Accepted -> all_crit tests form = true.
Proof. rewrite linear_form_exact. unfold spec_linear_form. destruct (all_crit tests form); auto. discriminate. Qed.

Lemma bilinear_form_accepted trials tests form : bilinear_form trials tests form = Accepted ->
  all_crit trials form = true /\ all_crit tests form = true.
Proof.
  rewrite bilinear_form_exact. unfold spec_bilinear_form.
  destruct (all_crit trials form), (all_crit tests form); auto; discriminate.
Qed.

(* ================================================================= 4. rational witnesses *)
Local Close Scope Q_scope.
Local Open Scope Qc_scope.

Lemma phi_Qc z : phi Qc (Q2Qc 0%Q) 1 Qcplus Qcmult Qcopp z = qphi z.
Proof.
  pose proof (gen_phiZ_morph (Eqsth Qc) (Eq_ext Qcplus Qcmult Qcopp) (F_R Qcft)) as M.
  assert (Hp : forall p, phi Qc (Q2Qc 0%Q) 1 Qcplus Qcmult Qcopp (Zpos p) = qphi (Zpos p)).
  { induction p using Pos.peano_ind.
    - apply Qc_is_canon. reflexivity.
    - rewrite <- Pos.add_1_r. change (Zpos (p + 1)) with (Zpos p + 1)%Z.
      unfold phi in *. rewrite (morph_add M), IHp. change (gen_phiZ (Q2Qc 0%Q) 1 Qcplus Qcmult Qcopp 1) with 1.
      unfold qphi. apply Qc_is_canon. simpl. rewrite !Qred_correct.
      change (Zpos (p + 1)) with (Zpos p + 1)%Z. rewrite inject_Z_plus. reflexivity. }
  destruct z as [|p|p].
  - apply Qc_is_canon. reflexivity.
  - apply Hp.
  - change (Zneg p) with (- Zpos p)%Z. unfold phi in *. rewrite (morph_opp M), Hp.
    unfold qphi. apply Qc_is_canon. simpl. rewrite !Qred_correct. reflexivity.
Qed.

Lemma Qc_char0 p : phi Qc (Q2Qc 0%Q) 1 Qcplus Qcmult Qcopp (Zpos p) <> Q2Qc 0%Q.
Proof.
  rewrite phi_Qc. unfold qphi. intros H. apply Q2Qc_eq_iff in H.
  unfold Qeq in H. simpl in H. lia.
Qed.

Lemma qev_phi rho t :
  qev rho t = vev Qc 1 Qcplus Qcmult Qcminus Qcopp Qcdiv Qcinv (phi Qc (Q2Qc 0%Q) 1 Qcplus Qcmult Qcopp) qE qP rho t.
Proof.
  unfold qev. induction t; cbn [vev]; rewrite ?IHt, ?IHt1, ?IHt2, ?phi_Qc; auto.
Qed.

(* a rational valuation on which additivity or homogeneity fails refutes the criterion:
   the rejection of such an integrand is justified by a concrete counter-example *)
Theorem qviolates_sound args e base v1 v2 c :
  qviolates args e base v1 v2 c = true -> crit args (xexpand e) = false.
Proof.
  intros H. destruct (crit args (xexpand e)) eqn:Ec; auto. exfalso.
  unfold qviolates in H. apply orb_true_iff in H. destruct H as [H|H]; apply negb_true_iff in H.
  - rewrite !qev_phi in H.
    rewrite (crit_additive Qc _ _ _ _ _ _ _ _ Qcft Qc_char0 qE qP args
               (fun a => if atom_is_arg args a then lookup v1 a else lookup base a)
               (fun a => if atom_is_arg args a then lookup v2 a else lookup base a)
               (fun a => if atom_is_arg args a then lookup v1 a + lookup v2 a else lookup base a)) in H; auto.
    + unfold Qc_eq_bool in H. destruct (Qc_eq_dec _ _) in H; [discriminate|congruence].
    + intros a Ha. now rewrite Ha.
    + intros a Ha. now rewrite Ha.
  - rewrite !qev_phi in H.
    rewrite (crit_homogeneous Qc _ _ _ _ _ _ _ _ Qcft Qc_char0 qE qP args
               (fun a => if atom_is_arg args a then lookup v1 a else lookup base a)
               (fun a => if atom_is_arg args a then Q2Qc c * lookup v1 a else lookup base a) (Q2Qc c)) in H; auto.
    + unfold Qc_eq_bool in H. destruct (Qc_eq_dec _ _) in H; [discriminate|congruence].
    + intros a Ha. now rewrite Ha.
    + intros a Ha. now rewrite Ha.
Qed.

Corollary qviolates_refused args e base v1 v2 c :
  qviolates args e base v1 v2 c = true -> model_is_linear args (xexpand e) = false.
Proof. intros H. rewrite verdict_exact. eapply qviolates_sound; eauto. Qed.

Theorem accepted_forms_linear trials tests form e :
  bilinear_form trials tests form = Accepted -> In e form ->
  crit trials (xexpand e) = true /\ crit tests (xexpand e) = true.
Proof.
  intros H Hi. destruct (bilinear_form_accepted _ _ _ H) as [H1 H2].
  split; eapply all_crit_in; eauto.
Qed.

Theorem completeness_partial args e base v1 v2 c :
  qviolates args e base v1 v2 c = true ->
  crit args (xexpand e) = false /\ model_is_linear args (xexpand e) = false.
Proof. intros. split; [eapply qviolates_sound|eapply qviolates_refused]; eauto. Qed.
