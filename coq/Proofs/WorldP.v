From Coq Require Import String List Bool Arith Permutation.
From V Require Import Core.StrOrd Core.Canon.
From V Require Import Model.WorldM.
Import ListNotations.

Section WorldP.
  Variable K A R : Type.
  Variable keqb : list K -> list K -> bool.
  Hypothesis keqb_spec : forall a b, keqb a b = true <-> a = b.
  Variable f : list (obj K A) -> R.

  (* hygiene: inside one interpreter history, objects with equal keys have equal attributes *)
  Definition KeyFaithful (os : list (obj K A)) : Prop :=
    forall a b, In a os -> In b os -> key a = key b -> attr a = attr b.

  Lemma faithful_args os (a b : list (obj K A)) :
    KeyFaithful os -> incl a os -> incl b os -> map key a = map key b -> a = b.
  Proof.
    intros Hf. revert b. induction a as [|x r IH]; intros [|y s] Ha Hb E; simpl in E; try discriminate; auto.
    inversion E as [[E1 E2]]. f_equal.
    - destruct x as [kx ax], y as [ky ay]. simpl in *. subst ky. f_equal.
      apply (Hf (mkObj kx ax) (mkObj kx ay)); auto; [apply Ha|apply Hb]; now left.
    - apply IH; auto; intros z Hz; [apply Ha|apply Hb]; now right.
  Qed.

  Definition cache_ok (os : list (obj K A)) (c : cache K R) : Prop :=
    forall ks r, lookup K R keqb ks c = Some r ->
      forall args, incl args os -> map key args = ks -> r = f args.

  Lemma lookup_cons ks ks' (r : R) c :
    lookup K R keqb ks ((ks', r) :: c) = if keqb ks ks' then Some r else lookup K R keqb ks c.
  Proof. reflexivity. Qed.

  (* Refinement: with hygiene, every memoised call returns what the pure function returns,
     for every operation list, every cache content that is itself correct, every clearing point. *)
  Theorem memo_refines_pure : forall ops os c,
    KeyFaithful os -> incl (objs_of K A ops) os -> cache_ok os c ->
    run K A R keqb f c ops = pure K A R f ops.
  Proof.
    induction ops as [|o r IH]; intros os c Hf Hi Hc; simpl; auto.
    destruct o as [args|].
    - simpl in Hi. unfold call.
      assert (Ha : incl args os) by (intros z Hz; apply Hi; apply in_or_app; now left).
      assert (Hr : incl (objs_of K A r) os) by (intros z Hz; apply Hi; apply in_or_app; now right).
      destruct (lookup K R keqb (map key args) c) as [x|] eqn:El.
      + rewrite (Hc _ _ El args Ha eq_refl). f_equal. now apply (IH os).
      + f_equal. apply (IH os); auto.
        intros ks x Hl args' Ha' Hk. rewrite lookup_cons in Hl.
        destruct (keqb ks (map key args)) eqn:Ek.
        * inversion Hl; subst x. apply keqb_spec in Ek. f_equal.
          apply (faithful_args os); auto. congruence.
        * eapply Hc; eauto.
    - apply (IH os); auto. intros ks x Hl. discriminate.
  Qed.

  Corollary fresh_interpreter_agrees ops :
    KeyFaithful (objs_of K A ops) -> run K A R keqb f [] ops = pure K A R f ops.
  Proof.
    intros Hf. apply (memo_refines_pure ops (objs_of K A ops)); auto.
    - intros z Hz; exact Hz.
    - intros ks x Hl. discriminate.
  Qed.
End WorldP.

(* Without hygiene the statement is false: the name "Omega" used for a 2-D and then a 3-D
   domain (key = name, attribute = dimension, f = the dimension of the first argument). *)
Definition keqb_s (a b : list string) : bool :=
  if list_eq_dec string_dec a b then true else false.

Theorem no_hygiene_refuted :
  exists (ops : list (op string nat)),
    run string nat nat keqb_s (fun args => match args with a :: _ => attr a | [] => 0 end) [] ops
    <> pure string nat nat (fun args => match args with a :: _ => attr a | [] => 0 end) ops.
Proof.
  exists [Call [mkObj "Omega"%string 2]; Call [mkObj "Omega"%string 3]].
  vm_compute. discriminate.
Qed.

Lemma keqb_s_spec a b : keqb_s a b = true <-> a = b.
Proof. unfold keqb_s. destruct (list_eq_dec string_dec a b); split; congruence. Qed.

(* ---------------- order independence: canonical sorting of members ---------------- *)
Section Order.
  Variable T : Type.
  Variable eqb : T -> T -> bool.
  Variable skey : T -> string.

  Theorem order_independent l l' :
    wf eqb skey l -> Permutation l l' -> canon eqb skey l = canon eqb skey l'.
  Proof. apply canon_perm. Qed.
End Order.

(* if two distinct members print the same, the sorted order depends on the input order *)
Theorem order_collision_refuted :
  exists (l l' : list (nat * string)),
    Permutation l l' /\
    canon (fun a b => Nat.eqb (fst a) (fst b)) snd l <> canon (fun a b => Nat.eqb (fst a) (fst b)) snd l'.
Proof.
  exists [(1, "Jacobian(M)"%string); (2, "Jacobian(M)"%string)], [(2, "Jacobian(M)"%string); (1, "Jacobian(M)"%string)].
  split; [apply perm_swap|]. vm_compute. discriminate.
Qed.

(* ---------------- inputs are not altered: shared boundary conditions ---------------- *)
(* one condition object (id 7, on "v") used in two equations with different trial orders *)
Theorem shared_bc_refuted :
  let s1 := build_eq [] ["u"; "v"]%string [(7, "v"%string)] in
  let s2 := build_eq s1 ["v"; "u"]%string [(7, "v"%string)] in
  sget s1 7 <> sget s2 7.
Proof. vm_compute. discriminate. Qed.

(* conditions that are used by one equation only keep their position whatever is built later *)
Theorem fresh_bc_stable : forall s trials bcs i,
  (forall v, ~ In (i, v) bcs) -> sget (build_eq s trials bcs) i = sget s i.
Proof.
  intros s trials bcs. revert s. induction bcs as [|[j v] r IH]; intros s i Hn; simpl; auto.
  rewrite IH.
  - simpl. destruct (Nat.eqb i j) eqn:E; auto. apply Nat.eqb_eq in E. subst j.
    exfalso. apply (Hn v). now left.
  - intros w Hw. apply (Hn w). now right.
Qed.

Lemma faithful_b_sound l : faithful_b l = true ->
  KeyFaithful string nat (map (fun p => mkObj (fst p) (snd p)) l).
Proof.
  induction l as [|[k a] r IH]; simpl; intros H x y Hx Hy Hk; [contradiction|].
  apply andb_true_iff in H. destruct H as [H1 H2]. rewrite forallb_forall in H1.
  assert (G : forall p, In p r -> k = fst p -> a = snd p).
  { intros p Hp E. specialize (H1 p Hp). apply orb_true_iff in H1. destruct H1 as [H1|H1].
    - apply negb_true_iff in H1. apply String.eqb_neq in H1. contradiction.
    - now apply Nat.eqb_eq. }
  destruct Hx as [<-|Hx], Hy as [<-|Hy]; simpl in *.
  - reflexivity.
  - apply in_map_iff in Hy. destruct Hy as [p [<- Hp]]. simpl in *. now apply G.
  - apply in_map_iff in Hx. destruct Hx as [p [<- Hp]]. simpl in *. symmetry. apply G; auto.
  - now apply IH.
Qed.
