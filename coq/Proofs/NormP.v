(* C11, VARIANT FOR THE REPAIRED LIBRARY (see fixed/NormM.v): the integrand assembled by Norm / SemiNorm
   is the classical Sobolev integrand for EVERY kind (L2, H1, H2), scalar and vector (vector H2 is refused),
   d = 1, 2, 3, norms and semi-norms, in every differential field: [norm_full]. *)
From Coq Require Import String ZArith QArith List Bool Arith Lia Field_theory Field.
From V Require Import Core.FieldEq Core.Terminal Core.TerminalP Core.DField Core.SExpr Core.Classical
  Model.DOpM Proofs.DOpP.
From V Require Import Model.NormM.
Import ListNotations.

Lemma ctsum_eq l : Classical.tsum l = SExpr.tsum l.
Proof. induction l as [|x [|y r] IH]; simpl in *; auto; f_equal; auto. Qed.

Section Norm.
  Variable S : dfield.
  Add Field SF2 : (Fth S).
  Notation "0" := (f0 S). Notation "1" := (f1 S).
  Infix "+" := (fadd S). Infix "*" := (fmul S). Infix "-" := (fsub S). Infix "/" := (fdiv S).
  Notation Dd := (D S).
  Notation sev e := (ev S (sx2t e)).
  Notation Fsum := (fsum S).

  (* ------------------------------------------------------------ the classical integrand *)
  Definition sqF (x : F S) : F S := x * x.
  Definition c_l2 (cs : list (F S)) : F S := Fsum (map sqF cs).
  Definition c_h1 (lg : bool) (d : nat) (cs : list (F S)) : F S :=
    Fsum (map (fun i => Fsum (map (fun c => sqF (Dd lg i c)) cs)) (seq0 d)).
  Definition c_hrow (lg : bool) (d : nat) (c : F S) (i : nat) : F S :=
    Fsum (map (fun j => sqF (Dd lg i (Dd lg j c))) (seq0 d)).
  Definition c_h2 (lg : bool) (d : nat) (c : F S) : F S := Fsum (map (c_hrow lg d c) (seq0 d)).

  Definition classical (semi : bool) (k : nkind) (lg : bool) (d : nat) (cs : list (F S)) : F S :=
    match k with
    | L2 => c_l2 cs
    | H1 => if semi then c_h1 lg d cs else c_h1 lg d cs + c_l2 cs
    | H2 => let h := c_h2 lg d (hd 0 cs) in if semi then h else h + (c_h1 lg d cs + c_l2 cs)
    end.

  (* ------------------------------------------------------------------------ hypotheses *)
  Definition wf_input (d : nat) (inp : ninput) : Prop :=
    match inp with NS _ => True | NV rows => length rows = d end.

  (* the denominators / bases met by the derivative formulas do not vanish: for the components and
     for the first derivatives of the components and of their terms (needed by the second derivatives of H2) *)
  Definition input_pieces (inp : ninput) : list sx := input_comps inp.

  Definition inp_sdf (lg : bool) (inp : ninput) : Prop :=
    Forall (sdf S) (input_comps inp) /\
    (forall i e a, In e (input_pieces inp) -> dop lg i e = Some a -> sdf S a).

  (* ---------------------------------------------------------------------------- tactics *)
  Ltac brk H :=
    repeat (simpl in H;
      match type of H with
      | context [dop ?lg ?i ?e] =>
          let E := fresh "E" in destruct (dop lg i e) eqn:E; simpl in H; try discriminate H
      | context [is_dobj ?e] =>
          let E := fresh "B" in destruct (is_dobj e) eqn:E; simpl in H; try discriminate H
      end).

  Ltac use_sound Hs Hd :=
    repeat match goal with
      | E : dop ?lg ?i ?e = Some ?a |- _ =>
          let R := fresh "R" in
          assert (R : sev a = Dd lg i (sev e))
            by (apply (dop_sound S lg i e a E); first
                  [ eapply Hd; [|eassumption]; unfold input_pieces; simpl; tauto
                  | (rewrite Forall_forall in Hs; apply Hs; simpl; tauto) ]);
          revert E
      end; intros.

  Lemma sev_sq e : sev (sq e) = sev e * sev e.
  Proof. unfold ev. simpl. reflexivity. Qed.

  (* ------------------------------------------------------------------- scalar arguments *)
  Lemma norm_scalar_full semi k lg d e r :
    (1 <= d <= 3)%nat -> norm_integrand semi k lg d (NS e) = Ok r -> inp_sdf lg (NS e) ->
    sev r = classical semi k lg d [sev e].
  Proof.
    intros Hd H [Hs Hd1].
    destruct d as [|[|[|[|d]]]]; try lia; destruct k;
      unfold norm_integrand, dgrad, dhess, grad_kd, hessian_kd, dot_kd, inner_kd, first_comp, to_matrix, d2, dval, dsc,
             glines, vidx, of_opt, bind in H;
      brk H; destruct semi; simpl in H; inversion H; subst; clear H; use_sound Hs Hd1;
      unfold classical, c_l2, c_h1, c_h2, c_hrow, sqF, sq, prod2, trace_tAB, entry; simpl;
      unfold ev in *; simpl; rewrite ?R, ?R0, ?R1, ?R2, ?R3, ?R4, ?R5, ?R6, ?R7, ?R8, ?R9, ?R10; simpl;
      rewrite ?R, ?R0, ?R1, ?R2, ?R3, ?R4, ?R5, ?R6, ?R7, ?R8;
      rewrite ?(D_comm S lg 1 0), ?(D_comm S lg 2 0), ?(D_comm S lg 2 1); try ring.
  Qed.

  (* ------------------------------------------------------------------- vector arguments *)
  Lemma norm_vector_full semi k lg d rows r :
    (1 <= d <= 3)%nat -> length rows = d -> norm_integrand semi k lg d (NV rows) = Ok r ->
    inp_sdf lg (NV rows) ->
    sev r = classical semi k lg d (map (fun e => sev e) (concat rows)).
  Proof.
    intros Hd Hl H [Hs Hd1].
    destruct d as [|[|[|[|d]]]]; try lia;
      repeat (destruct rows as [|?r rows]; try discriminate Hl); clear Hl;
      destruct k; try discriminate H;
      unfold norm_integrand, col0 in H; simpl in H;
      repeat match type of H with
        | context [match ?r with [] => _ | _ :: _ => _ end] =>
            destruct r as [|? [|? ?]]; simpl in H; try discriminate H
        end;
      unfold grad_kd, dot_kd, inner_kd, first_comp, dval, dsc, glines, vidx, to_matrix, of_opt, bind in H;
      brk H; destruct semi; simpl in H; inversion H; subst; clear H; simpl in Hs, Hd1; use_sound Hs Hd1;
      unfold classical, c_l2, c_h1, sqF, trace_tAB, entry, prod2; simpl;
      unfold ev in *; simpl; rewrite ?R, ?R0, ?R1, ?R2, ?R3, ?R4, ?R5, ?R6, ?R7, ?R8; simpl; try ring.
  Qed.

  Theorem norm_full semi k lg d inp r :
    (1 <= d <= 3)%nat -> wf_input d inp -> norm_integrand semi k lg d inp = Ok r -> inp_sdf lg inp ->
    sev r = classical semi k lg d (map (fun e => sev e) (input_comps inp)).
  Proof.
    destruct inp as [e|rows]; intros Hd Hw H Hs.
    - now apply norm_scalar_full.
    - now apply norm_vector_full.
  Qed.

  (* the semi-norm is the highest-order term alone: norm = semi-norm + the lower-order norm *)
  Lemma classical_split k lg d cs :
    classical false k lg d cs =
    classical true k lg d cs + match k with L2 => 0 | H1 => classical false L2 lg d cs | H2 => classical false H1 lg d cs end.
  Proof. destruct k; simpl; ring. Qed.

  (* ------------------------------------------------------- the reference of the case files *)
  Lemma ev_ctsum_sq l : ev S (Classical.tsum (map tsq l)) = Fsum (map (fun t => sqF (ev S t)) l).
  Proof. rewrite ctsum_eq, ev_tsum, map_map. reflexivity. Qed.

  Ltac brkT H :=
    repeat (simpl in H;
      match type of H with
      | context [tD ?lg ?i ?e] =>
          let E := fresh "T" in destruct (tD lg i e) eqn:E; simpl in H; try discriminate H
      end).

  Definition cs_dfd (lg : bool) (cs : list texpr) : Prop := Forall (dfd S) cs.

  Ltac use_tD Hs :=
    repeat match goal with
      | E : tD ?lg ?i ?e = Some ?a |- _ =>
          let R := fresh "Q" in let Df := fresh "Df" in
          assert (Df : dfd S e) by (first [assumption | (rewrite Forall_forall in Hs; apply Hs; simpl; tauto)]);
          assert (R : ev S a = Dd lg i (ev S e)) by (apply (ev_tD S lg i e a E Df));
          pose proof (dfd_tD S lg i e a E Df);
          revert E
      end; intros.

  Theorem sobolev_ref_sound semi k lg d (scalar : bool) cs t :
    (1 <= d <= 3)%nat -> (if scalar then length cs = 1%nat else length cs = d) ->
    sobolev_ref semi k lg d scalar cs = Some t -> Forall (dfd S) cs ->
    ev S t = classical semi k lg d (map (ev S) cs).
  Proof.
    intros Hd Hl H Hs.
    destruct d as [|[|[|[|d]]]]; try lia; destruct scalar;
      repeat (destruct cs as [|?c cs]; try discriminate Hl); clear Hl;
      destruct k; unfold sobolev_ref, ref_h1, ref_h2, grad_s, grad_v, hessian_s, dd, dd2 in H; simpl in H;
      try discriminate H; brkT H; destruct semi; inversion H; subst; clear H; use_tD Hs;
      unfold classical, c_l2, c_h1, c_h2, c_hrow, sqF, ref_l2, tsq; simpl;
      unfold ev in *; simpl;
      rewrite ?Q, ?Q0, ?Q1, ?Q2, ?Q3, ?Q4, ?Q5, ?Q6, ?Q7, ?Q8, ?Q9, ?Q10, ?Q11, ?Q12, ?Q13, ?Q14, ?Q15, ?Q16, ?Q17;
      rewrite ?Q, ?Q0, ?Q1, ?Q2, ?Q3, ?Q4, ?Q5, ?Q6, ?Q7, ?Q8; simpl; try ring.
  Qed.
End Norm.

Lemma col0_length rows : forall v, col0 rows = Ok v -> length (concat rows) = length rows.
Proof.
  unfold col0. induction rows as [|r0 rows IH]; intros v Ec; simpl in *; auto.
  destruct r0 as [|x [|y r0]]; try discriminate Ec. simpl in Ec.
  destruct (mapR _ rows) as [vs|c] eqn:Er; try discriminate Ec. simpl. f_equal. eapply IH. reflexivity.
Qed.

(* model and reference agree semantically wherever both are defined *)
Theorem norm_matches_reference (S : dfield) semi k lg d inp r t :
  (1 <= d <= 3)%nat -> wf_input d inp -> norm_integrand semi k lg d inp = Ok r -> inp_sdf S lg inp ->
  sobolev_ref semi k lg d (input_scalar inp) (map sx2t (input_comps inp)) = Some t ->
  ev S (sx2t r) = ev S t.
Proof.
  intros Hd Hw H Hs Ht.
  rewrite (norm_full S semi k lg d inp r Hd Hw H Hs).
  rewrite (sobolev_ref_sound S semi k lg d (input_scalar inp) (map sx2t (input_comps inp)) t Hd); auto.
  - now rewrite map_map.
  - destruct inp as [e|rows]; simpl in *; [reflexivity|].
    rewrite map_length. rewrite <- Hw.
    destruct k; try discriminate H; unfold norm_integrand in H;
      destruct (col0 rows) as [v|c] eqn:Ec; try discriminate H; eapply col0_length; eauto.
  - destruct Hs as [Hs _]. rewrite Forall_forall in *. intros x Hx. apply in_map_iff in Hx.
    destruct Hx as [e [<- He]]. apply sdf_dfd. auto.
Qed.

(* ------------------------------------------------------------------- history (before the repairs) *)
(* before 8b3531a the Hessian term was Dot(Hessian e, Hessian e).  Dot of two matrices is, still today, the flat
   formula u[0]*v[0] + u[1]*v[1] (+ u[2]*v[2]): only the first Hessian row was integrated (2-D: u_xx^2 + u_xy^2) *)
Definition dhess_before_8b3531a (lg : bool) (d : nat) (e : sx) : res sx :=
  do a <- hessian_kd lg d (VS e); dot_kd d a a.

Example h2_before_8b3531a_first_row_only :
  let u := SAt (AFld true "u" 0 SNone []) in
  let uxx := SAt (AFld true "u" 0 SNone [2%nat]) in
  let uxy := SAt (AFld true "u" 0 SNone [1%nat; 1%nat]) in
  let uxz := SAt (AFld true "u" 0 SNone [1%nat; 0%nat; 1%nat]) in
  dhess_before_8b3531a true 2 u = Ok (SAdd [prod2 uxx uxx; prod2 uxy uxy]) /\
  dhess_before_8b3531a true 3 u = Ok (SAdd [prod2 uxx uxx; prod2 uxy uxy; prod2 uxz uxz]).
Proof. split; vm_compute; reflexivity. Qed.

(* before d70b390 Dot_1d was u[0]*v[0] on whatever Grad_1d returned: a scalar expression that is not a bare derivative
   object is not subscriptable (TypeError), and Inner_1d did not exist (NameError) *)
Definition dot_1d_before_d70b390 (u v : val) : res sx :=
  do a <- vidx u 0; do b <- vidx v 0; Ok (prod2 a b).

Example h1_1d_before_d70b390_type_error :
  let u := SAt (AFld true "u" 0 SNone []) in
  let x := SAt (ACoord true 0) in
  (do a <- grad_kd true 1 (VS (SAdd [u; SMul [sZ (-1); SPow x (sZ 2)]])); dot_1d_before_d70b390 a a) = Er ETypeError.
Proof. vm_compute. reflexivity. Qed.

(* vectors of H2: refused *)
Theorem norm_h2_vector_refused semi lg d rows : norm_integrand semi H2 lg d (NV rows) = Er ENotImplemented.
Proof. reflexivity. Qed.

(* a vector with more components than the dimension: Dot_2d / Dot_3d silently drop the others *)
Theorem norm_l2_drops_components_2d semi lg a b rest :
  norm_integrand semi L2 lg 2 (NV ([a] :: [b] :: map (fun x => [x]) rest)) = Ok (SAdd [prod2 a a; prod2 b b]).
Proof.
  unfold norm_integrand, col0. simpl.
  assert (E : mapR (fun r => match r with [x] => Ok x | _ => Er EValueError end) (map (fun x => [x]) rest) = Ok rest).
  { induction rest as [|x r IH]; simpl; auto. rewrite IH. reflexivity. }
  rewrite E. reflexivity.
Qed.

Theorem norm_l2_drops_components_3d semi lg a b c rest :
  norm_integrand semi L2 lg 3 (NV ([a] :: [b] :: [c] :: map (fun x => [x]) rest)) =
  Ok (SAdd [prod2 a a; prod2 b b; prod2 c c]).
Proof.
  unfold norm_integrand, col0. simpl.
  assert (E : mapR (fun r => match r with [x] => Ok x | _ => Er EValueError end) (map (fun x => [x]) rest) = Ok rest).
  { induction rest as [|x r IH]; simpl; auto. rewrite IH. reflexivity. }
  rewrite E. reflexivity.
Qed.
