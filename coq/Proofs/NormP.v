(* C11: the integrand assembled by Norm / SemiNorm (Model/NormM.v) against the classical
   Sobolev integrand, in every differential field.

   [norm_partial]        L2 and H1 (scalar and vector, d = 1,2,3), H2 in 1-D, norms and semi-norms:
                         whenever the assembly returns a value it IS the classical integrand
   [norm_h2_first_row]   what the H2 assembly really is in 2-D / 3-D: |e|^2 + |grad e|^2 + the FIRST
                         ROW of the Hessian only (Dot_2d / Dot_3d read a matrix with flat indices)
   [norm_h2_deficit]     classical - assembled = the squares of the other Hessian rows; hence
   [norm_h2_wrong]       the assembled H2 integrand differs from the classical one as soon as that
                         deficit does not vanish, and [h2_refuted] gives the witness e = u (free jet)
   [sobolev_ref_sound]   the reference used by the case files (Core/Classical.v) denotes the classical sum
   plus the error behaviour in 1-D and for vectors of the wrong length. *)
From Coq Require Import String ZArith QArith List Bool Arith Lia Field_theory Field.
From V Require Import Core.FieldEq Core.Terminal Core.TerminalP Core.DField Core.SExpr Core.Classical
  Model.DOpM Proofs.DOpP.
From V Require Import Model.NormM.
Import ListNotations.

Lemma ctsum_eq l : Classical.tsum l = SExpr.tsum l.
Proof. induction l as [|x [|y r] IH]; simpl in *; auto; f_equal; auto. Qed.

Section Norm.
  Variable S : dfield.
  Add Field SF2 : (Fth S).
  Notation "0" := (f0 S). Notation "1" := (f1 S).
  Infix "+" := (fadd S). Infix "*" := (fmul S). Infix "-" := (fsub S). Infix "/" := (fdiv S).
  Notation Dd := (D S).
  Notation sev e := (ev S (sx2t e)).
  Notation Fsum := (fsum S).

  (* ------------------------------------------------------------ the classical integrand *)
  Definition sqF (x : F S) : F S := x * x.
  Definition c_l2 (cs : list (F S)) : F S := Fsum (map sqF cs).
  Definition c_h1 (lg : bool) (d : nat) (cs : list (F S)) : F S :=
    Fsum (map (fun i => Fsum (map (fun c => sqF (Dd lg i c)) cs)) (seq0 d)).
  Definition c_hrow (lg : bool) (d : nat) (c : F S) (i : nat) : F S :=
    Fsum (map (fun j => sqF (Dd lg i (Dd lg j c))) (seq0 d)).
  Definition c_h2 (lg : bool) (d : nat) (c : F S) : F S := Fsum (map (c_hrow lg d c) (seq0 d)).

  Definition classical (semi : bool) (k : nkind) (lg : bool) (d : nat) (cs : list (F S)) : F S :=
    match k with
    | L2 => c_l2 cs
    | H1 => if semi then c_h1 lg d cs else c_h1 lg d cs + c_l2 cs
    | H2 => let h := c_h2 lg d (hd 0 cs) in if semi then h else h + (c_h1 lg d cs + c_l2 cs)
    end.

  (* what the H2 assembly yields instead: the first Hessian row *)
  Definition assembled_h2 (semi : bool) (lg : bool) (d : nat) (c : F S) : F S :=
    let h := c_hrow lg d c 0%nat in if semi then h else h + (c_h1 lg d [c] + c_l2 [c]).
  Definition h2_deficit (lg : bool) (d : nat) (c : F S) : F S :=
    Fsum (map (c_hrow lg d c) (tl (seq0 d))).

  (* ------------------------------------------------------------------------ hypotheses *)
  Definition wf_input (d : nat) (inp : ninput) : Prop :=
    match inp with NS _ => True | NV rows => length rows = d end.

  (* the denominators / bases met by the derivative formulas do not vanish: for the components and
     for the first derivatives of the components and of their terms (needed by the second derivatives of H2) *)
  (* the components and (1-D expansion) the non-numeric factor of each of their terms *)
  Definition input_pieces (inp : ninput) : list sx :=
    input_comps inp ++ map snd (flat_map lin_terms (input_comps inp)).

  Definition inp_sdf (lg : bool) (inp : ninput) : Prop :=
    Forall (sdf S) (input_comps inp) /\
    (forall i e a, In e (input_pieces inp) -> dop lg i e = Some a -> sdf S a).

  (* ---------------------------------------------------------------------------- tactics *)
  Ltac brk H :=
    repeat (simpl in H;
      match type of H with
      | context [dop ?lg ?i ?e] =>
          let E := fresh "E" in destruct (dop lg i e) eqn:E; simpl in H; try discriminate H
      | context [is_dobj ?e] =>
          let E := fresh "B" in destruct (is_dobj e) eqn:E; simpl in H; try discriminate H
      end).

  Ltac use_sound Hs Hd :=
    repeat match goal with
      | E : dop ?lg ?i ?e = Some ?a |- _ =>
          let R := fresh "R" in
          assert (R : sev a = Dd lg i (sev e))
            by (apply (dop_sound S lg i e a E); first
                  [ eapply Hd; [|eassumption]; unfold input_pieces; simpl; tauto
                  | (rewrite Forall_forall in Hs; apply Hs; simpl; tauto) ]);
          revert E
      end; intros.

  Lemma sev_sq e : sev (sq e) = sev e * sev e.
  Proof. unfold ev. simpl. reflexivity. Qed.

  (* ------------------------------------------------ 1-D: the linear expansion of the calculus level *)
  Lemma nm1_nz : num S 1 <> 0.
  Proof. change (1 <> 0). apply (F_1_neq_0 (Fth S)). Qed.

  Lemma sdf_sZ z : sdf S (sZ z).
  Proof. simpl. exact nm1_nz. Qed.

  Lemma sdf_smul l : Forall (sdf S) l -> sdf S (smul l).
  Proof.
    intros H. unfold smul. destruct (existsb is_zero l); [apply sdf_sZ|].
    assert (G : Forall (sdf S) (filter (fun x => negb (is_one x)) l)).
    { rewrite Forall_forall in *. intros x Hx. apply filter_In in Hx. apply H. tauto. }
    destruct (filter (fun x => negb (is_one x)) l) as [|x [|y r]].
    - apply sdf_sZ.
    - now inversion G.
    - apply (proj2 (sdf_list S (x :: y :: r))). exact G.
  Qed.

  Lemma is_number_smul l : forallb is_number l = true -> is_number (smul l) = true.
  Proof.
    intros H. unfold smul. destruct (existsb is_zero l); [reflexivity|].
    assert (G : forallb is_number (filter (fun x => negb (is_one x)) l) = true).
    { rewrite forallb_forall in *. intros x Hx. apply filter_In in Hx. apply H. tauto. }
    destruct (filter (fun x => negb (is_one x)) l) as [|x [|y r]].
    - reflexivity.
    - simpl in G. now rewrite andb_true_r in G.
    - exact G.
  Qed.

  Lemma fprod_filter (p : sx -> bool) l :
    fprod S (map (fun x => sev x) (filter p l)) * fprod S (map (fun x => sev x) (filter (fun x => negb (p x)) l))
    = fprod S (map (fun x => sev x) l).
  Proof. induction l as [|x r IH]; simpl; [ring|]. destruct (p x); simpl; rewrite <- IH; ring. Qed.

  Lemma split_other t : (forall l, t <> SMul l) ->
    split_term t = if is_number t then (t, sZ 1) else (sZ 1, t).
  Proof. destruct t; intros H; try reflexivity. exfalso. now apply (H l). Qed.

  Lemma split_term_sev t : sev (fst (split_term t)) * sev (snd (split_term t)) = sev t.
  Proof.
    destruct t as [p q|a|l|l|b x|f a].
    4: { cbn [split_term fst snd]. rewrite !sev_smul, sev_mul. apply fprod_filter. }
    all: rewrite split_other by (intros; discriminate); destruct (is_number _); cbn [fst snd];
      rewrite sev_sZ; change (num S 1) with 1; ring.
  Qed.

  Lemma split_term_number t : is_number (fst (split_term t)) = true.
  Proof.
    destruct t as [p q|a|l|l|b x|f a].
    4: { cbn [split_term fst]. apply is_number_smul. apply forallb_forall. intros x Hx. apply filter_In in Hx. tauto. }
    all: rewrite split_other by (intros; discriminate);
      match goal with |- context [if ?c then _ else _] => destruct c eqn:E end; cbn [fst]; auto.
  Qed.

  Lemma split_term_sdf t : sdf S t -> sdf S (fst (split_term t)) /\ sdf S (snd (split_term t)).
  Proof.
    intros H. destruct t as [p q|a|l|l|b x|f a].
    4: { simpl in H. apply sdf_list in H. cbn [split_term fst snd]. split; apply sdf_smul;
         rewrite Forall_forall in *; intros x Hx; apply filter_In in Hx; apply H; tauto. }
    all: rewrite split_other by (intros; discriminate);
      match goal with |- context [if ?c then _ else _] => destruct c end; cbn [fst snd]; split; auto; apply sdf_sZ.
  Qed.

  Lemma sev_lin_terms e : sev e = Fsum (map (fun cr => sev (fst cr) * sev (snd cr)) (lin_terms e)).
  Proof.
    destruct e as [p q|a|l|l|b x|f a]; try (unfold lin_terms; cbn [map fsum]; rewrite split_term_sev; ring).
    unfold lin_terms. rewrite sev_add, map_map. f_equal. apply map_ext. intros t. now rewrite split_term_sev.
  Qed.

  Lemma lin_terms_sdf e : sdf S e -> Forall (fun cr => sdf S (fst cr) /\ sdf S (snd cr)) (lin_terms e).
  Proof.
    intros H. destruct e as [p q|a|l|l|b x|f a]; try (constructor; [now apply split_term_sdf|constructor]).
    simpl in H. apply sdf_list in H. unfold lin_terms. rewrite Forall_forall in *. intros cr Hc.
    apply in_map_iff in Hc. destruct Hc as [t [<- Ht]]. apply split_term_sdf. auto.
  Qed.

  Lemma lin_terms_number e : Forall (fun cr => is_number (fst cr) = true) (lin_terms e).
  Proof.
    destruct e as [p q|a|l|l|b x|f a]; try (constructor; [apply split_term_number|constructor]).
    unfold lin_terms. rewrite Forall_forall. intros cr Hc. apply in_map_iff in Hc. destruct Hc as [t [<- Ht]].
    apply split_term_number.
  Qed.

  (* an operator that is additive, commutes with numeric coefficients and vanishes on numbers *)
  Section LinOp.
    Variable Dop : F S -> F S.
    Hypothesis Dop_add : forall a b, Dop (a + b) = Dop a + Dop b.
    Hypothesis Dop_coeff : forall c x, is_number c = true -> sdf S c -> Dop (sev c * x) = sev c * Dop x.
    Hypothesis Dop_number : forall r, is_number r = true -> sdf S r -> Dop (sev r) = 0.

    Lemma lin_d1_sound op e g :
      lin_d1 op e = Ok g -> sdf S e ->
      (forall r a, op r = Ok a -> sdf S r -> sev a = Dop (sev r)) ->
      sev g = Dop (sev e).
    Proof.
      intros H Hs Hop. unfold lin_d1 in H.
      destruct (mapR _ (lin_terms e)) as [l|c] eqn:El; [|discriminate H]. simpl in H. inversion H; subst; clear H.
      rewrite sev_add, sev_lin_terms.
      pose proof (lin_terms_sdf e Hs) as Hd. pose proof (lin_terms_number e) as Hn.
      revert l El. induction (lin_terms e) as [|[c r] ts IH]; intros l El; simpl in El.
      - inversion El. simpl. symmetry. apply (Dop_number (sZ 0)); [reflexivity|apply sdf_sZ].
      - inversion Hd as [|? ? [Hc Hr] Hd']; subst. inversion Hn as [|? ? Nc Hn']; subst. simpl in Hc, Hr, Nc.
        simpl fst in El. simpl snd in El.
        destruct (is_number r) eqn:Er.
        + simpl in El. destruct (mapR _ ts) as [l'|c'] eqn:El'; [|discriminate El]. simpl in El. inversion El; subst.
          simpl. rewrite Dop_add, (IH Hd' Hn' l' eq_refl), Dop_coeff, Dop_number by auto.
          unfold ev. simpl. ring.
        + destruct (op r) as [a|c'] eqn:Eo; [|discriminate El]. simpl in El.
          destruct (is_dobj a); [|discriminate El]. simpl in El.
          destruct (mapR _ ts) as [l'|c'] eqn:El'; [|discriminate El]. simpl in El. inversion El; subst.
          simpl. rewrite Dop_add, (IH Hd' Hn' l' eq_refl), Dop_coeff by auto.
          rewrite <- (Hop r a Eo Hr). unfold ev. simpl. ring.
    Qed.

    (* a value is returned only if every non-constant term is (coefficient) x (something whose derivative
       is a bare derivative object) *)
    Lemma lin_d1_only_if op e g :
      lin_d1 op e = Ok g ->
      Forall (fun cr => is_number (snd cr) = true \/ exists a, op (snd cr) = Ok a /\ is_dobj a = true) (lin_terms e).
    Proof.
      unfold lin_d1. destruct (mapR _ (lin_terms e)) as [l|c] eqn:El; [|discriminate]. intros _.
      revert l El. induction (lin_terms e) as [|[c r] ts IH]; intros l El; simpl in El; constructor.
      - simpl. destruct (is_number r); [now left|]. right.
        destruct (op r) as [a|c'] eqn:Eo; [|discriminate El]. simpl in El.
        destruct (is_dobj a) eqn:Ed; [|discriminate El]. eauto.
      - simpl fst in El. simpl snd in El.
        destruct (is_number r).
        + simpl in El. destruct (mapR _ ts) as [l'|c'] eqn:El'; [|discriminate El]. eapply IH. reflexivity.
        + destruct (op r) as [a|c'] eqn:Eo; [|discriminate El]. simpl in El.
          destruct (is_dobj a); [|discriminate El]. simpl in El.
          destruct (mapR _ ts) as [l'|c'] eqn:El'; [|discriminate El]. eapply IH. reflexivity.
    Qed.
  End LinOp.

  Lemma D_coeff lg i c x : is_number c = true -> sdf S c -> Dd lg i (sev c * x) = sev c * Dd lg i x.
  Proof. intros Hn Hs. rewrite D_mul, (is_number_D S lg i c Hn Hs). ring. Qed.

  Lemma DD_coeff lg i c x : is_number c = true -> sdf S c -> Dd lg i (Dd lg i (sev c * x)) = sev c * Dd lg i (Dd lg i x).
  Proof. intros Hn Hs. now rewrite !D_coeff. Qed.

  Lemma DD_number lg i r : is_number r = true -> sdf S r -> Dd lg i (Dd lg i (sev r)) = 0.
  Proof. intros Hn Hs. rewrite (is_number_D S lg i r Hn Hs). apply Dz. Qed.

  Lemma DD_add lg i a b : Dd lg i (Dd lg i (a + b)) = Dd lg i (Dd lg i a) + Dd lg i (Dd lg i b).
  Proof. now rewrite !D_add. Qed.

  Lemma dsc_sound lg i r b : dsc lg i r = Ok b -> sdf S r -> sev b = Dd lg i (sev r).
  Proof.
    unfold dsc, of_opt. destruct (dop lg i r) eqn:Ed; [|discriminate]. intros H Hr. inversion H; subst.
    now apply dop_sound.
  Qed.

  Lemma in_pieces_term e cr inp : In e (input_comps inp) -> In cr (lin_terms e) -> In (snd cr) (input_pieces inp).
  Proof.
    intros He Hc. unfold input_pieces. apply in_or_app. right. apply in_map. apply in_flat_map. eauto.
  Qed.

  Lemma lin_terms_sdf_in e cr : sdf S e -> In cr (lin_terms e) -> sdf S (snd cr).
  Proof. intros Hs Hc. pose proof (lin_terms_sdf e Hs) as H. rewrite Forall_forall in H. now apply H. Qed.

  Lemma dgrad_1d lg e g :
    dgrad lg 1 e = Ok g -> inp_sdf lg (NS e) -> sev g = sqF (Dd lg 0 (sev e)).
  Proof.
    intros H [Hs Hd1]. unfold dgrad in H.
    destruct (lin_d1 (dsc lg 0) e) as [a|c] eqn:El; [|discriminate H]. simpl in H. inversion H; subst; clear H.
    inversion Hs as [|? ? He _]; subst.
    assert (Ea : sev a = Dd lg 0 (sev e)).
    { apply (lin_d1_sound (Dd lg 0) (D_add S lg 0) (D_coeff lg 0) (is_number_D S lg 0) (dsc lg 0) e a El He).
      intros r b Hb Hr. now apply dsc_sound. }
    unfold sqF. rewrite <- Ea. unfold prod2, ev. simpl. reflexivity.
  Qed.

  (* the second derivative of a term: its first derivative must be defined too *)
  Lemma lin_d1_sound_in Dop
        (Dop_add : forall a b, Dop (a + b) = Dop a + Dop b)
        (Dop_coeff : forall c x, is_number c = true -> sdf S c -> Dop (sev c * x) = sev c * Dop x)
        (Dop_number : forall r, is_number r = true -> sdf S r -> Dop (sev r) = 0) op e g :
    lin_d1 op e = Ok g -> sdf S e ->
    (forall cr a, In cr (lin_terms e) -> op (snd cr) = Ok a -> sdf S (snd cr) -> sev a = Dop (sev (snd cr))) ->
    sev g = Dop (sev e).
  Proof.
    intros H Hs Hop. unfold lin_d1 in H.
    destruct (mapR _ (lin_terms e)) as [l|c] eqn:El; [|discriminate H]. simpl in H. inversion H; subst; clear H.
    rewrite sev_add, sev_lin_terms.
    pose proof (lin_terms_sdf e Hs) as Hd. pose proof (lin_terms_number e) as Hn.
    revert l El Hop. induction (lin_terms e) as [|[c r] ts IH]; intros l El Hop; simpl in El.
    - inversion El. simpl. symmetry. apply (Dop_number (sZ 0)); [reflexivity|apply sdf_sZ].
    - inversion Hd as [|? ? [Hc Hr] Hd']; subst. inversion Hn as [|? ? Nc Hn']; subst. simpl in Hc, Hr, Nc.
      simpl fst in El. simpl snd in El.
      assert (Hop' : forall cr a, In cr ts -> op (snd cr) = Ok a -> sdf S (snd cr) -> sev a = Dop (sev (snd cr)))
        by (intros; apply Hop; auto; now right).
      destruct (is_number r) eqn:Er.
      + simpl in El. destruct (mapR _ ts) as [l'|c'] eqn:El'; [|discriminate El]. simpl in El. inversion El; subst.
        simpl. rewrite Dop_add, (IH Hd' Hn' l' eq_refl Hop'), Dop_coeff, Dop_number by auto.
        unfold ev. simpl. ring.
      + destruct (op r) as [a|c'] eqn:Eo; [|discriminate El]. simpl in El.
        destruct (is_dobj a); [|discriminate El]. simpl in El.
        destruct (mapR _ ts) as [l'|c'] eqn:El'; [|discriminate El]. simpl in El. inversion El; subst.
        simpl. rewrite Dop_add, (IH Hd' Hn' l' eq_refl Hop'), Dop_coeff by auto.
        pose proof (Hop (c, r) a (or_introl eq_refl) Eo Hr) as Hq. simpl snd in Hq. rewrite <- Hq. unfold ev. simpl. ring.
  Qed.

  Lemma dhess_1d lg e g :
    dhess lg 1 e = Ok g -> inp_sdf lg (NS e) -> sev g = sqF (Dd lg 0 (Dd lg 0 (sev e))).
  Proof.
    intros H [Hs Hd1]. unfold dhess in H.
    destruct (lin_d1 (d2 lg 0 0) e) as [a|c] eqn:El; [|discriminate H]. simpl in H. inversion H; subst; clear H.
    inversion Hs as [|? ? He _]; subst.
    assert (Ea : sev a = Dd lg 0 (Dd lg 0 (sev e))).
    { apply (lin_d1_sound_in (fun x => Dd lg 0 (Dd lg 0 x)) (DD_add lg 0) (DD_coeff lg 0) (DD_number lg 0)
               (d2 lg 0 0) e a El He).
      intros cr b Hin Hb Hr. unfold d2, bind in Hb.
      destruct (dsc lg 0 (snd cr)) as [a0|c0] eqn:E0; [|discriminate Hb].
      rewrite (dsc_sound lg 0 a0 b Hb).
      - now rewrite (dsc_sound lg 0 (snd cr) a0 E0 Hr).
      - unfold dsc, of_opt in E0. destruct (dop lg 0 (snd cr)) eqn:Ed; [|discriminate E0]. inversion E0; subst.
        eapply Hd1; [|exact Ed]. eapply in_pieces_term; [|exact Hin]. simpl. now left. }
    unfold sqF. rewrite <- Ea. unfold prod2, ev. simpl. reflexivity.
  Qed.

  (* ------------------------------------------------------------------- scalar arguments *)
  Lemma norm_scalar_partial semi k lg d e r :
    (1 <= d <= 3)%nat -> norm_integrand semi k lg d (NS e) = Ok r -> inp_sdf lg (NS e) ->
    (k <> H2 \/ d = 1%nat) ->
    sev r = classical semi k lg d [sev e].
  Proof.
    intros Hd H Hsd Hk.
    destruct d as [|[|[|[|d]]]]; try lia; destruct k; try (destruct Hk as [Hk|Hk]; [congruence|discriminate Hk]).
    (* d = 2, 3 *)
    4-7: solve [destruct Hsd as [Hs Hd1];
      unfold norm_integrand, dgrad, dhess, grad_kd, hessian_kd, dot_kd, d2, dval, dsc, glines, vidx, of_opt, bind in H;
      brk H; destruct semi; inversion H; subst; clear H; use_sound Hs Hd1;
      unfold classical, c_l2, c_h1, c_h2, c_hrow, sqF, sq, prod2; simpl;
      unfold ev in *; simpl; rewrite ?R, ?R0, ?R1, ?R2, ?R3; simpl; try ring].
    (* d = 1 : through the linear expansion *)
    1-3: unfold norm_integrand in H.
    - inversion H; subst. unfold classical, c_l2, sqF, sq, prod2; simpl; unfold ev; simpl; ring.
    - destruct (dgrad lg 1 e) as [g|c] eqn:Eg; [|discriminate H]. cbn [bind] in H.
      pose proof (dgrad_1d lg e g Eg Hsd) as Rg.
      destruct semi; inversion H; subst; clear H; unfold classical, c_l2, c_h1, sqF, sq, prod2 in *; simpl;
        unfold ev in *; simpl; rewrite Rg; simpl; ring.
    - destruct semi.
      + pose proof (dhess_1d lg e r H Hsd) as Rh. unfold classical, c_h2, c_hrow, sqF in *. simpl. rewrite Rh. ring.
      + destruct (dhess lg 1 e) as [h|c] eqn:Eh; [|discriminate H]. cbn [bind] in H.
        destruct (dgrad lg 1 e) as [g|c] eqn:Eg; [|discriminate H]. cbn [bind] in H.
        pose proof (dgrad_1d lg e g Eg Hsd) as Rg. pose proof (dhess_1d lg e h Eh Hsd) as Rh.
        inversion H; subst; clear H. unfold classical, c_l2, c_h1, c_h2, c_hrow, sqF, sq, prod2 in *; simpl;
          unfold ev in *; simpl; rewrite Rg, Rh; simpl; ring.
  Qed.

  (* ------------------------------------------------------------------- vector arguments *)
  Lemma norm_vector_partial semi k lg d rows r :
    (1 <= d <= 3)%nat -> length rows = d -> norm_integrand semi k lg d (NV rows) = Ok r ->
    inp_sdf lg (NV rows) ->
    sev r = classical semi k lg d (map (fun e => sev e) (concat rows)).
  Proof.
    intros Hd Hl H [Hs Hd1].
    destruct d as [|[|[|[|d]]]]; try lia;
      repeat (destruct rows as [|?r rows]; try discriminate Hl); clear Hl;
      destruct k; try discriminate H;
      unfold norm_integrand, col0 in H; simpl in H;
      repeat match type of H with
        | context [match ?r with [] => _ | _ :: _ => _ end] =>
            destruct r as [|? [|? ?]]; simpl in H; try discriminate H
        end;
      unfold grad_kd, dot_kd, inner_kd, dval, dsc, glines, vidx, to_matrix, of_opt, bind in H;
      brk H; destruct semi; simpl in H; inversion H; subst; clear H; simpl in Hs, Hd1; use_sound Hs Hd1;
      unfold classical, c_l2, c_h1, sqF, trace_tAB, entry, prod2; simpl;
      unfold ev in *; simpl; rewrite ?R, ?R0, ?R1, ?R2, ?R3, ?R4, ?R5, ?R6, ?R7, ?R8; simpl; try ring.
  Qed.

  Theorem norm_partial semi k lg d inp r :
    (1 <= d <= 3)%nat -> wf_input d inp -> norm_integrand semi k lg d inp = Ok r -> inp_sdf lg inp ->
    (k <> H2 \/ d = 1%nat) ->
    sev r = classical semi k lg d (map (fun e => sev e) (input_comps inp)).
  Proof.
    destruct inp as [e|rows]; intros Hd Hw H Hs Hk.
    - now apply norm_scalar_partial.
    - now apply norm_vector_partial.
  Qed.

  (* the semi-norm is the highest-order term alone: norm = semi-norm + the lower-order norm *)
  Lemma classical_split k lg d cs :
    classical false k lg d cs =
    classical true k lg d cs + match k with L2 => 0 | H1 => classical false L2 lg d cs | H2 => classical false H1 lg d cs end.
  Proof. destruct k; simpl; ring. Qed.

  (* --------------------------------------------------------- H2 in 2-D / 3-D: first row only *)
  Theorem norm_h2_first_row semi lg d e r :
    (2 <= d <= 3)%nat -> norm_integrand semi H2 lg d (NS e) = Ok r -> inp_sdf lg (NS e) ->
    sev r = assembled_h2 semi lg d (sev e).
  Proof.
    intros Hd H [Hs Hd1].
    destruct d as [|[|[|[|d]]]]; try lia;
      unfold norm_integrand, dgrad, dhess, grad_kd, hessian_kd, dot_kd, d2, dval, dsc, glines, vidx, of_opt, bind in H;
      brk H; destruct semi; inversion H; subst; clear H; use_sound Hs Hd1;
      unfold assembled_h2, c_l2, c_h1, c_hrow, sqF, sq, prod2; simpl;
      unfold ev in *; simpl; rewrite ?R, ?R0, ?R1, ?R2, ?R3, ?R4, ?R5, ?R6, ?R7, ?R8, ?R9, ?R10; simpl; try ring.
  Qed.

  Lemma h2_deficit_eq semi lg d c :
    (1 <= d <= 3)%nat -> classical semi H2 lg d [c] = assembled_h2 semi lg d c + h2_deficit lg d c.
  Proof.
    intros Hd. destruct d as [|[|[|[|d]]]]; try lia; destruct semi;
      unfold classical, assembled_h2, h2_deficit, c_h2, c_h1, c_l2, c_hrow; simpl; ring.
  Qed.

  Theorem norm_h2_deficit semi lg d e r :
    (2 <= d <= 3)%nat -> norm_integrand semi H2 lg d (NS e) = Ok r -> inp_sdf lg (NS e) ->
    classical semi H2 lg d [sev e] = sev r + h2_deficit lg d (sev e).
  Proof.
    intros Hd H Hs. rewrite (norm_h2_first_row semi lg d e r Hd H Hs). apply h2_deficit_eq. lia.
  Qed.

  Theorem norm_h2_wrong semi lg d e r :
    (2 <= d <= 3)%nat -> norm_integrand semi H2 lg d (NS e) = Ok r -> inp_sdf lg (NS e) ->
    h2_deficit lg d (sev e) <> 0 -> sev r <> classical semi H2 lg d [sev e].
  Proof.
    intros Hd H Hs Hn Heq. apply Hn.
    pose proof (norm_h2_deficit semi lg d e r Hd H Hs) as Hdef. rewrite <- Heq in Hdef.
    transitivity ((sev r + h2_deficit lg d (sev e)) - sev r); [ring|]. rewrite <- Hdef. ring.
  Qed.

  (* the deficit, spelled out: the squares of Hessian rows 1.. (2-D: u_yx^2 + u_yy^2) *)
  Lemma h2_deficit_2d lg c :
    h2_deficit lg 2 c = sqF (Dd lg 1 (Dd lg 0 c)) + sqF (Dd lg 1 (Dd lg 1 c)).
  Proof. unfold h2_deficit, c_hrow. simpl. ring. Qed.

  (* ------------------------------------------------------- the reference of the case files *)
  Lemma ev_ctsum_sq l : ev S (Classical.tsum (map tsq l)) = Fsum (map (fun t => sqF (ev S t)) l).
  Proof. rewrite ctsum_eq, ev_tsum, map_map. reflexivity. Qed.

  Ltac brkT H :=
    repeat (simpl in H;
      match type of H with
      | context [tD ?lg ?i ?e] =>
          let E := fresh "T" in destruct (tD lg i e) eqn:E; simpl in H; try discriminate H
      end).

  Definition cs_dfd (lg : bool) (cs : list texpr) : Prop := Forall (dfd S) cs.

  Ltac use_tD Hs :=
    repeat match goal with
      | E : tD ?lg ?i ?e = Some ?a |- _ =>
          let R := fresh "Q" in let Df := fresh "Df" in
          assert (Df : dfd S e) by (first [assumption | (rewrite Forall_forall in Hs; apply Hs; simpl; tauto)]);
          assert (R : ev S a = Dd lg i (ev S e)) by (apply (ev_tD S lg i e a E Df));
          pose proof (dfd_tD S lg i e a E Df);
          revert E
      end; intros.

  Theorem sobolev_ref_sound semi k lg d (scalar : bool) cs t :
    (1 <= d <= 3)%nat -> (if scalar then length cs = 1%nat else length cs = d) ->
    sobolev_ref semi k lg d scalar cs = Some t -> Forall (dfd S) cs ->
    ev S t = classical semi k lg d (map (ev S) cs).
  Proof.
    intros Hd Hl H Hs.
    destruct d as [|[|[|[|d]]]]; try lia; destruct scalar;
      repeat (destruct cs as [|?c cs]; try discriminate Hl); clear Hl;
      destruct k; unfold sobolev_ref, ref_h1, ref_h2, grad_s, grad_v, hessian_s, dd, dd2 in H; simpl in H;
      try discriminate H; brkT H; destruct semi; inversion H; subst; clear H; use_tD Hs;
      unfold classical, c_l2, c_h1, c_h2, c_hrow, sqF, ref_l2, tsq; simpl;
      unfold ev in *; simpl;
      rewrite ?Q, ?Q0, ?Q1, ?Q2, ?Q3, ?Q4, ?Q5, ?Q6, ?Q7, ?Q8, ?Q9, ?Q10, ?Q11, ?Q12, ?Q13, ?Q14, ?Q15, ?Q16, ?Q17;
      rewrite ?Q, ?Q0, ?Q1, ?Q2, ?Q3, ?Q4, ?Q5, ?Q6, ?Q7, ?Q8; simpl; try ring.
  Qed.
End Norm.

Lemma col0_length rows : forall v, col0 rows = Ok v -> length (concat rows) = length rows.
Proof.
  unfold col0. induction rows as [|r0 rows IH]; intros v Ec; simpl in *; auto.
  destruct r0 as [|x [|y r0]]; try discriminate Ec. simpl in Ec.
  destruct (mapR _ rows) as [vs|c] eqn:Er; try discriminate Ec. simpl. f_equal. eapply IH. reflexivity.
Qed.

(* model and reference agree semantically wherever both are defined (same guards as norm_partial) *)
Theorem norm_matches_reference (S : dfield) semi k lg d inp r t :
  (1 <= d <= 3)%nat -> wf_input d inp -> norm_integrand semi k lg d inp = Ok r -> inp_sdf S lg inp ->
  (k <> H2 \/ d = 1%nat) ->
  sobolev_ref semi k lg d (input_scalar inp) (map sx2t (input_comps inp)) = Some t ->
  ev S (sx2t r) = ev S t.
Proof.
  intros Hd Hw H Hs Hk Ht.
  rewrite (norm_partial S semi k lg d inp r Hd Hw H Hs Hk).
  rewrite (sobolev_ref_sound S semi k lg d (input_scalar inp) (map sx2t (input_comps inp)) t Hd); auto.
  - now rewrite map_map.
  - destruct inp as [e|rows]; simpl in *; [reflexivity|].
    rewrite map_length. rewrite <- Hw.
    destruct k; try discriminate H; unfold norm_integrand in H;
      destruct (col0 rows) as [v|c] eqn:Ec; try discriminate H; eapply col0_length; eauto.
  - destruct Hs as [Hs _]. rewrite Forall_forall in *. intros x Hx. apply in_map_iff in Hx.
    destruct Hx as [e [<- He]]. apply sdf_dfd. auto.
Qed.

(* ------------------------------------------------------------------- refutation of H2 *)
(* free-jet evaluation: the derivative atoms are independent numbers (DESIGN 4.2) *)
Fixpoint jeval (nu : atom -> Q) (t : texpr) : Q :=
  match t with
  | TZ z => inject_Z z
  | TQ p q => Qmake p q
  | TAt a => nu a
  | TAdd a b => (jeval nu a + jeval nu b)%Q
  | TSub a b => (jeval nu a - jeval nu b)%Q
  | TMul a b => (jeval nu a * jeval nu b)%Q
  | TDiv a b => (jeval nu a / jeval nu b)%Q
  | TOpp a => (- jeval nu a)%Q
  | TInv a => (/ jeval nu a)%Q
  | TPowN a n => Qpower (jeval nu a) (Z.of_N n)
  | TFn _ _ | TPowG _ _ => 0%Q
  end.

(* e = u on a 2-D domain, jet with u_yy = 1 and every other derivative 0: the assembled H2 integrand
   is 0, the classical one is 1 *)
Definition h2_witness_jet (a : atom) : Q :=
  match a with AFld _ _ _ _ [0%nat; 2%nat] => 1%Q | _ => 0%Q end.

Theorem h2_refuted :
  exists semi lg d e r t nu,
    norm_integrand semi H2 lg d (NS e) = Ok r /\
    sobolev_ref semi H2 lg d true [sx2t e] = Some t /\
    Qeq_bool (jeval nu (sx2t r)) (jeval nu t) = false.
Proof.
  exists false, true, 2%nat, (SAt (AFld true "u" 0 SNone [])).
  eexists. eexists. exists h2_witness_jet.
  split; [vm_compute; reflexivity|]. split; [vm_compute; reflexivity|]. vm_compute. reflexivity.
Qed.

(* ----------------------------------------------------------------- error behaviour *)
(* 1-D: Dot_1d indexes the pieces returned by Grad_1d; only bare derivative objects survive: a value is
   returned only for  (numeric combination of terms whose derivative is a bare derivative object) + number *)
Theorem norm_1d_h1_value_only_if semi lg e r :
  norm_integrand semi H1 lg 1 (NS e) = Ok r ->
  Forall (fun cr => is_number (snd cr) = true \/ exists a, dop lg 0 (snd cr) = Some a /\ is_dobj a = true) (lin_terms e).
Proof.
  unfold norm_integrand, dgrad. destruct (lin_d1 (dsc lg 0) e) as [g|c] eqn:El; [|discriminate]. intros _.
  pose proof (lin_d1_only_if (dsc lg 0) e g El) as H. rewrite Forall_forall in *. intros cr Hc.
  destruct (H cr Hc) as [Hn|[a [Ha Hb]]]; [now left|right]. exists a. split; auto.
  unfold dsc, of_opt in Ha. destruct (dop lg 0 (snd cr)); [now inversion Ha|discriminate].
Qed.

(* the usual error expression u - f(x) with a non-constant analytic f: TypeError *)
Example norm_1d_h1_type_error_example :
  let u := SAt (AFld true "u" 0 SNone []) in
  let x := SAt (ACoord true 0) in
  forall semi, norm_integrand semi H1 true 1 (NS (SAdd [u; SMul [sZ (-1); SPow x (sZ 2)]])) = Er ETypeError
            /\ norm_integrand semi H2 true 1 (NS (SAdd [u; SMul [sZ (-1); SPow x (sZ 2)]])) = Er ETypeError
            /\ (exists r, norm_integrand semi H1 true 1 (NS (SAdd [u; SMul [sZ (-3); SAt (AFld true "v" 0 SNone [])]; sZ 5])) = Ok r).
Proof. intros u x [|]; (split; [vm_compute; reflexivity|split; [vm_compute; reflexivity|eexists; vm_compute; reflexivity]]). Qed.

(* 1-D vectors: there is no Inner_1d *)
Theorem norm_1d_vector_h1_name_error semi lg x a :
  dop lg 0 x = Some a -> norm_integrand semi H1 lg 1 (NV [[x]]) = Er ENameError.
Proof.
  intros Ha. unfold norm_integrand, col0, grad_kd, dval, dsc, inner_kd, of_opt, bind. simpl. now rewrite Ha.
Qed.

(* vectors of H2: refused *)
Theorem norm_h2_vector_refused semi lg d rows : norm_integrand semi H2 lg d (NV rows) = Er ENotImplemented.
Proof. reflexivity. Qed.

(* a vector with more components than the dimension: Dot_2d / Dot_3d silently drop the others *)
Theorem norm_l2_drops_components_2d semi lg a b rest :
  norm_integrand semi L2 lg 2 (NV ([a] :: [b] :: map (fun x => [x]) rest)) = Ok (SAdd [prod2 a a; prod2 b b]).
Proof.
  unfold norm_integrand, col0. simpl.
  assert (E : mapR (fun r => match r with [x] => Ok x | _ => Er EValueError end) (map (fun x => [x]) rest) = Ok rest).
  { induction rest as [|x r IH]; simpl; auto. rewrite IH. reflexivity. }
  rewrite E. reflexivity.
Qed.

Theorem norm_l2_drops_components_3d semi lg a b c rest :
  norm_integrand semi L2 lg 3 (NV ([a] :: [b] :: [c] :: map (fun x => [x]) rest)) =
  Ok (SAdd [prod2 a a; prod2 b b; prod2 c c]).
Proof.
  unfold norm_integrand, col0. simpl.
  assert (E : mapR (fun r => match r with [x] => Ok x | _ => Er EValueError end) (map (fun x => [x]) rest) = Ok rest).
  { induction rest as [|x r IH]; simpl; auto. rewrite IH. reflexivity. }
  rewrite E. reflexivity.
Qed.
