(* Lemmas about the Union model (C14). *)
From Coq Require Import String List Bool Arith PeanoNat Permutation Sorted Lia.
From V Require Import Core.StrOrd Core.Canon Model.UnionM.
Import ListNotations.

Definition notnone (args : list value) := filter (fun v => negb (is_none v)) args.
Definition flat (args : list value) : list atom := flatten_args (notnone args).
Definition awf (l : list atom) : Prop := wf aeqb a_str l.

(* boolean test for well-formed families, used by non-vacuity examples and by the
   case files (the harness asserts it for every generated family) *)
Definition atom_eqb (a b : atom) : bool :=
  Nat.eqb (a_id a) (a_id b) && String.eqb (a_str a) (a_str b) && Nat.eqb (a_dim a) (a_dim b).
Lemma atom_eqb_eq a b : atom_eqb a b = true <-> a = b.
Proof.
  unfold atom_eqb. rewrite !andb_true_iff, !Nat.eqb_eq, String.eqb_eq. split.
  - intros [[H1 H2] H3]. destruct a, b; simpl in *; congruence.
  - intros ->. auto.
Qed.
Definition awf_b (l : list atom) : bool :=
  forallb (fun a => forallb (fun b =>
     Bool.eqb (aeqb a b) (atom_eqb a b) && Bool.eqb (String.eqb (a_str a) (a_str b)) (atom_eqb a b)) l) l.
Lemma awf_b_sound l : awf_b l = true -> awf l.
Proof.
  unfold awf_b. rewrite forallb_forall. intros H.
  assert (K : forall a b, In a l -> In b l ->
     aeqb a b = atom_eqb a b /\ String.eqb (a_str a) (a_str b) = atom_eqb a b).
  { intros a b Ha Hb. specialize (H a Ha). rewrite forallb_forall in H. specialize (H b Hb).
    apply andb_true_iff in H. destruct H as [H1 H2]. apply Bool.eqb_prop in H1, H2. auto. }
  split; intros a b Ha Hb; destruct (K a b Ha Hb) as [K1 K2].
  - rewrite K1. apply atom_eqb_eq.
  - intros E. apply atom_eqb_eq. rewrite <- K2. now apply String.eqb_eq.
Qed.

(* ------------------------------------------------------------ small facts *)
Lemma flatten_args_In args a :
  In a (flatten_args args) <-> exists v, In v args /\ In a (members v).
Proof.
  unfold flatten_args. rewrite in_app_iff, !in_flat_map. split.
  - intros [[v [Hv Ha]]|[v [Hv Ha]]]; apply filter_In in Hv; exists v; tauto.
  - intros [v [Hv Ha]]. destruct (is_union v) eqn:E; [right|left]; exists v; split; auto;
      apply filter_In; rewrite ?E; auto.
Qed.

Lemma flat_In args a :
  In a (flat args) <-> exists v, In v args /\ In a (members v).
Proof.
  unfold flat. rewrite flatten_args_In. split; intros [v [Hv Ha]]; exists v; split; auto.
  - apply filter_In in Hv. tauto.
  - apply filter_In. split; auto. destruct v; simpl in *; auto; contradiction.
Qed.

Lemma pack_members s : members (pack s) = s.
Proof. destruct s as [|a [|b r]]; reflexivity. Qed.

Lemma nodup_nat_In l x : In x (nodup_nat l) <-> In x l.
Proof.
  induction l as [|n r IH]; simpl; [tauto|].
  destruct (existsb (Nat.eqb n) r) eqn:E.
  - rewrite IH. split; [tauto|]. intros [->|H]; auto.
    apply existsb_exists in E. destruct E as [y [Hy Ey]]. apply Nat.eqb_eq in Ey. now subst.
  - simpl. rewrite IH. tauto.
Qed.

Lemma nodup_nat_NoDup l : NoDup (nodup_nat l).
Proof.
  induction l as [|n r IH]; simpl; [constructor|].
  destruct (existsb (Nat.eqb n) r) eqn:E; auto.
  constructor; auto. rewrite nodup_nat_In. intros H.
  assert (existsb (Nat.eqb n) r = true) by (apply existsb_exists; exists n; split; auto; apply Nat.eqb_refl).
  congruence.
Qed.

Lemma nodup_nat_len_ext l1 l2 :
  (forall x, In x l1 <-> In x l2) -> length (nodup_nat l1) = length (nodup_nat l2).
Proof.
  intros H. apply Permutation_length. apply NoDup_Permutation; try apply nodup_nat_NoDup.
  intros x. rewrite !nodup_nat_In. apply H.
Qed.

Lemma Permutation_filter {A} (f : A -> bool) l l' :
  Permutation l l' -> Permutation (filter f l) (filter f l').
Proof.
  induction 1; simpl; auto.
  - destruct (f x); auto.
  - destruct (f x), (f y); auto. apply perm_swap.
  - etransitivity; eauto.
Qed.

Lemma existsb_perm {A} (f : A -> bool) l l' : Permutation l l' -> existsb f l = existsb f l'.
Proof.
  intros H. destruct (existsb f l) eqn:E; symmetry.
  - apply existsb_exists in E. destruct E as [x [Hx Fx]]. apply existsb_exists. exists x.
    split; auto. eapply Permutation_in; eauto.
  - destruct (existsb f l') eqn:E'; auto. apply existsb_exists in E'. destruct E' as [x [Hx Fx]].
    assert (existsb f l = true) by (apply existsb_exists; exists x; split; auto;
      eapply Permutation_in; [symmetry|]; eauto). congruence.
Qed.

(* ------------------------------------------------------- characterisation *)
Lemma union_new_ok args v :
  union_new args = Ok v ->
  existsb is_bad (notnone args) = false /\
  length (nodup_nat (map vdim (notnone args))) <= 1 /\
  v = pack (canon aeqb a_str (flat args)).
Proof.
  unfold union_new, flat, notnone.
  destruct (existsb is_bad _) eqn:Eb; [discriminate|].
  destruct (Nat.ltb 1 _) eqn:Ed; [discriminate|].
  intros H. inversion H. apply Nat.ltb_ge in Ed. auto.
Qed.

Theorem union_spec args v :
  union_new args = Ok v -> awf (flat args) ->
  (forall a, In a (members v) <-> In a (flat args)) /\
  NoDup (members v) /\ StronglySorted (kle a_str) (members v) /\ v = pack (members v).
Proof.
  intros H Hwf. apply union_new_ok in H. destruct H as [_ [_ ->]].
  rewrite pack_members. repeat split.
  - apply canon_In; auto.
  - apply canon_In; auto.
  - apply canon_NoDup; auto.
  - apply canon_sorted.
Qed.

(* The result is a function of the SET of members: covers commutativity,
   idempotence, flattening. *)
Theorem union_set_ext args1 args2 v1 v2 :
  union_new args1 = Ok v1 -> union_new args2 = Ok v2 ->
  awf (flat args1 ++ flat args2) ->
  (forall a, In a (flat args1) <-> In a (flat args2)) -> v1 = v2.
Proof.
  intros H1 H2 Hwf Heq. apply union_new_ok in H1, H2.
  destruct H1 as [_ [_ ->]], H2 as [_ [_ ->]]. f_equal. apply canon_set_ext; auto.
Qed.

(* Commutativity, errors included *)
Theorem union_perm args args' :
  Permutation args args' -> awf (flat args) -> union_new args = union_new args'.
Proof.
  intros HP Hwf. unfold union_new.
  assert (HPn : Permutation (notnone args) (notnone args')) by now apply Permutation_filter.
  fold (notnone args) (notnone args').
  rewrite (existsb_perm _ _ _ HPn). destruct (existsb is_bad (notnone args')); auto.
  rewrite (nodup_nat_len_ext (map vdim (notnone args)) (map vdim (notnone args'))).
  2:{ intros x. split; apply Permutation_in; [|symmetry]; now apply Permutation_map. }
  destruct (Nat.ltb 1 _); auto. do 2 f_equal.
  fold (flat args) (flat args'). apply canon_set_ext.
  - eapply wf_incl; [|exact Hwf]. intros a Ha. apply in_app_or in Ha. destruct Ha as [Ha|Ha]; auto.
    rewrite flat_In in *. destruct Ha as [v [Hv Ha]]. exists v. split; auto.
    eapply Permutation_in; [symmetry; exact HP|exact Hv].
  - intros a. rewrite !flat_In. split; intros [v [Hv Ha]]; exists v; split; auto.
    + eapply Permutation_in; [exact HP|exact Hv].
    + eapply Permutation_in; [symmetry; exact HP|exact Hv].
Qed.

Theorem union_nil : union_new [] = Ok VNone.
Proof. reflexivity. Qed.

Theorem union_all_none args : Forall (fun v => v = VNone) args -> union_new args = Ok VNone.
Proof.
  intros H. unfold union_new.
  assert (E : filter (fun v => negb (is_none v)) args = []).
  { induction H as [|v r Hv _ IH]; simpl; auto. subst v. simpl. exact IH. }
  rewrite E. reflexivity.
Qed.

Theorem union_single a : union_new [VAtom a] = Ok (VAtom a).
Proof. reflexivity. Qed.

Theorem union_idem_atom a : union_new [VAtom a; VAtom a] = Ok (VAtom a).
Proof.
  unfold union_new; simpl. rewrite Nat.eqb_refl. simpl.
  unfold flatten_args, canon; simpl. unfold aeqb. rewrite Nat.eqb_refl. reflexivity.
Qed.

(* Union(u) = u, Union(u, u) = u for a canonical union value *)
Definition canonical (l : list atom) : Prop :=
  awf l /\ NoDup l /\ StronglySorted (kle a_str) l /\ 2 <= length l /\
  (forall a b, In a l -> In b l -> a_dim a = a_dim b).

Lemma canon_of_canonical l : canonical l -> canon aeqb a_str l = l.
Proof.
  intros (Hwf & Hnd & Hs & _ & _). apply (sorted_unique atom aeqb a_str).
  - intros a b Ha Hb. apply (proj2 Hwf); apply in_app_or in Ha; apply in_app_or in Hb;
      rewrite ?canon_In in *; tauto.
  - now apply canon_NoDup.
  - exact Hnd.
  - apply canon_sorted.
  - exact Hs.
  - intros a. now apply canon_In.
Qed.

Lemma pack_canonical l : canonical l -> pack l = VUnion l.
Proof. intros (_ & _ & _ & Hl & _). destruct l as [|a [|b r]]; simpl in *; auto; lia. Qed.

Lemma flatten_only_unions l : flatten_args [VUnion l] = l.
Proof. unfold flatten_args; simpl. now rewrite app_nil_r. Qed.

Theorem union_idem_union l : canonical l ->
  union_new [VUnion l] = Ok (VUnion l) /\ union_new [VUnion l; VUnion l] = Ok (VUnion l).
Proof.
  intros Hc. pose proof Hc as (Hwf & Hnd & Hs & Hl & Hd). split.
  - unfold union_new. simpl. rewrite flatten_only_unions.
    rewrite canon_of_canonical, pack_canonical; auto.
  - unfold union_new. simpl. destruct l as [|a r]; [simpl in Hl; lia|].
    rewrite Nat.eqb_refl. simpl.
    replace (flatten_args [VUnion (a :: r); VUnion (a :: r)]) with ((a :: r) ++ (a :: r)).
    2:{ unfold flatten_args; simpl. now rewrite app_nil_r. }
    rewrite canon_dup; auto. rewrite canon_of_canonical, pack_canonical; auto.
Qed.

(* Mixed dimensions are refused *)
Theorem union_mixed_dims args v w :
  existsb is_bad (notnone args) = false ->
  In v (notnone args) -> In w (notnone args) -> vdim v <> vdim w ->
  union_new args = Err ValueErr.
Proof.
  intros Hb Hv Hw Hne. unfold union_new. fold (notnone args). rewrite Hb.
  assert (Hlen : 2 <= length (nodup_nat (map vdim (notnone args)))).
  { assert (I1 : In (vdim v) (nodup_nat (map vdim (notnone args)))) by (apply nodup_nat_In, in_map; auto).
    assert (I2 : In (vdim w) (nodup_nat (map vdim (notnone args)))) by (apply nodup_nat_In, in_map; auto).
    destruct (nodup_nat (map vdim (notnone args))) as [|x [|y r]]; simpl in *; [contradiction| |lia].
    destruct I1 as [E1|[]], I2 as [E2|[]]. congruence. }
  apply Nat.ltb_lt in Hlen. now rewrite Hlen.
Qed.

Theorem union_bad args : existsb is_bad (notnone args) = true -> union_new args = Err TypeErr.
Proof. intros H. unfold union_new. fold (notnone args). now rewrite H. Qed.

(* Flattening / associativity on the success path *)
Theorem union_assoc a1 inner a3 v r1 r2 :
  union_new inner = Ok v ->
  union_new (a1 ++ v :: a3) = Ok r1 -> union_new (a1 ++ inner ++ a3) = Ok r2 ->
  awf (flat (a1 ++ inner ++ a3)) -> r1 = r2.
Proof.
  intros Hi H1 H2 Hwf.
  assert (Hwfi : awf (flat inner)).
  { eapply wf_incl; [|exact Hwf]. intros a. rewrite !flat_In. intros [x [Hx Ha]]. exists x.
    split; auto. apply in_or_app. right. apply in_or_app. now left. }
  destruct (union_spec _ _ Hi Hwfi) as (Hm & _).
  assert (Hsame : forall a, In a (flat (a1 ++ v :: a3)) <-> In a (flat (a1 ++ inner ++ a3))).
  { intros a. rewrite !flat_In. split.
    - intros [x [Hx Ha]]. apply in_app_or in Hx. destruct Hx as [Hx|[<-|Hx]].
      + exists x. split; auto. apply in_or_app. now left.
      + apply Hm in Ha. apply flat_In in Ha. destruct Ha as [y [Hy Ha]]. exists y. split; auto.
        apply in_or_app. right. apply in_or_app. now left.
      + exists x. split; auto. apply in_or_app. right. apply in_or_app. now right.
    - intros [x [Hx Ha]]. apply in_app_or in Hx. destruct Hx as [Hx|Hx].
      + exists x. split; auto. apply in_or_app. now left.
      + apply in_app_or in Hx. destruct Hx as [Hx|Hx].
        * exists v. split; [apply in_or_app; right; now left|]. apply Hm. apply flat_In. now exists x.
        * exists x. split; auto. apply in_or_app. right. now right. }
  eapply union_set_ext; eauto.
  eapply wf_incl; [|exact Hwf]. intros a Ha. apply in_app_or in Ha. destruct Ha as [Ha|Ha]; auto.
  now apply Hsame.
Qed.

(* complement removes exactly the given members *)
Theorem complement_spec u arg v :
  (arg <> VNone /\ arg <> VBad) -> awf (u ++ members arg) ->
  complement u arg = Ok v ->
  forall a, In a (members v) <-> (In a u /\ ~ In a (members arg)).
Proof.
  intros [Hn Hb] Hwf Hc a.
  assert (Hc' : union_new (map VAtom (filter (fun i => negb (mem aeqb i (members arg))) u)) = Ok v)
    by (destruct arg; simpl in *; congruence).
  clear Hc. set (kept := filter (fun i => negb (mem aeqb i (members arg))) u) in *.
  assert (Hflat : forall x, In x (flat (map VAtom kept)) <-> In x kept).
  { intros x. rewrite flat_In. split.
    - intros [w [Hw Hx]]. apply in_map_iff in Hw. destruct Hw as [y [<- Hy]]. simpl in Hx.
      destruct Hx as [<-|[]]. exact Hy.
    - intros Hx. exists (VAtom x). split; [now apply in_map|now left]. }
  assert (Hwfk : awf (flat (map VAtom kept))).
  { eapply wf_incl; [|exact Hwf]. intros x Hx. apply Hflat in Hx. apply filter_In in Hx.
    apply in_or_app. tauto. }
  destruct (union_spec _ _ Hc' Hwfk) as (Hm & _). rewrite Hm, Hflat. unfold kept.
  rewrite filter_In. unfold mem. rewrite negb_true_iff.
  cut (In a u -> (existsb (aeqb a) (members arg) = false <-> ~ In a (members arg))); [tauto|].
  intros Hau. split.
  - intros Hf Hin. assert (existsb (aeqb a) (members arg) = true).
    { apply existsb_exists. exists a. split; auto. apply (proj1 Hwf a a); auto; apply in_or_app; auto. }
    congruence.
  - intros Hnin. destruct (existsb (aeqb a) (members arg)) eqn:E; auto.
    apply existsb_exists in E. destruct E as [y [Hy Ey]].
    apply (proj1 Hwf a y) in Ey; [subst; contradiction| |]; apply in_or_app; auto.
Qed.

Theorem complement_none u : complement u VNone = Ok (VUnion u).
Proof. reflexivity. Qed.

(* ------------------------------------------------------------- iteration *)
Fixpoint count_next (k n : nat) (ops : list iop) : nat :=
  match ops with
  | [] => 0
  | IIter :: r => count_next k (S n) r
  | INext j :: r => (if Nat.eqb j k && Nat.ltb k n then 1 else 0) + count_next k n r
  end.

Lemma nth_set_nth_same k v st : k < length st -> nth k (set_nth k v st) 0 = v.
Proof. revert k; induction st as [|x r IH]; intros [|k]; simpl; intros H; try lia; auto. apply IH. lia. Qed.

Lemma nth_set_nth_other k j v st : j <> k -> nth k (set_nth j v st) 0 = nth k st 0.
Proof. revert k j; induction st as [|x r IH]; intros [|k] [|j]; simpl; intros H; try lia; auto. Qed.

Lemma length_set_nth k v st : length (set_nth k v st) = length st.
Proof. revert k; induction st as [|x r IH]; intros [|k]; simpl; auto. Qed.

Lemma nth_error_nth st k pos : nth_error st k = Some pos -> nth k st 0 = pos /\ k < length st.
Proof. intros H. split; [now apply nth_error_nth|]. apply nth_error_Some. congruence. Qed.

Lemma skipn_cons_nth {A} (u : list A) pos a : nth_error u pos = Some a -> skipn pos u = a :: skipn (S pos) u.
Proof.
  revert pos; induction u as [|x r IH]; intros [|p]; simpl; intros H; try discriminate.
  - now inversion H.
  - now apply IH.
Qed.

Lemma skipn_none_nil {A} (u : list A) pos : nth_error u pos = None -> skipn pos u = [].
Proof. intros H. apply skipn_all2. now apply nth_error_None. Qed.

(* Every iterator yields the members in order, each exactly once, whatever the interleaving. *)
Theorem iter_exactly_once u k : forall ops st,
  yields_of k ops (irun u st ops) = firstn (count_next k (length st) ops) (skipn (nth k st 0) u).
Proof.
  induction ops as [|o r IH]; intros st; simpl; [reflexivity|].
  destruct o as [|j]; simpl.
  - rewrite IH. rewrite app_length; simpl. rewrite Nat.add_1_r.
    f_equal. f_equal.
    destruct (Nat.lt_ge_cases k (length st)) as [Hlt|Hge].
    + now rewrite app_nth1.
    + rewrite (nth_overflow st) by lia. rewrite app_nth2 by lia.
      destruct (k - length st) as [|[|m]]; reflexivity.
  - destruct (nth_error st j) as [pos|] eqn:Ej.
    + apply nth_error_nth in Ej as [Ep Hj].
      destruct (nth_error u pos) as [a|] eqn:Eu; simpl.
      * rewrite IH, length_set_nth. destruct (Nat.eqb_spec j k) as [->|Hne]; simpl.
        -- apply Nat.ltb_lt in Hj as Hj'. rewrite Hj'. simpl.
           rewrite nth_set_nth_same by auto. rewrite Ep. rewrite (skipn_cons_nth _ _ _ Eu). reflexivity.
        -- rewrite nth_set_nth_other by auto. reflexivity.
      * rewrite IH. destruct (Nat.eqb_spec j k) as [->|Hne]; simpl; auto.
        rewrite Ep. rewrite (skipn_none_nil _ _ Eu). now rewrite !firstn_nil.
    + simpl. rewrite IH. apply nth_error_None in Ej.
      destruct (Nat.eqb_spec j k) as [->|Hne]; simpl; auto.
      assert (Nat.ltb k (length st) = false) as -> by (apply Nat.ltb_ge; lia). reflexivity.
Qed.

(* a complete loop  for x in u  visits every member exactly once, and ends *)
Definition full_loop (n : nat) (k : nat) : list iop := repeat (INext k) (S n).

Lemma count_next_repeat k n m : k < n -> count_next k n (repeat (INext k) m) = m.
Proof.
  intros H. induction m as [|m IH]; simpl; auto. rewrite Nat.eqb_refl.
  apply Nat.ltb_lt in H. rewrite H. simpl. now rewrite IH.
Qed.

Theorem complete_iteration u st k :
  k = length st ->
  yields_of k (IIter :: full_loop (length u) k) (irun u st (IIter :: full_loop (length u) k)) = u.
Proof.
  intros ->. rewrite iter_exactly_once. simpl count_next. unfold full_loop.
  rewrite count_next_repeat by lia. rewrite nth_overflow by lia. simpl skipn.
  apply firstn_all2. lia.
Qed.

(* The shared-cursor design does not have this property: a nested loop over a
   3-member union ends the outer loop after one round. *)
Definition nested_ops : list iop :=
  (* for a in u: for b in u: pass    (outer = iterator 0, inner = iterators 1,2,3) *)
  [IIter; INext 0; IIter; INext 1; INext 1; INext 1; INext 1; INext 0].

Theorem shared_cursor_refuted :
  exists u, yields_of 0 nested_ops (irun_shared u 0 nested_ops)
            <> yields_of 0 nested_ops (irun u [] nested_ops).
Proof.
  exists [mkAtom 1 "A" 2; mkAtom 2 "B" 2; mkAtom 3 "C" 2]. vm_compute. discriminate.
Qed.
