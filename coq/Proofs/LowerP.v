(* C01 - proofs about the model of TerminalExpr.eval (Model/LowerM.v) and the generated tables
   (Gen/Formulas.v).  Contents, one module per part:
     P1   Basics: lists, the dfield with other field symbols, semantic equality of values, table instantiation
     P2   Congr: every classical operator of Core/Classical.v respects any relation closed under d_i, +, -, *, opp
     P3   Tables: generic arguments, the table checkers and the named per-table lemmas (closed computations on Gen/Formulas.v)
     P3b  Kinds: argument kinds, environments, compatibility with classical forms
     P4   Apply: instantiating a checked table at a lowered argument is the classical operator
     P5   Arith: Python's + and * on lowered values vs entry-wise arithmetic
     P6   Main: lower_sound_partial by induction on the tree
     P7   Total: the reference derivative never refuses on lowered values; tables total on typed arguments; lower_total_shape
     P8   Results: corollaries, refusals, refutations of the unguarded statements, non-vacuity
     P9   Poly: division-free trees are defined in every differential field (no hypothesis); lower_sound_poly
   Main results (restated in Props/C01.v):
     per-table lemmas  *_correct        generated table = classical definition on the generic argument (all arms,
                                        including the matrix arms of Dot since the repair 1e0454e)
     lower_sound_partial                lower = Some t -> gden = Some r -> t and r are entry-wise equal in every
                                        differential field, d = 1..3 (guard [regular] = what is classically modelled)
     lower_sound_supported              the same on the whole supported fragment, d = 2, 3 (supported_regular)
     lower_sound_poly                   no definedness hypothesis on division-free trees
     lower_total / lower_shape          d = 2, 3, the whole supported fragment (full strength since 14cf28b, 1e0454e)
     lower_total_1d_refuted             1-D totality is false (known finding), explicit refusal lemmas,
     repaired_witnesses                 the former defect witnesses now lower to the classical value. *)
From Coq Require Import Ascii String ZArith List Bool Arith Lia Field_theory Field.
From V Require Import Core.FieldEq Core.Terminal Core.TerminalP Core.DField Core.Classical Gen.Formulas Model.LowerM.
Import ListNotations. Open Scope string_scope.

(* ==================================================================================================== *)
(* Basics: lists, the dfield with other field symbols, semantic equality of values, table instantiation *)
Module P1.
(* ============================================================ lists and options *)
Lemma sequence_Forall2 {A B} (f : A -> option B) l : forall r,
  sequence (map f l) = Some r -> Forall2 (fun a b => f a = Some b) l r.
Proof.
  induction l as [|x l IH]; simpl; intros r H.
  - inversion H. constructor.
  - destruct (f x) eqn:E; [|discriminate]. destruct (sequence (map f l)) eqn:E2; [|discriminate].
    inversion H. constructor; auto.
Qed.

Lemma Forall2_sequence {A B} (f : A -> option B) l r :
  Forall2 (fun a b => f a = Some b) l r -> sequence (map f l) = Some r.
Proof. induction 1; simpl; auto. rewrite H, IHForall2. reflexivity. Qed.

Lemma Forall2_length' {A B} (R : A -> B -> Prop) l m : Forall2 R l m -> length l = length m.
Proof. induction 1; simpl; auto. Qed.

Lemma Forall2_app' {A B} (R : A -> B -> Prop) l1 m1 l2 m2 :
  Forall2 R l1 m1 -> Forall2 R l2 m2 -> Forall2 R (l1 ++ l2) (m1 ++ m2).
Proof. induction 1; simpl; auto. Qed.

Lemma Forall2_concat {A B} (R : A -> B -> Prop) L M :
  Forall2 (Forall2 R) L M -> Forall2 R (concat L) (concat M).
Proof. induction 1; simpl; auto. apply Forall2_app'; auto. Qed.

Lemma Forall2_map {A B C D} (R : C -> D -> Prop) (f : A -> C) (g : B -> D) l m :
  Forall2 (fun a b => R (f a) (g b)) l m -> Forall2 R (map f l) (map g m).
Proof. induction 1; simpl; auto. Qed.

Lemma Forall2_nth {A B} (R : A -> B -> Prop) l m da db : Forall2 R l m -> R da db -> forall i, R (nth i l da) (nth i m db).
Proof. induction 1; intros Hd [|i]; simpl; auto. Qed.

Lemma Forall2_impl {A B} (R R' : A -> B -> Prop) l m : (forall a b, R a b -> R' a b) -> Forall2 R l m -> Forall2 R' l m.
Proof. induction 2; auto. Qed.

Lemma Forall2_zipw {A B} (R : A -> B -> Prop) (f : A -> A -> A) (g : B -> B -> B) l1 l2 m1 m2 :
  (forall a a' b b', R a b -> R a' b' -> R (f a a') (g b b')) ->
  Forall2 R l1 m1 -> Forall2 R l2 m2 -> Forall2 R (zipw f l1 l2) (zipw g m1 m2).
Proof.
  intros Hf H1. revert l2 m2. induction H1; intros l2 m2 H2; simpl; auto.
  destruct H2; simpl; auto.
Qed.

Lemma all2_Forall2 {A} (f : A -> A -> bool) l : forall m, all2 f l m = true -> Forall2 (fun a b => f a b = true) l m.
Proof.
  induction l as [|x l IH]; intros [|y m] H; simpl in H; try discriminate; auto.
  apply andb_true_iff in H. destruct H. constructor; auto.
Qed.

Lemma Forall2_and {A B} (R R' : A -> B -> Prop) l m : Forall2 R l m -> Forall2 R' l m -> Forall2 (fun a b => R a b /\ R' a b) l m.
Proof. induction 1; intros H2; inversion H2; subst; auto. Qed.

(* ============================================================ the dfield with other field symbols *)
Definition Sset (S : dfield) (fl : string -> nat -> side -> F S) : dfield :=
  {| F := F S; f0 := f0 S; f1 := f1 S; fadd := fadd S; fmul := fmul S; fsub := fsub S; fopp := fopp S;
     fdiv := fdiv S; finv := finv S; Fth := Fth S; cst := cst S; crd := crd S; fld := fl; mp := mp S; nrm := nrm S;
     D := D S; E := E S; P := P S;
     D_add := D_add S; D_mul := D_mul S; D_phi := D_phi S; D_cst := D_cst S; D_crd := D_crd S; D_comm := D_comm S;
     Edom := Edom S; Pdom := Pdom S;
     D_sin := D_sin S; D_cos := D_cos S; D_tan := D_tan S; D_exp := D_exp S; D_log := D_log S; D_sqrt := D_sqrt S;
     D_pow := D_pow S; Edom_sin_cos := Edom_sin_cos S; Pdom_log := Pdom_log S;
     P_pos := P_pos S; P_zero := P_zero S; P_neg := P_neg S |}.

(* ============================================================ semantic equality of values *)
Section Sem.
  Variable S : dfield.

  Definition eqv (a b : texpr) : Prop := ev S a = ev S b.
  Definition tdfd (t : tensor) : Prop := Forall (dfd S) (flat t).
  Definition tens_eq (t r : tensor) : Prop :=
    cshape t = cshape r /\ wf_tensor t = true /\ wf_tensor r = true /\ Forall2 eqv (flat t) (flat r).

  Lemma noconds_dok x y : tconds x y = [] -> dok S x y.
  Proof. intros H. unfold dok, denoms_ok, pcond. rewrite H. exact I. Qed.

  Lemma pair_eqb_eq a b : pair_eqb a b = true -> a = b.
  Proof.
    destruct a, b. unfold pair_eqb. simpl. intros H. apply andb_true_iff in H. destruct H as [H1 H2].
    apply Nat.eqb_eq in H1, H2. now subst.
  Qed.

  Lemma teqv_sound a b : teqv a b = true -> noconds a b = true -> tens_eq a b.
  Proof.
    unfold teqv, noconds, tens_eq. intros H Hn.
    apply andb_true_iff in H. destruct H as [H H4].
    apply andb_true_iff in H. destruct H as [H H3].
    apply andb_true_iff in H. destruct H as [H1 H2].
    split; [now apply pair_eqb_eq|]. split; [exact H2|]. split; [exact H3|].
    apply all2_Forall2 in H4. apply all2_Forall2 in Hn.
    pose proof (Forall2_and _ _ _ _ H4 Hn) as HH.
    eapply Forall2_impl; [|exact HH]. intros x y [E1 E2]. apply ev_tequiv; auto. apply noconds_dok.
    destruct (tconds x y); [reflexivity|discriminate].
  Qed.

  (* ------------------------------------------------------------ iterated reference derivative *)
  Lemma tDn_sound lg i n : forall t t', tDn lg i n t = Some t' -> dfd S t ->
    ev S t' = iterN (F S) n (D S lg i) (ev S t) /\ dfd S t'.
  Proof.
    induction n as [|n IH]; simpl; intros t t' H Hd.
    - inversion H. subst. auto.
    - destruct (tDn lg i n t) as [u|] eqn:E; [|discriminate].
      destruct (IH _ _ E Hd) as [E1 D1]. split.
      + rewrite (ev_tD S lg i u t' H D1). now rewrite E1.
      + eapply dfd_tD; eauto.
  Qed.

  Lemma tDs_sound lg al : forall i t t', tDs lg i al t = Some t' -> dfd S t ->
    ev S t' = iterD (F S) (D S) lg i al (ev S t) /\ dfd S t'.
  Proof.
    induction al as [|a r IH]; simpl; intros i t t' H Hd.
    - inversion H. subst. auto.
    - destruct (tDs lg (Datatypes.S i) r t) as [u|] eqn:E; [|discriminate].
      destruct (IH _ _ _ E Hd) as [E1 D1].
      destruct (tDn_sound _ _ _ _ _ H D1) as [E2 D2]. split; auto. now rewrite E2, E1.
  Qed.

  (* ------------------------------------------------------------ instantiation of a table *)
  Definition fl_of (env : genv) : string -> nat -> side -> F S :=
    fun f c s => match elookup env f c with Some x => ev S x | None => fld S f c s end.

  Definition env_dfd (env : genv) : Prop := forall f c x, elookup env f c = Some x -> dfd S x.

  Lemma tsubst_sound env : env_dfd env -> forall T t, tsubst env T = Some t ->
    ev S t = ev (Sset S (fl_of env)) T /\ dfd S t.
  Proof.
    intros He. induction T; intros t H; simpl in H; try discriminate.
    - inversion H. subst. split; [reflexivity|exact I].
    - destruct a as [| |lg f c s al| |]; try discriminate. destruct s; try discriminate.
      destruct (elookup env f c) as [x|] eqn:El; [|discriminate].
      destruct (tDs_sound _ _ _ _ _ H (He _ _ _ El)) as [E1 D1]. split; auto.
      rewrite E1. change (ev (Sset S (fl_of env)) (TAt (AFld lg f c SNone al)))
        with (iterD (F S) (D S) lg 0 al (fl_of env f c SNone)).
      unfold fl_of. now rewrite El.
    - destruct (tsubst env T1) as [a|] eqn:E1; [|discriminate]. destruct (tsubst env T2) as [b|] eqn:E2; [|discriminate].
      inversion H. subst. destruct (IHT1 _ eq_refl) as [A1 A2]. destruct (IHT2 _ eq_refl) as [B1 B2].
      split; [|split; auto].
      change (fadd S (ev S a) (ev S b) = fadd S (ev (Sset S (fl_of env)) T1) (ev (Sset S (fl_of env)) T2)). now rewrite A1, B1.
    - destruct (tsubst env T1) as [a|] eqn:E1; [|discriminate]. destruct (tsubst env T2) as [b|] eqn:E2; [|discriminate].
      inversion H. subst. destruct (IHT1 _ eq_refl) as [A1 A2]. destruct (IHT2 _ eq_refl) as [B1 B2].
      split; [|split; auto].
      change (fsub S (ev S a) (ev S b) = fsub S (ev (Sset S (fl_of env)) T1) (ev (Sset S (fl_of env)) T2)). now rewrite A1, B1.
    - destruct (tsubst env T1) as [a|] eqn:E1; [|discriminate]. destruct (tsubst env T2) as [b|] eqn:E2; [|discriminate].
      inversion H. subst. destruct (IHT1 _ eq_refl) as [A1 A2]. destruct (IHT2 _ eq_refl) as [B1 B2].
      split; [|split; auto].
      change (fmul S (ev S a) (ev S b) = fmul S (ev (Sset S (fl_of env)) T1) (ev (Sset S (fl_of env)) T2)). now rewrite A1, B1.
    - destruct (tsubst env T) as [a|] eqn:E1; [|discriminate]. inversion H. subst.
      destruct (IHT _ eq_refl) as [A1 A2]. split; auto.
      change (fopp S (ev S a) = fopp S (ev (Sset S (fl_of env)) T)). now rewrite A1.
    - destruct (tsubst env T) as [a|] eqn:E1; [|discriminate]. inversion H. subst.
      destruct (IHT _ eq_refl) as [A1 A2]. split; auto.
      change (fpow (F S) (f1 S) (fmul S) (ev S a) n = fpow (F S) (f1 S) (fmul S) (ev (Sset S (fl_of env)) T) n). now rewrite A1.
  Qed.
End Sem.
End P1.
Export P1.

(* ==================================================================================================== *)
(* Congr: every classical operator of Core/Classical.v respects any relation closed under d_i, +, -, *, opp *)
Module P2.
Lemma seq_rel2 {A B} (P : A -> A -> Prop) (Q : B -> B -> Prop) (f1 f2 : A -> option B) l1 l2 :
  Forall2 P l1 l2 -> (forall a b x y, P a b -> f1 a = Some x -> f2 b = Some y -> Q x y) ->
  forall r1 r2, sequence (map f1 l1) = Some r1 -> sequence (map f2 l2) = Some r2 -> Forall2 Q r1 r2.
Proof.
  intros HP HQ. induction HP as [|a b l1 l2 Hab Hl IH]; simpl; intros r1 r2 H1 H2.
  - inversion H1. inversion H2. constructor.
  - destruct (f1 a) eqn:E1; [|discriminate]. destruct (f2 b) eqn:E2; [|discriminate].
    destruct (sequence (map f1 l1)) eqn:S1; [|discriminate]. destruct (sequence (map f2 l2)) eqn:S2; [|discriminate].
    inversion H1. inversion H2. constructor; eauto.
Qed.

Lemma Forall2_eq_refl {A} (l : list A) : Forall2 eq l l.
Proof. induction l; auto. Qed.

Lemma seq_rel1 {A B} (Q : B -> B -> Prop) (f1 f2 : A -> option B) l :
  (forall a x y, f1 a = Some x -> f2 a = Some y -> Q x y) ->
  forall r1 r2, sequence (map f1 l) = Some r1 -> sequence (map f2 l) = Some r2 -> Forall2 Q r1 r2.
Proof.
  intros HQ. apply (seq_rel2 eq Q f1 f2 l l (Forall2_eq_refl l)). intros a b x y <-. apply HQ.
Qed.

(* ------------------------------------------------------------------------------------------------
   Everything the classical operators do is: differentiate, add, subtract, multiply, negate.  Any
   relation on terms that is respected by these is respected by every classical operator. *)
Section Rel.
  Variable R : texpr -> texpr -> Prop.
  Hypothesis R_tD : forall lg i x y x' y', R x y -> tD lg i x = Some x' -> tD lg i y = Some y' -> R x' y'.
  Hypothesis R_zero : R (TZ 0) (TZ 0).
  Hypothesis R_add : forall a b c d, R a b -> R c d -> R (TAdd a c) (TAdd b d).
  Hypothesis R_sub : forall a b c d, R a b -> R c d -> R (TSub a c) (TSub b d).
  Hypothesis R_mul : forall a b c d, R a b -> R c d -> R (TMul a c) (TMul b d).
  Hypothesis R_opp : forall a b, R a b -> R (TOpp a) (TOpp b).

  Lemma R_dd2 lg i j x y x' y' : R x y -> dd2 lg i j x = Some x' -> dd2 lg i j y = Some y' -> R x' y'.
  Proof.
    unfold dd2. intros HR H1 H2.
    destruct (tD lg j x) eqn:E1; [|discriminate]. destruct (tD lg j y) eqn:E2; [|discriminate].
    eapply R_tD; [|exact H1|exact H2]. eapply R_tD; eauto.
  Qed.

  Lemma R_tsum l m : Forall2 R l m -> R (Classical.tsum l) (Classical.tsum m).
  Proof.
    induction 1 as [|a b l m Hab Hl IH]; [apply R_zero|].
    destruct Hl as [|a' b' l m Hab' Hl].
    - exact Hab.
    - change (R (TAdd a (Classical.tsum (a' :: l))) (TAdd b (Classical.tsum (b' :: m)))). apply R_add; auto.
  Qed.

  Lemma R_zipmul a b c d : Forall2 R a b -> Forall2 R c d -> Forall2 R (zipmul a c) (zipmul b d).
  Proof.
    intros H1. revert c d. induction H1; intros c d H2; simpl; auto.
    destruct H2; simpl; auto.
  Qed.

  Lemma R_nth l m i : Forall2 R l m -> R (nth i l (TZ 0)) (nth i m (TZ 0)).
  Proof. intros H. now apply Forall2_nth. Qed.

  Lemma R_nth2 A B i j : Forall2 (Forall2 R) A B -> R (nth j (nth i A []) (TZ 0)) (nth j (nth i B []) (TZ 0)).
  Proof. intros H. apply R_nth. apply Forall2_nth; auto. Qed.

  Lemma R_col A B j : Forall2 (Forall2 R) A B -> Forall2 R (col A j) (col B j).
  Proof. intros H. unfold col. apply Forall2_map. eapply Forall2_impl; [|exact H]. intros a b Hab. now apply R_nth. Qed.

  (* same form, related entries *)
  Definition TRs_gen (t r : tensor) : Prop :=
    match t, r with
    | Sc x, Sc y => R x y
    | Vec l, Vec m => Forall2 R l m
    | Mat A, Mat B => Forall2 (Forall2 R) A B
    | _, _ => False
    end.

  Lemma rows_len A B : Forall2 (Forall2 R) A B ->
    match A with [] => 0 | r :: _ => length r end = match B with [] => 0 | r :: _ => length r end.
  Proof. intros H. destruct H; auto. eapply Forall2_length'; eauto. Qed.

  (* ------------------------------------------------ every classical operator respects TRs_gen *)
  Lemma grad_s_congr lg d f g r1 r2 : R f g -> grad_s lg d f = Some r1 -> grad_s lg d g = Some r2 -> TRs_gen r1 r2.
  Proof.
    unfold grad_s. intros HR H1 H2.
    destruct (sequence (map (fun i => dd lg i f) (seq0 d))) eqn:E1; [|discriminate].
    destruct (sequence (map (fun i => dd lg i g) (seq0 d))) eqn:E2; [|discriminate].
    inversion H1. inversion H2. simpl.
    eapply (seq_rel1 R _ _ (seq0 d)); [|exact E1|exact E2]. intros i x y. apply R_tD; auto.
  Qed.

  Lemma grad_v_congr lg d F G r1 r2 : Forall2 R F G -> grad_v lg d F = Some r1 -> grad_v lg d G = Some r2 -> TRs_gen r1 r2.
  Proof.
    unfold grad_v. intros HR H1 H2.
    match type of H1 with option_map _ ?s = _ => destruct s eqn:E1; [|discriminate] end.
    match type of H2 with option_map _ ?s = _ => destruct s eqn:E2; [|discriminate] end.
    inversion H1. inversion H2. simpl.
    eapply (seq_rel1 (Forall2 R) _ _ (seq0 d)); [|exact E1|exact E2]. intros i x y Hx Hy.
    eapply (seq_rel2 R R _ _ F G HR); [|exact Hx|exact Hy]. intros a b u v Hab. now apply R_tD.
  Qed.

  Lemma div_v_congr lg d F G r1 r2 : Forall2 R F G -> div_v lg d F = Some r1 -> div_v lg d G = Some r2 -> TRs_gen r1 r2.
  Proof.
    unfold div_v. intros HR H1 H2.
    match type of H1 with option_map _ ?s = _ => destruct s eqn:E1; [|discriminate] end.
    match type of H2 with option_map _ ?s = _ => destruct s eqn:E2; [|discriminate] end.
    inversion H1. inversion H2. simpl. apply R_tsum.
    eapply (seq_rel1 R _ _ (seq0 d)); [|exact E1|exact E2]. intros i x y. apply R_tD. now apply R_nth.
  Qed.

  Lemma div_m_congr lg d A B r1 r2 : Forall2 (Forall2 R) A B -> div_m lg d A = Some r1 -> div_m lg d B = Some r2 -> TRs_gen r1 r2.
  Proof.
    unfold div_m. cbv zeta. intros HR H1 H2. rewrite (rows_len A B HR) in H1.
    set (nc := match B with [] => 0 | r :: _ => length r end) in *. clearbody nc.
    destruct (sequence (map (fun j => option_map Classical.tsum (sequence (map (fun i => dd lg i (nth j (nth i A []) (TZ 0))) (seq0 d)))) (seq0 nc))) as [l1|] eqn:E1; [|discriminate].
    destruct (sequence (map (fun j => option_map Classical.tsum (sequence (map (fun i => dd lg i (nth j (nth i B []) (TZ 0))) (seq0 d)))) (seq0 nc))) as [l2|] eqn:E2; [|discriminate].
    inversion H1. inversion H2. simpl.
    eapply (seq_rel1 R); [|exact E1|exact E2]. intros j x y Hx Hy. simpl in Hx, Hy.
    destruct (sequence (map (fun i => dd lg i (nth j (nth i A []) (TZ 0))) (seq0 d))) as [m1|] eqn:F1; [|discriminate].
    destruct (sequence (map (fun i => dd lg i (nth j (nth i B []) (TZ 0))) (seq0 d))) as [m2|] eqn:F2; [|discriminate].
    inversion Hx. inversion Hy. apply R_tsum.
    eapply (seq_rel1 R); [|exact F1|exact F2]. intros i u v. apply R_tD. now apply R_nth2.
  Qed.

  Lemma curl_v_congr lg d F G r1 r2 : Forall2 R F G -> curl_v lg d F = Some r1 -> curl_v lg d G = Some r2 -> TRs_gen r1 r2.
  Proof.
    intros HR H1 H2. unfold curl_v, comp, dd in *.
    destruct d as [|[|[|[|d]]]]; try discriminate.
    - destruct (tD lg 0 (nth 1 F (TZ 0))) eqn:A1; [|discriminate]. destruct (tD lg 1 (nth 0 F (TZ 0))) eqn:A2; [|discriminate].
      destruct (tD lg 0 (nth 1 G (TZ 0))) eqn:B1; [|discriminate]. destruct (tD lg 1 (nth 0 G (TZ 0))) eqn:B2; [|discriminate].
      inversion H1. inversion H2. simpl.
      apply R_sub; [exact (R_tD _ _ _ _ _ _ (R_nth _ _ 1 HR) A1 B1)|exact (R_tD _ _ _ _ _ _ (R_nth _ _ 0 HR) A2 B2)].
    - destruct (tD lg 1 (nth 2 F (TZ 0))) eqn:A1; [|discriminate]. destruct (tD lg 2 (nth 1 F (TZ 0))) eqn:A2; [|discriminate].
      destruct (tD lg 2 (nth 0 F (TZ 0))) eqn:A3; [|discriminate]. destruct (tD lg 0 (nth 2 F (TZ 0))) eqn:A4; [|discriminate].
      destruct (tD lg 0 (nth 1 F (TZ 0))) eqn:A5; [|discriminate]. destruct (tD lg 1 (nth 0 F (TZ 0))) eqn:A6; [|discriminate].
      destruct (tD lg 1 (nth 2 G (TZ 0))) eqn:B1; [|discriminate]. destruct (tD lg 2 (nth 1 G (TZ 0))) eqn:B2; [|discriminate].
      destruct (tD lg 2 (nth 0 G (TZ 0))) eqn:B3; [|discriminate]. destruct (tD lg 0 (nth 2 G (TZ 0))) eqn:B4; [|discriminate].
      destruct (tD lg 0 (nth 1 G (TZ 0))) eqn:B5; [|discriminate]. destruct (tD lg 1 (nth 0 G (TZ 0))) eqn:B6; [|discriminate].
      simpl in H1, H2. inversion H1. inversion H2. simpl.
      repeat (apply Forall2_cons || apply Forall2_nil); apply R_sub.
      + exact (R_tD _ _ _ _ _ _ (R_nth _ _ 2 HR) A1 B1).
      + exact (R_tD _ _ _ _ _ _ (R_nth _ _ 1 HR) A2 B2).
      + exact (R_tD _ _ _ _ _ _ (R_nth _ _ 0 HR) A3 B3).
      + exact (R_tD _ _ _ _ _ _ (R_nth _ _ 2 HR) A4 B4).
      + exact (R_tD _ _ _ _ _ _ (R_nth _ _ 1 HR) A5 B5).
      + exact (R_tD _ _ _ _ _ _ (R_nth _ _ 0 HR) A6 B6).
  Qed.

  Lemma rot_s_congr lg f g r1 r2 : R f g -> rot_s lg f = Some r1 -> rot_s lg g = Some r2 -> TRs_gen r1 r2.
  Proof.
    unfold rot_s, dd. intros HR H1 H2.
    destruct (tD lg 1 f) eqn:A1; [|discriminate]. destruct (tD lg 0 f) eqn:A2; [|discriminate].
    destruct (tD lg 1 g) eqn:B1; [|discriminate]. destruct (tD lg 0 g) eqn:B2; [|discriminate].
    inversion H1. inversion H2. simpl. apply Forall2_cons; [|apply Forall2_cons; [apply R_opp|apply Forall2_nil]].
    + exact (R_tD _ _ _ _ _ _ HR A1 B1).
    + exact (R_tD _ _ _ _ _ _ HR A2 B2).
  Qed.

  Lemma laplace_s_congr lg d f g r1 r2 : R f g -> laplace_s lg d f = Some r1 -> laplace_s lg d g = Some r2 -> TRs_gen r1 r2.
  Proof.
    unfold laplace_s. intros HR H1 H2.
    match type of H1 with option_map _ ?s = _ => destruct s eqn:E1; [|discriminate] end.
    match type of H2 with option_map _ ?s = _ => destruct s eqn:E2; [|discriminate] end.
    inversion H1. inversion H2. simpl. apply R_tsum.
    eapply (seq_rel1 R); [|exact E1|exact E2]. intros i x y. now apply R_dd2.
  Qed.

  Lemma laplace_v_congr lg d F G r1 r2 : Forall2 R F G -> laplace_v lg d F = Some r1 -> laplace_v lg d G = Some r2 -> TRs_gen r1 r2.
  Proof.
    unfold laplace_v. intros HR H1 H2.
    destruct (sequence (map (fun Fi => option_map Classical.tsum (sequence (map (fun i => dd2 lg i i Fi) (seq0 d)))) F)) as [l1|] eqn:E1; [|discriminate].
    destruct (sequence (map (fun Fi => option_map Classical.tsum (sequence (map (fun i => dd2 lg i i Fi) (seq0 d)))) G)) as [l2|] eqn:E2; [|discriminate].
    inversion H1. inversion H2. simpl.
    eapply (seq_rel2 R R _ _ F G HR); [|exact E1|exact E2]. intros a b x y Hab Hx Hy. simpl in Hx, Hy.
    destruct (sequence (map (fun i => dd2 lg i i a) (seq0 d))) as [m1|] eqn:F1; [|discriminate].
    destruct (sequence (map (fun i => dd2 lg i i b) (seq0 d))) as [m2|] eqn:F2; [|discriminate].
    inversion Hx. inversion Hy. apply R_tsum.
    eapply (seq_rel1 R); [|exact F1|exact F2]. intros i u v. now apply R_dd2.
  Qed.

  Lemma hessian_s_congr lg d f g r1 r2 : R f g -> hessian_s lg d f = Some r1 -> hessian_s lg d g = Some r2 -> TRs_gen r1 r2.
  Proof.
    unfold hessian_s. intros HR H1 H2.
    match type of H1 with option_map _ ?s = _ => destruct s eqn:E1; [|discriminate] end.
    match type of H2 with option_map _ ?s = _ => destruct s eqn:E2; [|discriminate] end.
    inversion H1. inversion H2. simpl.
    eapply (seq_rel1 (Forall2 R)); [|exact E1|exact E2]. intros i x y Hx Hy.
    eapply (seq_rel1 R); [|exact Hx|exact Hy]. intros j u v. now apply R_dd2.
  Qed.

  Lemma bracket_s_congr lg f g f' g' r1 r2 : R f f' -> R g g' ->
    bracket_s lg f g = Some r1 -> bracket_s lg f' g' = Some r2 -> TRs_gen r1 r2.
  Proof.
    unfold bracket_s, dd. intros HR1 HR2 H1 H2.
    destruct (tD lg 0 f) eqn:A1; [|discriminate]. destruct (tD lg 1 g) eqn:A2; [|discriminate].
    destruct (tD lg 1 f) eqn:A3; [|discriminate]. destruct (tD lg 0 g) eqn:A4; [|discriminate].
    destruct (tD lg 0 f') eqn:B1; [|discriminate]. destruct (tD lg 1 g') eqn:B2; [|discriminate].
    destruct (tD lg 1 f') eqn:B3; [|discriminate]. destruct (tD lg 0 g') eqn:B4; [|discriminate].
    inversion H1. inversion H2. simpl. apply R_sub; apply R_mul.
    - exact (R_tD _ _ _ _ _ _ HR1 A1 B1).
    - exact (R_tD _ _ _ _ _ _ HR2 A2 B2).
    - exact (R_tD _ _ _ _ _ _ HR1 A3 B3).
    - exact (R_tD _ _ _ _ _ _ HR2 A4 B4).
  Qed.

  Lemma dot_v_congr a b a' b' : Forall2 R a a' -> Forall2 R b b' -> TRs_gen (dot_v a b) (dot_v a' b').
  Proof. intros. simpl. apply R_tsum. now apply R_zipmul. Qed.

  Lemma inner_m_congr A B A' B' : Forall2 (Forall2 R) A A' -> Forall2 (Forall2 R) B B' -> TRs_gen (inner_m A B) (inner_m A' B').
  Proof. intros. simpl. apply R_tsum. apply R_zipmul; now apply Forall2_concat. Qed.

  Lemma cross_v_congr d a b a' b' r1 r2 : Forall2 R a a' -> Forall2 R b b' ->
    cross_v d a b = Some r1 -> cross_v d a' b' = Some r2 -> TRs_gen r1 r2.
  Proof.
    intros HA HB H1 H2. unfold cross_v, comp in *. destruct d as [|[|[|[|d]]]]; try discriminate; inversion H1; inversion H2; simpl.
    - apply R_sub; apply R_mul; now apply R_nth.
    - repeat (apply Forall2_cons || apply Forall2_nil); apply R_sub; apply R_mul; now apply R_nth.
  Qed.

  Lemma outer_v_congr a b a' b' : Forall2 R a a' -> Forall2 R b b' -> TRs_gen (outer_v a b) (outer_v a' b').
  Proof.
    intros HA HB. simpl. apply Forall2_map. eapply Forall2_impl; [|exact HA]. intros x y Hxy.
    apply Forall2_map. eapply Forall2_impl; [|exact HB]. intros u v Huv. now apply R_mul.
  Qed.

  Lemma convect_v_congr lg d F G F' G' r1 r2 : Forall2 R F F' -> Forall2 R G G' ->
    convect_v lg d F G = Some r1 -> convect_v lg d F' G' = Some r2 -> TRs_gen r1 r2.
  Proof.
    unfold convect_v. intros HF HG H1 H2.
    destruct (sequence (map (fun Gi => option_map (fun l => Classical.tsum (zipmul F l)) (sequence (map (fun j => dd lg j Gi) (seq0 d)))) G)) as [l1|] eqn:E1; [|discriminate].
    destruct (sequence (map (fun Gi => option_map (fun l => Classical.tsum (zipmul F' l)) (sequence (map (fun j => dd lg j Gi) (seq0 d)))) G')) as [l2|] eqn:E2; [|discriminate].
    inversion H1. inversion H2. simpl.
    eapply (seq_rel2 R R _ _ G G' HG); [|exact E1|exact E2]. intros a b x y Hab Hx Hy. simpl in Hx, Hy.
    destruct (sequence (map (fun j => dd lg j a) (seq0 d))) as [m1|] eqn:F1; [|discriminate].
    destruct (sequence (map (fun j => dd lg j b) (seq0 d))) as [m2|] eqn:F2; [|discriminate].
    inversion Hx. inversion Hy. apply R_tsum. apply R_zipmul; auto.
    eapply (seq_rel1 R); [|exact F1|exact F2]. intros j u v. now apply R_tD.
  Qed.

  Lemma matvec_congr M v M' v' : Forall2 (Forall2 R) M M' -> Forall2 R v v' -> TRs_gen (matvec M v) (matvec M' v').
  Proof.
    intros HM Hv. simpl. apply Forall2_map. eapply Forall2_impl; [|exact HM]. intros a b Hab.
    apply R_tsum. now apply R_zipmul.
  Qed.

  Lemma dims_snd A B : Forall2 (Forall2 R) A B -> snd (dims A) = snd (dims B).
  Proof. intros H. unfold dims. simpl. now apply rows_len. Qed.

  Lemma vecmat_congr M v M' v' : Forall2 (Forall2 R) M M' -> Forall2 R v v' -> TRs_gen (vecmat v M) (vecmat v' M').
  Proof.
    intros HM Hv. unfold vecmat, TRs_gen. rewrite (dims_snd M M' HM). apply Forall2_map.
    generalize (seq0 (snd (dims M'))). intros l. induction l; constructor; auto.
    apply R_tsum. apply R_zipmul; auto. now apply R_col.
  Qed.

  Theorem cl1_congr_gen lg o d a1 a2 r1 r2 : TRs_gen a1 a2 -> cl1 lg o d a1 = Some r1 -> cl1 lg o d a2 = Some r2 -> TRs_gen r1 r2.
  Proof.
    intros HR H1 H2. destruct o, a1, a2; simpl in *; try discriminate; try contradiction;
      repeat match goal with
             | H : (if ?c then _ else _) = Some _ |- _ => destruct c; [|discriminate]
             end.
    - eapply grad_s_congr; eauto.
    - eapply grad_v_congr; eauto.
    - eapply curl_v_congr; eauto.
    - eapply rot_s_congr; eauto.
    - eapply div_v_congr; eauto.
    - eapply div_m_congr; eauto.
    - eapply laplace_s_congr; eauto.
    - eapply laplace_v_congr; eauto.
    - eapply hessian_s_congr; eauto.
  Qed.

  Theorem cl2_congr_gen lg o d a1 b1 a2 b2 r1 r2 : TRs_gen a1 a2 -> TRs_gen b1 b2 ->
    cl2 lg o d a1 b1 = Some r1 -> cl2 lg o d a2 b2 = Some r2 -> TRs_gen r1 r2.
  Proof.
    intros HA HB H1 H2. destruct o, a1, a2; simpl in *; try discriminate; try contradiction;
      destruct b1, b2; simpl in *; try discriminate; try contradiction;
      repeat match goal with
             | H : (if ?c then _ else _) = Some _ |- _ => destruct c; [|discriminate]
             end.
    all: first
      [ exact (bracket_s_congr _ _ _ _ _ _ _ HA HB H1 H2)
      | exact (cross_v_congr _ _ _ _ _ _ _ HA HB H1 H2)
      | exact (convect_v_congr _ _ _ _ _ _ _ _ HA HB H1 H2)
      | inversion H1; inversion H2;
        first [ now apply dot_v_congr | now apply vecmat_congr | now apply matvec_congr
              | now apply inner_m_congr | now apply outer_v_congr ] ].
  Qed.

  (* from the strict relation to the shape-normalised one *)
  Lemma rows_forallb A B n : Forall2 (Forall2 R) A B ->
    forallb (fun r => Nat.eqb (length r) n) A = forallb (fun r => Nat.eqb (length r) n) B.
  Proof. induction 1; simpl; auto. rewrite (Forall2_length' _ _ _ H). now rewrite IHForall2. Qed.

  Lemma TRs_shape_gen t r : TRs_gen t r -> cshape t = cshape r /\ wf_tensor t = wf_tensor r /\ Forall2 R (flat t) (flat r).
  Proof.
    destruct t, r; simpl; try contradiction; intros H.
    - repeat split; auto.
    - repeat split; auto. now rewrite (Forall2_length' _ _ _ H).
    - assert (L : length rows = length rows0) by (eapply Forall2_length'; eauto).
      assert (C : match rows with [] => 0 | r :: _ => length r end = match rows0 with [] => 0 | r :: _ => length r end)
        by now apply rows_len.
      split; [|split].
      + unfold dims. now rewrite L, C.
      + unfold rect, dims. simpl. rewrite C. now apply rows_forallb.
      + now apply Forall2_concat.
  Qed.
End Rel.

(* ------------------------------------------------------------------------------------------------
   Instance 1: same value, read in S[fl] on the left and in S on the right; both defined *)
Section Congr.
  Variable S : dfield.
  Variable fl : string -> nat -> side -> F S.
  Notation S' := (Sset S fl).

  Definition R (x y : texpr) : Prop := ev S' x = ev S y /\ dfd S' x /\ dfd S y.

  Lemma RS_tD lg i x y x' y' : R x y -> tD lg i x = Some x' -> tD lg i y = Some y' -> R x' y'.
  Proof.
    intros (E & D1 & D2) H1 H2. split; [|split].
    - rewrite (ev_tD S' lg i x x' H1 D1), (ev_tD S lg i y y' H2 D2).
      change (D S' lg i (ev S' x)) with (D S lg i (ev S' x)). now rewrite E.
    - eapply dfd_tD; eauto.
    - eapply dfd_tD; eauto.
  Qed.
  Lemma RS_zero : R (TZ 0) (TZ 0).
  Proof. split; [reflexivity|split; exact I]. Qed.
  Lemma RS_add a b c d : R a b -> R c d -> R (TAdd a c) (TAdd b d).
  Proof.
    intros (E1 & A1 & A2) (E2 & B1 & B2). split; [|split; split; auto].
    change (fadd S (ev S' a) (ev S' c) = fadd S (ev S b) (ev S d)). now rewrite E1, E2.
  Qed.
  Lemma RS_sub a b c d : R a b -> R c d -> R (TSub a c) (TSub b d).
  Proof.
    intros (E1 & A1 & A2) (E2 & B1 & B2). split; [|split; split; auto].
    change (fsub S (ev S' a) (ev S' c) = fsub S (ev S b) (ev S d)). now rewrite E1, E2.
  Qed.
  Lemma RS_mul a b c d : R a b -> R c d -> R (TMul a c) (TMul b d).
  Proof.
    intros (E1 & A1 & A2) (E2 & B1 & B2). split; [|split; split; auto].
    change (fmul S (ev S' a) (ev S' c) = fmul S (ev S b) (ev S d)). now rewrite E1, E2.
  Qed.
  Lemma RS_opp a b : R a b -> R (TOpp a) (TOpp b).
  Proof.
    intros (E1 & A1 & A2). split; [|split; auto].
    change (fopp S (ev S' a) = fopp S (ev S b)). now rewrite E1.
  Qed.

  Definition TRs := TRs_gen R.

  Theorem cl1_congr lg o d a1 a2 r1 r2 : TRs a1 a2 -> cl1 lg o d a1 = Some r1 -> cl1 lg o d a2 = Some r2 -> TRs r1 r2.
  Proof.
    intros. eapply (cl1_congr_gen R); try exact RS_tD; try exact RS_zero; try exact RS_add; try exact RS_sub;
      try exact RS_mul; try exact RS_opp; eassumption.
  Qed.

  Theorem cl2_congr lg o d a1 b1 a2 b2 r1 r2 : TRs a1 a2 -> TRs b1 b2 ->
    cl2 lg o d a1 b1 = Some r1 -> cl2 lg o d a2 b2 = Some r2 -> TRs r1 r2.
  Proof.
    intros HA HB H1 H2.
    eapply (cl2_congr_gen R); [..|exact HA|exact HB|exact H1|exact H2];
      first [exact RS_tD|exact RS_zero|exact RS_add|exact RS_sub|exact RS_mul|exact RS_opp].
  Qed.

  Lemma TRs_shape t r : TRs t r -> cshape t = cshape r /\ wf_tensor t = wf_tensor r /\ Forall2 R (flat t) (flat r).
  Proof. apply TRs_shape_gen. Qed.
End Congr.
End P2.
Export P2.

(* ==================================================================================================== *)
(* Tables: generic arguments, the table checkers and the named per-table lemmas (closed computations on Gen/Formulas.v) *)
Module P3.
(* ============================================================ generic arguments, table checkers *)
Inductive form := FSc | FVec | FMat.
Definition gat (f : string) (c : nat) : texpr := TAt (AFld false f c SNone []).
Definition gen_keys (second : bool) (k : string) (d : nat) : list (string * nat) :=
  let '(sn, vn, mn) := gnames second in
  if String.eqb k "s" || String.eqb k "k" then [(sn, 0)]
  else if String.eqb k "c" || String.eqb k "t" then map (fun i => (vn, S i)) (seq0 d)
  else if String.eqb k "m" then concat (map (fun i => map (fun j => (mn ++ dig i ++ dig j, 0)) (seq0 d)) (seq0 d))
  else [].
Definition gen_flat (second : bool) (k : string) (d : nat) : list texpr :=
  map (fun p => gat (fst p) (snd p)) (gen_keys second k d).
Definition wrap (f : form) (d : nat) (l : list texpr) : tensor :=
  match f with FSc => Sc (nth 0 l (TZ 0)) | FVec => Vec l | FMat => Mat (chunk d d l) end.
Definition form_len (f : form) (d : nat) : nat := match f with FSc => 1 | FVec => d | FMat => d * d end.
Definition compat (d : nat) (k : string) (f : form) : bool :=
  Nat.eqb (length (gen_keys false k d)) (form_len f d).
Definition form_of (t : tensor) : form := match t with Sc _ => FSc | Vec _ => FVec | Mat _ => FMat end.

Definition accepts1 (o : gop1) (d : nat) (f : form) : bool :=
  match o, f with
  | OGrad, FSc | OGrad, FVec | ODiv, FVec | ODiv, FMat | OLaplace, FSc | OLaplace, FVec | OHessian, FSc => true
  | OCurl, FVec => Nat.eqb d 2 || Nat.eqb d 3
  | ORot, FSc => Nat.eqb d 2
  | _, _ => false
  end.
Definition accepts2 (o : gop2) (d : nat) (f g : form) : bool :=
  match o, f, g with
  | OBracket, FSc, FSc => Nat.eqb d 2
  | ODot, FVec, FVec | ODot, FMat, FVec | ODot, FVec, FMat | OInner, FVec, FVec | OInner, FMat, FMat
  | OOuter, FVec, FVec | OConvect, FVec, FVec => true
  | OCross, FVec, FVec => Nat.eqb d 2 || Nat.eqb d 3
  | _, _, _ => false
  end.

Definition kinds := ["s"; "k"; "c"; "t"; "m"].
Definition forms := [FSc; FVec; FMat].

(* [tab_ok1 lg o d]: every generated table of the class TerminalExpr picks for (o, d, lg) equals the
   classical definition applied to the generic argument, for every argument kind and every way the
   classical argument can be presented; a GenBad marker makes it false *)
Definition tab_ok1 (lg : bool) (o : gop1) (d : nat) : bool :=
  match class_name lg (op1_name o) d with
  | None => true
  | Some name =>
      forallb (fun k => forallb (fun f =>
        if compat d k f then
          match table_of name k with
          | Some (GenOk T) =>
              match cl1 lg o d (wrap f d (gen_flat false k d)) with
              | Some C => teqv T C && noconds T C
              | None => negb (accepts1 o d f)
              end
          | Some (GenBad _) => false
          | _ => true
          end
        else true) forms) kinds
  end.

(* (before the repair 1e0454e the matrix arms of Dot had to be excluded here: algebra.Dot_2d/3d read a
   matrix as a flat vector; now every arm is checked) *)
Definition tab_ok2 (lg : bool) (o : gop2) (d : nat) : bool :=
  match class_name lg (op2_name o) d with
  | None => true
  | Some name =>
      forallb (fun ka => forallb (fun kb => forallb (fun fa => forallb (fun fb =>
        if compat d ka fa && compat d kb fb then
          match table_of name (ka ++ kb) with
          | Some (GenOk T) =>
              match cl2 lg o d (wrap fa d (gen_flat false ka d)) (wrap fb d (gen_flat true kb d)) with
              | Some C => teqv T C && noconds T C
              | None => negb (accepts2 o d fa fb)
              end
          | Some (GenBad _) => false
          | _ => true
          end
        else true) forms) forms) kinds) kinds
  end.

(* ============================================================ per-table lemmas (named) *)
(* Each of these is a closed computation on the GENERATED table of the class named in the lemma
   (Gen/Formulas.v): the table, for every argument kind, is entry-wise equal (verified checker, no side
   conditions) to the classical definition of Core/Classical.v applied to the generic argument.
   A sign or an index edited in derivatives.py / algebra.py makes the corresponding Qed fail. *)
Lemma grad_1d_correct : tab_ok1 false OGrad 1 = true. Proof. vm_compute. reflexivity. Qed.
Lemma logical_grad_1d_correct : tab_ok1 true OGrad 1 = true. Proof. vm_compute. reflexivity. Qed.
Lemma grad_2d_correct : tab_ok1 false OGrad 2 = true. Proof. vm_compute. reflexivity. Qed.
Lemma logical_grad_2d_correct : tab_ok1 true OGrad 2 = true. Proof. vm_compute. reflexivity. Qed.
Lemma grad_3d_correct : tab_ok1 false OGrad 3 = true. Proof. vm_compute. reflexivity. Qed.
Lemma logical_grad_3d_correct : tab_ok1 true OGrad 3 = true. Proof. vm_compute. reflexivity. Qed.
Lemma curl_2d_correct : tab_ok1 false OCurl 2 = true. Proof. vm_compute. reflexivity. Qed.
Lemma logical_curl_2d_correct : tab_ok1 true OCurl 2 = true. Proof. vm_compute. reflexivity. Qed.
Lemma curl_3d_correct : tab_ok1 false OCurl 3 = true. Proof. vm_compute. reflexivity. Qed.
Lemma logical_curl_3d_correct : tab_ok1 true OCurl 3 = true. Proof. vm_compute. reflexivity. Qed.
Lemma rot_2d_correct : tab_ok1 false ORot 2 = true. Proof. vm_compute. reflexivity. Qed.
Lemma logical_rot_2d_correct : tab_ok1 true ORot 2 = true. Proof. vm_compute. reflexivity. Qed.
Lemma div_1d_correct : tab_ok1 false ODiv 1 = true. Proof. vm_compute. reflexivity. Qed.
Lemma logical_div_1d_correct : tab_ok1 true ODiv 1 = true. Proof. vm_compute. reflexivity. Qed.
Lemma div_2d_correct : tab_ok1 false ODiv 2 = true. Proof. vm_compute. reflexivity. Qed.
Lemma logical_div_2d_correct : tab_ok1 true ODiv 2 = true. Proof. vm_compute. reflexivity. Qed.
Lemma div_3d_correct : tab_ok1 false ODiv 3 = true. Proof. vm_compute. reflexivity. Qed.
Lemma logical_div_3d_correct : tab_ok1 true ODiv 3 = true. Proof. vm_compute. reflexivity. Qed.
Lemma laplace_1d_correct : tab_ok1 false OLaplace 1 = true. Proof. vm_compute. reflexivity. Qed.
Lemma logical_laplace_1d_correct : tab_ok1 true OLaplace 1 = true. Proof. vm_compute. reflexivity. Qed.
Lemma laplace_2d_correct : tab_ok1 false OLaplace 2 = true. Proof. vm_compute. reflexivity. Qed.
Lemma logical_laplace_2d_correct : tab_ok1 true OLaplace 2 = true. Proof. vm_compute. reflexivity. Qed.
Lemma laplace_3d_correct : tab_ok1 false OLaplace 3 = true. Proof. vm_compute. reflexivity. Qed.
Lemma logical_laplace_3d_correct : tab_ok1 true OLaplace 3 = true. Proof. vm_compute. reflexivity. Qed.
Lemma hessian_1d_correct : tab_ok1 false OHessian 1 = true. Proof. vm_compute. reflexivity. Qed.
Lemma logical_hessian_1d_correct : tab_ok1 true OHessian 1 = true. Proof. vm_compute. reflexivity. Qed.
Lemma hessian_2d_correct : tab_ok1 false OHessian 2 = true. Proof. vm_compute. reflexivity. Qed.
Lemma logical_hessian_2d_correct : tab_ok1 true OHessian 2 = true. Proof. vm_compute. reflexivity. Qed.
Lemma hessian_3d_correct : tab_ok1 false OHessian 3 = true. Proof. vm_compute. reflexivity. Qed.
Lemma logical_hessian_3d_correct : tab_ok1 true OHessian 3 = true. Proof. vm_compute. reflexivity. Qed.
Lemma bracket_2d_correct : tab_ok2 false OBracket 2 = true. Proof. vm_compute. reflexivity. Qed.
Lemma logical_bracket_2d_correct : tab_ok2 true OBracket 2 = true. Proof. vm_compute. reflexivity. Qed.
Lemma dot_1d_correct : tab_ok2 false ODot 1 = true /\ tab_ok2 true ODot 1 = true. Proof. split; vm_compute; reflexivity. Qed.
Lemma dot_2d_correct : tab_ok2 false ODot 2 = true /\ tab_ok2 true ODot 2 = true. Proof. split; vm_compute; reflexivity. Qed.
Lemma dot_3d_correct : tab_ok2 false ODot 3 = true /\ tab_ok2 true ODot 3 = true. Proof. split; vm_compute; reflexivity. Qed.
Lemma cross_2d_correct : tab_ok2 false OCross 2 = true /\ tab_ok2 true OCross 2 = true. Proof. split; vm_compute; reflexivity. Qed.
Lemma cross_3d_correct : tab_ok2 false OCross 3 = true /\ tab_ok2 true OCross 3 = true. Proof. split; vm_compute; reflexivity. Qed.
Lemma inner_1d_correct : tab_ok2 false OInner 1 = true /\ tab_ok2 true OInner 1 = true. Proof. split; vm_compute; reflexivity. Qed.
Lemma inner_2d_correct : tab_ok2 false OInner 2 = true /\ tab_ok2 true OInner 2 = true. Proof. split; vm_compute; reflexivity. Qed.
Lemma inner_3d_correct : tab_ok2 false OInner 3 = true /\ tab_ok2 true OInner 3 = true. Proof. split; vm_compute; reflexivity. Qed.


(* ============================================================ shapes of classical arguments *)
Definition form_ok (d : nat) (t : tensor) : Prop :=
  match t with
  | Sc _ => True
  | Vec l => length l = d
  | Mat M => length M = d /\ Forall (fun r => length r = d) M
  end.

Lemma wf_vec_len d l : wf_vec d l = true -> length l = d.
Proof. unfold wf_vec. apply Nat.eqb_eq. Qed.

Lemma wf_mat_len d M : wf_mat d M = true -> length M = d /\ Forall (fun r => length r = d) M.
Proof.
  unfold wf_mat. intros H. apply andb_true_iff in H. destruct H as [H1 H2]. apply Nat.eqb_eq in H1. split; auto.
  apply Forall_forall. intros r Hr. rewrite forallb_forall in H2. apply Nat.eqb_eq. auto.
Qed.

Lemma cl1_form lg o d a r : cl1 lg o d a = Some r -> form_ok d a /\ accepts1 o d (form_of a) = true.
Proof.
  destruct o, a; simpl; try discriminate; intros H;
    repeat match goal with
           | H : (if ?c then _ else _) = Some _ |- _ => destruct c eqn:?; [|discriminate]
           end; auto using wf_vec_len, wf_mat_len.
  - split; [now apply wf_vec_len|]. unfold curl_v in H. destruct d as [|[|[|[|d]]]]; try discriminate; reflexivity.
Qed.

Lemma cl2_form lg o d a b r : cl2 lg o d a b = Some r ->
  form_ok d a /\ form_ok d b /\ accepts2 o d (form_of a) (form_of b) = true.
Proof.
  destruct o, a, b; simpl; try discriminate; intros H;
    repeat match goal with
           | H : (if ?c then _ else _) = Some _ |- _ => destruct c eqn:?; [|discriminate]
           | H : _ && _ = true |- _ => apply andb_true_iff in H; destruct H
           end; auto using wf_vec_len, wf_mat_len.
  - repeat split; auto using wf_vec_len.
    unfold cross_v in H. destruct d as [|[|[|[|d]]]]; try discriminate; reflexivity.
Qed.
End P3.
Export P3.

(* ==================================================================================================== *)
(* Kinds: argument kinds, environments, compatibility with classical forms *)
Module P3b.
Lemma len1 {A} (l : list A) : length l = 1 -> exists a, l = [a].
Proof. destruct l as [|a [|b l]]; simpl; try discriminate. eauto. Qed.
Lemma len2 {A} (l : list A) : length l = 2 -> exists a b, l = [a; b].
Proof. destruct l as [|a [|b [|c l]]]; simpl; try discriminate. eauto. Qed.
Lemma len3 {A} (l : list A) : length l = 3 -> exists a b c, l = [a; b; c].
Proof. destruct l as [|a [|b [|c [|e l]]]]; simpl; try discriminate. eauto. Qed.

Ltac explode :=
  repeat match goal with
         | H : length ?l = 1 |- _ => let a := fresh "x" in destruct (len1 l H) as (a & ->); clear H
         | H : length ?l = 2 |- _ => let a := fresh "x" in let b := fresh "x" in destruct (len2 l H) as (a & b & ->); clear H
         | H : length ?l = 3 |- _ =>
             let a := fresh "x" in let b := fresh "x" in let c := fresh "x" in destruct (len3 l H) as (a & b & c & ->); clear H
         | H : Forall _ (_ :: _) |- _ => inversion H; subst; clear H
         | H : Forall _ [] |- _ => clear H
         end.

(* what kind_of says about the shape of a lowered argument *)
Inductive kshape (d : nat) : string -> tensor -> Prop :=
| KS x : kshape d "s" (Sc x)
| KK x : kshape d "k" (Sc x)
| KT l : length l = d -> kshape d "t" (Vec l)
| KC M : length M = d -> Forall (fun r => length r = 1) M -> kshape d "c" (Mat M)
| KM M : length M = d -> Forall (fun r => length r = d) M -> kshape d "m" (Mat M).

Lemma forallb_len n (M : list (list texpr)) : forallb (fun r => Nat.eqb (length r) n) M = true -> Forall (fun r => length r = n) M.
Proof. intros H. apply Forall_forall. intros r Hr. rewrite forallb_forall in H. apply Nat.eqb_eq. auto. Qed.

Lemma kind_of_shape d t k : kind_of d t = Some k -> kshape d k t.
Proof.
  destruct t as [x|l|M]; simpl; intros H.
  - destruct (Nat.eqb d 1 && is_datom x); inversion H; constructor.
  - destruct (Nat.eqb (length l) d) eqn:E; inversion H. constructor. now apply Nat.eqb_eq.
  - destruct (Nat.eqb (length M) d) eqn:E; simpl in H; [|discriminate]. apply Nat.eqb_eq in E.
    destruct (forallb (fun r => Nat.eqb (length r) 1) M) eqn:E1.
    + inversion H. constructor; auto. now apply forallb_len.
    + destruct (forallb (fun r => Nat.eqb (length r) d) M) eqn:E2; inversion H. constructor; auto. now apply forallb_len.
Qed.

Lemma kshape_in d k t : kshape d k t -> In k kinds.
Proof. destruct 1; simpl; auto 6. Qed.

Lemma d123 d : 1 <= d <= 3 -> d = 1 \/ d = 2 \/ d = 3.
Proof. lia. Qed.

(* the environment built from an argument binds the generic atoms of its kind to its entries, in order *)
Lemma keys_lookup second d k t : 1 <= d <= 3 -> kshape d k t ->
  Forall2 (fun key x => elookup (env_of second k t) (fst key) (snd key) = Some x) (gen_keys second k d) (flat t).
Proof.
  intros Hd Hk. destruct (d123 d Hd) as [->|[->| ->]]; destruct Hk; explode; destruct second;
    repeat constructor.
Qed.

Lemma keys_len second d k t : 1 <= d <= 3 -> kshape d k t -> length (gen_keys second k d) = length (flat t).
Proof. intros. eapply Forall2_length'. eapply keys_lookup; eauto. Qed.

(* generic names of the two arguments are disjoint *)
Definition second_name (f : string) : bool :=
  match f with
  | String c _ => Ascii.eqb c "v" || Ascii.eqb c "G" || Ascii.eqb c "B"
  | EmptyString => false
  end.

Lemma mapi_from_Forall {A B} (P : B -> Prop) (f : nat -> A -> B) l : (forall i x, P (f i x)) -> forall n, Forall P (mapi_from f n l).
Proof. intros H. induction l; simpl; intros n; constructor; auto. Qed.

Lemma env_first_names k t : Forall (fun e => second_name (fst (fst e)) = false) (env_of false k t).
Proof.
  destruct t as [x|l|M]; unfold env_of; cbn [gnames].
  - repeat constructor.
  - apply mapi_from_Forall. reflexivity.
  - destruct (String.eqb k "c").
    + apply mapi_from_Forall. reflexivity.
    + unfold mapi.
      assert (G : forall n, Forall (fun e : string * nat * texpr => second_name (fst (fst e)) = false)
                (concat (mapi_from (fun i r => mapi_from (fun j x => ("A" ++ dig i ++ dig j, 0, x)) 0 r) n M))).
      { induction M as [|r M IH]; simpl; intros n; [constructor|].
        apply Forall_app. split; [|apply IH]. apply mapi_from_Forall. reflexivity. }
      apply G.
Qed.

Lemma elookup_none env f c : Forall (fun e => second_name (fst (fst e)) = false) env -> second_name f = true ->
  elookup env f c = None.
Proof.
  induction 1 as [|[[f' c'] x] env Hx He IH]; simpl; intros Hf; auto.
  destruct (String.eqb f f') eqn:E; simpl; auto.
  apply String.eqb_eq in E. subst. simpl in Hx. congruence.
Qed.

Lemma elookup_app_l e1 e2 f c x : elookup e1 f c = Some x -> elookup (e1 ++ e2)%list f c = Some x.
Proof.
  induction e1 as [|[[f' c'] y] e1 IH]; simpl; [discriminate|].
  destruct (String.eqb f f' && Nat.eqb c c'); auto.
Qed.

Lemma elookup_app_r e1 e2 f c : elookup e1 f c = None -> elookup (e1 ++ e2)%list f c = elookup e2 f c.
Proof.
  induction e1 as [|[[f' c'] y] e1 IH]; simpl; auto.
  destruct (String.eqb f f' && Nat.eqb c c'); [discriminate|auto].
Qed.

Lemma second_keys d k : Forall (fun key => second_name (fst key) = true) (gen_keys true k d).
Proof.
  unfold gen_keys. simpl.
  destruct (String.eqb k "s" || String.eqb k "k"); [repeat constructor|].
  destruct (String.eqb k "c" || String.eqb k "t").
  - apply Forall_forall. intros key Hk. apply in_map_iff in Hk. destruct Hk as [i [<- _]]. reflexivity.
  - destruct (String.eqb k "m"); [|constructor].
    apply Forall_forall. intros key Hk. apply in_concat in Hk. destruct Hk as [l [Hl Hk]].
    apply in_map_iff in Hl. destruct Hl as [i [<- _]]. apply in_map_iff in Hk. destruct Hk as [j [<- _]]. reflexivity.
Qed.

(* compatibility of the kind of the lowered argument with the form of the classical one *)
Lemma kind_form_compat d k ta ra : 1 <= d <= 3 -> kshape d k ta -> cshape ta = cshape ra -> form_ok d ra ->
  compat d k (form_of ra) = true.
Proof.
  intros Hd Hk Hc Hf. destruct (d123 d Hd) as [E|[E|E]]; rewrite E in *; clear E Hd; destruct Hk; destruct ra as [y|m|N]; simpl in Hf;
    try (match type of Hf with _ /\ _ => destruct Hf as [Hf1 Hf2] end); explode; simpl in Hc; try discriminate; reflexivity.
Qed.
End P3b.
Export P3b.

(* ==================================================================================================== *)
(* Apply: instantiating a checked table at a lowered argument is the classical operator *)
Module P4.
Lemma Forall2_comp {A B C} (P : A -> B -> Prop) (Q : B -> C -> Prop) l m n :
  Forall2 P l m -> Forall2 Q m n -> Forall2 (fun a c => exists b, P a b /\ Q b c) l n.
Proof. intros H. revert n. induction H; intros n H2; inversion H2; subst; constructor; eauto. Qed.

Lemma Forall2_map_l {A B C} (R : C -> B -> Prop) (f : A -> C) l m :
  Forall2 (fun a b => R (f a) b) l m -> Forall2 R (map f l) m.
Proof. induction 1; simpl; auto. Qed.

Lemma Forall2_Forall_r {A B} (P : A -> B -> Prop) (Q : B -> Prop) l m :
  Forall2 P l m -> Forall Q m -> Forall2 (fun a b => P a b /\ Q b) l m.
Proof. induction 1; intros H2; inversion H2; subst; constructor; auto. Qed.

Lemma tens_map_shape f T t : tens_map f T = Some t ->
  cshape t = cshape T /\ wf_tensor t = wf_tensor T /\ Forall2 (fun a b => f b = Some a) (flat t) (flat T).
Proof.
  destruct T as [x|l|M]; simpl; intros H.
  - destruct (f x) eqn:E; inversion H. simpl. repeat split; auto.
  - destruct (sequence (map f l)) as [l'|] eqn:E; inversion H. simpl. apply sequence_Forall2 in E.
    repeat split.
    + now rewrite (Forall2_length' _ _ _ E).
    + clear H H1. induction E; constructor; auto.
  - destruct (sequence (map (fun r => sequence (map f r)) M)) as [M'|] eqn:E; inversion H. simpl.
    apply sequence_Forall2 in E.
    assert (G : Forall2 (fun r' r => Forall2 (fun a b => f b = Some a) r' r) M' M).
    { clear H H1. induction E; constructor; auto. apply sequence_Forall2 in H. clear E IHE.
      induction H; constructor; auto. }
    assert (L : length M' = length M) by (eapply Forall2_length'; eauto).
    assert (C : match M' with [] => 0 | r :: _ => length r end = match M with [] => 0 | r :: _ => length r end).
    { destruct G; auto. eapply Forall2_length'; eauto. }
    split; [|split].
    + unfold dims. now rewrite L, C.
    + unfold rect, dims. simpl. rewrite C. generalize (match M with [] => 0 | r :: _ => length r end). intros n.
      clear L C E H H1. induction G; simpl; auto.
      rewrite (Forall2_length' _ _ _ H). now rewrite IHG.
    + now apply Forall2_concat.
Qed.

Section Apply.
  Variable S : dfield.
  Notation eqv := (eqv S).
  Notation tens_eq := (tens_eq S).
  Notation tdfd := (tdfd S).

  Lemma gen_flat_related second d k ta ra env :
    tens_eq ta ra -> tdfd ra ->
    Forall2 (fun key x => elookup env (fst key) (snd key) = Some x) (gen_keys second k d) (flat ta) ->
    Forall2 (R S (fl_of S env)) (gen_flat second k d) (flat ra).
  Proof.
    intros (_ & _ & _ & He) Hd Hk. unfold gen_flat. apply Forall2_map_l.
    pose proof (Forall2_comp _ _ _ _ _ Hk He) as H1.
    pose proof (Forall2_Forall_r _ _ _ _ H1 Hd) as H2.
    eapply Forall2_impl; [|exact H2]. intros key y [[x [Hl Hx]] Hy].
    split; [|split; [exact I|exact Hy]].
    change (ev (Sset S (fl_of S env)) (gat (fst key) (snd key))) with (fl_of S env (fst key) (snd key) SNone).
    unfold fl_of. rewrite Hl. exact Hx.
  Qed.

  Lemma gen_related second d k ta ra env :
    1 <= d <= 3 -> kshape d k ta -> tens_eq ta ra -> form_ok d ra -> tdfd ra ->
    Forall2 (fun key x => elookup env (fst key) (snd key) = Some x) (gen_keys second k d) (flat ta) ->
    TRs S (fl_of S env) (wrap (form_of ra) d (gen_flat second k d)) ra.
  Proof.
    intros Hd Hk He Hf Hdf Hl.
    pose proof (gen_flat_related second d k ta ra env He Hdf Hl) as HR.
    pose proof (keys_len second d k ta Hd Hk) as HL.
    destruct He as (Hc & _ & _ & He). apply Forall2_length' in He. clear Hl Hdf.
    destruct (d123 d Hd) as [E|[E|E]]; rewrite E in *; clear E Hd;
      destruct Hk; destruct ra as [y|m|N]; simpl in Hf;
      try (match type of Hf with _ /\ _ => destruct Hf as [Hf1 Hf2] end); explode; simpl in Hc; try discriminate;
      destruct second; cbn in HR |- *;
      repeat match goal with
             | H : Forall2 _ (_ :: _) (_ :: _) |- _ => inversion H; subst; clear H
             | H : Forall2 _ [] [] |- _ => clear H
             end;
      repeat (apply Forall2_cons || apply Forall2_nil); assumption.
  Qed.

  Lemma env_of_dfd second d k t : 1 <= d <= 3 -> kshape d k t -> tdfd t -> env_dfd S (env_of second k t).
  Proof.
    intros Hd Ek Hdt f c x Hx. unfold P1.tdfd in Hdt.
    destruct (d123 d Hd) as [E|[E|E]]; rewrite E in *; clear E Hd; destruct Ek; explode; destruct second; cbn in Hx, Hdt;
      repeat match goal with
             | H : Forall _ (_ :: _) |- _ => inversion H; subst; clear H
             | H : (if ?c then _ else _) = Some _ |- _ => destruct c; [inversion H; subst; assumption|]
             end; try discriminate.
  Qed.

  Lemma env_dfd_app e1 e2 : env_dfd S e1 -> env_dfd S e2 -> env_dfd S (e1 ++ e2)%list.
  Proof.
    intros H1 H2 f c x Hx. destruct (elookup e1 f c) as [y|] eqn:E.
    - rewrite (elookup_app_l _ e2 _ _ _ E) in Hx. inversion Hx. subst. eapply H1; eauto.
    - rewrite (elookup_app_r _ e2 _ _ E) in Hx. eapply H2; eauto.
  Qed.

  Lemma chain3 env (lt lT lC lr : list texpr) :
    env_dfd S env ->
    Forall2 (fun a b => tsubst env b = Some a) lt lT ->
    Forall2 (P1.eqv (Sset S (fl_of S env))) lT lC ->
    Forall2 (R S (fl_of S env)) lC lr ->
    Forall2 eqv lt lr.
  Proof.
    intros Henv F1. revert lC lr. induction F1 as [|a b l m Hab Hl IH]; intros lc lr F2 F3.
    - inversion F2; subst. inversion F3; subst. constructor.
    - inversion F2; subst. inversion F3; subst. constructor; [|eapply IH; eauto].
      destruct (tsubst_sound S env Henv _ _ Hab) as [E1 _]. unfold P1.eqv.
      rewrite E1. match goal with H : P1.eqv _ b _ |- _ => rewrite H end.
      match goal with H : R _ _ _ _ |- _ => apply H end.
  Qed.

  (* -------------------------------------------------------------------- unary operators *)
  Theorem apply1_sound lg o d ta ra t r :
    1 <= d <= 3 -> tab_ok1 lg o d = true ->
    tens_eq ta ra -> tdfd ta -> tdfd ra ->
    apply1 lg o d ta = Some t -> cl1 lg o d ra = Some r -> tens_eq t r.
  Proof.
    intros Hd Hok He Hdt Hdr Ha Hc.
    unfold apply1 in Ha.
    destruct (class_name lg (op1_name o) d) as [name|] eqn:En; [|discriminate].
    destruct (kind_of d ta) as [k|] eqn:Ek; [|discriminate].
    destruct (table_of name k) as [[T|?|?]|] eqn:Et; try discriminate.
    apply kind_of_shape in Ek.
    destruct (cl1_form _ _ _ _ _ Hc) as [Hf Hacc].
    assert (Hcompat : compat d k (form_of ra) = true).
    { eapply kind_form_compat; eauto. apply He. }
    (* the table lemma for this kind and this form *)
    unfold tab_ok1 in Hok. rewrite En in Hok.
    rewrite forallb_forall in Hok. specialize (Hok k (kshape_in _ _ _ Ek)).
    rewrite forallb_forall in Hok. specialize (Hok (form_of ra)).
    assert (Hin : In (form_of ra) forms) by (destruct ra; simpl; auto).
    specialize (Hok Hin). rewrite Hcompat, Et in Hok.
    set (env := env_of false k ta) in *.
    set (G := wrap (form_of ra) d (gen_flat false k d)) in *.
    destruct (cl1 lg o d G) as [C|] eqn:EC; [|rewrite Hacc in Hok; discriminate].
    apply andb_true_iff in Hok. destruct Hok as [Hteq Hnc].
    (* instantiate *)
    assert (Henv : env_dfd S env) by (eapply env_of_dfd; eauto).
    destruct (tens_map_shape _ _ _ Ha) as (Sh1 & W1 & F1).
    pose proof (teqv_sound (Sset S (fl_of S env)) T C Hteq Hnc) as (Sh2 & W2 & W3 & F2).
    pose proof (gen_related false d k ta ra env Hd Ek He Hf Hdr (keys_lookup false d k ta Hd Ek)) as HG.
    pose proof (cl1_congr S (fl_of S env) lg o d G ra C r HG EC Hc) as HT.
    destruct (TRs_shape _ _ _ _ HT) as (Sh3 & W4 & F3).
    split; [congruence|]. split; [congruence|]. split; [congruence|].
    eapply chain3; eauto.
  Qed.

  (* -------------------------------------------------------------------- binary operators *)
  Theorem apply2_sound lg o d ta tb ra rb t r :
    1 <= d <= 3 -> tab_ok2 lg o d = true ->
    tens_eq ta ra -> tens_eq tb rb -> tdfd ta -> tdfd tb -> tdfd ra -> tdfd rb ->
    apply2 lg o d ta tb = Some t -> cl2 lg o d ra rb = Some r -> tens_eq t r.
  Proof.
    intros Hd Hok Hea Heb Hdta Hdtb Hdra Hdrb Ha Hc.
    unfold apply2 in Ha.
    destruct (class_name lg (op2_name o) d) as [name|] eqn:En; [|discriminate].
    destruct (kind_of d ta) as [ka|] eqn:Eka; [|discriminate].
    destruct (kind_of d tb) as [kb|] eqn:Ekb; [|discriminate].
    destruct (table_of name (ka ++ kb)) as [[T|?|?]|] eqn:Et; try discriminate.
    apply kind_of_shape in Eka. apply kind_of_shape in Ekb.
    destruct (cl2_form _ _ _ _ _ _ Hc) as (Hfa & Hfb & Hacc).
    assert (Hca : compat d ka (form_of ra) = true) by (eapply kind_form_compat; eauto; apply Hea).
    assert (Hcb : compat d kb (form_of rb) = true) by (eapply kind_form_compat; eauto; apply Heb).
    unfold tab_ok2 in Hok. rewrite En in Hok.
    rewrite forallb_forall in Hok. specialize (Hok ka (kshape_in _ _ _ Eka)).
    rewrite forallb_forall in Hok. specialize (Hok kb (kshape_in _ _ _ Ekb)).
    rewrite forallb_forall in Hok. specialize (Hok (form_of ra)).
    assert (Hina : In (form_of ra) forms) by (destruct ra; simpl; auto). specialize (Hok Hina).
    rewrite forallb_forall in Hok. specialize (Hok (form_of rb)).
    assert (Hinb : In (form_of rb) forms) by (destruct rb; simpl; auto). specialize (Hok Hinb).
    rewrite Hca, Hcb, Et in Hok. simpl in Hok.
    set (ea := env_of false ka ta) in *. set (eb := env_of true kb tb) in *.
    set (env := (ea ++ eb)%list) in *.
    set (GA := wrap (form_of ra) d (gen_flat false ka d)) in *.
    set (GB := wrap (form_of rb) d (gen_flat true kb d)) in *.
    destruct (cl2 lg o d GA GB) as [C|] eqn:EC; [|rewrite Hacc in Hok; discriminate].
    apply andb_true_iff in Hok. destruct Hok as [Hteq Hnc].
    assert (Henv : env_dfd S env).
    { apply env_dfd_app; eapply env_of_dfd; eauto. }
    assert (Hla : Forall2 (fun key x => elookup env (fst key) (snd key) = Some x) (gen_keys false ka d) (flat ta)).
    { eapply Forall2_impl; [|exact (keys_lookup false d ka ta Hd Eka)]. intros key x Hx. now apply elookup_app_l. }
    assert (Hlb : Forall2 (fun key x => elookup env (fst key) (snd key) = Some x) (gen_keys true kb d) (flat tb)).
    { pose proof (keys_lookup true d kb tb Hd Ekb) as Hk. pose proof (second_keys d kb) as Hs.
      pose proof (Forall2_length' _ _ _ Hk) as HL.
      clear - Hk Hs. revert Hs. induction Hk; intros Hs; constructor; inversion Hs; subst; auto.
      unfold env. rewrite elookup_app_r; auto. apply elookup_none; auto. apply env_first_names. }
    destruct (tens_map_shape _ _ _ Ha) as (Sh1 & W1 & F1).
    pose proof (teqv_sound (Sset S (fl_of S env)) T C Hteq Hnc) as (Sh2 & W2 & W3 & F2).
    pose proof (gen_related false d ka ta ra env Hd Eka Hea Hfa Hdra Hla) as HGA.
    pose proof (gen_related true d kb tb rb env Hd Ekb Heb Hfb Hdrb Hlb) as HGB.
    pose proof (cl2_congr S (fl_of S env) lg o d GA GB ra rb C r HGA HGB EC Hc) as HT.
    destruct (TRs_shape _ _ _ _ HT) as (Sh3 & W4 & F3).
    split; [congruence|]. split; [congruence|]. split; [congruence|].
    eapply chain3; eauto.
  Qed.
End Apply.
End P4.
Export P4.

(* ==================================================================================================== *)
(* Arith: Python's + and * on lowered values vs entry-wise arithmetic *)
Module P5.
(* ============================================================ zipw / concat / matrices *)
Lemma zipw_length {A} (f : A -> A -> A) l : forall m, length l = length m -> length (zipw f l m) = length l.
Proof. induction l; intros [|y m]; simpl; intros H; try discriminate; auto. Qed.

Lemma concat_zipw {A} (f : A -> A -> A) L : forall M,
  Forall2 (fun a b => length a = length b) L M ->
  concat (zipw (zipw f) L M) = zipw f (concat L) (concat M).
Proof.
  induction L as [|a L IH]; intros M H; inversion H; subst; simpl; auto.
  rewrite IH by auto. clear - H2. revert y H2. induction a; intros [|b y] H2; simpl in *; try discriminate; auto.
  f_equal. apply IHa. lia.
Qed.

Definition cols (M : list (list texpr)) : nat := snd (dims M).

Lemma rect_rows M : rect M = true -> Forall (fun r => length r = cols M) M.
Proof. unfold rect. intros H. apply Forall_forall. intros r Hr. rewrite forallb_forall in H. apply Nat.eqb_eq. auto. Qed.

Lemma same_rows_n (A B : list (list texpr)) n : length A = length B ->
  Forall (fun r => length r = n) A -> Forall (fun r => length r = n) B ->
  Forall2 (fun a b => length a = length b) A B.
Proof.
  revert B. induction A as [|a A IH]; intros [|b B] HL HA HB; simpl in *; try discriminate; constructor.
  - inversion HA; inversion HB; subst. congruence.
  - apply IH; inversion HA; inversion HB; subst; auto.
Qed.

Lemma same_rows A B : length A = length B -> cols A = cols B -> rect A = true -> rect B = true ->
  Forall2 (fun a b => length a = length b) A B.
Proof.
  intros HL HC HA HB. apply rect_rows in HA, HB. rewrite HC in HA. eapply same_rows_n; eauto.
Qed.

Lemma zipw_rows (f : texpr -> texpr -> texpr) A B n :
  Forall (fun r => length r = n) A -> Forall (fun r => length r = n) B -> Forall (fun r => length r = n) (zipw (zipw f) A B).
Proof.
  intros HA. revert B. induction HA; intros B HB; simpl; auto. destruct HB; simpl; auto.
  constructor; auto. rewrite zipw_length; congruence.
Qed.

Lemma Forall_rect M n : Forall (fun r => length r = n) M -> M <> [] -> rect M = true /\ cols M = n.
Proof.
  intros H Hne. destruct M as [|r M]; [congruence|]. inversion H; subst. split; [|reflexivity].
  unfold rect, dims. simpl. rewrite Nat.eqb_refl. simpl. apply forallb_forall. intros x Hx.
  rewrite Forall_forall in H3. apply Nat.eqb_eq. auto.
Qed.

Definition not_vec (t : tensor) : Prop := match t with Vec _ => False | _ => True end.
Definition is_mat (t : tensor) : Prop := match t with Mat _ => True | _ => False end.

Lemma ladd_flat t1 t2 t : ladd t1 t2 = Some t -> not_vec t1 -> not_vec t2 ->
  cshape t = cshape t1 /\ wf_tensor t = true /\ flat t = zipw TAdd (flat t1) (flat t2) /\ not_vec t.
Proof.
  intros H N1 N2. destruct t1 as [x|l|A], t2 as [y|m|B]; cbn [ladd not_vec] in H, N1, N2; try discriminate H; try contradiction.
  - inversion H. simpl. auto.
  - destruct (Nat.eqb (fst (dims A)) (fst (dims B)) && Nat.eqb (snd (dims A)) (snd (dims B)) && rect A && rect B) eqn:E; [|discriminate].
    inversion H. subst. clear H.
    apply andb_true_iff in E. destruct E as [E RB]. apply andb_true_iff in E. destruct E as [E RA].
    apply andb_true_iff in E. destruct E as [E1 E2]. apply Nat.eqb_eq in E1, E2.
    assert (L : length A = length B) by exact E1. assert (Cc : cols A = cols B) by exact E2. clear E1 E2.
    pose proof (same_rows A B L Cc RA RB) as HS.
    assert (HR : Forall (fun r => length r = cols A) (zipw (zipw TAdd) A B)).
    { apply zipw_rows; [now apply rect_rows|]. rewrite Cc. now apply rect_rows. }
    simpl. destruct A as [|a A].
    + destruct B; [|discriminate]. simpl. auto.
    + destruct B as [|b B]; [discriminate|].
      destruct (Forall_rect _ _ HR) as [R1 C1]; [simpl; discriminate|].
      repeat split; auto.
      * unfold dims in *. simpl in *. inversion HS; subst. rewrite !zipw_length by (auto; lia). reflexivity.
      * apply (concat_zipw TAdd (a :: A) (b :: B) HS).
Qed.

Lemma tadd_flat r1 r2 r : tadd r1 r2 = Some r ->
  cshape r = cshape r1 /\ wf_tensor r = true /\ flat r = zipw TAdd (flat r1) (flat r2).
Proof.
  destruct r1 as [x|l|A], r2 as [y|m|B]; simpl; try discriminate; intros H.
  - inversion H. simpl. auto.
  - destruct (Nat.eqb (length l) (length m)) eqn:E; [|discriminate]. inversion H. simpl. apply Nat.eqb_eq in E.
    rewrite zipw_length; auto.
  - destruct (ladd_flat (Mat A) (Mat B) r) as (X1 & X2 & X3 & _); simpl; auto.
Qed.

Lemma lmul_ss x y : lmul (Sc x) (Sc y) = Some (Sc (TMul x y)).
Proof. destruct x; reflexivity. Qed.
Lemma lmul_sm x B : lmul (Sc x) (Mat B) = Some (Mat (map (map (TMul x)) B)).
Proof. destruct x; reflexivity. Qed.
Lemma lmul_ms A y : lmul (Mat A) (Sc y) = Some (Mat (map (map (fun a => TMul a y)) A)).
Proof. destruct y; reflexivity. Qed.

Lemma lmul_flat t1 t2 t : lmul t1 t2 = Some t -> not_vec t1 -> not_vec t2 -> ~ (is_mat t1 /\ is_mat t2) ->
  not_vec t /\ (is_mat t -> is_mat t1 \/ is_mat t2) /\
  ((exists x, t1 = Sc x /\ cshape t = cshape t2 /\ wf_tensor t = wf_tensor t2 /\ flat t = map (TMul x) (flat t2)) \/
   (exists y, t2 = Sc y /\ cshape t = cshape t1 /\ wf_tensor t = wf_tensor t1 /\ flat t = map (fun a => TMul a y) (flat t1))).
Proof.
  assert (MM : forall (g : texpr -> texpr) (M : list (list texpr)),
            dims (map (map g) M) = dims M /\ rect (map (map g) M) = rect M /\ concat (map (map g) M) = map g (concat M)).
  { intros g M. split; [|split].
    - unfold dims. rewrite map_length. destruct M; simpl; auto. now rewrite map_length.
    - unfold rect, dims. simpl. destruct M as [|r0 M]; simpl; auto. rewrite !map_length. f_equal.
      induction M; simpl; auto. rewrite map_length. now rewrite IHM.
    - induction M; simpl; auto. rewrite map_app. now rewrite IHM. }
  intros H N1 N2 Hn. destruct t1 as [x|l|A], t2 as [y|m|B]; cbn [not_vec] in N1, N2; try contradiction;
    rewrite ?lmul_ss, ?lmul_sm, ?lmul_ms in H.
  - inversion H. subst. split; [exact I|]. split; [intros []|]. left. exists x. repeat split; auto.
  - inversion H. subst. split; [exact I|]. split; [intros _; right; exact I|]. left. exists x.
    destruct (MM (TMul x) B) as (M1 & M2 & M3). cbn [cshape wf_tensor flat]. rewrite M1. repeat split; auto.
  - inversion H. subst. split; [exact I|]. split; [intros _; left; exact I|]. right. exists y.
    destruct (MM (fun a => TMul a y) A) as (M1 & M2 & M3). cbn [cshape wf_tensor flat]. rewrite M1. repeat split; auto.
  - exfalso. apply Hn. split; exact I.
Qed.

Lemma tmul_flat r1 r2 r : tmul r1 r2 = Some r ->
  (exists x, r1 = Sc x /\ cshape r = cshape r2 /\ wf_tensor r = wf_tensor r2 /\ flat r = map (TMul x) (flat r2)) \/
  (exists y, r2 = Sc y /\ cshape r = cshape r1 /\ wf_tensor r = wf_tensor r1 /\ flat r = map (fun a => TMul a y) (flat r1)).
Proof.
  destruct r1 as [x|l|A], r2 as [y|m|B]; simpl; try discriminate; intros H; inversion H; simpl.
  - left. exists x. auto.
  - left. exists x. rewrite map_length. auto.
  - left. exists x.
    destruct (lmul_flat (Sc x) (Mat B) _ (lmul_sm x B) I I) as (_ & _ & [(x' & E & X)|(y' & E & _)]); [tauto| |discriminate].
    inversion E. subst. split; [reflexivity|exact X].
  - right. exists y. rewrite map_length. auto.
  - right. exists y.
    destruct (lmul_flat (Mat A) (Sc y) _ (lmul_ms A y) I I) as (_ & _ & [(x' & E & _)|(y' & E & X)]); [tauto|discriminate|].
    inversion E. subst. split; [reflexivity|exact X].
Qed.

Lemma cshape11_flat t : cshape t = (1, 1) -> wf_tensor t = true -> exists x, flat t = [x].
Proof.
  destruct t as [x|l|M]; simpl; intros H W.
  - eauto.
  - inversion H. destruct l as [|a [|b l]]; simpl in *; try discriminate. eauto.
  - unfold dims in H. destruct M as [|r M]; simpl in *; [discriminate|].
    destruct M as [|r' M]; simpl in *.
    + inversion H. destruct r as [|a [|b r]]; simpl in *; try discriminate. eauto.
    + destruct (length M); simpl in H; inversion H.
Qed.

Section Main.
  Variable S : dfield.
  Notation eqv := (P1.eqv S).
  Notation tens_eq := (P1.tens_eq S).
  Notation tdfd := (P1.tdfd S).

  Lemma eqv_add a b c d : eqv a b -> eqv c d -> eqv (TAdd a c) (TAdd b d).
  Proof. unfold P1.eqv. intros H1 H2. change (fadd S (ev S a) (ev S c) = fadd S (ev S b) (ev S d)). now rewrite H1, H2. Qed.
  Lemma eqv_mul a b c d : eqv a b -> eqv c d -> eqv (TMul a c) (TMul b d).
  Proof. unfold P1.eqv. intros H1 H2. change (fmul S (ev S a) (ev S c) = fmul S (ev S b) (ev S d)). now rewrite H1, H2. Qed.

  Lemma tens_eq_refl t : wf_tensor t = true -> tens_eq t t.
  Proof. intros W. repeat split; auto. induction (flat t); constructor; auto. reflexivity. Qed.

  Lemma ladd_tadd t1 r1 t2 r2 t r :
    tens_eq t1 r1 -> tens_eq t2 r2 -> not_vec t1 -> not_vec t2 ->
    ladd t1 t2 = Some t -> tadd r1 r2 = Some r -> tens_eq t r /\ not_vec t.
  Proof.
    intros (C1 & _ & _ & E1) (C2 & _ & _ & E2) N1 N2 HL HT.
    destruct (ladd_flat _ _ _ HL N1 N2) as (A1 & A2 & A3 & A4).
    destruct (tadd_flat _ _ _ HT) as (B1 & B2 & B3).
    split; auto. split; [congruence|]. split; auto. split; auto.
    rewrite A3, B3. apply Forall2_zipw; auto. intros. now apply eqv_add.
  Qed.

  Lemma lmul_tmul t1 r1 t2 r2 t r :
    tens_eq t1 r1 -> tens_eq t2 r2 -> not_vec t1 -> not_vec t2 -> ~ (is_mat t1 /\ is_mat t2) ->
    lmul t1 t2 = Some t -> tmul r1 r2 = Some r ->
    tens_eq t r /\ not_vec t /\ (is_mat t -> is_mat t1 \/ is_mat t2).
  Proof.
    intros (C1 & W1 & V1 & E1) (C2 & W2 & V2 & E2) N1 N2 NM HL HT.
    destruct (lmul_flat _ _ _ HL N1 N2 NM) as (A1 & A2 & A3).
    split; [|split; auto].
    destruct (tmul_flat _ _ _ HT) as [(y & -> & Y1 & Y2 & Y3)|(y & -> & Y1 & Y2 & Y3)];
      destruct A3 as [(x & -> & X1 & X2 & X3)|(x & -> & X1 & X2 & X3)].
    - (* scalar on the left on both sides *)
      split; [congruence|]. split; [congruence|]. split; [congruence|].
      rewrite X3, Y3. apply Forall2_map. simpl in E1. inversion E1; subst.
      eapply Forall2_impl; [|exact E2]. intros a b Hab. now apply eqv_mul.
    - (* code: t1 * Sc x ; classical: Sc y * r2 : both t2 and r1 are scalars, everything is 1 x 1 *)
      simpl in C2, C1.
      destruct (cshape11_flat t1) as [a Ha]; [congruence|auto|].
      destruct (cshape11_flat r2) as [b Hb]; [congruence|auto|].
      split; [congruence|]. split; [congruence|]. split; [congruence|].
      rewrite X3, Y3, Ha, Hb. simpl. rewrite Ha in E1. rewrite Hb in E2. simpl in E1, E2.
      inversion E1; subst. inversion E2; subst. constructor; auto.
      unfold P1.eqv in *. change (fmul S (ev S a) (ev S x) = fmul S (ev S y) (ev S b)).
      congruence.
    - simpl in C2, C1.
      destruct (cshape11_flat t2) as [a Ha]; [congruence|auto|].
      destruct (cshape11_flat r1) as [b Hb]; [congruence|auto|].
      split; [congruence|]. split; [congruence|]. split; [congruence|].
      rewrite X3, Y3, Ha, Hb. simpl. rewrite Ha in E2. rewrite Hb in E1. simpl in E1, E2.
      inversion E1; subst. inversion E2; subst. constructor; auto.
      unfold P1.eqv in *. change (fmul S (ev S x) (ev S a) = fmul S (ev S b) (ev S y)).
      congruence.
    - split; [congruence|]. split; [congruence|]. split; [congruence|].
      rewrite X3, Y3. apply Forall2_map. simpl in E2. inversion E2; subst.
      eapply Forall2_impl; [|exact E1]. intros a b Hab. now apply eqv_mul.
  Qed.
End Main.
End P5.
Export P5.

(* ==================================================================================================== *)
(* Main: lower_sound_partial by induction on the tree *)
Module P6.
Lemma seq_fix {A B} (f : A -> option B) l :
  (fix go (l : list A) : option (list B) :=
     match l with
     | [] => Some []
     | x :: r => match f x, go r with Some a, Some b => Some (a :: b) | _, _ => None end
     end) l = sequence (map f l).
Proof.
  induction l as [|x l IH]; [reflexivity|]. cbn [map sequence]. rewrite IH.
  destruct (f x); destruct (sequence (map f l)); reflexivity.
Qed.

Lemma all_fix {A} (f : A -> bool) l :
  (fix all (l : list A) : bool := match l with [] => true | x :: r => f x && all r end) l = forallb f l.
Proof. induction l; simpl; [reflexivity|]. now rewrite IHl. Qed.

Lemma lower_add lg d l : lower lg d (GAdd l) = match sequence (map (lower lg d) l) with Some ts => fold1 ladd ts | None => None end.
Proof. cbn [lower]. now rewrite seq_fix. Qed.
Lemma lower_mul lg d l : lower lg d (GMul l) = match sequence (map (lower lg d) l) with Some ts => fold1 lmul ts | None => None end.
Proof. cbn [lower]. now rewrite seq_fix. Qed.
Lemma gden_add lg d l : gden lg d (GAdd l) = match sequence (map (gden lg d) l) with Some ts => fold1 tadd ts | None => None end.
Proof. cbn [gden]. now rewrite seq_fix. Qed.
Lemma gden_mul lg d l : gden lg d (GMul l) = match sequence (map (gden lg d) l) with Some ts => fold1 tmul ts | None => None end.
Proof. cbn [gden]. now rewrite seq_fix. Qed.
Lemma regular_add lg d l : regular lg d (GAdd l) = forallb (regular lg d) l.
Proof. cbn [regular]. now rewrite all_fix. Qed.
Lemma regular_mul lg d l : regular lg d (GMul l) =
  forallb (regular lg d) l && Nat.leb (length (filter (lowers_to_mat lg d) l)) 1.
Proof. cbn [regular]. now rewrite all_fix. Qed.

(* all tables, all dimensions: closed computations against the GENERATED tables *)
Lemma tables_ok1 lg o d : 1 <= d <= 3 -> tab_ok1 lg o d = true.
Proof. intros Hd. destruct (d123 d Hd) as [->|[->| ->]]; destruct lg, o; vm_compute; reflexivity. Qed.
Lemma tables_ok2 lg o d : 1 <= d <= 3 -> tab_ok2 lg o d = true.
Proof. intros Hd. destruct (d123 d Hd) as [->|[->| ->]]; destruct lg, o; vm_compute; reflexivity. Qed.

(* since 14cf28b no class returns a Tuple any more: a lowered value of a regular tree is never a Tuple
   (before that repair Cross_3d did, and Python's sequence arithmetic was applied to it) *)
Lemma tables_no_tuple :
  forallb (fun nt => forallb (fun kr => match snd kr with GenOk (Vec _) => false | _ => true end) (snd nt)) tables = true.
Proof. vm_compute. reflexivity. Qed.

Lemma assoc_In {B} k (l : list (string * B)) v : assoc k l = Some v -> In (k, v) l.
Proof.
  induction l as [|[k' v'] l IH]; simpl; [discriminate|]. destruct (String.eqb k k') eqn:E; intros H.
  - apply String.eqb_eq in E. inversion H. subst. auto.
  - auto.
Qed.

Lemma table_not_vec name k T : table_of name k = Some (GenOk T) -> not_vec T.
Proof.
  unfold table_of. destruct (assoc name tables) as [tab|] eqn:E1; [|discriminate]. intros E2.
  pose proof tables_no_tuple as H. rewrite forallb_forall in H. specialize (H _ (assoc_In _ _ _ E1)). simpl in H.
  rewrite forallb_forall in H. specialize (H _ (assoc_In _ _ _ E2)). simpl in H. destruct T; simpl; auto. discriminate.
Qed.

Lemma tens_map_not_vec f T t : tens_map f T = Some t -> not_vec T -> not_vec t.
Proof.
  destruct T as [x|l|M]; simpl; intros H N; try contradiction.
  - destruct (f x); inversion H. exact I.
  - destruct (sequence (map (fun r => sequence (map f r)) M)); inversion H. exact I.
Qed.

Lemma ladd_not_vec t1 t2 t : ladd t1 t2 = Some t -> not_vec t1 -> not_vec t2 -> not_vec t.
Proof. intros H N1 N2. destruct (ladd_flat _ _ _ H N1 N2) as (_ & _ & _ & N). exact N. Qed.

Lemma lmul_not_vec t1 t2 t : lmul t1 t2 = Some t -> not_vec t1 -> not_vec t2 -> not_vec t.
Proof.
  intros H N1 N2. destruct t1 as [x|l|A], t2 as [y|m|B]; cbn [not_vec] in N1, N2; try contradiction;
    rewrite ?lmul_ss, ?lmul_sm, ?lmul_ms in H.
  - inversion H. exact I.
  - inversion H. exact I.
  - inversion H. exact I.
  - cbn [lmul] in H. destruct (Nat.eqb (snd (dims A)) (fst (dims B)) && rect A && rect B); inversion H. exact I.
Qed.

Lemma fold_not_vec (f : tensor -> tensor -> option tensor) :
  (forall a b c, f a b = Some c -> not_vec a -> not_vec b -> not_vec c) ->
  forall ts t, Forall not_vec ts -> fold1 f ts = Some t -> not_vec t.
Proof.
  intros Hf ts t HF H. destruct ts as [|x ts]; [discriminate|]. simpl in H.
  assert (Hx : not_vec x) by (inversion HF; auto). assert (Hts : Forall not_vec ts) by (inversion HF; auto). clear HF.
  revert x Hx H. induction Hts as [|y ts Hy Hts IH]; intros x Hx H; simpl in H.
  - inversion H. now subst.
  - destruct (f x y) as [z|] eqn:E.
    + apply (IH z); auto. exact (Hf x y z E Hx Hy).
    + exfalso. clear - H. induction ts; simpl in H; [discriminate|auto].
Qed.

Lemma lower_not_vec lg d e : regular lg d e = true -> forall t, lower lg d e = Some t -> not_vec t.
Proof.
  induction e as [p q|n|l i|n|n|n i|l IHl|l IHl|b x IHb IHx|f a IHa|o a IHa|o a b IHa IHb|l IHl|rr cc l IHl] using gexpr_ind';
    intros Hr t H; try discriminate; try (cbn [lower] in H; inversion H; exact I).
  - rewrite regular_add in Hr. rewrite lower_add in H.
    destruct (sequence (map (lower lg d) l)) as [ts|] eqn:E; [|discriminate].
    eapply (fold_not_vec ladd ladd_not_vec); [|exact H].
    clear H. revert ts E. induction IHl as [|x l Hx Hl IH]; simpl in *; intros ts E.
    + inversion E. constructor.
    + destruct (lower lg d x) as [tx|] eqn:Ex; [|discriminate]. destruct (sequence (map (lower lg d) l)) as [ts'|]; [|discriminate].
      inversion E. apply andb_true_iff in Hr. destruct Hr as [R1 R2]. constructor; auto.
  - rewrite regular_mul in Hr. apply andb_true_iff in Hr. destruct Hr as [Hr _]. rewrite lower_mul in H.
    destruct (sequence (map (lower lg d) l)) as [ts|] eqn:E; [|discriminate].
    eapply (fold_not_vec lmul lmul_not_vec); [|exact H].
    clear H. revert ts E. induction IHl as [|x l Hx Hl IH]; simpl in *; intros ts E.
    + inversion E. constructor.
    + destruct (lower lg d x) as [tx|] eqn:Ex; [|discriminate]. destruct (sequence (map (lower lg d) l)) as [ts'|]; [|discriminate].
      inversion E. apply andb_true_iff in Hr. destruct Hr as [R1 R2]. constructor; auto.
  - cbn [lower] in H. destruct (lower lg d b) as [tb|]; [|discriminate]. destruct (lower lg d x) as [tx|]; [|discriminate].
    destruct tb, tx; simpl in H; try discriminate. inversion H. exact I.
  - cbn [lower] in H. destruct (lower lg d a) as [ta|]; [|discriminate]. unfold apply1 in H.
    destruct (class_name lg (op1_name o) d) as [name|]; [|discriminate]. destruct (kind_of d ta) as [k|]; [|discriminate].
    destruct (table_of name k) as [[T|?|?]|] eqn:Et; try discriminate.
    eapply tens_map_not_vec; eauto. eapply table_not_vec; eauto.
  - cbn [lower] in H. destruct (lower lg d a) as [ta|]; [|discriminate]. destruct (lower lg d b) as [tb|]; [|discriminate].
    unfold apply2 in H.
    destruct (class_name lg (op2_name o) d) as [name|]; [|discriminate]. destruct (kind_of d ta) as [ka|]; [|discriminate].
    destruct (kind_of d tb) as [kb|]; [|discriminate].
    destruct (table_of name (ka ++ kb)) as [[T|?|?]|] eqn:Et; try discriminate.
    eapply tens_map_not_vec; eauto. eapply table_not_vec; eauto.
Qed.

Section Sound.
  Variable S : dfield.
  Notation eqv := (P1.eqv S).
  Notation tens_eq := (P1.tens_eq S).
  Notation tdfd := (P1.tdfd S).

  (* definedness hypothesis: every intermediate value (of the lowering and of the classical
     definition) has non-vanishing denominators etc. at S *)
  Fixpoint gdef (lg : bool) (d : nat) (e : gexpr) {struct e} : Prop :=
    (forall t, lower lg d e = Some t -> tdfd t) /\ (forall r, gden lg d e = Some r -> tdfd r) /\
    match e with
    | GAdd l | GMul l | GTup l | GMat _ _ l =>
        (fix all (l : list gexpr) : Prop := match l with [] => True | x :: r => gdef lg d x /\ all r end) l
    | GPow b x => gdef lg d b /\ gdef lg d x
    | GFn _ a | GOp1 _ a => gdef lg d a
    | GOp2 _ a b => gdef lg d a /\ gdef lg d b
    | _ => True
    end.

  Lemma gdef_all lg d l :
    (fix all (l : list gexpr) : Prop := match l with [] => True | x :: r => gdef lg d x /\ all r end) l <-> Forall (gdef lg d) l.
  Proof.
    induction l as [|x r IH]; split; intros H; auto.
    - destruct H. constructor; auto. now apply IH.
    - inversion H; subst. split; auto. now apply IH.
  Qed.

  Lemma gdef_self lg d e : gdef lg d e ->
    (forall t, lower lg d e = Some t -> tdfd t) /\ (forall r, gden lg d e = Some r -> tdfd r).
  Proof. destruct e; simpl; tauto. Qed.

  Definition IHP lg d (e : gexpr) : Prop :=
    forall t r, regular lg d e = true -> gdef lg d e -> lower lg d e = Some t -> gden lg d e = Some r -> tens_eq t r.

  (* the operands of a sum / product, pairwise *)
  Lemma operands lg d l ts rs :
    Forall (IHP lg d) l -> forallb (regular lg d) l = true -> Forall (gdef lg d) l ->
    sequence (map (lower lg d) l) = Some ts -> sequence (map (gden lg d) l) = Some rs ->
    Forall2 tens_eq ts rs.
  Proof.
    intros HI. revert ts rs. induction HI as [|x l Hx Hl IH]; simpl; intros ts rs Hr Hd H1 H2.
    - inversion H1. inversion H2. constructor.
    - destruct (lower lg d x) as [t|] eqn:E1; [|discriminate]. destruct (gden lg d x) as [r|] eqn:E2; [|discriminate].
      destruct (sequence (map (lower lg d) l)) as [ts'|] eqn:S1; [|discriminate].
      destruct (sequence (map (gden lg d) l)) as [rs'|] eqn:S2; [|discriminate].
      inversion H1. inversion H2. apply andb_true_iff in Hr. destruct Hr as [R1 R2]. inversion Hd; subst.
      constructor; auto.
  Qed.

  Lemma operands_not_vec lg d l ts :
    forallb (regular lg d) l = true -> sequence (map (lower lg d) l) = Some ts -> Forall not_vec ts.
  Proof.
    revert ts. induction l as [|x l IH]; simpl; intros ts Hr H1.
    - inversion H1. constructor.
    - destruct (lower lg d x) as [t|] eqn:E1; [|discriminate].
      destruct (sequence (map (lower lg d) l)) as [ts'|] eqn:S1; [|discriminate]. inversion H1.
      apply andb_true_iff in Hr. destruct Hr as [R1 R2]. constructor; auto.
      eapply lower_not_vec; eauto.
  Qed.

  Fixpoint count_mat (ts : list tensor) : nat :=
    match ts with [] => 0 | Mat _ :: r => Datatypes.S (count_mat r) | _ :: r => count_mat r end.

  Lemma operands_count_mat lg d l ts :
    sequence (map (lower lg d) l) = Some ts -> count_mat ts = length (filter (lowers_to_mat lg d) l).
  Proof.
    revert ts. induction l as [|x l IH]; simpl; intros ts H1.
    - inversion H1. reflexivity.
    - destruct (lower lg d x) as [t|] eqn:E1; [|discriminate].
      destruct (sequence (map (lower lg d) l)) as [ts'|] eqn:S1; [|discriminate]. inversion H1.
      unfold lowers_to_mat at 1. rewrite E1. destruct t; simpl; rewrite (IH _ eq_refl); reflexivity.
  Qed.

  Lemma fold_add ts : forall rs t r acc racc,
    Forall2 tens_eq ts rs -> Forall not_vec ts -> tens_eq acc racc -> not_vec acc ->
    fold_left (fun a y => match a with Some o => ladd o y | None => None end) ts (Some acc) = Some t ->
    fold_left (fun a y => match a with Some o => tadd o y | None => None end) rs (Some racc) = Some r ->
    tens_eq t r.
  Proof.
    induction ts as [|x ts IH]; intros rs t r acc racc HF HN HA NA H1 H2; inversion HF; subst; simpl in *.
    - inversion H1. inversion H2. subst. exact HA.
    - inversion HN; subst.
      destruct (ladd acc x) as [a'|] eqn:E1.
      2:{ exfalso. clear - H1. induction ts; simpl in H1; [discriminate|auto]. }
      destruct (tadd racc y) as [r'|] eqn:E2.
      2:{ exfalso. clear - H2. induction l'; simpl in H2; [discriminate|auto]. }
      destruct (ladd_tadd S _ _ _ _ _ _ HA H3 NA H4 E1 E2) as [T1 T2].
      eapply IH; eauto.
  Qed.

  Lemma fold_mul ts : forall rs t r acc racc,
    Forall2 tens_eq ts rs -> Forall not_vec ts -> tens_eq acc racc -> not_vec acc ->
    count_mat (acc :: ts) <= 1 ->
    fold_left (fun a y => match a with Some o => lmul o y | None => None end) ts (Some acc) = Some t ->
    fold_left (fun a y => match a with Some o => tmul o y | None => None end) rs (Some racc) = Some r ->
    tens_eq t r.
  Proof.
    induction ts as [|x ts IH]; intros rs t r acc racc HF HN HA NA HC H1 H2; inversion HF; subst; simpl in H1, H2.
    - inversion H1. inversion H2. subst. exact HA.
    - inversion HN; subst.
      destruct (lmul acc x) as [a'|] eqn:E1.
      2:{ exfalso. clear - H1. induction ts; simpl in H1; [discriminate|auto]. }
      destruct (tmul racc y) as [r'|] eqn:E2.
      2:{ exfalso. clear - H2. induction l'; simpl in H2; [discriminate|auto]. }
      assert (NM : ~ (is_mat acc /\ is_mat x)).
      { intros [M1 M2]. destruct acc, x; simpl in M1, M2; try contradiction. simpl in HC. lia. }
      destruct (lmul_tmul S _ _ _ _ _ _ HA H3 NA H4 NM E1 E2) as (T1 & T2 & T3).
      eapply IH; eauto.
      (* at most one matrix among the new accumulator and the rest *)
      clear - HC T3. destruct a' as [?|?|?].
      + destruct acc, x; simpl in *; lia.
      + destruct acc, x; simpl in *; lia.
      + destruct (T3 I) as [M|M]; destruct acc, x; simpl in *; try contradiction; lia.
  Qed.

  Theorem lower_sound_partial lg d e t r :
    1 <= d <= 3 -> regular lg d e = true -> gdef lg d e ->
    lower lg d e = Some t -> gden lg d e = Some r -> tens_eq t r.
  Proof.
    intros Hd. revert t r. change (IHP lg d e).
    induction e as [p q|n|l i|n|n|n i|l IHl|l IHl|b x IHb IHx|f a IHa|o a IHa|o a b IHa IHb|l IHl|rr cc l IHl] using gexpr_ind';
      intros t r Hreg Hdef Hl Hg.
    - (* number *) simpl in Hl, Hg. inversion Hl. inversion Hg. now apply tens_eq_refl.
    - simpl in Hl, Hg. inversion Hl. inversion Hg. now apply tens_eq_refl.
    - simpl in Hl, Hg. destruct (Nat.ltb i d); inversion Hl; inversion Hg. now apply tens_eq_refl.
    - simpl in Hl, Hg. inversion Hl. inversion Hg. now apply tens_eq_refl.
    - (* vector function: column of components vs vector *)
      simpl in Hl, Hg. inversion Hl. inversion Hg.
      destruct (d123 d Hd) as [->|[->| ->]]; cbn; repeat split; repeat constructor; reflexivity.
    - simpl in Hl, Hg. destruct (Nat.ltb i d); inversion Hl; inversion Hg. now apply tens_eq_refl.
    - (* Add *)
      rewrite lower_add in Hl. rewrite gden_add in Hg. rewrite regular_add in Hreg.
      pose proof Hreg as R1. pose proof Hreg as R2.
      destruct Hdef as (_ & _ & Hall). apply gdef_all in Hall.
      destruct (sequence (map (lower lg d) l)) as [ts|] eqn:S1; [|discriminate].
      destruct (sequence (map (gden lg d) l)) as [rs|] eqn:S2; [|discriminate].
      pose proof (operands lg d l ts rs IHl R1 Hall S1 S2) as HF.
      pose proof (operands_not_vec lg d l ts R2 S1) as HN.
      destruct ts as [|t0 ts]; [discriminate|]. inversion HF; subst. inversion HN; subst.
      unfold fold1 in Hl, Hg. eapply fold_add; eauto.
    - (* Mul *)
      rewrite lower_mul in Hl. rewrite gden_mul in Hg. rewrite regular_mul in Hreg.
      apply andb_true_iff in Hreg. destruct Hreg as [R1 R3]. pose proof R1 as R2.
      destruct Hdef as (_ & _ & Hall). apply gdef_all in Hall.
      destruct (sequence (map (lower lg d) l)) as [ts|] eqn:S1; [|discriminate].
      destruct (sequence (map (gden lg d) l)) as [rs|] eqn:S2; [|discriminate].
      pose proof (operands lg d l ts rs IHl R1 Hall S1 S2) as HF.
      pose proof (operands_not_vec lg d l ts R2 S1) as HN.
      pose proof (operands_count_mat lg d l ts S1) as HC. apply Nat.leb_le in R3. rewrite <- HC in R3.
      destruct ts as [|t0 ts]; [discriminate|]. inversion HF; subst. inversion HN; subst.
      unfold fold1 in Hl, Hg. eapply fold_mul; eauto.
    - (* Pow with a literal exponent *)
      cbn [regular] in Hreg. apply andb_true_iff in Hreg. destruct Hreg as [R1 R2].
      destruct x as [p q| | | | | | | | | | | | |]; try discriminate.
      destruct Hdef as (_ & _ & Hb & _).
      cbn [lower gden] in Hl, Hg.
      destruct (lower lg d b) as [tb|] eqn:E1; [|discriminate]. destruct (gden lg d b) as [rb|] eqn:E2; [|discriminate].
      specialize (IHb tb rb R1 Hb E1 E2).
      destruct rb as [y| |]; try discriminate. inversion Hg. subst. clear Hg.
      destruct tb as [x0| |]; simpl in Hl; try discriminate. inversion Hl. subst. clear Hl.
      destruct IHb as (_ & _ & _ & HE). simpl in HE. inversion HE; subst.
      repeat split; auto. constructor; auto. unfold P1.eqv in *.
      unfold tnum. destruct (Pos.eqb q 1).
      + destruct p; simpl; unfold ev in *; simpl; congruence.
      + simpl. unfold ev in *. simpl. congruence.
    - (* elementary functions: outside the proved fragment *) discriminate.
    - (* unary operators *)
      cbn [regular] in Hreg.
      destruct Hdef as (_ & _ & Ha). destruct (gdef_self _ _ _ Ha) as [D1 D2].
      cbn [lower gden] in Hl, Hg.
      destruct (lower lg d a) as [ta|] eqn:E1; [|discriminate]. destruct (gden lg d a) as [ra|] eqn:E2; [|discriminate].
      exact (apply1_sound S lg o d ta ra t r Hd (tables_ok1 lg o d Hd) (IHa ta ra Hreg Ha E1 E2) (D1 _ eq_refl) (D2 _ eq_refl) Hl Hg).
    - (* binary operators *)
      cbn [regular] in Hreg. apply andb_true_iff in Hreg. destruct Hreg as [R1 R2].
      destruct Hdef as (_ & _ & Ha & Hb).
      destruct (gdef_self _ _ _ Ha) as [DA1 DA2]. destruct (gdef_self _ _ _ Hb) as [DB1 DB2].
      cbn [lower gden] in Hl, Hg.
      destruct (lower lg d a) as [ta|] eqn:E1; [|discriminate]. destruct (gden lg d a) as [ra|] eqn:E2; [|discriminate].
      destruct (lower lg d b) as [tb|] eqn:E3; [|discriminate]. destruct (gden lg d b) as [rb|] eqn:E4; [|discriminate].
      exact (apply2_sound S lg o d ta tb ra rb t r Hd (tables_ok2 lg o d Hd)
               (IHa ta ra R1 Ha E1 E2) (IHb tb rb R2 Hb E3 E4) (DA1 _ eq_refl) (DB1 _ eq_refl) (DA2 _ eq_refl) (DB2 _ eq_refl) Hl Hg).
    - discriminate.
    - discriminate.
  Qed.
End Sound.
End P6.
Export P6.

(* ==================================================================================================== *)
(* Total: the reference derivative never refuses on lowered values; tables total on typed arguments; lower_total_shape *)
Module P7.
(* ============================================================ differentiable any number of times *)
(* terms on which the reference derivative of the family lg never refuses *)
Definition known_fn (f : fname) : bool :=
  match f with Fsin | Fcos | Ftan | Fexp | Flog | Fsqrt => true | _ => false end.

Fixpoint tgoodb (lg : bool) (t : texpr) : bool :=
  match t with
  | TZ _ | TQ _ _ => true
  | TAt (ACoord l _) => Bool.eqb l lg
  | TAt (AConst _) => true
  | TAt (AFld l _ _ _ al) => all_zero al || Bool.eqb l lg
  | TAt (AMap _ _ _) => lg
  | TAt (ANormal _ _) => false
  | TAdd a b | TSub a b | TMul a b | TDiv a b | TPowG a b => tgoodb lg a && tgoodb lg b
  | TOpp a | TInv a | TPowN a _ => tgoodb lg a
  | TFn f a => known_fn f && tgoodb lg a
  end.

Lemma tD_good lg i t : tgoodb lg t = true -> exists t', tD lg i t = Some t' /\ tgoodb lg t' = true.
Proof.
  induction t; simpl; intros H.
  - eexists; split; reflexivity.
  - eexists; split; reflexivity.
  - destruct a as [l j|n|l f c s al|m j al|s j]; simpl in *.
    + rewrite H. eexists; split; [reflexivity|]. destruct (Nat.eqb i j && Nat.ltb j 3); reflexivity.
    + eexists; split; reflexivity.
    + rewrite H. eexists; split; [reflexivity|]. simpl. rewrite Bool.eqb_reflx. apply orb_true_r.
    + rewrite H. eexists; split; [reflexivity|]. reflexivity.
    + discriminate.
  - apply andb_true_iff in H. destruct H as [H1 H2].
    destruct (IHt1 H1) as (a & -> & A). destruct (IHt2 H2) as (b & -> & B). eexists; split; [reflexivity|]. simpl. now rewrite A, B.
  - apply andb_true_iff in H. destruct H as [H1 H2].
    destruct (IHt1 H1) as (a & -> & A). destruct (IHt2 H2) as (b & -> & B). eexists; split; [reflexivity|]. simpl. now rewrite A, B.
  - apply andb_true_iff in H. destruct H as [H1 H2].
    destruct (IHt1 H1) as (a & -> & A). destruct (IHt2 H2) as (b & -> & B). eexists; split; [reflexivity|]. simpl. now rewrite A, B, H1, H2.
  - apply andb_true_iff in H. destruct H as [H1 H2].
    destruct (IHt1 H1) as (a & -> & A). destruct (IHt2 H2) as (b & -> & B). eexists; split; [reflexivity|]. simpl. now rewrite A, B, H1, H2.
  - destruct (IHt H) as (a & -> & A). eexists; split; [reflexivity|]. exact A.
  - destruct (IHt H) as (a & -> & A). eexists; split; [reflexivity|]. simpl. now rewrite A, H.
  - destruct (IHt H) as (a & -> & A). destruct n; eexists; split; try reflexivity. simpl. now rewrite A, H.
  - apply andb_true_iff in H. destruct H as [H1 H2]. destruct (IHt H2) as (a & -> & A).
    destruct f; try discriminate; eexists; split; try reflexivity; simpl; now rewrite ?A, ?H2.
  - apply andb_true_iff in H. destruct H as [H1 H2].
    destruct (IHt1 H1) as (a & -> & A). destruct (IHt2 H2) as (b & -> & B). eexists; split; [reflexivity|]. simpl. now rewrite A, B, H1, H2.
Qed.

Lemma tDn_good lg i n t : tgoodb lg t = true -> exists t', tDn lg i n t = Some t' /\ tgoodb lg t' = true.
Proof.
  induction n; simpl; intros H; eauto.
  destruct (IHn H) as (u & -> & U). now apply tD_good.
Qed.

Lemma tDs_good lg al : forall i t, tgoodb lg t = true -> exists t', tDs lg i al t = Some t' /\ tgoodb lg t' = true.
Proof.
  induction al as [|a r IH]; simpl; intros i t H; eauto.
  destruct (IH (S i) t H) as (u & -> & U). now apply tDn_good.
Qed.

Lemma tDs_zero lg al : all_zero al = true -> forall i t, tDs lg i al t = Some t.
Proof.
  induction al as [|a r IH]; simpl; intros H i t; auto.
  apply andb_true_iff in H. destruct H as [H1 H2]. destruct a; [|discriminate]. rewrite IH by auto. reflexivity.
Qed.

(* ============================================================ instantiating a table never fails *)
Definition key_mem (f : string) (c : nat) (keys : list (string * nat)) : bool :=
  existsb (fun k => String.eqb f (fst k) && Nat.eqb c (snd k)) keys.

(* the shape of a table entry: sums / products / powers of generic atoms of the given keys; derivatives
   only of the family lg *)
Fixpoint twf (lg : bool) (keys : list (string * nat)) (T : texpr) : bool :=
  match T with
  | TZ _ => true
  | TAt (AFld l f c SNone al) => key_mem f c keys && (all_zero al || Bool.eqb l lg)
  | TAdd a b | TSub a b | TMul a b => twf lg keys a && twf lg keys b
  | TOpp a | TPowN a _ => twf lg keys a
  | _ => false
  end.

Definition env_good (lg : bool) (env : genv) (keys : list (string * nat)) : Prop :=
  forall f c, key_mem f c keys = true -> exists x, elookup env f c = Some x /\ tgoodb lg x = true.

Lemma tsubst_total lg env keys T : env_good lg env keys -> twf lg keys T = true ->
  exists t, tsubst env T = Some t /\ tgoodb lg t = true.
Proof.
  intros He. induction T; simpl; intros H; try discriminate.
  - eexists; split; reflexivity.
  - destruct a as [| |l f c s al| |]; try discriminate. destruct s; try discriminate.
    apply andb_true_iff in H. destruct H as [H1 H2]. destruct (He f c H1) as (x & -> & X).
    apply orb_true_iff in H2. destruct H2 as [H2|H2].
    + rewrite tDs_zero by auto. eauto.
    + apply Bool.eqb_prop in H2. subst. now apply tDs_good.
  - apply andb_true_iff in H. destruct H as [H1 H2].
    destruct (IHT1 H1) as (a & -> & A). destruct (IHT2 H2) as (b & -> & B). eexists; split; [reflexivity|]. simpl. now rewrite A, B.
  - apply andb_true_iff in H. destruct H as [H1 H2].
    destruct (IHT1 H1) as (a & -> & A). destruct (IHT2 H2) as (b & -> & B). eexists; split; [reflexivity|]. simpl. now rewrite A, B.
  - apply andb_true_iff in H. destruct H as [H1 H2].
    destruct (IHT1 H1) as (a & -> & A). destruct (IHT2 H2) as (b & -> & B). eexists; split; [reflexivity|]. simpl. now rewrite A, B.
  - destruct (IHT H) as (a & -> & A). eexists; split; [reflexivity|]. exact A.
  - destruct (IHT H) as (a & -> & A). eexists; split; [reflexivity|]. exact A.
Qed.

Definition tens_forallb (p : texpr -> bool) (t : tensor) : bool := forallb p (flat t).

Lemma seq_total {A B} (f : A -> option B) (P : A -> B -> Prop) l :
  Forall (fun a => exists b, f a = Some b /\ P a b) l -> exists r, sequence (map f l) = Some r /\ Forall2 P l r.
Proof.
  induction 1 as [|a l (b & E & Pb) Hl (r & Er & Pr)]; simpl.
  - exists []. auto.
  - rewrite E, Er. exists (b :: r). simpl. auto.
Qed.

(* same constructor, same dimensions *)
Definition skel (t : tensor) : nat * list nat :=
  match t with Sc _ => (0, []) | Vec l => (1, [length l]) | Mat M => (2, map (@length texpr) M) end.

Lemma tens_map_total lg env keys T :
  env_good lg env keys -> tens_forallb (twf lg keys) T = true ->
  exists t, tens_map (tsubst env) T = Some t /\ tens_forallb (tgoodb lg) t = true /\ skel t = skel T.
Proof.
  intros He. unfold tens_forallb.
  assert (ROW : forall row, forallb (twf lg keys) row = true ->
                exists b, sequence (map (tsubst env) row) = Some b /\ (forallb (tgoodb lg) b = true /\ length b = length row)).
  { intros row H.
    assert (HR : Forall (fun a => exists b, tsubst env a = Some b /\ (fun _ b => tgoodb lg b = true) a b) row).
    { apply Forall_forall. intros a Ha. apply (tsubst_total lg env keys a He). rewrite forallb_forall in H. auto. }
    destruct (seq_total _ _ _ HR) as (r & E & Pr). exists r. split; auto. split.
    - clear - Pr. induction Pr; simpl; auto. now rewrite H, IHPr.
    - symmetry. eapply Forall2_length'; eauto. }
  destruct T as [x|l|M]; simpl; intros H.
  - apply andb_true_iff in H. destruct H as [H _]. destruct (tsubst_total lg env keys x He H) as (t & -> & G).
    exists (Sc t). simpl. rewrite G. auto.
  - destruct (ROW l H) as (r & -> & G & L). exists (Vec r). simpl. rewrite L. auto.
  - assert (HF : Forall (fun row => exists b, sequence (map (tsubst env) row) = Some b /\
                                   (fun row b => forallb (tgoodb lg) b = true /\ length b = length row) row b) M).
    { apply Forall_forall. intros row Hr. apply ROW. apply forallb_forall. intros a Ha.
      rewrite forallb_forall in H. apply H. apply in_concat. eauto. }
    destruct (seq_total _ _ _ HF) as (R & -> & PR). exists (Mat R). simpl. split; auto. split.
    + clear - PR. induction PR as [|m r M R [G _] _ IH]; simpl; auto. rewrite forallb_app. now rewrite G, IH.
    + f_equal. clear - PR. induction PR as [|m r M R [_ L] _ IH]; simpl; auto. now rewrite L, IH.
Qed.

(* ============================================================ totality of the tables on typed arguments *)
Definition kinds_of_shape (s : shape) : list string :=
  match s with ShS => ["s"] | ShV => ["c"] | ShM => ["m"] end.
(* (before the repair 14cf28b a vector could also be a sympy Tuple, kind "t", and three (operator, kind)
   combinations had to be excluded from totality: Laplace of a Tuple, Dot with a matrix, Dot_3d on
   (column, Tuple)) *)

Definition res_kind_ok (d : nat) (s' : shape) (T : tensor) : bool :=
  match kind_of d T with Some k => mem k (kinds_of_shape s') | None => false end.

Definition shapes3 := [ShS; ShV; ShM].

(* for every argument shape the classical operator accepts, and every kind a lowered argument of
   that shape can have, the class TerminalExpr picks has a table (GenOk), made of generic atoms of
   that argument only, whose result has a kind of the classical result shape *)
Definition tab_total1 (lg : bool) (o : gop1) (d : nat) : bool :=
  forallb (fun s =>
    match op1_shape o d s with
    | None => true
    | Some s' =>
        match class_name lg (op1_name o) d with
        | None => false
        | Some name =>
            match assoc name tables with
            | None => true                               (* no such class: excluded by [supported] *)
            | Some tab =>
                forallb (fun k =>
                  match assoc k tab with
                  | Some (GenOk T) => tens_forallb (twf lg (gen_keys false k d)) T && res_kind_ok d s' T
                  | _ => false
                  end) (kinds_of_shape s)
            end
        end
    end) shapes3.

Definition tab_total2 (lg : bool) (o : gop2) (d : nat) : bool :=
  forallb (fun s1 => forallb (fun s2 =>
    match op2_shape o d s1 s2 with
    | None => true
    | Some s' =>
        match class_name lg (op2_name o) d with
        | None => false
        | Some name =>
            match assoc name tables with
            | None => true
            | Some tab =>
                forallb (fun ka => forallb (fun kb =>
                  match assoc (ka ++ kb) tab with
                  | Some (GenOk T) =>
                      tens_forallb (twf lg (gen_keys false ka d ++ gen_keys true kb d)%list) T && res_kind_ok d s' T
                  | _ => false
                  end) (kinds_of_shape s2)) (kinds_of_shape s1)
            end
        end
    end) shapes3) shapes3.


Lemma tables_total1 lg o d : d = 2 \/ d = 3 -> tab_total1 lg o d = true.
Proof. intros [->| ->]; destruct lg, o; vm_compute; reflexivity. Qed.
Lemma tables_total2 lg o d : d = 2 \/ d = 3 -> tab_total2 lg o d = true.
Proof. intros [->| ->]; destruct lg, o; vm_compute; reflexivity. Qed.

(* ============================================================ kinds and shapes *)
Definition kind_in (d : nat) (s : shape) (t : tensor) : Prop :=
  exists k, kind_of d t = Some k /\ In k (kinds_of_shape s).
Definition tens_good (lg : bool) (t : tensor) : Prop := tens_forallb (tgoodb lg) t = true.

Lemma forallb_len_map n (M : list (list texpr)) :
  forallb (fun r => Nat.eqb (length r) n) M = forallb (fun k => Nat.eqb k n) (map (@length texpr) M).
Proof. induction M; simpl; auto. now rewrite IHM. Qed.

Lemma kind_skel d t T : d <> 1 -> skel t = skel T -> kind_of d t = kind_of d T.
Proof.
  intros Hd. assert (E : Nat.eqb d 1 = false) by now apply Nat.eqb_neq.
  destruct t as [x|l|M], T as [y|m|N]; simpl; intros H; inversion H.
  - now rewrite E.
  - now rewrite H1.
  - assert (L : length M = length N) by (rewrite <- (map_length (@length texpr) M), H1; apply map_length).
    rewrite !forallb_len_map, H1, L. reflexivity.
Qed.

Lemma key_lookup_good (P : texpr -> Prop) env keys xs f c :
  Forall2 (fun key x => elookup env (fst key) (snd key) = Some x) keys xs -> Forall P xs ->
  key_mem f c keys = true -> exists x, elookup env f c = Some x /\ P x.
Proof.
  induction 1 as [|key x keys xs Hk Hl IH]; simpl; intros HP Hm; [discriminate|].
  inversion HP; subst. apply orb_true_iff in Hm. destruct Hm as [Hm|Hm]; auto.
  apply andb_true_iff in Hm. destruct Hm as [M1 M2]. apply String.eqb_eq in M1. apply Nat.eqb_eq in M2. subst. eauto.
Qed.

Lemma good_Forall lg t : tens_good lg t -> Forall (fun x => tgoodb lg x = true) (flat t).
Proof. unfold tens_good, tens_forallb. intros H. apply Forall_forall. rewrite forallb_forall in H. auto. Qed.

Lemma d23 d : d = 2 \/ d = 3 -> 1 <= d <= 3 /\ d <> 1.
Proof. lia. Qed.

Lemma mem_In k l : mem k l = true -> In k l.
Proof. unfold mem. intros H. apply existsb_exists in H. destruct H as (x & Hx & E). apply String.eqb_eq in E. now subst. Qed.

(* ------------------------------------------------------------ operators never fail on typed arguments *)
Lemma apply1_total lg o d ta s s' :
  d = 2 \/ d = 3 -> op1_shape o d s = Some s' -> op_exists lg (op1_name o) d = true ->
  kind_in d s ta -> tens_good lg ta ->
  exists t, apply1 lg o d ta = Some t /\ kind_in d s' t /\ tens_good lg t.
Proof.
  intros Hd Hs Hex (k & Hk & Hin) Hgood. destruct (d23 d Hd) as [Hd13 Hd1].
  pose proof (tables_total1 lg o d Hd) as Htab. unfold tab_total1 in Htab.
  rewrite forallb_forall in Htab. assert (Hs3 : In s shapes3) by (destruct s; simpl; auto).
  specialize (Htab s Hs3). rewrite Hs in Htab.
  unfold op_exists in Hex. unfold apply1, table_of.
  destruct (class_name lg (op1_name o) d) as [name|]; [|discriminate].
  destruct (assoc name tables) as [tab|]; [|discriminate].
  rewrite forallb_forall in Htab. specialize (Htab k Hin). rewrite Hk.
  destruct (assoc k tab) as [[T|?|?]|]; try discriminate.
  apply andb_true_iff in Htab. destruct Htab as [Hwf Hres].
  apply kind_of_shape in Hk.
  assert (Henv : env_good lg (env_of false k ta) (gen_keys false k d)).
  { intros f c Hm. eapply key_lookup_good; [apply (keys_lookup false d k ta Hd13 Hk)|now apply good_Forall|exact Hm]. }
  destruct (tens_map_total lg _ _ T Henv Hwf) as (t & Et & Gt & St).
  exists t. split; auto. split; auto.
  unfold res_kind_ok in Hres. rewrite <- (kind_skel d t T Hd1 St) in Hres.
  unfold kind_in. destruct (kind_of d t) as [k'|]; [|discriminate]. exists k'. split; [reflexivity|]. now apply mem_In.
Qed.

Lemma key_mem_app f c k1 k2 : key_mem f c (k1 ++ k2)%list = key_mem f c k1 || key_mem f c k2.
Proof. unfold key_mem. apply existsb_app. Qed.

Lemma key_mem_second f c d k : key_mem f c (gen_keys true k d) = true -> second_name f = true.
Proof.
  unfold key_mem. intros H. apply existsb_exists in H. destruct H as (key & Hin & E).
  apply andb_true_iff in E. destruct E as [E _]. apply String.eqb_eq in E. subst.
  pose proof (second_keys d k) as Hs. rewrite Forall_forall in Hs. auto.
Qed.

Lemma apply2_total lg o d ta tb s1 s2 s' :
  d = 2 \/ d = 3 -> op2_shape o d s1 s2 = Some s' -> op_exists lg (op2_name o) d = true ->
  kind_in d s1 ta -> kind_in d s2 tb ->
  tens_good lg ta -> tens_good lg tb ->
  exists t, apply2 lg o d ta tb = Some t /\ kind_in d s' t /\ tens_good lg t.
Proof.
  intros Hd Hs Hex (ka & Hka & Hina) (kb & Hkb & Hinb) Hga Hgb. destruct (d23 d Hd) as [Hd13 Hd1].
  pose proof (tables_total2 lg o d Hd) as Htab. unfold tab_total2 in Htab.
  rewrite forallb_forall in Htab. assert (Hs1 : In s1 shapes3) by (destruct s1; simpl; auto).
  specialize (Htab s1 Hs1). rewrite forallb_forall in Htab.
  assert (Hs2 : In s2 shapes3) by (destruct s2; simpl; auto). specialize (Htab s2 Hs2). rewrite Hs in Htab.
  unfold op_exists in Hex. unfold apply2, table_of.
  destruct (class_name lg (op2_name o) d) as [name|]; [|discriminate].
  destruct (assoc name tables) as [tab|]; [|discriminate].
  rewrite forallb_forall in Htab. specialize (Htab ka Hina). rewrite forallb_forall in Htab. specialize (Htab kb Hinb).
  rewrite Hka, Hkb.
  destruct (assoc (ka ++ kb) tab) as [[T|?|?]|]; try discriminate.
  apply andb_true_iff in Htab. destruct Htab as [Hwf Hres].
  apply kind_of_shape in Hka. apply kind_of_shape in Hkb.
  assert (Henv : env_good lg (env_of false ka ta ++ env_of true kb tb)%list (gen_keys false ka d ++ gen_keys true kb d)%list).
  { intros f c Hm. rewrite key_mem_app in Hm. apply orb_true_iff in Hm. destruct Hm as [Hm|Hm].
    - destruct (key_lookup_good (fun x => tgoodb lg x = true) _ _ _ f c (keys_lookup false d ka ta Hd13 Hka) (good_Forall _ _ Hga) Hm)
        as (x & E & G). exists x. split; auto. now apply elookup_app_l.
    - destruct (key_lookup_good (fun x => tgoodb lg x = true) _ _ _ f c (keys_lookup true d kb tb Hd13 Hkb) (good_Forall _ _ Hgb) Hm)
        as (x & E & G). exists x. split; auto. rewrite elookup_app_r; auto.
      apply elookup_none; [apply env_first_names|]. eapply key_mem_second; eauto. }
  destruct (tens_map_total lg _ _ T Henv Hwf) as (t & Et & Gt & St).
  exists t. split; auto. split; auto.
  unfold res_kind_ok in Hres. rewrite <- (kind_skel d t T Hd1 St) in Hres.
  unfold kind_in. destruct (kind_of d t) as [k'|]; [|discriminate]. exists k'. split; [reflexivity|]. now apply mem_In.
Qed.

(* ------------------------------------------------------------ arithmetic never fails on typed operands *)
Definition ckind (s : shape) : string := match s with ShS => "s" | ShV => "c" | ShM => "m" end.

Lemma kind_in_strict d s t : kind_in d s t -> kind_of d t = Some (ckind s).
Proof. intros (k & Hk & Hin). destruct s; simpl in Hin; destruct Hin as [<-|[]]; exact Hk. Qed.

Lemma strict_kind_in d s t : kind_of d t = Some (ckind s) -> kind_in d s t.
Proof. intros H. exists (ckind s). split; auto. destruct s; simpl; auto. Qed.

Ltac split_good :=
  unfold tens_good, tens_forallb in *; cbn [flat concat app forallb map zipw] in *;
  repeat match goal with
         | H : _ && _ = true |- _ => apply andb_true_iff in H; destruct H
         end.

Ltac inv_kshape :=
  repeat match goal with
         | H : kind_of _ _ = Some _ |- _ => apply kind_of_shape in H
         | H : kshape _ (String _ _) _ |- _ => inversion H; subst; clear H
         end.

Lemma ladd_total lg d s t1 t2 : d = 2 \/ d = 3 ->
  kind_of d t1 = Some (ckind s) -> kind_of d t2 = Some (ckind s) -> tens_good lg t1 -> tens_good lg t2 ->
  exists t, ladd t1 t2 = Some t /\ kind_of d t = Some (ckind s) /\ tens_good lg t.
Proof.
  intros [->| ->] K1 K2 G1 G2; destruct s; cbn [ckind] in K1, K2; inv_kshape; explode;
    (eexists; split; [reflexivity|split; [reflexivity|]]); split_good; cbn [tgoodb];
    repeat match goal with H : tgoodb _ _ = true |- _ => rewrite H; clear H end; reflexivity.
Qed.

Definition mshape (a b : shape) : shape := match a with ShS => b | _ => a end.
Definition nonscalar (s : shape) : bool := negb (shape_eqb s ShS).

Lemma lmul_total lg d sa sb t1 t2 : d = 2 \/ d = 3 ->
  nonscalar sa && nonscalar sb = false ->
  kind_of d t1 = Some (ckind sa) -> kind_of d t2 = Some (ckind sb) -> tens_good lg t1 -> tens_good lg t2 ->
  exists t, lmul t1 t2 = Some t /\ kind_of d t = Some (ckind (mshape sa sb)) /\ tens_good lg t.
Proof.
  intros [->| ->] NS K1 K2 G1 G2; destruct sa, sb; try discriminate NS; cbn [ckind mshape] in *; inv_kshape; explode;
    rewrite ?lmul_ss, ?lmul_sm, ?lmul_ms;
    (eexists; split; [reflexivity|split; [reflexivity|]]); split_good; cbn [tgoodb];
    repeat match goal with H : tgoodb _ _ = true |- _ => rewrite H; clear H end; reflexivity.
Qed.

Lemma fold_none {A} (f : A -> A -> option A) l : fold_left (fun a y => match a with Some o => f o y | None => None end) l None = None.
Proof. induction l; simpl; auto. Qed.

Lemma fold_add_total lg d s ts : d = 2 \/ d = 3 -> forall acc,
  Forall (fun t => kind_of d t = Some (ckind s) /\ tens_good lg t) (acc :: ts) ->
  exists t, fold_left (fun a y => match a with Some o => ladd o y | None => None end) ts (Some acc) = Some t /\
            kind_of d t = Some (ckind s) /\ tens_good lg t.
Proof.
  intros Hd. induction ts as [|x ts IH]; intros acc H; inversion H as [|? ? [K G] HT]; subst; simpl.
  - eauto.
  - inversion HT as [|? ? [Kx Gx] HT']; subst.
    destruct (ladd_total lg d s acc x Hd K Kx G Gx) as (a' & -> & K' & G'). apply IH. constructor; auto.
Qed.

Fixpoint count_ns (l : list shape) : nat :=
  match l with [] => 0 | s :: r => (if nonscalar s then 1 else 0) + count_ns r end.

Lemma fold_mul_total lg d ts : d = 2 \/ d = 3 -> forall ss acc sa,
  count_ns (sa :: ss) <= 1 ->
  kind_of d acc = Some (ckind sa) -> tens_good lg acc ->
  Forall2 (fun s t => kind_of d t = Some (ckind s) /\ tens_good lg t) ss ts ->
  exists t, fold_left (fun a y => match a with Some o => lmul o y | None => None end) ts (Some acc) = Some t /\
            kind_of d t = Some (ckind (fold_left mshape ss sa)) /\ tens_good lg t.
Proof.
  intros Hd. induction ts as [|x ts IH]; intros ss acc sa HC K G HF; inversion HF as [|sx ? ss' ? [Kx Gx] HF']; subst; simpl.
  - eauto.
  - assert (NS : nonscalar sa && nonscalar sx = false).
    { simpl in HC. destruct (nonscalar sa), (nonscalar sx); simpl in *; auto; lia. }
    destruct (lmul_total lg d sa sx acc x Hd NS K Kx G Gx) as (a' & -> & K' & G').
    apply IH; auto. simpl in HC |- *. destruct sa, sx; simpl in *; try lia.
Qed.

Lemma mres_comb s r s0 :
  match filter nonscalar (s :: r) with [] => Some ShS | [t] => Some t | _ => None end = Some s0 ->
  count_ns (s :: r) <= 1 /\ s0 = fold_left mshape r s.
Proof.
  revert s s0. induction r as [|x r IH]; intros s s0 H.
  - simpl in *. destruct s; simpl in *; inversion H; split; auto.
  - destruct s.
    + (* scalar head: drop it *)
      assert (H' : match filter nonscalar (x :: r) with [] => Some ShS | [t] => Some t | _ => None end = Some s0) by exact H.
      destruct (IH x s0 H') as [C E]. split; [exact C|exact E].
    + destruct x; simpl in H.
      * assert (H' : match filter nonscalar (ShV :: r) with [] => Some ShS | [t] => Some t | _ => None end = Some s0) by exact H.
        destruct (IH ShV s0 H') as [C E]. split; [exact C|exact E].
      * destruct (filter nonscalar r); discriminate.
      * destruct (filter nonscalar r); discriminate.
    + destruct x; simpl in H.
      * assert (H' : match filter nonscalar (ShM :: r) with [] => Some ShS | [t] => Some t | _ => None end = Some s0) by exact H.
        destruct (IH ShM s0 H') as [C E]. split; [exact C|exact E].
      * destruct (filter nonscalar r); discriminate.
      * destruct (filter nonscalar r); discriminate.
Qed.

(* ------------------------------------------------------------ totality and shape, dimensions 2 and 3 *)
Lemma shape_of_add d l : shape_of d (GAdd l) =
  match sequence (map (shape_of d) l) with
  | Some (s :: r) => if forallb (shape_eqb s) r then Some s else None
  | _ => None end.
Proof. cbn [shape_of]. now rewrite seq_fix. Qed.
Lemma shape_of_mul d l : shape_of d (GMul l) =
  match sequence (map (shape_of d) l) with
  | Some (s :: r) => match filter (fun x => negb (shape_eqb x ShS)) (s :: r) with [] => Some ShS | [t] => Some t | _ => None end
  | _ => None end.
Proof. cbn [shape_of]. now rewrite seq_fix. Qed.
Lemma leaves_ok_add lg d l : leaves_ok lg d (GAdd l) = forallb (leaves_ok lg d) l.
Proof. cbn [leaves_ok]. now rewrite all_fix. Qed.
Lemma leaves_ok_mul lg d l : leaves_ok lg d (GMul l) = forallb (leaves_ok lg d) l.
Proof. cbn [leaves_ok]. now rewrite all_fix. Qed.

Lemma shape_eqb_eq a b : shape_eqb a b = true -> a = b.
Proof. destruct a, b; simpl; congruence. Qed.

Definition TP lg d (e : gexpr) : Prop :=
  forall s, shape_of d e = Some s -> leaves_ok lg d e = true ->
  exists t, lower lg d e = Some t /\ kind_in d s t /\ tens_good lg t.

Lemma operands_total lg d l : Forall (TP lg d) l -> forall ss,
  sequence (map (shape_of d) l) = Some ss -> forallb (leaves_ok lg d) l = true ->
  exists ts, sequence (map (lower lg d) l) = Some ts /\ Forall2 (fun s t => kind_in d s t /\ tens_good lg t) ss ts.
Proof.
  induction 1 as [|x l Hx Hl IH]; simpl; intros ss HS HL.
  - inversion HS. exists []. auto.
  - destruct (shape_of d x) as [s|] eqn:Es; [|discriminate].
    destruct (sequence (map (shape_of d) l)) as [ss'|] eqn:Ess; [|discriminate]. inversion HS; subst.
    apply andb_true_iff in HL. destruct HL as [L1 L2].
    destruct (Hx s Es L1) as (t & -> & K & G). destruct (IH ss' eq_refl L2) as (ts & -> & F).
    exists (t :: ts). simpl. auto.
Qed.

Lemma strictify lg d ss ts : Forall2 (fun s t => kind_in d s t /\ tens_good lg t) ss ts ->
  Forall2 (fun s t => kind_of d t = Some (ckind s) /\ tens_good lg t) ss ts.
Proof. induction 1 as [|s t ss ts [K G] _ IH]; constructor; auto. split; auto. now apply kind_in_strict. Qed.

Lemma tpow_good lg x z : tgoodb lg x = true -> tgoodb lg (tpow x (tnum z 1)) = true.
Proof. intros H. unfold tnum. simpl. destruct z; simpl; exact H. Qed.

(* On the whole supported fragment, in dimension 2 and 3: lowering never fails and the value is a scalar
   expression / a d x 1 column / a d x d matrix according to the type of the tree (full strength since the
   repairs 14cf28b and 1e0454e: no guard besides [supported]). *)
Theorem lower_total_shape lg d e s :
  d = 2 \/ d = 3 -> shape_of d e = Some s -> leaves_ok lg d e = true ->
  exists t, lower lg d e = Some t /\ kind_in d s t /\ tens_good lg t.
Proof.
  intros Hd. destruct (d23 d Hd) as [Hd13 Hd1]. revert s. change (TP lg d e).
  induction e as [p q|n|l i|n|n|n i|l IHl|l IHl|b x IHb IHx|f a IHa|o a IHa|o a b IHa IHb|l IHl|rr cc l IHl] using gexpr_ind';
    intros s Hs Hl.
  - simpl in Hs. inversion Hs. eexists. split; [reflexivity|]. split; [apply (strict_kind_in d ShS)|].
    + simpl. now rewrite (proj2 (Nat.eqb_neq d 1) Hd1).
    + unfold tens_good, tens_forallb, tnum. simpl. destruct q; reflexivity.
  - simpl in Hs. inversion Hs. eexists. split; [reflexivity|]. split; [apply (strict_kind_in d ShS)|reflexivity].
    simpl. now rewrite (proj2 (Nat.eqb_neq d 1) Hd1).
  - simpl in Hs, Hl. destruct (Nat.ltb i d); inversion Hs. apply andb_true_iff in Hl. destruct Hl as [L1 _].
    eexists. split; [reflexivity|]. split; [apply (strict_kind_in d ShS)|].
    + simpl. now rewrite (proj2 (Nat.eqb_neq d 1) Hd1).
    + unfold tens_good, tens_forallb. simpl. now rewrite L1.
  - simpl in Hs. inversion Hs. eexists. split; [reflexivity|]. split; [apply (strict_kind_in d ShS)|reflexivity].
    simpl. now rewrite (proj2 (Nat.eqb_neq d 1) Hd1).
  - simpl in Hs. inversion Hs. eexists. split; [reflexivity|].
    destruct Hd as [->| ->]; (split; [apply (strict_kind_in _ ShV)|]; reflexivity).
  - simpl in Hs. destruct (Nat.ltb i d); inversion Hs. eexists. split; [reflexivity|]. split; [apply (strict_kind_in d ShS)|reflexivity].
    simpl. now rewrite (proj2 (Nat.eqb_neq d 1) Hd1).
  - (* Add *)
    rewrite shape_of_add in Hs. rewrite leaves_ok_add in Hl.
    destruct (sequence (map (shape_of d) l)) as [[|s0 ss]|] eqn:Ess; try discriminate.
    destruct (forallb (shape_eqb s0) ss) eqn:Eall; inversion Hs; subst.
    destruct (operands_total lg d l IHl _ Ess Hl) as (ts & Ets & HF).
    pose proof (strictify lg d _ _ HF) as HS.
    rewrite lower_add, Ets. destruct ts as [|t0 ts]; [inversion HS|].
    assert (HA : Forall (fun t => kind_of d t = Some (ckind s) /\ tens_good lg t) (t0 :: ts)).
    { inversion HS; subst. constructor; auto. clear - H4 Eall. revert ts H4. induction ss; intros ts H4; inversion H4; subst; constructor.
      - simpl in Eall. apply andb_true_iff in Eall. destruct Eall as [E1 _]. apply shape_eqb_eq in E1. now subst.
      - apply IHss; auto. simpl in Eall. apply andb_true_iff in Eall. tauto. }
    destruct (fold_add_total lg d s ts Hd t0 HA) as (t & Et & K & G).
    exists t. split; [exact Et|]. split; auto. now apply strict_kind_in.
  - (* Mul *)
    rewrite shape_of_mul in Hs. rewrite leaves_ok_mul in Hl.
    destruct (sequence (map (shape_of d) l)) as [[|s0 ss]|] eqn:Ess; try discriminate.
    destruct (mres_comb s0 ss s Hs) as [HC ->].
    destruct (operands_total lg d l IHl _ Ess Hl) as (ts & Ets & HF).
    pose proof (strictify lg d _ _ HF) as HS.
    rewrite lower_mul, Ets. destruct ts as [|t0 ts]; [inversion HS|]. inversion HS as [|? ? ? ? [K0 G0] HS']; subst.
    destruct (fold_mul_total lg d ts Hd ss t0 s0 HC K0 G0 HS') as (t & Et & K & G).
    exists t. split; [exact Et|]. split; auto. now apply strict_kind_in.
  - (* Pow, integer literal exponent *)
    cbn [leaves_ok] in Hl. apply andb_true_iff in Hl. destruct Hl as [L1 L2].
    destruct x as [z q| | | | | | | | | | | | |]; try discriminate. destruct q; try discriminate.
    cbn [shape_of] in Hs. destruct (shape_of d b) as [[| |]|] eqn:Eb; try discriminate. inversion Hs; subst.
    destruct (IHb ShS Eb L1) as (tb & Etb & Kb & Gb).
    cbn [lower]. rewrite Etb.
    assert (Ksc : kind_of d tb = Some "s").
    { destruct Kb as (k & K1 & [<-|[]]). exact K1. }
    apply kind_of_shape in Ksc. inversion Ksc; subst.
    exists (Sc (tpow x (tnum z 1))). split; [reflexivity|]. split; [apply (strict_kind_in d ShS)|].
    + simpl. now rewrite (proj2 (Nat.eqb_neq d 1) Hd1).
    + unfold tens_good, tens_forallb in *. cbn [flat forallb] in *. apply andb_true_iff in Gb. destruct Gb as [Gb _].
      now rewrite tpow_good.
  - discriminate.
  - (* unary operators *)
    cbn [leaves_ok] in Hl. apply andb_true_iff in Hl. destruct Hl as [L1 L2].
    cbn [shape_of] in Hs. destruct (shape_of d a) as [sa|] eqn:Ea; [|discriminate].
    destruct (IHa sa Ea L2) as (ta & Eta & Ka & Ga).
    cbn [lower]. rewrite Eta. eapply apply1_total; eauto.
  - (* binary operators *)
    cbn [leaves_ok] in Hl. apply andb_true_iff in Hl. destruct Hl as [Hl L3]. apply andb_true_iff in Hl. destruct Hl as [L1 L2].
    cbn [shape_of] in Hs. destruct (shape_of d a) as [sa|] eqn:Ea; [|discriminate]. destruct (shape_of d b) as [sb|] eqn:Eb; [|discriminate].
    destruct (IHa sa Ea L2) as (ta & Eta & Ka & Ga). destruct (IHb sb Eb L3) as (tb & Etb & Kb & Gb).
    cbn [lower]. rewrite Eta, Etb. eapply apply2_total; eauto.
  - discriminate.
  - discriminate.
Qed.

(* consequently every supported tree is regular: the soundness theorem applies to the whole supported fragment *)
Lemma filter_mat_count lg d l : forall ss ts,
  sequence (map (lower lg d) l) = Some ts ->
  Forall2 (fun s t => kind_of d t = Some (ckind s) /\ tens_good lg t) ss ts ->
  length (filter (lowers_to_mat lg d) l) = count_ns ss.
Proof.
  induction l as [|x l IH]; simpl; intros ss ts E HF.
  - inversion E. subst. inversion HF. reflexivity.
  - destruct (lower lg d x) as [t|] eqn:Ex; [|discriminate]. destruct (sequence (map (lower lg d) l)) as [ts'|] eqn:El; [|discriminate].
    inversion E. subst. inversion HF as [|s ? ss' ? [K G] HF']; subst.
    unfold lowers_to_mat at 1. rewrite Ex. simpl. rewrite <- (IH ss' ts' eq_refl HF').
    apply kind_of_shape in K. destruct s; simpl in K; inversion K; subst; reflexivity.
Qed.

Theorem supported_regular lg d e : d = 2 \/ d = 3 -> supported lg d e = true -> regular lg d e = true.
Proof.
  intros Hd Hsup. unfold supported, has_shape in Hsup. apply andb_true_iff in Hsup. destruct Hsup as [Hs Hl].
  destruct (shape_of d e) as [s|] eqn:Es; [|discriminate]. clear Hs. revert s Es Hl.
  induction e as [p q|n|l i|n|n|n i|l IHl|l IHl|b x IHb IHx|f a IHa|o a IHa|o a b IHa IHb|l IHl|rr cc l IHl] using gexpr_ind';
    intros s Es Hl; try reflexivity; try discriminate.
  - rewrite regular_add. rewrite shape_of_add in Es. rewrite leaves_ok_add in Hl.
    destruct (sequence (map (shape_of d) l)) as [ss|] eqn:Ess; [|discriminate]. clear Es.
    revert ss Ess Hl. induction IHl as [|x l Hx Hl' IH]; simpl; intros ss Ess Hl; auto.
    destruct (shape_of d x) as [sx|] eqn:Ex; [|discriminate]. destruct (sequence (map (shape_of d) l)) as [ss'|]; [|discriminate].
    apply andb_true_iff in Hl. destruct Hl as [L1 L2]. rewrite (Hx sx eq_refl L1). simpl. eapply IH; eauto.
  - rewrite regular_mul. rewrite shape_of_mul in Es. rewrite leaves_ok_mul in Hl.
    destruct (sequence (map (shape_of d) l)) as [[|s0 ss]|] eqn:Ess; try discriminate.
    destruct (mres_comb s0 ss s Es) as [HC _].
    apply andb_true_iff. split.
    + clear Es HC. revert Ess Hl. generalize (s0 :: ss). induction IHl as [|x l Hx Hl' IH]; simpl; intros ss' Ess Hl; auto.
      destruct (shape_of d x) as [sx|] eqn:Ex; [|discriminate]. destruct (sequence (map (shape_of d) l)) as [ss''|]; [|discriminate].
      apply andb_true_iff in Hl. destruct Hl as [L1 L2]. rewrite (Hx sx eq_refl L1). simpl. eapply IH; eauto.
    + assert (HT : Forall (TP lg d) l).
      { apply Forall_forall. intros x _ sx Ex Lx. now apply lower_total_shape. }
      destruct (operands_total lg d l HT _ Ess Hl) as (ts & Ets & HF).
      rewrite (filter_mat_count lg d l _ ts Ets (strictify lg d _ _ HF)).
      apply Nat.leb_le. exact HC.
  - cbn [regular]. cbn [leaves_ok] in Hl. apply andb_true_iff in Hl. destruct Hl as [L1 L2].
    destruct x; try discriminate. cbn [shape_of] in Es. destruct (shape_of d b) as [sb|] eqn:Eb; [|discriminate].
    rewrite (IHb sb eq_refl L1). reflexivity.
  - cbn [regular]. cbn [leaves_ok] in Hl. apply andb_true_iff in Hl. destruct Hl as [L1 L2].
    cbn [shape_of] in Es. destruct (shape_of d a) as [sa|] eqn:Ea; [|discriminate]. exact (IHa sa eq_refl L2).
  - cbn [regular]. cbn [leaves_ok] in Hl. apply andb_true_iff in Hl. destruct Hl as [Hl L3]. apply andb_true_iff in Hl. destruct Hl as [L1 L2].
    cbn [shape_of] in Es. destruct (shape_of d a) as [sa|] eqn:Ea; [|discriminate]. destruct (shape_of d b) as [sb|] eqn:Eb; [|discriminate].
    rewrite (IHa sa eq_refl L2), (IHb sb eq_refl L3). reflexivity.
Qed.
End P7.
Export P7.

(* ==================================================================================================== *)
(* Results: corollaries, refusals, refutations of the unguarded statements, non-vacuity *)
Module P8.
(* the extraction itself: every class the dispatch can name for a supported operator is present, no
   fail-closed marker, the registries contain the modelled operators, the naming scheme is the modelled one *)
Definition expected_classes : list string := ["Grad_1d"; "LogicalGrad_1d"; "Grad_2d"; "LogicalGrad_2d"; "Grad_3d"; "LogicalGrad_3d"; "Curl_2d"; "LogicalCurl_2d"; "Curl_3d"; "LogicalCurl_3d"; "Rot_2d"; "LogicalRot_2d"; "Div_1d"; "LogicalDiv_1d"; "Div_2d"; "LogicalDiv_2d"; "Div_3d"; "LogicalDiv_3d"; "Laplace_1d"; "LogicalLaplace_1d"; "Laplace_2d"; "LogicalLaplace_2d"; "Laplace_3d"; "LogicalLaplace_3d"; "Hessian_1d"; "LogicalHessian_1d"; "Hessian_2d"; "LogicalHessian_2d"; "Hessian_3d"; "LogicalHessian_3d"; "Bracket_2d"; "LogicalBracket_2d"; "Dot_1d"; "Dot_2d"; "Dot_3d"; "Cross_2d"; "Cross_3d"; "Inner_1d"; "Inner_2d"; "Inner_3d"].
Lemma classes_present : forallb (fun n => match assoc n tables with Some _ => true | None => false end) expected_classes = true.
Proof. vm_compute. reflexivity. Qed.
Lemma no_markers : forallb (fun nt => forallb (fun kr => match snd kr with GenBad _ => false | _ => true end) (snd nt)) tables = true.
Proof. vm_compute. reflexivity. Qed.
Lemma registries_ok :
  forallb (fun o => mem (op1_name o) diff_ops) [OGrad; OCurl; ORot; ODiv; OLaplace; OHessian] && mem "Bracket" diff_ops
  && forallb (fun o => mem (op2_name o) generic_ops) [ODot; OCross; OInner; OOuter; OConvect] = true.
Proof. vm_compute. reflexivity. Qed.
Lemma dispatch_scheme_ok : (fmt_logical, fmt_physical, fmt_generic) = ("Logical{0}_{1}d", "{0}_{1}d", "{0}_{1}d").
Proof. reflexivity. Qed.

(* ============================================================ corollaries: shape and totality (d = 2, 3) *)
(* full strength on the supported fragment, dimensions 2 and 3 (before the repairs 14cf28b / 1e0454e these
   needed the guard [regular] and were refuted without it: f*cross(F,G), cross(F,G)+curl(H),
   dot(B, cross(F,G)) raised, 2*cross(F,G) was a 6-tuple, dot(grad(F), G) a scalar) *)
Theorem lower_total lg d e :
  d = 2 \/ d = 3 -> supported lg d e = true -> exists t, lower lg d e = Some t.
Proof.
  intros Hd Hs. unfold supported, has_shape in Hs. apply andb_true_iff in Hs. destruct Hs as [H1 H2].
  destruct (shape_of d e) as [s|] eqn:Es; [|discriminate].
  destruct (lower_total_shape lg d e s Hd Es H2) as (t & E & _). eauto.
Qed.

(* the lowered value has the object shape of its type: a scalar expression / a d x 1 column / a d x d matrix *)
Theorem lower_shape lg d e s t :
  d = 2 \/ d = 3 -> shape_of d e = Some s -> leaves_ok lg d e = true ->
  lower lg d e = Some t -> kind_in d s t.
Proof.
  intros Hd Es Hl Ht. destruct (lower_total_shape lg d e s Hd Es Hl) as (t' & E & K & _).
  rewrite Ht in E. inversion E. now subst.
Qed.

(* soundness on the whole supported fragment, dimensions 2 and 3: only the definedness hypothesis remains *)
Theorem lower_sound_supported (S : dfield) lg d e t r :
  d = 2 \/ d = 3 -> supported lg d e = true -> gdef S lg d e ->
  lower lg d e = Some t -> gden lg d e = Some r -> P1.tens_eq S t r.
Proof.
  intros Hd Hs. apply lower_sound_partial; [destruct Hd; lia|]. now apply supported_regular.
Qed.

(* and the mathematical shape of the classical definition (any dimension; part of lower_sound_partial) *)
Theorem lower_cshape_partial (S : dfield) lg d e t r :
  1 <= d <= 3 -> regular lg d e = true -> gdef S lg d e -> lower lg d e = Some t -> gden lg d e = Some r ->
  cshape t = cshape r.
Proof. intros. eapply (lower_sound_partial S lg d e t r); eauto. Qed.

(* ============================================================ what the code refuses *)
Lemma lower_none_op1 lg o d a : op_exists lg (op1_name o) d = false -> lower lg d (GOp1 o a) = None.
Proof.
  intros H. cbn [lower]. destruct (lower lg d a) as [ta|]; [|reflexivity].
  unfold apply1, table_of. unfold op_exists in H.
  destruct (class_name lg (op1_name o) d) as [name|]; [|reflexivity].
  destruct (kind_of d ta); [|reflexivity]. destruct (assoc name tables); [discriminate|reflexivity].
Qed.

Lemma lower_none_op2 lg o d a b : op_exists lg (op2_name o) d = false -> lower lg d (GOp2 o a b) = None.
Proof.
  intros H. cbn [lower]. destruct (lower lg d a) as [ta|]; [|reflexivity]. destruct (lower lg d b) as [tb|]; [|reflexivity].
  unfold apply2, table_of. unfold op_exists in H.
  destruct (class_name lg (op2_name o) d) as [name|]; [|reflexivity].
  destruct (kind_of d ta); [|reflexivity]. destruct (kind_of d tb); [|reflexivity].
  destruct (assoc name tables); [discriminate|reflexivity].
Qed.

(* no Outer_kd / Convect_kd class in any dimension; Rot and Bracket only in 2-D; Curl, Cross not in 1-D
   (Inner_1d exists since d70b390) *)
Lemma absent_classes lg d : 1 <= d <= 3 ->
  op_exists lg "Outer" d = false /\ op_exists lg "Convect" d = false /\
  (d <> 2 -> op_exists lg "Rot" d = false /\ op_exists lg "Bracket" d = false) /\
  (d = 1 -> op_exists lg "Curl" d = false /\ op_exists lg "Cross" d = false).
Proof.
  intros Hd. destruct (d123 d Hd) as [->|[->| ->]]; destruct lg; repeat split; intros; try reflexivity; try lia.
Qed.

Lemma lower_none_outer lg d a b : 1 <= d <= 3 -> lower lg d (GOp2 OOuter a b) = None.
Proof. intros Hd. apply lower_none_op2. change (op2_name OOuter) with "Outer". destruct (absent_classes lg d Hd) as (H & _). exact H. Qed.
Lemma lower_none_convect lg d a b : 1 <= d <= 3 -> lower lg d (GOp2 OConvect a b) = None.
Proof. intros Hd. apply lower_none_op2. change (op2_name OConvect) with "Convect". destruct (absent_classes lg d Hd) as (_ & H & _). exact H. Qed.
Lemma lower_none_rot lg d a : d = 1 \/ d = 3 -> lower lg d (GOp1 ORot a) = None.
Proof.
  intros Hd. apply lower_none_op1. change (op1_name ORot) with "Rot". assert (H13 : 1 <= d <= 3) by lia.
  destruct (absent_classes lg d H13) as (_ & _ & H & _). assert (H2 : d <> 2) by lia. destruct (H H2) as [H3 _]. exact H3.
Qed.
Lemma lower_none_bracket lg d a b : d = 1 \/ d = 3 -> lower lg d (GOp2 OBracket a b) = None.
Proof.
  intros Hd. apply lower_none_op2. change (op2_name OBracket) with "Bracket". assert (H13 : 1 <= d <= 3) by lia.
  destruct (absent_classes lg d H13) as (_ & _ & H & _). assert (H2 : d <> 2) by lia. destruct (H H2) as [_ H3]. exact H3.
Qed.
Lemma lower_none_1d lg a b : lower lg 1 (GOp1 OCurl a) = None /\ lower lg 1 (GOp2 OCross a b) = None.
Proof.
  assert (H13 : 1 <= 1 <= 3) by lia. destruct (absent_classes lg 1 H13) as (_ & _ & _ & H). destruct (H eq_refl) as (H1 & H2).
  split.
  - apply lower_none_op1. exact H1.
  - apply lower_none_op2. exact H2.
Qed.

(* ============================================================ dimension 1: totality is still false *)
(* 1-D (known finding C01-1d-vector-as-scalar): Grad_1d of a scalar is a bare scalar expression while a
   vector function is a 1 x 1 matrix: F + grad(f) is supported but the sum raises TypeError.
   (Historical note: before the repairs 14cf28b and 1e0454e the unguarded soundness and totality statements
   were also refuted in 2-D / 3-D - lower_sound_refuted_dot_matrix, lower_sound_refuted_cross_tuple,
   lower_total_refuted with f*cross(F,G), cross(F,G)+curl(H), dot(B,cross(F,G)), dot_2d_matrix_arm_refuted;
   those witnesses now lower correctly, see repaired_witnesses below.) *)
Definition gF := GVF "F". Definition gG := GVF "G". Definition gH := GVF "H". Definition gB := GVF "B".
Definition gf := GSF "f".

Theorem lower_total_1d_refuted :
  supported true 1 (GAdd [GOp1 OGrad gf; gF]) = true /\ lower true 1 (GAdd [GOp1 OGrad gf; gF]) = None /\
  supported false 1 (GOp1 ODiv (GMul [gf; GOp1 OGrad gf])) = true /\ lower false 1 (GOp1 ODiv (GMul [gf; GOp1 OGrad gf])) = None.
Proof. repeat split; vm_compute; reflexivity. Qed.

(* the former defect witnesses: supported, lowered, and equal to the classical value (checked here by the
   verified checker on the model; in general by lower_sound_supported) *)
Definition former_witnesses : list (nat * gexpr) :=
  [(2, GOp2 ODot gG (GOp1 OGrad gF)); (3, GOp2 ODot gG (GOp1 OGrad gF));
   (3, GMul [GNum 2 1; GOp2 OCross gF gG]); (3, GMul [gf; GOp2 OCross gF gG]);
   (3, GAdd [GOp2 OCross gF gG; GOp1 OCurl gH]); (3, GOp2 ODot gB (GOp2 OCross gF gG));
   (3, GAdd [GOp1 OLaplace (GOp2 OCross gF gG); gF])].

Lemma repaired_witnesses :
  forallb (fun de => supported false (fst de) (snd de) &&
                     match lower false (fst de) (snd de), gden false (fst de) (snd de) with
                     | Some t, Some r => teqv t r
                     | _, _ => false
                     end) former_witnesses = true.
Proof. vm_compute. reflexivity. Qed.

(* ============================================================ non-vacuity *)
(* a concrete 3-D tree with nested operators: div(f grad g) + dot(curl F, curl G) + 2 laplace(f);
   every hypothesis of the theorems holds for it in EVERY differential field *)
Definition ex3 : gexpr :=
  GAdd [GOp1 ODiv (GMul [gf; GOp1 OGrad (GSF "g")]);
        GOp2 ODot (GOp1 OCurl gF) (GOp1 OCurl gG);
        GMul [GNum 2 1; GOp1 OLaplace gf]].

Lemma ex3_hyps : supported false 3 ex3 = true /\ regular false 3 ex3 = true /\
  (exists t, lower false 3 ex3 = Some t) /\ (exists r, gden false 3 ex3 = Some r).
Proof. repeat split; try (vm_compute; reflexivity); eexists; vm_compute; reflexivity. Qed.

Ltac poly_dfd :=
  let t := fresh "t" in let H := fresh "H" in
  intros t H; vm_compute in H; inversion H; subst; clear H; unfold P1.tdfd; cbn [flat concat app];
  repeat (apply Forall_cons || apply Forall_nil); cbn; tauto.

Lemma ex3_defined (S : dfield) : gdef S false 3 ex3.
Proof. unfold ex3, gf, gF, gG. cbn [gdef]. repeat split; poly_dfd. Qed.

Example lower_sound_nonvacuous (S : dfield) :
  exists t r, lower false 3 ex3 = Some t /\ gden false 3 ex3 = Some r /\ P1.tens_eq S t r.
Proof.
  destruct ex3_hyps as (_ & Hr & (t & Ht) & (r & Hg)). exists t, r.
  split; [exact Ht|]. split; [exact Hg|].
  assert (Hd : 1 <= 3 <= 3) by lia.
  exact (lower_sound_partial S false 3 ex3 t r Hd Hr (ex3_defined S) Ht Hg).
Qed.
End P8.
Export P8.

(* ==================================================================================================== *)
(* Poly: division-free trees are defined in every differential field (no hypothesis); lower_sound_poly *)
Module P9.
(* ============================================================ the division-free fragment needs no hypothesis *)
(* polynomial terminal expressions: defined in every differential field *)
Fixpoint tpolyb (t : texpr) : bool :=
  match t with
  | TZ _ | TAt _ => true
  | TAdd a b | TSub a b | TMul a b => tpolyb a && tpolyb b
  | TOpp a | TPowN a _ => tpolyb a
  | _ => false
  end.

Lemma tpoly_dfd (S : dfield) t : tpolyb t = true -> dfd S t.
Proof.
  induction t; simpl; intros H; try discriminate; auto;
    try (apply andb_true_iff in H; destruct H; split; auto).
Qed.

Lemma tD_poly lg i t : forall t', tpolyb t = true -> tD lg i t = Some t' -> tpolyb t' = true.
Proof.
  induction t; simpl; intros t' H E; try discriminate.
  - inversion E. reflexivity.
  - destruct a; simpl in E;
      repeat match goal with H : (if ?c then _ else _) = Some _ |- _ => destruct c; try discriminate end;
      inversion E; try reflexivity. destruct (Nat.eqb i i0 && Nat.ltb i0 3)%nat; reflexivity.
  - apply andb_true_iff in H. destruct H as [H1 H2].
    destruct (tD lg i t1) eqn:E1; [|discriminate]. destruct (tD lg i t2) eqn:E2; [|discriminate]. inversion E.
    simpl. now rewrite (IHt1 _ H1 eq_refl), (IHt2 _ H2 eq_refl).
  - apply andb_true_iff in H. destruct H as [H1 H2].
    destruct (tD lg i t1) eqn:E1; [|discriminate]. destruct (tD lg i t2) eqn:E2; [|discriminate]. inversion E.
    simpl. now rewrite (IHt1 _ H1 eq_refl), (IHt2 _ H2 eq_refl).
  - apply andb_true_iff in H. destruct H as [H1 H2].
    destruct (tD lg i t1) eqn:E1; [|discriminate]. destruct (tD lg i t2) eqn:E2; [|discriminate]. inversion E.
    simpl. now rewrite (IHt1 _ H1 eq_refl), (IHt2 _ H2 eq_refl), H1, H2.
  - destruct (tD lg i t) eqn:E1; [|discriminate]. inversion E. simpl. now apply IHt.
  - destruct n.
    + inversion E. reflexivity.
    + destruct (tD lg i t) eqn:E1; [|discriminate]. inversion E. simpl. now rewrite H, (IHt _ H eq_refl).
Qed.

Lemma tDn_poly lg i n : forall t t', tpolyb t = true -> tDn lg i n t = Some t' -> tpolyb t' = true.
Proof.
  induction n; simpl; intros t t' H E.
  - inversion E. now subst.
  - destruct (tDn lg i n t) as [u|] eqn:E1; [|discriminate]. exact (tD_poly lg i u t' (IHn t u H E1) E).
Qed.

Lemma tDs_poly lg al : forall i t t', tpolyb t = true -> tDs lg i al t = Some t' -> tpolyb t' = true.
Proof.
  induction al as [|a r IH]; simpl; intros i t t' H E.
  - inversion E. now subst.
  - destruct (tDs lg (S i) r t) as [u|] eqn:E1; [|discriminate]. exact (tDn_poly lg i a u t' (IH (S i) t u H E1) E).
Qed.

Definition tens_poly (t : tensor) : Prop := Forall (fun x => tpolyb x = true) (flat t).

Lemma tsubst_poly env : (forall f c x, elookup env f c = Some x -> tpolyb x = true) ->
  forall T t, tsubst env T = Some t -> tpolyb t = true.
Proof.
  intros He. induction T; intros t E; simpl in E; try discriminate.
  - inversion E. reflexivity.
  - destruct a as [| |lg f c s al| |]; try discriminate. destruct s; try discriminate.
    destruct (elookup env f c) eqn:El; [|discriminate]. eapply tDs_poly; eauto.
  - destruct (tsubst env T1) eqn:E1; [|discriminate]. destruct (tsubst env T2) eqn:E2; [|discriminate]. inversion E.
    simpl. now rewrite (IHT1 _ eq_refl), (IHT2 _ eq_refl).
  - destruct (tsubst env T1) eqn:E1; [|discriminate]. destruct (tsubst env T2) eqn:E2; [|discriminate]. inversion E.
    simpl. now rewrite (IHT1 _ eq_refl), (IHT2 _ eq_refl).
  - destruct (tsubst env T1) eqn:E1; [|discriminate]. destruct (tsubst env T2) eqn:E2; [|discriminate]. inversion E.
    simpl. now rewrite (IHT1 _ eq_refl), (IHT2 _ eq_refl).
  - destruct (tsubst env T) eqn:E1; [|discriminate]. inversion E. simpl. now apply IHT.
  - destruct (tsubst env T) eqn:E1; [|discriminate]. inversion E. simpl. now apply IHT.
Qed.

Lemma tens_map_poly env T t : (forall f c x, elookup env f c = Some x -> tpolyb x = true) ->
  tens_map (tsubst env) T = Some t -> tens_poly t.
Proof.
  intros He H. destruct (tens_map_shape _ _ _ H) as (_ & _ & F). unfold tens_poly.
  clear H. induction F; constructor; auto. eapply tsubst_poly; eauto.
Qed.

Lemma mapi_from_lookup {A} (P : texpr -> Prop) (g : nat -> A -> string * nat * texpr) (l : list A) :
  (forall i a, In a l -> P (snd (g i a))) -> forall n f c x, elookup (mapi_from g n l) f c = Some x -> P x.
Proof.
  induction l as [|a l IH]; simpl; intros Hg n f c x E; [discriminate|].
  destruct (g n a) as [[f' c'] y] eqn:Eg.
  destruct (String.eqb f f' && Nat.eqb c c').
  - inversion E. subst. specialize (Hg n a (or_introl eq_refl)). now rewrite Eg in Hg.
  - eapply IH; eauto.
Qed.

Lemma elookup_app_P (P : texpr -> Prop) e1 e2 :
  (forall f c x, elookup e1 f c = Some x -> P x) -> (forall f c x, elookup e2 f c = Some x -> P x) ->
  forall f c x, elookup (e1 ++ e2)%list f c = Some x -> P x.
Proof.
  intros H1 H2 f c x E. destruct (elookup e1 f c) as [y|] eqn:E1.
  - rewrite (elookup_app_l _ e2 _ _ _ E1) in E. inversion E. subst. eauto.
  - rewrite (elookup_app_r _ e2 _ _ E1) in E. eauto.
Qed.

Lemma env_of_poly second k t : tens_poly t -> forall f c x, elookup (env_of second k t) f c = Some x -> tpolyb x = true.
Proof.
  unfold tens_poly. intros Hp. destruct t as [y|l|M]; unfold env_of; destruct (gnames second) as [[sn vn] mn]; simpl in Hp.
  - intros f c x E. simpl in E. destruct (String.eqb f sn && Nat.eqb c 0); [|discriminate]. inversion E. subst. now inversion Hp.
  - unfold mapi. apply mapi_from_lookup. intros i a Ha. simpl. rewrite Forall_forall in Hp. auto.
  - destruct (String.eqb k "c").
    + unfold mapi. apply mapi_from_lookup. intros i r Hr. simpl.
      destruct r as [|a r]; [reflexivity|]. simpl. rewrite Forall_forall in Hp. apply Hp. apply in_concat. exists (a :: r). simpl. auto.
    + unfold mapi.
      assert (G : forall n f c x,
                 elookup (concat (mapi_from (fun i r => mapi_from (fun j x0 => (mn ++ dig i ++ dig j, 0, x0)) 0 r) n M)) f c = Some x ->
                 tpolyb x = true).
      { induction M as [|r M IH]; intros n f c x E; simpl in E; [discriminate|].
        revert f c x E. apply elookup_app_P.
        - apply mapi_from_lookup. intros j a Ha. simpl. rewrite Forall_forall in Hp. apply Hp. simpl. apply in_or_app. auto.
        - apply IH. simpl in Hp. apply Forall_app in Hp. tauto. }
      apply G.
Qed.

Lemma apply1_poly lg o d ta t : tens_poly ta -> apply1 lg o d ta = Some t -> tens_poly t.
Proof.
  intros Hp H. unfold apply1 in H.
  destruct (class_name lg (op1_name o) d); [|discriminate]. destruct (kind_of d ta) as [k|]; [|discriminate].
  destruct (table_of s k) as [[T|?|?]|]; try discriminate.
  eapply tens_map_poly; [|exact H]. now apply env_of_poly.
Qed.

Lemma apply2_poly lg o d ta tb t : tens_poly ta -> tens_poly tb -> apply2 lg o d ta tb = Some t -> tens_poly t.
Proof.
  intros Hpa Hpb H. unfold apply2 in H.
  destruct (class_name lg (op2_name o) d); [|discriminate]. destruct (kind_of d ta) as [ka|]; [|discriminate].
  destruct (kind_of d tb) as [kb|]; [|discriminate].
  destruct (table_of s (ka ++ kb)) as [[T|?|?]|]; try discriminate.
  eapply tens_map_poly; [|exact H]. apply elookup_app_P; now apply env_of_poly.
Qed.

Ltac inv1 := repeat match goal with H : Forall _ (_ :: _) |- _ => inversion H; subst; clear H end.
Ltac rw := simpl; repeat match goal with H : tpolyb ?x = true |- context [tpolyb ?x] => rewrite H end; auto.

(* arithmetic *)
Lemma poly_zipw l m : Forall (fun x => tpolyb x = true) l -> Forall (fun x => tpolyb x = true) m ->
  Forall (fun x => tpolyb x = true) (zipw TAdd l m).
Proof. intros H. revert m. induction H; intros m Hm; simpl; auto. destruct Hm; simpl; auto. constructor; auto. simpl. now rewrite H, H1. Qed.

Lemma poly_tsum l : Forall (fun x => tpolyb x = true) l -> tpolyb (Classical.tsum l) = true.
Proof.
  induction 1 as [|a l Ha Hl IH]; [reflexivity|]. destruct l as [|b l]; [exact Ha|].
  change (tpolyb (TAdd a (Classical.tsum (b :: l))) = true). simpl in *. now rewrite Ha, IH.
Qed.

Lemma poly_zipmul l m : Forall (fun x => tpolyb x = true) l -> Forall (fun x => tpolyb x = true) m ->
  Forall (fun x => tpolyb x = true) (zipmul l m).
Proof. intros H. revert m. induction H; intros m Hm; simpl; auto. destruct Hm; simpl; auto. constructor; auto. simpl. now rewrite H, H1. Qed.

Lemma poly_concat_zipw A : forall B, Forall (fun x => tpolyb x = true) (concat A) -> Forall (fun x => tpolyb x = true) (concat B) ->
  Forall (fun x => tpolyb x = true) (concat (zipw (zipw TAdd) A B)).
Proof.
  induction A as [|a A IH]; intros [|b B] HA HB; simpl in *; auto.
  apply Forall_app in HA. apply Forall_app in HB. apply Forall_app. split; [apply poly_zipw; tauto|apply IH; tauto].
Qed.

Lemma poly_repeat l n : Forall (fun x => tpolyb x = true) l -> Forall (fun x => tpolyb x = true) (repeat_app l n).
Proof. intros H. induction n; simpl; auto. apply Forall_app. auto. Qed.

Lemma poly_map_rows (g : texpr -> texpr) M : (forall x, tpolyb x = true -> tpolyb (g x) = true) ->
  Forall (fun x => tpolyb x = true) (concat M) -> Forall (fun x => tpolyb x = true) (concat (map (map g) M)).
Proof.
  intros Hg. induction M as [|r M IH]; simpl; intros H; auto. apply Forall_app in H. apply Forall_app. split; [|apply IH; tauto].
  destruct H as [H _]. induction H; simpl; auto.
Qed.

Lemma poly_rows_in M r : Forall (fun x => tpolyb x = true) (concat M) -> In r M -> Forall (fun x => tpolyb x = true) r.
Proof. intros H Hr. apply Forall_forall. intros x Hx. rewrite Forall_forall in H. apply H. apply in_concat. eauto. Qed.

Lemma poly_col M j : Forall (fun x => tpolyb x = true) (concat M) -> Forall (fun x => tpolyb x = true) (col M j).
Proof.
  intros H. unfold col. apply Forall_forall. intros x Hx. apply in_map_iff in Hx. destruct Hx as (r & <- & Hr).
  pose proof (poly_rows_in M r H Hr) as Hrow. clear - Hrow. revert j. induction Hrow; intros [|j]; simpl; auto.
Qed.

Lemma ladd_poly t1 t2 t : tens_poly t1 -> tens_poly t2 -> ladd t1 t2 = Some t -> tens_poly t.
Proof.
  unfold tens_poly. intros H1 H2 E. destruct t1 as [x|l|A], t2 as [y|m|B]; cbn [ladd flat] in *; try discriminate.
  - inversion E. simpl. inv1. constructor; auto. rw.
  - inversion E. simpl. apply Forall_app. auto.
  - destruct (Nat.eqb (fst (dims A)) (fst (dims B)) && Nat.eqb (snd (dims A)) (snd (dims B)) && rect A && rect B); [|discriminate].
    inversion E. simpl. now apply poly_concat_zipw.
Qed.

Lemma lmul_poly t1 t2 t : tens_poly t1 -> tens_poly t2 -> lmul t1 t2 = Some t -> tens_poly t.
Proof.
  unfold tens_poly. intros H1 H2 E. destruct t1 as [x|l|A], t2 as [y|m|B].
  - rewrite lmul_ss in E. inversion E. simpl in *. inv1. constructor; auto. rw.
  - cbn [lmul] in E. destruct x; try discriminate. inversion E. cbn [flat] in *. now apply poly_repeat.
  - rewrite lmul_sm in E. inversion E. cbn [flat] in *. inv1. apply poly_map_rows; auto. intros z Hz. rw.
  - cbn [lmul] in E. destruct y; try discriminate. inversion E. cbn [flat] in *. now apply poly_repeat.
  - discriminate.
  - discriminate.
  - rewrite lmul_ms in E. inversion E. cbn [flat] in *. inv1. apply poly_map_rows; auto. intros z Hz. rw.
  - discriminate.
  - cbn [lmul] in E. destruct (Nat.eqb (snd (dims A)) (fst (dims B)) && rect A && rect B); [|discriminate]. inversion E. cbn [flat] in *.
    unfold matmul. apply Forall_forall. intros z Hz. apply in_concat in Hz. destruct Hz as (row & Hrow & Hz).
    apply in_map_iff in Hrow. destruct Hrow as (ra & <- & Hra). apply in_map_iff in Hz. destruct Hz as (j & <- & _).
    apply poly_tsum. apply poly_zipmul; [exact (poly_rows_in A ra H1 Hra)|now apply poly_col].
Qed.

Lemma tadd_poly r1 r2 r : tens_poly r1 -> tens_poly r2 -> tadd r1 r2 = Some r -> tens_poly r.
Proof.
  unfold tens_poly. intros H1 H2 E. destruct r1 as [x|l|A], r2 as [y|m|B]; cbn [tadd flat] in *; try discriminate.
  - inversion E. simpl. inv1. constructor; auto. rw.
  - destruct (Nat.eqb (length l) (length m)); [|discriminate]. inversion E. simpl. now apply poly_zipw.
  - destruct (Nat.eqb (fst (dims A)) (fst (dims B)) && Nat.eqb (snd (dims A)) (snd (dims B)) && rect A && rect B); [|discriminate].
    inversion E. simpl. now apply poly_concat_zipw.
Qed.

Lemma poly_map (g : texpr -> texpr) l : (forall x, tpolyb x = true -> tpolyb (g x) = true) ->
  Forall (fun x => tpolyb x = true) l -> Forall (fun x => tpolyb x = true) (map g l).
Proof. intros Hg H. induction H; simpl; auto. Qed.

Lemma tmul_poly r1 r2 r : tens_poly r1 -> tens_poly r2 -> tmul r1 r2 = Some r -> tens_poly r.
Proof.
  unfold tens_poly. destruct r1 as [x|l|A], r2 as [y|m|B]; simpl; intros H1 H2 E; try discriminate; inversion E; simpl.
  - inv1. constructor; auto. rw.
  - inv1. apply poly_map; auto. intros z Hz. rw.
  - inv1. apply poly_map_rows; auto. intros z Hz. rw.
  - inv1. apply poly_map; auto. intros z Hz. rw.
  - inv1. apply poly_map_rows; auto. intros z Hz. rw.
Qed.

(* the classical operators: instance 2 of the parametric congruence (same term, polynomial) *)
Definition Rp (x y : texpr) : Prop := x = y /\ tpolyb x = true.

Lemma Rp_tD lg i x y x' y' : Rp x y -> tD lg i x = Some x' -> tD lg i y = Some y' -> Rp x' y'.
Proof. intros [-> P] H1 H2. rewrite H1 in H2. inversion H2. subst. split; [reflexivity|]. exact (tD_poly lg i y y' P H1). Qed.
Lemma Rp_zero : Rp (TZ 0) (TZ 0). Proof. split; reflexivity. Qed.
Lemma Rp_add a b c d : Rp a b -> Rp c d -> Rp (TAdd a c) (TAdd b d).
Proof. intros [-> P1] [-> P2]. split; auto. simpl. now rewrite P1, P2. Qed.
Lemma Rp_sub a b c d : Rp a b -> Rp c d -> Rp (TSub a c) (TSub b d).
Proof. intros [-> P1] [-> P2]. split; auto. simpl. now rewrite P1, P2. Qed.
Lemma Rp_mul a b c d : Rp a b -> Rp c d -> Rp (TMul a c) (TMul b d).
Proof. intros [-> P1] [-> P2]. split; auto. simpl. now rewrite P1, P2. Qed.
Lemma Rp_opp a b : Rp a b -> Rp (TOpp a) (TOpp b).
Proof. intros [-> P1]. split; auto. Qed.

Lemma Rp_refl_list l : Forall (fun x => tpolyb x = true) l -> Forall2 Rp l l.
Proof. induction 1; constructor; auto. split; auto. Qed.

Lemma TRp_refl t : tens_poly t -> TRs_gen Rp t t.
Proof.
  unfold tens_poly. destruct t as [x|l|M]; simpl; intros H.
  - inversion H. split; auto.
  - now apply Rp_refl_list.
  - induction M as [|r M IH]; constructor.
    + apply Rp_refl_list. simpl in H. apply Forall_app in H. tauto.
    + apply IH. simpl in H. apply Forall_app in H. tauto.
Qed.

Lemma TRp_poly t r : TRs_gen Rp t r -> tens_poly r.
Proof.
  intros H. destruct (TRs_shape_gen Rp t r H) as (_ & _ & F). unfold tens_poly.
  clear H. induction F as [|a b l m [-> P] _ IH]; constructor; auto.
Qed.

Lemma cl1_poly lg o d a r : tens_poly a -> cl1 lg o d a = Some r -> tens_poly r.
Proof.
  intros Hp H. apply (TRp_poly r r).
  eapply (cl1_congr_gen Rp); [..|exact (TRp_refl a Hp)|exact H|exact H];
    first [exact Rp_tD|exact Rp_zero|exact Rp_add|exact Rp_sub|exact Rp_mul|exact Rp_opp].
Qed.

Lemma cl2_poly lg o d a b r : tens_poly a -> tens_poly b -> cl2 lg o d a b = Some r -> tens_poly r.
Proof.
  intros Hpa Hpb H. apply (TRp_poly r r).
  eapply (cl2_congr_gen Rp); [..|exact (TRp_refl a Hpa)|exact (TRp_refl b Hpb)|exact H|exact H];
    first [exact Rp_tD|exact Rp_zero|exact Rp_add|exact Rp_sub|exact Rp_mul|exact Rp_opp].
Qed.

(* ------------------------------------------------------------ the division-free trees *)
Fixpoint gpoly (e : gexpr) {struct e} : bool :=
  let all := fix all (l : list gexpr) : bool := match l with [] => true | x :: r => gpoly x && all r end in
  match e with
  | GNum _ q => Pos.eqb q 1                         (* integer literals *)
  | GConst _ | GCoord _ _ | GSF _ | GVF _ | GComp _ _ => true
  | GAdd l | GMul l => all l
  | GPow b (GNum (Zpos _) 1%positive) => gpoly b    (* positive integer powers *)
  | GPow _ _ => false
  | GFn _ _ => false
  | GOp1 _ a => gpoly a
  | GOp2 _ a b => gpoly a && gpoly b
  | GTup _ | GMat _ _ _ => false
  end.

Lemma gpoly_list l :
  (fix all (l : list gexpr) : bool := match l with [] => true | x :: r => gpoly x && all r end) l = forallb gpoly l.
Proof. apply all_fix. Qed.

Lemma fold_poly (f : tensor -> tensor -> option tensor) :
  (forall a b c, tens_poly a -> tens_poly b -> f a b = Some c -> tens_poly c) ->
  forall ts t, Forall tens_poly ts -> fold1 f ts = Some t -> tens_poly t.
Proof.
  intros Hf ts t HF H. destruct ts as [|x ts]; [discriminate|]. simpl in H.
  assert (Hx : tens_poly x) by (inversion HF; auto). assert (Hts : Forall tens_poly ts) by (inversion HF; auto). clear HF.
  revert x Hx H. induction Hts as [|y ts Hy Hts IH]; intros x Hx H; simpl in H.
  - inversion H. now subst.
  - destruct (f x y) as [z|] eqn:E.
    + apply (IH z); auto. exact (Hf x y z Hx Hy E).
    + exfalso. rewrite fold_none in H. discriminate.
Qed.

Lemma seq_Forall {A B} (f : A -> option B) (P : B -> Prop) l r :
  Forall (fun a => forall b, f a = Some b -> P b) l -> sequence (map f l) = Some r -> Forall P r.
Proof.
  intros H. revert r. induction H as [|a l Ha Hl IH]; simpl; intros r E.
  - inversion E. constructor.
  - destruct (f a) eqn:E1; [|discriminate]. destruct (sequence (map f l)) eqn:E2; [|discriminate]. inversion E. constructor; auto.
Qed.

Lemma poly_vals lg d e : gpoly e = true ->
  (forall t, lower lg d e = Some t -> tens_poly t) /\ (forall r, gden lg d e = Some r -> tens_poly r).
Proof.
  induction e as [p q|n|l i|n|n|n i|l IHl|l IHl|b x IHb IHx|f a IHa|o a IHa|o a b IHa IHb|l IHl|rr cc l IHl] using gexpr_ind';
    intros Hp.
  - cbn [gpoly] in Hp. apply Pos.eqb_eq in Hp. subst. split; intros t H; inversion H; repeat constructor.
  - split; intros t H; inversion H; repeat constructor.
  - split; intros t H; simpl in H; [|destruct (Nat.ltb i d); [|discriminate]]; inversion H; repeat constructor.
  - split; intros t H; inversion H; repeat constructor.
  - split; intros t H; cbn [lower gden] in H; inversion H; unfold tens_poly; cbn [flat]; apply Forall_forall; intros x Hx.
    + apply in_concat in Hx. destruct Hx as (r & Hr & Hx). apply in_map_iff in Hr. destruct Hr as (i & <- & _).
      destruct Hx as [<-|[]]. reflexivity.
    + apply in_map_iff in Hx. destruct Hx as (i & <- & _). reflexivity.
  - split; intros t H; simpl in H; [|destruct (Nat.ltb i d); [|discriminate]]; inversion H; repeat constructor.
  - (* Add *)
    cbn [gpoly] in Hp. rewrite gpoly_list in Hp. rewrite forallb_forall in Hp.
    assert (HI : Forall (fun x => (forall t, lower lg d x = Some t -> tens_poly t) /\ (forall r, gden lg d x = Some r -> tens_poly r)) l).
    { rewrite Forall_forall in *. intros x Hx. apply IHl; auto. }
    split; intros t H.
    + rewrite lower_add in H. destruct (sequence (map (lower lg d) l)) as [ts|] eqn:E; [|discriminate].
      eapply (fold_poly ladd ladd_poly); [|exact H]. eapply seq_Forall; [|exact E].
      eapply Forall_impl; [|exact HI]. intros a [A _]. exact A.
    + rewrite gden_add in H. destruct (sequence (map (gden lg d) l)) as [ts|] eqn:E; [|discriminate].
      eapply (fold_poly tadd tadd_poly); [|exact H]. eapply seq_Forall; [|exact E].
      eapply Forall_impl; [|exact HI]. intros a [_ A]. exact A.
  - (* Mul *)
    cbn [gpoly] in Hp. rewrite gpoly_list in Hp. rewrite forallb_forall in Hp.
    assert (HI : Forall (fun x => (forall t, lower lg d x = Some t -> tens_poly t) /\ (forall r, gden lg d x = Some r -> tens_poly r)) l).
    { rewrite Forall_forall in *. intros x Hx. apply IHl; auto. }
    split; intros t H.
    + rewrite lower_mul in H. destruct (sequence (map (lower lg d) l)) as [ts|] eqn:E; [|discriminate].
      eapply (fold_poly lmul lmul_poly); [|exact H]. eapply seq_Forall; [|exact E].
      eapply Forall_impl; [|exact HI]. intros a [A _]. exact A.
    + rewrite gden_mul in H. destruct (sequence (map (gden lg d) l)) as [ts|] eqn:E; [|discriminate].
      eapply (fold_poly tmul tmul_poly); [|exact H]. eapply seq_Forall; [|exact E].
      eapply Forall_impl; [|exact HI]. intros a [_ A]. exact A.
  - (* positive integer power *)
    cbn [gpoly] in Hp. destruct x as [z q| | | | | | | | | | | | |]; try discriminate.
    destruct z as [|n|n]; try discriminate. destruct q; try discriminate.
    destruct (IHb Hp) as [B1 B2]. split; intros t H; cbn [lower gden] in H.
    + destruct (lower lg d b) as [tb|]; [|discriminate]. specialize (B1 tb eq_refl).
      destruct tb as [y| |]; simpl in H; try discriminate. inversion H. unfold tens_poly in *. simpl in *. inv1. constructor; auto.
    + destruct (gden lg d b) as [tb|]; [|discriminate]. specialize (B2 tb eq_refl).
      destruct tb as [y| |]; simpl in H; try discriminate. inversion H. unfold tens_poly in *. simpl in *. inv1. constructor; auto.
  - discriminate.
  - cbn [gpoly] in Hp. destruct (IHa Hp) as [A1 A2]. split; intros t H; cbn [lower gden] in H.
    + destruct (lower lg d a) as [ta|]; [|discriminate]. exact (apply1_poly lg o d ta t (A1 ta eq_refl) H).
    + destruct (gden lg d a) as [ta|]; [|discriminate]. exact (cl1_poly lg o d ta t (A2 ta eq_refl) H).
  - cbn [gpoly] in Hp. apply andb_true_iff in Hp. destruct Hp as [P1 P2].
    destruct (IHa P1) as [A1 A2]. destruct (IHb P2) as [B1 B2]. split; intros t H; cbn [lower gden] in H.
    + destruct (lower lg d a) as [ta|]; [|discriminate]. destruct (lower lg d b) as [tb|]; [|discriminate]. exact (apply2_poly lg o d ta tb t (A1 ta eq_refl) (B1 tb eq_refl) H).
    + destruct (gden lg d a) as [ta|]; [|discriminate]. destruct (gden lg d b) as [tb|]; [|discriminate]. exact (cl2_poly lg o d ta tb t (A2 ta eq_refl) (B2 tb eq_refl) H).
  - discriminate.
  - discriminate.
Qed.

Lemma tens_poly_dfd (S : dfield) t : tens_poly t -> P1.tdfd S t.
Proof. unfold tens_poly, P1.tdfd. intros H. eapply Forall_impl; [|exact H]. intros x. apply tpoly_dfd. Qed.

Theorem gdef_poly (S : dfield) lg d e : gpoly e = true -> gdef S lg d e.
Proof.
  induction e as [p q|n|l i|n|n|n i|l IHl|l IHl|b x IHb IHx|f a IHa|o a IHa|o a b IHa IHb|l IHl|rr cc l IHl] using gexpr_ind';
    intros Hp;
    (split; [intros t H; apply tens_poly_dfd; eapply (proj1 (poly_vals lg d _ Hp)); eauto|]);
    (split; [intros t H; apply tens_poly_dfd; eapply (proj2 (poly_vals lg d _ Hp)); eauto|]); try exact I; try discriminate.
  - apply gdef_all. cbn [gpoly] in Hp. rewrite gpoly_list in Hp. rewrite forallb_forall in Hp.
    rewrite Forall_forall in *. auto.
  - apply gdef_all. cbn [gpoly] in Hp. rewrite gpoly_list in Hp. rewrite forallb_forall in Hp.
    rewrite Forall_forall in *. auto.
  - cbn [gpoly] in Hp. destruct x as [z q| | | | | | | | | | | | |]; try discriminate.
    destruct z as [|n|n]; try discriminate. destruct q; try discriminate. split; [auto|].
    apply IHx. reflexivity.
  - cbn [gpoly] in Hp. auto.
  - cbn [gpoly] in Hp. apply andb_true_iff in Hp. destruct Hp. split; auto.
Qed.

(* division-free trees: no definedness hypothesis at all *)
Theorem lower_sound_poly (S : dfield) lg d e t r :
  1 <= d <= 3 -> gpoly e = true -> regular lg d e = true ->
  lower lg d e = Some t -> gden lg d e = Some r -> P1.tens_eq S t r.
Proof. intros Hd Hp Hr. apply lower_sound_partial; auto. now apply gdef_poly. Qed.
End P9.
Export P9.
