(* Lemmas about the model of derivative-atom naming and order bookkeeping (C17). *)
From Coq Require Import String Ascii List Bool Arith PeanoNat Permutation Lia DecimalString DecimalNat Decimal.
From V Require Import Model.NamesM.
Import ListNotations.
Open Scope string_scope.

(* ================================================================== induction principle for the nested type *)
Section ExprInd.
  Variable P : expr -> Prop.
  Hypothesis HNum : forall s, P (Num s).
  Hypothesis HSym : forall s, P (Sym s).
  Hypothesis HVec : forall n, P (Vec n).
  Hypothesis HChain : forall ops a, P (Chain ops a).
  Hypothesis HAdd : forall l, Forall P l -> P (Add l).
  Hypothesis HMul : forall l, Forall P l -> P (Mul l).
  Hypothesis HPow : forall b e, P b -> P e -> P (Pow b e).
  Hypothesis HFn : forall f l, Forall P l -> P (Fn f l).
  Hypothesis HTup : forall l, Forall P l -> P (Tup l).
  Hypothesis HSeq : forall l, Forall P l -> P (Seq l).
  Hypothesis HMat : forall imm rows, Forall (Forall P) rows -> P (Mat imm rows).
  Hypothesis HSide : forall p e, P e -> P (Side p e).
  Hypothesis HGeo : forall g, P (Geo g).
  Hypothesis HIBase : forall s, P (IBase s).
  Hypothesis HIdxS : forall s, P (IdxS s).
  Hypothesis HImI : P ImI.
  Hypothesis HPIdx : forall b i, P (PIdx b i).
  Hypothesis HPB : forall f v e, P e -> P (PB f v e).
  Hypothesis HOpaque : forall b, P (Opaque b).

  Fixpoint expr_ind' (e : expr) : P e :=
    let fix go (l : list expr) : Forall P l :=
      match l with [] => Forall_nil P | x :: r => Forall_cons x (expr_ind' x) (go r) end in
    let fix go2 (rows : list (list expr)) : Forall (Forall P) rows :=
      match rows with [] => Forall_nil _ | r :: rs => Forall_cons r (go r) (go2 rs) end in
    match e with
    | Num s => HNum s
    | Sym s => HSym s
    | Vec n => HVec n
    | Chain ops a => HChain ops a
    | Add l => HAdd l (go l)
    | Mul l => HMul l (go l)
    | Pow b x => HPow b x (expr_ind' b) (expr_ind' x)
    | Fn f l => HFn f l (go l)
    | Tup l => HTup l (go l)
    | Seq l => HSeq l (go l)
    | Mat imm rows => HMat imm rows (go2 rows)
    | Side p x => HSide p x (expr_ind' x)
    | Geo g => HGeo g
    | IBase n => HIBase n
    | IdxS n => HIdxS n
    | ImI => HImI
    | PIdx b i => HPIdx b i
    | PB f v x => HPB f v x (expr_ind' x)
    | Opaque b => HOpaque b
    end.
End ExprInd.

(* ================================================================== outcomes *)
Lemma rmap_rmap {A B C} (g : B -> C) (f : A -> B) r : rmap g (rmap f r) = rmap (fun a => g (f a)) r.
Proof. destruct r; reflexivity. Qed.
Lemma rmap_ext {A B} (f g : A -> B) r : (forall a, f a = g a) -> rmap f r = rmap g r.
Proof. intros H. destruct r; simpl; congruence. Qed.
Lemma rmap_id {A} (f : A -> A) r : (forall a, f a = a) -> rmap f r = r.
Proof. intros H. destruct r; simpl; congruence. Qed.
Lemma rmap_ok {A B} (f : A -> B) r b : rmap f r = Ok b -> exists a, r = Ok a /\ b = f a.
Proof. destruct r; simpl; intros E; inversion E. eauto. Qed.
Lemma rmap_inj {A B} (f : A -> B) r1 r2 : (forall a b, f a = f b -> a = b) -> rmap f r1 = rmap f r2 -> r1 = r2.
Proof. intros H. destruct r1, r2; simpl; intros E; inversion E; try reflexivity. f_equal. auto. Qed.

Lemma mapM_ext_Forall {A B} (f g : A -> res B) l : Forall (fun x => f x = g x) l -> mapM f l = mapM g l.
Proof. induction 1; simpl; [reflexivity|]. rewrite H, IHForall. reflexivity. Qed.

Lemma mapM_ok {A B} (f : A -> res B) l ys : mapM f l = Ok ys -> Forall2 (fun x y => f x = Ok y) l ys.
Proof.
  revert ys. induction l as [|x l IH]; simpl; intros ys E.
  - inversion E. constructor.
  - destruct (f x) eqn:Ex; [|discriminate]. destruct (mapM f l) eqn:El; [|discriminate].
    inversion E. constructor; auto.
Qed.

Lemma mapM_total {A B} (f : A -> res B) l :
  (exists ys, mapM f l = Ok ys) <-> Forall (fun x => exists y, f x = Ok y) l.
Proof.
  induction l as [|x l IH]; simpl.
  - split; [constructor|eauto].
  - split.
    + intros [ys E]. destruct (f x) eqn:Ex; [|discriminate]. destruct (mapM f l) eqn:El; [|discriminate].
      constructor; [eauto|]. apply IH. eauto.
    + intros H. inversion H as [|? ? [y Ey] Hl]. subst. apply IH in Hl. destruct Hl as [ys El].
      rewrite Ey, El. eauto.
Qed.

Lemma mapM_id_Forall {A} (f : A -> res A) l : Forall (fun x => f x = Ok x) l -> mapM f l = Ok l.
Proof. induction 1; simpl; [reflexivity|]. rewrite H, IHForall. reflexivity. Qed.

(* ================================================================== strings *)
Fixpoint cnt (c : ascii) (s : string) : nat :=
  match s with
  | EmptyString => 0
  | String a r => (if Ascii.eqb c a then 1 else 0) + cnt c r
  end.

Lemma cnt_app c s t : cnt c (s ++ t) = cnt c s + cnt c t.
Proof. induction s as [|a s IH]; simpl; [reflexivity|]. rewrite IH. lia. Qed.

Lemma cnt_rep c s n : cnt c (rep s n) = n * cnt c s.
Proof. induction n as [|n IH]; simpl; [reflexivity|]. rewrite cnt_app, IH. lia. Qed.

Lemma app_assoc_s (a b c : string) : (a ++ b) ++ c = a ++ (b ++ c).
Proof. induction a as [|x a IH]; simpl; [reflexivity|]. now rewrite IH. Qed.

Lemma app_nil_r_s (a : string) : a ++ "" = a.
Proof. induction a as [|x a IH]; simpl; [reflexivity|]. now rewrite IH. Qed.

Definition sep : ascii := "_"%char.
(* name hygiene: the separator does not occur *)
Definition nosep (s : string) : Prop := cnt sep s = 0.
(* a suffix is empty or starts with the separator *)
Definition tailok (s : string) : Prop := s = "" \/ exists r, s = String sep r.

Lemma nosep_cons a r : nosep (String a r) -> a <> sep /\ nosep r.
Proof.
  unfold nosep. cbn [cnt]. destruct (Ascii.eqb sep a) eqn:E; [intros H; lia|].
  intros H. split; [|lia]. intros ->. rewrite Ascii.eqb_refl in E. discriminate.
Qed.

(* the base name can be read off a generated name: everything before the first separator *)
Lemma app_nosep_inj : forall n1 n2 s1 s2,
  nosep n1 -> nosep n2 -> tailok s1 -> tailok s2 ->
  n1 ++ s1 = n2 ++ s2 -> n1 = n2 /\ s1 = s2.
Proof.
  induction n1 as [|a n1 IH]; intros [|b n2] s1 s2 H1 H2 T1 T2 E; simpl in E.
  - auto.
  - apply nosep_cons in H2. destruct H2 as [Hb _]. destruct T1 as [-> | [r ->]]; [discriminate|].
    inversion E. congruence.
  - apply nosep_cons in H1. destruct H1 as [Ha _]. destruct T2 as [-> | [r ->]]; [discriminate|].
    inversion E. congruence.
  - inversion E. subst b. apply nosep_cons in H1, H2.
    destruct (IH n2 s1 s2) as [-> ->]; tauto.
Qed.

(* a sharper, pairwise form of hygiene: neither name is the other one followed by the separator and more *)
Definition ext (n m : string) : Prop := exists t, n = m ++ String sep t.

Lemma app_eq_app_s : forall n1 n2 s1 s2 : string,
  n1 ++ s1 = n2 ++ s2 ->
  exists t, (n1 = n2 ++ t /\ s2 = t ++ s1) \/ (n2 = n1 ++ t /\ s1 = t ++ s2).
Proof.
  induction n1 as [|a n1 IH]; intros n2 s1 s2 E; simpl in E.
  - exists n2. right. auto.
  - destruct n2 as [|b n2]; simpl in E.
    + exists (String a n1). left. auto.
    + inversion E. subst b. destruct (IH n2 s1 s2 H1) as [t [[H2 H3]|[H2 H3]]]; exists t; [left|right];
        split; simpl; congruence.
Qed.

Lemma app_ext_inj n1 n2 s1 s2 :
  ~ ext n1 n2 -> ~ ext n2 n1 -> tailok s1 -> tailok s2 ->
  n1 ++ s1 = n2 ++ s2 -> n1 = n2 /\ s1 = s2.
Proof.
  intros X1 X2 T1 T2 E. apply app_eq_app_s in E. destruct E as [t [[H1 H2]|[H1 H2]]].
  - destruct t as [|c t]; [rewrite app_nil_r_s in H1; simpl in H2; auto|].
    exfalso. destruct T2 as [T2|[r T2]]; rewrite T2 in H2; simpl in H2; [discriminate|].
    inversion H2. subst c. apply X1. exists t. exact H1.
  - destruct t as [|c t]; [rewrite app_nil_r_s in H1; simpl in H2; auto|].
    exfalso. destruct T1 as [T1|[r T1]]; rewrite T1 in H2; simpl in H2; [discriminate|].
    inversion H2. subst c. apply X2. exists t. exact H1.
Qed.

Lemma cnt_pos_app c (a b : string) : cnt c (a ++ String c b) <> 0.
Proof. rewrite cnt_app. cbn [cnt]. rewrite Ascii.eqb_refl. lia. Qed.

Lemma nosep_not_ext n m : nosep n -> ~ ext n m.
Proof. intros H [t E]. unfold nosep in H. rewrite E in H. now apply cnt_pos_app in H. Qed.

Definition hd_s (s : string) : option ascii := match s with EmptyString => None | String a _ => Some a end.

Lemma hd_app s t : s <> "" -> hd_s (s ++ t) = hd_s s.
Proof. destruct s; simpl; congruence. Qed.

(* ------------------------------------------------------------------ decimal numerals *)
Definition digitb (a : ascii) : bool :=
  existsb (Ascii.eqb a) ["0"; "1"; "2"; "3"; "4"; "5"; "6"; "7"; "8"; "9"]%char.
Fixpoint all_digits (s : string) : bool :=
  match s with EmptyString => true | String a r => digitb a && all_digits r end.

Lemma string_of_uint_digits d : all_digits (NilEmpty.string_of_uint d) = true.
Proof. induction d; simpl; auto. Qed.

Lemma all_digits_nosep s : all_digits s = true -> nosep s.
Proof.
  unfold nosep. induction s as [|a s IH]; cbn [cnt all_digits]; [reflexivity|].
  intros H. apply andb_true_iff in H. destruct H as [Ha Hs]. rewrite (IH Hs).
  destruct (Ascii.eqb sep a) eqn:E; [|reflexivity].
  apply Ascii.eqb_eq in E. subst a. discriminate.
Qed.

Lemma dec_digits n : all_digits (dec n) = true.
Proof. apply string_of_uint_digits. Qed.

Lemma dec_nosep n : nosep (dec n).
Proof. apply all_digits_nosep, dec_digits. Qed.

Lemma dec_inj n m : dec n = dec m -> n = m.
Proof.
  unfold dec. intros H.
  assert (K : Some (Nat.to_uint n) = Some (Nat.to_uint m)).
  { rewrite <- !NilEmpty.usu. now rewrite H. }
  inversion K as [K']. rewrite <- (Unsigned.of_to n), <- (Unsigned.of_to m). now rewrite K'.
Qed.

Lemma dec_nonempty n : dec n <> "".
Proof.
  intros H. assert (K : dec n = dec 0 -> n = 0) by apply dec_inj.
  unfold dec in H.
  assert (Q : Some (Nat.to_uint n) = Some Nil).
  { rewrite <- NilEmpty.usu. rewrite H. reflexivity. }
  inversion Q as [Q']. assert (n = 0) by (rewrite <- (Unsigned.of_to n), Q'; reflexivity).
  subst n. discriminate H.
Qed.

Lemma dec_hd_digit n : exists a, hd_s (dec n) = Some a /\ digitb a = true.
Proof.
  pose proof (dec_digits n) as D. pose proof (dec_nonempty n) as N.
  destruct (dec n) as [|a r]; [congruence|]. simpl in D. apply andb_true_iff in D.
  exists a. simpl. tauto.
Qed.

(* ------------------------------------------------------------------ derivative codes *)
Definition is0 (t : idx3) : bool := match t with (0, 0, 0) => true | _ => false end.

Lemma is0_true t : is0 t = true <-> t = (0, 0, 0).
Proof. destruct t as [[[|a] [|b]] [|c]]; simpl; split; congruence. Qed.

Lemma cnt_code_phys ch a b c :
  cnt ch (code_phys (a, b, c)) = a * cnt ch "x" + b * cnt ch "y" + c * cnt ch "z".
Proof. unfold code_phys. rewrite !cnt_app, !cnt_rep. lia. Qed.

Lemma cnt_code_log ch a b c :
  cnt ch (code_log (a, b, c)) = a * cnt ch "x1" + b * cnt ch "x2" + c * cnt ch "x3".
Proof. unfold code_log. rewrite !cnt_app, !cnt_rep. lia. Qed.

Lemma code_phys_inj p q : code_phys p = code_phys q -> p = q.
Proof.
  destruct p as [[a b] c], q as [[a' b'] c']. intros H.
  pose proof (f_equal (cnt "x") H) as Hx. pose proof (f_equal (cnt "y") H) as Hy.
  pose proof (f_equal (cnt "z") H) as Hz. rewrite !cnt_code_phys in Hx, Hy, Hz. simpl in Hx, Hy, Hz.
  f_equal; [f_equal|]; lia.
Qed.

Lemma code_log_inj p q : code_log p = code_log q -> p = q.
Proof.
  destruct p as [[a b] c], q as [[a' b'] c']. intros H.
  pose proof (f_equal (cnt "1") H) as H1. pose proof (f_equal (cnt "2") H) as H2.
  pose proof (f_equal (cnt "3") H) as H3. rewrite !cnt_code_log in H1, H2, H3. simpl in H1, H2, H3.
  f_equal; [f_equal|]; lia.
Qed.

(* a physical code never equals a non-empty logical code: the latter contains digits *)
Lemma code_phys_log p l : code_phys p = code_log l -> l = (0, 0, 0).
Proof.
  destruct p as [[a b] c], l as [[a' b'] c']. intros H.
  pose proof (f_equal (cnt "1") H) as H1. pose proof (f_equal (cnt "2") H) as H2.
  pose proof (f_equal (cnt "3") H) as H3.
  rewrite cnt_code_phys, cnt_code_log in H1, H2, H3. simpl in H1, H2, H3.
  f_equal; [f_equal|]; lia.
Qed.

Lemma code_phys_nosep p : nosep (code_phys p).
Proof. destruct p as [[a b] c]. unfold nosep. rewrite cnt_code_phys. simpl. lia. Qed.
Lemma code_log_nosep p : nosep (code_log p).
Proof. destruct p as [[a b] c]. unfold nosep. rewrite cnt_code_log. simpl. lia. Qed.

Definition letterb (a : ascii) : bool := existsb (Ascii.eqb a) ["x"; "y"; "z"]%char.

Lemma code_phys_hd p : is0 p = false -> exists a, hd_s (code_phys p) = Some a /\ letterb a = true.
Proof.
  destruct p as [[[|a] [|b]] [|c]]; simpl; try discriminate; intros _;
    (eexists; split; [reflexivity|reflexivity]).
Qed.
Lemma code_log_hd p : is0 p = false -> exists a, hd_s (code_log p) = Some a /\ letterb a = true.
Proof.
  destruct p as [[[|a] [|b]] [|c]]; simpl; try discriminate; intros _;
    (eexists; split; [reflexivity|reflexivity]).
Qed.

Lemma letter_not_digit a : letterb a = true -> digitb a = true -> False.
Proof.
  unfold letterb, digitb. simpl. rewrite !orb_false_r, !orb_true_iff, !Ascii.eqb_eq.
  intros [-> | [-> | ->]]; intros H; repeat (destruct H as [H|H]; [discriminate|]); discriminate.
Qed.

Lemma code_phys_nonempty p : is0 p = false -> String.eqb (code_phys p) "" = false.
Proof.
  intros H. destruct (code_phys_hd p H) as [a [Ha _]]. destruct (code_phys p); [discriminate|reflexivity].
Qed.
Lemma code_log_nonempty p : is0 p = false -> String.eqb (code_log p) "" = false.
Proof.
  intros H. destruct (code_log_hd p H) as [a [Ha _]]. destruct (code_log p); [discriminate|reflexivity].
Qed.

(* ================================================================== the name of a pure chain *)
Definition pure (ops : list dop) : bool := forallb is_phys ops || forallb is_log ops.

(* multi-indices of pure chains: only physical or only logical orders *)
Definition pure_mi (m : idx3 * idx3) : Prop := is0 (fst m) = true \/ is0 (snd m) = true.

(* a plain function atom: a scalar function or a component of a vector function, no interface operator around it *)
Definition funatom0 (a : fatom) : bool := match a with FScal _ | FComp _ _ => true | _ => false end.
(* a function atom, possibly restricted to a side of an interface *)
Fixpoint funatom (a : fatom) : bool :=
  match a with FScal _ | FComp _ _ => true | FSide _ a' => funatom a' | FMap _ _ => false end.

Fixpoint fname (a : fatom) : string :=
  match a with FScal n => n | FComp n _ => n | FSide _ a' => fname a' | FMap _ _ => "" end.
Fixpoint base_name (a : fatom) : res string :=
  match a with
  | FScal n => Ok n
  | FComp n i => Ok (n ++ "_" ++ dec i)
  | FSide _ a' => base_name a'
  | FMap m i => rmap (fun c => if map_is_plus m then c ++ "_plus" else c) (coord_name i)
  end.
Definition code_suffix (m : idx3 * idx3) : string :=
  if negb (is0 (fst m)) then "_" ++ code_phys (fst m)
  else if negb (is0 (snd m)) then "_" ++ code_log (snd m) else "".
(* the canonical name of the identity (component, multi-index); an exception for a fourth, fifth, ... component
   of a mapping *)
Definition spec_name (a : fatom) (m : idx3 * idx3) : res string :=
  rmap (fun b => b ++ code_suffix m) (base_name a).

Lemma count_phys_log d ops : is_log d = true -> forallb is_phys ops = true -> count d ops = 0.
Proof.
  intros Hd. induction ops as [|o r IH]; simpl; [reflexivity|].
  intros H. apply andb_true_iff in H. destruct H as [Ho Hr]. rewrite (IH Hr).
  destruct d, o; simpl in *; try discriminate; reflexivity.
Qed.
Lemma count_log_phys d ops : is_phys d = true -> forallb is_log ops = true -> count d ops = 0.
Proof.
  intros Hd. induction ops as [|o r IH]; simpl; [reflexivity|].
  intros H. apply andb_true_iff in H. destruct H as [Ho Hr]. rewrite (IH Hr).
  destruct d, o; simpl in *; try discriminate; reflexivity.
Qed.

Lemma phys_log_index ops : forallb is_phys ops = true -> log_index ops = (0, 0, 0).
Proof. intros H. unfold log_index. now rewrite !count_phys_log. Qed.
Lemma log_phys_index ops : forallb is_log ops = true -> phys_index ops = (0, 0, 0).
Proof. intros H. unfold phys_index. now rewrite !count_log_phys. Qed.

Lemma phys_index_nonzero o r : is_phys o = true -> is0 (phys_index (o :: r)) = false.
Proof. unfold phys_index. destruct o; simpl; try discriminate; intros _; repeat destruct (count _ r); reflexivity. Qed.
Lemma log_index_nonzero o r : is_log o = true -> is0 (log_index (o :: r)) = false.
Proof. unfold log_index. destruct o; simpl; try discriminate; intros _; repeat destruct (count _ r); reflexivity. Qed.

Lemma pure_mi_of ops : pure ops = true -> pure_mi (multi_index ops).
Proof.
  unfold pure, pure_mi, multi_index. cbn [fst snd]. intros H. apply orb_true_iff in H. destruct H as [H|H].
  - right. now rewrite phys_log_index.
  - left. now rewrite log_phys_index.
Qed.

Lemma chain_eval_strip_phys r a c : forallb is_phys r = true -> chain_eval (Some KP) r a c = atom_name a c.
Proof.
  induction r as [|o r IH]; simpl; [reflexivity|]. intros H. apply andb_true_iff in H.
  destruct H as [Ho Hr]. unfold kind_of. rewrite Ho. simpl. auto.
Qed.
Lemma chain_eval_strip_log r a c : forallb is_log r = true -> chain_eval (Some KL) r a c = atom_name a c.
Proof.
  induction r as [|o r IH]; simpl; [reflexivity|]. intros H. apply andb_true_iff in H.
  destruct H as [Ho Hr]. unfold kind_of. unfold is_log in Ho. apply negb_true_iff in Ho. rewrite Ho. simpl. auto.
Qed.

Lemma atom_name_code a c :
  String.eqb c "" = false -> atom_name a (Some c) = rmap (fun b => b ++ "_" ++ c) (base_name a).
Proof.
  intros H. induction a as [n|n i|p a IH|m i]; simpl; try (rewrite H; reflexivity); [exact IH|].
  rewrite rmap_rmap. apply rmap_ext. intros x. now rewrite H.
Qed.
Lemma atom_name_none a : atom_name a None = base_name a.
Proof.
  induction a as [n|n i|p a IH|m i]; simpl; auto.
Qed.

Lemma code_suffix_phys m : is0 (fst m) = false -> code_suffix m = "_" ++ code_phys (fst m).
Proof. unfold code_suffix. now intros ->. Qed.
Lemma code_suffix_log m : is0 (fst m) = true -> is0 (snd m) = false -> code_suffix m = "_" ++ code_log (snd m).
Proof. unfold code_suffix. now intros -> ->. Qed.

(* on pure chains SymbolicExpr computes the canonical name of the identity *)
Lemma chain_name_pure ops a : pure ops = true -> chain_name ops a = spec_name a (multi_index ops).
Proof.
  unfold pure, chain_name, spec_name. intros H. destruct ops as [|o r].
  - simpl. rewrite atom_name_none. symmetry. apply rmap_id. intros x. apply app_nil_r_s.
  - apply orb_true_iff in H. destruct H as [H|H].
    + pose proof H as H'. simpl in H'. apply andb_true_iff in H'. destruct H' as [Ho Hr].
      cbn [chain_eval]. unfold kind_of. rewrite Ho. rewrite chain_eval_strip_phys by exact Hr.
      rewrite code_suffix_phys by (apply phys_index_nonzero; exact Ho).
      apply atom_name_code. apply code_phys_nonempty. now apply phys_index_nonzero.
    + pose proof H as H'. simpl in H'. apply andb_true_iff in H'. destruct H' as [Ho Hr].
      cbn [chain_eval]. unfold kind_of. pose proof Ho as Ho'. unfold is_log in Ho'. apply negb_true_iff in Ho'.
      rewrite Ho'. rewrite chain_eval_strip_log by exact Hr.
      rewrite code_suffix_log.
      * apply atom_name_code. apply code_log_nonempty. now apply log_index_nonzero.
      * unfold multi_index. cbn [fst]. now rewrite (log_phys_index (o :: r) H).
      * unfold multi_index. cbn [snd]. now apply log_index_nonzero.
Qed.

(* ------------------------------------------------------------------ injectivity of the canonical name *)
Lemma code_suffix_tailok m : tailok (code_suffix m).
Proof.
  unfold code_suffix, tailok. destruct (negb (is0 (fst m))); [right; eexists; reflexivity|].
  destruct (negb (is0 (snd m))); [right; eexists; reflexivity|auto].
Qed.

Lemma code_suffix_inj m1 m2 : pure_mi m1 -> pure_mi m2 -> code_suffix m1 = code_suffix m2 -> m1 = m2.
Proof.
  destruct m1 as [p1 l1], m2 as [p2 l2]. unfold pure_mi, code_suffix. cbn [fst snd].
  intros P1 P2.
  destruct (is0 p1) eqn:Ep1, (is0 l1) eqn:El1, (is0 p2) eqn:Ep2, (is0 l2) eqn:El2; simpl;
    try (destruct P1; discriminate); try (destruct P2; discriminate);
    repeat match goal with H : is0 _ = true |- _ => apply is0_true in H; subst end;
    intros E; try discriminate E; try reflexivity.
  - inversion E as [E']. apply code_log_inj in E'. now subst.
  - inversion E as [E']. symmetry in E'. apply code_phys_log in E'. subst. discriminate.
  - inversion E as [E']. apply code_phys_log in E'. subst. discriminate.
  - inversion E as [E']. apply code_phys_inj in E'. now subst.
Qed.

Lemma code_suffix_hd m : code_suffix m = "" \/ exists a r, code_suffix m = String sep (String a r) /\ letterb a = true.
Proof.
  unfold code_suffix. destruct (is0 (fst m)) eqn:E1; simpl.
  - destruct (is0 (snd m)) eqn:E2; simpl; [auto|]. right.
    destruct (code_log_hd _ E2) as [a [Ha La]]. destruct (code_log (snd m)) as [|b r]; [discriminate|].
    simpl in Ha. inversion Ha. subst. eauto.
  - right. destruct (code_phys_hd _ E1) as [a [Ha La]]. destruct (code_phys (fst m)) as [|b r]; [discriminate|].
    simpl in Ha. inversion Ha. subst. eauto.
Qed.

(* plain function atoms: scalar functions and components *)
Theorem spec_name_inj_family a1 a2 m1 m2 :
  funatom0 a1 = true -> funatom0 a2 = true ->
  ~ ext (fname a1) (fname a2) -> ~ ext (fname a2) (fname a1) -> pure_mi m1 -> pure_mi m2 ->
  spec_name a1 m1 = spec_name a2 m2 -> a1 = a2 /\ m1 = m2.
Proof.
  intros F1 F2 H1 H2 P1 P2. unfold spec_name.
  destruct a1 as [n1|n1 i1| |], a2 as [n2|n2 i2| |]; try discriminate; simpl in *; intros E; inversion E as [E0]; clear E;
    rename E0 into E.
  - apply app_ext_inj in E; auto using code_suffix_tailok. destruct E as [-> E].
    apply code_suffix_inj in E; auto; try (now subst).
  - exfalso. rewrite !app_assoc_s in E. apply app_ext_inj in E; auto using code_suffix_tailok.
    2:{ right. eexists. reflexivity. }
    destruct E as [_ E]. destruct (code_suffix_hd m1) as [K|[a [r [K La]]]]; rewrite K in E; [discriminate|].
    simpl in E. inversion E as [E']. destruct (dec_hd_digit i2) as [d [Hd Dd]].
    assert (Q : hd_s (dec i2 ++ code_suffix m2) = Some d) by (rewrite hd_app; auto using dec_nonempty).
    rewrite <- E' in Q. simpl in Q. inversion Q. subst. eapply letter_not_digit; eauto.
  - exfalso. rewrite !app_assoc_s in E. symmetry in E. apply app_ext_inj in E; auto using code_suffix_tailok.
    2:{ right. eexists. reflexivity. }
    destruct E as [_ E]. destruct (code_suffix_hd m2) as [K|[a [r [K La]]]]; rewrite K in E; [discriminate|].
    simpl in E. inversion E as [E']. destruct (dec_hd_digit i1) as [d [Hd Dd]].
    assert (Q : hd_s (dec i1 ++ code_suffix m1) = Some d) by (rewrite hd_app; auto using dec_nonempty).
    rewrite <- E' in Q. simpl in Q. inversion Q. subst. eapply letter_not_digit; eauto.
  - rewrite !app_assoc_s in E. apply app_ext_inj in E; auto.
    2,3: right; eexists; reflexivity.
    destruct E as [-> E]. simpl in E. inversion E as [E'].
    apply app_nosep_inj in E'; auto using dec_nosep, code_suffix_tailok.
    destruct E' as [Ed Es]. apply dec_inj in Ed. apply code_suffix_inj in Es; auto; try (now subst).
Qed.

Theorem spec_name_inj a1 a2 m1 m2 :
  funatom0 a1 = true -> funatom0 a2 = true ->
  nosep (fname a1) -> nosep (fname a2) -> pure_mi m1 -> pure_mi m2 ->
  spec_name a1 m1 = spec_name a2 m2 -> a1 = a2 /\ m1 = m2.
Proof. intros F1 F2 H1 H2. apply spec_name_inj_family; auto; now apply nosep_not_ext. Qed.

(* ------------------------------------------------------------------ all atoms: what the name identifies *)
(* The symbol does not record on which side of an interface a function is taken, nor which mapping a mapping
   component belongs to (only whether the mapping is the plus side of an interface).  The identity a symbol DOES
   determine: *)
Inductive akey := KFun (n : string) | KComp (n : string) (i : nat) | KCoord (i : nat) (plus : bool).
Fixpoint akey_of (a : fatom) : akey :=
  match a with
  | FScal n => KFun n
  | FComp n i => KComp n i
  | FSide _ a' => akey_of a'
  | FMap m i => KCoord i (map_is_plus m)
  end.

(* the coordinate names are reserved: a function must not be called x, y or z *)
Definition reserved (n : string) : Prop := n = "x" \/ n = "y" \/ n = "z".
(* hygiene of an atom: a function name without separator that is no coordinate name; an existing component of
   a mapping *)
Fixpoint hyg (a : fatom) : Prop :=
  match a with
  | FScal n | FComp n _ => nosep n /\ ~ reserved n
  | FSide _ a' => hyg a'
  | FMap _ i => i < 3
  end.

Lemma unside_not_side a : match unside a with FSide _ _ => False | _ => True end.
Proof. induction a; simpl; auto. Qed.
Lemma base_name_unside a : base_name (unside a) = base_name a.
Proof. induction a; simpl; auto. Qed.
Lemma akey_unside a : akey_of (unside a) = akey_of a.
Proof. induction a; simpl; auto. Qed.
Lemma hyg_unside a : hyg a -> hyg (unside a).
Proof. induction a; simpl; auto. Qed.
Lemma funatom_unside a : funatom a = funatom0 (unside a).
Proof. induction a; simpl; auto. Qed.

Lemma coord_name_ok i : i < 3 -> exists c, coord_name i = Ok c /\ reserved c.
Proof.
  unfold reserved. destruct i as [|[|[|i]]]; simpl; intros H; try lia; eexists; (split; [reflexivity|]); auto.
Qed.
Lemma coord_name_inj i j c : coord_name i = Ok c -> coord_name j = Ok c -> i = j.
Proof.
  destruct i as [|[|[|i]]], j as [|[|[|j]]]; simpl; intros E1 E2; inversion E1; subst; inversion E2; reflexivity.
Qed.
Lemma reserved_nosep c : reserved c -> nosep c.
Proof. intros [-> | [-> | ->]]; reflexivity. Qed.

Definition plus_tag (b : bool) : string := if b then "_plus" else "".
Lemma plus_tag_tailok b s : tailok s -> tailok (plus_tag b ++ s).
Proof. destruct b; simpl; [intros _; right; eexists; reflexivity|auto]. Qed.

Lemma base_name_map m i : i < 3 -> exists c, reserved c /\ coord_name i = Ok c /\ base_name (FMap m i) = Ok (c ++ plus_tag (map_is_plus m)).
Proof.
  intros H. destruct (coord_name_ok i H) as [c [Ec Rc]]. exists c. repeat split; auto.
  simpl. rewrite Ec. simpl. unfold plus_tag. destruct (map_is_plus m); [reflexivity|now rewrite app_nil_r_s].
Qed.

Lemma plus_suffix_inj b1 b2 m1 m2 :
  pure_mi m1 -> pure_mi m2 -> plus_tag b1 ++ code_suffix m1 = plus_tag b2 ++ code_suffix m2 -> b1 = b2 /\ m1 = m2.
Proof.
  intros P1 P2. destruct b1, b2; simpl; intros E.
  - inversion E as [E']. split; [reflexivity|]. now apply code_suffix_inj.
  - exfalso. destruct (code_suffix_hd m2) as [K|[a [r [K La]]]]; rewrite K in E; [discriminate|].
    inversion E. subst a. discriminate La.
  - exfalso. destruct (code_suffix_hd m1) as [K|[a [r [K La]]]]; rewrite K in E; [discriminate|].
    inversion E. subst a. discriminate La.
  - split; [reflexivity|]. now apply code_suffix_inj.
Qed.

Lemma hyg_fun_nosep a : funatom0 a = true -> hyg a -> nosep (fname a).
Proof. destruct a; simpl; try discriminate; tauto. Qed.

Lemma spec_name_inj_fun x y m1 m2 :
  funatom0 x = true -> funatom0 y = true -> hyg x -> hyg y -> pure_mi m1 -> pure_mi m2 ->
  rmap (fun b => b ++ code_suffix m1) (base_name x) = rmap (fun b => b ++ code_suffix m2) (base_name y) ->
  akey_of x = akey_of y /\ m1 = m2.
Proof.
  intros F1 F2 H1 H2 P1 P2 E. destruct (spec_name_inj x y m1 m2) as [-> ->]; auto using hyg_fun_nosep.
Qed.

(* the canonical name is injective on (what the symbol identifies, multi-index) *)
Theorem spec_name_inj_ext a1 a2 m1 m2 :
  hyg a1 -> hyg a2 -> pure_mi m1 -> pure_mi m2 ->
  spec_name a1 m1 = spec_name a2 m2 -> akey_of a1 = akey_of a2 /\ m1 = m2.
Proof.
  intros H1 H2 P1 P2. unfold spec_name. rewrite <- (base_name_unside a1), <- (base_name_unside a2),
    <- (akey_unside a1), <- (akey_unside a2).
  apply hyg_unside in H1, H2. pose proof (unside_not_side a1) as N1. pose proof (unside_not_side a2) as N2.
  destruct (unside a1) as [n1|n1 i1|? ?|k1 i1] eqn:U1; try contradiction;
    destruct (unside a2) as [n2|n2 i2|? ?|k2 i2] eqn:U2; try contradiction; clear N1 N2.
  (* function atoms on both sides *)
  1,2,4,5: apply spec_name_inj_fun; auto.
  (* a function atom against a mapping component: the function would be called x, y or z *)
  - intros E. exfalso. simpl in H1, H2. destruct (base_name_map k2 i2 H2) as [c [Rc [_ Eb]]]. rewrite Eb in E.
    simpl in E. inversion E as [E']. rewrite app_assoc_s in E'.
    apply app_nosep_inj in E'; try tauto; auto using reserved_nosep, code_suffix_tailok, plus_tag_tailok.
    destruct E' as [-> _]. tauto.
  - intros E. exfalso. simpl in H1, H2. destruct (base_name_map k2 i2 H2) as [c [Rc [_ Eb]]]. rewrite Eb in E.
    simpl in E. inversion E as [E']. rewrite !app_assoc_s in E'.
    apply app_nosep_inj in E'; try tauto; auto using reserved_nosep, code_suffix_tailok, plus_tag_tailok.
    + destruct E' as [-> _]. tauto.
    + right. eexists. reflexivity.
  - intros E. exfalso. simpl in H1, H2. destruct (base_name_map k1 i1 H1) as [c [Rc [_ Eb]]]. rewrite Eb in E.
    simpl in E. inversion E as [E']. rewrite app_assoc_s in E'.
    apply app_nosep_inj in E'; try tauto; auto using reserved_nosep, code_suffix_tailok, plus_tag_tailok.
    destruct E' as [<- _]. tauto.
  - intros E. exfalso. simpl in H1, H2. destruct (base_name_map k1 i1 H1) as [c [Rc [_ Eb]]]. rewrite Eb in E.
    simpl in E. inversion E as [E']. rewrite !app_assoc_s in E'.
    apply app_nosep_inj in E'; try tauto; auto using reserved_nosep, code_suffix_tailok, plus_tag_tailok.
    + destruct E' as [<- _]. tauto.
    + right. eexists. reflexivity.
  (* two mapping components *)
  - simpl in H1, H2. destruct (base_name_map k1 i1 H1) as [c1 [R1 [C1 B1]]].
    destruct (base_name_map k2 i2 H2) as [c2 [R2 [C2 B2]]]. rewrite B1, B2. simpl.
    intros E. inversion E as [E']. rewrite !app_assoc_s in E'.
    apply app_nosep_inj in E'; auto using reserved_nosep, code_suffix_tailok, plus_tag_tailok.
    destruct E' as [Ec Es]. subst c2. apply plus_suffix_inj in Es; auto. destruct Es as [Ep Em].
    rewrite Ep, (coord_name_inj _ _ _ C1 C2). auto.
Qed.

(* the canonical name only depends on what the symbol identifies *)
Definition akey_base (k : akey) : res string :=
  match k with
  | KFun n => Ok n
  | KComp n i => Ok (n ++ "_" ++ dec i)
  | KCoord i p => rmap (fun c => if p then c ++ "_plus" else c) (coord_name i)
  end.
Lemma base_name_akey a : base_name a = akey_base (akey_of a).
Proof. induction a; simpl; auto. Qed.

(* ------------------------------------------------------------------ the naming theorems *)
(* two chains over functions / components get the same symbol exactly when component and multi-index coincide *)
Theorem sym_name_iff ops1 a1 ops2 a2 :
  funatom0 a1 = true -> funatom0 a2 = true ->
  nosep (fname a1) -> nosep (fname a2) -> pure ops1 = true -> pure ops2 = true ->
  (chain_name ops1 a1 = chain_name ops2 a2 <-> a1 = a2 /\ multi_index ops1 = multi_index ops2).
Proof.
  intros F1 F2 H1 H2 P1 P2. rewrite !chain_name_pure by assumption. split.
  - apply spec_name_inj; auto using pure_mi_of.
  - intros [-> ->]. reflexivity.
Qed.

(* the same under the sharper pairwise hygiene: names such as u_h are admitted as long as no function of the
   kernel is called like another one followed by '_...' *)
Theorem sym_name_iff_family ops1 a1 ops2 a2 :
  funatom0 a1 = true -> funatom0 a2 = true ->
  ~ ext (fname a1) (fname a2) -> ~ ext (fname a2) (fname a1) -> pure ops1 = true -> pure ops2 = true ->
  (chain_name ops1 a1 = chain_name ops2 a2 <-> a1 = a2 /\ multi_index ops1 = multi_index ops2).
Proof.
  intros F1 F2 H1 H2 P1 P2. rewrite !chain_name_pure by assumption. split.
  - apply spec_name_inj_family; auto using pure_mi_of.
  - intros [-> ->]. reflexivity.
Qed.

(* all atoms (functions, components, their restrictions to a side of an interface, mapping components): the same
   symbol exactly when what the symbol identifies ([akey_of]) and the multi-index coincide *)
Theorem sym_name_iff_ext ops1 a1 ops2 a2 :
  hyg a1 -> hyg a2 -> pure ops1 = true -> pure ops2 = true ->
  (chain_name ops1 a1 = chain_name ops2 a2 <-> akey_of a1 = akey_of a2 /\ multi_index ops1 = multi_index ops2).
Proof.
  intros H1 H2 P1 P2. rewrite !chain_name_pure by assumption. split.
  - apply spec_name_inj_ext; auto using pure_mi_of.
  - intros [Ea ->]. unfold spec_name. now rewrite !base_name_akey, Ea.
Qed.

(* a hygienic atom always has a name *)
Lemma hyg_base_ok a : hyg a -> exists b, base_name a = Ok b.
Proof.
  induction a as [n|n i|p a IH|m i]; simpl; intros H; eauto.
  destruct (coord_name_ok i H) as [c [-> _]]. simpl. eauto.
Qed.
Theorem hyg_chain_named ops a : hyg a -> pure ops = true -> exists s, chain_name ops a = Ok s.
Proof.
  intros H P. rewrite chain_name_pure by assumption. unfold spec_name.
  destruct (hyg_base_ok a H) as [b ->]. simpl. eauto.
Qed.

Lemma count_perm d l l' : Permutation l l' -> count d l = count d l'.
Proof. induction 1; simpl; lia. Qed.

Lemma forallb_perm {A} (f : A -> bool) l l' : Permutation l l' -> forallb f l = forallb f l'.
Proof.
  induction 1; simpl; auto.
  - now rewrite IHPermutation.
  - destruct (f x), (f y); reflexivity.
  - congruence.
Qed.

Lemma multi_index_perm l l' : Permutation l l' -> multi_index l = multi_index l'.
Proof.
  intros H. unfold multi_index, phys_index, log_index.
  now rewrite !(count_perm _ _ _ H).
Qed.

Lemma pure_perm l l' : Permutation l l' -> pure l = pure l'.
Proof. intros H. unfold pure. now rewrite (forallb_perm is_phys _ _ H), (forallb_perm is_log _ _ H). Qed.

(* the order of differentiation does not matter (no hygiene needed, any atom) *)
Theorem sym_name_perm ops1 ops2 a :
  Permutation ops1 ops2 -> pure ops1 = true -> chain_name ops1 a = chain_name ops2 a.
Proof.
  intros H P. rewrite !chain_name_pure; [|now rewrite <- (pure_perm _ _ H)|assumption].
  now rewrite (multi_index_perm _ _ H).
Qed.

(* the symbol of a chain, as produced by SymbolicExpr on the kernel that consists of the chain *)
Theorem same_symbol_iff ops1 a1 ops2 a2 :
  funatom0 a1 = true -> funatom0 a2 = true ->
  nosep (fname a1) -> nosep (fname a2) -> pure ops1 = true -> pure ops2 = true ->
  (symbolic (Chain ops1 a1) = symbolic (Chain ops2 a2) <-> a1 = a2 /\ multi_index ops1 = multi_index ops2).
Proof.
  intros. simpl. rewrite <- sym_name_iff by eassumption. split; [|intros ->; reflexivity].
  apply rmap_inj. intros x y E. now inversion E.
Qed.
Theorem same_symbol_iff_ext ops1 a1 ops2 a2 :
  hyg a1 -> hyg a2 -> pure ops1 = true -> pure ops2 = true ->
  (symbolic (Chain ops1 a1) = symbolic (Chain ops2 a2) <->
   akey_of a1 = akey_of a2 /\ multi_index ops1 = multi_index ops2).
Proof.
  intros. simpl. rewrite <- sym_name_iff_ext by eassumption. split; [|intros ->; reflexivity].
  apply rmap_inj. intros x y E. now inversion E.
Qed.

(* without hygiene: the function literally named u_x and dx(u);  the function w_0 and the component w[0] *)
Theorem name_collision_refuted :
  exists ops1 a1 ops2 a2, funatom0 a1 = true /\ funatom0 a2 = true /\ pure ops1 = true /\ pure ops2 = true /\
    chain_name ops1 a1 = chain_name ops2 a2 /\ ~ (a1 = a2 /\ multi_index ops1 = multi_index ops2).
Proof.
  exists [Dx], (FScal "u"), [], (FScal "u_x"). repeat split; try reflexivity. intros [E _]. discriminate.
Qed.
Theorem component_collision_refuted :
  exists a1 a2, funatom0 a1 = true /\ funatom0 a2 = true /\ a1 <> a2 /\ chain_name [] a1 = chain_name [] a2.
Proof. exists (FComp "w" 0), (FScal "w_0"). repeat split. discriminate. Qed.

(* hygienic names but a chain that mixes physical and logical operators: the outer code is dropped *)
Theorem mixed_chain_refuted :
  exists ops1 ops2 a, funatom0 a = true /\ nosep (fname a) /\
    chain_name ops1 a = chain_name ops2 a /\ multi_index ops1 <> multi_index ops2.
Proof. exists [Dx; D1], [D1], (FScal "u"). repeat split; try reflexivity. discriminate. Qed.
Theorem mixed_order_refuted :
  exists ops1 ops2 a, funatom0 a = true /\ nosep (fname a) /\ Permutation ops1 ops2 /\ chain_name ops1 a <> chain_name ops2 a.
Proof.
  exists [Dx; D1], [D1; Dx], (FScal "u"). repeat split; try reflexivity; [apply perm_swap|discriminate].
Qed.

(* ------------------------------------------------------------------ what the symbols of the new atoms forget *)
(* the side of an interface: minus(u) and plus(u) (both hygienic) share every symbol *)
Theorem side_collision_refuted :
  exists a1 a2, hyg a1 /\ hyg a2 /\ a1 <> a2 /\ forall ops, chain_name ops a1 = chain_name ops a2.
Proof.
  exists (FSide false (FScal "u")), (FSide true (FScal "u")). repeat split; try discriminate.
  - intros [H|[H|H]]; discriminate.
  - intros [H|[H|H]]; discriminate.
  - intros ops. unfold chain_name. generalize (@None kind) (@None string).
    induction ops as [|o r IH]; intros cur code; simpl; [reflexivity|].
    destruct (match cur with Some c => kind_eqb c (kind_of o) | None => false end); apply IH.
Qed.
(* ... also against the unrestricted function *)
Theorem side_collision_plain_refuted :
  exists a1 a2, hyg a1 /\ hyg a2 /\ a1 <> a2 /\ chain_name [Dx] a1 = chain_name [Dx] a2.
Proof.
  exists (FSide false (FScal "u")), (FScal "u"). repeat split; try discriminate;
    intros [H|[H|H]]; discriminate.
Qed.
(* the mapping: M[0] and N[0] of two different mappings, and every derivative of them *)
Theorem mapping_collision_refuted :
  exists m1 m2 i, m1 <> m2 /\ hyg (FMap m1 i) /\ hyg (FMap m2 i) /\
    forall ops, chain_name ops (FMap m1 i) = chain_name ops (FMap m2 i).
Proof.
  exists (MPlain "M" SNone), (MPlain "N" SNone), 0. repeat split; try discriminate; try (simpl; lia).
  intros ops. unfold chain_name. generalize (@None kind) (@None string).
  induction ops as [|o r IH]; intros cur code; simpl; [reflexivity|].
  destruct (match cur with Some c => kind_eqb c (kind_of o) | None => false end); apply IH.
Qed.
(* the coordinate names are not protected by the separator: a function that is called x (no '_' in it) and M[0] *)
Theorem coordinate_collision_refuted :
  exists a1 a2, funatom0 a1 = true /\ nosep (fname a1) /\ hyg a2 /\ akey_of a1 <> akey_of a2 /\
    chain_name [] a1 = chain_name [] a2 /\ chain_name [D1] a1 = chain_name [D1] a2.
Proof.
  exists (FScal "x"), (FMap (MPlain "M" SNone) 0). repeat split; try discriminate. simpl. lia.
Qed.
(* ... and the symbol of M[0] is the symbol of the physical coordinate x itself *)
Theorem coordinate_symbol_refuted :
  symbolic (Chain [] (FMap (MPlain "M" SNone) 0)) = symbolic (Sym "x").
Proof. reflexivity. Qed.
(* a fourth component of a mapping has no name: ValueError('Wrong index'), whatever the chain *)
Theorem wrong_index_raises ops m i : 3 <= i -> chain_name ops (FMap m i) = Err EValue.
Proof.
  intros H. unfold chain_name. generalize (@None kind) (@None string).
  induction ops as [|o r IH]; intros cur code; simpl.
  - destruct i as [|[|[|i]]]; try lia. reflexivity.
  - destruct (match cur with Some c => kind_eqb c (kind_of o) | None => false end); apply IH.
Qed.

(* geometry atoms: the name is spelled from the name of the mapping *)
Theorem geo_name_spec g :
  gatom_name g = match g with
                 | GMap m => map_name m
                 | GWvol m => "wvol_" ++ map_name (map_minus m)
                 | GDet false m => "det_" ++ map_name m
                 | GDet true m => "det_Jacobian(" ++ map_name m ++ ")"
                 end.
Proof. destruct g as [m|m|[|] m]; reflexivity. Qed.
(* the weighted volume of an interface is the one of its minus side *)
Theorem geo_wvol_interface a b : gatom_name (GWvol (MIface a b)) = gatom_name (GWvol (MPlain a SMinus)).
Proof. reflexivity. Qed.
(* different geometry atoms with one symbol; a geometry atom and a function with one symbol *)
Theorem geometry_collision_refuted :
  (exists g1 g2, g1 <> g2 /\ gatom_name g1 = gatom_name g2) /\
  (exists g a, funatom0 a = true /\ symbolic (Geo g) = symbolic (Chain [] a)).
Proof.
  split.
  - exists (GWvol (MIface "M" "N")), (GWvol (MPlain "M" SNone)). split; [discriminate|reflexivity].
  - exists (GDet false (MPlain "M" SNone)), (FScal "det_M"). split; reflexivity.
Qed.

(* ================================================================== SymbolicExpr as a homomorphism *)
(* a sympy expression in which no terminal expression (function, component, derivative, interface operator,
   mapping, geometry atom, pull-back, ...) is left *)
Fixpoint plainb (e : expr) : bool :=
  match e with
  | Num _ | Sym _ | IBase _ | IdxS _ | ImI => true
  | Vec _ | Chain _ _ | Seq _ | Side _ _ | Geo _ | PIdx _ _ | PB _ _ _ | Opaque _ => false
  | Add l | Mul l | Fn _ l | Tup l => forallb plainb l
  | Pow b x => plainb b && plainb x
  | Mat _ rows => forallb (forallb plainb) rows
  end.

(* every exponent is free of terminal expressions *)
Fixpoint exps_plain (e : expr) : bool :=
  match e with
  | Add l | Mul l | Fn _ l | Tup l | Seq l => forallb exps_plain l
  | Pow b x => exps_plain b && plainb x
  | Mat _ rows => forallb (forallb exps_plain) rows
  | Side _ x | PB _ _ x => exps_plain x
  | _ => true
  end.

(* Pow lifted to outcomes: the base is translated first *)
Definition rpow (rb rx : res expr) : res expr := rbind rb (fun b' => rmap (Pow b') rx).

(* the homomorphic extension of a renaming of the chains (what substitution does): every named atom is replaced
   by its symbol, interface operators and pull-backs are transparent, the first object without a translation
   decides the exception *)
Fixpoint subst (sigma : list dop -> fatom -> res string) (e : expr) : res expr :=
  match e with
  | Num s => Ok (Num s)
  | Sym s => Ok (Sym s)
  | IBase s => Ok (IBase s)
  | IdxS s => Ok (IdxS s)
  | ImI => Ok ImI
  | Vec n => Ok (Sym n)
  | Chain ops a => rmap Sym (sigma ops a)
  | Geo g => Ok (Sym (gatom_name g))
  | PIdx b i => Ok (Sym (b ++ "_" ++ i))
  | Add l => rmap Add (mapM (subst sigma) l)
  | Mul l => rmap Mul (mapM (subst sigma) l)
  | Pow b x => rpow (subst sigma b) (subst sigma x)
  | Fn f l => rmap (Fn f) (mapM (subst sigma) l)
  | Tup l => rmap Tup (mapM (subst sigma) l)
  | Seq l => rmap Tup (mapM (subst sigma) l)
  | Mat imm rows => rmap (Mat imm) (mapM (mapM (subst sigma)) rows)
  | Side _ x => subst sigma x
  | PB _ _ x => subst sigma x
  | Opaque _ => Err ENotImpl
  end.

Lemma symbolic_add l : symbolic (Add l) = rmap Add (mapM symbolic l).
Proof. reflexivity. Qed.
Lemma symbolic_mul l : symbolic (Mul l) = rmap Mul (mapM symbolic l).
Proof. reflexivity. Qed.
Lemma symbolic_fn f l : symbolic (Fn f l) = rmap (Fn f) (mapM symbolic l).
Proof. reflexivity. Qed.
Lemma symbolic_tuple l : symbolic (Tup l) = rmap Tup (mapM symbolic l) /\ symbolic (Seq l) = rmap Tup (mapM symbolic l).
Proof. split; reflexivity. Qed.
Lemma symbolic_matrix imm rows : symbolic (Mat imm rows) = rmap (Mat imm) (mapM (mapM symbolic) rows).
Proof. reflexivity. Qed.
(* interface operators and pull-backs are transparent *)
Lemma symbolic_side p e : symbolic (Side p e) = symbolic e.
Proof. reflexivity. Qed.
Lemma symbolic_pullback f v e : symbolic (PB f v e) = symbolic e.
Proof. reflexivity. Qed.
Lemma symbolic_side_atom p ops a : symbolic (Chain ops (FSide p a)) = symbolic (Chain ops a).
Proof.
  simpl. f_equal. unfold chain_name. generalize (@None kind) (@None string).
  induction ops as [|o r IH]; intros cur code; simpl; [reflexivity|].
  destruct (match cur with Some c => kind_eqb c (kind_of o) | None => false end); apply IH.
Qed.
(* plain sympy atoms are passed through *)
Lemma symbolic_passthrough :
  (forall s, symbolic (Sym s) = Ok (Sym s)) /\ (forall s, symbolic (IBase s) = Ok (IBase s)) /\
  (forall s, symbolic (IdxS s) = Ok (IdxS s)) /\ symbolic ImI = Ok ImI /\ (forall s, symbolic (Num s) = Ok (Num s)).
Proof. repeat split. Qed.
(* geometry atoms become the symbol with their name; anything without an arm raises NotImplementedError *)
Lemma symbolic_geo g : symbolic (Geo g) = Ok (Sym (gatom_name g)).
Proof. destruct g; reflexivity. Qed.
Lemma symbolic_opaque b : symbolic (Opaque b) = Err ENotImpl.
Proof. reflexivity. Qed.

Lemma map_id_Forall {A} (f : A -> A) l : Forall (fun x => f x = x) l -> map f l = l.
Proof. induction 1; simpl; congruence. Qed.

Lemma map_ext_Forall {A B} (f g : A -> B) l : Forall (fun x => f x = g x) l -> map f l = map g l.
Proof. induction 1; simpl; congruence. Qed.

Lemma Forall_impl_forallb {A} (p : A -> bool) (Q : A -> Prop) l :
  Forall (fun x => p x = true -> Q x) l -> forallb p l = true -> Forall Q l.
Proof.
  induction 1; simpl; intros H'; constructor; apply andb_true_iff in H'; destruct H'; auto.
Qed.

Lemma subst_plain sigma e : plainb e = true -> subst sigma e = Ok e.
Proof.
  induction e using expr_ind'; simpl; intros Hp; try reflexivity; try discriminate;
    try (rewrite mapM_id_Forall; [reflexivity|]; eapply Forall_impl_forallb; eassumption).
  - apply andb_true_iff in Hp. destruct Hp. rewrite IHe1, IHe2 by assumption. reflexivity.
  - rewrite mapM_id_Forall; [reflexivity|].
    assert (K : Forall (fun r => forallb plainb r = true -> mapM (subst sigma) r = Ok r) rows).
    { eapply Forall_impl; [|exact H]. intros r Hr Hpr. apply mapM_id_Forall.
      eapply Forall_impl_forallb; eassumption. }
    eapply Forall_impl_forallb; eassumption.
Qed.

(* SymbolicExpr (before 1e5436c) is the homomorphic extension of chain -> symbol, provided no exponent contains
   a terminal *)
Theorem symbolic_is_subst e : exps_plain e = true -> symbolic e = subst chain_name e.
Proof.
  induction e using expr_ind'; simpl; intros Hp; try reflexivity; auto;
    try (f_equal; apply mapM_ext_Forall; eapply Forall_impl_forallb; eassumption).
  - apply andb_true_iff in Hp. destruct Hp as [Hb Hx]. rewrite (subst_plain _ _ Hx), IHe1 by assumption.
    unfold rpow. destruct (subst chain_name e1); reflexivity.
  - f_equal. apply mapM_ext_Forall.
    assert (K : Forall (fun r => forallb exps_plain r = true -> mapM symbolic r = mapM (subst chain_name) r) rows).
    { eapply Forall_impl; [|exact H]. intros r Hr Hpr. apply mapM_ext_Forall.
      eapply Forall_impl_forallb; eassumption. }
    eapply Forall_impl_forallb; eassumption.
  - destruct g; reflexivity.
Qed.

Lemma forallb_map {A B} (p : B -> bool) (f : A -> B) l : forallb p (map f l) = forallb (fun x => p (f x)) l.
Proof. induction l; simpl; congruence. Qed.

Lemma forallb_Forall_true {A} (p : A -> bool) l : Forall (fun x => p x = true) l -> forallb p l = true.
Proof. induction 1; simpl; auto. rewrite H. auto. Qed.

Lemma mapM_plain {A} (f : A -> res expr) l ys :
  Forall (fun x => forall y, f x = Ok y -> plainb y = true) l -> mapM f l = Ok ys -> forallb plainb ys = true.
Proof.
  intros HF E. apply mapM_ok in E. induction E as [|x y l ys Hxy E IH]; simpl; [reflexivity|].
  inversion HF as [|? ? Hx Hl]; subst. rewrite (Hx _ Hxy), IH by assumption. reflexivity.
Qed.

(* whenever the substitution succeeds, nothing terminal is left *)
Lemma subst_plainb sigma e : forall r, subst sigma e = Ok r -> plainb r = true.
Proof.
  induction e using expr_ind'; simpl; intros r E; try (inversion E; reflexivity); try discriminate; auto;
    try (apply rmap_ok in E; destruct E as [ys [E ->]]; simpl; eapply mapM_plain; eassumption).
  - apply rmap_ok in E. destruct E as [s [_ ->]]. reflexivity.
  - unfold rpow in E. destruct (subst sigma e1) as [b'|] eqn:E1; [|discriminate]. simpl in E.
    apply rmap_ok in E. destruct E as [x' [E2 ->]]. simpl. rewrite (IHe1 _ eq_refl), (IHe2 _ E2). reflexivity.
  - apply rmap_ok in E. destruct E as [ys [E ->]]. simpl. apply mapM_ok in E.
    induction E as [|x y l ys Hxy E IH]; simpl; [reflexivity|]. inversion H as [|? ? Hx Hl]; subst.
    rewrite IH by assumption. rewrite (mapM_plain _ _ _ Hx Hxy). reflexivity.
Qed.

(* ... and then the result contains plain symbols only *)
Theorem symbolic_plain e r : exps_plain e = true -> symbolic e = Ok r -> plainb r = true.
Proof. intros H E. rewrite (symbolic_is_subst _ H) in E. eapply subst_plainb; eauto. Qed.

Lemma plain_exps_plain x : plainb x = true -> exps_plain x = true.
Proof.
  induction x using expr_ind'; simpl in *; intros Hp; try reflexivity; try discriminate;
    try (apply forallb_Forall_true; eapply Forall_impl_forallb; eassumption).
  - apply andb_true_iff in Hp. destruct Hp as [H1 H2]. now rewrite IHx1.
  - apply forallb_Forall_true.
    assert (K : Forall (fun r => forallb plainb r = true -> forallb exps_plain r = true) rows).
    { eapply Forall_impl; [|exact H]. intros r Hr Hpr. apply forallb_Forall_true.
      eapply Forall_impl_forallb; eassumption. }
    eapply Forall_impl_forallb; eassumption.
Qed.

Theorem symbolic_pow_const b x : plainb x = true -> symbolic (Pow b x) = rpow (symbolic b) (symbolic x).
Proof.
  intros H. simpl. rewrite (symbolic_is_subst x (plain_exps_plain _ H)), (subst_plain _ _ H).
  unfold rpow. destruct (symbolic b); reflexivity.
Qed.

(* the exponent is passed through untranslated: 2**dx(u) *)
Theorem symbolic_pow_refuted :
  exists b x r, symbolic (Pow b x) <> rpow (symbolic b) (symbolic x) /\ symbolic (Pow b x) = Ok r /\ plainb r = false.
Proof. exists (Num "2"), (Chain [Dx] (FScal "u")). eexists. split; [discriminate|split; reflexivity]. Qed.

(* ================================================================== maximal orders *)
(* every derivative chain occurring anywhere in a kernel *)
Fixpoint chains_of (e : expr) : list chain :=
  match e with
  | Chain (o :: r) a => [(o :: r, a)]
  | Add l | Mul l | Fn _ l | Tup l | Seq l => flat_map chains_of l
  | Pow b x => chains_of b ++ chains_of x
  | Mat _ rows => flat_map (flat_map chains_of) rows
  | Side _ x => chains_of x
  | _ => []                                    (* the .expr of a pull-back is no argument of it *)
  end.

(* which chains a query is about: all chains over functions and components (a chain over a mapping component is no
   derivative of a function) / those of one function atom / those of the components of a vector function.  A
   function restricted to one side of an interface is still that function. *)
Definition qmatch (q : option query) (c : chain) : bool :=
  match q with
  | None => funatom (snd c)
  | Some (QAtom f) => fatom_eqb (snd c) f || fatom_eqb (unside (snd c)) f
  | Some (QVec n) => match unside (snd c) with FComp m _ => String.eqb m n | _ => false end
  end.

(* the true maximal order in direction d *)
Definition true_max (d : dop) (e : expr) (q : option query) : nat :=
  list_max (map (fun c : chain => count d (fst c)) (filter (qmatch q) (chains_of e))).

(* the part of the kernel language that find_partial_derivatives enters completely *)
Fixpoint chain_free (e : expr) : bool :=
  match e with
  | Chain (_ :: _) _ => false
  | Add l | Mul l | Fn _ l | Tup l | Seq l => forallb chain_free l
  | Pow b x => chain_free b && chain_free x
  | Mat _ rows => forallb (forallb chain_free) rows
  | Side _ x => chain_free x
  | _ => true
  end.
Fixpoint entered (e : expr) : bool :=
  match e with
  | Add l | Mul l | Tup l | Seq l => forallb entered l
  | Pow b x => entered b && chain_free x
  | Fn _ l => forallb chain_free l
  | Mat _ rows => forallb (forallb chain_free) rows
  | Side _ x => chain_free x
  | _ => true
  end.
Definition pure_chains (e : expr) : bool := forallb (fun c : chain => pure (fst c)) (chains_of e).
(* no chain of the kernel is over a function restricted to a side of an interface *)
Definition sided (a : fatom) : bool := match a with FSide _ _ => true | _ => false end.
Definition unsided_chains (e : expr) : bool := forallb (fun c : chain => negb (sided (snd c))) (chains_of e).

(* ------------------------------------------------------------------ list facts *)
Lemma list_max_In x l : In x l -> x <= list_max l.
Proof.
  intros H. assert (K : list_max l <= list_max l) by lia. apply list_max_le in K.
  rewrite Forall_forall in K. auto.
Qed.

Lemma list_max_le_ex l1 l2 :
  (forall x, In x l1 -> x = 0 \/ exists y, In y l2 /\ x <= y) -> list_max l1 <= list_max l2.
Proof.
  intros H. apply list_max_le. apply Forall_forall. intros x Hx.
  destruct (H x Hx) as [-> | [y [Hy Hle]]]; [lia|]. pose proof (list_max_In y l2 Hy). lia.
Qed.

Definition fst3 (t : idx3) := fst (fst t).
Definition snd3 (t : idx3) := snd (fst t).
Definition thd3 (t : idx3) := snd t.

Lemma max3_fold l : forall a b c,
  fold_left (fun d t => let '(a, b, c) := d in let '(x, y, z) := t in (Nat.max a x, Nat.max b y, Nat.max c z))
            l (a, b, c)
  = (Nat.max a (list_max (map fst3 l)), Nat.max b (list_max (map snd3 l)), Nat.max c (list_max (map thd3 l))).
Proof.
  induction l as [|[[x y] z] l IH]; intros a b c; simpl.
  - now rewrite !Nat.max_0_r.
  - rewrite IH. unfold fst3, snd3, thd3. simpl. f_equal; [f_equal|]; lia.
Qed.

Lemma max3_spec l : max3 l = (list_max (map fst3 l), list_max (map snd3 l), list_max (map thd3 l)).
Proof. unfold max3. now rewrite max3_fold. Qed.

Lemma in_flat_map_flat_map {A B} (f : A -> list B) (rows : list (list A)) y :
  In y (flat_map (flat_map f) rows) <-> exists r x, In r rows /\ In x r /\ In y (f x).
Proof.
  rewrite in_flat_map. split.
  - intros [r [Hr Hy]]. apply in_flat_map in Hy. destruct Hy as [x [Hx Hy]]. eauto.
  - intros [r [x [Hr [Hx Hy]]]]. exists r. split; auto. apply in_flat_map. eauto.
Qed.

(* ------------------------------------------------------------------ what the traversal finds *)
Lemma chain_free_no_chains e : chain_free e = true -> chains_of e = [].
Proof.
  induction e using expr_ind'; simpl; intros Hc; try reflexivity.
  - destruct ops; [reflexivity|discriminate].
  - induction H; simpl in *; [reflexivity|]. apply andb_true_iff in Hc. destruct Hc as [H1 H2].
    rewrite H by assumption. simpl. auto.
  - induction H; simpl in *; [reflexivity|]. apply andb_true_iff in Hc. destruct Hc as [H1 H2].
    rewrite H by assumption. simpl. auto.
  - apply andb_true_iff in Hc. destruct Hc as [H1 H2]. now rewrite IHe1, IHe2.
  - induction H; simpl in *; [reflexivity|]. apply andb_true_iff in Hc. destruct Hc as [H1 H2].
    rewrite H by assumption. simpl. auto.
  - induction H; simpl in *; [reflexivity|]. apply andb_true_iff in Hc. destruct Hc as [H1 H2].
    rewrite H by assumption. simpl. auto.
  - induction H; simpl in *; [reflexivity|]. apply andb_true_iff in Hc. destruct Hc as [H1 H2].
    rewrite H by assumption. simpl. auto.
  - induction H as [|r rows Hr Hrows IH]; simpl in *; [reflexivity|].
    apply andb_true_iff in Hc. destruct Hc as [H1 H2]. rewrite IH by assumption. rewrite app_nil_r.
    clear IH Hrows H2. induction Hr; simpl in *; [reflexivity|]. apply andb_true_iff in H1. destruct H1 as [H1 H3].
    rewrite H by assumption. simpl. auto.
  - auto.
Qed.

(* soundness of the traversal: whatever it returns is a chain of the kernel *)
Lemma find_pd_sub e : forall c, In c (find_pd e) -> In c (chains_of e).
Proof.
  induction e using expr_ind'; simpl; intros c Hc; try contradiction.
  - destruct ops; simpl in *; auto.
  - apply in_flat_map in Hc. destruct Hc as [x [Hx Hc]]. apply in_flat_map. exists x. split; auto.
    rewrite Forall_forall in H. auto.
  - apply in_flat_map in Hc. destruct Hc as [x [Hx Hc]]. apply in_flat_map. exists x. split; auto.
    rewrite Forall_forall in H. auto.
  - apply in_or_app. left. auto.
  - apply in_flat_map in Hc. destruct Hc as [x [Hx Hc]]. apply in_flat_map. exists x. split; auto.
    rewrite Forall_forall in H. auto.
  - apply in_flat_map in Hc. destruct Hc as [x [Hx Hc]]. apply in_flat_map. exists x. split; auto.
    rewrite Forall_forall in H. auto.
Qed.

(* completeness on the entered fragment *)
Lemma find_pd_complete e : entered e = true -> forall c, In c (chains_of e) -> In c (find_pd e).
Proof.
  induction e using expr_ind'; simpl; intros He c Hc; try contradiction.
  - destruct ops; simpl in *; auto.
  - apply in_flat_map in Hc. destruct Hc as [x [Hx Hc]]. apply in_flat_map. exists x. split; auto.
    rewrite Forall_forall in H. rewrite forallb_forall in He. auto.
  - apply in_flat_map in Hc. destruct Hc as [x [Hx Hc]]. apply in_flat_map. exists x. split; auto.
    rewrite Forall_forall in H. rewrite forallb_forall in He. auto.
  - apply andb_true_iff in He. destruct He as [H1 H2]. rewrite (chain_free_no_chains _ H2), app_nil_r in Hc. auto.
  - exfalso. apply in_flat_map in Hc. destruct Hc as [x [Hx Hc]]. rewrite forallb_forall in He.
    rewrite (chain_free_no_chains x (He x Hx)) in Hc. contradiction.
  - apply in_flat_map in Hc. destruct Hc as [x [Hx Hc]]. apply in_flat_map. exists x. split; auto.
    rewrite Forall_forall in H. rewrite forallb_forall in He. auto.
  - apply in_flat_map in Hc. destruct Hc as [x [Hx Hc]]. apply in_flat_map. exists x. split; auto.
    rewrite Forall_forall in H. rewrite forallb_forall in He. auto.
  - exfalso. apply in_flat_map_flat_map in Hc. destruct Hc as [r [x [Hr [Hx Hc]]]].
    rewrite forallb_forall in He. specialize (He r Hr). rewrite forallb_forall in He.
    rewrite (chain_free_no_chains x (He x Hx)) in Hc. contradiction.
  - rewrite (chain_free_no_chains _ He) in Hc. contradiction.
Qed.

Lemma chains_nonempty e c : In c (chains_of e) -> fst c <> [].
Proof.
  induction e using expr_ind'; simpl; intros Hc; try contradiction.
  - destruct ops; simpl in Hc; [contradiction|]. destruct Hc as [<-|[]]. discriminate.
  - apply in_flat_map in Hc. destruct Hc as [x [Hx Hc]]. rewrite Forall_forall in H. eauto.
  - apply in_flat_map in Hc. destruct Hc as [x [Hx Hc]]. rewrite Forall_forall in H. eauto.
  - apply in_app_or in Hc. tauto.
  - apply in_flat_map in Hc. destruct Hc as [x [Hx Hc]]. rewrite Forall_forall in H. eauto.
  - apply in_flat_map in Hc. destruct Hc as [x [Hx Hc]]. rewrite Forall_forall in H. eauto.
  - apply in_flat_map in Hc. destruct Hc as [x [Hx Hc]]. rewrite Forall_forall in H. eauto.
  - apply in_flat_map_flat_map in Hc. destruct Hc as [r [x [Hr [Hx Hc]]]].
    rewrite Forall_forall in H. specialize (H r Hr). rewrite Forall_forall in H. eauto.
  - auto.
Qed.

Lemma fatoms_unside a : funatom a = true -> In (QAtom (unside a)) (fatoms a).
Proof. induction a; simpl; auto; discriminate. Qed.

(* expr.atoms(...) only yields plain functions, components and vector functions *)
Definition qplain (q : query) : bool := match q with QAtom a => funatom0 a | QVec _ => true end.
Lemma fatoms_plain a q : In q (fatoms a) -> qplain q = true.
Proof.
  induction a; simpl; intros H; auto; try contradiction.
  - destruct H as [<-|[]]. reflexivity.
  - destruct H as [<-|[<-|[]]]; reflexivity.
Qed.
Lemma atoms_of_plain e q : In q (atoms_of e) -> qplain q = true.
Proof.
  induction e using expr_ind'; simpl; intros Hq; try contradiction.
  - destruct Hq as [<-|[]]. reflexivity.
  - eapply fatoms_plain; eauto.
  - apply in_flat_map in Hq. destruct Hq as [x [Hx Hq]]. rewrite Forall_forall in H. eauto.
  - apply in_flat_map in Hq. destruct Hq as [x [Hx Hq]]. rewrite Forall_forall in H. eauto.
  - apply in_app_or in Hq. tauto.
  - apply in_flat_map in Hq. destruct Hq as [x [Hx Hq]]. rewrite Forall_forall in H. eauto.
  - apply in_flat_map in Hq. destruct Hq as [x [Hx Hq]]. rewrite Forall_forall in H. eauto.
  - apply in_flat_map in Hq. destruct Hq as [x [Hx Hq]]. rewrite Forall_forall in H. eauto.
  - apply in_flat_map_flat_map in Hq. destruct Hq as [r [x [Hr [Hx Hq]]]].
    rewrite Forall_forall in H. specialize (H r Hr). rewrite Forall_forall in H. eauto.
  - auto.
  - destruct Hq as [<-|[]]. destruct v; reflexivity.
Qed.

(* the function under every chain over a function is among expr.atoms(...) *)
Lemma chains_atoms e c : In c (chains_of e) -> funatom (snd c) = true -> In (QAtom (unside (snd c))) (atoms_of e).
Proof.
  induction e using expr_ind'; simpl; intros Hc Hf; try contradiction.
  - destruct ops; simpl in Hc; [contradiction|]. destruct Hc as [<-|[]]. simpl in *. now apply fatoms_unside.
  - apply in_flat_map in Hc. destruct Hc as [x [Hx Hc]]. apply in_flat_map. exists x. rewrite Forall_forall in H. auto.
  - apply in_flat_map in Hc. destruct Hc as [x [Hx Hc]]. apply in_flat_map. exists x. rewrite Forall_forall in H. auto.
  - apply in_app_or in Hc. apply in_or_app. tauto.
  - apply in_flat_map in Hc. destruct Hc as [x [Hx Hc]]. apply in_flat_map. exists x. rewrite Forall_forall in H. auto.
  - apply in_flat_map in Hc. destruct Hc as [x [Hx Hc]]. apply in_flat_map. exists x. rewrite Forall_forall in H. auto.
  - apply in_flat_map in Hc. destruct Hc as [x [Hx Hc]]. apply in_flat_map. exists x. rewrite Forall_forall in H. auto.
  - apply in_flat_map_flat_map in Hc. destruct Hc as [r [x [Hr [Hx Hc]]]]. apply in_flat_map_flat_map.
    exists r, x. rewrite Forall_forall in H. specialize (H r Hr). rewrite Forall_forall in H. auto.
  - auto.
Qed.

(* sort_partial_derivatives only reorders *)
Lemma sort_pd_In l c : In c (sort_pd l) <-> In c l.
Proof.
  unfold sort_pd. rewrite in_flat_map. split.
  - intros [k [_ Hk]]. apply filter_In in Hk. tauto.
  - intros H. exists (lead_phys (fst c)). split.
    + rewrite <- in_rev. apply in_seq.
      assert (K : lead_phys (fst c) <= list_max (map (fun c0 : chain => lead_phys (fst c0)) l)).
      { apply list_max_In. apply in_map_iff. eauto. }
      unfold chain in *. lia.
    + apply filter_In. split; auto. apply Nat.eqb_refl.
Qed.

Lemma mapping_eqb_eq a b : mapping_eqb a b = true <-> a = b.
Proof.
  destruct a as [n s|a1 b1], b as [m t|a2 b2]; simpl; try (split; [discriminate|congruence]).
  - rewrite andb_true_iff, String.eqb_eq. split.
    + intros [-> H]. destruct s, t; simpl in H; try discriminate; reflexivity.
    + intros E. inversion E. subst. split; [reflexivity|]. destruct t; reflexivity.
  - rewrite andb_true_iff, !String.eqb_eq. split; [intros [-> ->]; reflexivity|intros E; inversion E; auto].
Qed.

Lemma fatom_eqb_eq a : forall b, fatom_eqb a b = true <-> a = b.
Proof.
  induction a as [n|n i|p a IH|m i]; intros [n'|n' i'|p' a'|m' i']; simpl; try (split; [discriminate|congruence]).
  - rewrite String.eqb_eq. split; congruence.
  - rewrite andb_true_iff, String.eqb_eq, Nat.eqb_eq. split; [intros []|intros E; inversion E]; subst; auto.
  - rewrite andb_true_iff, IH. split.
    + intros [Hp ->]. apply Bool.eqb_prop in Hp. now subst.
    + intros E. inversion E. subst. split; [apply Bool.eqb_reflx|reflexivity].
  - rewrite andb_true_iff, mapping_eqb_eq, Nat.eqb_eq. split; [intros []|intros E; inversion E]; subst; auto.
Qed.

Lemma strip_phys_nil ops : strip_phys ops = [] <-> forallb is_phys ops = true.
Proof.
  induction ops as [|o r IH]; simpl; [tauto|]. destruct (is_phys o); simpl; [exact IH|].
  split; discriminate.
Qed.
Lemma strip_log_nil ops : strip_log ops = [] <-> forallb is_log ops = true.
Proof.
  induction ops as [|o r IH]; simpl; [tauto|]. destruct (is_log o); simpl; [exact IH|].
  split; discriminate.
Qed.

Lemma match_q_spec rest a q : match_q rest a q = true <-> rest = [] /\ q = QAtom a.
Proof.
  destruct q as [f|n]; simpl.
  - destruct rest; [|split; [discriminate|intros []; discriminate]].
    rewrite fatom_eqb_eq. split; [intros ->; auto|intros [_ E]; now inversion E].
  - split; [discriminate|intros [_ E]; discriminate].
Qed.

Lemma index_atom_phys_In e q t :
  In t (index_atom_phys e q) <->
  exists c, In c (find_pd e) /\ forallb is_phys (fst c) = true /\ q = QAtom (snd c) /\ t = phys_index (fst c).
Proof.
  unfold index_atom_phys. rewrite in_flat_map. split.
  - intros [c [Hc Ht]]. apply (proj1 (sort_pd_In _ _)) in Hc.
    destruct (match_q (strip_phys (fst c)) (snd c) q) eqn:E; [|contradiction].
    apply match_q_spec in E. destruct E as [E1 E2]. apply strip_phys_nil in E1.
    destruct Ht as [<-|[]]. exists c. repeat split; auto.
  - intros [c [Hc [Hp [Hq ->]]]]. exists c. split; [now apply sort_pd_In|].
    assert (E : match_q (strip_phys (fst c)) (snd c) q = true).
    { apply match_q_spec. split; auto. now apply strip_phys_nil. }
    rewrite E. simpl. auto.
Qed.

Lemma index_atom_log_In e q t :
  In t (index_atom_log e q) <->
  exists c, In c (find_pd e) /\ forallb is_log (fst c) = true /\ q = QAtom (snd c) /\ t = log_index (fst c).
Proof.
  unfold index_atom_log. rewrite in_flat_map. split.
  - intros [c [Hc Ht]]. apply (proj1 (sort_pd_In _ _)) in Hc.
    destruct (match_q (strip_log (fst c)) (snd c) q) eqn:E; [|contradiction].
    apply match_q_spec in E. destruct E as [E1 E2]. apply strip_log_nil in E1.
    destruct Ht as [<-|[]]. exists c. repeat split; auto.
  - intros [c [Hc [Hp [Hq ->]]]]. exists c. split; [now apply sort_pd_In|].
    assert (E : match_q (strip_log (fst c)) (snd c) q = true).
    { apply match_q_spec. split; auto. now apply strip_log_nil. }
    rewrite E. simpl. auto.
Qed.

(* the list of index dictionaries the maximum is taken over *)
Definition reported_phys (e : expr) (q : option query) : list idx3 :=
  match q with None => flat_map (index_atom_phys e) (atoms_of e) | Some f => index_atom_phys e f end.
Definition reported_log (e : expr) (q : option query) : list idx3 :=
  match q with None => flat_map (index_atom_log e) (atoms_of e) | Some f => index_atom_log e f end.

Lemma get_max_phys_some e q t : get_max_phys e q = Some t -> t = max3 (reported_phys e q).
Proof. destruct q; simpl; [congruence|]. destruct (is_pyseq e); congruence. Qed.
Lemma get_max_log_some e q t : get_max_log e q = Some t -> t = max3 (reported_log e q).
Proof. destruct q; simpl; [congruence|]. destruct (is_pyseq e); congruence. Qed.

Lemma funatom0_funatom a : funatom0 a = true -> funatom a = true.
Proof. destruct a; simpl; auto; discriminate. Qed.
Lemma unside_unsided a : sided a = false -> unside a = a.
Proof. destruct a; simpl; auto; discriminate. Qed.
Lemma fatom_eqb_refl a : fatom_eqb a a = true.
Proof. now apply fatom_eqb_eq. Qed.
Lemma qmatch_own_atom c : qmatch (Some (QAtom (snd c))) c = true.
Proof. simpl. now rewrite fatom_eqb_refl. Qed.

(* every reported dictionary is the index of a chain of the kernel that the query is about *)
Lemma reported_phys_sound e q t :
  In t (reported_phys e q) ->
  exists c, In c (chains_of e) /\ qmatch q c = true /\ t = phys_index (fst c).
Proof.
  destruct q as [f|]; simpl.
  - intros H. apply index_atom_phys_In in H. destruct H as [c [Hc [_ [Hq ->]]]].
    exists c. repeat split; [now apply find_pd_sub|]. subst f. apply qmatch_own_atom.
  - intros H. apply in_flat_map in H. destruct H as [f [Hf H]]. apply index_atom_phys_In in H.
    destruct H as [c [Hc [_ [Hq ->]]]]. exists c. repeat split; [now apply find_pd_sub|].
    subst f. apply atoms_of_plain in Hf. now apply funatom0_funatom.
Qed.
Lemma reported_log_sound e q t :
  In t (reported_log e q) ->
  exists c, In c (chains_of e) /\ qmatch q c = true /\ t = log_index (fst c).
Proof.
  destruct q as [f|]; simpl.
  - intros H. apply index_atom_log_In in H. destruct H as [c [Hc [_ [Hq ->]]]].
    exists c. repeat split; [now apply find_pd_sub|]. subst f. apply qmatch_own_atom.
  - intros H. apply in_flat_map in H. destruct H as [f [Hf H]]. apply index_atom_log_In in H.
    destruct H as [c [Hc [_ [Hq ->]]]]. exists c. repeat split; [now apply find_pd_sub|].
    subst f. apply atoms_of_plain in Hf. now apply funatom0_funatom.
Qed.

Definition novec (q : option query) : Prop := forall n, q <> Some (QVec n).

Lemma qmatch_novec q c :
  novec q -> sided (snd c) = false -> qmatch q c = true ->
  (q = None /\ funatom (snd c) = true) \/ q = Some (QAtom (snd c)).
Proof.
  destruct q as [[f|n]|]; simpl; intros Hn Hs H; auto.
  - right. rewrite (unside_unsided _ Hs), orb_diag in H. apply fatom_eqb_eq in H. now subst.
  - exfalso. now apply (Hn n).
Qed.

(* on the entered fragment with pure chains, every chain the query is about is reported *)
Lemma reported_phys_complete e q c :
  entered e = true -> novec q -> sided (snd c) = false ->
  In c (chains_of e) -> qmatch q c = true -> forallb is_phys (fst c) = true ->
  In (phys_index (fst c)) (reported_phys e q).
Proof.
  intros He Hn Hs Hc Hq Hp. apply qmatch_novec in Hq; auto. destruct Hq as [[-> Hf] | ->]; simpl.
  - apply in_flat_map. exists (QAtom (snd c)). split.
    { rewrite <- (unside_unsided _ Hs) at 1. now apply chains_atoms. }
    apply index_atom_phys_In. exists c. repeat split; auto. now apply find_pd_complete.
  - apply index_atom_phys_In. exists c. repeat split; auto. now apply find_pd_complete.
Qed.
Lemma reported_log_complete e q c :
  entered e = true -> novec q -> sided (snd c) = false ->
  In c (chains_of e) -> qmatch q c = true -> forallb is_log (fst c) = true ->
  In (log_index (fst c)) (reported_log e q).
Proof.
  intros He Hn Hs Hc Hq Hp. apply qmatch_novec in Hq; auto. destruct Hq as [[-> Hf] | ->]; simpl.
  - apply in_flat_map. exists (QAtom (snd c)). split.
    { rewrite <- (unside_unsided _ Hs) at 1. now apply chains_atoms. }
    apply index_atom_log_In. exists c. repeat split; auto. now apply find_pd_complete.
  - apply index_atom_log_In. exists c. repeat split; auto. now apply find_pd_complete.
Qed.

Definition proj_of (d : dop) : idx3 -> nat :=
  match d with Dx | D1 => fst3 | Dy | D2 => snd3 | Dz | D3 => thd3 end.

Lemma proj_phys d ops : is_phys d = true -> proj_of d (phys_index ops) = count d ops.
Proof. destruct d; simpl; try discriminate; reflexivity. Qed.
Lemma proj_log d ops : is_log d = true -> proj_of d (log_index ops) = count d ops.
Proof. destruct d; simpl; try discriminate; reflexivity. Qed.

Lemma proj_max3 d l : proj_of d (max3 l) = list_max (map (proj_of d) l).
Proof. rewrite max3_spec. destruct d; reflexivity. Qed.

Lemma count_pos_In d ops : count d ops <> 0 -> In d ops.
Proof.
  induction ops as [|o r IH]; simpl; [congruence|]. destruct (dop_eqb d o) eqn:E.
  - intros _. left. destruct d, o; simpl in E; congruence.
  - simpl. auto.
Qed.

Lemma pure_with_phys d ops : pure ops = true -> is_phys d = true -> In d ops -> forallb is_phys ops = true.
Proof.
  unfold pure. intros H Hd Hin. apply orb_true_iff in H. destruct H as [H|H]; [exact H|].
  rewrite forallb_forall in H. specialize (H d Hin). unfold is_log in H. rewrite Hd in H. discriminate.
Qed.
Lemma pure_with_log d ops : pure ops = true -> is_log d = true -> In d ops -> forallb is_log ops = true.
Proof.
  unfold pure. intros H Hd Hin. apply orb_true_iff in H. destruct H as [H|H]; [|exact H].
  rewrite forallb_forall in H. specialize (H d Hin). unfold is_log in Hd. rewrite H in Hd. discriminate.
Qed.

(* ------------------------------------------------------------------ the order theorems *)
(* never more than the truth: for every kernel and every query *)
Theorem max_phys_le_true e q t d :
  get_max_phys e q = Some t -> is_phys d = true -> proj_of d t <= true_max d e q.
Proof.
  intros H Hd. apply get_max_phys_some in H. subst t. rewrite proj_max3. unfold true_max.
  apply list_max_le_ex. intros x Hx. apply in_map_iff in Hx. destruct Hx as [t [<- Ht]].
  apply reported_phys_sound in Ht. destruct Ht as [c [Hc [Hq ->]]]. right.
  exists (count d (fst c)). split; [|rewrite proj_phys by assumption; lia].
  apply in_map_iff. exists c. split; auto. apply filter_In. auto.
Qed.
Theorem max_log_le_true e q t d :
  get_max_log e q = Some t -> is_log d = true -> proj_of d t <= true_max d e q.
Proof.
  intros H Hd. apply get_max_log_some in H. subst t. rewrite proj_max3. unfold true_max.
  apply list_max_le_ex. intros x Hx. apply in_map_iff in Hx. destruct Hx as [t [<- Ht]].
  apply reported_log_sound in Ht. destruct Ht as [c [Hc [Hq ->]]]. right.
  exists (count d (fst c)). split; [|rewrite proj_log by assumption; lia].
  apply in_map_iff. exists c. split; auto. apply filter_In. auto.
Qed.

(* exact on the fragment the traversal enters, for pure chains and a query that is not a VectorFunction *)
Theorem max_phys_exact e q t d :
  entered e = true -> pure_chains e = true -> unsided_chains e = true -> novec q ->
  get_max_phys e q = Some t -> is_phys d = true -> proj_of d t = true_max d e q.
Proof.
  intros He Hp Hu Hn H Hd. apply Nat.le_antisymm; [eapply max_phys_le_true; eauto|].
  apply get_max_phys_some in H. subst t. rewrite proj_max3. unfold true_max.
  apply list_max_le_ex. intros x Hx. apply in_map_iff in Hx. destruct Hx as [c [<- Hc]].
  apply filter_In in Hc. destruct Hc as [Hc Hq].
  destruct (Nat.eq_dec (count d (fst c)) 0) as [E|E]; [left; exact E|right].
  unfold pure_chains in Hp. rewrite forallb_forall in Hp. specialize (Hp c Hc).
  assert (Hall : forallb is_phys (fst c) = true) by (eapply pure_with_phys; eauto using count_pos_In).
  exists (proj_of d (phys_index (fst c))). split; [|rewrite proj_phys by assumption; lia].
  apply in_map. apply reported_phys_complete; auto.
  unfold unsided_chains in Hu. rewrite forallb_forall in Hu. specialize (Hu c Hc). now apply negb_true_iff in Hu.
Qed.
Theorem max_log_exact e q t d :
  entered e = true -> pure_chains e = true -> unsided_chains e = true -> novec q ->
  get_max_log e q = Some t -> is_log d = true -> proj_of d t = true_max d e q.
Proof.
  intros He Hp Hu Hn H Hd. apply Nat.le_antisymm; [eapply max_log_le_true; eauto|].
  apply get_max_log_some in H. subst t. rewrite proj_max3. unfold true_max.
  apply list_max_le_ex. intros x Hx. apply in_map_iff in Hx. destruct Hx as [c [<- Hc]].
  apply filter_In in Hc. destruct Hc as [Hc Hq].
  destruct (Nat.eq_dec (count d (fst c)) 0) as [E|E]; [left; exact E|right].
  unfold pure_chains in Hp. rewrite forallb_forall in Hp. specialize (Hp c Hc).
  assert (Hall : forallb is_log (fst c) = true) by (eapply pure_with_log; eauto using count_pos_In).
  exists (proj_of d (log_index (fst c))). split; [|rewrite proj_log by assumption; lia].
  apply in_map. apply reported_log_complete; auto.
  unfold unsided_chains in Hu. rewrite forallb_forall in Hu. specialize (Hu c Hc). now apply negb_true_iff in Hu.
Qed.

(* a report is refused only for a python list/tuple without F *)
Theorem max_refused_iff e q :
  (get_max_phys e q = None <-> q = None /\ is_pyseq e = true) /\
  (get_max_log e q = None <-> q = None /\ is_pyseq e = true).
Proof.
  split; (destruct q; simpl; [split; [discriminate|intros []; discriminate]|]);
    (destruct (is_pyseq e); split; try discriminate; auto; intros []; discriminate).
Qed.

(* what the traversal misses (each witness is confirmed on the real code by the check) *)
Definition u := FScal "u".
Theorem max_matrix_refuted :
  exists e, get_max_phys e None = Some (0, 0, 0) /\ true_max Dx e None = 1 /\ pure_chains e = true.
Proof. exists (Mat false [[Chain [Dx] u]]). repeat split. Qed.
Theorem max_function_refuted :
  exists e, get_max_phys e None = Some (0, 0, 0) /\ true_max Dx e None = 1 /\ pure_chains e = true.
Proof. exists (Fn "sin" [Chain [Dx] u]). repeat split. Qed.
Theorem max_exponent_refuted :
  exists e, get_max_phys e None = Some (0, 0, 0) /\ true_max Dx e None = 1 /\ pure_chains e = true.
Proof. exists (Pow (Num "2") (Chain [Dx] u)). repeat split. Qed.
Theorem max_mixed_refuted :
  exists e, entered e = true /\
    get_max_phys e None = Some (0, 0, 0) /\ true_max Dx e None = 1 /\
    get_max_log e None = Some (0, 0, 0) /\ true_max D1 e None = 1.
Proof. exists (Chain [Dx; D1] u). repeat split. Qed.
Theorem max_vector_query_refuted :
  exists e q, entered e = true /\ pure_chains e = true /\
    get_max_phys e (Some q) = Some (0, 0, 0) /\ true_max Dx e (Some q) = 1.
Proof. exists (Chain [Dx] (FComp "w" 0)), (QVec "w"). repeat split. Qed.

(* the side of an interface: dx(minus(u)) is found but not counted, overall and for F = u; also with the repairs
   ea and vq of the current code *)
Theorem max_side_refuted :
  exists e, entered e = true /\ pure_chains e = true /\
    get_max_phys e None = Some (0, 0, 0) /\ get_max_phys e (Some (QAtom u)) = Some (0, 0, 0) /\
    get_max_phys_g true true false e None = Some (0, 0, 0) /\
    true_max Dx e None = 1 /\ true_max Dx e (Some (QAtom u)) = 1.
Proof. exists (Chain [Dx] (FSide false u)). repeat split. Qed.
(* chains over mapping components are no derivatives of a function: they are neither reported nor counted *)
Example max_mapping_chain_not_counted :
  let k := Mul [Chain [D1; D1] (FMap (MPlain "M" SNone) 0); Chain [D1] u] in
  get_max_log_g true true true k None = Some (1, 0, 0) /\ true_max D1 k None = 1 /\
  find_pd_g true k = [([D1; D1], FMap (MPlain "M" SNone) 0); ([D1], u)].
Proof. repeat split. Qed.

(* ================================================================== the functions with the proposed repairs *)
(* all flags false: the functions of the original code *)
Lemma symbolic_g_false e : symbolic_g false e = symbolic e.
Proof.
  induction e using expr_ind'; simpl; try reflexivity; auto;
    try (f_equal; apply mapM_ext_Forall; assumption).
  - rewrite IHe1. destruct (symbolic e1); reflexivity.
  - f_equal. apply mapM_ext_Forall. eapply Forall_impl; [|exact H]. intros r Hr. now apply mapM_ext_Forall.
Qed.

Lemma flat_map_ext_Forall {A B} (f g : A -> list B) l :
  Forall (fun x => f x = g x) l -> flat_map f l = flat_map g l.
Proof. induction 1; simpl; congruence. Qed.

Lemma find_pd_g_false e : find_pd_g false e = find_pd e.
Proof.
  induction e using expr_ind'; simpl; try reflexivity; try (apply flat_map_ext_Forall; assumption).
  assumption.
Qed.

Lemma match_q_g_false rest a q : match_q_g false false rest a q = match_q rest a q.
Proof. destruct q; simpl; [|reflexivity]. destruct rest; [apply orb_diag|reflexivity]. Qed.

Lemma flat_map_ext_all {A B} (f g : A -> list B) l : (forall x, f x = g x) -> flat_map f l = flat_map g l.
Proof. intros H. induction l; simpl; congruence. Qed.

Lemma index_atom_g_false e q :
  index_atom_phys_g false false false e q = index_atom_phys e q /\
  index_atom_log_g false false false e q = index_atom_log e q.
Proof.
  unfold index_atom_phys_g, index_atom_log_g, index_atom_phys, index_atom_log. rewrite find_pd_g_false.
  split; apply flat_map_ext_all; intros c; now rewrite match_q_g_false.
Qed.

Theorem current_code_is_all_flags_false e q :
  symbolic_g false e = symbolic e /\ find_pd_g false e = find_pd e /\
  get_max_phys_g false false false e q = get_max_phys e q /\ get_max_log_g false false false e q = get_max_log e q.
Proof.
  split; [apply symbolic_g_false|]. split; [apply find_pd_g_false|].
  unfold get_max_phys_g, get_max_log_g, get_max_phys, get_max_log.
  destruct q as [f|].
  - destruct (index_atom_g_false e f) as [-> ->]. auto.
  - assert (E1 : flat_map (index_atom_phys_g false false false e) (atoms_of e) = flat_map (index_atom_phys e) (atoms_of e))
      by (apply flat_map_ext_all; intros f; apply index_atom_g_false).
    assert (E2 : flat_map (index_atom_log_g false false false e) (atoms_of e) = flat_map (index_atom_log e) (atoms_of e))
      by (apply flat_map_ext_all; intros f; apply index_atom_g_false).
    rewrite E1, E2. auto.
Qed.

(* with the exponent translated, SymbolicExpr is the homomorphic extension for EVERY kernel *)
Theorem symbolic_g_true_is_subst e : symbolic_g true e = subst chain_name e.
Proof.
  induction e using expr_ind'; simpl; try reflexivity; auto;
    try (f_equal; apply mapM_ext_Forall; assumption).
  - now rewrite IHe1, IHe2.
  - f_equal. apply mapM_ext_Forall. eapply Forall_impl; [|exact H]. intros r Hr. now apply mapM_ext_Forall.
  - destruct g; reflexivity.
Qed.
Theorem symbolic_g_true_plain e r : symbolic_g true e = Ok r -> plainb r = true.
Proof. rewrite symbolic_g_true_is_subst. apply subst_plainb. Qed.

(* ------------------------------------------------------------------ when SymbolicExpr raises *)
(* an atom has a name unless it is a fourth, fifth, ... component of a mapping *)
Fixpoint atom_ok (a : fatom) : bool :=
  match a with FSide _ a' => atom_ok a' | FMap _ i => Nat.ltb i 3 | _ => true end.
(* every object of the kernel has a translation *)
Fixpoint translatable (e : expr) : bool :=
  match e with
  | Opaque _ => false
  | Chain _ a => atom_ok a
  | Add l | Mul l | Fn _ l | Tup l | Seq l => forallb translatable l
  | Pow b x => translatable b && translatable x
  | Mat _ rows => forallb (forallb translatable) rows
  | Side _ x | PB _ _ x => translatable x
  | _ => true
  end.

Lemma atom_name_total a code : (exists s, atom_name a code = Ok s) <-> atom_ok a = true.
Proof.
  induction a as [n|n i|p a IH|m i]; simpl; try (split; eauto; fail); [exact IH|].
  destruct i as [|[|[|i]]]; simpl; split; eauto; try discriminate. intros [s E]. discriminate.
Qed.
Lemma chain_eval_total cur ops a code : (exists s, chain_eval cur ops a code = Ok s) <-> atom_ok a = true.
Proof.
  revert cur code. induction ops as [|o r IH]; intros cur code; simpl; [apply atom_name_total|].
  destruct (match cur with Some c => kind_eqb c (kind_of o) | None => false end); apply IH.
Qed.
Lemma rmap_total {A B} (f : A -> B) r : (exists b, rmap f r = Ok b) <-> (exists a, r = Ok a).
Proof. destruct r; simpl; split; intros [x E]; eauto; discriminate. Qed.
Lemma forallb_Forall_iff {A} (p : A -> bool) l : forallb p l = true <-> Forall (fun x => p x = true) l.
Proof.
  induction l; simpl; [split; auto|]. rewrite andb_true_iff, IHl. split; [intros []; auto|].
  intros H. inversion H. auto.
Qed.
Lemma Forall_iff {A} (P Q : A -> Prop) l : Forall (fun x => P x <-> Q x) l -> (Forall P l <-> Forall Q l).
Proof. induction 1; split; intros K; inversion K; subst; constructor; tauto. Qed.

(* SymbolicExpr returns a result exactly when every object of the kernel has a translation *)
Theorem symbolic_total_iff e : (exists r, symbolic_g true e = Ok r) <-> translatable e = true.
Proof.
  induction e using expr_ind'; simpl; try (split; eauto; fail); auto;
    try (rewrite rmap_total, mapM_total, forallb_Forall_iff; apply Forall_iff; assumption).
  - rewrite rmap_total. apply chain_eval_total.
  - rewrite andb_true_iff, <- IHe1, <- IHe2. split.
    + intros [r E]. destruct (symbolic_g true e1); [|discriminate]. simpl in E. apply rmap_ok in E.
      destruct E as [x [E _]]. eauto.
    + intros [[b ->] [x ->]]. simpl. eauto.
  - rewrite rmap_total, mapM_total, forallb_Forall_iff. apply Forall_iff.
    eapply Forall_impl; [|exact H]. intros r Hr. rewrite mapM_total, forallb_Forall_iff. now apply Forall_iff.
  - destruct g; split; eauto.
  - split; [intros [r E]; discriminate|discriminate].
Qed.
(* a kernel with an object that has no arm is refused, a kernel with a fourth mapping component as well *)
Example symbolic_raises :
  symbolic_g true (Add [Chain [Dx] (FScal "u"); Opaque true]) = Err ENotImpl /\
  symbolic_g true (Mul [Sym "t"; Chain [D1] (FMap (MPlain "M" SNone) 3)]) = Err EValue /\
  symbolic_g true (PB "w" true (Mul [Opaque true; Vec "w"])) = Err ENotImpl.
Proof. repeat split. Qed.

(* with every sub-expression entered, the traversal returns exactly the chains of the kernel *)
Lemma find_pd_g_true e : find_pd_g true e = chains_of e.
Proof.
  induction e using expr_ind'; simpl; try reflexivity; auto; try (apply flat_map_ext_Forall; assumption).
  - now rewrite IHe1, IHe2.
  - apply flat_map_ext_Forall. eapply Forall_impl; [|exact H]. intros r Hr. now apply flat_map_ext_Forall.
Qed.

Lemma find_pd_g_sub ea e : forall c, In c (find_pd_g ea e) -> In c (chains_of e).
Proof.
  destruct ea; [rewrite find_pd_g_true; auto|]. rewrite find_pd_g_false. apply find_pd_sub.
Qed.

Lemma match_q_g_spec vq sq rest a q :
  match_q_g vq sq rest a q = true -> rest = [] /\ qmatch (Some q) (rest, a) = true.
Proof.
  destruct q as [f|n]; simpl.
  - destruct rest; [|discriminate]. intros H. split; [reflexivity|].
    destruct sq; [exact H|]. rewrite orb_diag in H. now rewrite H.
  - intros H. apply andb_true_iff in H. destruct H as [_ H]. destruct rest; [|destruct sq; discriminate].
    split; [reflexivity|]. destruct sq; [exact H|]. destruct a; try discriminate. exact H.
Qed.
Lemma match_q_g_true rest a q :
  rest = [] -> qmatch (Some q) (rest, a) = true -> match_q_g true true rest a q = true.
Proof. intros ->. destruct q as [f|n]; simpl; auto. Qed.

Lemma qmatch_fst q ops1 ops2 a : qmatch q (ops1, a) = qmatch q (ops2, a).
Proof. destruct q as [[f|n]|]; reflexivity. Qed.

Definition reported_phys_g ea vq sq (e : expr) (q : option query) : list idx3 :=
  match q with None => flat_map (index_atom_phys_g ea vq sq e) (atoms_of e) | Some f => index_atom_phys_g ea vq sq e f end.
Definition reported_log_g ea vq sq (e : expr) (q : option query) : list idx3 :=
  match q with None => flat_map (index_atom_log_g ea vq sq e) (atoms_of e) | Some f => index_atom_log_g ea vq sq e f end.

Lemma get_max_phys_g_some ea vq sq e q t : get_max_phys_g ea vq sq e q = Some t -> t = max3 (reported_phys_g ea vq sq e q).
Proof. destruct q; simpl; [congruence|]. destruct (is_pyseq e); congruence. Qed.
Lemma get_max_log_g_some ea vq sq e q t : get_max_log_g ea vq sq e q = Some t -> t = max3 (reported_log_g ea vq sq e q).
Proof. destruct q; simpl; [congruence|]. destruct (is_pyseq e); congruence. Qed.

Lemma index_atom_phys_g_sound ea vq sq e f t :
  In t (index_atom_phys_g ea vq sq e f) ->
  exists c, In c (chains_of e) /\ qmatch (Some f) c = true /\ t = phys_index (fst c).
Proof.
  unfold index_atom_phys_g. rewrite in_flat_map. intros [c [Hc Ht]]. apply (proj1 (sort_pd_In _ _)) in Hc.
  destruct (match_q_g vq sq (strip_phys (fst c)) (snd c) f) eqn:E; [|contradiction].
  apply match_q_g_spec in E. destruct E as [_ E]. destruct Ht as [<-|[]].
  exists c. split; [eapply find_pd_g_sub; eauto|]. split; [|reflexivity].
  destruct c as [ops a]. exact E.
Qed.
Lemma index_atom_log_g_sound ea vq sq e f t :
  In t (index_atom_log_g ea vq sq e f) ->
  exists c, In c (chains_of e) /\ qmatch (Some f) c = true /\ t = log_index (fst c).
Proof.
  unfold index_atom_log_g. rewrite in_flat_map. intros [c [Hc Ht]]. apply (proj1 (sort_pd_In _ _)) in Hc.
  destruct (match_q_g vq sq (strip_log (fst c)) (snd c) f) eqn:E; [|contradiction].
  apply match_q_g_spec in E. destruct E as [_ E]. destruct Ht as [<-|[]].
  exists c. split; [eapply find_pd_g_sub; eauto|]. split; [|reflexivity].
  destruct c as [ops a]. exact E.
Qed.

(* a chain that a plain function / component / vector function is asked about is a chain over a function *)
Lemma qmatch_plain_fun q c : qplain q = true -> qmatch (Some q) c = true -> funatom (snd c) = true.
Proof.
  destruct q as [f|n]; simpl; intros Hp H.
  - rewrite funatom_unside. apply orb_true_iff in H. destruct H as [H|H]; apply fatom_eqb_eq in H.
    + rewrite H. destruct f; try discriminate; reflexivity.
    + now rewrite H.
  - rewrite funatom_unside. destruct (unside (snd c)); try discriminate. reflexivity.
Qed.

Lemma reported_phys_g_sound ea vq sq e q t :
  In t (reported_phys_g ea vq sq e q) -> exists c, In c (chains_of e) /\ qmatch q c = true /\ t = phys_index (fst c).
Proof.
  destruct q as [f|]; simpl; [apply index_atom_phys_g_sound|].
  intros H. apply in_flat_map in H. destruct H as [f [Hf H]]. apply index_atom_phys_g_sound in H.
  destruct H as [c [Hc [Hq ->]]]. exists c. repeat split; auto.
  eapply qmatch_plain_fun; eauto using atoms_of_plain.
Qed.
Lemma reported_log_g_sound ea vq sq e q t :
  In t (reported_log_g ea vq sq e q) -> exists c, In c (chains_of e) /\ qmatch q c = true /\ t = log_index (fst c).
Proof.
  destruct q as [f|]; simpl; [apply index_atom_log_g_sound|].
  intros H. apply in_flat_map in H. destruct H as [f [Hf H]]. apply index_atom_log_g_sound in H.
  destruct H as [c [Hc [Hq ->]]]. exists c. repeat split; auto.
  eapply qmatch_plain_fun; eauto using atoms_of_plain.
Qed.

Lemma index_atom_phys_g_complete e f c :
  In c (chains_of e) -> qmatch (Some f) c = true -> forallb is_phys (fst c) = true ->
  In (phys_index (fst c)) (index_atom_phys_g true true true e f).
Proof.
  intros Hc Hq Hp. unfold index_atom_phys_g. apply in_flat_map. exists c. split.
  - apply sort_pd_In. now rewrite find_pd_g_true.
  - assert (E : match_q_g true true (strip_phys (fst c)) (snd c) f = true).
    { apply match_q_g_true; [now apply strip_phys_nil|]. destruct c as [ops a]. exact Hq. }
    rewrite E. simpl. auto.
Qed.
Lemma index_atom_log_g_complete e f c :
  In c (chains_of e) -> qmatch (Some f) c = true -> forallb is_log (fst c) = true ->
  In (log_index (fst c)) (index_atom_log_g true true true e f).
Proof.
  intros Hc Hq Hp. unfold index_atom_log_g. apply in_flat_map. exists c. split.
  - apply sort_pd_In. now rewrite find_pd_g_true.
  - assert (E : match_q_g true true (strip_log (fst c)) (snd c) f = true).
    { apply match_q_g_true; [now apply strip_log_nil|]. destruct c as [ops a]. exact Hq. }
    rewrite E. simpl. auto.
Qed.

(* the function under a chain: the chain is one of its chains *)
Lemma qmatch_self c : qmatch (Some (QAtom (unside (snd c)))) c = true.
Proof. simpl. rewrite fatom_eqb_refl. apply orb_true_r. Qed.

(* never more than the truth, whatever repairs are applied *)
Theorem max_phys_g_le_true ea vq sq e q t d :
  get_max_phys_g ea vq sq e q = Some t -> is_phys d = true -> proj_of d t <= true_max d e q.
Proof.
  intros H Hd. apply get_max_phys_g_some in H. subst t. rewrite proj_max3. unfold true_max.
  apply list_max_le_ex. intros x Hx. apply in_map_iff in Hx. destruct Hx as [t [<- Ht]].
  apply reported_phys_g_sound in Ht. destruct Ht as [c [Hc [Hq ->]]]. right.
  exists (count d (fst c)). split; [|rewrite proj_phys by assumption; lia].
  apply in_map_iff. exists c. split; auto. apply filter_In. auto.
Qed.
Theorem max_log_g_le_true ea vq sq e q t d :
  get_max_log_g ea vq sq e q = Some t -> is_log d = true -> proj_of d t <= true_max d e q.
Proof.
  intros H Hd. apply get_max_log_g_some in H. subst t. rewrite proj_max3. unfold true_max.
  apply list_max_le_ex. intros x Hx. apply in_map_iff in Hx. destruct Hx as [t [<- Ht]].
  apply reported_log_g_sound in Ht. destruct Ht as [c [Hc [Hq ->]]]. right.
  exists (count d (fst c)). split; [|rewrite proj_log by assumption; lia].
  apply in_map_iff. exists c. split; auto. apply filter_In. auto.
Qed.

(* with the repairs: exact for EVERY kernel (matrices, functions, exponents, interface operators) and every query,
   pure chains *)
Theorem max_phys_g_exact e q t d :
  pure_chains e = true -> get_max_phys_g true true true e q = Some t -> is_phys d = true ->
  proj_of d t = true_max d e q.
Proof.
  intros Hp H Hd. apply Nat.le_antisymm; [eapply max_phys_g_le_true; eauto|].
  apply get_max_phys_g_some in H. subst t. rewrite proj_max3. unfold true_max.
  apply list_max_le_ex. intros x Hx. apply in_map_iff in Hx. destruct Hx as [c [<- Hc]].
  apply filter_In in Hc. destruct Hc as [Hc Hq].
  destruct (Nat.eq_dec (count d (fst c)) 0) as [E|E]; [left; exact E|right].
  unfold pure_chains in Hp. rewrite forallb_forall in Hp. specialize (Hp c Hc).
  assert (Hall : forallb is_phys (fst c) = true) by (eapply pure_with_phys; eauto using count_pos_In).
  exists (proj_of d (phys_index (fst c))). split; [|rewrite proj_phys by assumption; lia].
  apply in_map. destruct q as [f|]; simpl.
  - now apply index_atom_phys_g_complete.
  - apply in_flat_map. exists (QAtom (unside (snd c))). split; [now apply chains_atoms|].
    apply index_atom_phys_g_complete; auto using qmatch_self.
Qed.
Theorem max_log_g_exact e q t d :
  pure_chains e = true -> get_max_log_g true true true e q = Some t -> is_log d = true ->
  proj_of d t = true_max d e q.
Proof.
  intros Hp H Hd. apply Nat.le_antisymm; [eapply max_log_g_le_true; eauto|].
  apply get_max_log_g_some in H. subst t. rewrite proj_max3. unfold true_max.
  apply list_max_le_ex. intros x Hx. apply in_map_iff in Hx. destruct Hx as [c [<- Hc]].
  apply filter_In in Hc. destruct Hc as [Hc Hq].
  destruct (Nat.eq_dec (count d (fst c)) 0) as [E|E]; [left; exact E|right].
  unfold pure_chains in Hp. rewrite forallb_forall in Hp. specialize (Hp c Hc).
  assert (Hall : forallb is_log (fst c) = true) by (eapply pure_with_log; eauto using count_pos_In).
  exists (proj_of d (log_index (fst c))). split; [|rewrite proj_log by assumption; lia].
  apply in_map. destruct q as [f|]; simpl.
  - now apply index_atom_log_g_complete.
  - apply in_flat_map. exists (QAtom (unside (snd c))). split; [now apply chains_atoms|].
    apply index_atom_log_g_complete; auto using qmatch_self.
Qed.

(* the current code (every sub-expression entered, VectorFunction queries, interface operators not looked
   through): exact for every kernel without chains over a function restricted to a side of an interface *)
Lemma match_q_g_unsided vq rest a q : sided a = false -> match_q_g vq false rest a q = match_q_g vq true rest a q.
Proof. intros H. unfold match_q_g. now rewrite (unside_unsided _ H). Qed.

Lemma index_atom_g_unsided e f :
  unsided_chains e = true ->
  index_atom_phys_g true true false e f = index_atom_phys_g true true true e f /\
  index_atom_log_g true true false e f = index_atom_log_g true true true e f.
Proof.
  intros Hu. unfold unsided_chains in Hu. rewrite forallb_forall in Hu.
  unfold index_atom_phys_g, index_atom_log_g. split; apply flat_map_ext_Forall; apply Forall_forall; intros c Hc;
    apply (proj1 (sort_pd_In _ _)) in Hc; rewrite find_pd_g_true in Hc; specialize (Hu c Hc); apply negb_true_iff in Hu;
    now rewrite (match_q_g_unsided _ _ _ _ Hu).
Qed.

Theorem max_g_current_exact e q t d :
  pure_chains e = true -> unsided_chains e = true ->
  (get_max_phys_g true true false e q = Some t -> is_phys d = true -> proj_of d t = true_max d e q) /\
  (get_max_log_g true true false e q = Some t -> is_log d = true -> proj_of d t = true_max d e q).
Proof.
  intros Hp Hu.
  assert (E : get_max_phys_g true true false e q = get_max_phys_g true true true e q /\
              get_max_log_g true true false e q = get_max_log_g true true true e q).
  { unfold get_max_phys_g, get_max_log_g. destruct q as [f|].
    - destruct (index_atom_g_unsided e f Hu) as [-> ->]. auto.
    - rewrite (flat_map_ext_all (index_atom_phys_g true true false e) (index_atom_phys_g true true true e))
        by (intros f; apply index_atom_g_unsided; exact Hu).
      rewrite (flat_map_ext_all (index_atom_log_g true true false e) (index_atom_log_g true true true e))
        by (intros f; apply index_atom_g_unsided; exact Hu). auto. }
  destruct E as [-> ->]. split; intros; [eapply max_phys_g_exact|eapply max_log_g_exact]; eauto.
Qed.
