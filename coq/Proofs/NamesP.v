From Coq Require Import String List Bool Arith.
From V Require Import Model.NamesM.
Import ListNotations.
Lemma symbolic_add l : symbolic (Add l) = Add (map symbolic l).
Proof. reflexivity. Qed.
