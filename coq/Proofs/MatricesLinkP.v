(* The two meanings of a symbolic matrix expression agree.

   [mden d e]  (Model/MatricesM.v) is the EXECUTABLE meaning used by the generated case files: a d x d matrix of
               terminal expressions (d = 1, 2, 3; determinant and inverse by the explicit cofactor formulas), whose
               entries the verified checker [tequiv] compares;
   [den .. e]  (Proofs/MatricesP.v) is the meaning the soundness theorems of the constructors are about: a d x d
               matrix over an arbitrary field, scalars embedded as multiples of the identity.

   Here: for every differential field S (used only as a field with an environment for the atoms), with the atoms
   read as in [mden] (Jacobian(M)[i][j] = d_j M_i, Grad(F)[i][j] = d_i F_j, ...) and the determinant / inverse
   functions given by the same cofactor formulas on field elements,
        mden d e = Some (Sc t)   ->  den e == (ev S t) * identity
        mden d e = Some (Mat A)  ->  den e == the matrix of the values of the entries of A
   for all trees in the fragment [linkable] (integer powers: of a commutative base, or non-negative powers of a
   matrix-valued base).  Hence a per-case kernel verdict "mden R ~ mden L" is a statement about [den]. *)
From Coq Require Import String ZArith QArith List Bool Arith Lia Setoid Morphisms.
From Coq Require Import Ring_theory Field_theory Field.
From V Require Import Core.FieldEq Core.Terminal Core.TerminalP Core.DField Core.Classical.
From V Require Import Model.MatricesM Proofs.MatricesP.
Import ListNotations.
Close Scope Q_scope.

Section Link.
  Variable S : dfield.
  Add Field SFL : (Fth S).
  Variable d : nat.

  Notation K := (F S).
  Notation "0" := (f0 S). Notation "1" := (f1 S).
  Infix "+" := (fadd S). Infix "*" := (fmul S). Infix "-" := (fsub S). Infix "/" := (fdiv S).

  Notation Meq := (meq K d).
  Notation MI := (mI K (f0 S)).
  Notation Madd := (madd K (fadd S)).
  Notation Mmul := (mmul K (f0 S) (fadd S) (fmul S) d).
  Notation Mt := (mT K).
  Notation Mtr := (mtr K (f0 S) (fadd S) d).
  Notation Bsum := (bsum K (f0 S) (fadd S)).
  Infix "==" := (meq K d) (at level 70).

  Local Instance L_equiv : Equivalence Meq := meq_equiv K d.
  Local Instance L_madd : Proper (Meq ==> Meq ==> Meq) Madd := madd_proper K (fadd S) d.
  Local Instance L_mmul : Proper (Meq ==> Meq ==> Meq) Mmul := mmul_proper K (f0 S) (fadd S) (fmul S) d.
  Local Instance L_mT : Proper (Meq ==> Meq) Mt := mT_proper K d.

  (* ---------------------------------------------------------------- values of matrices of terminal expressions *)
  Definition tm (A : tmat) : mat K := fun i j => ev S (ment A i j).

  Lemma nth_seq0 n : forall i, (i < n)%nat -> nth i (seq0 n) O = i.
  Proof.
    induction n as [|n IH]; intros i Hi; [lia|]. simpl.
    assert (Hl : length (seq0 n) = n).
    { clear. induction n as [|n IH]; simpl; [reflexivity|]. rewrite app_length, IH. simpl. lia. }
    destruct (Nat.eq_dec i n) as [->|Hne].
    - rewrite app_nth2 by lia. rewrite Hl, Nat.sub_diag. reflexivity.
    - rewrite app_nth1 by lia. apply IH. lia.
  Qed.
  Lemma length_seq0 n : length (seq0 n) = n.
  Proof. induction n as [|n IH]; simpl; [reflexivity|]. rewrite app_length, IH. simpl. lia. Qed.

  Lemma ment_mk_mat n f i j : (i < n)%nat -> (j < n)%nat -> ment (mk_mat n f) i j = f i j.
  Proof.
    intros Hi Hj. unfold ment, mk_mat.
    rewrite (nth_indep _ [] (map (fun j0 => f O j0) (seq0 n))) by (rewrite map_length, length_seq0; exact Hi).
    rewrite (map_nth (fun i0 => map (fun j0 => f i0 j0) (seq0 n)) (seq0 n) O i).
    rewrite (nth_seq0 n i Hi).
    rewrite (nth_indep _ (TZ 0) (f i O)) by (rewrite map_length, length_seq0; exact Hj).
    rewrite (map_nth (fun j0 => f i j0) (seq0 n) O j), (nth_seq0 n j Hj). reflexivity.
  Qed.

  Lemma ev_tsum_fold l : ev S (tsum l) = fold_right (fun x acc => ev S x + acc) 0 l.
  Proof.
    induction l as [|x l IH].
    - reflexivity.
    - destruct l as [|y r].
      + simpl. ring.
      + replace (ev S (tsum (x :: y :: r))) with (ev S x + ev S (tsum (y :: r))) by reflexivity.
        rewrite IH. reflexivity.
  Qed.
  Lemma ev_tsum_app l x : ev S (tsum (l ++ [x])) = ev S (tsum l) + ev S x.
  Proof.
    rewrite !ev_tsum_fold. induction l as [|y l IH]; simpl; [ring|]. rewrite IH. ring.
  Qed.
  Lemma ev_tsum_seq0 n (f : nat -> texpr) : ev S (tsum (map f (seq0 n))) = Bsum n (fun k => ev S (f k)).
  Proof.
    induction n as [|n IH]; simpl.
    - reflexivity.
    - rewrite map_app. simpl. rewrite ev_tsum_app, IH. reflexivity.
  Qed.

  Lemma tm_add A B : tm (t_add d A B) == Madd (tm A) (tm B).
  Proof. intros i j Hi Hj. unfold tm, t_add. rewrite ment_mk_mat by assumption. reflexivity. Qed.
  Lemma tm_mul A B : tm (t_mul d A B) == Mmul (tm A) (tm B).
  Proof.
    intros i j Hi Hj. unfold tm, t_mul. rewrite ment_mk_mat by assumption.
    rewrite ev_tsum_seq0. reflexivity.
  Qed.
  Lemma tm_scale x A : tm (t_scale d x A) == Mmul (MI (ev S x)) (tm A).
  Proof.
    rewrite (mmul_mI_l _ _ _ _ _ _ _ _ _ (Fth S) d).
    intros i j Hi Hj. unfold tm, t_scale. rewrite ment_mk_mat by assumption. reflexivity.
  Qed.
  Lemma tm_transpose A : tm (t_transpose d A) == Mt (tm A).
  Proof. intros i j Hi Hj. unfold tm, t_transpose, mT. rewrite ment_mk_mat by assumption. reflexivity. Qed.
  Lemma ev_trace A : ev S (t_trace d A) = Mtr (tm A).
  Proof. unfold t_trace. rewrite ev_tsum_seq0. reflexivity. Qed.
  Lemma tm_ident : tm (t_ident d) == MI 1.
  Proof.
    intros i j Hi Hj. unfold tm, t_ident, mI. rewrite ment_mk_mat by assumption.
    destruct (Nat.eqb i j); reflexivity.
  Qed.

  (* ---------------------------------------------------------------- determinant and inverse: the same formulas *)
  Definition fdet2 (a b c e : K) : K := a * e - b * c.
  Definition fdet (n : nat) (A : mat K) : K :=
    match n with
    | 1%nat => A 0%nat 0%nat
    | 2%nat => fdet2 (A 0%nat 0%nat) (A 0%nat 1%nat) (A 1%nat 0%nat) (A 1%nat 1%nat)
    | 3%nat => (A 0%nat 0%nat * fdet2 (A 1%nat 1%nat) (A 1%nat 2%nat) (A 2%nat 1%nat) (A 2%nat 2%nat)
                - A 0%nat 1%nat * fdet2 (A 1%nat 0%nat) (A 1%nat 2%nat) (A 2%nat 0%nat) (A 2%nat 2%nat))
               + A 0%nat 2%nat * fdet2 (A 1%nat 0%nat) (A 1%nat 1%nat) (A 2%nat 0%nat) (A 2%nat 1%nat)
    | _ => f0 S
    end.
  Definition fcof3 (A : mat K) (i j : nat) : K :=
    let i1 := Nat.modulo (i + 1) 3 in let i2 := Nat.modulo (i + 2) 3 in
    let j1 := Nat.modulo (j + 1) 3 in let j2 := Nat.modulo (j + 2) 3 in
    fdet2 (A i1 j1) (A i1 j2) (A i2 j1) (A i2 j2).
  Definition finvm (n : nat) (A : mat K) : mat K :=
    match n with
    | 1%nat => fun _ _ => finv S (fdet n A)
    | 2%nat => fun i j => match i, j with
                      | O, O => A 1%nat 1%nat / fdet n A
                      | O, _ => fopp S (A 0%nat 1%nat) / fdet n A
                      | _, O => fopp S (A 1%nat 0%nat) / fdet n A
                      | _, _ => A 0%nat 0%nat / fdet n A
                      end
    | 3%nat => fun i j => fcof3 A j i / fdet n A
    | _ => A
    end.

  Lemma ev_det A t : t_det d A = Some t -> ev S t = fdet d (tm A).
  Proof.
    unfold t_det, fdet. destruct d as [|[|[|[|n]]]]; try discriminate; intros H; injection H as <-; reflexivity.
  Qed.
  Lemma tm_inv A B : t_inv d A = Some B -> tm B == finvm d (tm A).
  Proof.
    unfold t_inv, finvm.
    destruct d as [|[|[|[|n]]]]; cbn [t_det]; try discriminate; intros H; injection H as <-; intros i j Hi Hj.
    - assert (i = 0)%nat as -> by lia. assert (j = 0)%nat as -> by lia. reflexivity.
    - destruct i as [|[|i]]; try lia; destruct j as [|[|j]]; try lia; reflexivity.
    - unfold tm at 1. rewrite ment_mk_mat by assumption. reflexivity.
  Qed.

  Global Instance fdet_proper : Proper (Meq ==> eq) (fdet d).
  Proof.
    intros A B H. unfold fdet, fdet2. destruct d as [|[|[|[|n]]]]; try reflexivity;
      repeat rewrite (H _ _) by lia; reflexivity.
  Qed.
  Lemma mod3_lt n : (Nat.modulo n 3 < 3)%nat.
  Proof. apply Nat.mod_upper_bound. lia. Qed.
  Global Instance finvm_proper : Proper (Meq ==> Meq) (finvm d).
  Proof.
    intros A B H i j Hi Hj. unfold finvm. pose proof (fdet_proper _ _ H) as Hd.
    destruct d as [|[|[|[|n]]]] eqn:Ed; try lia.
    - rewrite Hd. reflexivity.
    - rewrite Hd. destruct i as [|[|i]]; try lia; destruct j as [|[|j]]; try lia;
        repeat rewrite (H _ _) by lia; reflexivity.
    - rewrite Hd. unfold fcof3. repeat rewrite (H _ _) by apply mod3_lt. reflexivity.
    - apply H; assumption.
  Qed.

  (* ---------------------------------------------------------------- the interpretation of the atoms *)
  Definition lenvS (k : skind) (n : string) : K :=
    match k with
    | KConst => ev S (TAt (AConst n))
    | KSF => ev S (TAt (AFld false n 0 SNone []))
    end.
  Definition lenvM (k : mkind) (n : string) : mat K :=
    match k with
    | KJac => tm (jac_mat d n)
    | KJacInv => finvm d (tm (jac_mat d n))
    | KGrad => tm (grad_mat d n)
    end.
  Notation Den := (den K (f0 S) (f1 S) (fadd S) (fmul S) (fopp S) (fdiv S) (finv S) d lenvS lenvM (finvm d) (fdet d)).

  (* a value of [mden] represents a matrix *)
  Definition rep (v : option tensor) (A : mat K) : Prop :=
    match v with
    | Some (Sc t) => A == MI (ev S t)
    | Some (Mat T) => A == tm T
    | _ => True
    end.
  Lemma rep_meq v A B : A == B -> rep v A -> rep v B.
  Proof. intros H. destruct v as [[t|l|T]|]; simpl; auto; intros HA; rewrite <- H; exact HA. Qed.

  Lemma rep_add a b A B : rep a A -> rep b B -> rep (tv_add d a b) (Madd A B).
  Proof.
    destruct a as [[x|l|T]|]; destruct b as [[y|m|U]|]; simpl; auto; intros HA HB.
    - rewrite HA, HB. apply (mI_add _ _ _ _ _ _ _ _ _ (Fth S)).
    - destruct x; simpl; auto. destruct z; simpl; auto.
      rewrite HA, HB. apply (madd_0_l _ _ _ _ _ _ _ _ _ (Fth S)).
    - destruct y; simpl; auto. destruct z; simpl; auto.
      rewrite HA, HB. apply (madd_0_r _ _ _ _ _ _ _ _ _ (Fth S)).
    - rewrite HA, HB. symmetry. apply tm_add.
  Qed.
  Lemma rep_mul a b A B : rep a A -> rep b B -> rep (tv_mul d a b) (Mmul A B).
  Proof.
    destruct a as [[x|l|T]|]; destruct b as [[y|m|U]|]; simpl; auto; intros HA HB; rewrite HA, HB.
    - apply (mI_mul _ _ _ _ _ _ _ _ _ (Fth S)).
    - symmetry. apply tm_scale.
    - rewrite <- (mI_comm _ _ _ _ _ _ _ _ _ (Fth S)). symmetry. apply tm_scale.
    - symmetry. apply tm_mul.
  Qed.

  Hypothesis dpos : (0 < d)%nat.

  Lemma q2f_tnumq p q : ev S (tnumq p q) = q2f K (f0 S) (f1 S) (fadd S) (fmul S) (fopp S) (fdiv S) (p # q).
  Proof.
    unfold tnumq, q2f. cbn [Qnum Qden]. destruct (Pos.eqb q 1) eqn:E.
    - apply Pos.eqb_eq in E. subst q.
      change (ev S (TZ p)) with (MatricesP.phi K (f0 S) (f1 S) (fadd S) (fmul S) (fopp S) p).
      rewrite (phi_1 _ _ _ _ _ _ _ _ _ (Fth S)). field. apply (F_1_neq_0 (Fth S)).
    - reflexivity.
  Qed.

  Lemma zpow_ev x z : ev S (zpow_t x z) = zpowF K (f1 S) (fmul S) (finv S) (ev S x) z.
  Proof. destruct z; reflexivity. Qed.

  Lemma tm_pow A n : tm (t_pow d A n) == mpow K (f0 S) (f1 S) (fadd S) (fmul S) d (tm A) n.
  Proof.
    induction n as [|n IH]; simpl.
    - apply tm_ident.
    - destruct n as [|n].
      + simpl. symmetry. apply (mmul_1_l _ _ _ _ _ _ _ _ _ (Fth S)).
      + rewrite tm_mul, IH. reflexivity.
  Qed.

  (* commutative expressions never denote a matrix of terminal expressions *)
  Lemma comm_not_mat e : is_comm e = true -> forall T, mden d e <> Some (Mat T).
  Proof.
    induction e using mx_ind'; simpl; intros Hc T; try discriminate.
    - destruct k; discriminate.
    - (* sum *) destruct l as [|x r]; [discriminate|].
      simpl in Hc. apply andb_prop in Hc. destruct Hc as [Hx Hr].
      inversion H as [|? ? Px Pr]; subst.
      assert (G : forall acc, (forall T, acc <> Some (Mat T)) ->
                  forall T, fold_left (fun a y => tv_add d a (mden d y)) r acc <> Some (Mat T)).
      { clear -Pr Hr. induction r as [|y r IH]; simpl; intros acc Ha T; [apply Ha|].
        simpl in Hr. apply andb_prop in Hr. destruct Hr as [Hy Hr]. inversion Pr; subst.
        apply IH; auto. intros T'.
        destruct acc as [[a|l|A]|]; try discriminate; [|exfalso; eapply Ha; reflexivity].
        destruct (mden d y) as [[b|m|B]|] eqn:E; simpl; try discriminate.
        exfalso. eapply H1; eauto. }
      apply G. apply Px. exact Hx.
    - (* product *) destruct l as [|x r]; [discriminate|].
      simpl in Hc. apply andb_prop in Hc. destruct Hc as [Hx Hr].
      inversion H as [|? ? Px Pr]; subst.
      assert (G : forall acc, (forall T, acc <> Some (Mat T)) ->
                  forall T, fold_left (fun a y => tv_mul d a (mden d y)) r acc <> Some (Mat T)).
      { clear -Pr Hr. induction r as [|y r IH]; simpl; intros acc Ha T; [apply Ha|].
        simpl in Hr. apply andb_prop in Hr. destruct Hr as [Hy Hr]. inversion Pr; subst.
        apply IH; auto. intros T'.
        destruct acc as [[a|l|A]|]; try discriminate; [|exfalso; eapply Ha; reflexivity].
        destruct (mden d y) as [[b|m|B]|] eqn:E; simpl; try discriminate.
        exfalso. eapply H1; eauto. }
      apply G. apply Px. exact Hx.
    - (* power *) destruct (mden d e) as [[x|l|A]|] eqn:E; try discriminate.
      exfalso. eapply IHe; eauto.
    - destruct (mden d e) as [[x|l|A]|]; discriminate.
    - destruct (mden d e) as [[x|l|A]|]; try discriminate. destruct (t_det d A); discriminate.
  Qed.

  (* the fragment: integer powers of a commutative base, or non-negative powers of a matrix *)
  Fixpoint linkable (e : mx) : bool :=
    match e with
    | XNum _ _ | XSc _ _ | XMat _ _ => true
    | XAdd l | XMul l => forallb linkable l
    | XPow b z => linkable b &&
                  (is_comm b || match mden d b with Some (Mat _) => Z.leb 0 z | _ => false end)
    | XT a | XInv a | XTr a | XDet a | XElem a _ _ => linkable a
    end.

  Theorem mden_den e : linkable e = true -> rep (mden d e) (Den e).
  Proof.
    induction e using mx_ind'; intros Hl.
    - simpl. apply (mI_ext _ _ d). symmetry. apply q2f_tnumq.
    - destruct k; simpl; reflexivity.
    - destruct k; simpl; try reflexivity.
      destruct (t_inv d (jac_mat d n)) as [B|] eqn:E; simpl; [|exact I].
      symmetry. apply tm_inv. exact E.
    - (* sum *)
      simpl in Hl. destruct l as [|x r]; [exact I|].
      simpl in Hl. apply andb_prop in Hl. destruct Hl as [Hx Hr]. inversion H as [|? ? Px Pr]; subst.
      change (Den (XAdd (x :: r))) with (Madd (Den x) (msum K (f0 S) (fadd S) (map Den r))).
      change (mden d (XAdd (x :: r))) with (fold_left (fun a y => tv_add d a (mden d y)) r (mden d x)).
      specialize (Px Hx). revert Px. generalize (mden d x) (Den x). clear Hx H.
      induction r as [|y r IH]; intros acc A HA; simpl.
      + eapply rep_meq; [|exact HA]. symmetry. apply (madd_0_r _ _ _ _ _ _ _ _ _ (Fth S)).
      + simpl in Hr. apply andb_prop in Hr. destruct Hr as [Hy Hr]. inversion Pr; subst.
        eapply rep_meq; [|apply (IH Hr H2 (tv_add d acc (mden d y)) (Madd A (Den y)))].
        * apply (madd_assoc _ _ _ _ _ _ _ _ _ (Fth S)).
        * apply rep_add; auto.
    - (* product *)
      simpl in Hl. destruct l as [|x r].
      + simpl. apply (mI_ext _ _ d). unfold ev. simpl. reflexivity.
      + simpl in Hl. apply andb_prop in Hl. destruct Hl as [Hx Hr]. inversion H as [|? ? Px Pr]; subst.
        change (Den (XMul (x :: r))) with (Mmul (Den x) (mprod K (f0 S) (f1 S) (fadd S) (fmul S) d (map Den r))).
        change (mden d (XMul (x :: r))) with (fold_left (fun a y => tv_mul d a (mden d y)) r (mden d x)).
        specialize (Px Hx). revert Px. generalize (mden d x) (Den x). clear Hx H.
        induction r as [|y r IH]; intros acc A HA; simpl.
        * eapply rep_meq; [|exact HA]. symmetry. apply (mmul_1_r _ _ _ _ _ _ _ _ _ (Fth S)).
        * simpl in Hr. apply andb_prop in Hr. destruct Hr as [Hy Hr]. inversion Pr; subst.
          eapply rep_meq; [|apply (IH Hr H2 (tv_mul d acc (mden d y)) (Mmul A (Den y)))].
          -- apply (mmul_assoc _ _ _ _ _ _ _ _ _ (Fth S)).
          -- apply rep_mul; auto.
    - (* power *)
      simpl in Hl. apply andb_prop in Hl. destruct Hl as [Hb Hz]. specialize (IHe Hb).
      simpl. destruct (is_comm e) eqn:Hc.
      + destruct (mden d e) as [[x|l|A]|] eqn:E; simpl; auto.
        * simpl in IHe. apply (mI_ext _ _ d). rewrite zpow_ev. f_equal.
          rewrite (IHe O O dpos dpos). unfold mI. reflexivity.
        * exfalso. eapply comm_not_mat; eauto.
      + simpl in Hz. destruct (mden d e) as [[x|l|A]|] eqn:E; try discriminate.
        simpl in IHe. destruct e0 as [|p|p]; try discriminate; simpl.
        * rewrite tm_ident. reflexivity.
        * rewrite tm_pow.
          assert (G : forall n, mpow K 0 1 (fadd S) (fmul S) d (Den e) n == mpow K 0 1 (fadd S) (fmul S) d (tm A) n).
          { induction n as [|n IHn]; simpl; [reflexivity|]. rewrite IHn, IHe. reflexivity. }
          apply G.
    - (* transpose *)
      simpl in Hl. specialize (IHe Hl). simpl.
      destruct (mden d e) as [[x|l|A]|]; simpl; auto. simpl in IHe. rewrite IHe. symmetry. apply tm_transpose.
    - (* inverse *)
      simpl in Hl. specialize (IHe Hl). simpl.
      destruct (mden d e) as [[x|l|A]|]; simpl; auto. simpl in IHe.
      destruct (t_inv d A) as [B|] eqn:E; simpl; [|exact I].
      rewrite IHe. symmetry. apply tm_inv. exact E.
    - (* trace *)
      simpl in Hl. specialize (IHe Hl). simpl.
      destruct (mden d e) as [[x|l|A]|]; simpl; auto. simpl in IHe.
      apply (mI_ext _ _ d). rewrite ev_trace. apply (mtr_proper _ _ _ _ _ _ IHe).
    - (* determinant *)
      simpl in Hl. specialize (IHe Hl). simpl.
      destruct (mden d e) as [[x|l|A]|]; simpl; auto. simpl in IHe.
      destruct (t_det d A) as [t|] eqn:E; simpl; [|exact I].
      apply (mI_ext _ _ d). rewrite (ev_det _ _ E). apply (fdet_proper _ _ IHe).
    - (* element *)
      simpl in Hl. specialize (IHe Hl). simpl.
      destruct (mden d e) as [[x|l|A]|]; simpl; auto. simpl in IHe.
      destruct (Nat.ltb_spec i d); simpl; [|exact I]. destruct (Nat.ltb_spec j d); simpl; [|exact I].
      apply (mI_ext _ _ d). apply IHe; assumption.
  Qed.

  (* two trees with provably equal executable meanings have the same meaning *)
  Corollary mden_equal_den a b A B :
    linkable a = true -> linkable b = true -> mden d a = Some (Mat A) -> mden d b = Some (Mat B) ->
    (forall i j, (i < d)%nat -> (j < d)%nat -> ev S (ment A i j) = ev S (ment B i j)) ->
    Den a == Den b.
  Proof.
    intros La Lb Ha Hb H. pose proof (mden_den a La) as Ra. pose proof (mden_den b Lb) as Rb.
    rewrite Ha in Ra. rewrite Hb in Rb. simpl in Ra, Rb. rewrite Ra, Rb. exact H.
  Qed.
End Link.

(* packaged for Props/C02m.v *)
Definition LDen (S : dfield) (d : nat) (e : mx) : mat (F S) :=
  den (F S) (f0 S) (f1 S) (fadd S) (fmul S) (fopp S) (fdiv S) (finv S) d (lenvS S) (lenvM S d) (finvm S d) (fdet S d) e.

Theorem P_mden_den (S : dfield) (d : nat) (e : mx) :
  (0 < d)%nat -> linkable d e = true -> rep S d (mden d e) (LDen S d e).
Proof. intros Hd Hl. apply mden_den; assumption. Qed.
