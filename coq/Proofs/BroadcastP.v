(* C16, shape part: theorems about Model/BroadcastM.v.
     - [broadcast] is numpy's rule: axis-wise characterisation (shapes padded with 1 on the left), length,
       commutativity, associativity, invariance under permutation of the inputs, refusal exactly on a conflict;
     - the broadcast shape of ANY sub-family of the inputs can be assigned into the broadcast shape of all inputs
       (this is why a component that ignores some variables, or is constant, can be written into the result);
     - both wrappers of lambdify_sympde return  component shape ++ broadcast(input shapes)  for all broadcastable
       inputs and refuse otherwise. *)
From Coq Require Import List Bool Arith Lia Permutation.
From V Require Import Model.BroadcastM.
Import ListNotations.

(* ------------------------------------------------------------------ one axis *)
Lemma bdim_comm a b : bdim a b = bdim b a.
Proof.
  unfold bdim.
  destruct (Nat.eqb_spec a b), (Nat.eqb_spec b a), (Nat.eqb_spec a 1), (Nat.eqb_spec b 1); subst; auto; congruence.
Qed.

Lemma bdim_spec a b c : bdim a b = Some c <-> (a = b /\ c = a) \/ (a = 1 /\ c = b) \/ (b = 1 /\ c = a).
Proof.
  unfold bdim.
  destruct (Nat.eqb_spec a b), (Nat.eqb_spec a 1), (Nat.eqb_spec b 1); subst; split; intros H;
    try (inversion H; subst; auto; fail); try (f_equal; lia); try (exfalso; lia).
Qed.

Lemma bdim_none a b : bdim a b = None <-> a <> b /\ a <> 1 /\ b <> 1.
Proof.
  unfold bdim.
  destruct (Nat.eqb_spec a b), (Nat.eqb_spec a 1), (Nat.eqb_spec b 1); subst; split; intros H;
    try discriminate; try tauto; try lia.
Qed.

Definition obind {A B} (f : A -> option B) (x : option A) : option B :=
  match x with Some a => f a | None => None end.

Lemma bdim_assoc a b c : obind (bdim a) (bdim b c) = obind (fun x => bdim x c) (bdim a b).
Proof.
  unfold bdim, obind.
  repeat match goal with
         | |- context [Nat.eqb ?x ?y] => destruct (Nat.eqb_spec x y); subst; cbv iota beta
         end; try reflexivity; try congruence; try (exfalso; lia).
Qed.

(* ------------------------------------------------------------------ two shapes, reversed *)
Lemma brev_nil_r a : brev a [] = Some a.
Proof. destruct a; reflexivity. Qed.

Lemma brev_comm a : forall b, brev a b = brev b a.
Proof.
  induction a as [|x r IH]; intros [|y s]; simpl; auto.
  rewrite bdim_comm, IH. reflexivity.
Qed.

Lemma brev_length a : forall b c, brev a b = Some c -> length c = Nat.max (length a) (length b).
Proof.
  induction a as [|x r IH]; intros [|y s] c H; simpl in *; try (inversion H; subst; simpl; lia).
  destruct (bdim x y); try discriminate. destruct (brev r s) eqn:E; try discriminate.
  inversion H; subst. simpl. f_equal. now apply IH.
Qed.

(* axis i (counted from the last axis), absent axes read as 1 *)
Lemma brev_nth a : forall b c, brev a b = Some c -> forall i, bdim (nth i a 1) (nth i b 1) = Some (nth i c 1).
Proof.
  induction a as [|x r IH]; intros b c H i.
  - simpl in H. inversion H; subst. replace (nth i [] 1) with 1 by (destruct i; reflexivity).
    apply bdim_spec. auto.
  - destruct b as [|y s].
    + simpl in H. inversion H; subst. replace (nth i [] 1) with 1 by (destruct i; reflexivity).
      apply bdim_spec. auto.
    + simpl in H. destruct (bdim x y) eqn:Ed; try discriminate. destruct (brev r s) eqn:E; try discriminate.
      inversion H; subst. destruct i; simpl; auto.
Qed.

Lemma brev_none a : forall b, brev a b = None <-> exists i, bdim (nth i a 1) (nth i b 1) = None.
Proof.
  induction a as [|x r IH]; intros b.
  - simpl. split; [discriminate|]. intros [i H]. exfalso.
    destruct i; simpl in H; apply bdim_none in H; lia.
  - destruct b as [|y s].
    + simpl. split; [discriminate|]. intros [i H]. exfalso.
      destruct i; simpl in H; apply bdim_none in H; lia.
    + simpl. destruct (bdim x y) eqn:Ed.
      * destruct (brev r s) eqn:E.
        -- split; [discriminate|]. intros [[|i] H]; simpl in H; [congruence|].
           assert (brev r s = None) by (apply IH; eauto). congruence.
        -- split; auto. intros _. apply IH in E. destruct E as [i Hi]. exists (S i). exact Hi.
      * split; auto. intros _. exists 0. exact Ed.
Qed.

Lemma brev_assoc a : forall b c, obind (brev a) (brev b c) = obind (fun x => brev x c) (brev a b).
Proof.
  induction a as [|x r IH]; intros b c.
  - simpl. destruct (brev b c); reflexivity.
  - destruct b as [|y s].
    + simpl. reflexivity.
    + destruct c as [|z t].
      * simpl. destruct (bdim x y); simpl; auto. destruct (brev r s); simpl; auto.
      * simpl. specialize (IH s t). pose proof (bdim_assoc x y z) as Hd.
        destruct (bdim y z) as [d1|] eqn:E1; destruct (brev s t) as [t1|] eqn:E2;
          destruct (bdim x y) as [d2|] eqn:E3; destruct (brev r s) as [t2|] eqn:E4; simpl in *;
          rewrite ?Hd, ?IH, <- ?Hd, <- ?IH; try reflexivity;
          repeat match goal with
                 | |- context [match ?o with Some _ => _ | None => _ end] => destruct o; simpl; auto
                 end.
Qed.

(* ------------------------------------------------------------------ assignment *)
Lemma asg_rev_refl a : asg_rev a a = true.
Proof. induction a as [|x r IH]; simpl; auto. now rewrite Nat.eqb_refl, IH. Qed.

Lemma asg_rev_ones a : asg_rev a [] = true -> forall b, asg_rev a b = true.
Proof.
  induction a as [|x r IH]; simpl; auto. intros H b. apply andb_true_iff in H. destruct H as [H1 H2].
  destruct b as [|y s]; simpl.
  - now rewrite H1, H2.
  - rewrite H1, orb_true_r. simpl. now apply IH.
Qed.

Lemma brev_asg a : forall b c, brev a b = Some c -> asg_rev a c = true /\ asg_rev b c = true.
Proof.
  induction a as [|x r IH]; intros b c H.
  - simpl in H. inversion H; subst. split; [reflexivity|apply asg_rev_refl].
  - destruct b as [|y s].
    + simpl in H. inversion H; subst. split; [apply asg_rev_refl|reflexivity].
    + simpl in H. destruct (bdim x y) as [d|] eqn:Ed; try discriminate.
      destruct (brev r s) as [t|] eqn:E; try discriminate. inversion H; subst.
      destruct (IH _ _ E) as [H1 H2]. apply bdim_spec in Ed. simpl. rewrite H1, H2.
      split; apply andb_true_iff; split; auto; apply orb_true_iff;
        destruct Ed as [[? ?]|[[? ?]|[? ?]]]; subst; rewrite ?Nat.eqb_refl; auto.
Qed.

Lemma asg_rev_trans a : forall b c, asg_rev a b = true -> asg_rev b c = true -> asg_rev a c = true.
Proof.
  induction a as [|x r IH]; intros b c H1 H2; [reflexivity|].
  destruct b as [|y s].
  - now apply asg_rev_ones.
  - simpl in H1. apply andb_true_iff in H1. destruct H1 as [Hx Hr].
    destruct c as [|z t]; simpl in *.
    + apply andb_true_iff in H2. destruct H2 as [Hy Hs]. apply Nat.eqb_eq in Hy. subst y.
      apply andb_true_iff. split; [|eapply IH; eauto].
      apply orb_true_iff in Hx. destruct Hx as [Hx|Hx]; exact Hx.
    + apply andb_true_iff in H2. destruct H2 as [Hy Hs].
      apply andb_true_iff. split; [|eapply IH; eauto].
      apply orb_true_iff in Hx. apply orb_true_iff in Hy. apply orb_true_iff.
      destruct Hx as [Hx|Hx]; [|now right]. apply Nat.eqb_eq in Hx. subst x. exact Hy.
Qed.

(* two shapes assignable into c have a broadcast shape, itself assignable into c *)
Lemma asg_rev_join a : forall b c, asg_rev a c = true -> asg_rev b c = true ->
  exists d, brev a b = Some d /\ asg_rev d c = true.
Proof.
  induction a as [|x r IH]; intros b c Ha Hb.
  - exists b. simpl. auto.
  - destruct b as [|y s].
    + exists (x :: r). simpl. auto.
    + destruct c as [|z t]; simpl in Ha, Hb.
      * apply andb_true_iff in Ha. destruct Ha as [Hx Hr]. apply andb_true_iff in Hb. destruct Hb as [Hy Hs].
        apply Nat.eqb_eq in Hx, Hy. subst x y.
        destruct (IH s [] Hr Hs) as [d [Hd Hd']]. exists (1 :: d). simpl. rewrite Hd. simpl. now rewrite Hd'.
      * apply andb_true_iff in Ha. destruct Ha as [Hx Hr]. apply andb_true_iff in Hb. destruct Hb as [Hy Hs].
        destruct (IH s t Hr Hs) as [d [Hd Hd']].
        apply orb_true_iff in Hx. apply orb_true_iff in Hy. rewrite !Nat.eqb_eq in Hx, Hy.
        assert (Hj : exists e, bdim x y = Some e /\ (e = z \/ e = 1)).
        { destruct Hx as [->| ->], Hy as [->| ->].
          - exists z. split; [apply bdim_spec|]; auto.
          - exists z. split; [apply bdim_spec|]; auto.
          - exists z. split; [apply bdim_spec|]; auto.
          - exists 1. split; [apply bdim_spec|]; auto. }
        destruct Hj as [e [He Hez]]. exists (e :: d). simpl. rewrite He, Hd. split; auto.
        rewrite Hd'. rewrite andb_true_r. apply orb_true_iff. rewrite !Nat.eqb_eq. exact Hez.
Qed.

(* ------------------------------------------------------------------ shapes in numpy order *)
Lemma broadcast2_comm a b : broadcast2 a b = broadcast2 b a.
Proof. unfold broadcast2. now rewrite brev_comm. Qed.

Lemma broadcast2_nil_r a : broadcast2 a [] = Some a.
Proof. unfold broadcast2. simpl. rewrite brev_nil_r. simpl. now rewrite rev_involutive. Qed.

Lemma broadcast2_nil_l a : broadcast2 [] a = Some a.
Proof. rewrite broadcast2_comm. apply broadcast2_nil_r. Qed.

Lemma broadcast2_length a b c : broadcast2 a b = Some c -> length c = Nat.max (length a) (length b).
Proof.
  unfold broadcast2. destruct (brev (rev a) (rev b)) as [d|] eqn:E; simpl; intros H; inversion H; subst.
  rewrite rev_length. apply brev_length in E. now rewrite !rev_length in E.
Qed.

(* axis i counted from the LAST axis; absent axes read as 1 *)
Definition axis (s : shape) (i : nat) : nat := nth i (rev s) 1.

Theorem broadcast2_axis a b c : broadcast2 a b = Some c -> forall i, bdim (axis a i) (axis b i) = Some (axis c i).
Proof.
  unfold broadcast2, axis. destruct (brev (rev a) (rev b)) as [d|] eqn:E; simpl; intros H; inversion H; subst.
  intros i. rewrite rev_involutive. now apply brev_nth.
Qed.

Theorem broadcast2_refuses a b : broadcast2 a b = None <-> exists i, axis a i <> axis b i /\ axis a i <> 1 /\ axis b i <> 1.
Proof.
  unfold broadcast2, axis. split.
  - destruct (brev (rev a) (rev b)) eqn:E; simpl; [discriminate|]. intros _.
    apply brev_none in E. destruct E as [i Hi]. exists i. now apply bdim_none.
  - intros [i Hi]. apply bdim_none in Hi.
    assert (E : brev (rev a) (rev b) = None) by (apply brev_none; eauto). now rewrite E.
Qed.

Lemma broadcast2_assoc a b c :
  obind (broadcast2 a) (broadcast2 b c) = obind (fun x => broadcast2 x c) (broadcast2 a b).
Proof.
  unfold broadcast2. pose proof (brev_assoc (rev a) (rev b) (rev c)) as H.
  destruct (brev (rev b) (rev c)) as [t|], (brev (rev a) (rev b)) as [u|]; simpl in *;
    rewrite ?rev_involutive; try (now rewrite H); try (now rewrite <- H); auto.
Qed.

Lemma broadcast_cons s r : broadcast (s :: r) = obind (broadcast2 s) (broadcast r).
Proof. reflexivity. Qed.

Theorem broadcast_perm l l' : Permutation l l' -> broadcast l = broadcast l'.
Proof.
  induction 1 as [|x l l' _ IH|x y l|l l' l'' _ IH1 _ IH2].
  - reflexivity.
  - simpl. now rewrite IH.
  - rewrite !broadcast_cons. destruct (broadcast l) as [t|]; [|reflexivity].
    cbv beta iota delta [obind].
    pose proof (broadcast2_assoc y x t) as H1. pose proof (broadcast2_assoc x y t) as H2.
    cbv beta iota delta [obind] in H1, H2.
    rewrite H1, H2. now rewrite (broadcast2_comm y x).
  - congruence.
Qed.

(* ------------------------------------------------------------------ sub-families *)
Theorem sub_broadcast_assignable : forall inputs b mask,
  broadcast inputs = Some b ->
  exists t, broadcast (select mask inputs) = Some t /\ assignable t b = true.
Proof.
  unfold assignable.
  induction inputs as [|s r IH]; intros b mask H.
  - simpl in H. inversion H; subst. exists []. destruct mask as [|[|] m]; simpl; auto.
  - simpl in H. destruct (broadcast r) as [br|] eqn:Er; try discriminate.
    unfold broadcast2 in H. destruct (brev (rev s) (rev br)) as [c|] eqn:Ec; try discriminate.
    simpl in H. inversion H; subst b. rewrite rev_involutive.
    destruct (brev_asg _ _ _ Ec) as [Hs Hbr].
    destruct mask as [|[|] m].
    + exists []. simpl. auto.
    + destruct (IH br m eq_refl) as [tr [Htr Hasg]].
      assert (Htc : asg_rev (rev tr) c = true) by (eapply asg_rev_trans; eauto).
      destruct (asg_rev_join _ _ _ Hs Htc) as [d [Hd Hdc]].
      exists (rev d). simpl. rewrite Htr. unfold broadcast2. rewrite Hd. simpl. rewrite rev_involutive. auto.
    + destruct (IH br m eq_refl) as [tr [Htr Hasg]].
      exists tr. simpl. split; auto. eapply asg_rev_trans; eauto.
Qed.

Lemma shape_eqb_eq a : forall b, shape_eqb a b = true -> a = b.
Proof.
  induction a as [|x r IH]; intros [|y s]; simpl; try discriminate; auto.
  intros H. apply andb_true_iff in H. destruct H as [H1 H2]. apply Nat.eqb_eq in H1. f_equal; auto.
Qed.

Lemma broadcast2_nil a b : broadcast2 a b = Some [] -> a = [] /\ b = [].
Proof.
  intros H. apply broadcast2_length in H. simpl in H.
  destruct a, b; simpl in H; auto; lia.
Qed.

Lemma broadcast_nil l : broadcast l = Some [] -> Forall (eq []) l.
Proof.
  induction l as [|s r IH]; simpl; intros H; auto.
  destruct (broadcast r) as [t|]; try discriminate.
  apply broadcast2_nil in H. destruct H as [-> ->]. constructor; auto.
Qed.

Lemma broadcast_all_nil l : Forall (eq []) l -> broadcast l = Some [].
Proof. induction 1 as [|s r <- _ IH]; simpl; auto. now rewrite IH. Qed.

Lemma select_forall {A} (Pr : A -> Prop) l : Forall Pr l -> forall mask, Forall Pr (select mask l).
Proof.
  induction 1 as [|x r Hx _ IH]; intros [|[|] m]; simpl; auto.
Qed.

(* ------------------------------------------------------------------ the wrappers *)
Theorem wrap_scalar_shape inputs b mask :
  broadcast inputs = Some b -> wrap_scalar mask inputs = Some b.
Proof.
  intros H. unfold wrap_scalar, comp_out. rewrite H.
  destruct b as [|n b'].
  - apply broadcast_all_nil. apply select_forall. now apply broadcast_nil.
  - destruct (sub_broadcast_assignable _ _ mask H) as [t [Ht Ha]]. rewrite Ht.
    destruct (shape_eqb (n :: b') t) eqn:Eq.
    + apply shape_eqb_eq in Eq. now subst.
    + now rewrite Ha.
Qed.

Theorem wrap_array_shape inputs b cshape masks :
  broadcast inputs = Some b -> wrap_array cshape masks inputs = Some (cshape ++ b).
Proof.
  intros H. unfold wrap_array, comp_out. rewrite H.
  assert (E : forallb (fun m => match broadcast (select m inputs) with Some t => assignable t b | None => false end) masks = true).
  { apply forallb_forall. intros m _. destruct (sub_broadcast_assignable _ _ m H) as [t [Ht Ha]]. now rewrite Ht. }
  now rewrite E.
Qed.

Theorem wrappers_refuse inputs :
  broadcast inputs = None -> (forall mask, wrap_scalar mask inputs = None) /\
                             (forall cshape masks, wrap_array cshape masks inputs = None).
Proof. intros H. unfold wrap_scalar, wrap_array. rewrite H. auto. Qed.

(* the callable mapping: every quantity has  component shape ++ broadcast shape *)
Theorem callable_shapes_ok ldim pdim m_expr m_jac m_jinv m_metric m_mdet inputs b :
  broadcast inputs = Some b ->
  callable ldim pdim m_expr m_jac m_jinv m_metric m_mdet inputs =
  mkCS (map (fun _ => Some b) m_expr) (Some ([pdim; ldim] ++ b)) (Some ([ldim; pdim] ++ b))
       (Some ([ldim; ldim] ++ b)) (Some b).
Proof.
  intros H. unfold callable.
  rewrite !(wrap_array_shape _ _ _ _ H), (wrap_scalar_shape _ _ _ H). f_equal.
  apply map_ext. intros m. now apply wrap_scalar_shape.
Qed.
