(* Soundness of the DifferentialOperator.eval model (C05): every arm returns the
   derivative, for every tree, in every differential field. *)
From Coq Require Import String ZArith List Bool Arith Lia Field_theory Field.
From V Require Import Core.FieldEq Core.Terminal Core.TerminalP Core.DField Core.SExpr Model.DOpM.
Import ListNotations.

Section DOp.
  Variable S : dfield.
  Add Field SF : (Fth S).
  Notation "0" := (f0 S). Notation "1" := (f1 S).
  Infix "+" := (fadd S). Infix "*" := (fmul S). Infix "-" := (fsub S). Infix "/" := (fdiv S).
  Notation "- x" := (fopp S x).
  Notation Dd := (D S).
  Notation sev e := (ev S (sx2t e)).
  Notation nm := (num S).

  (* ---------------------------------------------------------------- sums, products *)
  Fixpoint fsum (l : list (F S)) : F S := match l with [] => 0 | x :: r => x + fsum r end.
  Fixpoint fprod (l : list (F S)) : F S := match l with [] => 1 | x :: r => x * fprod r end.

  Lemma ev_tsum l : ev S (tsum l) = fsum (map (ev S) l).
  Proof.
    induction l as [|x [|y r] IH]; simpl in *.
    - reflexivity.
    - ring.
    - unfold ev in *. simpl. simpl in IH. rewrite IH. reflexivity.
  Qed.

  Lemma ev_tprod l : ev S (tprod l) = fprod (map (ev S) l).
  Proof.
    induction l as [|x [|y r] IH]; simpl in *.
    - reflexivity.
    - ring.
    - unfold ev in *. simpl. simpl in IH. rewrite IH. reflexivity.
  Qed.

  Lemma sev_add l : sev (SAdd l) = fsum (map (fun x => sev x) l).
  Proof. simpl. rewrite ev_tsum, map_map. reflexivity. Qed.

  Lemma sev_mul l : sev (SMul l) = fprod (map (fun x => sev x) l).
  Proof. simpl. rewrite ev_tprod, map_map. reflexivity. Qed.

  Lemma D_fsum lg i l : Dd lg i (fsum l) = fsum (map (Dd lg i) l).
  Proof. induction l as [|x r IH]; simpl; [apply Dz|]. now rewrite D_add, IH. Qed.

  Lemma nm_pos_1 : nm 1 = 1. Proof. reflexivity. Qed.
  Lemma nm_0 : nm 0 = 0. Proof. reflexivity. Qed.

  Lemma sev_sZ z : sev (sZ z) = nm z. Proof. reflexivity. Qed.

  Lemma is_zero_sev x : is_zero x = true -> sev x = 0.
  Proof.
    destruct x as [p q| | | | |]; try discriminate. destruct p; try discriminate. intros _.
    destruct q; try reflexivity; unfold ev; simpl; rewrite (Fdiv_def (Fth S)); ring.
  Qed.

  Lemma is_one_sev x : is_one x = true -> sev x = 1.
  Proof.
    destruct x as [p q| | | | |]; try discriminate. destruct p as [|p|p]; try discriminate.
    destruct p; try discriminate. destruct q; try discriminate. reflexivity.
  Qed.

  Lemma fprod_zero l : In 0 l -> fprod l = 0.
  Proof. induction l as [|x r IH]; simpl; [tauto|]. intros [->|H]; [ring|]. rewrite IH by auto. ring. Qed.

  Lemma sev_smul l : sev (smul l) = fprod (map (fun x => sev x) l).
  Proof.
    unfold smul. destruct (existsb is_zero l) eqn:Ez.
    - apply existsb_exists in Ez. destruct Ez as [x [Hx Zx]]. symmetry. apply fprod_zero.
      apply in_map_iff. exists x. split; auto. now apply is_zero_sev.
    - clear Ez.
      assert (G : fprod (map (fun x => sev x) (filter (fun x => negb (is_one x)) l)) = fprod (map (fun x => sev x) l)).
      { induction l as [|x r IH]; simpl; auto. destruct (is_one x) eqn:E1; simpl.
        - rewrite IH, (is_one_sev x E1). ring.
        - now rewrite IH. }
      rewrite <- G. destruct (filter (fun x => negb (is_one x)) l) as [|x [|y r]].
      + reflexivity.
      + simpl. ring.
      + apply sev_mul.
  Qed.

  Lemma sev_sadd l : sev (sadd l) = fsum (map (fun x => sev x) l).
  Proof.
    unfold sadd.
    assert (G : fsum (map (fun x => sev x) (filter (fun x => negb (is_zero x)) l)) = fsum (map (fun x => sev x) l)).
    { induction l as [|x r IH]; simpl; auto. destruct (is_zero x) eqn:E1; simpl.
      - rewrite IH, (is_zero_sev x E1). ring.
      - now rewrite IH. }
    rewrite <- G. destruct (filter (fun x => negb (is_zero x)) l) as [|x [|y r]].
    + reflexivity.
    + simpl. ring.
    + apply sev_add.
  Qed.

  (* ------------------------------------------------------------ definedness on sx *)
  Definition known_fn (f : fname) : bool :=
    match f with Fsin | Fcos | Ftan | Fexp | Flog | Fsqrt => true | _ => false end.

  Definition is_intlit (x : sx) : bool :=
    match x with SNum _ 1%positive => true | _ => false end.

  Fixpoint sdf (e : sx) : Prop :=
    match e with
    | SNum _ q => nm (Zpos q) <> 0
    | SAt _ => True
    | SAdd l | SMul l => (fix all (l : list sx) : Prop := match l with [] => True | x :: r => sdf x /\ all r end) l
    | SPow b x => sdf b /\ sdf x /\ sev b <> 0 /\
                  (is_intlit x = false -> Pdom S (sev b) (sev x))
    | SFn f a => sdf a /\ known_fn f = true /\ Edom S f (sev a) /\
                 match f with
                 | Flog => sev a <> 0
                 | Fsqrt => nm 2 * E S Fsqrt (sev a) <> 0
                 | _ => True
                 end
    end.

  Lemma sdf_list l : (fix all (l : list sx) : Prop := match l with [] => True | x :: r => sdf x /\ all r end) l
                     <-> Forall sdf l.
  Proof.
    induction l as [|x r IH]; split; intros H; auto.
    - destruct H. constructor; auto. now apply IH.
    - inversion H; subst. split; auto. now apply IH.
  Qed.

  Lemma dfd_tsum l : Forall (dfd S) l -> dfd S (tsum l).
  Proof.
    induction l as [|x [|y r] IH]; intros H.
    - exact I.
    - now inversion H.
    - inversion H; subst. split; auto.
  Qed.

  Lemma dfd_tprod l : Forall (dfd S) l -> dfd S (tprod l).
  Proof.
    induction l as [|x [|y r] IH]; intros H.
    - exact I.
    - now inversion H.
    - inversion H; subst. split; auto.
  Qed.

  Lemma pw_nz a n : a <> 0 -> pw S a n <> 0.
  Proof.
    intros Ha. destruct n as [|p]; unfold pw, fpow; simpl.
    - intros H. apply Ha. replace a with (a * 1) by ring. rewrite H. ring.
    - induction p using Pos.peano_ind; simpl; auto.
      rewrite (pow_pos_succ' (F S) _ _ _ _ _ _ _ _ (Fth S)). now apply mul_nz.
  Qed.

  Lemma sdf_dfd e : sdf e -> dfd S (sx2t e).
  Proof.
    induction e as [p q|a|l IHl|l IHl|b x IHb IHx|f a IHa] using sx_ind'; intros Hs.
    - simpl. destruct q; simpl; auto.
    - exact I.
    - simpl in Hs. apply sdf_list in Hs. simpl. apply dfd_tsum.
      rewrite Forall_forall in *. intros t Ht. apply in_map_iff in Ht. destruct Ht as [y [<- Hy]]. auto.
    - simpl in Hs. apply sdf_list in Hs. simpl. apply dfd_tprod.
      rewrite Forall_forall in *. intros t Ht. apply in_map_iff in Ht. destruct Ht as [y [<- Hy]]. auto.
    - simpl in Hs. destruct Hs as (Hb & Hx & Hn & Hp). specialize (IHb Hb). specialize (IHx Hx).
      destruct (is_intlit x) eqn:Ei.
      + destruct x as [p q| | | | |]; try discriminate. destruct q; try discriminate.
        destruct p; simpl; [exact IHb|exact IHb|split; [exact IHb|]]. now apply (pw_nz (sev b) (Npos p)).
      + assert (Eq : sx2t (SPow b x) = TPowG (sx2t b) (sx2t x)).
        { destruct x as [p q| | | | |]; try reflexivity. destruct p, q; try reflexivity; discriminate. }
        rewrite Eq. simpl. repeat split; auto.
    - simpl in Hs. destruct Hs as (Ha & Hk & Hd & Hm). simpl. repeat split; auto.
  Qed.

  (* --------------------------------------------------------------- t2s is an embedding *)
  Lemma div_one (x : F S) : x / 1 = x.
  Proof.
    rewrite (Fdiv_def (Fth S)). replace (finv S 1) with 1; [ring|].
    symmetry. replace (finv S 1) with (finv S 1 * 1) by ring. apply (Finv_l (Fth S)). apply (F_1_neq_0 (Fth S)).
  Qed.

  Lemma ev_t2s t : sev (t2s t) = ev S t.
  Proof.
    induction t.
    - reflexivity.
    - destruct q; try reflexivity. unfold ev. simpl. symmetry. apply div_one.
    - reflexivity.
    - change (sev (t2s t1) + sev (t2s t2) = ev S t1 + ev S t2). now rewrite IHt1, IHt2.
    - change (sev (t2s t1) + (nm (-1) * sev (t2s t2)) = ev S t1 - ev S t2). rewrite IHt1, IHt2.
      unfold num. simpl. ring.
    - change (sev (t2s t1) * sev (t2s t2) = ev S t1 * ev S t2). now rewrite IHt1, IHt2.
    - change (sev (t2s t1) * finv S (pw S (sev (t2s t2)) 1) = ev S t1 / ev S t2). rewrite IHt1, IHt2.
      rewrite (Fdiv_def (Fth S)). reflexivity.
    - change (nm (-1) * sev (t2s t) = - ev S t). rewrite IHt. unfold num. simpl. ring.
    - change (finv S (pw S (sev (t2s t)) 1) = finv S (ev S t)). now rewrite IHt.
    - destruct n as [|p].
      + reflexivity.
      + change (pw S (sev (t2s t)) (Npos p) = pw S (ev S t) (Npos p)). now rewrite IHt.
    - change (E S f (sev (t2s t)) = E S f (ev S t)). now rewrite IHt.
    - change (t2s (TPowG t1 t2)) with (SPow (t2s t1) (t2s t2)).
      change (ev S (TPowG t1 t2)) with (P S (ev S t1) (ev S t2)). rewrite <- IHt1, <- IHt2.
      generalize (t2s t2) as x2. generalize (t2s t1) as x1. intros x1 x2.
      destruct x2 as [p q| | | | |]; try reflexivity.
      (* the exponent is a numeric literal *)
      destruct p, q; try reflexivity.
      + simpl. symmetry. apply (P_zero S).
      + simpl. symmetry. apply (P_pos S).
      + simpl. symmetry. apply (P_neg S).
  Qed.

  (* ------------------------------------------------------------------ powers *)
  Lemma sev_pow_general b x : is_intlit x = false -> sev (SPow b x) = P S (sev b) (sev x).
  Proof.
    intros Hi. destruct x as [p q| | | | |]; try reflexivity. destruct p, q; try reflexivity; discriminate.
  Qed.

  Lemma sev_inv1 b : sev (SPow b (sZ (-1))) = finv S (sev b).
  Proof. reflexivity. Qed.

  Lemma nm_neg p : nm (Zneg p) = - nm (Zpos p).
  Proof. reflexivity. Qed.

  Lemma D_nm lg i z : Dd lg i (nm z) = 0.
  Proof. apply (D_phi S). Qed.

  Lemma D_spow lg i b x : sdf (SPow b x) ->
    Dd lg i (sev (SPow b x)) =
    (E S Flog (sev b) * Dd lg i (sev x) + sev x * Dd lg i (sev b) * finv S (sev b)) * sev (SPow b x).
  Proof.
    intros (Hb & Hx & Hn & Hp).
    destruct (is_intlit x) eqn:Ei.
    - destruct x as [p q| | | | |]; try discriminate. destruct q; try discriminate.
      change (sev (SNum p 1)) with (nm p). rewrite D_nm.
      destruct p as [|p|p].
      + change (sev (SPow b (SNum 0 1))) with (pw S (sev b) 0). change (pw S (sev b) 0) with 1.
        change 1 with (nm 1) at 1. rewrite D_nm. change (nm 0) with 0. ring.
      + change (sev (SPow b (SNum (Zpos p) 1))) with (pw S (sev b) (Npos p)).
        rewrite Dpow_pos. rewrite <- (pw_pred S (sev b) p). field. exact Hn.
      + change (sev (SPow b (SNum (Zneg p) 1))) with (finv S (pw S (sev b) (Npos p))).
        assert (Hpw : pw S (sev b) (Npos p) <> 0) by now apply pw_nz.
        assert (Hpp : pw S (sev b) (Pos.pred_N p) <> 0) by now apply pw_nz.
        rewrite Dinv by exact Hpw. rewrite Dpow_pos. rewrite nm_neg.
        rewrite <- (pw_pred S (sev b) p). field. split; [exact Hpp|exact Hn].
    - rewrite (sev_pow_general b x Ei). rewrite (D_pow S) by auto. field. exact Hn.
  Qed.

  (* ----------------------------------------------------- numbers have derivative zero *)
  Lemma D_snum lg i p q : sdf (SNum p q) -> Dd lg i (sev (SNum p q)) = 0.
  Proof.
    intros Hq. change (nm (Zpos q) <> 0) in Hq.
    assert (G : Dd lg i (nm p / nm (Zpos q)) = 0).
    { rewrite Ddiv by exact Hq. rewrite !D_nm. field. exact Hq. }
    destruct q; try exact G. apply D_nm.
  Qed.

  Lemma D_fprod_zero lg i l : Forall (fun x => Dd lg i x = 0) l -> Dd lg i (fprod l) = 0.
  Proof.
    induction 1 as [|x r Hx _ IH]; simpl.
    - change 1 with (nm 1). apply D_nm.
    - rewrite (D_mul S), Hx, IH. ring.
  Qed.

  Lemma D_fsum_zero lg i l : Forall (fun x => Dd lg i x = 0) l -> Dd lg i (fsum l) = 0.
  Proof.
    induction 1 as [|x r Hx _ IH]; simpl; [apply Dz|]. rewrite (D_add S), Hx, IH. ring.
  Qed.

  Lemma is_number_D lg i e : is_number e = true -> sdf e -> Dd lg i (sev e) = 0.
  Proof.
    induction e as [p q|a|l IHl|l IHl|b x IHb IHx|f a IHa] using sx_ind'; intros Hn Hs.
    - now apply D_snum.
    - destruct a; try discriminate. apply (D_cst S).
    - rewrite sev_add. apply D_fsum_zero. simpl in Hn, Hs. apply sdf_list in Hs.
      rewrite forallb_forall in Hn. rewrite Forall_forall in *. intros y Hy.
      apply in_map_iff in Hy. destruct Hy as [z [<- Hz]]. auto.
    - rewrite sev_mul. apply D_fprod_zero. simpl in Hn, Hs. apply sdf_list in Hs.
      rewrite forallb_forall in Hn. rewrite Forall_forall in *. intros y Hy.
      apply in_map_iff in Hy. destruct Hy as [z [<- Hz]]. auto.
    - rewrite D_spow by exact Hs. simpl in Hn. apply andb_true_iff in Hn. destruct Hn as [N1 N2].
      destruct Hs as (Hb & Hx & _). rewrite (IHb N1 Hb), (IHx N2 Hx). ring.
    - simpl in Hn. destruct Hs as (Ha & Hk & Hd & Hm). specialize (IHa Hn Ha).
      change (sev (SFn f a)) with (E S f (sev a)).
      destruct f; try discriminate.
      + rewrite (D_sin S) by auto. rewrite IHa. ring.
      + rewrite (D_cos S) by auto. rewrite IHa. ring.
      + rewrite (D_tan S) by auto. rewrite IHa. ring.
      + rewrite (D_exp S) by auto. rewrite IHa. ring.
      + rewrite (D_log S) by auto. rewrite IHa. field. exact Hm.
      + rewrite (D_sqrt S) by auto. rewrite IHa. field.
        split; intros Hz; apply Hm; unfold num; rewrite Hz; ring.
  Qed.

  Lemma is_coeff_number x : is_coeff x = true -> is_number x = true.
  Proof. destruct x as [| a | | | |]; try discriminate; auto. Qed.

  Lemma sev_pow_base b b' x : sev b' = sev b -> sev (SPow b' x) = sev (SPow b x).
  Proof.
    intros H. destruct (is_intlit x) eqn:Ei.
    - destruct x as [p q| | | | |]; try discriminate. destruct q; try discriminate.
      destruct p as [|p|p].
      + reflexivity.
      + change (pw S (sev b') (Npos p) = pw S (sev b) (Npos p)). now rewrite H.
      + change (finv S (pw S (sev b') (Npos p)) = finv S (pw S (sev b) (Npos p))). now rewrite H.
    - rewrite !(sev_pow_general _ x Ei). now rewrite H.
  Qed.

  Lemma sev_ssimp e : sev (ssimp e) = sev e.
  Proof.
    induction e as [p q|a|l IHl|l IHl|b x IHb IHx|f a IHa] using sx_ind'; try reflexivity.
    - cbn [ssimp]. rewrite sev_sadd, sev_add, map_map. f_equal.
      induction IHl as [|y r Hy _ IHr]; simpl; auto. now rewrite Hy, IHr.
    - cbn [ssimp]. rewrite sev_smul, sev_mul, map_map. f_equal.
      induction IHl as [|y r Hy _ IHr]; simpl; auto. now rewrite Hy, IHr.
    - cbn [ssimp]. now apply sev_pow_base.
    - cbn [ssimp]. change (E S f (sev (ssimp a)) = E S f (sev a)). now rewrite IHa.
  Qed.

  (* ------------------------------------------------------------------ sdiff, atoms *)
  Lemma sdiff_sound lg i e e' : sdiff lg i e = Some e' -> sdf e -> sev e' = Dd lg i (sev e).
  Proof.
    unfold sdiff. intros H Hs. destruct (tD lg i (sx2t e)) as [t'|] eqn:Et; [|discriminate].
    inversion H. rewrite sev_ssimp, ev_t2s. apply ev_tD; auto. now apply sdf_dfd.
  Qed.

  Lemma dop_atom_tD lg i a e' : dop_atom lg i a = Some e' -> tD lg i (TAt a) = Some (sx2t e').
  Proof.
    destruct a; simpl; intros H;
      repeat match goal with
             | H : (if ?c then _ else _) = Some _ |- _ => destruct c eqn:?; try discriminate
             end; inversion H; try reflexivity.
    destruct (Nat.eqb i i0 && Nat.ltb i0 3); reflexivity.
  Qed.

  Lemma nofield_sound lg i e e' :
    (if is_number e then Some (sZ 0) else sdiff lg i e) = Some e' -> sdf e -> sev e' = Dd lg i (sev e).
  Proof.
    destruct (is_number e) eqn:En; intros H Hs.
    - inversion H. rewrite is_number_D by auto. reflexivity.
    - now apply sdiff_sound.
  Qed.

  (* --------------------------------------------------------------------- main theorem *)
  Theorem dop_sound lg i e : forall e', dop lg i e = Some e' -> sdf e -> sev e' = Dd lg i (sev e).
  Proof.
    induction e as [p q|a|l IHl|l IHl|b x IHb IHx|f a IHa] using sx_ind'; intros e' H Hs.
    - inversion H. rewrite D_snum by exact Hs. reflexivity.
    - apply dop_atom_tD in H. apply (ev_tD S lg i (TAt a)); auto; exact I.
    - (* Add *)
      cbn [dop] in H. destruct (negb (has_field (SAdd l))); [now apply nofield_sound|].
      match type of H with option_map sadd ?g = _ => destruct g as [dl|] eqn:Eg; [|discriminate] end.
      inversion H. subst e'. clear H.
      rewrite sev_sadd, sev_add, D_fsum, map_map. f_equal.
      simpl in Hs. apply sdf_list in Hs.
      revert dl Eg. induction l as [|y r IHr]; intros dl Eg.
      + inversion Eg. reflexivity.
      + inversion IHl as [|? ? Hy Hr]; subst. inversion Hs as [|? ? Sy Sr]; subst.
        destruct (dop lg i y) as [dy|] eqn:Ey; [|discriminate].
        match type of Eg with match ?g with _ => _ end = _ => destruct g as [dr|] eqn:Er; [|discriminate] end.
        inversion Eg. simpl. f_equal; auto.
    - (* Mul *)
      cbn [dop] in H. destruct (negb (has_field (SMul l))); [now apply nofield_sound|].
      simpl in Hs. apply sdf_list in Hs.
      set (go := fix go (l : list sx) : option (option (sx * sx)) :=
               match l with
               | [] => Some None
               | x :: r =>
                   if is_coeff x then go r else
                   match dop lg i x, go r with
                   | Some dx, Some None => Some (Some (x, dx))
                   | Some dx, Some (Some (pr, dpr)) =>
                       Some (Some (SMul [x; pr], sadd [smul [x; dpr]; smul [dx; pr]]))
                   | _, _ => None
                   end
               end) in H.
      assert (G : forall l, Forall (fun e => forall e', dop lg i e = Some e' -> sdf e -> sev e' = Dd lg i (sev e)) l ->
                  Forall sdf l ->
                  match go l with
                  | None => True
                  | Some None => sev (SMul l) = sev (SMul (filter is_coeff l))
                  | Some (Some (pr, dpr)) =>
                      sev (SMul l) = sev (SMul (filter is_coeff l)) * sev pr /\ sev dpr = Dd lg i (sev pr)
                  end).
      { clear. induction l as [|y r IHr]; intros HI HS.
        - simpl. reflexivity.
        - inversion HI as [|? ? Hy Hr]; subst. inversion HS as [|? ? Sy Sr]; subst.
          specialize (IHr Hr Sr). cbn [go]. fold go.
          destruct (is_coeff y) eqn:Ec.
          + destruct (go r) as [[[pr dpr]|]|]; auto.
            * destruct IHr as [E1 E2]. split; auto.
              rewrite !sev_mul in *. cbn [filter]. rewrite Ec. simpl. rewrite E1. ring.
            * rewrite !sev_mul in *. cbn [filter]. rewrite Ec. simpl. now rewrite IHr.
          + destruct (dop lg i y) as [dy|] eqn:Ey; auto.
            specialize (Hy _ eq_refl Sy).
            destruct (go r) as [[[pr dpr]|]|]; auto.
            * destruct IHr as [E1 E2]. split.
              -- rewrite !sev_mul in *. cbn [filter]. rewrite Ec. simpl. rewrite E1.
                 change (sev (SMul [y; pr])) with (ev S (TMul (sx2t y) (sx2t pr))). unfold ev. simpl. ring.
              -- change (sev (SMul [y; pr])) with (sev y * sev pr).
                 rewrite sev_sadd. cbn [map fsum]. rewrite !sev_smul. cbn [map fprod].
                 rewrite (D_mul S), E2, Hy. ring.
            * split; auto. rewrite !sev_mul in *. cbn [filter]. rewrite Ec. simpl. rewrite IHr. ring. }
      specialize (G l IHl Hs).
      assert (Hc : Dd lg i (sev (SMul (filter is_coeff l))) = 0).
      { apply is_number_D.
        - simpl. apply forallb_forall. intros y Hy. apply filter_In in Hy. now apply is_coeff_number.
        - simpl. apply sdf_list. rewrite Forall_forall in *. intros y Hy. apply filter_In in Hy. now apply Hs. }
      destruct (go l) as [[[pr dV]|]|]; [| |discriminate]; inversion H; subst e'; clear H.
      + destruct G as [E1 E2].
        rewrite sev_smul. cbn [map fprod]. rewrite sev_smul. rewrite <- sev_mul.
        rewrite E1, (D_mul S), Hc, E2. ring.
      + change (sev (sZ 0)) with 0. rewrite G, Hc. reflexivity.
    - (* Pow *)
      cbn [dop] in H. destruct (negb (has_field (SPow b x))); [now apply nofield_sound|].
      destruct (dop lg i b) as [db|] eqn:Eb; [|discriminate].
      destruct (dop lg i x) as [dx|] eqn:Ex; [|discriminate].
      inversion H. subst e'. clear H.
      rewrite D_spow by exact Hs. destruct Hs as (Hb & Hx & Hn & Hp).
      rewrite <- (IHb _ eq_refl Hb), <- (IHx _ eq_refl Hx).
      rewrite sev_smul. cbn [map fprod]. rewrite sev_sadd. cbn [map fsum]. rewrite !sev_smul. cbn [map fprod].
      change (sev (SFn Flog b)) with (E S Flog (sev b)).
      rewrite sev_inv1. ring.
    - (* a function of a field: refused *)
      cbn [dop] in H. destruct (negb (has_field (SFn f a))); [now apply nofield_sound|discriminate].
  Qed.

  (* ------------------------------------------------------------------ corollaries *)
  Theorem dop_comm lg i j e a b ab ba :
    dop lg i e = Some a -> dop lg j a = Some ab ->
    dop lg j e = Some b -> dop lg i b = Some ba ->
    sdf e -> sdf a -> sdf b -> sev ab = sev ba.
  Proof.
    intros H1 H2 H3 H4 Se Sa Sb.
    rewrite (dop_sound _ _ _ _ H2 Sa), (dop_sound _ _ _ _ H1 Se).
    rewrite (dop_sound _ _ _ _ H4 Sb), (dop_sound _ _ _ _ H3 Se). apply (D_comm S).
  Qed.

  Theorem dop_additive lg i a b r ra rb :
    dop lg i (SAdd [a; b]) = Some r -> dop lg i a = Some ra -> dop lg i b = Some rb ->
    sdf a -> sdf b -> sev r = sev ra + sev rb.
  Proof.
    intros Hr Ha Hb Sa Sb.
    rewrite (dop_sound _ _ _ _ Hr), (dop_sound _ _ _ _ Ha Sa), (dop_sound _ _ _ _ Hb Sb).
    - change (sev (SAdd [a; b])) with (sev a + sev b). apply (D_add S).
    - simpl. auto.
  Qed.

  Theorem dop_leibniz lg i a b r ra rb :
    dop lg i (SMul [a; b]) = Some r -> dop lg i a = Some ra -> dop lg i b = Some rb ->
    sdf a -> sdf b -> sev r = sev ra * sev b + sev a * sev rb.
  Proof.
    intros Hr Ha Hb Sa Sb.
    rewrite (dop_sound _ _ _ _ Hr), (dop_sound _ _ _ _ Ha Sa), (dop_sound _ _ _ _ Hb Sb).
    - change (sev (SMul [a; b])) with (sev a * sev b). apply (D_mul S).
    - simpl. auto.
  Qed.

  Theorem dop_const_linear lg i c e r re :
    is_number c = true -> dop lg i (SMul [c; e]) = Some r -> dop lg i e = Some re ->
    sdf c -> sdf e -> sev r = sev c * sev re.
  Proof.
    intros Hc Hr He Sc Se.
    rewrite (dop_sound _ _ _ _ Hr), (dop_sound _ _ _ _ He Se).
    - change (sev (SMul [c; e])) with (sev c * sev e). rewrite (D_mul S), (is_number_D lg i c Hc Sc). ring.
    - simpl. auto.
  Qed.

  Theorem dop_number_zero lg i e r :
    is_number e = true -> dop lg i e = Some r -> sdf e -> sev r = 0.
  Proof. intros Hn Hr Se. rewrite (dop_sound _ _ _ _ Hr Se). now apply is_number_D. Qed.
  (* ---------------------------------------------- compositions of operators, block by block *)
  (* iterated derivation, outermost operator first (as [dops]) *)
  Fixpoint Dops (ops : list (bool * nat)) (x : F S) : F S :=
    match ops with
    | [] => x
    | (lg, i) :: r => Dd lg i (Dops r x)
    end.

  (* every argument met along the composition is defined *)
  Fixpoint sdfs (ops : list (bool * nat)) (e : sx) : Prop :=
    match ops with
    | [] => True
    | _ :: r => sdfs r e /\ match dops r e with Some e' => sdf e' | None => True end
    end.

  Theorem dops_sound ops : forall e e', dops ops e = Some e' -> sdfs ops e -> sev e' = Dops ops (sev e).
  Proof.
    induction ops as [|[lg i] r IH]; intros e e' H Hs.
    - inversion H. reflexivity.
    - cbn [dops] in H. cbn [sdfs] in Hs. destruct Hs as [Hr Hm].
      destruct (dops r e) as [m|] eqn:Em; [|discriminate].
      cbn [Dops]. rewrite <- (IH e m Em Hr). now apply dop_sound.
  Qed.

  Lemma Dops_app ops1 ops2 x : Dops (ops1 ++ ops2) x = Dops ops1 (Dops ops2 x).
  Proof. induction ops1 as [|[lg i] r IH]; simpl; [reflexivity|now rewrite IH]. Qed.

  (* two consecutive blocks: the value after the second block is the composition of the two
     iterated derivations applied to the value of the input *)
  Theorem dops_blocks_sound ops1 ops2 e m r :
    dops ops2 e = Some m -> dops ops1 m = Some r -> sdfs ops2 e -> sdfs ops1 m ->
    sev r = Dops ops1 (Dops ops2 (sev e)).
  Proof.
    intros H2 H1 S2 S1. rewrite (dops_sound _ _ _ H1 S1), (dops_sound _ _ _ H2 S2). reflexivity.
  Qed.
End DOp.

(* canonical identity of re-ordered derivative chains: the atom does not depend on the order *)
Lemma bump_comm i : forall j al, bump i (bump j al) = bump j (bump i al).
Proof.
  induction i as [|i IH]; intros [|j] [|a r]; simpl; try reflexivity; f_equal; apply IH.
Qed.

Theorem dop_atom_order lg i j f c s al a1 a2 b1 b2 :
  dop_atom lg i (AFld lg f c s al) = Some (SAt a1) -> dop_atom lg j a1 = Some (SAt a2) ->
  dop_atom lg j (AFld lg f c s al) = Some (SAt b1) -> dop_atom lg i b1 = Some (SAt b2) ->
  a2 = b2.
Proof.
  simpl. rewrite Bool.eqb_reflx, !orb_true_r. intros H1 H2 H3 H4.
  inversion H1; subst; clear H1. inversion H3; subst; clear H3. simpl in H2, H4.
  rewrite Bool.eqb_reflx, !orb_true_r in H2, H4. inversion H2. inversion H4. now rewrite bump_comm.
Qed.

(* refusal: a non-arithmetic function of an expression that contains a field *)
Theorem dop_refuses lg i f a : has_field a = true -> dop lg i (SFn f a) = None.
Proof. intros H. cbn [dop has_field]. rewrite H. reflexivity. Qed.

(* a composition is computed block by block: applying [ops1 ++ ops2] (outermost first) is
   applying the block [ops2] and then the block [ops1] to its result *)
Theorem dops_app ops1 ops2 e :
  dops (ops1 ++ ops2) e = match dops ops2 e with Some m => dops ops1 m | None => None end.
Proof.
  induction ops1 as [|[lg i] r IH]; simpl.
  - destruct (dops ops2 e); reflexivity.
  - rewrite IH. destruct (dops ops2 e); reflexivity.
Qed.
