(* Lemmas about the model of calling a form (C10). *)
From Coq Require Import String ZArith List Bool Arith Permutation Lia.
From V Require Import Model.CallM.
Import ListNotations.
Open Scope string_scope. Open Scope list_scope.

(* ------------------------------------------------------------------ induction principle for n-ary trees *)
Section ExprInd.
  Variable Pr : expr -> Prop.
  Hypothesis HLeaf : forall l, Pr (ELeaf l).
  Hypothesis HAdd : forall l, Forall Pr l -> Pr (EAdd l).
  Hypothesis HMul : forall l, Forall Pr l -> Pr (EMul l).
  Hypothesis HPow : forall b e, Pr b -> Pr e -> Pr (EPow b e).
  Hypothesis HOp : forall n l, Forall Pr l -> Pr (EOp n l).

  Fixpoint expr_ind' (e : expr) : Pr e :=
    let go := (fix go (l : list expr) : Forall Pr l :=
                 match l with [] => Forall_nil _ | x :: r => Forall_cons x (expr_ind' x) (go r) end) in
    match e with
    | ELeaf l => HLeaf l
    | EAdd l => HAdd l (go l)
    | EMul l => HMul l (go l)
    | EPow b x => HPow b x (expr_ind' b) (expr_ind' x)
    | EOp n l => HOp n l (go l)
    end.
End ExprInd.

Lemma map_ext_Forall {A B} (f g : A -> B) l : Forall (fun x => f x = g x) l -> map f l = map g l.
Proof. induction 1; simpl; congruence. Qed.

Lemma map_id_Forall {A} (f : A -> A) l : Forall (fun x => f x = x) l -> map f l = l.
Proof. induction 1; simpl; congruence. Qed.

(* ------------------------------------------------------------------ boolean equalities are sound *)
Lemma leaf_eqb_eq a b : leaf_eqb a b = true <-> a = b.
Proof.
  destruct a, b; simpl; try (split; [discriminate|congruence]);
    rewrite ?andb_true_iff, ?String.eqb_eq, ?Z.eqb_eq, ?Pos.eqb_eq, ?Bool.eqb_true_iff;
    (split; [intuition congruence | intros H; inversion H; auto]).
Qed.

Lemma leaf_eqb_refl a : leaf_eqb a a = true.
Proof. now apply leaf_eqb_eq. Qed.

Lemma leaf_eqb_neq a b : a <> b -> leaf_eqb a b = false.
Proof. intros H. destruct (leaf_eqb a b) eqn:E; auto. apply leaf_eqb_eq in E. contradiction. Qed.

Lemma leaf_eqb_sym a b : leaf_eqb a b = leaf_eqb b a.
Proof.
  destruct (leaf_eqb a b) eqn:E.
  - apply leaf_eqb_eq in E. subst. now rewrite leaf_eqb_refl.
  - destruct (leaf_eqb b a) eqn:E'; auto. apply leaf_eqb_eq in E'. subst. now rewrite leaf_eqb_refl in E.
Qed.

Lemma expr_eqb_eq : forall a b, expr_eqb a b = true -> a = b.
Proof.
  induction a using expr_ind'; intros b0 E; destruct b0; simpl in E; try discriminate.
  - apply leaf_eqb_eq in E. now subst.
  - f_equal. revert l0 E. induction H as [|x r Hx Hr IH]; intros [|y s] E; try discriminate; auto.
    apply andb_true_iff in E. destruct E as [E1 E2]. f_equal; auto.
  - f_equal. revert l0 E. induction H as [|x r Hx Hr IH]; intros [|y s] E; try discriminate; auto.
    apply andb_true_iff in E. destruct E as [E1 E2]. f_equal; auto.
  - apply andb_true_iff in E. destruct E as [E1 E2]. f_equal; auto.
  - apply andb_true_iff in E. destruct E as [E0 E]. apply String.eqb_eq in E0. subst. f_equal.
    revert l0 E. induction H as [|x r Hx Hr IH]; intros [|y s] E; try discriminate; auto.
    apply andb_true_iff in E. destruct E as [E1 E2]. f_equal; auto.
Qed.

Lemma body_eqb_eq : forall b1 b2, body_eqb b1 b2 = true -> b1 = b2.
Proof.
  induction b1 as [|[r e] s IH]; intros [|[r' e'] s'] E; simpl in E; try discriminate; auto.
  apply andb_true_iff in E. destruct E as [E E3]. apply andb_true_iff in E. destruct E as [E1 E2].
  apply String.eqb_eq in E1. apply expr_eqb_eq in E2. subst. f_equal. auto.
Qed.

(* ------------------------------------------------------------------ subst_sim is a homomorphism *)
Lemma subst_sim_add s l : subst_sim s (EAdd l) = EAdd (map (subst_sim s) l).
Proof. reflexivity. Qed.
Lemma subst_sim_mul s l : subst_sim s (EMul l) = EMul (map (subst_sim s) l).
Proof. reflexivity. Qed.
Lemma subst_sim_pow s b e : subst_sim s (EPow b e) = EPow (subst_sim s b) (subst_sim s e).
Proof. reflexivity. Qed.
Lemma subst_sim_op s n l : subst_sim s (EOp n l) = EOp n (map (subst_sim s) l).
Proof. reflexivity. Qed.
(* a replaced leaf becomes its replacement verbatim: what is inserted is not substituted again,
   even when it mentions keys of the dictionary *)
Lemma subst_sim_hit s k v : lookup s k = Some v -> subst_sim s (ELeaf k) = v.
Proof. intros H. simpl. now rewrite H. Qed.
Lemma subst_sim_miss s k : lookup s k = None -> subst_sim s (ELeaf k) = ELeaf k.
Proof. intros H. simpl. now rewrite H. Qed.

Lemma subst_sim_homomorphism s :
  (forall l, subst_sim s (EAdd l) = EAdd (map (subst_sim s) l)) /\
  (forall l, subst_sim s (EMul l) = EMul (map (subst_sim s) l)) /\
  (forall b e, subst_sim s (EPow b e) = EPow (subst_sim s b) (subst_sim s e)) /\
  (forall n l, subst_sim s (EOp n l) = EOp n (map (subst_sim s) l)) /\
  (forall k v, lookup s k = Some v -> subst_sim s (ELeaf k) = v) /\
  (forall k, lookup s k = None -> subst_sim s (ELeaf k) = ELeaf k).
Proof. repeat split; auto using subst_sim_hit, subst_sim_miss. Qed.

Lemma subst_sim_nil e : subst_sim [] e = e.
Proof.
  induction e using expr_ind'; simpl; auto; f_equal; auto using map_id_Forall.
Qed.

(* the exact set of leaves after substitution: nothing else changes *)
Lemma leaves_subst s e :
  leaves (subst_sim s e) =
  flat_map (fun l => match lookup s l with Some v => leaves v | None => [l] end) (leaves e).
Proof.
  induction e using expr_ind'; simpl.
  - destruct (lookup s l); simpl; now rewrite ?app_nil_r.
  - induction H as [|x r Hx Hr IH]; simpl; auto. rewrite flat_map_app. now rewrite Hx, IH.
  - induction H as [|x r Hx Hr IH]; simpl; auto. rewrite flat_map_app. now rewrite Hx, IH.
  - rewrite flat_map_app. now rewrite IHe1, IHe2.
  - induction H as [|x r Hx Hr IH]; simpl; auto. rewrite flat_map_app. now rewrite Hx, IH.
Qed.

(* fixed points: a tree none of whose leaves is a key *)
Lemma subst_sim_fixed s e : (forall l, In l (leaves e) -> lookup s l = None) -> subst_sim s e = e.
Proof.
  induction e using expr_ind'; simpl; intros Hl.
  - rewrite Hl; auto.
  - f_equal. apply map_id_Forall. revert Hl. induction H as [|x r Hx Hr IH]; simpl; intros Hl; constructor.
    + apply Hx. intros; apply Hl. apply in_or_app; auto.
    + apply IH. intros; apply Hl. apply in_or_app; auto.
  - f_equal. apply map_id_Forall. revert Hl. induction H as [|x r Hx Hr IH]; simpl; intros Hl; constructor.
    + apply Hx. intros; apply Hl. apply in_or_app; auto.
    + apply IH. intros; apply Hl. apply in_or_app; auto.
  - f_equal; [apply IHe1|apply IHe2]; intros; apply Hl; apply in_or_app; auto.
  - f_equal. apply map_id_Forall. revert Hl. induction H as [|x r Hx Hr IH]; simpl; intros Hl; constructor.
    + apply Hx. intros; apply Hl. apply in_or_app; auto.
    + apply IH. intros; apply Hl. apply in_or_app; auto.
Qed.

(* ------------------------------------------------------------------ semantics: the substitution lemma *)
(* Evaluating the substituted tree = evaluating the original tree in the environment where every key is
   bound to the value of its replacement IN THE OLD ENVIRONMENT: all replacements happen at once. *)
Lemma sem_subst (I : interp) rho s e : sem I rho (subst_sim s e) = sem I (upd I rho s) e.
Proof.
  induction e using expr_ind'; simpl.
  - unfold upd. destruct (lookup s l); reflexivity.
  - f_equal. rewrite map_map. now apply map_ext_Forall.
  - f_equal. rewrite map_map. now apply map_ext_Forall.
  - now rewrite IHe1, IHe2.
  - f_equal. rewrite map_map. now apply map_ext_Forall.
Qed.

Lemma sem_body_subst (I : interp) rho s b :
  sem_body I rho (map_body (subst_sim s) b) = sem_body I (upd I rho s) b.
Proof.
  induction b as [|[r e] t IH]; simpl; auto. unfold sem_body in *. simpl. now rewrite IH, sem_subst.
Qed.

(* ------------------------------------------------------------------ lookup facts *)
Lemma lookup_app s t k :
  lookup (s ++ t) k = match lookup t k with Some w => Some w | None => lookup s k end.
Proof.
  induction s as [|[k' v] r IH]; simpl.
  - destruct (lookup t k); reflexivity.
  - rewrite IH. destruct (lookup t k); auto.
Qed.

Lemma lookup_combine_none ks vs k : lmem k ks = false -> lookup (combine ks vs) k = None.
Proof.
  revert vs. induction ks as [|x r IH]; intros [|v vs] H; simpl in *; auto.
  apply orb_false_iff in H. destruct H as [H1 H2]. rewrite IH; auto. now rewrite H1.
Qed.

Lemma lookup_combine_some ks vs k :
  In k ks -> length ks <= length vs -> exists v, lookup (combine ks vs) k = Some v.
Proof.
  revert vs. induction ks as [|x r IH]; intros [|v vs] Hin Hlen; simpl in *; try contradiction; try lia.
  destruct (lookup (combine r vs) k) eqn:E; [eauto|].
  destruct Hin as [->|Hin].
  - rewrite leaf_eqb_refl. eauto.
  - destruct (IH vs Hin) as [w Hw]; [lia|]. congruence.
Qed.

Lemma lookup_self ks k v : lookup (combine ks (map ELeaf ks)) k = Some v -> v = ELeaf k.
Proof.
  induction ks as [|x r IH]; simpl; [discriminate|].
  destruct (lookup (combine r (map ELeaf r)) k) eqn:E.
  - intros H. inversion H; subst. now apply IH.
  - destruct (leaf_eqb k x) eqn:E'; [|discriminate]. apply leaf_eqb_eq in E'. subst. intros H. now inversion H.
Qed.

Lemma lmem_In k l : lmem k l = true <-> In k l.
Proof.
  unfold lmem. rewrite existsb_exists. split.
  - intros [x [Hx E]]. apply leaf_eqb_eq in E. now subst.
  - intros H. exists k. split; auto. apply leaf_eqb_refl.
Qed.

(* ------------------------------------------------------------------ calling with the form's own arguments *)
Lemma subst_self ks e : subst_sim (combine ks (map ELeaf ks)) e = e.
Proof.
  induction e using expr_ind'; simpl; auto; try (f_equal; auto using map_id_Forall).
  destruct (lookup (combine ks (map ELeaf ks)) l) eqn:E; auto. now apply lookup_self in E.
Qed.

Lemma map_body_id f b : (forall e, f e = e) -> map_body f b = b.
Proof.
  intros H. induction b as [|[r e] t IH]; simpl; auto. now rewrite H, IH.
Qed.

Lemma count_ok_length a pos vals :
  values_of a pos = Some vals -> count_ok a pos = true -> length vals = length (vars a).
Proof.
  unfold values_of, count_ok, vars. destruct (f_kind a) eqn:K.
  - destruct pos as [|tr [|te [|x r]]]; try discriminate. intros H C. inversion H; subst.
    apply andb_true_iff in C. destruct C as [C1 C2]. apply Nat.eqb_eq in C1, C2.
    rewrite !app_length. congruence.
  - unfold values_of. rewrite K. intros H. rewrite H. intros C. now apply Nat.eqb_eq in C.
Qed.

Lemma call_own_bilinear a :
  f_kind a = Bilinear ->
  call a [PSeq (map ELeaf (f_trials a)); PSeq (map ELeaf (f_tests a))] [] = Ok (f_body a).
Proof.
  intros K. unfold call, values_of, count_ok. rewrite K. simpl. rewrite !map_length, !Nat.eqb_refl. simpl.
  unfold vars. rewrite <- map_app. f_equal. apply map_body_id. apply subst_self.
Qed.

Lemma call_own_linear a :
  f_kind a = Linear -> f_trials a = [] -> call a [PSeq (map ELeaf (f_tests a))] [] = Ok (f_body a).
Proof.
  intros K T. unfold call, count_ok, values_of. rewrite K. simpl. unfold vars. rewrite T. simpl.
  rewrite map_length, Nat.eqb_refl. f_equal. apply map_body_id. apply subst_self.
Qed.

(* single (non-tuple) arguments, as one writes a(u, v) *)
Lemma call_own_single a u v :
  f_kind a = Bilinear -> f_trials a = [u] -> f_tests a = [v] ->
  call a [PVal (ELeaf u); PVal (ELeaf v)] [] = Ok (f_body a).
Proof.
  intros K T1 T2. pose proof (call_own_bilinear a K) as H. rewrite T1, T2 in H.
  unfold call, values_of, count_ok in *. rewrite K in *. rewrite T1, T2 in *. simpl in *. exact H.
Qed.

(* ------------------------------------------------------------------ what a call leaves untouched *)
Lemma map_body_regions f b : map fst (map_body f b) = map fst b.
Proof. unfold map_body. rewrite map_map. reflexivity. Qed.

Lemma call_regions a pos kw b : call a pos kw = Ok b -> map fst b = map fst (f_body a).
Proof.
  unfold call. destruct (values_of a pos); [|discriminate].
  destruct (kw_dict (free_vars a) kw); [|discriminate].
  destruct (count_ok a pos); [|discriminate].
  intros H. inversion H; subst. apply map_body_regions.
Qed.

(* without keywords the result is the simultaneous substitution of the declared variables ... *)
Lemma call_positional a pos vals :
  values_of a pos = Some vals -> count_ok a pos = true ->
  call a pos [] = Ok (map_body (subst_sim (combine (vars a) vals)) (f_body a)).
Proof. intros H C. unfold call. rewrite H, C. reflexivity. Qed.

(* ... under which every leaf that is not a declared variable (free field, constant, coordinate,
   number, any other atom) is a fixed point, *)
Lemma positional_fixes a vals l :
  lmem l (vars a) = false -> subst_sim (combine (vars a) vals) (ELeaf l) = ELeaf l.
Proof. intros H. apply subst_sim_miss. now apply lookup_combine_none. Qed.

Lemma positional_fixes_kind a vals l :
  is_fun l = false -> (forall x, In x (vars a) -> is_fun x = true) ->
  subst_sim (combine (vars a) vals) (ELeaf l) = ELeaf l.
Proof.
  intros Hl Hv. apply positional_fixes. destruct (lmem l (vars a)) eqn:E; auto.
  apply lmem_In in E. apply Hv in E. congruence.
Qed.

(* ... and every declared variable is replaced when one value per variable is supplied *)
Lemma positional_replaces a vals l :
  In l (vars a) -> length (vars a) <= length vals ->
  exists v, subst_sim (combine (vars a) vals) (ELeaf l) = v /\ lookup (combine (vars a) vals) l = Some v.
Proof.
  intros Hin Hlen. destruct (lookup_combine_some _ _ _ Hin Hlen) as [v Hv].
  exists v. split; auto. now apply subst_sim_hit.
Qed.

(* ------------------------------------------------------------------ keywords *)
Lemma find_name_none n l : (forall x, In x l -> leaf_name x <> n) -> find_name n l = None.
Proof.
  induction l as [|x r IH]; simpl; intros H; auto.
  rewrite IH by (intros; apply H; auto).
  destruct (String.eqb n (leaf_name x)) eqn:E; auto. apply String.eqb_eq in E.
  exfalso. apply (H x); auto.
Qed.

Lemma find_name_In n l x : find_name n l = Some x -> In x l /\ leaf_name x = n.
Proof.
  induction l as [|y r IH]; simpl; [discriminate|].
  destruct (find_name n r) eqn:E.
  - intros H. inversion H; subst. destruct (IH eq_refl). auto.
  - destruct (String.eqb n (leaf_name y)) eqn:E'; [|discriminate].
    intros H. inversion H; subst. apply String.eqb_eq in E'. auto.
Qed.

(* a keyword can only ever name a free field or a constant, never a declared argument *)
Lemma free_var_not_declared a x :
  In x (free_vars a) -> (is_fun x = true /\ lmem x (vars a) = false) \/ is_const x = true.
Proof.
  unfold free_vars, fields, constants. rewrite in_app_iff, !filter_In.
  intros [[_ H]|[_ H]]; auto. apply andb_true_iff in H. destruct H as [H1 H2].
  left. split; auto. now apply negb_true_iff.
Qed.

Lemma kw_never_names_argument a n x :
  find_name n (free_vars a) = Some x -> lmem x (vars a) = true -> is_const x = true.
Proof.
  intros H Hv. apply find_name_In in H. destruct H as [H _].
  apply free_var_not_declared in H. destruct H as [[_ H]|H]; congruence.
Qed.

Lemma kw_dict_unknown fv kw n v : In (n, v) kw -> find_name n fv = None -> kw_dict fv kw = None.
Proof.
  induction kw as [|[m w] r IH]; simpl; intros Hin Hn; [contradiction|].
  destruct Hin as [E|Hin].
  - inversion E; subst. now rewrite Hn.
  - rewrite (IH Hin Hn). now destruct (find_name m fv).
Qed.

Lemma call_unknown_kw a pos kw n v :
  values_of a pos <> None -> In (n, v) kw -> find_name n (free_vars a) = None ->
  call a pos kw = Err ErrUnknownKw.
Proof.
  intros Hp Hin Hn. unfold call. destruct (values_of a pos); [|congruence].
  now rewrite (kw_dict_unknown _ _ _ _ Hin Hn).
Qed.

(* a wrong number of values is refused (after the unknown-keyword test, as in the code) *)
Lemma call_wrong_count a pos kw vals d :
  values_of a pos = Some vals -> kw_dict (free_vars a) kw = Some d -> count_ok a pos = false ->
  call a pos kw = Err ErrCount.
Proof. intros Hv Hd Hc. unfold call. now rewrite Hv, Hd, Hc. Qed.

(* FULL statement: whenever a call succeeds it is ONE simultaneous substitution, keywords and arguments
   together, with exactly one value per declared argument *)
Lemma call_simultaneous a pos kw b :
  call a pos kw = Ok b ->
  exists vals d, values_of a pos = Some vals /\ kw_dict (free_vars a) kw = Some d /\
                 length vals = length (vars a) /\
                 b = map_body (subst_sim (d ++ combine (vars a) vals)) (f_body a) /\
                 forall (I : interp) rho,
                   sem_body I rho b = sem_body I (upd I rho (d ++ combine (vars a) vals)) (f_body a).
Proof.
  unfold call. destruct (values_of a pos) as [vals|] eqn:Hv; [|discriminate].
  destruct (kw_dict (free_vars a) kw) as [d|] eqn:Hd; [|discriminate].
  destruct (count_ok a pos) eqn:Hc; [|discriminate].
  intros H. inversion H; subst. exists vals, d. repeat split; auto.
  - eapply count_ok_length; eauto.
  - intros. apply sem_body_subst.
Qed.

Lemma body_leaves_subst s b :
  body_leaves (map_body (subst_sim s) b) =
  flat_map (fun l => match lookup s l with Some v => leaves v | None => [l] end) (body_leaves b).
Proof.
  unfold body_leaves. induction b as [|[r e] t IH]; simpl; auto.
  rewrite flat_map_app, leaves_subst. now rewrite IH.
Qed.

(* FULL arity statement: after a successful call no declared argument survives, except inside a supplied value *)
Lemma call_no_argument_survives a pos kw b l :
  call a pos kw = Ok b -> In l (vars a) -> In l (body_leaves b) ->
  exists vals d k v, values_of a pos = Some vals /\ kw_dict (free_vars a) kw = Some d /\
                     lookup (d ++ combine (vars a) vals) k = Some v /\ In l (leaves v).
Proof.
  intros H Hl Hb. destruct (call_simultaneous a pos kw b H) as [vals [d [Hv [Hd [Hlen [Eb _]]]]]].
  exists vals, d. subst b. rewrite body_leaves_subst in Hb. apply in_flat_map in Hb.
  destruct Hb as [k [Hk Hin]]. destruct (lookup (d ++ combine (vars a) vals) k) as [v|] eqn:E.
  - exists k, v. auto.
  - exfalso. simpl in Hin. destruct Hin as [->|[]].
    rewrite lookup_app in E. destruct (lookup_combine_some (vars a) vals l Hl) as [w Hw]; [lia|].
    rewrite Hw in E. discriminate.
Qed.

(* ------------------------------------------------------------------ composition of substitutions *)
Lemma subst_comp s t r :
  (forall l, match lookup s l with
             | Some v => lookup r l = Some (subst_sim t v)
             | None => lookup r l = lookup t l
             end) ->
  forall e, subst_sim t (subst_sim s e) = subst_sim r e.
Proof.
  intros H. induction e using expr_ind'; simpl.
  - specialize (H l). destruct (lookup s l); rewrite H; simpl; auto.
  - f_equal. rewrite map_map. now apply map_ext_Forall.
  - f_equal. rewrite map_map. now apply map_ext_Forall.
  - now rewrite IHe1, IHe2.
  - f_equal. rewrite map_map. now apply map_ext_Forall.
Qed.

(* the guard under which the code's sequence (one xreplace per keyword, then the arguments)
   coincides with a single simultaneous substitution: no keyword value mentions a key that is
   substituted later, and no key occurs twice *)
Definition no_key (d : dict) (e : expr) : bool :=
  forallb (fun l => match lookup d l with None => true | Some _ => false end) (leaves e).

Fixpoint cleanb (d p : dict) : bool :=
  match d with
  | [] => true
  | (x, v) :: r =>
      match lookup r x, lookup p x with
      | None, None => no_key r v && no_key p v && cleanb r p
      | _, _ => false
      end
  end.

Lemma no_key_fixed d e : no_key d e = true -> subst_sim d e = e.
Proof.
  unfold no_key. rewrite forallb_forall. intros H. apply subst_sim_fixed.
  intros l Hl. specialize (H l Hl). destruct (lookup d l); [discriminate|auto].
Qed.

Lemma map_body_comp f g b : map_body f (map_body g b) = map_body (fun e => f (g e)) b.
Proof. unfold map_body. rewrite map_map. reflexivity. Qed.

Lemma map_body_ext f g b : (forall e, f e = g e) -> map_body f b = map_body g b.
Proof. intros H. unfold map_body. apply map_ext. intros [r e]. simpl. now rewrite H. Qed.

Lemma update_free_clean fv p kw : forall d b,
  kw_dict fv kw = Some d -> cleanb d p = true ->
  update_free fv kw b = Ok (map_body (subst_sim d) b).
Proof.
  induction kw as [|[n v] r IH]; simpl; intros d b Hd Hc.
  - inversion Hd; subst. f_equal. symmetry. apply map_body_id. apply subst_sim_nil.
  - destruct (find_name n fv) as [x|]; [|discriminate].
    destruct (kw_dict fv r) as [d'|] eqn:E; [|discriminate]. inversion Hd; subst. simpl in Hc.
    destruct (lookup d' x) eqn:Ex; [discriminate|]. destruct (lookup p x); [discriminate|].
    apply andb_true_iff in Hc. destruct Hc as [Hc Hc3]. apply andb_true_iff in Hc. destruct Hc as [Hc1 Hc2].
    rewrite (IH d' _ eq_refl Hc3). f_equal. rewrite map_body_comp. apply map_body_ext.
    apply subst_comp. intros l. simpl.
    destruct (leaf_eqb l x) eqn:El.
    + apply leaf_eqb_eq in El. subst l. rewrite Ex. now rewrite (no_key_fixed _ _ Hc1).
    + destruct (lookup d' l); auto.
Qed.

Lemma clean_app d p : cleanb d p = true ->
  forall l, match lookup d l with
            | Some v => lookup (d ++ p) l = Some (subst_sim p v)
            | None => lookup (d ++ p) l = lookup p l
            end.
Proof.
  induction d as [|[x v] r IH]; simpl; intros Hc l.
  - now destruct (lookup p l).
  - destruct (lookup r x) eqn:Ex; [discriminate|]. destruct (lookup p x) eqn:Ep; [discriminate|].
    apply andb_true_iff in Hc. destruct Hc as [Hc Hc3]. apply andb_true_iff in Hc. destruct Hc as [Hc1 Hc2].
    specialize (IH Hc3 l).
    destruct (lookup r l) eqn:El.
    + now rewrite IH.
    + destruct (leaf_eqb l x) eqn:E.
      * apply leaf_eqb_eq in E. subst l. rewrite IH, Ep. now rewrite (no_key_fixed _ _ Hc2).
      * rewrite IH. destruct (lookup p l); auto.
Qed.

Lemma call_before_fix_partial a pos kw vals d :
  values_of a pos = Some vals -> kw_dict (free_vars a) kw = Some d ->
  cleanb d (combine (vars a) vals) = true -> count_ok a pos = true ->
  call_before_fix a pos kw = call a pos kw.
Proof.
  intros Hv Hd Hc Hn. unfold call, call_before_fix. rewrite Hv, Hd, Hn.
  rewrite (update_free_clean _ _ _ _ _ Hd Hc). f_equal. rewrite map_body_comp. apply map_body_ext.
  apply subst_comp. now apply clean_app.
Qed.

(* historical: without that guard the code before the repairs did something else; two witnesses *)
Definition wu := LFun false "u".  Definition wv := LFun false "v".
Definition wf := LFun false "f".  Definition ww := LFun false "w".
Definition wc := LConst "c".      Definition wk := LConst "k".

(* l = LinearForm(v, integral(f*v));  l(w, f=v): the keyword value v is then replaced by w *)
Definition wit_lin : form := mkForm Linear [] [wv] [("dom:Omega", EMul [ELeaf wf; ELeaf wv])].
(* a = BilinearForm((u,v), integral(c*u*v) + integral_b(k*u*v));  a(u, v, c=k, k=c) *)
Definition wit_bil : form :=
  mkForm Bilinear [wu] [wv] [("dom:Omega", EMul [ELeaf wc; ELeaf wu; ELeaf wv]);
                             ("bnd:Omega:G:0:1", EMul [ELeaf wk; ELeaf wu; ELeaf wv])].

Lemma call_kw_then_args_before_fix :
  call_before_fix wit_lin [PVal (ELeaf ww)] [("f", ELeaf wv)] = Ok [("dom:Omega", EMul [ELeaf ww; ELeaf ww])] /\
  call wit_lin [PVal (ELeaf ww)] [("f", ELeaf wv)] = Ok [("dom:Omega", EMul [ELeaf wv; ELeaf ww])].
Proof. split; reflexivity. Qed.

Lemma call_kw_swap_before_fix :
  call_before_fix wit_bil [PVal (ELeaf wu); PVal (ELeaf wv)] [("c", ELeaf wk); ("k", ELeaf wc)]
    = Ok [("dom:Omega", EMul [ELeaf wc; ELeaf wu; ELeaf wv]); ("bnd:Omega:G:0:1", EMul [ELeaf wc; ELeaf wu; ELeaf wv])] /\
  call wit_bil [PVal (ELeaf wu); PVal (ELeaf wv)] [("c", ELeaf wk); ("k", ELeaf wc)]
    = Ok [("dom:Omega", EMul [ELeaf wk; ELeaf wu; ELeaf wv]); ("bnd:Omega:G:0:1", EMul [ELeaf wc; ELeaf wu; ELeaf wv])].
Proof. split; reflexivity. Qed.

Lemma call_before_fix_not_simultaneous :
  exists a pos kw, call_before_fix a pos kw <> call a pos kw.
Proof.
  exists wit_lin, [PVal (ELeaf ww)], [("f", ELeaf wv)].
  destruct call_kw_then_args_before_fix as [-> ->]. discriminate.
Qed.

(* the number of values is not checked: zip() stops at the shorter list, a declared variable survives
   and a test value lands in a trial slot *)
Lemma call_arity_before_fix :
  call wit_bil [PSeq []; PVal (ELeaf ww)] [] = Err ErrCount /\
  exists a pos b l, call_before_fix a pos [] = Ok b /\ In l (vars a) /\ In l (body_leaves b) /\
                    ~ In l (flat_map leaves (flat_map as_list pos)).
Proof.
  split; [reflexivity|]. exists wit_bil, [PSeq []; PVal (ELeaf ww)].
  eexists. exists wv. split; [reflexivity|]. split; [simpl; auto|]. split; [simpl; auto 10|].
  simpl. intros [H|[]]. discriminate.
Qed.

(* ------------------------------------------------------------------ exchange *)
Lemma swap_lookup_u u v : u <> v -> lookup (swap u v) u = Some (ELeaf v).
Proof. intros H. simpl. rewrite (leaf_eqb_neq _ _ H). now rewrite leaf_eqb_refl. Qed.
Lemma swap_lookup_v u v : lookup (swap u v) v = Some (ELeaf u).
Proof. simpl. now rewrite leaf_eqb_refl. Qed.
Lemma swap_lookup_other u v l : l <> u -> l <> v -> lookup (swap u v) l = None.
Proof. intros H1 H2. simpl. now rewrite (leaf_eqb_neq _ _ H1), (leaf_eqb_neq _ _ H2). Qed.

Lemma swap_leaf u v l :
  subst_sim (swap u v) (subst_sim (swap u v) (ELeaf l)) = ELeaf l.
Proof.
  destruct (leaf_eqb l v) eqn:Ev.
  - apply leaf_eqb_eq in Ev. subst l. rewrite (subst_sim_hit _ _ _ (swap_lookup_v u v)).
    destruct (leaf_eqb u v) eqn:Euv.
    + apply leaf_eqb_eq in Euv. subst u. now rewrite (subst_sim_hit _ _ _ (swap_lookup_v v v)).
    + assert (u <> v) by (intros ->; now rewrite leaf_eqb_refl in Euv).
      now rewrite (subst_sim_hit _ _ _ (swap_lookup_u u v H)).
  - assert (Hlv : l <> v) by (intros ->; now rewrite leaf_eqb_refl in Ev).
    destruct (leaf_eqb l u) eqn:Eu.
    + apply leaf_eqb_eq in Eu. subst l. rewrite (subst_sim_hit _ _ _ (swap_lookup_u u v Hlv)).
      now rewrite (subst_sim_hit _ _ _ (swap_lookup_v u v)).
    + assert (Hlu : l <> u) by (intros ->; now rewrite leaf_eqb_refl in Eu).
      now rewrite !(subst_sim_miss _ _ (swap_lookup_other u v l Hlu Hlv)).
Qed.

(* exchanging really exchanges: doing it twice gives the tree back, for every tree *)
Lemma swap_involution u v e : subst_sim (swap u v) (subst_sim (swap u v) e) = e.
Proof.
  induction e using expr_ind'.
  - apply swap_leaf.
  - simpl. f_equal. rewrite map_map. now apply map_id_Forall.
  - simpl. f_equal. rewrite map_map. now apply map_id_Forall.
  - simpl. now rewrite IHe1, IHe2.
  - simpl. f_equal. rewrite map_map. now apply map_id_Forall.
Qed.

Lemma swap_exchanges u v : u <> v ->
  subst_sim (swap u v) (ELeaf u) = ELeaf v /\ subst_sim (swap u v) (ELeaf v) = ELeaf u.
Proof.
  intros H. split; [apply subst_sim_hit, swap_lookup_u; auto|apply subst_sim_hit, swap_lookup_v].
Qed.

(* the contrast: one substitution after the other does not exchange, it merges *)
Lemma subst_seq_collapses u v : u <> v ->
  subst_seq (swap u v) (ELeaf u) = ELeaf u /\ subst_seq (swap u v) (ELeaf v) = ELeaf u.
Proof.
  intros H. unfold subst_seq, swap. simpl.
  rewrite leaf_eqb_refl. simpl. rewrite leaf_eqb_refl.
  rewrite (leaf_eqb_neq v u) by congruence. simpl. rewrite leaf_eqb_refl. auto.
Qed.

Lemma subst_seq_not_swap :
  exists e u v, subst_seq (swap u v) e <> subst_sim (swap u v) e /\
                subst_seq (swap u v) (subst_seq (swap u v) e) <> e.
Proof.
  exists (EMul [EOp "dx1" [ELeaf wu]; ELeaf wv]), wu, wv. split; vm_compute; discriminate.
Qed.

(* arguments that mention each other, a(u + v, u): each occurrence is replaced once, by the value
   the argument had in the caller's environment *)
Lemma call_mentions_each_other (I : interp) rho a u v tr te :
  f_kind a = Bilinear -> f_trials a = [u] -> f_tests a = [v] ->
  exists b, call a [PVal tr; PVal te] [] = Ok b /\
            sem_body I rho b = sem_body I (upd I rho (combine (vars a) [tr; te])) (f_body a).
Proof.
  intros K T1 T2. eexists. split.
  - apply call_positional; [unfold values_of; rewrite K; reflexivity|].
    unfold count_ok. rewrite K, T1, T2. reflexivity.
  - apply sem_body_subst.
Qed.

(* ------------------------------------------------------------------ canonical order preserves the meaning *)
Lemma einsert_perm x l : Permutation (einsert x l) (x :: l).
Proof.
  induction l as [|y r IH]; simpl; auto. destruct (ele x y); auto.
  rewrite IH. apply perm_swap.
Qed.

Lemma esort_perm l : Permutation (esort l) l.
Proof.
  induction l as [|x r IH]; simpl; auto. rewrite einsert_perm. now constructor.
Qed.

Lemma sem_canon (I : interp) rho e : sem I rho (canon e) = sem I rho e.
Proof.
  induction e using expr_ind'; simpl; auto.
  - apply addv_perm. rewrite (Permutation_map _ (esort_perm _)). rewrite map_map.
    rewrite (map_ext_Forall _ _ _ H). reflexivity.
  - apply mulv_perm. rewrite (Permutation_map _ (esort_perm _)). rewrite map_map.
    rewrite (map_ext_Forall _ _ _ H). reflexivity.
  - now rewrite IHe1, IHe2.
  - destruct (is_comm_op n) eqn:E; simpl.
    + apply opv_perm; auto. rewrite (Permutation_map _ (esort_perm _)). rewrite map_map.
      rewrite (map_ext_Forall _ _ _ H). reflexivity.
    + f_equal. rewrite map_map. now apply map_ext_Forall.
Qed.

Lemma binsert_perm x l : Permutation (binsert x l) (x :: l).
Proof.
  induction l as [|y r IH]; simpl; auto. destruct (String.leb (fst x) (fst y)); auto.
  rewrite IH. apply perm_swap.
Qed.

Lemma sem_body_perm (I : interp) rho b b' : Permutation b b' -> sem_body I rho b = sem_body I rho b'.
Proof.
  unfold sem_body. induction 1; simpl; auto.
  - now rewrite IHPermutation.
  - rewrite !madd_assoc. f_equal. apply madd_comm.
  - congruence.
Qed.

Lemma sem_canon_body (I : interp) rho b : sem_body I rho (canon_body b) = sem_body I rho b.
Proof.
  unfold canon_body. induction b as [|[r e] t IH]; simpl; auto.
  rewrite (sem_body_perm I rho _ _ (binsert_perm _ _)).
  unfold sem_body in *. simpl. now rewrite IH, sem_canon.
Qed.

Lemma struct_eq_sem (I : interp) rho b1 b2 : struct_eq b1 b2 = true -> sem_body I rho b1 = sem_body I rho b2.
Proof.
  unfold struct_eq. intros H. apply body_eqb_eq in H.
  rewrite <- (sem_canon_body I rho b1), <- (sem_canon_body I rho b2). now rewrite H.
Qed.

(* ------------------------------------------------------------------ the symmetry flag *)
Definition own_args (a : form) : list parg := [PSeq (map ELeaf (f_trials a)); PSeq (map ELeaf (f_tests a))].
Definition exch_args (a : form) : list parg := [PSeq (map ELeaf (f_tests a)); PSeq (map ELeaf (f_trials a))].
Definition exch_dict (a : form) : dict :=
  combine (f_trials a ++ f_tests a) (map ELeaf (f_tests a) ++ map ELeaf (f_trials a)).

Lemma is_symmetric_sound (I : interp) a :
  is_symmetric a = true ->
  forall rho, sem_result I rho (call a (own_args a) []) = sem_result I rho (call a (exch_args a) []).
Proof.
  unfold is_symmetric, own_args, exch_args. destruct (f_kind a); [|discriminate].
  destruct (call a _ []) as [x|]; [|discriminate].
  destruct (call a _ []) as [y|]; [|discriminate].
  intros H rho. simpl. f_equal. now apply struct_eq_sem.
Qed.

(* in terms of the form itself: when the flag is true, exchanging the VALUES of trial and test
   functions in the environment does not change the value of the form *)
Lemma is_symmetric_exchange (I : interp) a :
  is_symmetric a = true ->
  forall rho, sem_body I (upd I rho (exch_dict a)) (f_body a) = sem_body I rho (f_body a).
Proof.
  intros H rho. pose proof (is_symmetric_sound I a H rho) as S.
  unfold is_symmetric in H. destruct (f_kind a) eqn:K; [|discriminate].
  unfold own_args in S. rewrite (call_own_bilinear a K) in S.
  unfold own_args, exch_args in H. rewrite (call_own_bilinear a K) in H.
  unfold exch_args in S.
  destruct (call a [PSeq (map ELeaf (f_tests a)); PSeq (map ELeaf (f_trials a))] []) as [y|] eqn:Ey; [|discriminate].
  destruct (call_simultaneous _ _ _ _ Ey) as [vals [d [Hv [Hd [_ [Eb _]]]]]].
  unfold values_of in Hv. rewrite K in Hv. simpl in Hv. inversion Hv; subst vals.
  simpl in Hd. inversion Hd; subst d. simpl in Eb. subst y.
  simpl in S. inversion S as [S']. rewrite S'. unfold exch_dict, vars. now rewrite sem_body_subst.
Qed.

(* the flag is never true for a form whose meaning changes under exchange *)
Lemma meaning_changes_flag_false (I : interp) a rho :
  sem_body I (upd I rho (exch_dict a)) (f_body a) <> sem_body I rho (f_body a) -> is_symmetric a = false.
Proof.
  intros H. destruct (is_symmetric a) eqn:E; auto. exfalso. apply H. now apply is_symmetric_exchange.
Qed.

(* ------------------------------------------------------------------ a concrete interpretation (non-vacuity) *)
Definition zsum (l : list Z) : Z := fold_right Z.add 0%Z l.
Definition zprod (l : list Z) : Z := fold_right Z.mul 1%Z l.
Definition zop (n : string) (l : list Z) : Z :=
  if is_comm_op n then zsum l else fold_left (fun acc x => 2 * acc + x + 1)%Z l 0%Z.

Lemma zsum_perm l l' : Permutation l l' -> zsum l = zsum l'.
Proof. unfold zsum. induction 1; simpl; lia. Qed.
Lemma zprod_perm l l' : Permutation l l' -> zprod l = zprod l'.
Proof.
  unfold zprod. induction 1; simpl; auto.
  - now rewrite IHPermutation.
  - rewrite !Z.mul_assoc. f_equal. apply Z.mul_comm.
  - congruence.
Qed.
Lemma zop_perm n l l' : is_comm_op n = true -> Permutation l l' -> zop n l = zop n l'.
Proof. intros H P. unfold zop. rewrite H. now apply zsum_perm. Qed.

Definition Zinterp : interp :=
  {| V := Z; M := Z; addv := zsum; mulv := zprod; powv := fun a _ => a; opv := zop;
     intv := fun _ x => x; madd := Z.add; m0 := 0%Z;
     addv_perm := zsum_perm; mulv_perm := zprod_perm; opv_perm := zop_perm;
     madd_comm := Z.add_comm; madd_assoc := Z.add_assoc |}.

(* dx1(u)*v + u*dx1(v): flag true;  dx1(u)*v: flag false and the meaning does change *)
Definition sym_form : form :=
  mkForm Bilinear [wu] [wv]
    [("dom:Omega", EAdd [EMul [EOp "dx1" [ELeaf wu]; ELeaf wv]; EMul [ELeaf wu; EOp "dx1" [ELeaf wv]]])].
Definition nonsym_form : form :=
  mkForm Bilinear [wu] [wv] [("dom:Omega", EMul [EOp "dx1" [ELeaf wu]; ELeaf wv])].
Definition zrho (l : leaf) : Z := match l with LFun _ "u" => 1%Z | LFun _ "v" => 2%Z | _ => 3%Z end.

Lemma sym_form_flag : is_symmetric sym_form = true.
Proof. vm_compute. reflexivity. Qed.
Lemma nonsym_form_changes :
  sem_body Zinterp (upd Zinterp zrho (exch_dict nonsym_form)) (f_body nonsym_form)
  <> sem_body Zinterp zrho (f_body nonsym_form).
Proof. vm_compute. discriminate. Qed.
Lemma nonsym_form_flag : is_symmetric nonsym_form = false.
Proof. exact (meaning_changes_flag_false Zinterp nonsym_form zrho nonsym_form_changes). Qed.

(* ------------------------------------------------------------------ terminal level: tsubst is evaluation in the updated environment *)
From V Require Import Core.Terminal Core.TerminalP Core.DField.

Section TSubst.
  Variable S : dfield.
  Variable sf : list (string * list texpr).
  Variable sc : list (string * texpr).

  (* the environment in which every replaced function component / constant has the value of its replacement *)
  Definition fld' (f : string) (c : nat) (s : side) : F S :=
    match sassoc f sf with
    | Some comps => match nth_error comps c, s with
                    | Some v, SNone => ev S v
                    | _, _ => fld S f c s
                    end
    | None => fld S f c s
    end.
  Definition cst' (n : string) : F S :=
    match sassoc n sc with Some v => ev S v | None => cst S n end.
  Definition ev' (t : texpr) : F S :=
    teval (F S) (f0 S) (f1 S) (fadd S) (fmul S) (fsub S) (fopp S) (fdiv S) (finv S)
          cst' (crd S) fld' (mp S) (nrm S) (D S) (E S) (P S) t.

  Definition values_defined : Prop :=
    forall f comps c v, sassoc f sf = Some comps -> nth_error comps c = Some v -> dfd S v.

  Lemma tDn_sound lg i n : forall t t', tDn lg i n t = Some t' -> dfd S t ->
    dfd S t' /\ ev S t' = iterN (F S) n (D S lg i) (ev S t).
  Proof.
    induction n as [|k IH]; simpl; intros t t' H Hd.
    - inversion H; subst. auto.
    - destruct (tDn lg i k t) as [t1|] eqn:E; [|discriminate].
      destruct (IH t t1 E Hd) as [Hd1 He1]. split.
      + eapply dfd_tD; eauto.
      + rewrite (ev_tD S lg i t1 t' H Hd1). now rewrite He1.
  Qed.

  Lemma tDal_sound lg al : forall i t t', tDal lg i al t = Some t' -> dfd S t ->
    dfd S t' /\ ev S t' = iterD (F S) (D S) lg i al (ev S t).
  Proof.
    induction al as [|n r IH]; simpl; intros i t t' H Hd.
    - inversion H; subst. auto.
    - destruct (tDal lg (Datatypes.S i) r t) as [t1|] eqn:E; [|discriminate].
      destruct (IH (Datatypes.S i) t t1 E Hd) as [Hd1 He1].
      destruct (tDn_sound lg i n t1 t' H Hd1) as [Hd2 He2]. split; auto. now rewrite He2, He1.
  Qed.

  Lemma tsubst_atom_sound a t' : values_defined -> tsubst_atom sf sc a = Some t' -> ev S t' = ev' (TAt a).
  Proof.
    intros Hv. destruct a as [l i|n|lg f c s al|m i al|s i]; simpl; unfold ev'; simpl.
    - intros H. now inversion H.
    - unfold cst'. destruct (sassoc n sc); intros H; inversion H; reflexivity.
    - unfold fld'. destruct (sassoc f sf) as [comps|] eqn:Ef.
      + destruct (nth_error comps c) as [v|] eqn:Ec; [|discriminate].
        destruct s; try discriminate. intros H.
        destruct (tDal_sound lg al 0 v t' H (Hv f comps c v Ef Ec)) as [_ He]. exact He.
      + intros H. now inversion H.
    - intros H. now inversion H.
    - intros H. now inversion H.
  Qed.

  Theorem tsubst_sound t : forall t', values_defined -> tsubst sf sc t = Some t' -> ev S t' = ev' t.
  Proof.
    induction t; simpl; intros t' Hv H;
      try (inversion H; subst; reflexivity);
      try (destruct (tsubst sf sc t1) as [x1|] eqn:E1; [|discriminate];
           destruct (tsubst sf sc t2) as [x2|] eqn:E2; [|discriminate];
           inversion H; subst; unfold ev, ev' in *; simpl;
           rewrite (IHt1 x1 Hv eq_refl), (IHt2 x2 Hv eq_refl); reflexivity);
      try (destruct (tsubst sf sc t) as [x|] eqn:E1; [|discriminate];
           inversion H; subst; unfold ev, ev' in *; simpl; rewrite (IHt x Hv eq_refl); reflexivity).
    now apply tsubst_atom_sound.
  Qed.

  (* what the per-case comparison of lowered integrands establishes: if the checker accepts, then in every
     differential field the called integrand [r] is the original integrand [o] evaluated with every replaced
     function and constant bound to the value of its replacement - all at once *)
  Corollary lowered_call_sound o r t :
    values_defined -> tsubst sf sc o = Some t -> tequiv t r = true -> dok S t r -> ev S r = ev' o.
  Proof.
    intros Hv Ht He Hd. rewrite <- (tsubst_sound o t Hv Ht). symmetry. now apply ev_tequiv.
  Qed.
End TSubst.
