(* Lemmas about the model of calling a form (C10). *)
From Coq Require Import String ZArith List Bool Arith Permutation Lia.
From V Require Import Model.CallM.
Import ListNotations.
Open Scope string_scope. Open Scope list_scope.

(* ------------------------------------------------------------------ induction principle for n-ary trees *)
Section ExprInd.
  Variable Pr : expr -> Prop.
  Hypothesis HLeaf : forall l, Pr (ELeaf l).
  Hypothesis HAdd : forall l, Forall Pr l -> Pr (EAdd l).
  Hypothesis HMul : forall l, Forall Pr l -> Pr (EMul l).
  Hypothesis HPow : forall b e, Pr b -> Pr e -> Pr (EPow b e).
  Hypothesis HOp : forall n l, Forall Pr l -> Pr (EOp n l).

  Fixpoint expr_ind' (e : expr) : Pr e :=
    let go := (fix go (l : list expr) : Forall Pr l :=
                 match l with [] => Forall_nil _ | x :: r => Forall_cons x (expr_ind' x) (go r) end) in
    match e with
    | ELeaf l => HLeaf l
    | EAdd l => HAdd l (go l)
    | EMul l => HMul l (go l)
    | EPow b x => HPow b x (expr_ind' b) (expr_ind' x)
    | EOp n l => HOp n l (go l)
    end.
End ExprInd.

Lemma map_ext_Forall {A B} (f g : A -> B) l : Forall (fun x => f x = g x) l -> map f l = map g l.
Proof. induction 1; simpl; congruence. Qed.

Lemma map_id_Forall {A} (f : A -> A) l : Forall (fun x => f x = x) l -> map f l = l.
Proof. induction 1; simpl; congruence. Qed.

(* ------------------------------------------------------------------ boolean equalities are sound *)
Lemma leaf_eqb_eq a b : leaf_eqb a b = true <-> a = b.
Proof.
  destruct a, b; simpl; try (split; [discriminate|congruence]);
    rewrite ?andb_true_iff, ?String.eqb_eq, ?Z.eqb_eq, ?Pos.eqb_eq, ?Bool.eqb_true_iff;
    (split; [intuition congruence | intros H; inversion H; auto]).
Qed.

Lemma leaf_eqb_refl a : leaf_eqb a a = true.
Proof. now apply leaf_eqb_eq. Qed.

Lemma leaf_eqb_neq a b : a <> b -> leaf_eqb a b = false.
Proof. intros H. destruct (leaf_eqb a b) eqn:E; auto. apply leaf_eqb_eq in E. contradiction. Qed.

Lemma leaf_eqb_sym a b : leaf_eqb a b = leaf_eqb b a.
Proof.
  destruct (leaf_eqb a b) eqn:E.
  - apply leaf_eqb_eq in E. subst. now rewrite leaf_eqb_refl.
  - destruct (leaf_eqb b a) eqn:E'; auto. apply leaf_eqb_eq in E'. subst. now rewrite leaf_eqb_refl in E.
Qed.

Lemma expr_eqb_eq : forall a b, expr_eqb a b = true -> a = b.
Proof.
  induction a using expr_ind'; intros b0 E; destruct b0; simpl in E; try discriminate.
  - apply leaf_eqb_eq in E. now subst.
  - f_equal. revert l0 E. induction H as [|x r Hx Hr IH]; intros [|y s] E; try discriminate; auto.
    apply andb_true_iff in E. destruct E as [E1 E2]. f_equal; auto.
  - f_equal. revert l0 E. induction H as [|x r Hx Hr IH]; intros [|y s] E; try discriminate; auto.
    apply andb_true_iff in E. destruct E as [E1 E2]. f_equal; auto.
  - apply andb_true_iff in E. destruct E as [E1 E2]. f_equal; auto.
  - apply andb_true_iff in E. destruct E as [E0 E]. apply String.eqb_eq in E0. subst. f_equal.
    revert l0 E. induction H as [|x r Hx Hr IH]; intros [|y s] E; try discriminate; auto.
    apply andb_true_iff in E. destruct E as [E1 E2]. f_equal; auto.
Qed.

Lemma body_eqb_eq : forall b1 b2, body_eqb b1 b2 = true -> b1 = b2.
Proof.
  induction b1 as [|[r e] s IH]; intros [|[r' e'] s'] E; simpl in E; try discriminate; auto.
  apply andb_true_iff in E. destruct E as [E E3]. apply andb_true_iff in E. destruct E as [E1 E2].
  apply String.eqb_eq in E1. apply expr_eqb_eq in E2. subst. f_equal. auto.
Qed.

(* ------------------------------------------------------------------ subst_sim is a homomorphism *)
Lemma subst_sim_add s l : subst_sim s (EAdd l) = EAdd (map (subst_sim s) l).
Proof. reflexivity. Qed.
Lemma subst_sim_mul s l : subst_sim s (EMul l) = EMul (map (subst_sim s) l).
Proof. reflexivity. Qed.
Lemma subst_sim_pow s b e : subst_sim s (EPow b e) = EPow (subst_sim s b) (subst_sim s e).
Proof. reflexivity. Qed.
Lemma subst_sim_op s n l : subst_sim s (EOp n l) = EOp n (map (subst_sim s) l).
Proof. reflexivity. Qed.
(* a replaced leaf becomes its replacement verbatim: what is inserted is not substituted again,
   even when it mentions keys of the dictionary *)
Lemma subst_sim_hit s k v : lookup s k = Some v -> subst_sim s (ELeaf k) = v.
Proof. intros H. simpl. now rewrite H. Qed.
Lemma subst_sim_miss s k : lookup s k = None -> subst_sim s (ELeaf k) = ELeaf k.
Proof. intros H. simpl. now rewrite H. Qed.

Lemma subst_sim_homomorphism s :
  (forall l, subst_sim s (EAdd l) = EAdd (map (subst_sim s) l)) /\
  (forall l, subst_sim s (EMul l) = EMul (map (subst_sim s) l)) /\
  (forall b e, subst_sim s (EPow b e) = EPow (subst_sim s b) (subst_sim s e)) /\
  (forall n l, subst_sim s (EOp n l) = EOp n (map (subst_sim s) l)) /\
  (forall k v, lookup s k = Some v -> subst_sim s (ELeaf k) = v) /\
  (forall k, lookup s k = None -> subst_sim s (ELeaf k) = ELeaf k).
Proof. repeat split; auto using subst_sim_hit, subst_sim_miss. Qed.

Lemma subst_sim_nil e : subst_sim [] e = e.
Proof.
  induction e using expr_ind'; simpl; auto; f_equal; auto using map_id_Forall.
Qed.

(* the exact set of leaves after substitution: nothing else changes *)
Lemma leaves_subst s e :
  leaves (subst_sim s e) =
  flat_map (fun l => match lookup s l with Some v => leaves v | None => [l] end) (leaves e).
Proof.
  induction e using expr_ind'; simpl.
  - destruct (lookup s l); simpl; now rewrite ?app_nil_r.
  - induction H as [|x r Hx Hr IH]; simpl; auto. rewrite flat_map_app. now rewrite Hx, IH.
  - induction H as [|x r Hx Hr IH]; simpl; auto. rewrite flat_map_app. now rewrite Hx, IH.
  - rewrite flat_map_app. now rewrite IHe1, IHe2.
  - induction H as [|x r Hx Hr IH]; simpl; auto. rewrite flat_map_app. now rewrite Hx, IH.
Qed.

(* fixed points: a tree none of whose leaves is a key *)
Lemma subst_sim_fixed s e : (forall l, In l (leaves e) -> lookup s l = None) -> subst_sim s e = e.
Proof.
  induction e using expr_ind'; simpl; intros Hl.
  - rewrite Hl; auto.
  - f_equal. apply map_id_Forall. revert Hl. induction H as [|x r Hx Hr IH]; simpl; intros Hl; constructor.
    + apply Hx. intros; apply Hl. apply in_or_app; auto.
    + apply IH. intros; apply Hl. apply in_or_app; auto.
  - f_equal. apply map_id_Forall. revert Hl. induction H as [|x r Hx Hr IH]; simpl; intros Hl; constructor.
    + apply Hx. intros; apply Hl. apply in_or_app; auto.
    + apply IH. intros; apply Hl. apply in_or_app; auto.
  - f_equal; [apply IHe1|apply IHe2]; intros; apply Hl; apply in_or_app; auto.
  - f_equal. apply map_id_Forall. revert Hl. induction H as [|x r Hx Hr IH]; simpl; intros Hl; constructor.
    + apply Hx. intros; apply Hl. apply in_or_app; auto.
    + apply IH. intros; apply Hl. apply in_or_app; auto.
Qed.

(* ------------------------------------------------------------------ semantics: the substitution lemma *)
(* Evaluating the substituted tree = evaluating the original tree in the environment where every key is
   bound to the value of its replacement IN THE OLD ENVIRONMENT: all replacements happen at once. *)
Lemma sem_subst (I : interp) rho s e : sem I rho (subst_sim s e) = sem I (upd I rho s) e.
Proof.
  induction e using expr_ind'; simpl.
  - unfold upd. destruct (lookup s l); reflexivity.
  - f_equal. rewrite map_map. now apply map_ext_Forall.
  - f_equal. rewrite map_map. now apply map_ext_Forall.
  - now rewrite IHe1, IHe2.
  - f_equal. rewrite map_map. now apply map_ext_Forall.
Qed.

Lemma sem_body_subst (I : interp) rho s b :
  sem_body I rho (map_body (subst_sim s) b) = sem_body I (upd I rho s) b.
Proof.
  induction b as [|[r e] t IH]; simpl; auto. unfold sem_body in *. simpl. now rewrite IH, sem_subst.
Qed.

(* ------------------------------------------------------------------ lookup facts *)
Lemma lookup_app s t k :
  lookup (s ++ t) k = match lookup t k with Some w => Some w | None => lookup s k end.
Proof.
  induction s as [|[k' v] r IH]; simpl.
  - destruct (lookup t k); reflexivity.
  - rewrite IH. destruct (lookup t k); auto.
Qed.

Lemma lookup_combine_none ks vs k : lmem k ks = false -> lookup (combine ks vs) k = None.
Proof.
  revert vs. induction ks as [|x r IH]; intros [|v vs] H; simpl in *; auto.
  apply orb_false_iff in H. destruct H as [H1 H2]. rewrite IH; auto. now rewrite H1.
Qed.

Lemma lookup_combine_some ks vs k :
  In k ks -> length ks <= length vs -> exists v, lookup (combine ks vs) k = Some v.
Proof.
  revert vs. induction ks as [|x r IH]; intros [|v vs] Hin Hlen; simpl in *; try contradiction; try lia.
  destruct (lookup (combine r vs) k) eqn:E; [eauto|].
  destruct Hin as [->|Hin].
  - rewrite leaf_eqb_refl. eauto.
  - destruct (IH vs Hin) as [w Hw]; [lia|]. congruence.
Qed.

Lemma lookup_self ks k v : lookup (combine ks (map ELeaf ks)) k = Some v -> v = ELeaf k.
Proof.
  induction ks as [|x r IH]; simpl; [discriminate|].
  destruct (lookup (combine r (map ELeaf r)) k) eqn:E.
  - intros H. inversion H; subst. now apply IH.
  - destruct (leaf_eqb k x) eqn:E'; [|discriminate]. apply leaf_eqb_eq in E'. subst. intros H. now inversion H.
Qed.

Lemma lmem_In k l : lmem k l = true <-> In k l.
Proof.
  unfold lmem. rewrite existsb_exists. split.
  - intros [x [Hx E]]. apply leaf_eqb_eq in E. now subst.
  - intros H. exists k. split; auto. apply leaf_eqb_refl.
Qed.

(* ------------------------------------------------------------------ calling with the form's own arguments *)
Lemma subst_self ks e : subst_sim (combine ks (map ELeaf ks)) e = e.
Proof.
  induction e using expr_ind'; simpl; auto; try (f_equal; auto using map_id_Forall).
  destruct (lookup (combine ks (map ELeaf ks)) l) eqn:E; auto. now apply lookup_self in E.
Qed.

Lemma map_body_id f b : (forall e, f e = e) -> map_body f b = b.
Proof.
  intros H. induction b as [|[r e] t IH]; simpl; auto. now rewrite H, IH.
Qed.

Lemma count_ok_length a pos vals :
  values_of a pos = Some vals -> count_ok a pos = true -> length vals = length (vars a).
Proof.
  unfold values_of, count_ok, vars. destruct (f_kind a) eqn:K.
  - destruct pos as [|tr [|te [|x r]]]; try discriminate. intros H C. inversion H; subst.
    apply andb_true_iff in C. destruct C as [C1 C2]. apply Nat.eqb_eq in C1, C2.
    rewrite !app_length. congruence.
  - unfold values_of. rewrite K. intros H. rewrite H. intros C. now apply Nat.eqb_eq in C.
Qed.

Lemma call_own_bilinear a :
  f_kind a = Bilinear ->
  call a [PSeq (map ELeaf (f_trials a)); PSeq (map ELeaf (f_tests a))] [] = Ok (f_body a).
Proof.
  intros K. unfold call, call_with, values_of, count_ok. rewrite K. simpl. rewrite !map_length, !Nat.eqb_refl. simpl.
  unfold vars. rewrite <- map_app. f_equal. apply map_body_id. apply subst_self.
Qed.

Lemma call_own_linear a :
  f_kind a = Linear -> f_trials a = [] -> call a [PSeq (map ELeaf (f_tests a))] [] = Ok (f_body a).
Proof.
  intros K T. unfold call, call_with, count_ok, values_of. rewrite K. simpl. unfold vars. rewrite T. simpl.
  rewrite map_length, Nat.eqb_refl. f_equal. apply map_body_id. apply subst_self.
Qed.

(* single (non-tuple) arguments, as one writes a(u, v) *)
Lemma call_own_single a u v :
  f_kind a = Bilinear -> f_trials a = [u] -> f_tests a = [v] ->
  call a [PVal (ELeaf u); PVal (ELeaf v)] [] = Ok (f_body a).
Proof.
  intros K T1 T2. pose proof (call_own_bilinear a K) as H. rewrite T1, T2 in H.
  unfold call, call_with, values_of, count_ok in *. rewrite K in *. rewrite T1, T2 in *. simpl in *. exact H.
Qed.

(* ------------------------------------------------------------------ what a call leaves untouched *)
Lemma map_body_regions f b : map fst (map_body f b) = map fst b.
Proof. unfold map_body. rewrite map_map. reflexivity. Qed.

Lemma call_regions a pos kw b : call a pos kw = Ok b -> map fst b = map fst (f_body a).
Proof.
  unfold call, call_with. destruct (values_of a pos); [|discriminate].
  destruct (kw_dict (free_vars a) kw); [|discriminate].
  destruct (count_ok a pos); [|discriminate].
  intros H. inversion H; subst. apply map_body_regions.
Qed.

(* without keywords the result is the simultaneous substitution of the declared variables ... *)
Lemma call_positional a pos vals :
  values_of a pos = Some vals -> count_ok a pos = true ->
  call a pos [] = Ok (map_body (subst_sim (combine (vars a) vals)) (f_body a)).
Proof. intros H C. unfold call, call_with. rewrite H, C. reflexivity. Qed.

(* ... under which every leaf that is not a declared variable (free field, constant, coordinate,
   number, any other atom) is a fixed point, *)
Lemma positional_fixes a vals l :
  lmem l (vars a) = false -> subst_sim (combine (vars a) vals) (ELeaf l) = ELeaf l.
Proof. intros H. apply subst_sim_miss. now apply lookup_combine_none. Qed.

Lemma positional_fixes_kind a vals l :
  is_fun l = false -> (forall x, In x (vars a) -> is_fun x = true) ->
  subst_sim (combine (vars a) vals) (ELeaf l) = ELeaf l.
Proof.
  intros Hl Hv. apply positional_fixes. destruct (lmem l (vars a)) eqn:E; auto.
  apply lmem_In in E. apply Hv in E. congruence.
Qed.

(* ... and every declared variable is replaced when one value per variable is supplied *)
Lemma positional_replaces a vals l :
  In l (vars a) -> length (vars a) <= length vals ->
  exists v, subst_sim (combine (vars a) vals) (ELeaf l) = v /\ lookup (combine (vars a) vals) l = Some v.
Proof.
  intros Hin Hlen. destruct (lookup_combine_some _ _ _ Hin Hlen) as [v Hv].
  exists v. split; auto. now apply subst_sim_hit.
Qed.

(* ------------------------------------------------------------------ keywords *)
Lemma find_name_none n l : (forall x, In x l -> leaf_name x <> n) -> find_name n l = None.
Proof.
  induction l as [|x r IH]; simpl; intros H; auto.
  rewrite IH by (intros; apply H; auto).
  destruct (String.eqb n (leaf_name x)) eqn:E; auto. apply String.eqb_eq in E.
  exfalso. apply (H x); auto.
Qed.

Lemma find_name_In n l x : find_name n l = Some x -> In x l /\ leaf_name x = n.
Proof.
  induction l as [|y r IH]; simpl; [discriminate|].
  destruct (find_name n r) eqn:E.
  - intros H. inversion H; subst. destruct (IH eq_refl). auto.
  - destruct (String.eqb n (leaf_name y)) eqn:E'; [|discriminate].
    intros H. inversion H; subst. apply String.eqb_eq in E'. auto.
Qed.

(* a keyword can only ever name a free field or a constant, never a declared argument *)
Lemma pymem_lmem k l : pymem k l = false -> lmem k l = false.
Proof.
  unfold pymem, lmem. induction l as [|x r IH]; simpl; auto. intros H.
  apply orb_false_iff in H. destruct H as [H1 H2]. rewrite (IH H2), orb_false_r.
  destruct (leaf_eqb k x) eqn:E; auto. apply leaf_eqb_eq in E. subst.
  destruct x; simpl in H1; rewrite ?Bool.eqb_reflx, ?String.eqb_refl, ?Z.eqb_refl, ?Pos.eqb_refl in H1; discriminate.
Qed.

Lemma free_var_not_declared a x :
  In x (free_vars a) -> (is_fun x = true /\ lmem x (vars a) = false) \/ is_const x = true.
Proof.
  unfold free_vars, fields, constants. rewrite in_app_iff, !filter_In.
  intros [[_ H]|[_ H]]; auto. apply andb_true_iff in H. destruct H as [H1 H2].
  left. split; auto. apply pymem_lmem. now apply negb_true_iff.
Qed.

Lemma kw_never_names_argument a n x :
  find_name n (free_vars a) = Some x -> lmem x (vars a) = true -> is_const x = true.
Proof.
  intros H Hv. apply find_name_In in H. destruct H as [H _].
  apply free_var_not_declared in H. destruct H as [[_ H]|H]; congruence.
Qed.

Lemma kw_dict_unknown fv kw n v : In (n, v) kw -> find_name n fv = None -> kw_dict fv kw = None.
Proof.
  induction kw as [|[m w] r IH]; simpl; intros Hin Hn; [contradiction|].
  destruct Hin as [E|Hin].
  - inversion E; subst. now rewrite Hn.
  - rewrite (IH Hin Hn). now destruct (find_name m fv).
Qed.

Lemma call_unknown_kw a pos kw n v :
  values_of a pos <> None -> In (n, v) kw -> find_name n (free_vars a) = None ->
  call a pos kw = Err ErrUnknownKw.
Proof.
  intros Hp Hin Hn. unfold call, call_with. destruct (values_of a pos); [|congruence].
  now rewrite (kw_dict_unknown _ _ _ _ Hin Hn).
Qed.

(* the keys of the keyword dictionary are free variables registered under a keyword's name *)
Lemma kw_dict_keys fv kw d x w :
  kw_dict fv kw = Some d -> lookup d x = Some w -> In x fv /\ In (leaf_name x, w) kw.
Proof.
  revert d. induction kw as [|[n v] r IH]; intros d Hd Hl; cbn [kw_dict] in Hd.
  - inversion Hd; subst. discriminate.
  - destruct (find_name n fv) as [y|] eqn:Ef; [|discriminate].
    destruct (kw_dict fv r) as [d'|]; [|discriminate]. injection Hd as <-.
    cbn [lookup] in Hl. destruct (lookup d' x) as [w'|] eqn:E'.
    + inversion Hl; subst. destruct (IH d' eq_refl E'). split; auto. now right.
    + destruct (leaf_eqb x y) eqn:Ex; [|discriminate]. inversion Hl; subst. apply leaf_eqb_eq in Ex. subst y.
      apply find_name_In in Ef. destruct Ef as [H1 H2]. subst. split; auto. now left.
Qed.

(* a wrong number of values is refused (after the unknown-keyword test, as in the code) *)
Lemma call_wrong_count a pos kw vals d :
  values_of a pos = Some vals -> kw_dict (free_vars a) kw = Some d -> count_ok a pos = false ->
  call a pos kw = Err ErrCount.
Proof. intros Hv Hd Hc. unfold call, call_with. now rewrite Hv, Hd, Hc. Qed.

(* FULL statement: whenever a call succeeds it is ONE simultaneous substitution, keywords and arguments
   together, with exactly one value per declared argument (whatever builds the keyword dictionary) *)
Lemma call_with_simultaneous fv kd a pos kw b :
  call_with fv kd a pos kw = Ok b ->
  exists vals d, values_of a pos = Some vals /\ kd fv kw = Some d /\
                 length vals = length (vars a) /\
                 b = map_body (subst_sim (d ++ combine (vars a) vals)) (f_body a) /\
                 forall (I : interp) rho,
                   sem_body I rho b = sem_body I (upd I rho (d ++ combine (vars a) vals)) (f_body a).
Proof.
  unfold call_with. destruct (values_of a pos) as [vals|] eqn:Hv; [|discriminate].
  destruct (kd fv kw) as [d|] eqn:Hd; [|discriminate].
  destruct (count_ok a pos) eqn:Hc; [|discriminate].
  intros H. inversion H; subst. exists vals, d. repeat split; auto.
  - eapply count_ok_length; eauto.
  - intros. apply sem_body_subst.
Qed.

Lemma call_simultaneous a pos kw b :
  call a pos kw = Ok b ->
  exists vals d, values_of a pos = Some vals /\ kw_dict (free_vars a) kw = Some d /\
                 length vals = length (vars a) /\
                 b = map_body (subst_sim (d ++ combine (vars a) vals)) (f_body a) /\
                 forall (I : interp) rho,
                   sem_body I rho b = sem_body I (upd I rho (d ++ combine (vars a) vals)) (f_body a).
Proof. apply call_with_simultaneous. Qed.

Lemma body_leaves_subst s b :
  body_leaves (map_body (subst_sim s) b) =
  flat_map (fun l => match lookup s l with Some v => leaves v | None => [l] end) (body_leaves b).
Proof.
  unfold body_leaves. induction b as [|[r e] t IH]; simpl; auto.
  rewrite flat_map_app, leaves_subst. now rewrite IH.
Qed.

(* FULL arity statement: after a successful call no declared argument survives, except inside a supplied value *)
Lemma call_no_argument_survives a pos kw b l :
  call a pos kw = Ok b -> In l (vars a) -> In l (body_leaves b) ->
  exists vals d k v, values_of a pos = Some vals /\ kw_dict (free_vars a) kw = Some d /\
                     lookup (d ++ combine (vars a) vals) k = Some v /\ In l (leaves v).
Proof.
  intros H Hl Hb. destruct (call_simultaneous a pos kw b H) as [vals [d [Hv [Hd [Hlen [Eb _]]]]]].
  exists vals, d. subst b. rewrite body_leaves_subst in Hb. apply in_flat_map in Hb.
  destruct Hb as [k [Hk Hin]]. destruct (lookup (d ++ combine (vars a) vals) k) as [v|] eqn:E.
  - exists k, v. auto.
  - exfalso. simpl in Hin. destruct Hin as [->|[]].
    rewrite lookup_app in E. destruct (lookup_combine_some (vars a) vals l Hl) as [w Hw]; [lia|].
    rewrite Hw in E. discriminate.
Qed.

(* ------------------------------------------------------------------ composition of substitutions *)
Lemma subst_comp s t r :
  (forall l, match lookup s l with
             | Some v => lookup r l = Some (subst_sim t v)
             | None => lookup r l = lookup t l
             end) ->
  forall e, subst_sim t (subst_sim s e) = subst_sim r e.
Proof.
  intros H. induction e using expr_ind'; simpl.
  - specialize (H l). destruct (lookup s l); rewrite H; simpl; auto.
  - f_equal. rewrite map_map. now apply map_ext_Forall.
  - f_equal. rewrite map_map. now apply map_ext_Forall.
  - now rewrite IHe1, IHe2.
  - f_equal. rewrite map_map. now apply map_ext_Forall.
Qed.

(* the guard under which the code's sequence (one xreplace per keyword, then the arguments)
   coincides with a single simultaneous substitution: no keyword value mentions a key that is
   substituted later, and no key occurs twice *)
Definition no_key (d : dict) (e : expr) : bool :=
  forallb (fun l => match lookup d l with None => true | Some _ => false end) (leaves e).

Fixpoint cleanb (d p : dict) : bool :=
  match d with
  | [] => true
  | (x, v) :: r =>
      match lookup r x, lookup p x with
      | None, None => no_key r v && no_key p v && cleanb r p
      | _, _ => false
      end
  end.

Lemma no_key_fixed d e : no_key d e = true -> subst_sim d e = e.
Proof.
  unfold no_key. rewrite forallb_forall. intros H. apply subst_sim_fixed.
  intros l Hl. specialize (H l Hl). destruct (lookup d l); [discriminate|auto].
Qed.

Lemma map_body_comp f g b : map_body f (map_body g b) = map_body (fun e => f (g e)) b.
Proof. unfold map_body. rewrite map_map. reflexivity. Qed.

Lemma map_body_ext f g b : (forall e, f e = g e) -> map_body f b = map_body g b.
Proof. intros H. unfold map_body. apply map_ext. intros [r e]. simpl. now rewrite H. Qed.

Lemma update_free_clean fv p kw : forall d b,
  kw_dict fv kw = Some d -> cleanb d p = true ->
  update_free fv kw b = Ok (map_body (subst_sim d) b).
Proof.
  induction kw as [|[n v] r IH]; simpl; intros d b Hd Hc.
  - inversion Hd; subst. f_equal. symmetry. apply map_body_id. apply subst_sim_nil.
  - destruct (find_name n fv) as [x|]; [|discriminate].
    destruct (kw_dict fv r) as [d'|] eqn:E; [|discriminate]. inversion Hd; subst. simpl in Hc.
    destruct (lookup d' x) eqn:Ex; [discriminate|]. destruct (lookup p x); [discriminate|].
    apply andb_true_iff in Hc. destruct Hc as [Hc Hc3]. apply andb_true_iff in Hc. destruct Hc as [Hc1 Hc2].
    rewrite (IH d' _ eq_refl Hc3). f_equal. rewrite map_body_comp. apply map_body_ext.
    apply subst_comp. intros l. simpl.
    destruct (leaf_eqb l x) eqn:El.
    + apply leaf_eqb_eq in El. subst l. rewrite Ex. now rewrite (no_key_fixed _ _ Hc1).
    + destruct (lookup d' l); auto.
Qed.

Lemma clean_app d p : cleanb d p = true ->
  forall l, match lookup d l with
            | Some v => lookup (d ++ p) l = Some (subst_sim p v)
            | None => lookup (d ++ p) l = lookup p l
            end.
Proof.
  induction d as [|[x v] r IH]; simpl; intros Hc l.
  - now destruct (lookup p l).
  - destruct (lookup r x) eqn:Ex; [discriminate|]. destruct (lookup p x) eqn:Ep; [discriminate|].
    apply andb_true_iff in Hc. destruct Hc as [Hc Hc3]. apply andb_true_iff in Hc. destruct Hc as [Hc1 Hc2].
    specialize (IH Hc3 l).
    destruct (lookup r l) eqn:El.
    + now rewrite IH.
    + destruct (leaf_eqb l x) eqn:E.
      * apply leaf_eqb_eq in E. subst l. rewrite IH, Ep. now rewrite (no_key_fixed _ _ Hc2).
      * rewrite IH. destruct (lookup p l); auto.
Qed.

Lemma call_before_fix_partial a pos kw vals d :
  values_of a pos = Some vals -> kw_dict (free_vars a) kw = Some d ->
  cleanb d (combine (vars a) vals) = true -> count_ok a pos = true ->
  call_before_fix a pos kw = call a pos kw.
Proof.
  intros Hv Hd Hc Hn. unfold call, call_with, call_before_fix. rewrite Hv, Hd, Hn.
  rewrite (update_free_clean _ _ _ _ _ Hd Hc). f_equal. rewrite map_body_comp. apply map_body_ext.
  apply subst_comp. now apply clean_app.
Qed.

(* historical: without that guard the code before the repairs did something else; two witnesses *)
Definition wu := LFun false "u" "V".  Definition wv := LFun false "v" "V".
Definition wf := LFun false "f" "V".  Definition ww := LFun false "w" "V".
Definition wc := LConst "c".      Definition wk := LConst "k".

(* l = LinearForm(v, integral(f*v));  l(w, f=v): the keyword value v is then replaced by w *)
Definition wit_lin : form := mkForm Linear [] [wv] [("dom:Omega", EMul [ELeaf wf; ELeaf wv])] [wf; wv].
(* a = BilinearForm((u,v), integral(c*u*v) + integral_b(k*u*v));  a(u, v, c=k, k=c) *)
Definition wit_bil : form :=
  mkForm Bilinear [wu] [wv] [("dom:Omega", EMul [ELeaf wc; ELeaf wu; ELeaf wv]);
                             ("bnd:Omega:G:0:1", EMul [ELeaf wk; ELeaf wu; ELeaf wv])] [wu; wv].

Lemma call_kw_then_args_before_fix :
  call_before_fix wit_lin [PVal (ELeaf ww)] [("f", ELeaf wv)] = Ok [("dom:Omega", EMul [ELeaf ww; ELeaf ww])] /\
  call wit_lin [PVal (ELeaf ww)] [("f", ELeaf wv)] = Ok [("dom:Omega", EMul [ELeaf wv; ELeaf ww])].
Proof. split; reflexivity. Qed.

Lemma call_kw_swap_before_fix :
  call_before_fix wit_bil [PVal (ELeaf wu); PVal (ELeaf wv)] [("c", ELeaf wk); ("k", ELeaf wc)]
    = Ok [("dom:Omega", EMul [ELeaf wc; ELeaf wu; ELeaf wv]); ("bnd:Omega:G:0:1", EMul [ELeaf wc; ELeaf wu; ELeaf wv])] /\
  call wit_bil [PVal (ELeaf wu); PVal (ELeaf wv)] [("c", ELeaf wk); ("k", ELeaf wc)]
    = Ok [("dom:Omega", EMul [ELeaf wk; ELeaf wu; ELeaf wv]); ("bnd:Omega:G:0:1", EMul [ELeaf wc; ELeaf wu; ELeaf wv])].
Proof. split; reflexivity. Qed.

Lemma call_before_fix_not_simultaneous :
  exists a pos kw, call_before_fix a pos kw <> call a pos kw.
Proof.
  exists wit_lin, [PVal (ELeaf ww)], [("f", ELeaf wv)].
  destruct call_kw_then_args_before_fix as [-> ->]. discriminate.
Qed.

(* the number of values is not checked: zip() stops at the shorter list, a declared variable survives
   and a test value lands in a trial slot *)
Lemma call_arity_before_fix :
  call wit_bil [PSeq []; PVal (ELeaf ww)] [] = Err ErrCount /\
  exists a pos b l, call_before_fix a pos [] = Ok b /\ In l (vars a) /\ In l (body_leaves b) /\
                    ~ In l (flat_map leaves (flat_map as_list pos)).
Proof.
  split; [reflexivity|]. exists wit_bil, [PSeq []; PVal (ELeaf ww)].
  eexists. exists wv. split; [reflexivity|]. split; [simpl; auto|]. split; [simpl; auto 10|].
  simpl. intros [H|[]]. discriminate.
Qed.

(* ------------------------------------------------------------------ exchange *)
Lemma swap_lookup_u u v : u <> v -> lookup (swap u v) u = Some (ELeaf v).
Proof. intros H. simpl. rewrite (leaf_eqb_neq _ _ H). now rewrite leaf_eqb_refl. Qed.
Lemma swap_lookup_v u v : lookup (swap u v) v = Some (ELeaf u).
Proof. simpl. now rewrite leaf_eqb_refl. Qed.
Lemma swap_lookup_other u v l : l <> u -> l <> v -> lookup (swap u v) l = None.
Proof. intros H1 H2. simpl. now rewrite (leaf_eqb_neq _ _ H1), (leaf_eqb_neq _ _ H2). Qed.

Lemma swap_leaf u v l :
  subst_sim (swap u v) (subst_sim (swap u v) (ELeaf l)) = ELeaf l.
Proof.
  destruct (leaf_eqb l v) eqn:Ev.
  - apply leaf_eqb_eq in Ev. subst l. rewrite (subst_sim_hit _ _ _ (swap_lookup_v u v)).
    destruct (leaf_eqb u v) eqn:Euv.
    + apply leaf_eqb_eq in Euv. subst u. now rewrite (subst_sim_hit _ _ _ (swap_lookup_v v v)).
    + assert (u <> v) by (intros ->; now rewrite leaf_eqb_refl in Euv).
      now rewrite (subst_sim_hit _ _ _ (swap_lookup_u u v H)).
  - assert (Hlv : l <> v) by (intros ->; now rewrite leaf_eqb_refl in Ev).
    destruct (leaf_eqb l u) eqn:Eu.
    + apply leaf_eqb_eq in Eu. subst l. rewrite (subst_sim_hit _ _ _ (swap_lookup_u u v Hlv)).
      now rewrite (subst_sim_hit _ _ _ (swap_lookup_v u v)).
    + assert (Hlu : l <> u) by (intros ->; now rewrite leaf_eqb_refl in Eu).
      now rewrite !(subst_sim_miss _ _ (swap_lookup_other u v l Hlu Hlv)).
Qed.

(* exchanging really exchanges: doing it twice gives the tree back, for every tree *)
Lemma swap_involution u v e : subst_sim (swap u v) (subst_sim (swap u v) e) = e.
Proof.
  induction e using expr_ind'.
  - apply swap_leaf.
  - simpl. f_equal. rewrite map_map. now apply map_id_Forall.
  - simpl. f_equal. rewrite map_map. now apply map_id_Forall.
  - simpl. now rewrite IHe1, IHe2.
  - simpl. f_equal. rewrite map_map. now apply map_id_Forall.
Qed.

Lemma swap_exchanges u v : u <> v ->
  subst_sim (swap u v) (ELeaf u) = ELeaf v /\ subst_sim (swap u v) (ELeaf v) = ELeaf u.
Proof.
  intros H. split; [apply subst_sim_hit, swap_lookup_u; auto|apply subst_sim_hit, swap_lookup_v].
Qed.

(* the contrast: one substitution after the other does not exchange, it merges *)
Lemma subst_seq_collapses u v : u <> v ->
  subst_seq (swap u v) (ELeaf u) = ELeaf u /\ subst_seq (swap u v) (ELeaf v) = ELeaf u.
Proof.
  intros H. unfold subst_seq, swap. simpl.
  rewrite leaf_eqb_refl. simpl. rewrite leaf_eqb_refl.
  rewrite (leaf_eqb_neq v u) by congruence. simpl. rewrite leaf_eqb_refl. auto.
Qed.

Lemma subst_seq_not_swap :
  exists e u v, subst_seq (swap u v) e <> subst_sim (swap u v) e /\
                subst_seq (swap u v) (subst_seq (swap u v) e) <> e.
Proof.
  exists (EMul [EOp "dx1" [ELeaf wu]; ELeaf wv]), wu, wv. split; vm_compute; discriminate.
Qed.

(* arguments that mention each other, a(u + v, u): each occurrence is replaced once, by the value
   the argument had in the caller's environment *)
Lemma call_mentions_each_other (I : interp) rho a u v tr te :
  f_kind a = Bilinear -> f_trials a = [u] -> f_tests a = [v] ->
  exists b, call a [PVal tr; PVal te] [] = Ok b /\
            sem_body I rho b = sem_body I (upd I rho (combine (vars a) [tr; te])) (f_body a).
Proof.
  intros K T1 T2. eexists. split.
  - apply call_positional; [unfold values_of; rewrite K; reflexivity|].
    unfold count_ok. rewrite K, T1, T2. reflexivity.
  - apply sem_body_subst.
Qed.

(* ------------------------------------------------------------------ canonical order preserves the meaning *)
Lemma einsert_perm x l : Permutation (einsert x l) (x :: l).
Proof.
  induction l as [|y r IH]; simpl; auto. destruct (ele x y); auto.
  rewrite IH. apply perm_swap.
Qed.

Lemma esort_perm l : Permutation (esort l) l.
Proof.
  induction l as [|x r IH]; simpl; auto. rewrite einsert_perm. now constructor.
Qed.

Lemma sem_canon (I : interp) rho e : sem I rho (canon e) = sem I rho e.
Proof.
  induction e using expr_ind'; simpl; auto.
  - apply addv_perm. rewrite (Permutation_map _ (esort_perm _)). rewrite map_map.
    rewrite (map_ext_Forall _ _ _ H). reflexivity.
  - apply mulv_perm. rewrite (Permutation_map _ (esort_perm _)). rewrite map_map.
    rewrite (map_ext_Forall _ _ _ H). reflexivity.
  - now rewrite IHe1, IHe2.
  - destruct (is_comm_op n) eqn:E; simpl.
    + apply opv_perm; auto. rewrite (Permutation_map _ (esort_perm _)). rewrite map_map.
      rewrite (map_ext_Forall _ _ _ H). reflexivity.
    + f_equal. rewrite map_map. now apply map_ext_Forall.
Qed.

Lemma binsert_perm x l : Permutation (binsert x l) (x :: l).
Proof.
  induction l as [|y r IH]; simpl; auto. destruct (String.leb (fst x) (fst y)); auto.
  rewrite IH. apply perm_swap.
Qed.

Lemma sem_body_perm (I : interp) rho b b' : Permutation b b' -> sem_body I rho b = sem_body I rho b'.
Proof.
  unfold sem_body. induction 1; simpl; auto.
  - now rewrite IHPermutation.
  - rewrite !madd_assoc. f_equal. apply madd_comm.
  - congruence.
Qed.

Lemma sem_canon_body (I : interp) rho b : sem_body I rho (canon_body b) = sem_body I rho b.
Proof.
  unfold canon_body. induction b as [|[r e] t IH]; simpl; auto.
  rewrite (sem_body_perm I rho _ _ (binsert_perm _ _)).
  unfold sem_body in *. simpl. now rewrite IH, sem_canon.
Qed.

Lemma struct_eq_sem (I : interp) rho b1 b2 : struct_eq b1 b2 = true -> sem_body I rho b1 = sem_body I rho b2.
Proof.
  unfold struct_eq. intros H. apply body_eqb_eq in H.
  rewrite <- (sem_canon_body I rho b1), <- (sem_canon_body I rho b2). now rewrite H.
Qed.

(* ------------------------------------------------------------------ the symmetry flag *)
Definition own_args (a : form) : list parg := [PSeq (map ELeaf (f_trials a)); PSeq (map ELeaf (f_tests a))].
Definition exch_args (a : form) : list parg := [PSeq (map ELeaf (f_tests a)); PSeq (map ELeaf (f_trials a))].
Definition exch_dict (a : form) : dict :=
  combine (f_trials a ++ f_tests a) (map ELeaf (f_tests a) ++ map ELeaf (f_trials a)).

(* the two bodies that the flag compares: the form's own body and its body with trial and test functions exchanged *)
Lemma flag_bodies a x y :
  f_kind a = Bilinear -> call a (own_args a) [] = Ok x -> call a (exch_args a) [] = Ok y ->
  x = f_body a /\ y = map_body (subst_sim (exch_dict a)) (f_body a).
Proof.
  intros K Hx Hy. unfold own_args in Hx. rewrite (call_own_bilinear a K) in Hx. inversion Hx; subst x. split; auto.
  destruct (call_simultaneous _ _ _ _ Hy) as [vals [d [Hv [Hd [_ [Eb _]]]]]].
  unfold exch_args, values_of in Hv. rewrite K in Hv. simpl in Hv. inversion Hv; subst vals.
  simpl in Hd. inversion Hd; subst d. simpl in Eb. now subst y.
Qed.

(* ---- the flag of the proposed repair (identities): sound for every form *)
Lemma is_symmetric_ids_sound (I : interp) a :
  is_symmetric_ids a = true ->
  forall rho, sem_result I rho (call a (own_args a) []) = sem_result I rho (call a (exch_args a) []).
Proof.
  unfold is_symmetric_ids, own_args, exch_args. destruct (f_kind a); [|discriminate].
  destruct (call a _ []) as [x|]; [|discriminate].
  destruct (call a _ []) as [y|]; [|discriminate].
  intros H rho. simpl. f_equal. now apply struct_eq_sem.
Qed.

Lemma is_symmetric_ids_exchange (I : interp) a :
  is_symmetric_ids a = true ->
  forall rho, sem_body I (upd I rho (exch_dict a)) (f_body a) = sem_body I rho (f_body a).
Proof.
  intros H rho. pose proof (is_symmetric_ids_sound I a H rho) as S.
  unfold is_symmetric_ids in H. destruct (f_kind a) eqn:K; [|discriminate].
  fold (own_args a) in H. fold (exch_args a) in H.
  destruct (call a (own_args a) []) as [x|] eqn:Ex; [|discriminate].
  destruct (call a (exch_args a) []) as [y|] eqn:Ey; [|discriminate].
  destruct (flag_bodies a x y K Ex Ey) as [-> ->].
  simpl in S. inversion S as [S']. rewrite S'. now rewrite sem_body_subst.
Qed.

(* ---- the flag of the code (== alone).  Names as identities: no two distinct function / constant symbols of the
   form carry one name.  Under this guard == and identity agree on the form. *)
Definition sym_leaf (l : leaf) : bool := is_fun l || is_const l.
Definition names_identify (L : list leaf) : Prop :=
  forall x y, In x L -> In y L -> sym_leaf x = true -> sym_leaf y = true -> leaf_name x = leaf_name y -> x = y.
Definition form_leaves (a : form) : list leaf := vars a ++ body_leaves (f_body a) ++ f_atoms a.

Lemma erase_injective L x y :
  names_identify L -> In x L -> In y L -> erase_leaf x = erase_leaf y -> x = y.
Proof.
  intros G Hx Hy E. destruct x, y; simpl in E; try discriminate; try exact E.
  inversion E; subst. apply G; auto.
Qed.

Fixpoint unerase (L : list leaf) (k : leaf) : option leaf :=
  match L with
  | [] => None
  | l :: r => if leaf_eqb (erase_leaf l) k then Some l else unerase r k
  end.
Definition rho_e (I : interp) (rho : leaf -> V I) (L : list leaf) : leaf -> V I :=
  fun k => match unerase L k with Some l => rho l | None => rho k end.

Lemma unerase_in L0 : names_identify L0 -> forall L l, incl L L0 -> In l L -> unerase L (erase_leaf l) = Some l.
Proof.
  intros G. induction L as [|l0 r IH]; intros l Hi Hl; [contradiction|]. simpl.
  destruct (leaf_eqb (erase_leaf l0) (erase_leaf l)) eqn:E.
  - apply leaf_eqb_eq in E. f_equal. apply (erase_injective L0); auto; apply Hi; auto. now left.
  - destruct Hl as [->|Hl]; [now rewrite leaf_eqb_refl in E|].
    apply IH; auto. intros z Hz. apply Hi. now right.
Qed.

Lemma sem_erase (I : interp) rho L e :
  names_identify L -> (forall l, In l (leaves e) -> In l L) -> sem I (rho_e I rho L) (erase e) = sem I rho e.
Proof.
  intros G. induction e using expr_ind'; simpl; intros Hl.
  - unfold rho_e. rewrite (unerase_in L G L l); auto. apply incl_refl.
  - f_equal. rewrite map_map. apply map_ext_Forall. revert Hl. induction H as [|x r Hx Hr IH]; simpl; intros Hl; constructor.
    + apply Hx. intros; apply Hl. apply in_or_app; auto.
    + apply IH. intros; apply Hl. apply in_or_app; auto.
  - f_equal. rewrite map_map. apply map_ext_Forall. revert Hl. induction H as [|x r Hx Hr IH]; simpl; intros Hl; constructor.
    + apply Hx. intros; apply Hl. apply in_or_app; auto.
    + apply IH. intros; apply Hl. apply in_or_app; auto.
  - rewrite IHe1, IHe2; auto; intros; apply Hl; apply in_or_app; auto.
  - f_equal. rewrite map_map. apply map_ext_Forall. revert Hl. induction H as [|x r Hx Hr IH]; simpl; intros Hl; constructor.
    + apply Hx. intros; apply Hl. apply in_or_app; auto.
    + apply IH. intros; apply Hl. apply in_or_app; auto.
Qed.

Lemma sem_body_erase (I : interp) rho L b :
  names_identify L -> (forall l, In l (body_leaves b) -> In l L) ->
  sem_body I (rho_e I rho L) (map_body erase b) = sem_body I rho b.
Proof.
  intros G. induction b as [|[r e] t IH]; simpl; intros Hl; auto.
  unfold sem_body in *. simpl. unfold body_leaves in Hl. simpl in Hl.
  rewrite IH by (intros; apply Hl; apply in_or_app; auto).
  rewrite sem_erase; auto. intros; apply Hl; apply in_or_app; auto.
Qed.

Lemma struct_pyeq_sem (I : interp) rho L b1 b2 :
  names_identify L -> (forall l, In l (body_leaves b1) -> In l L) -> (forall l, In l (body_leaves b2) -> In l L) ->
  struct_pyeq b1 b2 = true -> sem_body I rho b1 = sem_body I rho b2.
Proof.
  intros G H1 H2 E. unfold struct_pyeq in E.
  rewrite <- (sem_body_erase I rho L b1 G H1), <- (sem_body_erase I rho L b2 G H2).
  now apply struct_eq_sem.
Qed.

Lemma lookup_combine_in ks : forall vs k v, lookup (combine ks vs) k = Some v -> In v vs.
Proof.
  induction ks as [|x r IH]; intros [|w ws] k v H; simpl in H; try discriminate.
  destruct (lookup (combine r ws) k) eqn:E.
  - inversion H; subst. right. eapply IH; eauto.
  - destruct (leaf_eqb k x); [|discriminate]. inversion H. now left.
Qed.

Lemma exchanged_leaves a l :
  In l (body_leaves (map_body (subst_sim (exch_dict a)) (f_body a))) -> In l (vars a ++ body_leaves (f_body a)).
Proof.
  rewrite body_leaves_subst. intros H. apply in_flat_map in H. destruct H as [k [Hk Hin]].
  destruct (lookup (exch_dict a) k) as [v|] eqn:E.
  - unfold exch_dict in E. apply lookup_combine_in in E. rewrite <- map_app in E.
    apply in_map_iff in E. destruct E as [w [<- Hw]]. simpl in Hin. destruct Hin as [<-|[]].
    apply in_or_app. left. unfold vars. apply in_app_or in Hw. apply in_or_app. tauto.
  - simpl in Hin. destruct Hin as [<-|[]]. apply in_or_app. now right.
Qed.

(* PARTIAL (the full statement is refuted below): when names are identities in the form, a true flag is sound *)
Lemma is_symmetric_sound_partial (I : interp) a :
  names_identify (vars a ++ body_leaves (f_body a)) -> is_symmetric a = true ->
  forall rho, sem_result I rho (call a (own_args a) []) = sem_result I rho (call a (exch_args a) []).
Proof.
  intros G. unfold is_symmetric. fold (own_args a). fold (exch_args a). destruct (f_kind a) eqn:K; [|discriminate].
  destruct (call a (own_args a) []) as [x|] eqn:Ex; [|discriminate].
  destruct (call a (exch_args a) []) as [y|] eqn:Ey; [|discriminate].
  intros H rho. simpl. f_equal. destruct (flag_bodies a x y K Ex Ey) as [-> ->].
  apply (struct_pyeq_sem I rho _ _ _ G); auto.
  - intros l Hl. apply in_or_app. now right.
  - apply exchanged_leaves.
Qed.

Lemma is_symmetric_exchange_partial (I : interp) a :
  names_identify (vars a ++ body_leaves (f_body a)) -> is_symmetric a = true ->
  forall rho, sem_body I (upd I rho (exch_dict a)) (f_body a) = sem_body I rho (f_body a).
Proof.
  intros G H rho. pose proof (is_symmetric_sound_partial I a G H rho) as S.
  unfold is_symmetric in H. fold (own_args a) in H. fold (exch_args a) in H. destruct (f_kind a) eqn:K; [|discriminate].
  destruct (call a (own_args a) []) as [x|] eqn:Ex; [|discriminate].
  destruct (call a (exch_args a) []) as [y|] eqn:Ey; [|discriminate].
  destruct (flag_bodies a x y K Ex Ey) as [-> ->].
  simpl in S. inversion S as [S']. rewrite S'. now rewrite sem_body_subst.
Qed.

(* under the guard the flag is never true for a form whose meaning changes under exchange *)
Lemma meaning_changes_flag_false_partial (I : interp) a rho :
  names_identify (vars a ++ body_leaves (f_body a)) ->
  sem_body I (upd I rho (exch_dict a)) (f_body a) <> sem_body I rho (f_body a) -> is_symmetric a = false.
Proof.
  intros G H. destruct (is_symmetric a) eqn:E; auto. exfalso. apply H. now apply is_symmetric_exchange_partial.
Qed.

Lemma meaning_changes_flag_ids_false (I : interp) a rho :
  sem_body I (upd I rho (exch_dict a)) (f_body a) <> sem_body I rho (f_body a) -> is_symmetric_ids a = false.
Proof.
  intros H. destruct (is_symmetric_ids a) eqn:E; auto. exfalso. apply H. now apply is_symmetric_ids_exchange.
Qed.

(* ------------------------------------------------------------------ the identity of a function includes its space *)
Lemma leaf_pyeq_refl a : leaf_pyeq a a = true.
Proof. destruct a; simpl; rewrite ?Bool.eqb_reflx, ?String.eqb_refl, ?Z.eqb_refl, ?Pos.eqb_refl; reflexivity. Qed.

Lemma leaf_eqb_pyeq a b : leaf_eqb a b = true -> leaf_pyeq a b = true.
Proof. intros H. apply leaf_eqb_eq in H. subst. apply leaf_pyeq_refl. Qed.

(* two functions with the same class and name in different spaces: equal for ==, different dictionary keys *)
Lemma twin_keys v n s s' : s <> s' ->
  leaf_pyeq (LFun v n s) (LFun v n s') = true /\ leaf_eqb (LFun v n s) (LFun v n s') = false /\ LFun v n s <> LFun v n s'.
Proof.
  intros H. split; [|split].
  - simpl. now rewrite Bool.eqb_reflx, String.eqb_refl.
  - apply leaf_eqb_neq. congruence.
  - congruence.
Qed.

(* the i-th declared argument is bound to the i-th value, exactly *)
Lemma lookup_combine_nth ks : forall vs i k v,
  NoDup ks -> nth_error ks i = Some k -> nth_error vs i = Some v -> lookup (combine ks vs) k = Some v.
Proof.
  induction ks as [|x r IH]; intros vs i k v Hnd Hk Hv; [destruct i; discriminate|].
  destruct vs as [|w ws]; [destruct i; discriminate|]. inversion Hnd as [|? ? Hx Hr]; subst. simpl.
  destruct i as [|i]; simpl in Hk, Hv.
  - inversion Hk; inversion Hv; subst. rewrite lookup_combine_none.
    + now rewrite leaf_eqb_refl.
    + destruct (lmem k r) eqn:E; auto. apply lmem_In in E. contradiction.
  - now rewrite (IH ws i k v Hr Hk Hv).
Qed.

Lemma positional_exact a vals i l v :
  NoDup (vars a) -> nth_error (vars a) i = Some l -> nth_error vals i = Some v ->
  subst_sim (combine (vars a) vals) (ELeaf l) = v.
Proof. intros Hn Hl Hv. apply subst_sim_hit. eapply lookup_combine_nth; eauto. Qed.

(* a value that carries the name of the declared argument but lives in another space replaces it like any other
   value, and a same-named function of another space that sits in the form is not an argument: it stays *)
Lemma twin_value_replaces a vals i v n s s' :
  NoDup (vars a) -> nth_error (vars a) i = Some (LFun v n s) -> nth_error vals i = Some (ELeaf (LFun v n s')) ->
  subst_sim (combine (vars a) vals) (ELeaf (LFun v n s)) = ELeaf (LFun v n s').
Proof. apply positional_exact. Qed.

Lemma twin_in_form_untouched a vals v n s' :
  ~ In (LFun v n s') (vars a) ->
  subst_sim (combine (vars a) vals) (ELeaf (LFun v n s')) = ELeaf (LFun v n s').
Proof.
  intros H. apply positional_fixes. destruct (lmem _ (vars a)) eqn:E; auto. apply lmem_In in E. contradiction.
Qed.

Lemma subst_sim_ext_leaf s t :
  (forall l, subst_sim s (ELeaf l) = subst_sim t (ELeaf l)) -> forall e, subst_sim s e = subst_sim t e.
Proof.
  intros H. induction e using expr_ind'.
  - apply H.
  - simpl. f_equal. now apply map_ext_Forall.
  - simpl. f_equal. now apply map_ext_Forall.
  - simpl. now rewrite IHe1, IHe2.
  - simpl. f_equal. now apply map_ext_Forall.
Qed.

Lemma subst_sim_ext s t : (forall l, lookup s l = lookup t l) -> forall e, subst_sim s e = subst_sim t e.
Proof. intros H. apply subst_sim_ext_leaf. intros l. simpl. now rewrite H. Qed.

Lemma free_var_not_in_vars a x :
  (forall y, In y (vars a) -> is_fun y = true) -> In x (free_vars a) -> lmem x (vars a) = false.
Proof.
  intros Hf Hx. destruct (free_var_not_declared a x Hx) as [[_ H]|H]; auto.
  destruct (lmem x (vars a)) eqn:E; auto. apply lmem_In in E. apply Hf in E. destruct x; discriminate.
Qed.

(* calling a form with its own arguments and keywords is the keyword update alone (_update_free_variables) *)
Lemma call_own_keywords a kw :
  f_kind a = Bilinear -> (forall x, In x (vars a) -> is_fun x = true) ->
  call a (own_args a) kw = update_free_variables a kw.
Proof.
  intros K Hfun. unfold call, call_with, update_free_variables, own_args, values_of, count_ok. rewrite K.
  destruct (kw_dict (free_vars a) kw) as [d|] eqn:Hd; auto.
  simpl. rewrite !map_length, !Nat.eqb_refl. simpl. f_equal. apply map_body_ext.
  apply subst_sim_ext_leaf. intros l. unfold vars. rewrite <- map_app. fold (vars a).
  simpl. rewrite lookup_app. destruct (lookup (combine (vars a) (map ELeaf (vars a))) l) as [w|] eqn:E.
  - pose proof (lookup_self _ _ _ E) as ->.
    destruct (lookup d l) as [w'|] eqn:E'; auto. exfalso.
    destruct (kw_dict_keys _ _ _ _ _ Hd E') as [H1 _].
    pose proof (free_var_not_in_vars a l Hfun H1) as Hn.
    rewrite (lookup_combine_none _ _ _ Hn) in E. discriminate.
  - reflexivity.
Qed.

(* ---- keywords in the code: ONE symbol per name.  The statement "a keyword replaces every free field / constant that
   carries its name" is refuted below; it holds when the names of the free symbols are unambiguous *)
Definition unambiguous (fv : list leaf) : Prop :=
  forall x y, In x fv -> In y fv -> leaf_name x = leaf_name y -> x = y.

Lemma find_name_some n l x : In x l -> leaf_name x = n -> find_name n l <> None.
Proof.
  induction l as [|y r IH]; simpl; [contradiction|]. intros [->|H] Hn.
  - destruct (find_name n r); [discriminate|]. rewrite <- Hn, String.eqb_refl. discriminate.
  - destruct (find_name n r) eqn:E; [discriminate|]. exfalso. now apply (IH H Hn).
Qed.

Lemma find_name_unamb fv n x : unambiguous fv -> In x fv -> leaf_name x = n -> find_name n fv = Some x.
Proof.
  intros Hu Hx Hn. destruct (find_name n fv) as [y|] eqn:E.
  - apply find_name_In in E. destruct E as [Hy Hyn]. f_equal. apply Hu; auto. congruence.
  - exfalso. now apply (find_name_some n fv x Hx Hn).
Qed.

Lemma kw_dict_binds_unamb fv kw d n v x :
  unambiguous fv -> kw_dict fv kw = Some d -> NoDup (map fst kw) -> In (n, v) kw -> In x fv -> leaf_name x = n ->
  lookup d x = Some v.
Proof.
  intros Hu. revert d. induction kw as [|[m w] r IH]; intros d Hd Hnd Hin Hx Hn; cbn [kw_dict] in Hd; simpl in Hnd, Hin; [contradiction|].
  destruct (find_name m fv) as [y|] eqn:Ef; [|discriminate].
  destruct (kw_dict fv r) as [d'|] eqn:Ed; [|discriminate]. injection Hd as <-.
  apply NoDup_cons_iff in Hnd. destruct Hnd as [Hm Hnd']. cbn [lookup].
  destruct Hin as [E|Hin].
  - injection E as -> ->. destruct (lookup d' x) as [w'|] eqn:E'.
    + exfalso. destruct (kw_dict_keys _ _ _ _ _ Ed E') as [_ H]. apply Hm. apply (in_map fst) in H. simpl in H. now rewrite Hn in H.
    + rewrite (find_name_unamb fv n x Hu Hx Hn) in Ef. injection Ef as <-. now rewrite leaf_eqb_refl.
  - now rewrite (IH d' eq_refl Hnd' Hin Hx Hn).
Qed.

(* the TRUE free symbols of a form (what the property speaks about): a function of the integrands that is not a declared
   argument (as an identity), or a constant of the integrands *)
Definition true_free (a : form) (x : leaf) : Prop :=
  In x (body_leaves (f_body a)) /\ ((is_fun x = true /\ ~ In x (vars a)) \/ is_const x = true).
(* f_atoms is the set of the functions of the integrands (in some order) *)
Definition atoms_ok (a : form) : Prop :=
  forall l, In l (f_atoms a) <-> (is_fun l = true /\ In l (body_leaves (f_body a))).

Lemma leaf_pyeq_name x y : leaf_pyeq x y = true -> is_fun x = true -> is_fun y = true /\ leaf_name x = leaf_name y.
Proof.
  destruct x, y; simpl; try discriminate. intros H _. apply andb_true_iff in H. destruct H as [_ H].
  apply String.eqb_eq in H. auto.
Qed.

Lemma true_free_is_free a x :
  names_identify (form_leaves a) -> atoms_ok a -> true_free a x -> In x (free_vars a).
Proof.
  intros G Ha [Hb [[Hf Hv]|Hc]]; unfold free_vars; apply in_or_app.
  - left. unfold fields. apply filter_In. split; [apply Ha; auto|]. rewrite Hf. simpl. apply negb_true_iff.
    destruct (pymem x (vars a)) eqn:E; auto. exfalso. unfold pymem in E. apply existsb_exists in E.
    destruct E as [y [Hy Hp]]. destruct (leaf_pyeq_name x y Hp Hf) as [Hfy Hn]. apply Hv.
    assert (x = y); [|now subst]. apply G; auto.
    + unfold form_leaves. apply in_or_app. right. apply in_or_app. now left.
    + unfold form_leaves. apply in_or_app. now left.
    + unfold sym_leaf. now rewrite Hf.
    + unfold sym_leaf. now rewrite Hfy.
  - right. unfold constants. apply filter_In. auto.
Qed.

Lemma free_vars_in_form a x : In x (free_vars a) -> In x (form_leaves a).
Proof.
  unfold free_vars, fields, constants, form_leaves. rewrite !in_app_iff, !filter_In. intuition.
Qed.

Lemma free_var_sym a x : In x (free_vars a) -> sym_leaf x = true.
Proof.
  intros H. unfold sym_leaf. destruct (free_var_not_declared a x H) as [[E _]|E]; rewrite E; auto. apply orb_true_r.
Qed.

Lemma names_identify_unambiguous a : names_identify (form_leaves a) -> unambiguous (free_vars a).
Proof.
  intros G x y Hx Hy Hn. apply G; auto using free_vars_in_form, (free_var_sym a).
Qed.

(* EXACT description of a successful call, PARTIAL in its second clause (guard: names are identities in the form):
   the i-th declared argument becomes the i-th value, every TRUE free symbol that carries the name of a keyword
   becomes that keyword's value, every other leaf stays *)
Lemma call_exact_partial a pos kw b :
  call a pos kw = Ok b -> NoDup (vars a) -> NoDup (map fst kw) -> (forall x, In x (vars a) -> is_fun x = true) ->
  exists vals S, values_of a pos = Some vals /\ length vals = length (vars a) /\
    b = map_body (subst_sim S) (f_body a) /\
    (forall i l v, nth_error (vars a) i = Some l -> nth_error vals i = Some v -> subst_sim S (ELeaf l) = v) /\
    (names_identify (form_leaves a) -> atoms_ok a ->
     forall x v, true_free a x -> In (leaf_name x, v) kw -> subst_sim S (ELeaf x) = v) /\
    (forall l, ~ In l (vars a) -> ~ (In l (free_vars a) /\ In (leaf_name l) (map fst kw)) ->
               subst_sim S (ELeaf l) = ELeaf l).
Proof.
  intros H Hnd Hkw Hfun. destruct (call_simultaneous a pos kw b H) as [vals [d [Hv [Hd [Hlen [Eb _]]]]]].
  exists vals, (d ++ combine (vars a) vals). repeat split; auto.
  - intros i l v Hl Hvi. apply subst_sim_hit. rewrite lookup_app.
    now rewrite (lookup_combine_nth _ _ _ _ _ Hnd Hl Hvi).
  - intros G Ha x v Hx Hin. pose proof (true_free_is_free a x G Ha Hx) as Hfx.
    apply subst_sim_hit. rewrite lookup_app.
    rewrite (lookup_combine_none _ vals _ (free_var_not_in_vars a x Hfun Hfx)).
    eapply kw_dict_binds_unamb; eauto. now apply names_identify_unambiguous.
  - intros l Hl Hk. apply subst_sim_miss. rewrite lookup_app. rewrite lookup_combine_none.
    + destruct (lookup d l) as [w|] eqn:E; auto. exfalso. apply Hk.
      destruct (kw_dict_keys _ _ _ _ _ Hd E) as [H1 H2]. split; auto. now apply (in_map fst) in H2.
    + destruct (lmem l (vars a)) eqn:E; auto. apply lmem_In in E. contradiction.
Qed.

(* under the guard a keyword that names a true free symbol is never refused for that reason *)
Lemma true_free_keyword_known a x :
  names_identify (form_leaves a) -> atoms_ok a -> true_free a x -> find_name (leaf_name x) (free_vars a) <> None.
Proof. intros G Ha Hx. eapply find_name_some; eauto using true_free_is_free. Qed.

(* ---- the proposed repair (identities): every free symbol that carries the name, no guard *)
Lemma named_In n l x : In x (named n l) <-> In x l /\ leaf_name x = n.
Proof.
  unfold named. rewrite filter_In. rewrite String.eqb_eq. intuition.
Qed.

Lemma named_nil_find n l : named n l = [] <-> find_name n l = None.
Proof.
  induction l as [|x r IH]; simpl; [tauto|].
  destruct (String.eqb n (leaf_name x)) eqn:E.
  - split; [discriminate|]. destruct (find_name n r); discriminate.
  - rewrite IH. destruct (find_name n r); split; congruence.
Qed.

Lemma kw_dict_all_unknown fv kw n v : In (n, v) kw -> find_name n fv = None -> kw_dict_all fv kw = None.
Proof.
  induction kw as [|[m w] r IH]; simpl; intros Hin Hn; [contradiction|].
  destruct Hin as [E|Hin].
  - inversion E; subst. apply named_nil_find in Hn. now rewrite Hn.
  - rewrite (IH Hin Hn). now destruct (named m fv).
Qed.

(* a keyword binds EVERY free symbol that carries its name, and nothing else *)
Lemma lookup_const xs v x : lookup (map (fun y => (y, v)) xs) x = if lmem x xs then Some v else None.
Proof.
  induction xs as [|y r IH]; simpl; auto. rewrite IH. unfold lmem in *. simpl.
  destruct (existsb (leaf_eqb x) r); [now rewrite orb_true_r|]. rewrite orb_false_r. reflexivity.
Qed.

Lemma lookup_const_app xs v d x :
  lookup (map (fun y => (y, v)) xs ++ d) x =
  match lookup d x with Some w => Some w | None => if lmem x xs then Some v else None end.
Proof. rewrite lookup_app, lookup_const. reflexivity. Qed.

Lemma kw_dict_all_keys fv kw d x w :
  kw_dict_all fv kw = Some d -> lookup d x = Some w -> In x fv /\ In (leaf_name x, w) kw.
Proof.
  revert d. induction kw as [|[n v] r IH]; intros d Hd Hl; cbn [kw_dict_all] in Hd; simpl.
  - inversion Hd; subst. discriminate.
  - destruct (named n fv) as [|y ys] eqn:En; [discriminate|]. remember (y :: ys) as xs eqn:Exs.
    destruct (kw_dict_all fv r) as [d'|]; [|discriminate]. injection Hd as <-.
    rewrite lookup_const_app in Hl. destruct (lookup d' x) as [w'|] eqn:E'.
    + inversion Hl; subst. destruct (IH d' eq_refl E'). auto.
    + destruct (lmem x xs) eqn:Em; [|discriminate]. inversion Hl; subst w.
      apply lmem_In in Em. rewrite <- En in Em. apply named_In in Em. destruct Em as [H1 H2]. subst. auto.
Qed.

Lemma kw_dict_all_binds fv kw d n v x :
  kw_dict_all fv kw = Some d -> NoDup (map fst kw) -> In (n, v) kw -> In x fv -> leaf_name x = n ->
  lookup d x = Some v.
Proof.
  revert d. induction kw as [|[m w] r IH]; intros d Hd Hnd Hin Hx Hn; cbn [kw_dict_all] in Hd; simpl in Hnd, Hin; [contradiction|].
  destruct (named m fv) as [|y ys] eqn:En; [discriminate|]. remember (y :: ys) as xs eqn:Exs.
  destruct (kw_dict_all fv r) as [d'|] eqn:Ed; [|discriminate]. injection Hd as <-.
  apply NoDup_cons_iff in Hnd. destruct Hnd as [Hm Hnd']. rewrite lookup_const_app.
  destruct Hin as [E|Hin].
  - injection E as -> ->. destruct (lookup d' x) as [w'|] eqn:E'.
    + exfalso. destruct (kw_dict_all_keys _ _ _ _ _ Ed E') as [_ H]. apply Hm. apply (in_map fst) in H. simpl in H. now rewrite Hn in H.
    + rewrite <- En.
      assert (H : lmem x (named n fv) = true) by (apply lmem_In, named_In; auto). now rewrite H.
  - now rewrite (IH d' eq_refl Hnd' Hin Hx Hn).
Qed.


Lemma free_var_ids_not_in_vars a x :
  (forall y, In y (vars a) -> is_fun y = true) -> In x (free_vars_ids a) -> lmem x (vars a) = false.
Proof.
  intros Hf. unfold free_vars_ids, fields_ids, constants. rewrite in_app_iff, !filter_In.
  intros [[_ H]|[_ H]].
  - apply andb_true_iff in H. destruct H as [_ H]. now apply negb_true_iff.
  - destruct (lmem x (vars a)) eqn:E; auto. apply lmem_In in E. apply Hf in E. destruct x; discriminate.
Qed.

Lemma true_free_is_free_ids a x : atoms_ok a -> true_free a x -> In x (free_vars_ids a).
Proof.
  intros Ha [Hb [[Hf Hv]|Hc]]; unfold free_vars_ids; apply in_or_app.
  - left. unfold fields_ids. apply filter_In. split; [apply Ha; auto|]. rewrite Hf. simpl. apply negb_true_iff.
    destruct (lmem x (vars a)) eqn:E; auto. apply lmem_In in E. contradiction.
  - right. unfold constants. apply filter_In. auto.
Qed.

Lemma call_ids_exact a pos kw b :
  call_ids a pos kw = Ok b -> NoDup (vars a) -> NoDup (map fst kw) -> (forall x, In x (vars a) -> is_fun x = true) ->
  exists vals S, values_of a pos = Some vals /\ length vals = length (vars a) /\
    b = map_body (subst_sim S) (f_body a) /\
    (forall i l v, nth_error (vars a) i = Some l -> nth_error vals i = Some v -> subst_sim S (ELeaf l) = v) /\
    (atoms_ok a -> forall x v, true_free a x -> In (leaf_name x, v) kw -> subst_sim S (ELeaf x) = v) /\
    (forall l, ~ In l (vars a) -> ~ (In l (free_vars_ids a) /\ In (leaf_name l) (map fst kw)) ->
               subst_sim S (ELeaf l) = ELeaf l).
Proof.
  intros H Hnd Hkw Hfun. destruct (call_with_simultaneous _ _ a pos kw b H) as [vals [d [Hv [Hd [Hlen [Eb _]]]]]].
  exists vals, (d ++ combine (vars a) vals). repeat split; auto.
  - intros i l v Hl Hvi. apply subst_sim_hit. rewrite lookup_app.
    now rewrite (lookup_combine_nth _ _ _ _ _ Hnd Hl Hvi).
  - intros Ha x v Hx Hin. pose proof (true_free_is_free_ids a x Ha Hx) as Hfx.
    apply subst_sim_hit. rewrite lookup_app.
    rewrite (lookup_combine_none _ vals _ (free_var_ids_not_in_vars a x Hfun Hfx)).
    eapply kw_dict_all_binds; eauto.
  - intros l Hl Hk. apply subst_sim_miss. rewrite lookup_app. rewrite lookup_combine_none.
    + destruct (lookup d l) as [w|] eqn:E; auto. exfalso. apply Hk.
      destruct (kw_dict_all_keys _ _ _ _ _ Hd E) as [H1 H2]. split; auto. now apply (in_map fst) in H2.
    + destruct (lmem l (vars a)) eqn:E; auto. apply lmem_In in E. contradiction.
Qed.

(* under the guard the code and the proposed repair coincide *)
Lemma lmem_all_same xs x k : xs <> [] -> (forall y, In y xs -> y = x) -> lmem k xs = leaf_eqb k x.
Proof.
  intros Hne Hall. destruct (leaf_eqb k x) eqn:E.
  - apply leaf_eqb_eq in E. subst. apply lmem_In. destruct xs as [|y r]; [congruence|].
    left. apply Hall. now left.
  - destruct (lmem k xs) eqn:E'; auto. apply lmem_In in E'. apply Hall in E'. subst. now rewrite leaf_eqb_refl in E.
Qed.

Lemma kw_dict_all_equiv fv kw : unambiguous fv ->
  match kw_dict_all fv kw, kw_dict fv kw with
  | Some d, Some d' => forall k, lookup d k = lookup d' k
  | None, None => True
  | _, _ => False
  end.
Proof.
  intros Hu. induction kw as [|[n v] r IH]; cbn [kw_dict kw_dict_all]; [reflexivity|].
  destruct (find_name n fv) as [x|] eqn:Ef.
  - destruct (named n fv) as [|y ys] eqn:En; [apply named_nil_find in En; congruence|].
    remember (y :: ys) as xs eqn:Exs.
    destruct (kw_dict_all fv r) as [d|], (kw_dict fv r) as [d'|]; auto.
    intros k. rewrite lookup_const_app. simpl. rewrite IH.
    destruct (lookup d' k); auto. rewrite (lmem_all_same xs x k); auto.
    + subst xs. discriminate.
    + intros z Hz. rewrite <- En in Hz. apply named_In in Hz. destruct Hz as [Hz1 Hz2].
      apply find_name_In in Ef. destruct Ef as [Hx1 Hx2]. apply Hu; auto. congruence.
  - apply named_nil_find in Ef. rewrite Ef.
    destruct (kw_dict_all fv r), (kw_dict fv r); auto.
Qed.

Lemma fields_agree a : names_identify (form_leaves a) -> fields_ids a = fields a.
Proof.
  intros G. unfold fields, fields_ids. apply filter_ext_in. intros l Hl.
  destruct (is_fun l) eqn:Hf; auto. simpl. f_equal.
  destruct (pymem l (vars a)) eqn:E.
  - unfold pymem in E. apply existsb_exists in E. destruct E as [y [Hy Hp]].
    destruct (leaf_pyeq_name l y Hp Hf) as [Hfy Hn]. apply lmem_In.
    assert (l = y); [|now subst]. apply G; auto.
    + unfold form_leaves. rewrite !in_app_iff. auto.
    + unfold form_leaves. rewrite !in_app_iff. auto.
    + unfold sym_leaf. now rewrite Hf.
    + unfold sym_leaf. now rewrite Hfy.
  - now apply pymem_lmem.
Qed.

Lemma call_ids_call a pos kw : names_identify (form_leaves a) -> call_ids a pos kw = call a pos kw.
Proof.
  intros G. unfold call_ids, call, call_with, free_vars_ids. rewrite (fields_agree a G). fold (free_vars a).
  destruct (values_of a pos) as [vals|]; auto.
  pose proof (kw_dict_all_equiv (free_vars a) kw (names_identify_unambiguous a G)) as H.
  destruct (kw_dict_all (free_vars a) kw) as [d|], (kw_dict (free_vars a) kw) as [d'|]; try contradiction; auto.
  destruct (count_ok a pos); auto. f_equal. apply map_body_ext. apply subst_sim_ext.
  intros l. rewrite !lookup_app. now rewrite H.
Qed.

(* ------------------------------------------------------------------ a concrete interpretation (non-vacuity) *)
Definition zsum (l : list Z) : Z := fold_right Z.add 0%Z l.
Definition zprod (l : list Z) : Z := fold_right Z.mul 1%Z l.
Definition zop (n : string) (l : list Z) : Z :=
  if is_comm_op n then zsum l else fold_left (fun acc x => 2 * acc + x + 1)%Z l 0%Z.

Lemma zsum_perm l l' : Permutation l l' -> zsum l = zsum l'.
Proof. unfold zsum. induction 1; simpl; lia. Qed.
Lemma zprod_perm l l' : Permutation l l' -> zprod l = zprod l'.
Proof.
  unfold zprod. induction 1; simpl; auto.
  - now rewrite IHPermutation.
  - rewrite !Z.mul_assoc. f_equal. apply Z.mul_comm.
  - congruence.
Qed.
Lemma zop_perm n l l' : is_comm_op n = true -> Permutation l l' -> zop n l = zop n l'.
Proof. intros H P. unfold zop. rewrite H. now apply zsum_perm. Qed.

Definition Zinterp : interp :=
  {| V := Z; M := Z; addv := zsum; mulv := zprod; powv := fun a _ => a; opv := zop;
     intv := fun _ x => x; madd := Z.add; m0 := 0%Z;
     addv_perm := zsum_perm; mulv_perm := zprod_perm; opv_perm := zop_perm;
     madd_comm := Z.add_comm; madd_assoc := Z.add_assoc |}.

(* dx1(u)*v + u*dx1(v): flag true;  dx1(u)*v: flag false and the meaning does change *)
Definition sym_form : form :=
  mkForm Bilinear [wu] [wv]
    [("dom:Omega", EAdd [EMul [EOp "dx1" [ELeaf wu]; ELeaf wv]; EMul [ELeaf wu; EOp "dx1" [ELeaf wv]]])] [wu; wv].
Definition nonsym_form : form :=
  mkForm Bilinear [wu] [wv] [("dom:Omega", EMul [EOp "dx1" [ELeaf wu]; ELeaf wv])] [wu; wv].
Definition zrho (l : leaf) : Z := match l with LFun _ "u" _ => 1%Z | LFun _ "v" _ => 2%Z | _ => 3%Z end.

Lemma sym_form_flag : is_symmetric sym_form = true.
Proof. vm_compute. reflexivity. Qed.
Lemma nonsym_form_changes :
  sem_body Zinterp (upd Zinterp zrho (exch_dict nonsym_form)) (f_body nonsym_form)
  <> sem_body Zinterp zrho (f_body nonsym_form).
Proof. vm_compute. discriminate. Qed.
Lemma nonsym_form_flag : is_symmetric nonsym_form = false.
Proof. vm_compute. reflexivity. Qed.

(* ------------------------------------------------------------------ same names, different spaces: witnesses *)
Definition wuW := LFun false "u" "W".  Definition wvW := LFun false "v" "W".
Definition wfW := LFun false "f" "W".  Definition wg := LFun false "g" "V".
Definition wp := LFun false "p" "V".   Definition wq := LFun false "q" "V".

(* a = BilinearForm((u, v), integral(f * dot(grad(u), grad(v)) + u*v))  with u, v, f in V;  a(u_W, v_W) *)
Definition twin_call_form : form :=
  mkForm Bilinear [wu] [wv]
    [("dom:Omega", EAdd [EMul [ELeaf wf; EOp "Dot" [EOp "Grad" [ELeaf wu]; EOp "Grad" [ELeaf wv]]]; EMul [ELeaf wu; ELeaf wv]])]
    [wf; wu; wv].

Lemma twin_call :
  call twin_call_form [PVal (ELeaf wuW); PVal (ELeaf wvW)] [] =
  Ok [("dom:Omega", EAdd [EMul [ELeaf wf; EOp "Dot" [EOp "Grad" [ELeaf wuW]; EOp "Grad" [ELeaf wvW]]]; EMul [ELeaf wuW; ELeaf wvW]])].
Proof. reflexivity. Qed.

(* the shortcut "drop the pairs with old == new" leaves the declared functions in place *)
Lemma skip_equal_keeps_arguments :
  call_skip_equal twin_call_form [PVal (ELeaf wuW); PVal (ELeaf wvW)] [] = Ok (f_body twin_call_form) /\
  call_skip_equal twin_call_form [PVal (ELeaf wuW); PVal (ELeaf wvW)] [] <>
  call twin_call_form [PVal (ELeaf wuW); PVal (ELeaf wvW)] [] /\
  In wu (body_leaves (f_body twin_call_form)).
Proof. split; [reflexivity|]. split; [rewrite twin_call; vm_compute; discriminate|]. simpl. auto. Qed.

(* (1) a free field that carries the name of a declared argument: integrand u_W * u * v.
   REFUTED: "a keyword that names a free field of the form replaces it" - the code refuses the keyword *)
Definition twin_arg_form : form :=
  mkForm Bilinear [wu] [wv] [("dom:Omega", EMul [ELeaf wuW; ELeaf wu; ELeaf wv])] [wuW; wu; wv].

Lemma field_named_like_argument_refuted :
  true_free twin_arg_form wuW /\ atoms_ok twin_arg_form /\
  call twin_arg_form [PVal (ELeaf wp); PVal (ELeaf wq)] [("u", ELeaf wg)] = Err ErrUnknownKw /\
  call_ids twin_arg_form [PVal (ELeaf wp); PVal (ELeaf wq)] [("u", ELeaf wg)]
    = Ok [("dom:Omega", EMul [ELeaf wg; ELeaf wp; ELeaf wq])].
Proof.
  split; [|split; [|split; reflexivity]].
  - split; [simpl; auto|]. left. split; [reflexivity|]. simpl. intros [H|[H|[]]]; discriminate.
  - intros l. simpl. split.
    + intros [<-|[<-|[<-|[]]]]; split; auto.
    + intros [Hf H]. repeat (destruct H as [<-|H]; auto); try contradiction.
Qed.

(* (2), (3) two free fields with one name: integrand f_V * u * dx1(v) + f_W * dx1(u) * v; both iteration orders of
   the set of atoms.  REFUTED: "a keyword replaces every free field that carries its name" - one of them survives,
   WHICH one depends on the iteration order of a Python set (the hash seed) *)
Definition twin_field_body : body :=
  [("dom:Omega", EAdd [EMul [ELeaf wf; ELeaf wu; EOp "dx1" [ELeaf wv]]; EMul [ELeaf wfW; EOp "dx1" [ELeaf wu]; ELeaf wv]])].
Definition twin_field_form : form := mkForm Bilinear [wu] [wv] twin_field_body [wf; wfW; wu; wv].
Definition twin_field_form' : form := mkForm Bilinear [wu] [wv] twin_field_body [wfW; wf; wu; wv].

Lemma keyword_binds_one_of_several_refuted :
  true_free twin_field_form wf /\ true_free twin_field_form wfW /\
  (exists b, call twin_field_form [PVal (ELeaf wu); PVal (ELeaf wv)] [("f", ELeaf wg)] = Ok b /\ In wf (body_leaves b)) /\
  (exists b, call twin_field_form' [PVal (ELeaf wu); PVal (ELeaf wv)] [("f", ELeaf wg)] = Ok b /\ In wfW (body_leaves b)) /\
  (exists b, call_ids twin_field_form [PVal (ELeaf wu); PVal (ELeaf wv)] [("f", ELeaf wg)] = Ok b /\
             forall x, In x (body_leaves b) -> leaf_name x <> "f").
Proof.
  split; [|split; [|split; [|split]]].
  - split; [simpl; auto|]. left. split; [reflexivity|]. simpl. intros [H|[H|[]]]; discriminate.
  - split; [simpl; auto 10|]. left. split; [reflexivity|]. simpl. intros [H|[H|[]]]; discriminate.
  - eexists. split; [reflexivity|]. simpl. auto.
  - eexists. split; [reflexivity|]. simpl. auto 10.
  - eexists. split; [reflexivity|]. simpl. intros x H.
    repeat (destruct H as [<-|H]; [simpl; discriminate|]). contradiction.
Qed.

Definition zrho2 (l : leaf) : Z :=
  match l with
  | LFun _ "u" _ => 1%Z | LFun _ "v" _ => 2%Z | LFun _ "f" "V" => 5%Z | LFun _ "f" "W" => 7%Z | _ => 3%Z
  end.

(* REFUTED: "a true flag implies that exchanging trial and test values does not change the value" *)
Lemma symmetry_flag_refuted :
  is_symmetric twin_field_form = true /\ is_symmetric_ids twin_field_form = false /\
  sem_body Zinterp (upd Zinterp zrho2 (exch_dict twin_field_form)) (f_body twin_field_form)
    <> sem_body Zinterp zrho2 (f_body twin_field_form).
Proof.
  split; [vm_compute; reflexivity|]. split; [vm_compute; reflexivity|]. vm_compute. discriminate.
Qed.

(* ------------------------------------------------------------------ terminal level: tsubst is evaluation in the updated environment *)
From V Require Import Core.Terminal Core.TerminalP Core.DField.

Section TSubst.
  Variable S : dfield.
  Variable sf : list (string * list texpr).
  Variable sc : list (string * texpr).

  (* the environment in which every replaced function component / constant has the value of its replacement *)
  Definition fld' (f : string) (c : nat) (s : side) : F S :=
    match sassoc f sf with
    | Some comps => match nth_error comps c, s with
                    | Some v, SNone => ev S v
                    | _, _ => fld S f c s
                    end
    | None => fld S f c s
    end.
  Definition cst' (n : string) : F S :=
    match sassoc n sc with Some v => ev S v | None => cst S n end.
  Definition ev' (t : texpr) : F S :=
    teval (F S) (f0 S) (f1 S) (fadd S) (fmul S) (fsub S) (fopp S) (fdiv S) (finv S)
          cst' (crd S) fld' (mp S) (nrm S) (D S) (E S) (P S) t.

  Definition values_defined : Prop :=
    forall f comps c v, sassoc f sf = Some comps -> nth_error comps c = Some v -> dfd S v.

  Lemma tDn_sound lg i n : forall t t', tDn lg i n t = Some t' -> dfd S t ->
    dfd S t' /\ ev S t' = iterN (F S) n (D S lg i) (ev S t).
  Proof.
    induction n as [|k IH]; simpl; intros t t' H Hd.
    - inversion H; subst. auto.
    - destruct (tDn lg i k t) as [t1|] eqn:E; [|discriminate].
      destruct (IH t t1 E Hd) as [Hd1 He1]. split.
      + eapply dfd_tD; eauto.
      + rewrite (ev_tD S lg i t1 t' H Hd1). now rewrite He1.
  Qed.

  Lemma tDal_sound lg al : forall i t t', tDal lg i al t = Some t' -> dfd S t ->
    dfd S t' /\ ev S t' = iterD (F S) (D S) lg i al (ev S t).
  Proof.
    induction al as [|n r IH]; simpl; intros i t t' H Hd.
    - inversion H; subst. auto.
    - destruct (tDal lg (Datatypes.S i) r t) as [t1|] eqn:E; [|discriminate].
      destruct (IH (Datatypes.S i) t t1 E Hd) as [Hd1 He1].
      destruct (tDn_sound lg i n t1 t' H Hd1) as [Hd2 He2]. split; auto. now rewrite He2, He1.
  Qed.

  Lemma tsubst_atom_sound a t' : values_defined -> tsubst_atom sf sc a = Some t' -> ev S t' = ev' (TAt a).
  Proof.
    intros Hv. destruct a as [l i|n|lg f c s al|m i al|s i]; simpl; unfold ev'; simpl.
    - intros H. now inversion H.
    - unfold cst'. destruct (sassoc n sc); intros H; inversion H; reflexivity.
    - unfold fld'. destruct (sassoc f sf) as [comps|] eqn:Ef.
      + destruct (nth_error comps c) as [v|] eqn:Ec; [|discriminate].
        destruct s; try discriminate. intros H.
        destruct (tDal_sound lg al 0 v t' H (Hv f comps c v Ef Ec)) as [_ He]. exact He.
      + intros H. now inversion H.
    - intros H. now inversion H.
    - intros H. now inversion H.
  Qed.

  Theorem tsubst_sound t : forall t', values_defined -> tsubst sf sc t = Some t' -> ev S t' = ev' t.
  Proof.
    induction t; simpl; intros t' Hv H;
      try (inversion H; subst; reflexivity);
      try (destruct (tsubst sf sc t1) as [x1|] eqn:E1; [|discriminate];
           destruct (tsubst sf sc t2) as [x2|] eqn:E2; [|discriminate];
           inversion H; subst; unfold ev, ev' in *; simpl;
           rewrite (IHt1 x1 Hv eq_refl), (IHt2 x2 Hv eq_refl); reflexivity);
      try (destruct (tsubst sf sc t) as [x|] eqn:E1; [|discriminate];
           inversion H; subst; unfold ev, ev' in *; simpl; rewrite (IHt x Hv eq_refl); reflexivity).
    now apply tsubst_atom_sound.
  Qed.

  (* what the per-case comparison of lowered integrands establishes: if the checker accepts, then in every
     differential field the called integrand [r] is the original integrand [o] evaluated with every replaced
     function and constant bound to the value of its replacement - all at once *)
  Corollary lowered_call_sound o r t :
    values_defined -> tsubst sf sc o = Some t -> tequiv t r = true -> dok S t r -> ev S r = ev' o.
  Proof.
    intros Hv Ht He Hd. rewrite <- (tsubst_sound o t Hv Ht). symmetry. now apply ev_tequiv.
  Qed.
End TSubst.
