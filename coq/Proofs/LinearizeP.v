(* C09 - proofs about the linearisation model (Model/LinearizeM.v):
     1. the dual numbers F[eps]/(eps^2) form a commutative ring; eps^2 = 0;
     2. forward-mode correctness: evaluating e over the dual numbers with every atom a read as
        (a, da) gives (value of e, value of deriv e), for polynomial, rational and elementary e;
     3. the Gateaux derivative (sum over atoms of partial derivative * direction atom) has the value
        of the forward-mode derivative;
     4. the arms of the linearize model (first-order series / expansion and eps^1 coefficient) have
        the value of the Gateaux derivative; independence from the auxiliary name;
     5. forms: per-integral reassembly, skipped integrals vanish, the empty case, Newton. *)
From Coq Require Import String ZArith NArith Nnat QArith List Bool Arith PeanoNat Lia Setoid.
From Coq Require Import Ring_theory Field_theory Ring Field InitialRing.
From V Require Import Core.FieldEq Core.Terminal Core.TerminalP Core.DField Core.SExpr.
From V Require Import Model.LinearityM Proofs.LinearityP Model.LinearizeM.
Import ListNotations.
Local Open Scope nat_scope.
Local Arguments Qred : simpl never.
Local Arguments Qplus : simpl never.
Local Arguments Qmult : simpl never.
Local Arguments Qopp : simpl never.
Local Arguments Qeq_bool : simpl never.
Local Arguments inject_Z : simpl never.

Lemma vev_ext (F : Type) f1 fadd fmul fsub fopp fdiv finv phiZ E P (r1 r2 : atom -> F) t :
  (forall a, r1 a = r2 a) ->
  vev F f1 fadd fmul fsub fopp fdiv finv phiZ E P r1 t = vev F f1 fadd fmul fsub fopp fdiv finv phiZ E P r2 t.
Proof. intros H. induction t; simpl; rewrite ?IHt, ?IHt1, ?IHt2; auto. Qed.

Lemma atom_eqb_refl a : atom_eqb a a = true.
Proof.
  destruct a; simpl; rewrite ?Nat.eqb_refl, ?String.eqb_refl, ?natlist_eqb_refl, ?Bool.eqb_reflx; auto;
    destruct s; auto.
Qed.

(* ================================================================= 4. the arms of linearize *)
Lemma deriv_dir d s a : exists x, deriv d (dir_atom s a) = Some x.
Proof. destruct a; simpl; eauto. destruct (dlookup s f); simpl; eauto. Qed.

Lemma deriv_subst_def eps s d1 d2 t : forall h, deriv d1 t = Some h ->
  exists t', deriv d2 (subst_eps eps s t) = Some t'.
Proof.
  induction t; cbn [deriv subst_eps]; intros h H; eauto.
  - destruct (varied s a); cbn [deriv eps_atom]; eauto.
    destruct (deriv_dir d2 s a) as [x ->]. simpl. eauto.
  - destruct (deriv d1 t1), (deriv d1 t2); try discriminate.
    destruct (IHt1 _ eq_refl) as [x1 ->], (IHt2 _ eq_refl) as [x2 ->]. simpl. eauto.
  - destruct (deriv d1 t1), (deriv d1 t2); try discriminate.
    destruct (IHt1 _ eq_refl) as [x1 ->], (IHt2 _ eq_refl) as [x2 ->]. simpl. eauto.
  - destruct (deriv d1 t1), (deriv d1 t2); try discriminate.
    destruct (IHt1 _ eq_refl) as [x1 ->], (IHt2 _ eq_refl) as [x2 ->]. simpl. eauto.
  - destruct (deriv d1 t1), (deriv d1 t2); try discriminate.
    destruct (IHt1 _ eq_refl) as [x1 ->], (IHt2 _ eq_refl) as [x2 ->]. simpl. eauto.
  - destruct (deriv d1 t); try discriminate. destruct (IHt _ eq_refl) as [x ->]. simpl. eauto.
  - destruct (deriv d1 t); try discriminate. destruct (IHt _ eq_refl) as [x ->]. simpl. eauto.
  - destruct n; eauto. destruct (deriv d1 t); try discriminate. destruct (IHt _ eq_refl) as [x ->]. simpl. eauto.
  - destruct (deriv d1 t); try discriminate. destruct (IHt _ eq_refl) as [x ->].
    destruct f; try discriminate; eauto.
  - destruct (deriv d1 t1), (deriv d1 t2); try discriminate.
    destruct (IHt1 _ eq_refl) as [x1 ->], (IHt2 _ eq_refl) as [x2 ->]. simpl. eauto.
Qed.

(* the derivative arm is defined wherever the directional derivative is *)
Lemma lin_series_total eps s e h : fwd s e = Some h -> exists r, lin_series eps s e = Some r.
Proof.
  unfold fwd, lin_series, pdiff. intros H.
  destruct (deriv_subst_def eps s _ (fun b => if atom_eqb (AConst eps) b then One else Zero) e h H) as [t' ->].
  simpl. eauto.
Qed.

Lemma dlookup_dir_not_const s a eps : has_const eps (dir_atom s a) = false.
Proof. destruct a; simpl; auto. destruct (dlookup s f); reflexivity. Qed.

Section LinSeries.
  Variable F : Type.
  Variables (f0 f1 : F) (fadd fmul fsub : F -> F -> F) (fopp : F -> F) (fdiv : F -> F -> F) (finv : F -> F).
  Hypothesis Fth : field_theory f0 f1 fadd fmul fsub fopp fdiv finv (@eq F).
  Notation phi := (phi F f0 f1 fadd fmul fopp).
  Variable E : fname -> F -> F.
  Variable P : F -> F -> F.
  Add Field FF2 : Fth.
  Infix "+" := fadd. Infix "*" := fmul. Infix "-" := fsub. Infix "/" := fdiv.
  Notation "- x" := (fopp x).
  Notation "0" := f0. Notation "1" := f1.
  Notation vv := (vev F f1 fadd fmul fsub fopp fdiv finv phi E P).

  Variable eps : string.
  Variable s : dirmap.
  Variable rho : atom -> F.
  (* the same valuation with eps := 0 *)
  Definition rho0 : atom -> F := fun a => match a with AConst n => if String.eqb n eps then 0 else rho a | _ => rho a end.

  Lemma tz_ev t : tz t = true -> vv rho t = 0.
  Proof. destruct t; try discriminate. destruct z; try discriminate. reflexivity. Qed.

  Lemma mk_add_ev a b : vv rho (mk_add a b) = vv rho a + vv rho b.
  Proof.
    unfold mk_add. destruct (tz b) eqn:Eb; [rewrite (tz_ev b Eb); ring|].
    destruct (tz a) eqn:Ea; [rewrite (tz_ev a Ea); ring|]. reflexivity.
  Qed.

  Lemma mk_mul_ev a b : vv rho (mk_mul a b) = vv rho a * vv rho b.
  Proof.
    unfold mk_mul. destruct (tz a) eqn:Ea; simpl; [rewrite (tz_ev a Ea); change (phi 0%Z) with 0; ring|].
    destruct (tz b) eqn:Eb; simpl; [rewrite (tz_ev b Eb); change (phi 0%Z) with 0; ring|]. reflexivity.
  Qed.

  (* A: substituting eps := 0 in the expression = evaluating with eps := 0 *)
  Lemma subst0_ev t : vv rho (subst0 eps t) = vv rho0 t.
  Proof.
    induction t; cbn [subst0 vev]; rewrite ?mk_add_ev, ?mk_mul_ev, ?IHt, ?IHt1, ?IHt2; auto.
    destruct a; simpl; auto. destruct (String.eqb name eps); reflexivity.
  Qed.

  Lemma rho0_same t : has_const eps t = false -> vv rho0 t = vv rho t.
  Proof.
    induction t; cbn [has_const vev]; intros H;
      repeat match goal with
             | H : _ || _ = false |- _ => apply orb_false_iff in H; destruct H
             end; rewrite ?IHt, ?IHt1, ?IHt2; auto.
    destruct a; simpl in *; auto. now rewrite H.
  Qed.

  (* B: at eps = 0 the substituted expression has the value of the original one *)
  Lemma subst_eps_ev0 t : has_const eps t = false -> vv rho0 (subst_eps eps s t) = vv rho t.
  Proof.
    induction t; cbn [has_const subst_eps vev]; intros H;
      repeat match goal with
             | H : _ || _ = false |- _ => apply orb_false_iff in H; destruct H
             end; rewrite ?IHt, ?IHt1, ?IHt2; auto.
    destruct (varied s a) eqn:Ev.
    - cbn [vev eps_atom]. unfold rho0 at 2. rewrite String.eqb_refl.
      destruct a; simpl in *; try discriminate. ring.
    - destruct a; simpl in *; auto. now rewrite H.
  Qed.

  (* C: d/d eps of the substituted expression at eps = 0 is the directional derivative *)
  Lemma pdiff_subst_eps t : has_const eps t = false ->
    forall t', pdiff (AConst eps) (subst_eps eps s t) = Some t' ->
    exists h, fwd s t = Some h /\ vv rho0 t' = vv rho h.
  Proof.
    unfold pdiff, fwd.
    induction t; cbn [has_const subst_eps deriv]; intros Hc t' H;
      repeat match goal with
             | H : _ || _ = false |- _ => apply orb_false_iff in H; destruct H
             end.
    - inversion H. exists Zero. split; reflexivity.
    - inversion H. exists Zero. split; reflexivity.
    - destruct (varied s a) eqn:Ev.
      + cbn [deriv eps_atom] in H. destruct a as [| |lg f c sd al| |]; simpl in Ev; try discriminate.
        destruct (dlookup s f) as [df|] eqn:Ed; [|discriminate].
        cbn [dir_atom] in *. rewrite Ed in *. cbn [deriv atom_eqb omap2] in H.
        pose proof (String.eqb_refl eps) as Hr. rewrite Hr in H. inversion H. eexists. split; [reflexivity|].
        unfold eps_atom, Zero, One. cbn [vev]. unfold rho0. rewrite String.eqb_refl. change (phi 1%Z) with 1. change (phi 0%Z) with 0. ring.
      + cbn [deriv] in H. inversion H. eexists. split; [reflexivity|].
        destruct a as [|n|lg f c sd al| |]; simpl in *; try reflexivity.
        * rewrite String.eqb_sym, Hc. reflexivity.
        * destruct (dlookup s f); [discriminate|reflexivity].
    - destruct (deriv _ (subst_eps eps s t1)) as [a1|] eqn:E1', (deriv _ (subst_eps eps s t2)) as [a2|] eqn:E2; try discriminate.
      destruct (IHt1 H0 _ eq_refl) as [h1 [-> V1]], (IHt2 H1 _ eq_refl) as [h2 [-> V2]].
      inversion H. eexists. split; [reflexivity|]. cbn [vev]. now rewrite V1, V2.
    - destruct (deriv _ (subst_eps eps s t1)) as [a1|] eqn:E1', (deriv _ (subst_eps eps s t2)) as [a2|] eqn:E2; try discriminate.
      destruct (IHt1 H0 _ eq_refl) as [h1 [-> V1]], (IHt2 H1 _ eq_refl) as [h2 [-> V2]].
      inversion H. eexists. split; [reflexivity|]. cbn [vev]. now rewrite V1, V2.
    - destruct (deriv _ (subst_eps eps s t1)) as [a1|] eqn:E1', (deriv _ (subst_eps eps s t2)) as [a2|] eqn:E2; try discriminate.
      destruct (IHt1 H0 _ eq_refl) as [h1 [-> V1]], (IHt2 H1 _ eq_refl) as [h2 [-> V2]].
      inversion H. eexists. split; [reflexivity|]. cbn [vev]. now rewrite V1, V2, !subst_eps_ev0.
    - destruct (deriv _ (subst_eps eps s t1)) as [a1|] eqn:E1', (deriv _ (subst_eps eps s t2)) as [a2|] eqn:E2; try discriminate.
      destruct (IHt1 H0 _ eq_refl) as [h1 [-> V1]], (IHt2 H1 _ eq_refl) as [h2 [-> V2]].
      inversion H. eexists. split; [reflexivity|]. cbn [vev]. now rewrite V1, V2, !subst_eps_ev0.
    - destruct (deriv _ (subst_eps eps s t)) as [a1|] eqn:E1'; try discriminate.
      destruct (IHt Hc _ eq_refl) as [h1 [-> V1]].
      inversion H. eexists. split; [reflexivity|]. cbn [vev]. now rewrite V1.
    - destruct (deriv _ (subst_eps eps s t)) as [a1|] eqn:E1'; try discriminate.
      destruct (IHt Hc _ eq_refl) as [h1 [-> V1]].
      inversion H. eexists. split; [reflexivity|]. cbn [vev]. now rewrite V1, !subst_eps_ev0.
    - destruct n as [|p].
      + inversion H. exists Zero. split; reflexivity.
      + destruct (deriv _ (subst_eps eps s t)) as [a1|] eqn:E1'; try discriminate.
        destruct (IHt Hc _ eq_refl) as [h1 [-> V1]].
        inversion H. eexists. split; [reflexivity|]. cbn [vev]. now rewrite V1, !subst_eps_ev0.
    - destruct (deriv _ (subst_eps eps s t)) as [a1|] eqn:E1'; try discriminate.
      destruct (IHt Hc _ eq_refl) as [h1 [-> V1]].
      destruct f; inversion H; eexists; (split; [reflexivity|]); cbn [vev]; now rewrite V1, !subst_eps_ev0.
    - destruct (deriv _ (subst_eps eps s t1)) as [a1|] eqn:E1', (deriv _ (subst_eps eps s t2)) as [a2|] eqn:E2; try discriminate.
      destruct (IHt1 H0 _ eq_refl) as [h1 [-> V1]], (IHt2 H1 _ eq_refl) as [h2 [-> V2]].
      inversion H. eexists. split; [reflexivity|]. cbn [vev]. now rewrite V1, V2, !subst_eps_ev0.
  Qed.

  Theorem lin_series_sound e r : has_const eps e = false -> lin_series eps s e = Some r ->
    exists h, fwd s e = Some h /\ vv rho r = vv rho h.
  Proof.
    unfold lin_series. intros Hc H.
    destruct (pdiff (AConst eps) (subst_eps eps s e)) as [t'|] eqn:Et; [|discriminate].
    inversion H. destruct (pdiff_subst_eps e Hc t' Et) as [h [Hh V]].
    exists h. split; auto. now rewrite subst0_ev.
  Qed.
End LinSeries.

Section DualNumbers.
  Variable F : Type.
  Variables (f0 f1 : F) (fadd fmul fsub : F -> F -> F) (fopp : F -> F) (fdiv : F -> F -> F) (finv : F -> F).
  Hypothesis Fth : field_theory f0 f1 fadd fmul fsub fopp fdiv finv (@eq F).
  Notation phi := (phi F f0 f1 fadd fmul fopp).
  Variable E : fname -> F -> F.
  Variable P : F -> F -> F.
  (* the first-order expansion of the elementary functions: f(a + eps a') = f(a) + eps f'(a) a' *)
  Variable E1 : fname -> F -> F.
  Hypothesis E1_sin : forall a, E1 Fsin a = E Fcos a.
  Hypothesis E1_cos : forall a, E1 Fcos a = fopp (E Fsin a).
  Hypothesis E1_tan : forall a, E1 Ftan a = fadd f1 (fmul (E Ftan a) (E Ftan a)).
  Hypothesis E1_exp : forall a, E1 Fexp a = E Fexp a.
  Hypothesis E1_log : forall a, E1 Flog a = finv a.
  Hypothesis E1_sqrt : forall a, E1 Fsqrt a = finv (fmul (phi 2) (E Fsqrt a)).

  Add Field FF : Fth.
  Infix "+" := fadd. Infix "*" := fmul. Infix "-" := fsub. Infix "/" := fdiv.
  Notation "- x" := (fopp x).
  Notation "0" := f0. Notation "1" := f1.
  Let Rth := F_R Fth.
  Let M := gen_phiZ_morph (Eqsth F) (Eq_ext fadd fmul fopp) Rth.

  Notation D := (dual F).
  Notation d0 := (dzero F f0).
  Notation d1 := (done F f0 f1).
  Notation deps := (deps F f0 f1).
  Notation dadd := (dadd F fadd).
  Notation dsub := (dsub F fsub).
  Notation dopp := (dopp F fopp).
  Notation dmul := (dmul F fadd fmul).
  Notation dinv := (dinv F fmul fopp fdiv finv).
  Notation ddiv := (ddiv F fadd fmul fopp fdiv finv).
  Notation vv := (vev F f1 fadd fmul fsub fopp fdiv finv phi E P).
  Notation dv := (dvev F f0 f1 fadd fmul fsub fopp fdiv finv phi E E1 P).
  Notation pw := (vpow F f1 fmul).
  Notation dpw := (vpow D d1 dmul).

  Lemma dual_eq (x y : D) : fst x = fst y -> snd x = snd y -> x = y.
  Proof. destruct x, y; simpl; congruence. Qed.

  (* ---------------------------------------------------------------- 1. a commutative ring *)
  Theorem dual_ring : ring_theory d0 d1 dadd dmul dsub dopp (@eq D).
  Proof.
    constructor; intros; apply dual_eq; simpl; ring.
  Qed.

  Theorem eps_square : dmul deps deps = d0.
  Proof. apply dual_eq; simpl; ring. Qed.

  Theorem dual_embed_add a b : dadd (a, 0) (b, 0) = (a + b, 0).
  Proof. apply dual_eq; simpl; ring. Qed.
  Theorem dual_embed_mul a b : dmul (a, 0) (b, 0) = (a * b, 0).
  Proof. apply dual_eq; simpl; ring. Qed.
  Theorem dual_decompose (x : D) : x = dadd (fst x, 0) (dmul deps (snd x, 0)).
  Proof. apply dual_eq; simpl; ring. Qed.
  Theorem dual_inverse (x : D) : fst x <> 0 -> dmul x (dinv x) = d1.
  Proof. intros H. apply dual_eq; simpl; field; auto. Qed.

  (* ---------------------------------------------------------------- 2. forward mode *)
  Lemma phi_succ n : phi (Z.of_nat (S n)) = phi (Z.of_nat n) + 1.
  Proof. rewrite Nat2Z.inj_succ. unfold Z.succ. rewrite (morph_add M). reflexivity. Qed.

  Lemma dpw_fst x k : fst (dpw x k) = pw (fst x) k.
  Proof. induction k; simpl; auto. now rewrite IHk. Qed.

  Lemma dpw_snd x k : snd (dpw x (S k)) = phi (Z.of_nat (S k)) * pw (fst x) k * snd x.
  Proof.
    induction k.
    - simpl. ring.
    - change (dpw x (S (S k))) with (dmul x (dpw x (S k))). cbn [LinearizeM.dmul snd fst].
      rewrite IHk, dpw_fst, (phi_succ (S k)). simpl. ring.
  Qed.

  Fixpoint vdef (rho : atom -> F) (t : texpr) : Prop :=
    match t with
    | TZ _ | TQ _ _ | TAt _ => True
    | TAdd a b | TSub a b | TMul a b | TPowG a b => vdef rho a /\ vdef rho b
    | TDiv a b => vdef rho a /\ vdef rho b /\ vv rho b <> 0
    | TInv a => vdef rho a /\ vv rho a <> 0
    | TOpp a | TPowN a _ | TFn _ a => vdef rho a
    end.

  Section Forward.
    Variable datom : atom -> texpr.
    Variables rho tau : atom -> F.
    Hypothesis Htau : forall a, vv rho (datom a) = tau a.
    Let rd : atom -> D := fun a => (rho a, tau a).

    Theorem dual_sound t : forall t', deriv datom t = Some t' -> vdef rho t -> dv rd t = (vv rho t, vv rho t').
    Proof.
      unfold dvev.
      induction t; cbn [deriv vev vdef]; intros t' H Hd.
      - inversion H. reflexivity.
      - inversion H. apply dual_eq; simpl.
        + rewrite !(Fdiv_def Fth). ring.
        + change (phi 0%Z) with 0. rewrite !(Fdiv_def Fth). ring.
      - inversion H. unfold rd. now rewrite Htau.
      - destruct (deriv datom t1) as [a1|], (deriv datom t2) as [a2|]; try discriminate. inversion H.
        destruct Hd. rewrite (IHt1 _ eq_refl), (IHt2 _ eq_refl) by auto. reflexivity.
      - destruct (deriv datom t1) as [a1|], (deriv datom t2) as [a2|]; try discriminate. inversion H.
        destruct Hd. rewrite (IHt1 _ eq_refl), (IHt2 _ eq_refl) by auto. reflexivity.
      - destruct (deriv datom t1) as [a1|], (deriv datom t2) as [a2|]; try discriminate. inversion H.
        destruct Hd. rewrite (IHt1 _ eq_refl), (IHt2 _ eq_refl) by auto. reflexivity.
      - destruct (deriv datom t1) as [a1|], (deriv datom t2) as [a2|]; try discriminate. inversion H.
        destruct Hd as (Hd1 & Hd2 & Hn). rewrite (IHt1 _ eq_refl), (IHt2 _ eq_refl) by auto.
        apply dual_eq; simpl; field; auto.
      - destruct (deriv datom t) as [a1|]; try discriminate. inversion H.
        rewrite (IHt _ eq_refl) by auto. reflexivity.
      - destruct (deriv datom t) as [a1|]; try discriminate. inversion H. destruct Hd as [Hd1 Hn].
        rewrite (IHt _ eq_refl) by auto. apply dual_eq; simpl; field; auto.
      - destruct n as [|p].
        + inversion H. reflexivity.
        + destruct (deriv datom t) as [a1|]; try discriminate. inversion H.
          specialize (IHt _ eq_refl Hd). cbn [vev]. change (N.to_nat (N.pos p)) with (Pos.to_nat p).
          destruct (Pos2Nat.is_succ p) as [k Hk]. rewrite Hk.
          assert (Hp : N.to_nat (Pos.pred_N p) = k).
          { rewrite N.pos_pred_spec, N2Nat.inj_pred. change (N.to_nat (N.pos p)) with (Pos.to_nat p). lia. }
          assert (Hz : Zpos p = Z.of_nat (S k)) by (rewrite <- Hk; now rewrite positive_nat_Z).
          apply dual_eq.
          * rewrite dpw_fst. cbn [fst]. now rewrite IHt.
          * rewrite dpw_snd. cbn [snd vev]. rewrite IHt, Hp, Hz. reflexivity.
      - destruct (deriv datom t) as [a1|]; try discriminate.
        specialize (IHt _ eq_refl Hd). rewrite IHt.
        destruct f; inversion H; apply dual_eq; cbn [dE fst snd vev]; auto.
        + rewrite E1_sin. reflexivity.
        + rewrite E1_cos. ring.
        + rewrite E1_tan. change (phi 1%Z) with 1. reflexivity.
        + rewrite E1_exp. reflexivity.
        + rewrite E1_log, (Fdiv_def Fth). ring.
        + rewrite E1_sqrt, (Fdiv_def Fth). ring.
      - destruct (deriv datom t1) as [a1|], (deriv datom t2) as [a2|]; try discriminate. inversion H.
        destruct Hd. rewrite (IHt1 _ eq_refl), (IHt2 _ eq_refl) by auto. reflexivity.
    Qed.
  End Forward.

  (* ---------------------------------------------------------------- 3. the Gateaux derivative *)
  Section Gateaux.
    Variable rho : atom -> F.
    Notation ev := (vv rho).

    Fixpoint fsumL (g : atom -> F) (L : list atom) : F :=
      match L with [] => 0 | a :: r => g a + fsumL g r end.

    Lemma fsumL_ext g h L : (forall a, In a L -> g a = h a) -> fsumL g L = fsumL h L.
    Proof. induction L as [|a r IH]; simpl; intros H; auto. rewrite H, IH; auto. Qed.

    Lemma fsumL_zero g L : fsumL (fun a => 0 * g a) L = 0.
    Proof. induction L as [|a r IH]; simpl; auto. rewrite IH. ring. Qed.

    (* a map that is additive and commutes with the multiplication by a scalar commutes with the sums *)
    Lemma fsumL_lin2 (G : F -> F -> F) (x1 x2 w : atom -> F) L :
      (forall a b c d, G (a + b) (c + d) = G a c + G b d) -> G 0 0 = 0 ->
      (forall a b k, G (a * k) (b * k) = G a b * k) ->
      G (fsumL (fun a => x1 a * w a) L) (fsumL (fun a => x2 a * w a) L) = fsumL (fun a => G (x1 a) (x2 a) * w a) L.
    Proof.
      intros Ha H0 Hk. induction L as [|a r IH]; simpl; auto. now rewrite Ha, Hk, IH.
    Qed.

    Lemma fsumL_lin1 (G : F -> F) (x w : atom -> F) L :
      (forall a b, G (a + b) = G a + G b) -> G 0 = 0 -> (forall a k, G (a * k) = G a * k) ->
      G (fsumL (fun a => x a * w a) L) = fsumL (fun a => G (x a) * w a) L.
    Proof.
      intros Ha H0 Hk. induction L as [|a r IH]; simpl; auto. now rewrite Ha, Hk, IH.
    Qed.

    Definition deriv0 (d : atom -> texpr) (t : texpr) : texpr :=
      match deriv d t with Some x => x | None => Zero end.

    Lemma deriv_defined d1 d2 t : forall h, deriv d1 t = Some h -> exists h', deriv d2 t = Some h'.
    Proof.
      induction t; cbn [deriv]; intros h H; eauto.
      - destruct (deriv d1 t1), (deriv d1 t2); try discriminate.
        destruct (IHt1 _ eq_refl) as [x1 ->], (IHt2 _ eq_refl) as [x2 ->]. simpl. eauto.
      - destruct (deriv d1 t1), (deriv d1 t2); try discriminate.
        destruct (IHt1 _ eq_refl) as [x1 ->], (IHt2 _ eq_refl) as [x2 ->]. simpl. eauto.
      - destruct (deriv d1 t1), (deriv d1 t2); try discriminate.
        destruct (IHt1 _ eq_refl) as [x1 ->], (IHt2 _ eq_refl) as [x2 ->]. simpl. eauto.
      - destruct (deriv d1 t1), (deriv d1 t2); try discriminate.
        destruct (IHt1 _ eq_refl) as [x1 ->], (IHt2 _ eq_refl) as [x2 ->]. simpl. eauto.
      - destruct (deriv d1 t); try discriminate. destruct (IHt _ eq_refl) as [x ->]. simpl. eauto.
      - destruct (deriv d1 t); try discriminate. destruct (IHt _ eq_refl) as [x ->]. simpl. eauto.
      - destruct n; eauto. destruct (deriv d1 t); try discriminate. destruct (IHt _ eq_refl) as [x ->]. simpl. eauto.
      - destruct (deriv d1 t); try discriminate. destruct (IHt _ eq_refl) as [x ->].
        destruct f; try discriminate; eauto.
      - destruct (deriv d1 t1), (deriv d1 t2); try discriminate.
        destruct (IHt1 _ eq_refl) as [x1 ->], (IHt2 _ eq_refl) as [x2 ->]. simpl. eauto.
    Qed.

    Variable d : atom -> texpr.                     (* the directions *)
    Definition delta (a : atom) : atom -> texpr := fun b => if atom_eqb a b then One else Zero.
    Variable L : list atom.

    Lemma deriv_linear t : forall h, deriv d t = Some h ->
      (forall b, In b (atoms_of t) -> ev (d b) = fsumL (fun a => ev (delta a b) * ev (d a)) L) ->
      ev h = fsumL (fun a => ev (deriv0 (delta a) t) * ev (d a)) L.
    Proof.
      induction t; cbn [deriv atoms_of]; intros h H HL.
      - inversion H. symmetry. apply (fsumL_zero (fun a => ev (d a))).
      - inversion H. symmetry. apply (fsumL_zero (fun a => ev (d a))).
      - inversion H. subst h. unfold deriv0. simpl. apply HL. now left.
      - destruct (deriv d t1) as [h1|] eqn:E1', (deriv d t2) as [h2|] eqn:E2; try discriminate. inversion H.
        cbn [vev]. rewrite (IHt1 _ eq_refl), (IHt2 _ eq_refl); try (intros; apply HL; apply in_or_app; auto).
        rewrite (fsumL_lin2 (fun x y => x + y)); try (intros; ring).
        apply fsumL_ext. intros a _. unfold deriv0. cbn [deriv].
        destruct (deriv_defined d (delta a) t1 _ E1') as [p1 ->], (deriv_defined d (delta a) t2 _ E2) as [p2 ->]. reflexivity.
      - destruct (deriv d t1) as [h1|] eqn:E1', (deriv d t2) as [h2|] eqn:E2; try discriminate. inversion H.
        cbn [vev]. rewrite (IHt1 _ eq_refl), (IHt2 _ eq_refl); try (intros; apply HL; apply in_or_app; auto).
        rewrite (fsumL_lin2 (fun x y => x - y)); try (intros; ring).
        apply fsumL_ext. intros a _. unfold deriv0. cbn [deriv].
        destruct (deriv_defined d (delta a) t1 _ E1') as [p1 ->], (deriv_defined d (delta a) t2 _ E2) as [p2 ->]. reflexivity.
      - destruct (deriv d t1) as [h1|] eqn:E1', (deriv d t2) as [h2|] eqn:E2; try discriminate. inversion H.
        cbn [vev]. rewrite (IHt1 _ eq_refl), (IHt2 _ eq_refl); try (intros; apply HL; apply in_or_app; auto).
        rewrite (fsumL_lin2 (fun x y => x * ev t2 + ev t1 * y)); try (intros; ring).
        apply fsumL_ext. intros a _. unfold deriv0. cbn [deriv].
        destruct (deriv_defined d (delta a) t1 _ E1') as [p1 ->], (deriv_defined d (delta a) t2 _ E2) as [p2 ->]. reflexivity.
      - destruct (deriv d t1) as [h1|] eqn:E1', (deriv d t2) as [h2|] eqn:E2; try discriminate. inversion H.
        cbn [vev]. rewrite (IHt1 _ eq_refl), (IHt2 _ eq_refl); try (intros; apply HL; apply in_or_app; auto).
        rewrite (fsumL_lin2 (fun x y => (x * ev t2 - ev t1 * y) / (ev t2 * ev t2)));
          try (intros; rewrite !(Fdiv_def Fth); ring).
        apply fsumL_ext. intros a _. unfold deriv0. cbn [deriv].
        destruct (deriv_defined d (delta a) t1 _ E1') as [p1 ->], (deriv_defined d (delta a) t2 _ E2) as [p2 ->]. reflexivity.
      - destruct (deriv d t) as [h1|] eqn:E1'; try discriminate. inversion H.
        cbn [vev]. rewrite (IHt _ eq_refl) by auto.
        rewrite (fsumL_lin1 (fun x => - x)); try (intros; ring).
        apply fsumL_ext. intros a _. unfold deriv0. cbn [deriv].
        destruct (deriv_defined d (delta a) t _ E1') as [p1 ->]. reflexivity.
      - destruct (deriv d t) as [h1|] eqn:E1'; try discriminate. inversion H.
        cbn [vev]. rewrite (IHt _ eq_refl) by auto.
        rewrite (fsumL_lin1 (fun x => - (x / (ev t * ev t)))); try (intros; rewrite !(Fdiv_def Fth); ring).
        apply fsumL_ext. intros a _. unfold deriv0. cbn [deriv].
        destruct (deriv_defined d (delta a) t _ E1') as [p1 ->]. reflexivity.
      - destruct n as [|p].
        + inversion H. symmetry. apply (fsumL_zero (fun a => ev (d a))).
        + destruct (deriv d t) as [h1|] eqn:E1'; try discriminate. inversion H.
          cbn [vev]. rewrite (IHt _ eq_refl) by auto.
          rewrite (fsumL_lin1 (fun x => phi (Zpos p) * pw (ev t) (N.to_nat (Pos.pred_N p)) * x)); try (intros; ring).
          apply fsumL_ext. intros a _. unfold deriv0. cbn [deriv].
          destruct (deriv_defined d (delta a) t _ E1') as [p1 ->]. reflexivity.
      - destruct (deriv d t) as [h1|] eqn:E1'; try discriminate.
        assert (IH := IHt _ eq_refl HL).
        destruct f; inversion H; cbn [vev]; rewrite IH.
        + rewrite (fsumL_lin1 (fun x => E Fcos (ev t) * x)); try (intros; ring).
          apply fsumL_ext. intros a _. unfold deriv0. cbn [deriv].
          destruct (deriv_defined d (delta a) t _ E1') as [p1 ->]. reflexivity.
        + rewrite (fsumL_lin1 (fun x => - (E Fsin (ev t) * x))); try (intros; ring).
          apply fsumL_ext. intros a _. unfold deriv0. cbn [deriv].
          destruct (deriv_defined d (delta a) t _ E1') as [p1 ->]. reflexivity.
        + rewrite (fsumL_lin1 (fun x => (phi 1 + E Ftan (ev t) * E Ftan (ev t)) * x)); try (intros; ring).
          apply fsumL_ext. intros a _. unfold deriv0. cbn [deriv].
          destruct (deriv_defined d (delta a) t _ E1') as [p1 ->]. reflexivity.
        + rewrite (fsumL_lin1 (fun x => E Fexp (ev t) * x)); try (intros; ring).
          apply fsumL_ext. intros a _. unfold deriv0. cbn [deriv].
          destruct (deriv_defined d (delta a) t _ E1') as [p1 ->]. reflexivity.
        + rewrite (fsumL_lin1 (fun x => x / ev t)); try (intros; rewrite !(Fdiv_def Fth); ring).
          apply fsumL_ext. intros a _. unfold deriv0. cbn [deriv].
          destruct (deriv_defined d (delta a) t _ E1') as [p1 ->]. reflexivity.
        + rewrite (fsumL_lin1 (fun x => x / (phi 2 * E Fsqrt (ev t)))); try (intros; rewrite !(Fdiv_def Fth); ring).
          apply fsumL_ext. intros a _. unfold deriv0. cbn [deriv].
          destruct (deriv_defined d (delta a) t _ E1') as [p1 ->]. reflexivity.
      - destruct (deriv d t1) as [h1|] eqn:E1', (deriv d t2) as [h2|] eqn:E2; try discriminate. inversion H.
        cbn [vev]. rewrite (IHt1 _ eq_refl), (IHt2 _ eq_refl); try (intros; apply HL; apply in_or_app; auto).
        rewrite (fsumL_lin2 (fun x y => P (ev t1) (ev t2) * (y * E Flog (ev t1) + ev t2 * x / ev t1)));
          try (intros; rewrite !(Fdiv_def Fth); ring).
        apply fsumL_ext. intros a _. unfold deriv0. cbn [deriv].
        destruct (deriv_defined d (delta a) t1 _ E1') as [p1 ->], (deriv_defined d (delta a) t2 _ E2) as [p2 ->]. reflexivity.
    Qed.

    Lemma sum_delta_in (g : atom -> F) b : NoDup L -> In b L -> fsumL (fun a => ev (delta a b) * g a) L = g b.
    Proof.
      induction L as [|a r IH]; intros Hd Hi; [contradiction|]. inversion Hd as [|? ? Hn Hd']; subst. simpl.
      unfold delta at 1. destruct (atom_eqb a b) eqn:Eab.
      - apply atom_eqb_eq in Eab. subst a.
        assert (Z : fsumL (fun a => ev (delta a b) * g a) r = 0).
        { clear -Hn Fth. induction r as [|x r IHr]; simpl; auto.
          unfold delta at 1. destruct (atom_eqb x b) eqn:Exb.
          - apply atom_eqb_eq in Exb. subst x. exfalso. apply Hn. now left.
          - rewrite IHr by (intros Hx; apply Hn; now right). change (ev Zero) with 0. ring. }
        rewrite Z. change (ev One) with 1. ring.
      - destruct Hi as [->|Hi]; [rewrite atom_eqb_refl in Eab; discriminate|].
        rewrite IH by auto. change (ev Zero) with 0. ring.
    Qed.

    Lemma sum_delta_notin (g : atom -> F) b : ~ In b L -> fsumL (fun a => ev (delta a b) * g a) L = 0.
    Proof.
      induction L as [|a r IH]; intros Hn; simpl; auto.
      unfold delta at 1. destruct (atom_eqb a b) eqn:Eab.
      - apply atom_eqb_eq in Eab. subst a. exfalso. apply Hn. now left.
      - rewrite IH by (intros Hx; apply Hn; now right). change (ev Zero) with 0. ring.
    Qed.
  End Gateaux.

  Lemma adedup_in x l : In x (adedup l) <-> In x l.
  Proof.
    induction l as [|y r IH]; simpl; [tauto|].
    destruct (existsb (atom_eqb y) (adedup r)) eqn:Ex.
    - apply existsb_exists in Ex. destruct Ex as [z [Hz Ez]]. apply atom_eqb_eq in Ez. subst z.
      rewrite IH. split; [tauto|]. intros [->|H]; auto. now apply IH.
    - simpl. rewrite IH. tauto.
  Qed.

  Lemma adedup_nodup l : NoDup (adedup l).
  Proof.
    induction l as [|y r IH]; simpl; [constructor|].
    destruct (existsb (atom_eqb y) (adedup r)) eqn:Ex; auto.
    constructor; auto. intros Hi.
    assert (existsb (atom_eqb y) (adedup r) = true).
    { apply existsb_exists. exists y. split; auto. apply atom_eqb_refl. }
    congruence.
  Qed.

  Theorem gateaux_value rho s e g h : gateaux s e = Some g -> fwd s e = Some h -> vv rho g = vv rho h.
  Proof.
    unfold gateaux, fwd. intros Hg Hh.
    set (L := field_atoms s e) in *.
    rewrite (deriv_linear rho (dir_atom s) L e h Hh).
    - clear Hh. revert g Hg. induction L as [|a r IH]; intros g Hg; cbn [map osum] in Hg.
      + inversion Hg. reflexivity.
      + destruct (pdiff a e) as [p|] eqn:Ep; [|discriminate].
        destruct (osum (map (fun a0 => option_map (fun d => TMul d (dir_atom s a0)) (pdiff a0 e)) r)) as [g'|] eqn:Eo;
          [|discriminate].
        cbn [option_map omap2] in Hg. inversion Hg. cbn [vev fsumL]. rewrite (IH g' eq_refl).
        assert (Hd0 : deriv0 (delta a) e = p) by (unfold deriv0, delta; unfold pdiff in Ep; now rewrite Ep).
        rewrite Hd0. reflexivity.
    - intros b Hb. unfold L, field_atoms.
      destruct (varied s b) eqn:Ev.
      + rewrite sum_delta_in; auto; [apply adedup_nodup|].
        apply adedup_in. apply filter_In. auto.
      + rewrite sum_delta_notin.
        * destruct b; simpl in *; try reflexivity. destruct (dlookup s f); [discriminate|reflexivity].
        * intros Hi. apply (proj1 (adedup_in _ _)) in Hi. apply filter_In in Hi. destruct Hi. congruence.
  Qed.

  (* ---------------------------------------------------------------- 4'. the polynomial arm, through the dual numbers *)
  Section LinPoly.
    Hypothesis char0 : forall p : positive, phi (Zpos p) <> 0.
    Notation qc := (qcF F f0 f1 fadd fmul fopp fdiv).
    Definition qcd (q : Q) : D := (qc q, 0).
    Notation mevF := (meval F f1 fmul).
    Notation pevF := (peval F f0 f1 fadd fmul qc).
    Notation mevD := (meval D d1 dmul).
    Notation pevD := (peval D d0 d1 dadd dmul qcd).

    Lemma qcd_eq a b : (a == b)%Q -> qcd a = qcd b.
    Proof. intros H. unfold qcd. now rewrite (qcF_eq F _ _ _ _ _ _ _ _ Fth char0 a b H). Qed.
    Lemma qcd_add a b : qcd (a + b)%Q = dadd (qcd a) (qcd b).
    Proof. apply dual_eq; simpl; [apply (qcF_add F _ _ _ _ _ _ _ _ Fth char0)|ring]. Qed.
    Lemma qcd_mul a b : qcd (a * b)%Q = dmul (qcd a) (qcd b).
    Proof. apply dual_eq; simpl; [apply (qcF_mul F _ _ _ _ _ _ _ _ Fth char0)|ring]. Qed.
    Lemma qcd_0 : qcd 0%Q = d0.
    Proof. apply dual_eq; simpl; auto. apply (qcF_0 F _ _ _ _ _ _ _ _ Fth). Qed.
    Lemma qcd_1 : qcd 1%Q = d1.
    Proof. apply dual_eq; simpl; auto. apply (qcF_1 F _ _ _ _ _ _ _ _ Fth). Qed.

    Lemma gev_dvev rd t : gev D d1 dadd dmul dsub dopp qcd (dv rd) t = dv rd t.
    Proof.
      unfold dvev.
      induction t; cbn [gev vev]; rewrite ?IHt, ?IHt1, ?IHt2; auto.
      - unfold qcd. rewrite (qcF_Z F _ _ _ _ _ _ _ _ Fth). reflexivity.
      - apply dual_eq; simpl.
        + unfold qcF. simpl. rewrite (Fdiv_def Fth). reflexivity.
        + rewrite !(Fdiv_def Fth). ring.
    Qed.

    Theorem dual_expand rd t :
      pevD (map (dv rd) (table t)) (expand (table t) t) = dv rd t.
    Proof.
      rewrite <- gev_dvev.
      apply (expand_sound D d0 d1 dadd dmul dsub dopp dual_ring qcd qcd_eq qcd_add qcd_mul qcd_0 qcd_1).
      intros k Hk. unfold table. now apply dedup_in.
    Qed.

    (* values of polynomials written back as terminal expressions *)
    Variable rho : atom -> F.
    Notation ev := (vv rho).

    Lemma qtexpr_ev c : ev (qtexpr c) = qc c.
    Proof.
      unfold qtexpr, qcF. destruct (Pos.eqb (Qden c) 1) eqn:Eq; simpl; auto.
      apply Pos.eqb_eq in Eq. rewrite Eq. simpl. field. apply (F_1_neq_0 Fth).
    Qed.

    Lemma mono_texpr_ev tb : forall m, ev (mono_texpr tb m) = mevF (map ev tb) m.
    Proof.
      induction tb as [|k tb IH]; intros [|e m]; simpl; auto.
      rewrite IH, Nat2N.id. reflexivity.
    Qed.

    Lemma poly_texpr_ev tb p : ev (poly_texpr tb p) = pevF (map ev tb) p.
    Proof.
      induction p as [|[c m] r IH]; simpl; auto. rewrite IH, qtexpr_ev, mono_texpr_ev. reflexivity.
    Qed.

    (* the keys of the polynomial fragment in the dual numbers: eps is (0,1), the others have no eps part *)
    Fixpoint dualize (bs : list bool) (vals : list F) : list D :=
      match bs, vals with
      | b :: bs', v :: vs => (if b then (0, 1) else (v, 0)) :: dualize bs' vs
      | _, _ => []
      end.

    Lemma dpw_eps k : dpw (0, 1) k = match k with O => (1, 0) | S O => (0, 1) | _ => (0, 0) end.
    Proof.
      destruct k as [|[|k]]; try reflexivity.
      - apply dual_eq; simpl; ring.
      - induction k.
        + apply dual_eq; simpl; ring.
        + change (dpw (0, 1) (S (S (S k)))) with (dmul (0, 1) (dpw (0, 1) (S (S k)))). rewrite IHk.
          apply dual_eq; simpl; ring.
    Qed.

    Lemma dpw_flat v k : dpw (v, 0) k = (pw v k, 0).
    Proof. induction k; simpl; auto. rewrite IHk. apply dual_eq; simpl; ring. Qed.

    Lemma meval_dual : forall bs vals m, length bs = length vals -> length m = length vals ->
      mevD (dualize bs vals) m =
      (if Nat.eqb (edeg bs m) 0 then mevF vals (strip bs m) else 0,
       if Nat.eqb (edeg bs m) 1 then mevF vals (strip bs m) else 0).
    Proof.
      unfold edeg.
      induction bs as [|b bs IH]; intros [|v vs] [|e m] L1 L2; simpl in L1, L2; try discriminate; try reflexivity.
      cbn [dualize emask strip meval]. rewrite msum_cons.
      rewrite (IH vs m) by lia.
      destruct b.
      - rewrite dpw_eps. destruct e as [|[|e]].
        + simpl. apply dual_eq; simpl; destruct (Nat.eqb (msum (emask bs m)) 0), (Nat.eqb (msum (emask bs m)) 1); ring.
        + replace (Nat.eqb (1 + msum (emask bs m)) 0) with false by (symmetry; apply Nat.eqb_neq; lia).
          replace (Nat.eqb (1 + msum (emask bs m)) 1) with (Nat.eqb (msum (emask bs m)) 0)
            by (destruct (msum (emask bs m)); reflexivity).
          apply dual_eq; simpl; destruct (Nat.eqb (msum (emask bs m)) 0), (Nat.eqb (msum (emask bs m)) 1); ring.
        + replace (Nat.eqb (S (S e) + msum (emask bs m)) 0) with false by (symmetry; apply Nat.eqb_neq; lia).
          replace (Nat.eqb (S (S e) + msum (emask bs m)) 1) with false by (symmetry; apply Nat.eqb_neq; lia).
          apply dual_eq; simpl; ring.
      - rewrite dpw_flat. simpl.
        apply dual_eq; simpl; destruct (Nat.eqb (msum (emask bs m)) 0), (Nat.eqb (msum (emask bs m)) 1); ring.
    Qed.

    Lemma peval_dual bs vals p : length bs = length vals -> wf (length vals) p ->
      snd (pevD (dualize bs vals) p) = pevF vals (eps_coeff1 bs p).
    Proof.
      intros L1 Hw. unfold eps_coeff1.
      induction p as [|[c m] r IH]; simpl; auto.
      inversion Hw as [|? ? Lm Hw']; subst. simpl in Lm.
      rewrite (IH Hw'), (meval_dual bs vals m L1 Lm).
      destruct (Nat.eqb (edeg bs m) 1); simpl; ring.
    Qed.

    Variable eps : string.
    Variable s : dirmap.
    Notation r0 := (rho0 F f0 eps rho).
    Definition tau_eps (a : atom) : F :=
      match a with AConst n => if String.eqb n eps then 1 else 0 | _ => 0 end.
    Definition rd_eps : atom -> D := fun a => (r0 a, tau_eps a).

    (* an expression without eps has no eps part *)
    Lemma dual_flat t : has_const eps t = false -> dv rd_eps t = (ev t, 0).
    Proof.
      unfold dvev.
      induction t; cbn [has_const vev]; intros H;
        repeat match goal with
               | H : _ || _ = false |- _ => apply orb_false_iff in H; destruct H
               end; rewrite ?IHt, ?IHt1, ?IHt2 by auto; try reflexivity.
      - apply dual_eq; simpl; rewrite ?(Fdiv_def Fth); ring.
      - unfold rd_eps, rho0, tau_eps. destruct a; auto. now rewrite H.
      - apply dual_eq; simpl; ring.
      - apply dual_eq; simpl; ring.
      - apply dual_eq; simpl; ring.
      - apply dual_eq; simpl; rewrite ?(Fdiv_def Fth); ring.
      - apply dual_eq; simpl; ring.
      - apply dual_eq; simpl; rewrite ?(Fdiv_def Fth); ring.
      - apply dpw_flat.
      - apply dual_eq; simpl; ring.
      - apply dual_eq; simpl; rewrite ?(Fdiv_def Fth); ring.
    Qed.

    Lemma keys_dual tb : poly_guard eps tb = true ->
      map (dv rd_eps) tb = dualize (map (texpr_eqb (eps_atom eps)) tb) (map ev tb).
    Proof.
      unfold poly_guard. induction tb as [|k tb IH]; cbn [forallb map dualize]; intros H; auto.
      apply andb_true_iff in H. destruct H as [Hk H]. rewrite (IH H). f_equal.
      destruct (texpr_eqb (eps_atom eps) k) eqn:Ek.
      - apply texpr_eqb_eq in Ek. subst k. unfold dvev, eps_atom. simpl. unfold rd_eps, rho0, tau_eps.
        rewrite String.eqb_refl. reflexivity.
      - simpl in Hk. apply negb_true_iff in Hk. now apply dual_flat.
    Qed.

    Lemma deriv_subst_defined d1 d2 t : forall h, deriv d1 t = Some h ->
      exists t', deriv d2 (subst_eps eps s t) = Some t'.
    Proof.
      induction t; cbn [deriv subst_eps]; intros h H; eauto.
      - destruct (varied s a); cbn [deriv eps_atom]; eauto.
        destruct (deriv_dir d2 s a) as [x ->]. simpl. eauto.
      - destruct (deriv d1 t1), (deriv d1 t2); try discriminate.
        destruct (IHt1 _ eq_refl) as [x1 ->], (IHt2 _ eq_refl) as [x2 ->]. simpl. eauto.
      - destruct (deriv d1 t1), (deriv d1 t2); try discriminate.
        destruct (IHt1 _ eq_refl) as [x1 ->], (IHt2 _ eq_refl) as [x2 ->]. simpl. eauto.
      - destruct (deriv d1 t1), (deriv d1 t2); try discriminate.
        destruct (IHt1 _ eq_refl) as [x1 ->], (IHt2 _ eq_refl) as [x2 ->]. simpl. eauto.
      - destruct (deriv d1 t1), (deriv d1 t2); try discriminate.
        destruct (IHt1 _ eq_refl) as [x1 ->], (IHt2 _ eq_refl) as [x2 ->]. simpl. eauto.
      - destruct (deriv d1 t); try discriminate. destruct (IHt _ eq_refl) as [x ->]. simpl. eauto.
      - destruct (deriv d1 t); try discriminate. destruct (IHt _ eq_refl) as [x ->]. simpl. eauto.
      - destruct n; eauto. destruct (deriv d1 t); try discriminate. destruct (IHt _ eq_refl) as [x ->]. simpl. eauto.
      - destruct (deriv d1 t); try discriminate. destruct (IHt _ eq_refl) as [x ->].
        destruct f; try discriminate; eauto.
      - destruct (deriv d1 t1), (deriv d1 t2); try discriminate.
        destruct (IHt1 _ eq_refl) as [x1 ->], (IHt2 _ eq_refl) as [x2 ->]. simpl. eauto.
    Qed.

    Lemma vdef_subst t : has_const eps t = false -> vdef rho t -> vdef r0 (subst_eps eps s t).
    Proof.
      induction t; cbn [has_const subst_eps vdef]; intros H Hd;
        repeat match goal with
               | H : _ || _ = false |- _ => apply orb_false_iff in H; destruct H
               end; try tauto.
      - destruct (varied s a); simpl; auto. repeat split; auto.
        destruct a; simpl; auto. destruct (dlookup s f); simpl; auto.
      - destruct Hd as (D1 & D2 & Hn). repeat split; auto.
        rewrite (subst_eps_ev0 F f0 f1 fadd fmul fsub fopp fdiv finv Fth E P eps s rho t2); auto.
      - destruct Hd as (D1 & Hn). split; auto.
        rewrite (subst_eps_ev0 F f0 f1 fadd fmul fsub fopp fdiv finv Fth E P eps s rho t); auto.
    Qed.

    Theorem lin_poly_sound e r h : has_const eps e = false -> vdef rho e ->
      lin_poly eps s e = Some r -> fwd s e = Some h -> ev r = ev h.
    Proof.
      intros Hc Hd Hl Hf. unfold lin_poly in Hl.
      set (e1 := subst_eps eps s e) in *. set (tb := table e1) in *.
      destruct (poly_guard eps tb) eqn:Eg; [|discriminate]. inversion Hl. subst r. clear Hl.
      rewrite poly_texpr_ev.
      rewrite <- (peval_dual (map (texpr_eqb (eps_atom eps)) tb) (map ev tb));
        [|now rewrite !map_length|rewrite map_length; apply expand_wf].
      rewrite <- (keys_dual tb Eg). unfold tb. rewrite dual_expand.
      destruct (deriv_subst_defined (dir_atom s) (fun b => if atom_eqb (AConst eps) b then One else Zero) e h Hf) as [t' Ht'].
      fold e1 in Ht'.
      rewrite (dual_sound (fun b => if atom_eqb (AConst eps) b then One else Zero) r0 tau_eps) with (t' := t').
      - simpl.
        destruct (pdiff_subst_eps F f0 f1 fadd fmul fsub fopp fdiv finv Fth E P eps s rho e Hc t' Ht') as [h' [Hh' V]].
        rewrite V. congruence.
      - intros a. unfold tau_eps. destruct a; simpl; try reflexivity.
        rewrite String.eqb_sym. destruct (String.eqb name eps); reflexivity.
      - exact Ht'.
      - now apply vdef_subst.
    Qed.
  End LinPoly.
End DualNumbers.


(* ================================================================= 5. assembled statements *)
Section Final.
  Variable F : Type.
  Variables (f0 f1 : F) (fadd fmul fsub : F -> F -> F) (fopp : F -> F) (fdiv : F -> F -> F) (finv : F -> F).
  Hypothesis Fth : field_theory f0 f1 fadd fmul fsub fopp fdiv finv (@eq F).
  Notation phi := (phi F f0 f1 fadd fmul fopp).
  Hypothesis char0 : forall p : positive, phi (Zpos p) <> f0.
  Variable E : fname -> F -> F.
  Variable P : F -> F -> F.
  Add Field FF3 : Fth.
  Notation vv := (vev F f1 fadd fmul fsub fopp fdiv finv phi E P).

  (* the derivatives of the elementary functions (first-order expansion coefficients) *)
  Definition E1tab (f : fname) (a : F) : F :=
    match f with
    | Fsin => E Fcos a
    | Fcos => fopp (E Fsin a)
    | Ftan => fadd f1 (fmul (E Ftan a) (E Ftan a))
    | Fexp => E Fexp a
    | Flog => finv a
    | Fsqrt => finv (fmul (phi 2) (E Fsqrt a))
    | _ => f0
    end.

  Notation dv := (dvev F f0 f1 fadd fmul fsub fopp fdiv finv phi E E1tab P).
  Notation vd := (vdef F f0 f1 fadd fmul fsub fopp fdiv finv E P).

  (* forward-mode correctness over the dual numbers, for any derivatives of the atoms *)
  Theorem teval_dual datom rho tau t t' :
    (forall a, vv rho (datom a) = tau a) -> deriv datom t = Some t' -> vd rho t ->
    dv (fun a => (rho a, tau a)) t = (vv rho t, vv rho t').
  Proof.
    intros. apply (dual_sound F f0 f1 fadd fmul fsub fopp fdiv finv Fth E P E1tab (fun _ => eq_refl) (fun _ => eq_refl)
                     (fun _ => eq_refl) (fun _ => eq_refl) (fun _ => eq_refl) (fun _ => eq_refl) datom rho tau); auto.
  Qed.

  (* u -> u + eps du : every atom D^al u is read as (D^al u, D^al du) *)
  Theorem gateaux_dual s rho e g h : gateaux s e = Some g -> fwd s e = Some h -> vd rho e ->
    dv (fun a => (rho a, vv rho (dir_atom s a))) e = (vv rho e, vv rho g).
  Proof.
    intros Hg Hh Hd. rewrite (gateaux_value F f0 f1 fadd fmul fsub fopp fdiv finv Fth E P rho s e g h Hg Hh).
    apply teval_dual with (datom := dir_atom s); auto.
  Qed.

  Theorem lin_integrand_sound eps s rho e r h : has_const eps e = false ->
    lin_integrand eps s e = Some r -> fwd s e = Some h -> vv rho r = vv rho h.
  Proof.
    intros Hc Hl Hf. unfold lin_integrand in Hl.
    destruct (lin_series_sound F f0 f1 fadd fmul fsub fopp fdiv finv Fth E P eps s rho e r Hc Hl) as [h' [Hh' V]].
    congruence.
  Qed.

  (* the expansion / eps^1-coefficient arm (the polynomial fragment of the former series-based code) agrees *)
  Theorem lin_poly_agrees eps s rho e r r' h : has_const eps e = false -> vd rho e ->
    lin_poly eps s e = Some r -> lin_integrand eps s e = Some r' -> fwd s e = Some h -> vv rho r = vv rho r'.
  Proof.
    intros Hc Hd Hp Hl Hf. rewrite (lin_integrand_sound eps s rho e r' h Hc Hl Hf).
    apply (lin_poly_sound F f0 f1 fadd fmul fsub fopp fdiv finv Fth E P E1tab (fun _ => eq_refl) (fun _ => eq_refl)
             (fun _ => eq_refl) (fun _ => eq_refl) (fun _ => eq_refl) (fun _ => eq_refl) char0 rho eps s e r h); auto.
  Qed.

  Theorem lin_integrand_gateaux eps s rho e r g h : has_const eps e = false ->
    lin_integrand eps s e = Some r -> gateaux s e = Some g -> fwd s e = Some h -> vv rho r = vv rho g.
  Proof.
    intros Hc Hl Hg Hf. rewrite (lin_integrand_sound eps s rho e r h); auto.
    symmetry. eapply gateaux_value; eauto.
  Qed.

  (* the auxiliary name does not matter *)
  Theorem lin_name_independent eps1 eps2 s rho e r1 r2 h :
    has_const eps1 e = false -> has_const eps2 e = false -> fwd s e = Some h ->
    lin_integrand eps1 s e = Some r1 -> lin_integrand eps2 s e = Some r2 -> vv rho r1 = vv rho r2.
  Proof.
    intros. rewrite (lin_integrand_sound eps1 s rho e r1 h), (lin_integrand_sound eps2 s rho e r2 h); auto.
  Qed.

  (* ---------------------------------------------------------------- vanishing integrals *)
  Lemma nf_zero_nil p : nf p -> (forall m, (coefsum m p == 0)%Q) -> p = [].
  Proof.
    intros [Hd Hz] H. destruct p as [|[c m] r]; auto. exfalso.
    inversion Hd as [|? ? Hn _]; subst. inversion Hz as [|? ? Hc _]; subst. simpl in Hc.
    specialize (H m). simpl in H. rewrite mono_eqb_refl in H.
    rewrite (coefsum_notin m r Hn) in H. apply Hc. rewrite <- H. ring.
  Qed.

  Lemma is_zero_expr_sound rho t : is_zero_expr t = true -> vv rho t = f0.
  Proof.
    unfold is_zero_expr. intros H.
    rewrite <- (vev_expand F f0 f1 fadd fmul fsub fopp fdiv finv Fth char0 E P rho t).
    assert (Hn : pnorm (expand (table t) t) = []).
    { apply nf_zero_nil; [apply pnorm_nf|]. intros m. rewrite coefsum_pnorm. now apply pzero_spec. }
    rewrite <- (peval_pnorm F f0 f1 fadd fmul fsub fopp (F_R Fth) _
                  (qcF_eq F _ _ _ _ _ _ _ _ Fth char0) (qcF_add F _ _ _ _ _ _ _ _ Fth char0) (qcF_0 F _ _ _ _ _ _ _ _ Fth)).
    rewrite Hn. reflexivity.
  Qed.

  (* ---------------------------------------------------------------- forms *)
  (* what linearize returns, integral by integral: the integrand is replaced by an expression with the value of
     its directional derivative, or the integral is dropped and that derivative vanishes *)
  Inductive lin_rel (s : dirmap) (rho : atom -> F) : form -> form -> Prop :=
  | lin_nil : lin_rel s rho [] []
  | lin_keep r e d h f parts : fwd s e = Some h -> vv rho d = vv rho h -> lin_rel s rho f parts ->
                               lin_rel s rho ((r, e) :: f) ((r, d) :: parts)
  | lin_skip r e h f parts : fwd s e = Some h -> vv rho h = f0 -> lin_rel s rho f parts ->
                             lin_rel s rho ((r, e) :: f) parts.

  Definition form_ok (eps : string) (s : dirmap) (rho : atom -> F) (f : form) : Prop :=
    Forall (fun re => has_const eps (snd re) = false /\ exists h, fwd s (snd re) = Some h) f.

  Theorem lin_parts_sound eps s rho f : forall parts, form_ok eps s rho f ->
    lin_parts eps s f = Some parts -> lin_rel s rho f parts.
  Proof.
    induction f as [|[r e] f IH]; intros parts Hok H; simpl in H.
    - inversion H. constructor.
    - inversion Hok as [|? ? (Hc & [h Hh]) Hok']; subst. simpl in *.
      destruct (lin_integrand eps s e) as [d|] eqn:El; [|discriminate].
      destruct (lin_parts eps s f) as [rest|] eqn:Er; [|discriminate].
      pose proof (lin_integrand_sound eps s rho e d h Hc El Hh) as V.
      destruct (is_zero_expr d) eqn:Ez; inversion H; subst.
      + apply (lin_skip s rho r e h); auto. rewrite <- V. now apply is_zero_expr_sound.
      + apply (lin_keep s rho r e d h); auto.
  Qed.

  Theorem model_linearize_sound eps s rho f parts : form_ok eps s rho f ->
    model_linearize eps s f = LOk parts -> lin_rel s rho f parts.
  Proof.
    unfold model_linearize. intros Hok H.
    destruct (lin_parts eps s f) as [p|] eqn:E'; try discriminate. inversion H. subst.
    now apply lin_parts_sound with (eps := eps).
  Qed.

  Lemma lin_parts_total eps s rho f : form_ok eps s rho f -> exists parts, lin_parts eps s f = Some parts.
  Proof.
    induction f as [|[r e] f IH]; intros Hok; simpl; eauto.
    inversion Hok as [|? ? (Hc & [h Hh]) Hok']; subst. simpl in *.
    destruct (IH Hok') as [rest ->]. unfold lin_integrand.
    destruct (lin_series_total eps s e h Hh) as [d ->]. eauto.
  Qed.

  (* linearize always returns a form: integral by integral the directional derivative, the zero form ([]) exactly
     when every integral is dropped, i.e. every derivative vanishes *)
  Theorem model_linearize_total eps s rho f : form_ok eps s rho f ->
    exists parts, model_linearize eps s f = LOk parts /\ lin_rel s rho f parts.
  Proof.
    intros Hok. destruct (lin_parts_total eps s rho f Hok) as [parts Hp].
    exists parts. split.
    - unfold model_linearize. now rewrite Hp.
    - now apply lin_parts_sound with (eps := eps).
  Qed.

  (* Newton: (linearised form, negated form) *)
  Theorem model_newton_spec eps s rho f lhs rhs : model_newton eps s f = NOk lhs rhs ->
    model_linearize eps s f = LOk lhs /\ lhs <> [] /\
    map fst rhs = map fst f /\
    map (fun re => vv rho (snd re)) rhs = map (fun re => fopp (vv rho (snd re))) f.
  Proof.
    unfold model_newton. destruct (model_linearize eps s f) as [[|x p]| |]; try discriminate.
    intros H. inversion H. subst. repeat split; try discriminate; rewrite map_map; reflexivity.
  Qed.

  (* ... as soon as one integral survives *)
  Theorem model_newton_partial eps s f x parts : model_linearize eps s f = LOk (x :: parts) ->
    model_newton eps s f = NOk (x :: parts) (map (fun re => (fst re, TOpp (snd re))) f).
  Proof. unfold model_newton. now intros ->. Qed.
End Final.

(* history: before 910ffef a form that does not depend on u had no linearisation (reduce(add, []) raised)
   although its Gateaux derivative is the zero form *)
Theorem model_linearize_before_910ffef_refuted :
  exists (s : dirmap) (f : form) g,
    model_linearize_before_910ffef "eps" s f = LEmptyReduce /\ gateaux_form s f = Some g /\
    model_linearize "eps" s f = LOk [].
Proof.
  exists [("u", "du")%string], [(0, TMul (TAt (AFld true "f" 0 SNone [])) (TAt (AFld true "v" 0 SNone [])))].
  eexists. repeat split; vm_compute; reflexivity.
Qed.

(* still open: NewtonIteration of such a form reads `.variables` of the zero form *)
Theorem model_newton_total_refuted :
  exists (s : dirmap) (f : form), model_newton "eps" s f = NZeroFormNoEquation.
Proof.
  exists [("u", "du")%string], [(0, TMul (TAt (AFld true "f" 0 SNone [])) (TAt (AFld true "v" 0 SNone [])))].
  vm_compute. reflexivity.
Qed.

(* ================================================================= 6. in every differential field *)
Section DFieldGateaux.
  Variable S : dfield.
  Notation phiS := (phi (F S) (f0 S) (f1 S) (fadd S) (fmul S) (fopp S)).
  Definition E1S : fname -> F S -> F S := E1tab (F S) (f0 S) (f1 S) (fadd S) (fmul S) (fopp S) (finv S) (E S).
  Definition rhoS : atom -> F S := aev S (fld S).
  Definition vdefS (t : texpr) : Prop :=
    vdef (F S) (f0 S) (f1 S) (fadd S) (fmul S) (fsub S) (fopp S) (fdiv S) (finv S) (E S) (P S) rhoS t.
  Definition dvS (rd : atom -> dual (F S)) (t : texpr) : dual (F S) :=
    dvev (F S) (f0 S) (f1 S) (fadd S) (fmul S) (fsub S) (fopp S) (fdiv S) (finv S) phiS (E S) E1S (P S) rd t.

  (* the dual environment of  u -> u + eps du : the atom D^al u is read as (D^al u, D^al du),
     i.e. the derivations act component-wise on F[eps]/(eps^2) *)
  Lemma dual_env_field s lg f c sd al df : dlookup s f = Some df ->
    (rhoS (AFld lg f c sd al), ev S (dir_atom s (AFld lg f c sd al)))
    = (iterD (F S) (D S) lg 0 al (fld S f c sd), iterD (F S) (D S) lg 0 al (fld S df c sd)).
  Proof. intros H. simpl. rewrite H. reflexivity. Qed.

  Lemma dual_env_other s a : varied s a = false -> ev S (dir_atom s a) = f0 S.
  Proof. destruct a; simpl; try reflexivity. destruct (dlookup s f); [discriminate|reflexivity]. Qed.

  Theorem gateaux_dfield s e g h : gateaux s e = Some g -> fwd s e = Some h -> vdefS e ->
    dvS (fun a => (rhoS a, ev S (dir_atom s a))) e = (ev S e, ev S g).
  Proof.
    intros Hg Hh Hd. rewrite !(ev_vev0 S).
    etransitivity; [|apply (gateaux_dual (F S) _ _ _ _ _ _ _ _ (Fth S) (E S) (P S) s rhoS e g h); auto].
    unfold dvS, dvev. apply vev_ext. intros a. now rewrite (ev_vev0 S).
  Qed.

  Theorem linearize_dfield eps s e r g h : has_const eps e = false ->
    lin_integrand eps s e = Some r -> gateaux s e = Some g -> fwd s e = Some h -> ev S r = ev S g.
  Proof.
    intros Hc Hl Hg Hf. rewrite !(ev_vev0 S).
    apply (lin_integrand_gateaux (F S) _ _ _ _ _ _ _ _ (Fth S) (E S) (P S) eps s rhoS e r g h); auto.
  Qed.
End DFieldGateaux.
