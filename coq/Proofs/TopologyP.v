(* Lemmas about the topology model (C13, C15). *)
From Coq Require Import String Ascii List Bool Arith PeanoNat ZArith Lia Permutation Sorted DecimalNat DecimalString.
From V Require Import Core.StrOrd Core.Canon Model.TopologyM.
Import ListNotations.
Open Scope string_scope.
Open Scope list_scope.
Local Infix "+++" := String.append (right associativity, at level 60).

(* ================================================================ hypotheses, in decidable form *)
Fixpoint no_bar (s : string) : bool :=
  match s with
  | EmptyString => true
  | String c r => negb (Ascii.eqb c "|"%char) && no_bar r
  end.

Definition join_dim (ps : list domain) : nat := match ps with p :: _ => d_dim p | [] => 0 end.
(* the connections of a join call, resolved to faces (what the loop of Domain.join computes first) *)
Definition resolve_all (ps : list domain) (cs : list conn) : res (list (face * face * ornt)) :=
  mapM (resolve_conn ps (by_indices cs) (join_dim ps)) cs.
Definition rminus (x : face * face * ornt) : face := fst (fst x).
Definition rplus (x : face * face * ornt) : face := snd (fst x).
Definition rornt (x : face * face * ornt) : ornt := snd x.
Definition rsides (x : face * face * ornt) : list face := [rminus x; rplus x].
Definition joined_faces (rl : list (face * face * ornt)) : list face := flat_map rsides rl.
Definition all_faces (ps : list domain) : list face := flat_map d_boundary ps.

(* == on faces is Leibniz equality and str is injective, on a given family *)
Definition fwf (l : list face) : Prop := wf face_pyeqb face_str l.
Definition fwf_b (l : list face) : bool :=
  forallb (fun a => forallb (fun b =>
     Bool.eqb (face_pyeqb a b) (face_beq a b)
     && implb (String.eqb (face_str a) (face_str b)) (face_beq a b)) l) l.
Definition pwf (l : list patch) : Prop := wf patch_pyeqb pname l.
Definition pwf_b (l : list patch) : bool :=
  forallb (fun a => forallb (fun b => Bool.eqb (patch_pyeqb a b) (patch_beq a b)) l) l.

Fixpoint fnodup_b (l : list face) : bool :=
  match l with [] => true | f :: r => negb (existsb (face_beq f) r) && fnodup_b r end.

Definition rnames (x : face * face * ornt) : string * string :=
  (pname (f_patch (rminus x)), pname (f_patch (rplus x))).
(* the connection joins the patches named a and b (in either order) *)
Definition upair_eqb (a b : string) (x : face * face * ornt) : bool :=
  (String.eqb (fst (rnames x)) a && String.eqb (snd (rnames x)) b)
  || (String.eqb (fst (rnames x)) b && String.eqb (snd (rnames x)) a).
Definition pair_cap (a b : string) : nat := if String.eqb a b then 1 else 2.
(* at most two connections per unordered pair of distinct patches, at most one per self pair *)
Definition pair_bound (rl : list (face * face * ornt)) : Prop :=
  forall a b, length (filter (upair_eqb a b) rl) <= pair_cap a b.
Definition pair_bound_rl_b (rl : list (face * face * ornt)) : bool :=
  forallb (fun x => Nat.leb (length (filter (upair_eqb (fst (rnames x)) (snd (rnames x))) rl))
                            (pair_cap (fst (rnames x)) (snd (rnames x)))) rl.

Definition wf_join_b (ps : list domain) (cs : list conn) : bool :=
  match resolve_all ps cs with
  | Err _ => false
  | Ok rl =>
      Nat.leb 2 (length ps)
      && fwf_b (all_faces ps ++ joined_faces rl)
      && fnodup_b (joined_faces rl)
      && forallb (fun f => no_bar (pname (f_patch f))) (joined_faces rl)
      && pwf_b (flat_map d_interiors ps)
  end.
Definition pair_bound_b (ps : list domain) (cs : list conn) : bool :=
  match resolve_all ps cs with Err _ => false | Ok rl => pair_bound_rl_b rl end.

(* ================================================================ basic facts *)
Lemma bind_ok {A B} (r : res A) (f : A -> res B) b :
  bind r f = Ok b -> exists a, r = Ok a /\ f a = Ok b.
Proof. destruct r; simpl; [eauto|discriminate]. Qed.

Lemma list_beq_eq {A} (f : A -> A -> bool) :
  (forall a b, f a b = true <-> a = b) -> forall l l', list_beq f l l' = true <-> l = l'.
Proof.
  intros H. induction l as [|x l IH]; destruct l' as [|y l']; simpl; split; try congruence; try discriminate.
  - rewrite andb_true_iff, H, IH. intros [-> ->]. reflexivity.
  - intros E. inversion E; subst. rewrite andb_true_iff, H, IH. auto.
Qed.

Lemma opt_beq_eq {A} (f : A -> A -> bool) :
  (forall a b, f a b = true <-> a = b) -> forall x y, opt_beq f x y = true <-> x = y.
Proof.
  intros H [a|] [b|]; simpl; split; try congruence; try discriminate.
  - rewrite H. congruence.
  - intros E. inversion E. now apply H.
Qed.

Lemma patch_beq_eq p q : patch_beq p q = true <-> p = q.
Proof.
  destruct p as [n1 m1 d1 a1 b1], q as [n2 m2 d2 a2 b2]. unfold patch_beq; simpl.
  rewrite !andb_true_iff, String.eqb_eq, (opt_beq_eq String.eqb String.eqb_eq), Nat.eqb_eq,
    !(list_beq_eq String.eqb String.eqb_eq).
  split; [intros [[[[-> ->] ->] ->] ->]; reflexivity|intros E; inversion E; auto].
Qed.

Lemma face_beq_eq f g : face_beq f g = true <-> f = g.
Proof.
  destruct f as [p a e], g as [q b e']. unfold face_beq; simpl.
  rewrite !andb_true_iff, patch_beq_eq, Nat.eqb_eq, Z.eqb_eq.
  split; [intros [[-> ->] ->]; reflexivity|intros E; inversion E; auto].
Qed.

Lemma fwf_b_sound l : fwf_b l = true -> fwf l.
Proof.
  unfold fwf_b, fwf, wf. rewrite forallb_forall. intros H. split; intros a b Ha Hb.
  - specialize (H a Ha). rewrite forallb_forall in H. specialize (H b Hb).
    apply andb_true_iff in H. destruct H as [H _]. apply eqb_prop in H. rewrite H. apply face_beq_eq.
  - specialize (H a Ha). rewrite forallb_forall in H. specialize (H b Hb).
    apply andb_true_iff in H. destruct H as [_ H]. intros E.
    apply String.eqb_eq in E. rewrite E in H. simpl in H. now apply face_beq_eq.
Qed.

Lemma pwf_b_names l :
  pwf_b l = true -> forall a b, In a l -> In b l -> (patch_pyeqb a b = true <-> a = b).
Proof.
  unfold pwf_b. rewrite forallb_forall. intros H a b Ha Hb.
  specialize (H a Ha). rewrite forallb_forall in H. specialize (H b Hb).
  apply eqb_prop in H. rewrite H. apply patch_beq_eq.
Qed.

Lemma pwf_b_sound l : pwf_b l = true -> pwf l.
Proof.
  intros H. split; intros a b Ha Hb.
  - now apply (pwf_b_names l H).
  - intros E. apply (pwf_b_names l H a b Ha Hb). unfold patch_pyeqb. now apply String.eqb_eq.
Qed.

Lemma fnodup_b_sound l : fnodup_b l = true -> NoDup l.
Proof.
  induction l as [|f l IH]; simpl; [constructor|].
  rewrite andb_true_iff, negb_true_iff. intros [H1 H2]. constructor; [|auto].
  intros Hin. assert (existsb (face_beq f) l = true); [|congruence].
  apply existsb_exists. exists f. split; [exact Hin|now apply face_beq_eq].
Qed.

(* ---------------------------------------------------------------- interface names *)
Lemma append_nil_r s : s +++ "" = s.
Proof. induction s; simpl; congruence. Qed.

Lemma iname_inj a b c d :
  no_bar a = true -> no_bar c = true -> iname a b = iname c d -> a = c /\ b = d.
Proof.
  unfold iname. revert c. induction a as [|x a IH]; intros [|y c]; simpl.
  - intros _ _ E. inversion E. auto.
  - intros _ H E. inversion E; subst. simpl in H. try rewrite Ascii.eqb_refl in H. discriminate.
  - intros H _ E. inversion E; subst. simpl in H. try rewrite Ascii.eqb_refl in H. discriminate.
  - rewrite !andb_true_iff. intros [_ Ha] [_ Hc] E. inversion E; subst.
    destruct (IH c Ha Hc H1) as [-> ->]. auto.
Qed.

(* ================================================================ the loop of Domain.join *)
Fixpoint build_ifs (rl : list (face * face * ornt)) (ifs : list iface) : res (list iface) :=
  match rl with
  | [] => Ok ifs
  | x :: r => do ifs' <- join_step x ifs; build_ifs r ifs'
  end.

Lemma join_loop_spec ps bi dim : forall cs ifs bnds ifs' bnds',
  join_loop ps bi dim cs ifs bnds = Ok (ifs', bnds') ->
  exists rl, mapM (resolve_conn ps bi dim) cs = Ok rl /\ build_ifs rl ifs = Ok ifs'
             /\ bnds' = bnds ++ joined_faces rl.
Proof.
  induction cs as [|c cs IH]; simpl; intros ifs bnds ifs' bnds' H.
  - inversion H; subst. exists []. simpl. rewrite app_nil_r. auto.
  - apply bind_ok in H. destruct H as [x [Hx H]].
    apply bind_ok in H. destruct H as [ifs1 [Hs H]].
    apply IH in H. destruct H as [rl [Hm [Hb Hn]]].
    exists (x :: rl). rewrite Hx. simpl. rewrite Hm. simpl. rewrite Hs. simpl.
    split; [reflexivity|]. split; [exact Hb|]. rewrite Hn, <- app_assoc. reflexivity.
Qed.

Definition mk_iface (fm fp : face) (o : ornt) : iface :=
  mkIface (iname (pname (f_patch fm)) (pname (f_patch fp))) fm fp o.

Lemma bjoin_ok fm fp o i : bjoin fm fp o = Ok i -> i = mk_iface fm fp o /\ f_axis fm = f_axis fp.
Proof.
  unfold bjoin. destruct (negb (Nat.eqb (p_dim (f_patch fm)) (p_dim (f_patch fp)))); [discriminate|].
  destruct (Nat.eqb (p_dim (f_patch fm)) 3).
  - destruct o; simpl; try discriminate.
    destruct (Nat.eqb (f_axis fm) (f_axis fp)) eqn:E; simpl; [|discriminate].
    intros H. inversion H. apply Nat.eqb_eq in E. auto.
  - simpl. destruct (Nat.eqb (f_axis fm) (f_axis fp)) eqn:E; simpl; [|discriminate].
    intros H. inversion H. apply Nat.eqb_eq in E. auto.
Qed.

Lemma dict_mem_In k l : dict_mem k l = true <-> exists i, In i l /\ i_name i = k.
Proof.
  unfold dict_mem. rewrite existsb_exists. split; intros [i [Hi E]]; exists i; split; auto.
  - now apply String.eqb_eq.
  - now apply String.eqb_eq.
Qed.

Lemma dict_set_fresh i l : dict_mem (i_name i) l = false -> dict_set i l = l ++ [i].
Proof.
  induction l as [|j l IH]; simpl; [reflexivity|].
  rewrite orb_false_iff. intros [H1 H2]. rewrite H1. now rewrite IH.
Qed.

(* the connection x appears as the interface i: with the declared sides, or with the
   sides exchanged (name clash), always with the declared orientation *)
Definition conn_iface (x : face * face * ornt) (i : iface) : Prop :=
  i = mk_iface (rminus x) (rplus x) (rornt x) \/ i = mk_iface (rplus x) (rminus x) (rornt x).

Definition named (a b : string) (i : iface) : bool :=
  String.eqb (i_name i) (iname a b) || String.eqb (i_name i) (iname b a).

Lemma named_upair a b x i :
  no_bar a = true -> no_bar b = true ->
  no_bar (fst (rnames x)) = true -> no_bar (snd (rnames x)) = true ->
  conn_iface x i -> upair_eqb a b x = named a b i.
Proof.
  intros Ha Hb Hc Hd [->| ->]; unfold upair_eqb, named, mk_iface, rnames in *; simpl in *.
  - set (c := pname (f_patch (rminus x))) in *. set (d := pname (f_patch (rplus x))) in *.
    f_equal.
    + destruct (String.eqb_spec (iname c d) (iname a b)) as [E|E].
      * apply iname_inj in E; auto. destruct E as [-> ->]. now rewrite !String.eqb_refl.
      * destruct (String.eqb_spec c a) as [->|]; [|reflexivity].
        destruct (String.eqb_spec d b) as [->|]; [congruence|reflexivity].
    + destruct (String.eqb_spec (iname c d) (iname b a)) as [E|E].
      * apply iname_inj in E; auto. destruct E as [-> ->]. now rewrite !String.eqb_refl.
      * destruct (String.eqb_spec c b) as [->|]; [|reflexivity].
        destruct (String.eqb_spec d a) as [->|]; [congruence|reflexivity].
  - set (c := pname (f_patch (rminus x))) in *. set (d := pname (f_patch (rplus x))) in *.
    rewrite orb_comm. f_equal.
    + destruct (String.eqb_spec (iname d c) (iname a b)) as [E|E].
      * apply iname_inj in E; auto. destruct E as [-> ->]. now rewrite !String.eqb_refl.
      * destruct (String.eqb_spec c b) as [->|]; [|reflexivity].
        destruct (String.eqb_spec d a) as [->|]; [congruence|reflexivity].
    + destruct (String.eqb_spec (iname d c) (iname b a)) as [E|E].
      * apply iname_inj in E; auto. destruct E as [-> ->]. now rewrite !String.eqb_refl.
      * destruct (String.eqb_spec c a) as [->|]; [|reflexivity].
        destruct (String.eqb_spec d b) as [->|]; [congruence|reflexivity].
Qed.

Lemma filter_two {A} (p : A -> bool) (l : list A) x y :
  In x l -> In y l -> x <> y -> p x = true -> p y = true -> 2 <= length (filter p l).
Proof.
  induction l as [|z l IH]; simpl; [tauto|]. intros Hx Hy Hne Px Py.
  assert (Hone : forall w, In w l -> p w = true -> 1 <= length (filter p l)).
  { clear. induction l as [|u l IH]; simpl; [tauto|]. intros w [->|Hw] Pw.
    - rewrite Pw. simpl. lia.
    - destruct (p u); simpl; [lia|eauto]. }
  destruct Hx as [->|Hx], Hy as [->|Hy].
  - congruence.
  - rewrite Px. simpl. specialize (Hone y Hy Py). lia.
  - rewrite Py. simpl. specialize (Hone x Hx Px). lia.
  - specialize (IH Hx Hy Hne Px Py). destruct (p z); simpl; lia.
Qed.

Lemma filter_one {A} (p : A -> bool) (l : list A) x :
  In x l -> p x = true -> 1 <= length (filter p l).
Proof.
  induction l as [|u l IH]; simpl; [tauto|]. intros [->|Hw] Pw.
  - rewrite Pw. simpl. lia.
  - destruct (p u); simpl; [lia|eauto].
Qed.

Lemma Forall2_filter_len {A B} (R : A -> B -> Prop) (p : A -> bool) (q : B -> bool) l l' :
  Forall2 R l l' -> (forall a b, In a l -> R a b -> p a = q b) ->
  length (filter p l) = length (filter q l').
Proof.
  induction 1 as [|a b l l' Hab H IH]; simpl; intros Hpq; [reflexivity|].
  rewrite (Hpq a b (or_introl eq_refl) Hab). destruct (q b); simpl; rewrite IH; auto.
Qed.

Definition rl_no_bar (rl : list (face * face * ornt)) : Prop :=
  forall f, In f (joined_faces rl) -> no_bar (pname (f_patch f)) = true.

Lemma rl_no_bar_names rl x : rl_no_bar rl -> In x rl ->
  no_bar (fst (rnames x)) = true /\ no_bar (snd (rnames x)) = true.
Proof.
  intros H Hx. unfold rnames; simpl. split; apply H; unfold joined_faces; apply in_flat_map;
    exists x; (split; [exact Hx|unfold rsides; simpl; auto]).
Qed.

Lemma NoDup_snoc {A} (l : list A) x : NoDup (l ++ [x]) <-> NoDup l /\ ~ In x l.
Proof.
  assert (P : Permutation (l ++ [x]) (x :: l)) by (symmetry; apply Permutation_cons_append).
  split.
  - intros H. apply (Permutation_NoDup P) in H. inversion H; auto.
  - intros [H1 H2]. apply (Permutation_NoDup (Permutation_sym P)). now constructor.
Qed.

(* Without a third connection between the same two patches (a second one from a patch to itself)
   no dictionary entry is ever overwritten: the loop appends one interface per connection. *)
Lemma build_ifs_spec : forall rl done ifs ifs',
  Forall2 conn_iface done ifs -> NoDup (map i_name ifs) ->
  rl_no_bar (done ++ rl) -> pair_bound (done ++ rl) ->
  build_ifs rl ifs = Ok ifs' ->
  exists new, ifs' = ifs ++ new /\ Forall2 conn_iface rl new /\ NoDup (map i_name ifs').
Proof.
  induction rl as [|x rl IH]; simpl; intros done ifs ifs' HF HN Hnb Hpb H.
  - inversion H; subst. exists []. rewrite app_nil_r. auto.
  - apply bind_ok in H. destruct H as [ifs1 [Hs H]].
    unfold join_step in Hs. destruct x as [[fm fp] o].
    apply bind_ok in Hs. destruct Hs as [i0 [Hi0 Hs]].
    apply bind_ok in Hs. destruct Hs as [i [Hi Hs]]. inversion Hs; subst ifs1; clear Hs.
    apply bjoin_ok in Hi0. destruct Hi0 as [-> Hax].
    set (x := (fm, fp, o)) in *.
    assert (Hxin : In x (done ++ x :: rl)) by (apply in_or_app; right; now left).
    destruct (rl_no_bar_names _ x Hnb Hxin) as [Na Nb]. simpl in Na, Nb.
    set (a := pname (f_patch fm)) in *. set (b := pname (f_patch fp)) in *.
    (* counting: the entries named a|b or b|a are the earlier connections between a and b *)
    assert (Hcount : length (filter (upair_eqb a b) done) = length (filter (named a b) ifs)).
    { apply (Forall2_filter_len conn_iface); [exact HF|]. intros y j Hy Hyj.
      assert (Hyin : In y (done ++ x :: rl)) by (apply in_or_app; now left).
      destruct (rl_no_bar_names _ y Hnb Hyin) as [Nc Nd].
      now apply named_upair. }
    assert (Hcap : length (filter (upair_eqb a b) done) + 1 <= pair_cap a b).
    { specialize (Hpb a b). rewrite filter_app, app_length in Hpb. simpl in Hpb.
      assert (E : upair_eqb a b x = true).
      { unfold upair_eqb, rnames, x; simpl. fold a b. now rewrite !String.eqb_refl. }
      rewrite E in Hpb. simpl in Hpb. lia. }
    (* the chosen name is fresh *)
    assert (Hfresh : dict_mem (i_name i) ifs = false /\ conn_iface x i).
    { destruct (dict_mem (i_name (mk_iface fm fp o)) ifs) eqn:Hm.
      - apply bjoin_ok in Hi. destruct Hi as [-> _]. split; [|right; reflexivity].
        simpl. fold a b. destruct (dict_mem (iname b a) ifs) eqn:Hm2; [|reflexivity]. exfalso.
        simpl in Hm. fold a b in Hm.
        apply dict_mem_In in Hm. destruct Hm as [i1 [Hi1 E1]].
        apply dict_mem_In in Hm2. destruct Hm2 as [i2 [Hi2 E2]].
        unfold pair_cap in Hcap. destruct (String.eqb_spec a b) as [Eab|Nab].
        + assert (1 <= length (filter (named a b) ifs)).
          { apply (filter_one _ _ i1 Hi1). unfold named. rewrite E1, String.eqb_refl. reflexivity. }
          lia.
        + assert (2 <= length (filter (named a b) ifs)).
          { apply (filter_two _ _ i1 i2 Hi1 Hi2).
            - intros ->. rewrite E1 in E2. apply iname_inj in E2; auto. destruct E2; congruence.
            - unfold named. rewrite E1, String.eqb_refl. reflexivity.
            - unfold named. rewrite E2, String.eqb_refl. apply orb_true_r. }
          lia.
      - inversion Hi; subst i. split; [exact Hm|left; reflexivity]. }
    destruct Hfresh as [Hfr Hci].
    rewrite (dict_set_fresh _ _ Hfr) in H.
    apply (IH (done ++ [x]) (ifs ++ [i])) in H.
    + destruct H as [new [-> [HF2 HN2]]]. exists (i :: new). rewrite <- app_assoc. simpl.
      split; [reflexivity|]. split; [constructor; auto|]. now rewrite <- app_assoc in HN2.
    + apply Forall2_app; [exact HF|constructor; [exact Hci|constructor]].
    + rewrite map_app. simpl. apply NoDup_snoc. split; [exact HN|].
      intros Hin. apply in_map_iff in Hin. destruct Hin as [j [Ej Hj]].
      assert (dict_mem (i_name i) ifs = true); [|congruence].
      apply dict_mem_In. exists j. auto.
    + now rewrite <- app_assoc.
    + now rewrite <- app_assoc.
Qed.

(* ================================================================ inversion of a successful join *)
Definition join_boundary (ps : list domain) (rl : list (face * face * ornt)) : list face :=
  match joined_faces rl with
  | [] => canonF (all_faces ps)
  | _ => canonF (filter (fun f => negb (mem face_pyeqb f (canonF (joined_faces rl)))) (canonF (all_faces ps)))
  end.

Definition logical_of (nm : string) (dim : nat) (ints : list patch) (bnd : list face) (lifs : list iface) : domain :=
  mkDomain nm dim (canonP (map lpatch ints)) (canonF (map lface bnd)) lifs MNone None.

Lemma join_inv ps cs nm D :
  2 <= length ps -> join ps cs nm = Ok D ->
  exists rl ifs,
    resolve_all ps cs = Ok rl /\ build_ifs rl [] = Ok ifs /\
    d_name D = nm /\ d_dim D = join_dim ps /\ d_conn D = ifs /\
    d_interiors D = canonP (flat_map d_interiors ps) /\
    d_boundary D = join_boundary ps rl /\
    (forallb is_mapped (d_interiors D) = true ->
       exists lifs, logical_conn ifs [] = Ok lifs /\
         d_logical D = Some (logical_of nm (join_dim ps) (d_interiors D) (d_boundary D) lifs) /\
         d_mapping D = multi_mapping (d_interiors D)) /\
    (forallb is_mapped (d_interiors D) = false -> d_logical D = None /\ d_mapping D = MNone).
Proof.
  destruct ps as [|p0 [|p1 r]]; simpl length; try lia. intros _.
  unfold join. set (ps := p0 :: p1 :: r).
  destruct (negb (forallb (fun p => Nat.eqb (d_dim p) (d_dim p0)) ps)); [discriminate|].
  intros H. apply bind_ok in H. destruct H as [[ifs joined] [Hl H]].
  apply join_loop_spec in Hl. destruct Hl as [rl [Hm [Hb Hj]]]. simpl in Hj. subst joined.
  destruct (existsb (fun p => Nat.ltb (length (d_boundary p)) 2) ps); [discriminate|].
  fold (all_faces ps) in H.
  change (match joined_faces rl with
          | [] => canonF (all_faces ps)
          | _ :: _ => canonF (filter (fun f => negb (mem face_pyeqb f (canonF (joined_faces rl)))) (canonF (all_faces ps)))
          end) with (join_boundary ps rl) in H.
  destruct (Nat.eqb (length (join_boundary ps rl)) 1); [discriminate|].
  destruct (Nat.ltb (length (canonP (flat_map d_interiors ps))) 2); [discriminate|].
  exists rl, ifs. split; [exact Hm|]. split; [exact Hb|].
  destruct (forallb is_mapped (canonP (flat_map d_interiors ps))) eqn:Hmap.
  - apply bind_ok in H. destruct H as [lifs [Hlc H]]. inversion H; subst D; simpl.
    repeat (split; [reflexivity|]). split.
    + intros _. exists lifs. auto.
    + intros Hc. change (forallb is_mapped (canonP (flat_map d_interiors ps)) = false) in Hc. congruence.
  - inversion H; subst D; simpl. repeat (split; [reflexivity|]). split.
    + intros Hc. change (forallb is_mapped (canonP (flat_map d_interiors ps)) = true) in Hc. congruence.
    + auto.
Qed.

(* ---------------------------------------------------------------- membership under well-formedness *)
Lemma fwf_sub l l' : (forall f, In f l' -> In f l) -> fwf l -> fwf l'.
Proof. apply wf_incl. Qed.

Lemma fmem_In l f x : fwf l -> In f l -> (forall y, In y x -> In y l) ->
  (mem face_pyeqb f x = true <-> In f x).
Proof.
  intros [H1 _] Hf Hx. unfold mem. rewrite existsb_exists. split.
  - intros [y [Hy E]]. apply (H1 f y) in E; auto. now subst.
  - intros Hin. exists f. split; [exact Hin|]. apply (H1 f f); auto.
Qed.

Lemma join_boundary_In ps rl f :
  fwf (all_faces ps ++ joined_faces rl) ->
  (In f (join_boundary ps rl) <-> In f (all_faces ps) /\ ~ In f (joined_faces rl)).
Proof.
  intros W. unfold join_boundary.
  assert (Wa : fwf (all_faces ps)) by (eapply fwf_sub; [|exact W]; intros; apply in_or_app; auto).
  assert (Wj : fwf (joined_faces rl)) by (eapply fwf_sub; [|exact W]; intros; apply in_or_app; auto).
  destruct (joined_faces rl) as [|j0 jr] eqn:Ej.
  - unfold canonF. rewrite (canon_In _ _ _ _ Wa). simpl. tauto.
  - rewrite <- Ej in *. clear Ej j0 jr.
    set (flt := filter _ _).
    assert (Hflt : forall g, In g flt <-> In g (all_faces ps) /\ ~ In g (joined_faces rl)).
    { intros g. unfold flt. rewrite filter_In. unfold canonF. rewrite (canon_In _ _ _ _ Wa).
      split.
      - intros [Hg Hn]. split; [exact Hg|]. intros Hj. apply negb_true_iff in Hn.
        assert (mem face_pyeqb g (canon face_pyeqb face_str (joined_faces rl)) = true); [|congruence].
        apply (fmem_In (all_faces ps ++ joined_faces rl)); auto.
        + apply in_or_app; auto.
        + intros y Hy. apply (canon_In _ _ _ _ Wj) in Hy. apply in_or_app; auto.
        + now apply (canon_In _ _ _ _ Wj).
      - intros [Hg Hn]. split; [exact Hg|]. apply negb_true_iff.
        destruct (mem face_pyeqb g (canon face_pyeqb face_str (joined_faces rl))) eqn:E; [|reflexivity].
        exfalso. apply Hn.
        apply (fmem_In (all_faces ps ++ joined_faces rl)) in E; auto.
        + now apply (canon_In _ _ _ _ Wj) in E.
        + apply in_or_app; auto.
        + intros y Hy. apply (canon_In _ _ _ _ Wj) in Hy. apply in_or_app; auto. }
    assert (Wf : fwf flt).
    { eapply fwf_sub; [|exact Wa]. intros g Hg. now apply Hflt in Hg. }
    unfold canonF. rewrite (canon_In _ _ _ _ Wf). apply Hflt.
Qed.

(* ---------------------------------------------------------------- sides of the interfaces *)
Definition isides (i : iface) : list face := [i_minus i; i_plus i].

Lemma conn_iface_sides rl ifs :
  Forall2 conn_iface rl ifs -> Permutation (flat_map isides ifs) (joined_faces rl).
Proof.
  induction 1 as [|x i rl ifs Hx H IH]; simpl; [constructor|].
  destruct Hx as [->| ->]; unfold isides, rsides, mk_iface; simpl.
  - now do 2 constructor.
  - eapply perm_trans; [apply perm_swap|]. now do 2 constructor.
Qed.

Lemma NoDup_app_inv {A} (l1 l2 : list A) :
  NoDup (l1 ++ l2) -> NoDup l1 /\ NoDup l2 /\ forall x, In x l1 -> ~ In x l2.
Proof.
  induction l1 as [|a l1 IH]; simpl; intros H.
  - split; [constructor|]. split; [exact H|]. tauto.
  - inversion H as [|? ? Hn Hd]; subst. destruct (IH Hd) as [N1 [N2 Hdis]].
    split; [constructor; auto; intros Hin; apply Hn; apply in_or_app; auto|].
    split; [exact N2|]. intros x [->|Hx]; [intros Hin; apply Hn; apply in_or_app; auto|auto].
Qed.

Lemma NoDup_flat_map_unique {A B} (g : A -> list B) (l : list A) a b x :
  NoDup (flat_map g l) -> In a l -> In b l -> In x (g a) -> In x (g b) -> a = b.
Proof.
  induction l as [|c l IH]; simpl; [tauto|]. intros H Ha Hb Xa Xb.
  apply NoDup_app_inv in H. destruct H as [_ [N2 Hdis]].
  destruct Ha as [->|Ha], Hb as [->|Hb]; auto.
  - exfalso. apply (Hdis x Xa). apply in_flat_map. eauto.
  - exfalso. apply (Hdis x Xb). apply in_flat_map. eauto.
Qed.

Lemma NoDup_flat_map_each {A B} (g : A -> list B) (l : list A) a :
  NoDup (flat_map g l) -> In a l -> NoDup (g a).
Proof.
  induction l as [|c l IH]; simpl; [tauto|]. intros H [->|Ha].
  - now apply NoDup_app_inv in H.
  - apply NoDup_app_inv in H. apply IH; tauto.
Qed.

(* ================================================================ C13: the face partition *)
Definition side_of (f : face) (i : iface) : Prop :=
  (f = i_minus i /\ f <> i_plus i) \/ (f = i_plus i /\ f <> i_minus i).

Theorem join_face_partition ps cs nm D rl :
  2 <= length ps -> join ps cs nm = Ok D -> resolve_all ps cs = Ok rl ->
  fwf (all_faces ps ++ joined_faces rl) -> NoDup (joined_faces rl) ->
  rl_no_bar rl -> pair_bound rl ->
  forall f, In f (all_faces ps) ->
    (In f (d_boundary D) /\ forall i, In i (d_conn D) -> f <> i_minus i /\ f <> i_plus i)
    \/ (~ In f (d_boundary D) /\
        exists i, In i (d_conn D) /\ side_of f i /\
                  forall j, In j (d_conn D) -> (f = i_minus j \/ f = i_plus j) -> j = i).
Proof.
  intros Hlen HJ Hr W ND Hnb Hpb f Hf.
  destruct (join_inv _ _ _ _ Hlen HJ) as [rl' [ifs [Hr' [Hb [_ [_ [Hc [_ [Hbd _]]]]]]]]].
  rewrite Hr in Hr'. inversion Hr'; subst rl'. clear Hr'.
  assert (HS : exists new, ifs = [] ++ new /\ Forall2 conn_iface rl new /\ NoDup (map i_name ifs)).
  { apply (build_ifs_spec rl [] [] ifs); [constructor|constructor|exact Hnb|exact Hpb|exact Hb]. }
  destruct HS as [new [E [HF _]]]. simpl in E. subst new.
  pose proof (conn_iface_sides _ _ HF) as HP.
  assert (NDi : NoDup (flat_map isides ifs)) by (eapply Permutation_NoDup; [symmetry; exact HP|exact ND]).
  rewrite Hbd, Hc.
  destruct (in_dec (fun a b => match bool_dec (face_beq a b) true with
                               | left e => left (proj1 (face_beq_eq a b) e)
                               | right n => right (fun e => n (proj2 (face_beq_eq a b) e)) end)
                   f (joined_faces rl)) as [Hin|Hout].
  - right. split; [rewrite (join_boundary_In _ _ _ W); tauto|].
    apply (Permutation_in _ (Permutation_sym HP)) in Hin.
    apply in_flat_map in Hin. destruct Hin as [i [Hi Hs]].
    pose proof (NoDup_flat_map_each _ _ _ NDi Hi) as Ni. unfold isides in Ni.
    apply NoDup_cons_iff in Ni. destruct Ni as [Hnot _]. simpl in Hnot.
    exists i. split; [exact Hi|]. split.
    + unfold isides in Hs. simpl in Hs. destruct Hs as [E|[E|[]]]; subst f.
      * left. split; [reflexivity|]. intros E. apply Hnot. left. now symmetry.
      * right. split; [reflexivity|]. intros E. apply Hnot. left. exact E.
    + intros j Hj Hjs. apply (NoDup_flat_map_unique isides ifs j i f NDi Hj Hi); [|exact Hs].
      unfold isides. simpl. destruct Hjs as [->| ->]; auto.
  - left. split; [rewrite (join_boundary_In _ _ _ W); tauto|].
    intros i Hi. split; intros ->; apply Hout; apply (Permutation_in _ HP); apply in_flat_map;
      exists i; (split; [exact Hi|unfold isides; simpl; auto]).
Qed.

Lemma join_resolves ps cs nm D :
  2 <= length ps -> join ps cs nm = Ok D -> exists rl, resolve_all ps cs = Ok rl.
Proof. intros H1 H2. destruct (join_inv _ _ _ _ H1 H2) as [rl [_ [H _]]]. eauto. Qed.

(* ================================================================ C13: declared connections *)
(* one interface per declared connection, in the order of the declaration, with the declared
   faces and the declared orientation; minus/plus exchanged only after a name clash *)
Definition declared_as (x : face * face * ornt) (i : iface) : Prop :=
  ((i_minus i = rminus x /\ i_plus i = rplus x) \/ (i_minus i = rplus x /\ i_plus i = rminus x))
  /\ i_ornt i = rornt x
  /\ i_name i = iname (pname (f_patch (i_minus i))) (pname (f_patch (i_plus i))).

Theorem join_declared ps cs nm D rl :
  2 <= length ps -> join ps cs nm = Ok D -> resolve_all ps cs = Ok rl ->
  rl_no_bar rl -> pair_bound rl ->
  Forall2 declared_as rl (d_conn D) /\ NoDup (map i_name (d_conn D)).
Proof.
  intros Hlen HJ Hr Hnb Hpb.
  destruct (join_inv _ _ _ _ Hlen HJ) as [rl' [ifs [Hr' [Hb [_ [_ [Hc _]]]]]]].
  rewrite Hr in Hr'. inversion Hr'; subst rl'. clear Hr'.
  assert (HS : exists new, ifs = [] ++ new /\ Forall2 conn_iface rl new /\ NoDup (map i_name ifs)).
  { apply (build_ifs_spec rl [] [] ifs); [constructor|constructor|exact Hnb|exact Hpb|exact Hb]. }
  destruct HS as [new [E [HF HN]]]. simpl in E. subst new. rewrite Hc. split; [|exact HN].
  clear - HF. induction HF as [|x i rl ifs Hx _ IH]; constructor; [|exact IH].
  destruct Hx as [->| ->]; unfold declared_as, mk_iface; simpl; auto.
Qed.

(* the k-th connection is resolved to the faces looked up on the referenced patches *)
Lemma mapM_Forall2 {A B} (f : A -> res B) l l' :
  mapM f l = Ok l' -> Forall2 (fun a b => f a = Ok b) l l'.
Proof.
  revert l'. induction l as [|a l IH]; simpl; intros l' H.
  - inversion H. constructor.
  - apply bind_ok in H. destruct H as [b [Hb H]]. apply bind_ok in H. destruct H as [bs [Hbs H]].
    inversion H; subst. constructor; auto.
Qed.

Lemma resolve_conn_ok ps bi dim c fm fp o :
  resolve_conn ps bi dim c = Ok (fm, fp, o) ->
  exists pm pp, resolve_patch ps bi (s_ref (c_minus c)) = Ok pm /\ resolve_patch ps bi (s_ref (c_plus c)) = Ok pp
    /\ get_boundary pm (s_axis (c_minus c)) (s_ext (c_minus c)) = Ok fm
    /\ get_boundary pp (s_axis (c_plus c)) (s_ext (c_plus c)) = Ok fp
    /\ ornt_of dim (c_ornt c) = Ok o.
Proof.
  unfold resolve_conn. intros H.
  apply bind_ok in H. destruct H as [pm [H1 H]]. apply bind_ok in H. destruct H as [pp [H2 H]].
  apply bind_ok in H. destruct H as [fm' [H3 H]]. apply bind_ok in H. destruct H as [fp' [H4 H]].
  apply bind_ok in H. destruct H as [o' [H5 H]]. inversion H; subst. exists pm, pp. auto.
Qed.

(* ================================================================ C13: all patches are interiors *)
Theorem join_interiors ps cs nm D :
  2 <= length ps -> join ps cs nm = Ok D -> pwf (flat_map d_interiors ps) ->
  (forall p, In p (d_interiors D) <-> exists d, In d ps /\ In p (d_interiors d))
  /\ NoDup (d_interiors D) /\ StronglySorted (kle pname) (d_interiors D).
Proof.
  intros Hlen HJ W.
  destruct (join_inv _ _ _ _ Hlen HJ) as [rl [ifs [_ [_ [_ [_ [_ [Hi _]]]]]]]].
  rewrite Hi. unfold canonP. split; [|split].
  - intros p. rewrite (canon_In _ _ _ _ W). rewrite in_flat_map. tauto.
  - now apply canon_NoDup.
  - apply canon_sorted.
Qed.

(* ================================================================ soundness of the decidable hypotheses *)
Lemma upair_eqb_sym a b x : upair_eqb a b x = upair_eqb b a x.
Proof. unfold upair_eqb. apply orb_comm. Qed.

Lemma pair_cap_sym a b : pair_cap a b = pair_cap b a.
Proof. unfold pair_cap. now rewrite String.eqb_sym. Qed.

Lemma pair_bound_rl_b_sound rl : pair_bound_rl_b rl = true -> pair_bound rl.
Proof.
  unfold pair_bound_rl_b, pair_bound. rewrite forallb_forall. intros H a b.
  destruct (filter (upair_eqb a b) rl) as [|x r] eqn:E; [simpl; lia|].
  assert (Hx : In x (filter (upair_eqb a b) rl)) by (rewrite E; now left).
  apply filter_In in Hx. destruct Hx as [Hin Hu].
  specialize (H x Hin). apply Nat.leb_le in H. rewrite <- E.
  unfold upair_eqb in Hu. apply orb_true_iff in Hu.
  destruct Hu as [Hu|Hu]; apply andb_true_iff in Hu; destruct Hu as [E1 E2];
    apply String.eqb_eq in E1, E2; rewrite E1, E2 in H.
  - exact H.
  - rewrite (filter_ext _ _ (upair_eqb_sym a b)), pair_cap_sym. exact H.
Qed.

Theorem wf_join_b_sound ps cs :
  wf_join_b ps cs = true ->
  exists rl, resolve_all ps cs = Ok rl /\ 2 <= length ps /\
             fwf (all_faces ps ++ joined_faces rl) /\ NoDup (joined_faces rl) /\ rl_no_bar rl /\
             pwf (flat_map d_interiors ps).
Proof.
  unfold wf_join_b. destruct (resolve_all ps cs) as [rl|e]; [|discriminate].
  rewrite !andb_true_iff. intros [[[[H1 H2] H3] H4] H5]. exists rl. split; [reflexivity|].
  split; [now apply Nat.leb_le|]. split; [now apply fwf_b_sound|]. split; [now apply fnodup_b_sound|].
  split; [|now apply pwf_b_sound].
  intros f Hf. rewrite forallb_forall in H4. now apply H4.
Qed.

Theorem pair_bound_b_sound ps cs rl :
  pair_bound_b ps cs = true -> resolve_all ps cs = Ok rl -> pair_bound rl.
Proof. unfold pair_bound_b. intros H E. rewrite E in H. now apply pair_bound_rl_b_sound. Qed.

(* ================================================================ a third connection between the same
   two patches overwrites a dictionary entry: faces disappear from boundary and interfaces alike *)
Definition sqA : patch := mkPatch "A" None 2 ["0"; "0"] ["1"; "1"].
Definition sqB : patch := mkPatch "B" None 2 ["0"; "0"] ["1"; "1"].
Definition three_conns : list conn :=
  [ mkConn (mkSide (PIdx 0) 0 1) (mkSide (PIdx 1) 0 (-1)) (Some (O2 1));
    mkConn (mkSide (PIdx 0) 0 (-1)) (mkSide (PIdx 1) 0 1) (Some (O2 1));
    mkConn (mkSide (PIdx 0) 1 1) (mkSide (PIdx 1) 1 (-1)) (Some (O2 1)) ].

Lemma In_face_b f l : In f l <-> existsb (face_beq f) l = true.
Proof.
  rewrite existsb_exists. split.
  - intros H. exists f. split; [exact H|now apply face_beq_eq].
  - intros [g [Hg E]]. apply face_beq_eq in E. now subst.
Qed.

Theorem join_partition_refuted :
  exists ps cs nm D rl f,
    join ps cs nm = Ok D /\ resolve_all ps cs = Ok rl /\ 2 <= length ps /\
    fwf (all_faces ps ++ joined_faces rl) /\ NoDup (joined_faces rl) /\ rl_no_bar rl /\
    In f (all_faces ps) /\ ~ In f (d_boundary D) /\
    forall i, In i (d_conn D) -> f <> i_minus i /\ f <> i_plus i.
Proof.
  set (ps := [ncube_domain sqA; ncube_domain sqB]).
  destruct (join ps three_conns "AB") as [D|] eqn:EJ; [|vm_compute in EJ; discriminate].
  destruct (resolve_all ps three_conns) as [rl|] eqn:ER; [|vm_compute in ER; discriminate].
  exists ps, three_conns, "AB", D, rl, (mkFace sqA 0 (-1)).
  vm_compute in EJ. inversion EJ; subst D; clear EJ.
  vm_compute in ER. inversion ER; subst rl; clear ER.
  split; [reflexivity|]. split; [reflexivity|]. split; [simpl; lia|].
  split; [apply fwf_b_sound; vm_compute; reflexivity|].
  split; [apply fnodup_b_sound; vm_compute; reflexivity|].
  split; [intros f Hf; apply In_face_b in Hf; revert f Hf; 
          assert (H : forallb (fun f => no_bar (pname (f_patch f)))
                        (joined_faces [(mkFace sqA 0 1, mkFace sqB 0 (-1), O2 1); (mkFace sqA 0 (-1), mkFace sqB 0 1, O2 1);
                                       (mkFace sqA 1 1, mkFace sqB 1 (-1), O2 1)]) = true) by (vm_compute; reflexivity);
          rewrite forallb_forall in H; intros f Hf; apply H; now apply In_face_b|].
  split; [apply In_face_b; vm_compute; reflexivity|].
  split; [intros H; apply In_face_b in H; vm_compute in H; discriminate|].
  intros i Hi. simpl in Hi.
  destruct Hi as [<-|[<-|[]]]; simpl; split; intros E; inversion E.
Qed.

(* ================================================================ C13: the logical twin *)
(* the logical counterpart of an interface between two mapped patches *)
Definition liface (i : iface) : iface :=
  mkIface (iname (p_lname (f_patch (i_minus i))) (p_lname (f_patch (i_plus i))))
          (lface (i_minus i)) (lface (i_plus i)) (i_ornt i).

Lemma iface_logical_some i j : iface_logical i = Some j -> j = liface i.
Proof.
  unfold iface_logical. destruct (is_mapped _ && is_mapped _); [|discriminate].
  intros H. now inversion H.
Qed.

Lemma logical_conn_spec : forall l acc lifs,
  logical_conn l acc = Ok lifs -> NoDup (map i_name (acc ++ map liface l)) ->
  lifs = acc ++ map liface l.
Proof.
  induction l as [|v l IH]; simpl; intros acc lifs H ND.
  - inversion H. now rewrite app_nil_r.
  - destruct (iface_logical v) as [lv|] eqn:E; [|discriminate].
    apply iface_logical_some in E. subst lv.
    assert (Hfr : dict_mem (i_name (liface v)) acc = false).
    { destruct (dict_mem (i_name (liface v)) acc) eqn:Hm; [|reflexivity]. exfalso.
      apply dict_mem_In in Hm. destruct Hm as [j [Hj Ej]].
      rewrite map_app in ND. simpl in ND. apply NoDup_app_inv in ND. destruct ND as [_ [_ Hd]].
      apply (Hd (i_name j)); [now apply in_map|]. left. now symmetry. }
    rewrite (dict_set_fresh _ _ Hfr) in H. apply IH in H.
    + now rewrite <- app_assoc in H.
    + now rewrite <- app_assoc.
Qed.

Lemma NoDup_map_transfer {A B C} (f : A -> B) (g : A -> C) (l : list A) :
  NoDup (map f l) -> (forall x y, In x l -> In y l -> g x = g y -> f x = f y) -> NoDup (map g l).
Proof.
  induction l as [|a l IH]; simpl; intros H Hinj; [constructor|].
  inversion H as [|? ? Hn Hd]; subst. constructor.
  - intros Hin. apply in_map_iff in Hin. destruct Hin as [y [Ey Hy]].
    apply Hn. apply in_map_iff. exists y. split; [|exact Hy]. apply Hinj; auto.
  - apply IH; auto.
Qed.

Theorem join_twin ps cs nm D rl :
  2 <= length ps -> join ps cs nm = Ok D -> resolve_all ps cs = Ok rl ->
  rl_no_bar rl -> pair_bound rl ->
  forallb is_mapped (d_interiors D) = true ->
  (* distinct patches have distinct logical patches *)
  (forall f g, In f (joined_faces rl) -> In g (joined_faces rl) ->
               p_lname (f_patch f) = p_lname (f_patch g) -> pname (f_patch f) = pname (f_patch g)) ->
  (forall f, In f (joined_faces rl) -> no_bar (p_lname (f_patch f)) = true) ->
  fwf (map lface (d_boundary D)) -> pwf (map lpatch (d_interiors D)) ->
  exists L, d_logical D = Some L /\ d_name L = nm /\ d_dim L = d_dim D
    /\ d_logical L = None /\ d_mapping L = MNone
    /\ d_conn L = map liface (d_conn D)
    /\ (forall g, In g (d_boundary L) <-> exists f, In f (d_boundary D) /\ g = lface f)
    /\ (forall q, In q (d_interiors L) <-> exists p, In p (d_interiors D) /\ q = lpatch p).
Proof.
  intros Hlen HJ Hr Hnb Hpb Hmap Hlinj Hlnb Wf Wp.
  destruct (join_declared _ _ _ _ _ Hlen HJ Hr Hnb Hpb) as [HD HN].
  destruct (join_inv _ _ _ _ Hlen HJ) as [rl' [ifs [Hr' [Hb [_ [Hdim [Hc [_ [_ [HL _]]]]]]]]]].
  destruct (HL Hmap) as [lifs [Hlc [Hlog _]]]. clear HL.
  exists (logical_of nm (join_dim ps) (d_interiors D) (d_boundary D) lifs).
  split; [exact Hlog|]. simpl. split; [reflexivity|]. split; [now symmetry|].
  split; [reflexivity|]. split; [reflexivity|].
  split.
  - rewrite <- Hc in Hlc. apply logical_conn_spec in Hlc; [exact Hlc|]. simpl.
    rewrite map_map.
    apply (NoDup_map_transfer i_name (fun i => i_name (liface i)) (d_conn D) HN).
    (* equal logical names -> equal names *)
    assert (Hside : forall i, In i (d_conn D) ->
              In (i_minus i) (joined_faces rl) /\ In (i_plus i) (joined_faces rl)
              /\ i_name i = iname (pname (f_patch (i_minus i))) (pname (f_patch (i_plus i)))).
    { clear - HD. induction HD as [|x i rl ifs Hx _ IH]; simpl; [tauto|].
      intros j [<-|Hj].
      - destruct Hx as [[[E1 E2]|[E1 E2]] [_ E3]]; (split; [rewrite E1|split; [rewrite E2|exact E3]]); auto.
      - destruct (IH j Hj) as [A [B C]]. repeat split; auto; right; right; assumption. }
    intros i j Hi Hj E. simpl in E.
    destruct (Hside i Hi) as [Im [Ip Ei]]. destruct (Hside j Hj) as [Jm [Jp Ej]].
    apply iname_inj in E; auto. destruct E as [E1 E2].
    rewrite Ei, Ej. f_equal; apply Hlinj; auto.
  - split.
    + intros g. unfold canonF. rewrite (canon_In _ _ _ _ Wf). rewrite in_map_iff.
      split; intros [f [A B]]; exists f; auto.
    + intros q. unfold canonP. rewrite (canon_In _ _ _ _ Wp). rewrite in_map_iff.
      split; intros [p [A B]]; exists p; auto.
Qed.

(* a domain with an unmapped patch has no logical domain and no mapping *)
Theorem join_twin_unmapped ps cs nm D :
  2 <= length ps -> join ps cs nm = Ok D ->
  forallb is_mapped (d_interiors D) = false -> d_logical D = None /\ d_mapping D = MNone.
Proof.
  intros Hlen HJ Hm.
  destruct (join_inv _ _ _ _ Hlen HJ) as [rl [ifs [_ [_ [_ [_ [_ [_ [_ [_ HU]]]]]]]]]]. auto.
Qed.

(* face by face: the renaming is one-to-one on the faces of patches with distinct logical names *)
Lemma lface_inj (P : list patch) f g :
  (forall p q, In p P -> In q P -> p_lname p = p_lname q -> p = q) ->
  In (f_patch f) P -> In (f_patch g) P -> lface f = lface g -> f = g.
Proof.
  intros Hinj Hf Hg E. destruct f as [p a e], g as [q b e']. unfold lface in E. simpl in *.
  inversion E. f_equal. apply Hinj; auto.
Qed.

(* ================================================================ C13: face lookup by (axis, side) *)
Theorem get_boundary_ok d a e f :
  get_boundary d a e = Ok f -> In f (d_boundary d) /\ f_axis f = a /\ f_ext f = e.
Proof.
  unfold get_boundary. destruct (find _ (d_boundary d)) as [g|] eqn:E; [|discriminate].
  intros H. injection H as <-. apply find_some in E. destruct E as [Hin Hb].
  apply andb_true_iff in Hb. destruct Hb as [B1 B2].
  apply Z.eqb_eq in B1. apply Nat.eqb_eq in B2. auto.
Qed.

Theorem get_boundary_err d a e er :
  get_boundary d a e = Err er ->
  er = EValue /\ forall f, In f (d_boundary d) -> ~ (f_axis f = a /\ f_ext f = e).
Proof.
  unfold get_boundary. destruct (find _ (d_boundary d)) as [g|] eqn:E; [discriminate|].
  intros H. injection H as <-. split; [reflexivity|]. intros f Hf [B1 B2].
  pose proof (find_none _ _ E f Hf) as Hn. simpl in Hn.
  rewrite B1, B2, Z.eqb_refl, Nat.eqb_refl in Hn. discriminate.
Qed.

Theorem get_boundary_complete d a e f0 :
  In f0 (d_boundary d) -> f_axis f0 = a -> f_ext f0 = e -> exists f, get_boundary d a e = Ok f.
Proof.
  intros Hin H1 H2. destruct (get_boundary d a e) as [f|er] eqn:E; [eauto|].
  apply get_boundary_err in E. destruct E as [_ E]. exfalso. apply (E f0 Hin). auto.
Qed.

(* a domain made of the single n-cube patch q *)
Definition patch_like (q : patch) (d : domain) : Prop :=
  forall f, In f (d_boundary d) <->
            exists a e, f = mkFace q a e /\ a < p_dim q /\ (e = 1%Z \/ e = (-1)%Z).

Theorem get_boundary_patch q d a e :
  patch_like q d ->
  (a < p_dim q /\ (e = 1%Z \/ e = (-1)%Z) -> get_boundary d a e = Ok (mkFace q a e)) /\
  (~ (a < p_dim q /\ (e = 1%Z \/ e = (-1)%Z)) -> get_boundary d a e = Err EValue).
Proof.
  intros HP. split.
  - intros [Ha He].
    assert (Hin : In (mkFace q a e) (d_boundary d)) by (apply HP; eauto).
    destruct (get_boundary_complete d a e _ Hin eq_refl eq_refl) as [f Hf].
    rewrite Hf. f_equal. apply get_boundary_ok in Hf. destruct Hf as [Hi [H1 H2]].
    apply HP in Hi. destruct Hi as [a' [e' [-> _]]]. simpl in *. now subst.
  - intros Hn. destruct (get_boundary d a e) as [f|er] eqn:E.
    + exfalso. apply get_boundary_ok in E. destruct E as [Hi [H1 H2]].
      apply HP in Hi. destruct Hi as [a' [e' [-> [A B]]]]. simpl in *. subst. tauto.
    + apply get_boundary_err in E. now destruct E as [-> _].
Qed.

Lemma faces_of_In p f :
  In f (faces_of p) <-> exists a e, f = mkFace p a e /\ a < p_dim p /\ (e = 1%Z \/ e = (-1)%Z).
Proof.
  unfold faces_of. rewrite in_flat_map. split.
  - intros [a [Ha Hf]]. apply in_seq in Ha. simpl in Hf.
    destruct Hf as [<-|[<-|[]]]; exists a; eexists; (split; [reflexivity|]); split; auto; lia.
  - intros [a [e [-> [Ha He]]]]. exists a. split; [apply in_seq; lia|].
    simpl. destruct He as [-> | ->]; auto.
Qed.

Lemma append_inj_l s x y : s +++ x = s +++ y -> x = y.
Proof. induction s; simpl; intros H; [exact H|]. inversion H. auto. Qed.

Lemma nat_str_inj n m : nat_str n = nat_str m -> n = m.
Proof.
  unfold nat_str. intros H.
  assert (E : Nat.to_uint n = Nat.to_uint m).
  { pose proof (NilEmpty.usu (Nat.to_uint n)) as A. pose proof (NilEmpty.usu (Nat.to_uint m)) as B.
    rewrite H in A. rewrite A in B. now inversion B. }
  rewrite <- (DecimalNat.Unsigned.of_to n), <- (DecimalNat.Unsigned.of_to m). now rewrite E.
Qed.

Lemma gidx_inj a e b e' :
  (e = 1%Z \/ e = (-1)%Z) -> (e' = 1%Z \/ e' = (-1)%Z) -> gidx a e = gidx b e' -> a = b /\ e = e'.
Proof. unfold gidx. intros [-> | ->] [-> | ->]; simpl; intros H; split; lia. Qed.

(* the faces of one patch: == is Leibniz equality and the printed names are pairwise different,
   in every dimension *)
Lemma faces_of_wf p : fwf (faces_of p).
Proof.
  split; intros f g Hf Hg; apply faces_of_In in Hf, Hg;
    destruct Hf as [a [e [-> [Ha He]]]]; destruct Hg as [b [e' [-> [Hb He']]]].
  - unfold face_pyeqb; simpl. rewrite String.eqb_refl. simpl.
    rewrite andb_true_iff, Nat.eqb_eq, Z.eqb_eq. split; [intros [-> ->]; reflexivity|].
    intros E. inversion E. auto.
  - unfold face_str, gamma_name; simpl. intros E.
    apply append_inj_l in E. simpl in E. inversion E as [E'].
    apply nat_str_inj in E'. rename E' into E2. clear E. rename E2 into E. apply gidx_inj in E; auto. destruct E as [-> ->]. reflexivity.
Qed.

Theorem ncube_patch_like p : patch_like p (ncube_domain p).
Proof.
  intros f. unfold ncube_domain; simpl. unfold canonF.
  rewrite (canon_In _ _ _ _ (faces_of_wf p)). apply faces_of_In.
Qed.

Lemma map_face_faces m p f :
  In f (map (map_face m) (canonF (faces_of p))) <-> In f (faces_of (map_patch m p)).
Proof.
  rewrite in_map_iff, faces_of_In. split.
  - intros [g [<- Hg]]. unfold canonF in Hg. apply (canon_In _ _ _ _ (faces_of_wf p)) in Hg.
    apply faces_of_In in Hg. destruct Hg as [a [e [-> [Ha He]]]].
    exists a, e. unfold map_face; simpl. auto.
  - intros [a [e [-> [Ha He]]]]. exists (mkFace p a e). split; [reflexivity|].
    unfold canonF. apply (canon_In _ _ _ _ (faces_of_wf p)). apply faces_of_In. exists a, e. auto.
Qed.

(* M(patch): a mapping applied to a plain n-cube *)
Theorem mapped_patch_like m p :
  p_map p = None ->
  exists d, map_domain m (ncube_domain p) = Ok d /\ patch_like (map_patch m p) d
            /\ d_interiors d = [map_patch m p] /\ d_logical d = Some (ncube_domain p)
            /\ d_mapping d = MSingle m /\ d_conn d = [].
Proof.
  intros Hp. unfold map_domain. simpl. unfold is_mapped. rewrite Hp. simpl.
  eexists. split; [reflexivity|]. simpl. split; [|auto].
  intros f. unfold canonF at 1.
  assert (W : fwf (map (map_face m) (canonF (faces_of p)))).
  { eapply fwf_sub; [|apply (faces_of_wf (map_patch m p))]. intros g. apply map_face_faces. }
  rewrite (canon_In _ _ _ _ W). rewrite map_face_faces. apply faces_of_In.
Qed.

(* ================================================================ a successful join, forwards *)
Lemma join_loop_intro ps bi dim : forall cs rl ifs ifs' bnds,
  mapM (resolve_conn ps bi dim) cs = Ok rl -> build_ifs rl ifs = Ok ifs' ->
  join_loop ps bi dim cs ifs bnds = Ok (ifs', bnds ++ joined_faces rl).
Proof.
  induction cs as [|c cs IH]; simpl; intros rl ifs ifs' bnds Hm Hb.
  - inversion Hm; subst. simpl in Hb. inversion Hb; subst. now rewrite app_nil_r.
  - apply bind_ok in Hm. destruct Hm as [x [Hx Hm]]. apply bind_ok in Hm. destruct Hm as [xs [Hxs Hm]].
    inversion Hm; subst rl; clear Hm. simpl in Hb. apply bind_ok in Hb. destruct Hb as [ifs1 [Hs Hb]].
    rewrite Hx. simpl. rewrite Hs. simpl. rewrite (IH xs ifs1 ifs' _ Hxs Hb).
    now rewrite <- app_assoc.
Qed.

Definition join_result (ps : list domain) (nm : string) (rl : list (face * face * ornt)) (ifs : list iface)
           (lifs : list iface) : domain :=
  let ints := canonP (flat_map d_interiors ps) in
  let bnd := join_boundary ps rl in
  if forallb is_mapped ints
  then mkDomain nm (join_dim ps) ints bnd ifs (multi_mapping ints)
                (Some (logical_of nm (join_dim ps) ints bnd lifs))
  else mkDomain nm (join_dim ps) ints bnd ifs MNone None.

Lemma join_intro ps cs nm rl ifs :
  2 <= length ps ->
  forallb (fun p => Nat.eqb (d_dim p) (join_dim ps)) ps = true ->
  resolve_all ps cs = Ok rl -> build_ifs rl [] = Ok ifs ->
  existsb (fun p => Nat.ltb (length (d_boundary p)) 2) ps = false ->
  length (join_boundary ps rl) <> 1 ->
  2 <= length (canonP (flat_map d_interiors ps)) ->
  forall lifs,
  (forallb is_mapped (canonP (flat_map d_interiors ps)) = true -> logical_conn ifs [] = Ok lifs) ->
  join ps cs nm = Ok (join_result ps nm rl ifs lifs).
Proof.
  destruct ps as [|p0 [|p1 r]]; simpl length; try lia. intros _.
  intros Hd Hr Hb He Hl Hi lifs HL.
  unfold join. set (ps := p0 :: p1 :: r) in *.
  assert (Hd' : forallb (fun p => Nat.eqb (d_dim p) (d_dim p0)) ps = true) by exact Hd.
  rewrite Hd'. simpl negb. cbv iota.
  unfold resolve_all in Hr. change (join_dim ps) with (d_dim p0) in Hr.
  rewrite (join_loop_intro ps (by_indices cs) (d_dim p0) cs rl [] ifs [] Hr Hb). cbn [bind app]. cbv beta iota.
  rewrite He. fold (all_faces ps).
  change (match joined_faces rl with
          | [] => canonF (all_faces ps)
          | _ :: _ => canonF (filter (fun f => negb (mem face_pyeqb f (canonF (joined_faces rl)))) (canonF (all_faces ps)))
          end) with (join_boundary ps rl).
  destruct (Nat.eqb (length (join_boundary ps rl)) 1) eqn:E1; [apply Nat.eqb_eq in E1; contradiction|].
  change (2 <= length (canonP (flat_map d_interiors ps))) in Hi.
  destruct (Nat.ltb (length (canonP (flat_map d_interiors ps))) 2) eqn:E2; [apply Nat.ltb_lt in E2; lia|].
  unfold join_result.
  destruct (forallb is_mapped (canonP (flat_map d_interiors ps))) eqn:Hm.
  - rewrite (HL eq_refl). reflexivity.
  - reflexivity.
Qed.
