(* Lemmas about the topology model (C13, C15). *)
From Coq Require Import String Ascii List Bool Arith PeanoNat ZArith Lia Permutation Sorted.
From V Require Import Core.StrOrd Core.Canon Model.TopologyM.
Import ListNotations.
Open Scope string_scope.
Open Scope list_scope.
Local Infix "+++" := String.append (right associativity, at level 60).

(* ================================================================ hypotheses, in decidable form *)
Fixpoint no_bar (s : string) : bool :=
  match s with
  | EmptyString => true
  | String c r => negb (Ascii.eqb c "|"%char) && no_bar r
  end.

Definition join_dim (ps : list domain) : nat := match ps with p :: _ => d_dim p | [] => 0 end.
(* the connections of a join call, resolved to faces (what the loop of Domain.join computes first) *)
Definition resolve_all (ps : list domain) (cs : list conn) : res (list (face * face * ornt)) :=
  mapM (resolve_conn ps (by_indices cs) (join_dim ps)) cs.
Definition rminus (x : face * face * ornt) : face := fst (fst x).
Definition rplus (x : face * face * ornt) : face := snd (fst x).
Definition rornt (x : face * face * ornt) : ornt := snd x.
Definition rsides (x : face * face * ornt) : list face := [rminus x; rplus x].
Definition joined_faces (rl : list (face * face * ornt)) : list face := flat_map rsides rl.
Definition all_faces (ps : list domain) : list face := flat_map d_boundary ps.

(* == on faces is Leibniz equality and str is injective, on a given family *)
Definition fwf (l : list face) : Prop := wf face_pyeqb face_str l.
Definition fwf_b (l : list face) : bool :=
  forallb (fun a => forallb (fun b =>
     Bool.eqb (face_pyeqb a b) (face_beq a b)
     && implb (String.eqb (face_str a) (face_str b)) (face_beq a b)) l) l.
Definition pwf (l : list patch) : Prop := wf patch_pyeqb pname l.
Definition pwf_b (l : list patch) : bool :=
  forallb (fun a => forallb (fun b => Bool.eqb (patch_pyeqb a b) (patch_beq a b)) l) l.

Fixpoint fnodup_b (l : list face) : bool :=
  match l with [] => true | f :: r => negb (existsb (face_beq f) r) && fnodup_b r end.

Definition rnames (x : face * face * ornt) : string * string :=
  (pname (f_patch (rminus x)), pname (f_patch (rplus x))).
(* the connection joins the patches named a and b (in either order) *)
Definition upair_eqb (a b : string) (x : face * face * ornt) : bool :=
  (String.eqb (fst (rnames x)) a && String.eqb (snd (rnames x)) b)
  || (String.eqb (fst (rnames x)) b && String.eqb (snd (rnames x)) a).
Definition pair_cap (a b : string) : nat := if String.eqb a b then 1 else 2.
(* at most two connections per unordered pair of distinct patches, at most one per self pair *)
Definition pair_bound (rl : list (face * face * ornt)) : Prop :=
  forall a b, length (filter (upair_eqb a b) rl) <= pair_cap a b.
Definition pair_bound_rl_b (rl : list (face * face * ornt)) : bool :=
  forallb (fun x => Nat.leb (length (filter (upair_eqb (fst (rnames x)) (snd (rnames x))) rl))
                            (pair_cap (fst (rnames x)) (snd (rnames x)))) rl.

Definition wf_join_b (ps : list domain) (cs : list conn) : bool :=
  match resolve_all ps cs with
  | Err _ => false
  | Ok rl =>
      Nat.leb 2 (length ps)
      && fwf_b (all_faces ps ++ joined_faces rl)
      && fnodup_b (joined_faces rl)
      && forallb (fun f => no_bar (pname (f_patch f))) (joined_faces rl)
      && pwf_b (flat_map d_interiors ps)
  end.
Definition pair_bound_b (ps : list domain) (cs : list conn) : bool :=
  match resolve_all ps cs with Err _ => false | Ok rl => pair_bound_rl_b rl end.
